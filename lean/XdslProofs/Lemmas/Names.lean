import XdslModel.Names
import XdslProofs.Lemmas.AL
/-!
Helper lemmas for C04 (names): digits, suffix stripping, injectivity of `hintName`.
-/
namespace Xdsl.Names

/-! ### characters -/

theorem isDigit_not_start {c : Char} (h : isDigit c = true) : isStart c = false := by
  simp only [isDigit, Bool.and_eq_true, decide_eq_true_eq] at h
  have h1 : ¬ (97 ≤ c.toNat) := by omega
  have h2 : ¬ (c.toNat ≤ 90 ∧ 65 ≤ c.toNat) := by omega
  have e1 : c ≠ '_' := by intro e; subst e; simp at h
  have e2 : c ≠ '$' := by intro e; subst e; simp at h
  have e3 : c ≠ '.' := by intro e; subst e; simp at h
  have e4 : c ≠ '-' := by intro e; subst e; simp at h
  simp [isStart, isAlpha, isPunct, e1, e2, e3, e4]
  omega

theorem underscore_not_digit : isDigit '_' = false := by decide
theorem underscore_cont : isCont '_' = true := by decide
theorem b_not_digit : isDigit 'b' = false := by decide

theorem digitChar_isDigit {n : Nat} (h : n < 10) : isDigit (digitChar n) = true := by
  have : n = 0 ∨ n = 1 ∨ n = 2 ∨ n = 3 ∨ n = 4 ∨ n = 5 ∨ n = 6 ∨ n = 7 ∨ n = 8 ∨ n = 9 := by omega
  rcases this with h | h | h | h | h | h | h | h | h | h <;> subst h <;> decide

theorem digitChar_inj {a b : Nat} (ha : a < 10) (hb : b < 10) (h : digitChar a = digitChar b) : a = b := by
  have : a = 0 ∨ a = 1 ∨ a = 2 ∨ a = 3 ∨ a = 4 ∨ a = 5 ∨ a = 6 ∨ a = 7 ∨ a = 8 ∨ a = 9 := by omega
  have : b = 0 ∨ b = 1 ∨ b = 2 ∨ b = 3 ∨ b = 4 ∨ b = 5 ∨ b = 6 ∨ b = 7 ∨ b = 8 ∨ b = 9 := by omega
  rcases ‹a = 0 ∨ _› with h1 | h1 | h1 | h1 | h1 | h1 | h1 | h1 | h1 | h1 <;>
  rcases ‹b = 0 ∨ _› with h2 | h2 | h2 | h2 | h2 | h2 | h2 | h2 | h2 | h2 <;>
  subst h1 <;> subst h2 <;> first | rfl | (exact absurd h (by decide))

/-! ### `natDigits` -/

theorem natDigits_lt {n : Nat} (h : n < 10) : natDigits n = [digitChar n] := by
  rw [natDigits]; simp [h]

theorem natDigits_ge {n : Nat} (h : ¬ n < 10) :
    natDigits n = natDigits (n / 10) ++ [digitChar (n % 10)] := by
  rw [natDigits]; simp [h]

theorem natDigits_ne_nil (n : Nat) : natDigits n ≠ [] := by
  by_cases h : n < 10
  · rw [natDigits_lt h]; simp
  · rw [natDigits_ge h]; simp

theorem natDigits_all_digit (n : Nat) : (natDigits n).all isDigit = true := by
  induction n using Nat.strongRecOn with
  | _ n ih =>
    by_cases h : n < 10
    · rw [natDigits_lt h]; simp [digitChar_isDigit h]
    · rw [natDigits_ge h]
      have h2 : n % 10 < 10 := Nat.mod_lt _ (by omega)
      simp only [List.all_append, ih (n / 10) (by omega), List.all_cons, digitChar_isDigit h2,
        List.all_nil, Bool.and_self]

theorem natDigits_length_ge {n : Nat} (h : ¬ n < 10) : 2 ≤ (natDigits n).length := by
  rw [natDigits_ge h]
  have := natDigits_ne_nil (n / 10)
  have : 0 < (natDigits (n / 10)).length := List.length_pos_iff.mpr this
  simp; omega

theorem natDigits_inj : ∀ {a b : Nat}, natDigits a = natDigits b → a = b := by
  intro a
  induction a using Nat.strongRecOn with
  | _ a ih =>
    intro b hab
    by_cases ha : a < 10
    · by_cases hb : b < 10
      · rw [natDigits_lt ha, natDigits_lt hb] at hab
        exact digitChar_inj ha hb (by simpa using hab)
      · have := natDigits_length_ge hb
        rw [← hab, natDigits_lt ha] at this; simp at this
    · by_cases hb : b < 10
      · have := natDigits_length_ge ha
        rw [hab, natDigits_lt hb] at this; simp at this
      · rw [natDigits_ge ha, natDigits_ge hb] at hab
        have hl := List.append_inj' hab (by simp)
        have h1 := ih (a / 10) (by omega) hl.1
        have h2 : a % 10 = b % 10 :=
          digitChar_inj (Nat.mod_lt _ (by omega)) (Nat.mod_lt _ (by omega)) (by simpa using hl.2)
        omega


/-! ### `dropDigits`, `stripRev`, `strip` -/

theorem dropDigits_digits_append {ds : Str} (hd : ds.all isDigit = true) (c : Char) (r : Str)
    (hc : isDigit c = false) : dropDigits (ds ++ c :: r) = c :: r := by
  induction ds with
  | nil => simp [dropDigits, hc]
  | cons d ds ih =>
    simp only [List.all_cons, Bool.and_eq_true] at hd
    simp [dropDigits, hd.1, ih hd.2]

theorem dropDigits_suffix (r : Str) : ∃ p, r = p ++ dropDigits r := by
  induction r with
  | nil => exact ⟨[], rfl⟩
  | cons c r ih =>
    unfold dropDigits
    split
    · obtain ⟨p, hp⟩ := ih
      exact ⟨c :: p, by rw [List.cons_append, ← hp]⟩
    · exact ⟨[], rfl⟩

theorem stripRev_nil : stripRev [] = [] := by rw [stripRev]

theorem stripRev_cons_nondigit {c : Char} (r : Str) (hc : isDigit c = false) :
    stripRev (c :: r) = c :: r := by
  rw [stripRev]; simp [hc]

theorem stripRev_cons_group {c : Char} {r rest : Str} (hc : isDigit c = true)
    (h : dropDigits r = '_' :: rest) : stripRev (c :: r) = stripRev rest := by
  rw [stripRev]
  simp only [hc, if_true]
  split
  · rename_i rest' heq
    rw [h] at heq
    cases heq
    rfl
  · rename_i hne
    exact absurd h (hne _)

theorem stripRev_cons_stop {c : Char} {r : Str} (hc : isDigit c = true)
    (h : ∀ rest, dropDigits r ≠ '_' :: rest) : stripRev (c :: r) = c :: r := by
  rw [stripRev]
  simp only [hc, if_true]
  try (split
       · rename_i rest' heq
         exact absurd heq (h _)
       · rfl)

/-- case analysis used by every induction over `stripRev` -/
theorem stripRev_cases (r : Str) :
    stripRev r = r ∨ ∃ c r' rest, r = c :: r' ∧ isDigit c = true ∧ dropDigits r' = '_' :: rest ∧
      stripRev r = stripRev rest ∧ rest.length < r.length := by
  cases r with
  | nil => left; exact stripRev_nil
  | cons c r' =>
    by_cases hc : isDigit c = true
    · by_cases h : ∃ rest, dropDigits r' = '_' :: rest
      · obtain ⟨rest, h⟩ := h
        right
        refine ⟨c, r', rest, rfl, hc, h, stripRev_cons_group hc h, ?_⟩
        have := dropDigits_length_le r'
        rw [h] at this
        simp only [List.length_cons] at this ⊢
        omega
      · left
        exact stripRev_cons_stop hc (fun rest e => h ⟨rest, e⟩)
    · left
      exact stripRev_cons_nondigit r' (by simpa using hc)

theorem stripRev_idem (r : Str) : stripRev (stripRev r) = stripRev r := by
  induction h : r.length using Nat.strongRecOn generalizing r with
  | _ n ih =>
    rcases stripRev_cases r with h1 | ⟨c, r', rest, _, _, _, h4, h5⟩
    · rw [h1, h1]
    · rw [h4]
      exact ih rest.length (by omega) rest rfl

theorem stripRev_suffix (r : Str) : ∃ p, r = p ++ stripRev r := by
  induction h : r.length using Nat.strongRecOn generalizing r with
  | _ n ih =>
    rcases stripRev_cases r with h1 | ⟨c, r', rest, h1, _, h3, h4, h5⟩
    · exact ⟨[], by rw [h1]; rfl⟩
    · obtain ⟨p, hp⟩ := ih rest.length (by omega) rest rfl
      obtain ⟨q, hq⟩ := dropDigits_suffix r'
      refine ⟨c :: q ++ '_' :: p, ?_⟩
      rw [h4, h1]
      conv => lhs; rw [hq, h3, hp]
      simp

/-- a group `<digits>_` in front of the reversed string is removed -/
theorem stripRev_group {ds : Str} (hne : ds ≠ []) (hd : ds.all isDigit = true) (r : Str) :
    stripRev (ds ++ '_' :: r) = stripRev r := by
  cases ds with
  | nil => exact absurd rfl hne
  | cons d ds =>
    simp only [List.all_cons, Bool.and_eq_true] at hd
    exact stripRev_cons_group hd.1 (dropDigits_digits_append hd.2 '_' r underscore_not_digit)

theorem strip_idem (s : Str) : strip (strip s) = strip s := by
  simp [strip, stripRev_idem]

theorem strip_prefix (s : Str) : ∃ q, s = strip s ++ q := by
  obtain ⟨p, hp⟩ := stripRev_suffix s.reverse
  refine ⟨p.reverse, ?_⟩
  have := congrArg List.reverse hp
  simpa [strip] using this

/-- `strip h = h` in terms of `stripRev` -/
theorem stripRev_of_strip_eq {h : Str} (hs : strip h = h) : stripRev h.reverse = h.reverse := by
  have := congrArg List.reverse hs
  simpa [strip] using this

theorem strip_append_suffix {h : Str} (hs : strip h = h) {ds : Str} (hne : ds ≠ [])
    (hd : ds.all isDigit = true) : strip (h ++ '_' :: ds) = h := by
  unfold strip
  have : (h ++ '_' :: ds).reverse = ds.reverse ++ '_' :: h.reverse := by simp
  rw [this, stripRev_group (by simpa using hne) (by simpa using hd), stripRev_of_strip_eq hs]
  simp

/-! ### valid names -/

theorem validName_prefix {a b : Str} (hne : a ≠ []) (h : validName (a ++ b) = true) :
    validName a = true := by
  cases a with
  | nil => exact absurd rfl hne
  | cons c a =>
    simp only [List.cons_append, validName, List.all_append, Bool.and_eq_true] at h ⊢
    exact ⟨h.1, h.2.1⟩

theorem validName_append {a b : Str} (h : validName a = true) (hb : b.all isCont = true) :
    validName (a ++ b) = true := by
  cases a with
  | nil => simp [validName] at h
  | cons c a =>
    simp only [validName, Bool.and_eq_true, List.cons_append, List.all_append] at h ⊢
    exact ⟨h.1, h.2, hb⟩

theorem all_digit_all_cont {ds : Str} (h : ds.all isDigit = true) : ds.all isCont = true := by
  rw [List.all_eq_true] at h ⊢
  intro c hc
  simp [isCont, h c hc]

theorem validName_digit_head {c : Char} {r : Str} (hc : isDigit c = true) : validName (c :: r) = false := by
  simp [validName, isDigit_not_start hc]


/-! ### clean hints, `hintName`, re-parsing -/

/-- a non-empty hint as `extract_valid_name` returns it -/
def Clean (h : Str) : Prop := h ≠ [] ∧ validName h = true ∧ strip h = h

/-- what the IR API can store: no hint, the empty hint, or a clean one -/
def Stored : Option Str → Prop
  | none => True
  | some h => h = [] ∨ Clean h

theorem accepted_stored {raw h : Str} (ha : accepted raw = some h) : Stored (some h) := by
  unfold accepted at ha
  split at ha
  · rename_i hv
    cases ha
    by_cases hne : strip raw = []
    · left; exact hne
    · right
      obtain ⟨q, hq⟩ := strip_prefix raw
      refine ⟨hne, ?_, strip_idem raw⟩
      rw [hq] at hv
      exact validName_prefix hne hv
  · cases ha

theorem hintName_zero (h : Str) : hintName h 0 = h := by simp [hintName]

theorem hintName_succ (h : Str) {k : Nat} (hk : k ≠ 0) : hintName h k = h ++ '_' :: natDigits k := by
  simp [hintName, hk]

theorem strip_hintName {h : Str} (hc : Clean h) (k : Nat) : strip (hintName h k) = h := by
  by_cases hk : k = 0
  · subst hk; rw [hintName_zero]; exact hc.2.2
  · rw [hintName_succ h hk]
    exact strip_append_suffix hc.2.2 (natDigits_ne_nil k) (natDigits_all_digit k)

theorem validName_hintName {h : Str} (hc : Clean h) (k : Nat) : validName (hintName h k) = true := by
  by_cases hk : k = 0
  · subst hk; rw [hintName_zero]; exact hc.2.1
  · rw [hintName_succ h hk]
    apply validName_append hc.2.1
    simp only [List.all_cons, underscore_cont, Bool.true_and]
    exact all_digit_all_cont (natDigits_all_digit k)

theorem reparseVal_hintName {h : Str} (hc : Clean h) (k : Nat) : reparseVal (hintName h k) = some h := by
  simp [reparseVal, validName_hintName hc k, strip_hintName hc k]

theorem validName_natDigits (n : Nat) : validName (natDigits n) = false := by
  have hne := natDigits_ne_nil n
  have hd := natDigits_all_digit n
  cases hh : natDigits n with
  | nil => exact absurd hh hne
  | cons c r =>
    rw [hh] at hd
    simp only [List.all_cons, Bool.and_eq_true] at hd
    exact validName_digit_head hd.1

theorem reparseVal_natDigits (n : Nat) : reparseVal (natDigits n) = none := by
  simp [reparseVal, validName_natDigits]

theorem hintName_inj {h h' : Str} (hc : Clean h) (hc' : Clean h') {k k' : Nat}
    (e : hintName h k = hintName h' k') : h = h' ∧ k = k' := by
  have e1 : h = h' := by
    have := congrArg reparseVal e
    rw [reparseVal_hintName hc, reparseVal_hintName hc'] at this
    exact Option.some.inj this
  subst e1
  refine ⟨rfl, ?_⟩
  by_cases hk : k = 0 <;> by_cases hk' : k' = 0
  · omega
  · subst hk
    rw [hintName_zero, hintName_succ h hk'] at e
    have := congrArg List.length e
    simp at this
  · subst hk'
    rw [hintName_zero, hintName_succ h hk] at e
    have := congrArg List.length e
    simp at this
  · rw [hintName_succ h hk, hintName_succ h hk'] at e
    have := List.append_cancel_left e
    exact natDigits_inj (List.cons.inj this).2

theorem hintName_ne_natDigits {h : Str} (hc : Clean h) (k n : Nat) : hintName h k ≠ natDigits n := by
  intro e
  have := congrArg reparseVal e
  rw [reparseVal_hintName hc, reparseVal_natDigits] at this
  cases this

/-! ### allocation of value names: invariant and freshness -/

/-- every issued name is covered by a counter of the scope -/
def Covered (sc : Scope) (n : Str) : Prop :=
  (∃ m, m < sc.nextId ∧ n = natDigits m) ∨
  (∃ h k, Clean h ∧ k < (AL.get sc.ssaNames h).getD 0 ∧ n = hintName h k)

def Inv (sc : Scope) (issued : List Str) : Prop := ∀ n ∈ issued, Covered sc n

theorem allocVal_none (sc : Scope) :
    allocVal sc none = ({ sc with nextId := sc.nextId + 1 }, natDigits sc.nextId) := rfl

theorem allocVal_empty (sc : Scope) :
    allocVal sc (some []) = ({ sc with nextId := sc.nextId + 1 }, natDigits sc.nextId) := rfl

theorem allocVal_hint (sc : Scope) {h : Str} (hne : h ≠ []) :
    allocVal sc (some h) =
      ({ sc with ssaNames := AL.set sc.ssaNames h ((AL.get sc.ssaNames h).getD 0 + 1) },
        hintName h ((AL.get sc.ssaNames h).getD 0)) := by
  cases h with
  | nil => exact absurd rfl hne
  | cons c h => rfl

/-- the name given to a new value is not among the issued ones, and the invariant is kept -/
theorem allocVal_fresh {sc : Scope} {issued : List Str} (hinv : Inv sc issued) {h : Option Str}
    (hs : Stored h) :
    (allocVal sc h).2 ∉ issued ∧ Inv (allocVal sc h).1 ((allocVal sc h).2 :: issued) := by
  have numeric : (natDigits sc.nextId) ∉ issued ∧
      Inv { sc with nextId := sc.nextId + 1 } (natDigits sc.nextId :: issued) := by
    constructor
    · intro hin
      rcases hinv _ hin with ⟨m, hm, e⟩ | ⟨h', k, hc, _, e⟩
      · have := natDigits_inj e; omega
      · exact hintName_ne_natDigits hc k _ e.symm
    · intro n hn
      rcases List.mem_cons.mp hn with e | hin
      · left; exact ⟨sc.nextId, by simp, e⟩
      · rcases hinv _ hin with ⟨m, hm, e⟩ | ⟨h', k, hc, hk, e⟩
        · left; exact ⟨m, by simp; omega, e⟩
        · right; exact ⟨h', k, hc, hk, e⟩
  match h, hs with
  | none, _ => rw [allocVal_none]; exact numeric
  | some h, hs =>
    rcases hs with he | hc
    · subst he; rw [allocVal_empty]; exact numeric
    · rw [allocVal_hint sc hc.1]
      constructor
      · intro hin
        rcases hinv _ hin with ⟨m, _, e⟩ | ⟨h', k, hc', hk, e⟩
        · exact hintName_ne_natDigits hc _ _ e
        · obtain ⟨e1, e2⟩ := hintName_inj hc hc' e
          subst e1; omega
      · intro n hn
        rcases List.mem_cons.mp hn with e | hin
        · right
          refine ⟨h, _, hc, ?_, e⟩
          simp [AL.get_set]
        · rcases hinv _ hin with ⟨m, hm, e⟩ | ⟨h', k, hc', hk, e⟩
          · left; exact ⟨m, hm, e⟩
          · right
            refine ⟨h', k, hc', ?_, e⟩
            simp only [AL.get_set]
            split
            · rename_i heq; subst heq; simp; omega
            · exact hk


/-! ### block labels -/

theorem isDefault_chars {n : Str} (h : isDefaultBlockName n = true) :
    ∀ c ∈ n, c = 'b' ∨ isDigit c = true := by
  unfold isDefaultBlockName at h
  split at h
  · rename_i d ds
    simp only [Bool.and_eq_true, List.all_eq_true] at h
    intro c hc
    simp only [List.mem_cons] at hc
    rcases hc with e | e | e | e
    · left; exact e
    · left; exact e
    · right; rw [e]; exact h.1
    · right; exact h.2 c e
  · cases h

theorem isDefault_bb (i : Nat) : isDefaultBlockName ('b' :: 'b' :: natDigits i) = true := by
  have hne := natDigits_ne_nil i
  have hd := natDigits_all_digit i
  cases hh : natDigits i with
  | nil => exact absurd hh hne
  | cons d ds =>
    rw [hh] at hd
    simp only [List.all_cons, Bool.and_eq_true] at hd
    simp [isDefaultBlockName, hd.1, hd.2]

theorem hintName_not_default {h : Str} (hd : isDefaultBlockName h = false) (k : Nat) :
    isDefaultBlockName (hintName h k) = false := by
  by_cases hk : k = 0
  · subst hk; rw [hintName_zero]; exact hd
  · rw [hintName_succ h hk]
    cases hx : isDefaultBlockName (h ++ '_' :: natDigits k) with
    | false => rfl
    | true =>
      have := isDefault_chars hx '_' (by simp)
      rcases this with e | e
      · exact absurd e (by decide)
      · rw [underscore_not_digit] at e; cases e

theorem reparseBlock_hintName {h : Str} (hc : Clean h) (hd : isDefaultBlockName h = false) (k : Nat) :
    reparseBlock (hintName h k) = some h := by
  simp [reparseBlock, hintName_not_default hd k, validName_hintName hc k, strip_hintName hc k]

theorem reparseBlock_bb (i : Nat) : reparseBlock ('b' :: 'b' :: natDigits i) = none := by
  simp [reparseBlock, isDefault_bb]

theorem usable_some {h : Option Str} {u : Str} (hs : Stored h) (e : usableBlockHint h = some u) :
    h = some u ∧ Clean u ∧ isDefaultBlockName u = false := by
  match h, hs with
  | none, _ => cases e
  | some [], _ => cases e
  | some (c :: r), hs =>
    simp only [usableBlockHint] at e
    split at e
    · cases e
    · rename_i hnd
      cases e
      rcases hs with he | hc
      · cases he
      · exact ⟨rfl, hc, by simpa using hnd⟩

def BCovered (sc : Scope) (idx : Nat) (n : Str) : Prop :=
  (∃ i, i < idx ∧ n = 'b' :: 'b' :: natDigits i) ∨
  (∃ h k, Clean h ∧ isDefaultBlockName h = false ∧ k < (AL.get sc.blockNames h).getD 0 ∧ n = hintName h k)

def BInv (sc : Scope) (idx : Nat) (issued : List Str) : Prop := ∀ n ∈ issued, BCovered sc idx n

theorem allocBlock_fresh {sc : Scope} {idx : Nat} {issued : List Str} (hinv : BInv sc idx issued)
    (labelled : Bool) {h : Option Str} (hs : Stored h) :
    (allocBlock sc idx labelled h).2 ∉ issued ∧
      BInv (allocBlock sc idx labelled h).1 (idx + 1) ((allocBlock sc idx labelled h).2 :: issued) := by
  unfold allocBlock
  split
  · rename_i u hu
    have hu' : usableBlockHint h = some u := by
      cases labelled with
      | true => simpa using hu
      | false => simp at hu
    obtain ⟨_, hc, hd⟩ := usable_some hs hu'
    constructor
    · intro hin
      rcases hinv _ hin with ⟨i, _, e⟩ | ⟨h', k, hc', _, hk, e⟩
      · have h1 := hintName_not_default hd ((AL.get sc.blockNames u).getD 0)
        simp only [] at e
        rw [e, isDefault_bb] at h1
        cases h1
      · obtain ⟨e1, e2⟩ := hintName_inj hc hc' e
        subst e1; omega
    · intro n hn
      rcases List.mem_cons.mp hn with e | hin
      · right
        refine ⟨u, _, hc, hd, ?_, e⟩
        simp [AL.get_set]
      · rcases hinv _ hin with ⟨i, hi, e⟩ | ⟨h', k, hc', hd', hk, e⟩
        · left; exact ⟨i, by omega, e⟩
        · right
          refine ⟨h', k, hc', hd', ?_, e⟩
          simp only [AL.get_set]
          split
          · rename_i heq; subst heq; simp; omega
          · exact hk
  · constructor
    · intro hin
      rcases hinv _ hin with ⟨i, hi, e⟩ | ⟨h', k, hc', hd', _, e⟩
      · have := natDigits_inj (List.cons.inj (List.cons.inj e).2).2
        omega
      · have h1 := hintName_not_default hd' k
        simp only [] at e
        rw [← e, isDefault_bb] at h1
        cases h1
    · intro n hn
      rcases List.mem_cons.mp hn with e | hin
      · left; exact ⟨idx, by omega, e⟩
      · rcases hinv _ hin with ⟨i, hi, e⟩ | ⟨h', k, hc', hd', hk, e⟩
        · left; exact ⟨i, by omega, e⟩
        · right; exact ⟨h', k, hc', hd', hk, e⟩

end Xdsl.Names
