import XdslProofs.Lemmas.CloneEdit
import XdslProofs.Lemmas.CloneFresh
import XdslProofs.Lemmas.CloneIso2
/-!
C02 helper lemmas, part 7: definitions of the copy are the renamed definitions of the source;
injectivity from distinctness; `ownResult`.
-/
namespace Xdsl.Clone

theorem inj_of_nodup_map {f : Nat → Nat} : ∀ l : List Nat, (l.map f).Nodup →
    ∀ a ∈ l, ∀ b ∈ l, f a = f b → a = b := by
  intro l
  induction l with
  | nil => simp
  | cons x l ih =>
    intro nd a ha b hb e
    simp only [List.map_cons, List.nodup_cons, List.mem_map, not_exists, not_and] at nd
    simp only [List.mem_cons] at ha hb
    rcases ha with ha | ha <;> rcases hb with hb | hb
    · rw [ha, hb]
    · subst ha; exact absurd e.symm (nd.1 b hb)
    · subst hb; exact absurd e (nd.1 a ha)
    · exact ih nd.2 a ha b hb e

theorem Iso_defVals {co : Bool} {fv fb : Nat → Nat} {k : Kind} (t t' : T k)
    (i : Iso co fv fb t t') : defVals t' = (defVals t).map fv := by
  induction t with
  | nil => cases t' <;> simp_all [Iso, defVals]
  | op h rs nx ih1 ih2 =>
    cases t' with
    | nil => simp [Iso] at i
    | op h' rs' nx' =>
      simp only [Iso] at i
      simp [defVals, ih1 rs' i.2.2.2.2.2.2.1, ih2 nx' i.2.2.2.2.2.2.2, i.2.2.2.1, Function.comp_def]
  | region bs nx ih1 ih2 =>
    cases t' with
    | nil => simp [Iso] at i
    | region bs' nx' =>
      simp only [Iso] at i
      simp [defVals, ih1 bs' i.1, ih2 nx' i.2]
  | block h ops nx ih1 ih2 =>
    cases t' with
    | nil => simp [Iso] at i
    | block h' ops' nx' =>
      simp only [Iso] at i
      simp [defVals, ih1 ops' i.2.2.1, ih2 nx' i.2.2.2, i.2.1, Function.comp_def]

theorem Iso_defBlocks {co : Bool} {fv fb : Nat → Nat} {k : Kind} (t t' : T k)
    (i : Iso co fv fb t t') : defBlocks t' = (defBlocks t).map fb := by
  induction t with
  | nil => cases t' <;> simp_all [Iso, defBlocks]
  | op h rs nx ih1 ih2 =>
    cases t' with
    | nil => simp [Iso] at i
    | op h' rs' nx' =>
      simp only [Iso] at i
      simp [defBlocks, ih1 rs' i.2.2.2.2.2.2.1, ih2 nx' i.2.2.2.2.2.2.2]
  | region bs nx ih1 ih2 =>
    cases t' with
    | nil => simp [Iso] at i
    | region bs' nx' =>
      simp only [Iso] at i
      simp [defBlocks, ih1 bs' i.1, ih2 nx' i.2]
  | block h ops nx ih1 ih2 =>
    cases t' with
    | nil => simp [Iso] at i
    | block h' ops' nx' =>
      simp only [Iso] at i
      simp [defBlocks, ih1 ops' i.2.2.1, ih2 nx' i.2.2.2, i.1]

theorem defVals_sublist_ids {k : Kind} (t : T k) : (defVals t).Sublist (ids t) := by
  induction t with
  | nil => simp [defVals, ids]
  | op h rs nx ih1 ih2 =>
    simp only [defVals, ids, hdrIds, List.cons_append]
    apply List.Sublist.cons
    apply List.Sublist.cons
    apply List.Sublist.cons
    exact (List.Sublist.refl _).append (ih1.append ih2)
  | region bs nx ih1 ih2 => simp only [defVals, ids]; exact ih1.append ih2
  | block h ops nx ih1 ih2 =>
    simp only [defVals, ids, List.cons_append]
    apply List.Sublist.cons
    exact (List.Sublist.refl _).append (ih1.append ih2)

theorem defBlocks_sublist_ids {k : Kind} (t : T k) : (defBlocks t).Sublist (ids t) := by
  induction t with
  | nil => simp [defBlocks, ids]
  | op h rs nx ih1 ih2 =>
    simp only [defBlocks, ids]
    exact List.Sublist.trans (ih1.append ih2) (List.sublist_append_right _ _)
  | region bs nx ih1 ih2 => simp only [defBlocks, ids]; exact ih1.append ih2
  | block h ops nx ih1 ih2 =>
    simp only [defBlocks, ids, List.cons_append]
    apply List.Sublist.cons_cons
    exact List.Sublist.trans (ih1.append ih2) (List.sublist_append_right _ _)

/-- a use of the op's own `j`-th result becomes a use of the clone's `j`-th result -/
theorem ownResult_cloneVals (vm : AL Nat Nat) (n : Nat) (rs : List (Nat × Nat)) (v : Nat)
    (nd : (rs.map Prod.fst).Nodup) :
    ownResult rs (cloneVals vm n rs).1 v
      = if v ∈ rs.map Prod.fst then some (mapVal (cloneVals vm n rs).2.1 v) else none := by
  induction rs generalizing vm n with
  | nil => simp [ownResult]
  | cons p r ih =>
    obtain ⟨x, ty⟩ := p
    simp only [List.map_cons, List.nodup_cons] at nd
    simp only [cloneVals, ownResult, List.map_cons, List.mem_cons]
    by_cases e : x = v
    · subst e
      have : AL.get (cloneVals (AL.set vm x n) (n + 1) r).2.1 x = some n := by
        rw [cloneVals_frame _ _ _ _ nd.1, AL.get_set]; simp
      simp [mapVal_of_get this]
    · have e' : ¬ v = x := fun h => e h.symm
      simp only [e, e', if_false, false_or]
      exact ih _ _ nd.2

end Xdsl.Clone
