import XdslModel.Skeleton
/-!
Printing commutes with an injective renaming of identities when the names follow the renaming.
-/
namespace Xdsl.Skeleton

theorem succRefs_mapT (f g : Nat → Nat) (t : IR) : succRefs (mapT f g t) = (succRefs t).map g := by
  induction t with
  | nil => rfl
  | op h rs nx ihr ihn => simp [mapT, succRefs, Hdr.map, ihr, ihn]
  | region bs nx ihb ihn => simp [mapT, succRefs, ihb, ihn]
  | block b args ops nx iho ihn => simp [mapT, succRefs, iho, ihn]

theorem isNil_mapT (f g : Nat → Nat) (t : IR) : (mapT f g t).isNil = t.isNil := by
  cases t <;> rfl

theorem contains_map_inj (g : Nat → Nat) (hg : Function.Injective g) (l : List Nat) (b : Nat) :
    (l.map g).contains (g b) = l.contains b := by
  induction l with
  | nil => rfl
  | cons a l ih =>
    simp only [List.map_cons, List.contains_cons, ih]
    by_cases h : b = a
    · simp [h]
    · have h1 : (g b == g a) = false := by simpa using fun e => h (hg e)
      have h2 : (b == a) = false := by simpa using h
      rw [h1, h2]

theorem entryLabelled_mapT (f g : Nat → Nat) (hg : Function.Injective g) (b : Nat)
    (args : List (Nat × Opq)) (ops nx : IR) :
    entryLabelled (g b) (mapArgs f args) (mapT f g ops) (mapT f g nx) =
      entryLabelled b args ops nx := by
  unfold entryLabelled
  rw [succRefs_mapT, succRefs_mapT, ← List.map_append, contains_map_inj g hg, isNil_mapT]
  cases args <;> rfl

theorem nameT_mapT (nv nb : Nat → Str) (f g : Nat → Nat) (hg : Function.Injective g) (t : IR) :
    ∀ e, nameT nv nb e (mapT f g t) = nameT (fun x => nv (f x)) (fun x => nb (g x)) e t := by
  induction t with
  | nil => intro e; rfl
  | op h rs nx ihr ihn =>
    intro e
    simp only [mapT, nameT, ihr, ihn, Hdr.map, List.map_map]
    rfl
  | region bs nx ihb ihn => intro e; simp only [mapT, nameT, ihb, ihn]
  | block b args ops nx iho ihn =>
    intro e
    have hl := entryLabelled_mapT f g hg b args ops nx
    simp only [mapT, nameT, iho, ihn, hl]
    simp only [mapArgs, List.map_map]
    rfl

end Xdsl.Skeleton
