import XdslModel.PDL
import XdslProofs.Lemmas.AL
/-!
Soundness of the PDL specification matcher (`XdslModel/PDL.lean`): every binding it returns instantiates
every constraint of the pattern (`Holds`).
-/
namespace Xdsl.PDL
open Xdsl

/-- the two lists have the same length and are related element-wise -/
inductive All2 {α β : Type} (R : α → β → Prop) : List α → List β → Prop
  | nil : All2 R [] []
  | cons {a b l₁ l₂} : R a b → All2 R l₁ l₂ → All2 R (a :: l₁) (b :: l₂)

/-- binding `b'` extends `b` -/
structure Le (b b' : Binding) : Prop where
  ops : ∀ k v, AL.get b.ops k = some v → AL.get b'.ops k = some v
  vals : ∀ k v, AL.get b.vals k = some v → AL.get b'.vals k = some v
  attrs : ∀ k v, AL.get b.attrs k = some v → AL.get b'.attrs k = some v
  tys : ∀ k v, AL.get b.tys k = some v → AL.get b'.tys k = some v

theorem Le.refl (b : Binding) : Le b b := ⟨fun _ _ h => h, fun _ _ h => h, fun _ _ h => h, fun _ _ h => h⟩

theorem Le.trans {a b c : Binding} (h1 : Le a b) (h2 : Le b c) : Le a c :=
  ⟨fun k v h => h2.ops k v (h1.ops k v h), fun k v h => h2.vals k v (h1.vals k v h),
   fun k v h => h2.attrs k v (h1.attrs k v h), fun k v h => h2.tys k v (h1.tys k v h)⟩

/-- the constraint of a `pdl.type` node -/
def EntT (p : Pattern) (t : Nat) (x : Ty) : Prop :=
  ∃ c, p.types[t]? = some c ∧ optEq c x = true

/-- the constraints of a `pdl.operand` node bound to value `x` -/
def EntV (p : Pattern) (ir : IR) (b : Binding) (v : Nat) (x : Val) : Prop :=
  ∃ c, p.vals[v]? = some c ∧ ∀ t, c = some t → ∃ ty, ir.typeOf x = some ty ∧ AL.get b.tys t = some ty

/-- the constraints of a `pdl.attribute` node bound to attribute `x` -/
def EntA (p : Pattern) (b : Binding) (a : Nat) (x : Attr) : Prop :=
  ∃ ap, p.attrs[a]? = some ap ∧ optEq ap.val x = true ∧
    ∀ t, ap.ty = some t → ∃ ty, x.ty = some ty ∧ AL.get b.tys t = some ty

/-- operand `r` of a pattern operation is instantiated by the payload value `x` -/
def OperandOk (b : Binding) (r : ORef) (x : Val) : Prop :=
  match r with
  | .val v => AL.get b.vals v = some x
  | .res j idx => ∃ o, x = .res o idx ∧ AL.get b.ops j = some o

/-- the constraints of a `pdl.operation` node bound to the payload operation with id `o` -/
def EntO (p : Pattern) (ir : IR) (b : Binding) (i : Nat) (o : OpId) : Prop :=
  ∃ pat x, p.ops[i]? = some pat ∧ ir.find o = some x ∧ optEq pat.name x.name = true ∧
    (∀ n a, (n, a) ∈ pat.attrs → ∃ av, x.attr n = some av ∧ AL.get b.attrs a = some av) ∧
    All2 (OperandOk b) pat.operands x.operands ∧
    All2 (fun t ty => AL.get b.tys t = some ty) pat.results x.resTys

/-- `b` instantiates the pattern: every bound node satisfies all of its constraints -/
structure Holds (p : Pattern) (ir : IR) (b : Binding) : Prop where
  tys : ∀ t x, AL.get b.tys t = some x → EntT p t x
  vals : ∀ v x, AL.get b.vals v = some x → EntV p ir b v x
  attrs : ∀ a x, AL.get b.attrs a = some x → EntA p b a x
  ops : ∀ i o, AL.get b.ops i = some o → EntO p ir b i o

theorem EntV.mono {p : Pattern} {ir : IR} {b b' : Binding} {v : Nat} {x : Val} (h : Le b b') :
    EntV p ir b v x → EntV p ir b' v x := by
  rintro ⟨c, hc, hx⟩
  exact ⟨c, hc, fun t ht => by obtain ⟨ty, h1, h2⟩ := hx t ht; exact ⟨ty, h1, h.tys _ _ h2⟩⟩

theorem EntA.mono {p : Pattern} {b b' : Binding} {a : Nat} {x : Attr} (h : Le b b') :
    EntA p b a x → EntA p b' a x := by
  rintro ⟨ap, hc, hv, hx⟩
  exact ⟨ap, hc, hv, fun t ht => by obtain ⟨ty, h1, h2⟩ := hx t ht; exact ⟨ty, h1, h.tys _ _ h2⟩⟩

theorem OperandOk.mono {b b' : Binding} {r : ORef} {x : Val} (h : Le b b') :
    OperandOk b r x → OperandOk b' r x := by
  cases r with
  | val v => exact h.vals _ _
  | res j idx => rintro ⟨o, h1, h2⟩; exact ⟨o, h1, h.ops _ _ h2⟩

theorem All2.mono {α β : Type} {R S : α → β → Prop} (h : ∀ a b, R a b → S a b)
    {l₁ : List α} {l₂ : List β} (hl : All2 R l₁ l₂) : All2 S l₁ l₂ := by
  induction hl with
  | nil => exact .nil
  | cons h1 _ ih => exact .cons (h _ _ h1) ih

theorem EntO.mono {p : Pattern} {ir : IR} {b b' : Binding} {i : Nat} {o : OpId} (h : Le b b') :
    EntO p ir b i o → EntO p ir b' i o := by
  rintro ⟨pat, x, h1, h2, h3, h4, h5, h6⟩
  refine ⟨pat, x, h1, h2, h3, ?_, h5.mono (fun _ _ => OperandOk.mono h),
    h6.mono (fun _ _ hh => h.tys _ _ hh)⟩
  intro n a hm
  obtain ⟨av, e1, e2⟩ := h4 n a hm
  exact ⟨av, e1, h.attrs _ _ e2⟩

/-- growing a binding: old entries keep their justification, new entries need one -/
theorem Holds.extend {p : Pattern} {ir : IR} {b b' : Binding} (hb : Holds p ir b) (hle : Le b b')
    (hT : ∀ t x, AL.get b'.tys t = some x → AL.get b.tys t = some x ∨ EntT p t x)
    (hV : ∀ v x, AL.get b'.vals v = some x → AL.get b.vals v = some x ∨ EntV p ir b' v x)
    (hA : ∀ a x, AL.get b'.attrs a = some x → AL.get b.attrs a = some x ∨ EntA p b' a x)
    (hO : ∀ i o, AL.get b'.ops i = some o → AL.get b.ops i = some o ∨ EntO p ir b' i o) :
    Holds p ir b' where
  tys t x h := (hT t x h).elim (hb.tys t x) id
  vals v x h := (hV v x h).elim (fun h' => (hb.vals v x h').mono hle) id
  attrs a x h := (hA a x h).elim (fun h' => (hb.attrs a x h').mono hle) id
  ops i o h := (hO i o h).elim (fun h' => (hb.ops i o h').mono hle) id

theorem holds_empty (p : Pattern) (ir : IR) : Holds p ir {} :=
  ⟨fun _ _ h => by simp at h, fun _ _ h => by simp at h, fun _ _ h => by simp at h, fun _ _ h => by simp at h⟩

/-! ### the binding steps -/

theorem get_cons_new {β : Type} {m : AL Nat β} {k k' : Nat} {v v' : β} (hnone : AL.get m k = none)
    (h : AL.get m k' = some v') : AL.get ((k, v) :: m) k' = some v' := by
  rw [AL.get_cons]
  split
  · rename_i e; subst e; rw [hnone] at h; cases h
  · exact h

theorem get_cons_inv {β : Type} {m : AL Nat β} {k k' : Nat} {v v' : β}
    (h : AL.get ((k, v) :: m) k' = some v') : AL.get m k' = some v' ∨ (k' = k ∧ v' = v) := by
  rw [AL.get_cons] at h
  split at h
  · rename_i e; cases h; exact Or.inr ⟨e.symm, rfl⟩
  · exact Or.inl h

theorem bindTy_spec {p : Pattern} {ir : IR} {b b' : Binding} {t : Nat} {x : Ty}
    (h : bindTy p b t x = some b') (hb : Holds p ir b) :
    Holds p ir b' ∧ Le b b' ∧ AL.get b'.tys t = some x := by
  unfold bindTy at h
  split at h
  · rename_i y hy
    split at h
    · rename_i e; cases h; subst e; exact ⟨hb, Le.refl _, hy⟩
    · cases h
  · rename_i hnone
    have key : ∀ c, p.types[t]? = some c → optEq c x = true →
        b' = { b with tys := (t, x) :: b.tys } → Holds p ir b' ∧ Le b b' ∧ AL.get b'.tys t = some x := by
      intro c hc hopt e
      subst e
      have hle : Le b { b with tys := (t, x) :: b.tys } :=
        ⟨fun _ _ h => h, fun _ _ h => h, fun _ _ h => h, fun k v h => get_cons_new hnone h⟩
      refine ⟨hb.extend hle ?_ (fun _ _ h => Or.inl h) (fun _ _ h => Or.inl h) (fun _ _ h => Or.inl h), hle, by simp⟩
      intro t' x' h'
      rcases get_cons_inv h' with h'' | ⟨e1, e2⟩
      · exact Or.inl h''
      · subst e1; subst e2; exact Or.inr ⟨c, hc, hopt⟩
    split at h
    · cases h
    · rename_i hc; cases h; exact key none hc rfl rfl
    · rename_i c hc
      split at h
      · rename_i e; cases h; exact key (some c) hc (by simp [optEq, e]) rfl
      · cases h

theorem bindTy_frame {p : Pattern} {b b' : Binding} {t : Nat} {x : Ty} (h : bindTy p b t x = some b') :
    b'.ops = b.ops ∧ b'.vals = b.vals ∧ b'.attrs = b.attrs := by
  unfold bindTy at h
  split at h
  · split at h
    · cases h; exact ⟨rfl, rfl, rfl⟩
    · cases h
  · split at h
    · cases h
    · cases h; exact ⟨rfl, rfl, rfl⟩
    · split at h
      · cases h; exact ⟨rfl, rfl, rfl⟩
      · cases h

theorem bindVal_spec {p : Pattern} {ir : IR} {b b' : Binding} {v : Nat} {x : Val}
    (h : bindVal p ir b v x = some b') (hb : Holds p ir b) :
    Holds p ir b' ∧ Le b b' ∧ AL.get b'.vals v = some x := by
  unfold bindVal at h
  split at h
  · rename_i y hy
    split at h
    · rename_i e; cases h; subst e; exact ⟨hb, Le.refl _, hy⟩
    · cases h
  · rename_i hnone
    split at h
    · cases h
    · rename_i hc
      cases h
      have hle : Le b { b with vals := (v, x) :: b.vals } :=
        ⟨fun _ _ h => h, fun k w h => get_cons_new hnone h, fun _ _ h => h, fun _ _ h => h⟩
      refine ⟨hb.extend hle (fun _ _ h => Or.inl h) ?_ (fun _ _ h => Or.inl h) (fun _ _ h => Or.inl h), hle, by simp⟩
      intro v' x' h'
      rcases get_cons_inv h' with h'' | ⟨e1, e2⟩
      · exact Or.inl h''
      · subst e1; subst e2; exact Or.inr ⟨none, hc, fun t ht => by cases ht⟩
    · rename_i t hc
      split at h
      · cases h
      · rename_i ty hty
        split at h
        · cases h
        · rename_i b1 hb1
          cases h
          obtain ⟨h1, hle1, hg⟩ := bindTy_spec (ir := ir) hb1 hb
          have hvals : b1.vals = b.vals := (bindTy_frame hb1).2.1
          have hnone1 : AL.get b1.vals v = none := by rw [hvals]; exact hnone
          have hle2 : Le b1 { b1 with vals := (v, x) :: b1.vals } :=
            ⟨fun _ _ h => h, fun k w h => get_cons_new hnone1 h, fun _ _ h => h, fun _ _ h => h⟩
          refine ⟨h1.extend hle2 (fun _ _ h => Or.inl h) ?_ (fun _ _ h => Or.inl h) (fun _ _ h => Or.inl h),
            hle1.trans hle2, by simp⟩
          intro v' x' h'
          rcases get_cons_inv h' with h'' | ⟨e1, e2⟩
          · exact Or.inl h''
          · subst e1; subst e2
            exact Or.inr ⟨some t, hc, fun t' ht' => by cases ht'; exact ⟨ty, hty, hg⟩⟩

theorem bindAttr_spec {p : Pattern} {ir : IR} {b b' : Binding} {a : Nat} {x : Attr}
    (h : bindAttr p b a x = some b') (hb : Holds p ir b) :
    Holds p ir b' ∧ Le b b' ∧ AL.get b'.attrs a = some x := by
  unfold bindAttr at h
  split at h
  · rename_i y hy
    split at h
    · rename_i e; cases h; subst e; exact ⟨hb, Le.refl _, hy⟩
    · cases h
  · rename_i hnone
    split at h
    · cases h
    · rename_i ap hap
      split at h
      · rename_i hopt
        split at h
        · rename_i hty
          cases h
          have hle : Le b { b with attrs := (a, x) :: b.attrs } :=
            ⟨fun _ _ h => h, fun _ _ h => h, fun k w h => get_cons_new hnone h, fun _ _ h => h⟩
          refine ⟨hb.extend hle (fun _ _ h => Or.inl h) (fun _ _ h => Or.inl h) ?_ (fun _ _ h => Or.inl h), hle, by simp⟩
          intro a' x' h'
          rcases get_cons_inv h' with h'' | ⟨e1, e2⟩
          · exact Or.inl h''
          · subst e1; subst e2
            exact Or.inr ⟨ap, hap, hopt, fun t ht => by rw [hty] at ht; cases ht⟩
        · rename_i t hty
          split at h
          · cases h
          · rename_i ty hxty
            split at h
            · cases h
            · rename_i b1 hb1
              cases h
              obtain ⟨h1, hle1, hg⟩ := bindTy_spec (ir := ir) hb1 hb
              have hattrs : b1.attrs = b.attrs := (bindTy_frame hb1).2.2
              have hnone1 : AL.get b1.attrs a = none := by rw [hattrs]; exact hnone
              have hle2 : Le b1 { b1 with attrs := (a, x) :: b1.attrs } :=
                ⟨fun _ _ h => h, fun _ _ h => h, fun k w h => get_cons_new hnone1 h, fun _ _ h => h⟩
              refine ⟨h1.extend hle2 (fun _ _ h => Or.inl h) (fun _ _ h => Or.inl h) ?_ (fun _ _ h => Or.inl h),
                hle1.trans hle2, by simp⟩
              intro a' x' h'
              rcases get_cons_inv h' with h'' | ⟨e1, e2⟩
              · exact Or.inl h''
              · subst e1; subst e2
                exact Or.inr ⟨ap, hap, hopt, fun t' ht' => by
                  rw [hty] at ht'; cases ht'; exact ⟨ty, hxty, hg⟩⟩
      · cases h

theorem matchAttrs_spec {p : Pattern} {ir : IR} {x : Op} :
    ∀ (l : List (Nat × Nat)) {b b' : Binding}, matchAttrs p x b l = some b' → Holds p ir b →
      Holds p ir b' ∧ Le b b' ∧ ∀ n a, (n, a) ∈ l → ∃ av, x.attr n = some av ∧ AL.get b'.attrs a = some av := by
  intro l
  induction l with
  | nil =>
    intro b b' h hb
    simp only [matchAttrs] at h
    cases h
    exact ⟨hb, Le.refl _, fun _ _ hm => by cases hm⟩
  | cons na r ih =>
    intro b b' h hb
    obtain ⟨n, a⟩ := na
    simp only [matchAttrs] at h
    split at h
    · cases h
    · rename_i av hav
      split at h
      · cases h
      · rename_i b1 hb1
        obtain ⟨h1, hle1, hg1⟩ := bindAttr_spec (ir := ir) hb1 hb
        obtain ⟨h2, hle2, hall⟩ := ih h h1
        refine ⟨h2, hle1.trans hle2, ?_⟩
        intro n' a' hm
        rcases List.mem_cons.mp hm with e | hm'
        · cases e; exact ⟨av, hav, hle2.attrs _ _ hg1⟩
        · exact hall n' a' hm'

theorem matchResults_spec {p : Pattern} {ir : IR} :
    ∀ (ts : List Nat) (xs : List Ty) {b b' : Binding}, matchResults p b ts xs = some b' → Holds p ir b →
      Holds p ir b' ∧ Le b b' ∧ All2 (fun t ty => AL.get b'.tys t = some ty) ts xs := by
  intro ts
  induction ts with
  | nil =>
    intro xs b b' h hb
    cases xs with
    | nil => simp only [matchResults] at h; cases h; exact ⟨hb, Le.refl _, .nil⟩
    | cons _ _ => simp [matchResults] at h
  | cons t ts ih =>
    intro xs b b' h hb
    cases xs with
    | nil => simp [matchResults] at h
    | cons x xs =>
      simp only [matchResults] at h
      split at h
      · cases h
      · rename_i b1 hb1
        obtain ⟨h1, hle1, hg1⟩ := bindTy_spec (ir := ir) hb1 hb
        obtain ⟨h2, hle2, hall⟩ := ih xs h h1
        exact ⟨h2, hle1.trans hle2, .cons (hle2.tys _ _ hg1) hall⟩

/-- what a recursive call of the operation matcher has to guarantee -/
def RecOk (p : Pattern) (ir : IR) (rec : Binding → Nat → OpId → Option Binding) : Prop :=
  ∀ b j o b', rec b j o = some b' → Holds p ir b → Holds p ir b' ∧ Le b b' ∧ AL.get b'.ops j = some o

theorem matchOperands_spec {p : Pattern} {ir : IR} {rec : Binding → Nat → OpId → Option Binding}
    (hrec : RecOk p ir rec) :
    ∀ (rs : List ORef) (xs : List Val) {b b' : Binding}, matchOperands p ir rec b rs xs = some b' → Holds p ir b →
      Holds p ir b' ∧ Le b b' ∧ All2 (OperandOk b') rs xs := by
  intro rs
  induction rs with
  | nil =>
    intro xs b b' h hb
    cases xs with
    | nil => simp only [matchOperands] at h; cases h; exact ⟨hb, Le.refl _, .nil⟩
    | cons _ _ => simp [matchOperands] at h
  | cons r rs ih =>
    intro xs b b' h hb
    cases xs with
    | nil => simp [matchOperands] at h
    | cons x xs =>
      simp only [matchOperands] at h
      split at h
      · cases h
      · rename_i b1 hb1
        have step : Holds p ir b1 ∧ Le b b1 ∧ OperandOk b1 r x := by
          cases r with
          | val v =>
            simp only at hb1
            exact bindVal_spec hb1 hb
          | res j idx =>
            simp only at hb1
            cases x with
            | arg k => simp at hb1
            | res o k =>
              simp only at hb1
              split at hb1
              · rename_i e
                subst e
                obtain ⟨h1, hle1, hg⟩ := hrec _ _ _ _ hb1 hb
                exact ⟨h1, hle1, o, rfl, hg⟩
              · cases hb1
        obtain ⟨h1, hle1, hok⟩ := step
        obtain ⟨h2, hle2, hall⟩ := ih xs h h1
        exact ⟨h2, hle1.trans hle2, .cons (hok.mono hle2) hall⟩

/-- every successful run of the operation matcher keeps `Holds`, only extends the binding, and binds `i ↦ o` -/
theorem matchOp_spec {p : Pattern} {ir : IR} : ∀ fuel, RecOk p ir (matchOp p ir fuel) := by
  intro fuel
  induction fuel with
  | zero => intro b j o b' h; simp [matchOp] at h
  | succ fuel ih =>
    intro b i o b' h hb
    simp only [matchOp] at h
    split at h
    · rename_i o' ho'
      split at h
      · rename_i e; cases h; subst e; exact ⟨hb, Le.refl _, ho'⟩
      · cases h
    · rename_i hnone
      split at h
      · rename_i pat x hpat hx
        split at h
        · rename_i hname
          split at h
          · cases h
          · rename_i b1 hb1
            split at h
            · cases h
            · rename_i b2 hb2
              split at h
              · cases h
              · rename_i b3 hb3
                split at h
                · cases h
                · rename_i hnone3
                  cases h
                  obtain ⟨h1, hle1, hA⟩ := matchAttrs_spec (ir := ir) _ hb1 hb
                  obtain ⟨h2, hle2, hO⟩ := matchOperands_spec ih _ _ hb2 h1
                  obtain ⟨h3, hle3, hR⟩ := matchResults_spec (ir := ir) _ _ hb3 h2
                  have hle4 : Le b3 { b3 with ops := (i, o) :: b3.ops } :=
                    ⟨fun k w h => get_cons_new hnone3 h, fun _ _ h => h, fun _ _ h => h, fun _ _ h => h⟩
                  refine ⟨h3.extend hle4 (fun _ _ h => Or.inl h) (fun _ _ h => Or.inl h) (fun _ _ h => Or.inl h) ?_,
                    ((hle1.trans hle2).trans hle3).trans hle4, by simp⟩
                  intro i' o' h'
                  rcases get_cons_inv h' with h'' | ⟨e1, e2⟩
                  · exact Or.inl h''
                  · subst e1; subst e2
                    refine Or.inr ⟨pat, x, hpat, hx, hname, ?_, ?_, ?_⟩
                    · intro n a hm
                      obtain ⟨av, e1, e2⟩ := hA n a hm
                      exact ⟨av, e1, (hle2.trans (hle3.trans hle4)).attrs _ _ e2⟩
                    · exact hO.mono (fun _ _ => OperandOk.mono (hle3.trans hle4))
                    · exact hR.mono (fun _ _ hh => hle4.tys _ _ hh)
        · cases h
      · cases h

theorem matchRoot_spec {p : Pattern} {ir : IR} {o : OpId} {b : Binding} (h : matchRoot p ir o = some b) :
    Holds p ir b ∧ AL.get b.ops p.root = some o := by
  unfold matchRoot at h
  split at h
  · cases h
  · obtain ⟨h1, _, h3⟩ := matchOp_spec _ _ _ _ _ h (holds_empty p ir)
    exact ⟨h1, h3⟩

end Xdsl.PDL
