import XdslModel.Prelude
namespace Xdsl.AL
variable {α β : Type} [DecidableEq α]

@[simp] theorem get_nil (k : α) : get ([] : AL α β) k = none := rfl

@[simp] theorem get_cons (a : α) (b : β) (r : AL α β) (k : α) :
    get ((a, b) :: r) k = if a = k then some b else get r k := rfl

theorem get_del (m : AL α β) (k k' : α) :
    get (del m k) k' = if k' = k then none else get m k' := by
  induction m with
  | nil => simp [del]
  | cons p r ih =>
    obtain ⟨a, b⟩ := p
    simp only [del]
    split <;> rename_i h
    · subst h
      rw [ih]; split
      · rfl
      · rename_i h2; have : ¬ a = k' := fun e => h2 e.symm
        simp [this]
    · simp only [get_cons, ih]
      split
      · rename_i h2; subst h2; simp [h]
      · rfl

theorem get_set (m : AL α β) (k k' : α) (v : β) :
    get (set m k v) k' = if k' = k then some v else get m k' := by
  unfold set
  by_cases h : k' = k
  · subst h; simp
  · have : ¬ k = k' := fun e => h e.symm
    simp [this, get_del, h]

end Xdsl.AL
