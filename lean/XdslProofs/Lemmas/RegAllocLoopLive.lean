import XdslProofs.Lemmas.RegAllocLoopSem
/-!
C19 (loops) helper lemmas, part 6: liveness of blocks with loops, the logical reading `GoodT` of a
successful run of the validator `checkT`, and the static side conditions of the allocator theorem.
-/
namespace Xdsl.RegAllocLoop
open Xdsl.RegMachine Xdsl.RegAlloc

theorem checkT_some {z : Bool} {a : ValId → Reg} : ∀ (t : LT) (Z L Lin : List ValId),
    checkT z a Z t L = some Lin → Lin = liveT t L := by
  intro t
  induction t with
  | nil => intro Z L Lin h; simp only [checkT, Option.some.injEq] at h; exact h.symm
  | op o next ih =>
    intro Z L Lin h
    simp only [checkT] at h
    split at h
    · exact absurd h (by simp)
    · rename_i L' hL'
      split at h
      · simp only [Option.some.injEq] at h
        rw [← h, ih _ _ _ hL']; rfl
      · exact absurd h (by simp)
  | loop hd body next ihb ihn =>
    intro Z L Lin h
    simp only [checkT] at h
    split at h
    · exact absurd h (by simp)
    rename_i L' hL'
    split at h
    · exact absurd h (by simp)
    rename_i bodyIn hbody
    split at h
    · simp only [Option.some.injEq] at h
      have e1 := ihn _ _ _ hL'
      have e2 := ihb _ _ _ hbody
      rw [← h, e2, e1]; rfl
    · exact absurd h (by simp)

/-- everything a successful validation says, node by node -/
def GoodT (z : Bool) (a : ValId → Reg) : List ValId → LT → List ValId → Prop
  | _, .nil, L => PW z a L
  | Z, .op o next, L =>
    GoodT z a (Z ++ newZero true Z o) next L
    ∧ opOk z a Z (Z ++ newZero true Z o) o (liveT next L) = true
    ∧ PW z a (liveT (.op o next) L)
  | Z, .loop h body next, L =>
    GoodT z a Z next L
    ∧ GoodT z a Z body (bodyOutOf h (throughOf h body (liveT next L)))
    ∧ LoopGood z a Z h (liveT next L) (throughOf h body (liveT next L))
        (bodyOutOf h (throughOf h body (liveT next L)))
        (liveT body (bodyOutOf h (throughOf h body (liveT next L))))
        (atEntryOf h (liveT body (bodyOutOf h (throughOf h body (liveT next L)))) (throughOf h body (liveT next L)))
    ∧ PW z a (liveT (.loop h body next) L)

theorem pw_sub {z : Bool} {a : ValId → Reg} {L L2 : List ValId} (h : PW z a L) (hs : ∀ v ∈ L2, v ∈ L) :
    PW z a L2 := fun v hv w hw => h v (hs v hv) w (hs w hw)

theorem goodT_of_check {z : Bool} {a : ValId → Reg} : ∀ (t : LT) (Z L Lin : List ValId),
    checkT z a Z t L = some Lin → PW z a Lin → GoodT z a Z t L := by
  intro t
  induction t with
  | nil =>
    intro Z L Lin h hpw
    simp only [checkT, Option.some.injEq] at h
    subst h
    exact hpw
  | op o next ih =>
    intro Z L Lin h hpw
    have hLin := checkT_some _ _ _ _ h
    simp only [checkT] at h
    split at h
    · exact absurd h (by simp)
    · rename_i L' hL'
      have hL'eq := checkT_some _ _ _ _ hL'
      split at h
      · rename_i hok
        simp only [Option.some.injEq] at h
        subst h
        have hpw' : PW z a L' := pw_step hok hpw
        refine ⟨ih _ _ _ hL' hpw', ?_, ?_⟩
        · rw [← hL'eq]; exact hok
        · rw [← hLin]; exact hpw
      · exact absurd h (by simp)
  | loop hd body next ihb ihn =>
    intro Z L Lin h hpw
    have hLin := checkT_some _ _ _ _ h
    simp only [checkT] at h
    split at h
    · exact absurd h (by simp)
    rename_i L' hL'
    split at h
    · exact absurd h (by simp)
    rename_i bodyIn hbody
    have hL'eq := checkT_some _ _ _ _ hL'
    have hbeq := checkT_some _ _ _ _ hbody
    split at h
    · rename_i hok
      have G := loopOk_good hok
      refine ⟨ihn _ _ _ hL' G.pwAfter, ?_, ?_, ?_⟩
      · rw [← hL'eq]
        refine ihb _ _ _ hbody (pw_sub G.pwEntry ?_)
        intro v hv; unfold atEntryOf; rw [mem_uni, mem_uni]; exact Or.inl (Or.inl hv)
      · rw [← hL'eq, ← hbeq]; exact G
      · rw [← hLin]; exact hpw
    · exact absurd h (by simp)

/-- the zero constants of the allocator are known to the validator where they are defined -/
def ZcOkT (Zc : List ValId) : List ValId → LT → Prop
  | _, .nil => True
  | Z, .op o next =>
    (∀ d ∈ o.defs, d ∈ Zc → d ∈ Z ++ newZero true Z o) ∧ ZcOkT Zc (Z ++ newZero true Z o) next
  | Z, .loop _ body next => ZcOkT Zc Z body ∧ ZcOkT Zc Z next

/-! ### liveness -/

theorem mem_ounion {a b : List ValId} {v : ValId} : v ∈ ounion a b ↔ v ∈ a ∨ v ∈ b := by
  unfold ounion
  induction b generalizing a with
  | nil => simp
  | cons x b ih =>
    simp only [List.foldl_cons]
    rw [ih]
    split
    · rename_i hc
      simp only [List.contains_eq_mem, decide_eq_true_eq] at hc
      simp only [List.mem_cons]
      constructor
      · rintro (h | h)
        · exact Or.inl h
        · exact Or.inr (Or.inr h)
      · rintro (h | h | h)
        · exact Or.inl h
        · exact Or.inl (h ▸ hc)
        · exact Or.inr h
    · simp only [List.mem_append, List.mem_cons, List.not_mem_nil, or_false]
      constructor
      · rintro ((h | h) | h)
        · exact Or.inl h
        · exact Or.inr (Or.inl h)
        · exact Or.inr (Or.inr h)
      · rintro (h | h | h)
        · exact Or.inl (Or.inl h)
        · exact Or.inl (Or.inr h)
        · exact Or.inr h

theorem mem_odiff {a b : List ValId} {v : ValId} : v ∈ odiff a b ↔ v ∈ a ∧ v ∉ b := by
  simp [odiff, List.mem_filter]

/-- `live_ins_per_block` yields values that occur in the block (or are in the start set) -/
theorem liveAcc_sub : ∀ (t : LT) (acc : List ValId), ∀ v ∈ liveAcc t acc, v ∈ allValsT t ∨ v ∈ acc := by
  intro t
  induction t with
  | nil => intro acc v hv; exact Or.inr hv
  | op o next ih =>
    intro acc v hv
    simp only [liveAcc, mem_ounion, mem_odiff] at hv
    simp only [allValsT, List.mem_append]
    rcases hv with ⟨h1, _⟩ | h1
    · rcases ih acc v h1 with h | h
      · exact Or.inl (Or.inr h)
      · exact Or.inr h
    · exact Or.inl (Or.inl (Or.inl h1))
  | loop hd body next ihb ihn =>
    intro acc v hv
    simp only [liveAcc, mem_ounion, mem_odiff] at hv
    simp only [allValsT, List.mem_append]
    rcases hv with (⟨h1, _⟩ | h1) | ⟨h1, _⟩
    · rcases ihn acc v h1 with h | h
      · exact Or.inl (Or.inr h)
      · exact Or.inr h
    · exact Or.inl (Or.inl (Or.inl (Or.inl (Or.inl (Or.inl h1)))))
    · rcases ihb _ v h1 with h | h
      · exact Or.inl (Or.inl (Or.inr h))
      · rw [mem_ounion] at h
        rcases h with h | h
        · simp at h
        · exact Or.inl (Or.inl (Or.inl (Or.inr h)))

theorem liveIns_sub (h : Loop) (body : LT) : ∀ v ∈ liveIns h body, (v ∈ allValsT body ∨ v ∈ h.yields) ∧ v ∉ h.bound := by
  intro v hv
  unfold liveIns at hv
  rw [mem_odiff] at hv
  refine ⟨?_, hv.2⟩
  rcases liveAcc_sub body _ v hv.1 with h1 | h1
  · exact Or.inl h1
  · rw [mem_ounion] at h1
    rcases h1 with h1 | h1
    · simp at h1
    · exact Or.inr h1

theorem mem_throughOf {h : Loop} {body : LT} {L' : List ValId} {v : ValId} :
    v ∈ throughOf h body L' ↔ (v ∈ L' ∧ v ∉ h.res) ∨ v ∈ liveIns h body ∨ v ∈ optL h.ub ∨ v ∈ optL h.step := by
  unfold throughOf
  simp only [mem_uni, List.mem_filter, List.contains_eq_mem, Bool.not_eq_true', decide_eq_false_iff_not,
    List.mem_append]
  constructor
  · rintro ((h1 | h1) | h1 | h1)
    · exact Or.inl h1
    · exact Or.inr (Or.inl h1)
    · exact Or.inr (Or.inr (Or.inl h1))
    · exact Or.inr (Or.inr (Or.inr h1))
  · rintro (h1 | h1 | h1 | h1)
    · exact Or.inl (Or.inl h1)
    · exact Or.inl (Or.inr h1)
    · exact Or.inr (Or.inl h1)
    · exact Or.inr (Or.inr h1)

theorem mem_bodyOutOf {h : Loop} {th : List ValId} {v : ValId} :
    v ∈ bodyOutOf h th ↔ v ∈ th ∨ v ∈ optL h.iv ∨ v ∈ h.yields := by
  unfold bodyOutOf; simp only [mem_uni, or_assoc]

theorem mem_atEntryOf {h : Loop} {bi th : List ValId} {v : ValId} :
    v ∈ atEntryOf h bi th ↔ v ∈ bi ∨ v ∈ th ∨ v ∈ optL h.iv := by
  unfold atEntryOf; simp only [mem_uni, or_assoc]

theorem mem_beforeOf {h : Loop} {ae : List ValId} {v : ValId} :
    v ∈ beforeOf h ae ↔ (v ∈ ae ∧ v ∉ h.bound) ∨ v ∈ optL h.lb ∨ v ∈ optL h.rep ∨ v ∈ h.inits := by
  unfold beforeOf
  simp only [mem_uni, List.mem_filter, List.contains_eq_mem, Bool.not_eq_true', decide_eq_false_iff_not,
    List.mem_append, or_assoc]

/-- a value that is live after a block and not defined in it is live before it -/
theorem liveT_of_live : ∀ (t : LT) (L : List ValId) (v : ValId), v ∈ L → v ∉ defsT t → v ∈ liveT t L := by
  intro t
  induction t with
  | nil => intro L v hv _; exact hv
  | op o next ih =>
    intro L v hv hd
    simp only [defsT, List.mem_append, not_or] at hd
    simp only [liveT]
    exact mem_liveIn_of_live (ih L v hv hd.2) hd.1
  | loop hd body next ihb ihn =>
    intro L v hv hdf
    simp only [defsT, List.mem_append, not_or] at hdf
    obtain ⟨⟨⟨hb, hr⟩, hdb⟩, hdn⟩ := hdf
    simp only [liveT]
    rw [mem_beforeOf]
    left
    refine ⟨?_, hb⟩
    rw [mem_atEntryOf]
    right; left
    rw [mem_throughOf]
    exact Or.inl ⟨ihn L v hv hdn, hr⟩

/-- what is live before a block occurs in the block or is live after it -/
theorem liveT_sub : ∀ (t : LT) (L : List ValId), ∀ v ∈ liveT t L, v ∈ allValsT t ∨ v ∈ L := by
  intro t
  induction t with
  | nil => intro L v hv; exact Or.inr hv
  | op o next ih =>
    intro L v hv
    simp only [liveT] at hv
    simp only [allValsT, List.mem_append]
    rcases mem_liveIn.1 hv with h | ⟨h, _⟩
    · exact Or.inl (Or.inl (Or.inl h))
    · rcases ih L v h with h | h
      · exact Or.inl (Or.inr h)
      · exact Or.inr h
  | loop hd body next ihb ihn =>
    intro L v hv
    simp only [liveT] at hv
    simp only [allValsT, List.mem_append]
    have hth : ∀ w ∈ throughOf hd body (liveT next L),
        (w ∈ hd.operands ∨ w ∈ hd.yields ∨ w ∈ allValsT body ∨ w ∈ allValsT next) ∨ w ∈ L := by
      intro w hw
      rw [mem_throughOf] at hw
      rcases hw with ⟨h1, _⟩ | h1 | h1 | h1
      · rcases ihn L w h1 with h | h
        · exact Or.inl (Or.inr (Or.inr (Or.inr h)))
        · exact Or.inr h
      · rcases (liveIns_sub hd body w h1).1 with h | h
        · exact Or.inl (Or.inr (Or.inr (Or.inl h)))
        · exact Or.inl (Or.inr (Or.inl h))
      · exact Or.inl (Or.inl (by simp [Loop.operands, h1]))
      · exact Or.inl (Or.inl (by simp [Loop.operands, h1]))
    have hfin : ∀ w, ((w ∈ hd.operands ∨ w ∈ hd.yields ∨ w ∈ allValsT body ∨ w ∈ allValsT next) ∨ w ∈ L) →
        (((((w ∈ hd.operands ∨ w ∈ hd.res) ∨ w ∈ hd.bound) ∨ w ∈ hd.yields) ∨ w ∈ allValsT body) ∨ w ∈ allValsT next) ∨ w ∈ L := by
      rintro w ((h | h | h | h) | h)
      · exact Or.inl (Or.inl (Or.inl (Or.inl (Or.inl (Or.inl h)))))
      · exact Or.inl (Or.inl (Or.inl (Or.inr h)))
      · exact Or.inl (Or.inl (Or.inr h))
      · exact Or.inl (Or.inr h)
      · exact Or.inr h
    rw [mem_beforeOf] at hv
    rcases hv with ⟨h1, _⟩ | h1 | h1 | h1
    · rw [mem_atEntryOf] at h1
      rcases h1 with h1 | h1 | h1
      · rcases ihb _ v h1 with h | h
        · exact Or.inl (Or.inl (Or.inr h))
        · rw [mem_bodyOutOf] at h
          rcases h with h | h | h
          · exact hfin v (hth v h)
          · exact Or.inl (Or.inl (Or.inl (Or.inl (Or.inr (by simp [Loop.bound, h])))))
          · exact Or.inl (Or.inl (Or.inl (Or.inr h)))
      · exact hfin v (hth v h1)
      · exact Or.inl (Or.inl (Or.inl (Or.inl (Or.inr (by simp [Loop.bound, h1])))))
    · exact Or.inl (Or.inl (Or.inl (Or.inl (Or.inl (Or.inl (by simp [Loop.operands, h1]))))))
    · exact Or.inl (Or.inl (Or.inl (Or.inl (Or.inl (Or.inl (by simp [Loop.operands, h1]))))))
    · exact Or.inl (Or.inl (Or.inl (Or.inl (Or.inl (Or.inl (by simp [Loop.operands, h1]))))))

/-! ### the validator looks at the assignment on finitely many values -/

theorem opOk_congr {z : Bool} {a b : ValId → Reg} {Z Z' : List ValId} {o : Op} {L' : List ValId}
    (hab : ∀ w, w ∈ o.reads ∨ w ∈ o.defs ∨ w ∈ L' → a w = b w) :
    opOk z a Z Z' o L' = true → opOk z b Z Z' o L' = true := by
  rw [opOk_iff, opOk_iff]
  have hdefs : ∀ d ∈ o.defs, a d = b d := fun d hd => hab d (Or.inr (Or.inl hd))
  have hreads : ∀ d ∈ o.reads, a d = b d := fun d hd => hab d (Or.inl hd)
  have hDL : ∀ w ∈ o.defs ++ L', a w = b w := by
    intro w hw
    rcases List.mem_append.1 hw with h | h
    · exact hdefs w h
    · exact hab w (Or.inr (Or.inr h))
  rintro ⟨h1, h2, h3, h4, h5⟩
  refine ⟨h1, h2, ?_, ?_, ?_⟩
  · intro d hd w hw hne heq
    rw [← hdefs d hd, ← hDL w hw] at heq
    have := h3 d hd w hw hne heq
    rw [← hdefs d hd]; exact this
  · intro hz d hd h0
    rw [← hdefs d hd] at h0
    exact h4 hz d hd h0
  · intro p hp
    have h1' : p.1 ∈ o.reads := by
      simp only [Op.reads, List.mem_append, List.mem_map]
      exact Or.inr ⟨p, hp, rfl⟩
    have h2' : p.2 ∈ o.defs := by
      simp only [Op.defs, List.mem_append, List.mem_map]
      exact Or.inr ⟨p, hp, rfl⟩
    rw [← hreads _ h1', ← hdefs _ h2']
    exact h5 p hp

theorem groups_tied_of {a : ValId → Reg} : ∀ (bs is ys rs : List ValId),
    (∀ g ∈ groups bs is ys rs, ∀ v ∈ g, ∀ w ∈ g, a v = a w) → ∀ g ∈ groups bs is ys rs, tiedB a g = true := by
  intro bs is ys rs h g hg
  have hs := h g hg
  cases g with
  | nil => rfl
  | cons v vs =>
    simp only [tiedB, List.all_eq_true, beq_iff_eq]
    intro w hw
    exact hs w (List.mem_cons_of_mem _ hw) v (List.mem_cons_self ..)

/-- `loopOk` from its logical reading -/
theorem loopOk_of_good {z : Bool} {a : ValId → Reg} {Z : List ValId} {h : Loop}
    {L' through bodyOut bodyIn atEntry : List ValId}
    (G : LoopGood z a Z h L' through bodyOut bodyIn atEntry) :
    loopOk z a Z h L' through bodyOut bodyIn atEntry = true := by
  unfold loopOk shapeOk
  simp only [Bool.and_eq_true, beq_iff_eq, Bool.or_eq_true, Bool.not_eq_true', decide_eq_true_eq,
    List.all_eq_true, List.contains_eq_mem, decide_eq_false_iff_not, bne_iff_ne, ne_eq,
    List.mem_append, List.mem_filter]
  refine ⟨⟨⟨⟨⟨⟨⟨⟨⟨⟨⟨⟨⟨⟨⟨⟨⟨G.ivlb, G.ivub⟩, ?_⟩, ?_⟩, G.lenB⟩, G.lenY⟩, G.lenR⟩, G.nodup⟩, ?_⟩, G.tied⟩, ?_⟩, ?_⟩,
    pwB_iff.2 G.pwAfter⟩, pwB_iff.2 G.pwOut⟩, G.ivY⟩, G.inSub⟩, pwB_iff.2 G.pwEntry⟩, ?_⟩
  · cases hs : h.step.isSome with
    | false => exact Or.inl rfl
    | true => exact Or.inr (G.stepiv hs)
  · cases hr : h.rep.isSome with
    | false => exact Or.inl rfl
    | true => exact Or.inr (G.repiv hr)
  · exact fun v hv => G.fresh v (List.mem_append.2 hv)
  · cases z with
    | false => exact Or.inl rfl
    | true => exact Or.inr fun v hv => G.nz rfl v (List.mem_append.2 hv)
  · intro d hd
    unfold defFree
    simp only [List.all_eq_true, List.mem_filter, List.contains_eq_mem, Bool.not_eq_true',
      decide_eq_false_iff_not, Bool.or_eq_true, beq_iff_eq, bne_iff_ne, ne_eq, and_imp]
    intro w hw hwr
    exact Or.inr (G.resFree d hd w hw hwr)
  · intro d hd w hw
    refine G.ivFree d hd w ?_
    rcases hw with ⟨h1, h2⟩ | h1
    · exact Or.inl ⟨h1, h2⟩
    · exact Or.inr h1

theorem checkT_ofOps (z : Bool) (a : ValId → Reg) : ∀ (os : List Op) (Z L : List ValId),
    checkT z a Z (LT.ofOps os) L = checkOps z a Z os L := by
  intro os
  induction os with
  | nil => intro Z L; rfl
  | cons o os ih =>
    intro Z L
    simp only [LT.ofOps, checkT, checkOps, ih]
    cases checkOps z a (Z ++ newZero true Z o) os L <;> rfl

end Xdsl.RegAllocLoop
