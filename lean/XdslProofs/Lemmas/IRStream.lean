import XdslProofs.Lemmas.IRStore
import XdslProofs.Lemmas.DLLStream
/-!
# `Region.add_block` / `Region.insert_block_before`: the store functions the harness compares the
real methods with (`IRStore.addBlock`, `IRStore.insertBlockBefore`: folds of the one-block
primitive, with the `_attach_block` guard before every block) versus the hand-written single-pass
loops (`XdslModel/DLLStream.lean`)
-/
namespace Xdsl.IR
open Xdsl Xdsl.DLL

theorem parent_insertBefore (s : L) (c ex new x : Nat) (hne : ex ≠ new) :
    ((s.insertBefore c ex new).nd x).parent = if x = new then some c else (s.nd x).parent := by
  simp only [L.insertBefore]
  cases hpv : (s.nd ex).prev with
  | none =>
    by_cases h1 : x = ex
    · subst h1; simp [hne]
    · by_cases h2 : x = new
      · subst h2; simp [h1]
      · simp [h1, h2]
  | some p =>
    by_cases h1 : x = ex
    · subst h1
      by_cases h3 : x = p
      · subst h3; simp [hne]
      · simp [hne, h3]
    · by_cases h2 : x = new
      · subst h2; simp [h1]
      · by_cases h3 : x = p
        · subst h3; simp [h1, h2]
        · simp [h1, h2, h3]

theorem parent_insertAfter (s : L) (c ex new x : Nat) (hne : ex ≠ new) :
    ((s.insertAfter c ex new).nd x).parent = if x = new then some c else (s.nd x).parent := by
  simp only [L.insertAfter]
  cases hnx : (s.nd ex).next with
  | none =>
    by_cases h1 : x = ex
    · subst h1; simp [hne]
    · by_cases h2 : x = new
      · subst h2; simp [h1]
      · simp [h1, h2]
  | some p =>
    by_cases h1 : x = ex
    · subst h1
      by_cases h3 : x = p
      · subst h3; simp [hne]
      · simp [hne, h3]
    · by_cases h2 : x = new
      · subst h2; simp [h1]
      · by_cases h3 : x = p
        · subst h3; simp [h1, h2]
        · simp [h1, h2, h3]

/-- what a successful `insertBlockBefore` fold did: the one-block primitive per element, on blocks
that are pairwise distinct and were detached -/
theorem insertBlockBefore_fold (r t : Nat) (bs : List Nat) : ∀ (s s' : IRStore), s.blockParent t = some r →
    bs.foldlM (fun s b => do
      s.checkAttachBlock r b
      pure { s with blockL := s.blockL.insertBefore r t b }) s = .ok s' →
    s'.blockL = bs.foldl (fun l b => l.insertBefore r t b) s.blockL ∧ bs.Nodup ∧
      ∀ b ∈ bs, s.blockParent b = none := by
  induction bs with
  | nil => intro s s' _ h; simp [List.foldlM] at h; subst h; simp
  | cons b rest ih =>
    intro s s' ht h
    simp only [List.foldlM, bind_eq_ok_iff, pure_eq_ok_iff] at h
    obtain ⟨s1, ⟨_, hchk, rfl⟩, h2⟩ := h
    have hb := checkAttachBlock_ok hchk
    have htb : t ≠ b := fun e => by rw [e, hb] at ht; cases ht
    have hpar : ∀ x, IRStore.blockParent { s with blockL := s.blockL.insertBefore r t b } x
        = if x = b then some r else s.blockParent x := fun x => parent_insertBefore s.blockL r t b x htb
    obtain ⟨e, hn, hfree⟩ := ih _ s' (by rw [hpar, if_neg htb]; exact ht) h2
    refine ⟨by simpa using e, List.nodup_cons.mpr ⟨fun hm => ?_, hn⟩, fun x hx => ?_⟩
    · have := hfree b hm; rw [hpar, if_pos rfl] at this; cases this
    · rcases List.mem_cons.mp hx with rfl | hx
      · exact hb
      · have := hfree x hx
        rw [hpar] at this
        split at this
        · cases this
        · exact this

theorem parent_pushBack (s : L) (f : Nat → List Nat) (h : WF s f) (c new x : Nat) (hnew : ∀ d, new ∉ f d) :
    ((s.pushBack c new).nd x).parent = if x = new then some c else (s.nd x).parent := by
  unfold L.pushBack
  cases hl : (s.en c).last with
  | none => by_cases e : x = new <;> simp [e]
  | some l =>
    have : l ∈ f c := by
      have := (h.rep c).last; rw [hl] at this; exact List.mem_of_getLast? this.symm
    exact parent_insertAfter s c l new x (fun e => hnew c (e ▸ this))

/-- **`Region.insert_block_before` = its single-pass loop.**  On consistent IR, whenever the call
succeeds, the block links the model function leaves (`s'.blockL`) are, on every block and region, those
the hand-written loop leaves after consuming its argument once (`next(blocks_iter)` until
`StopIteration`); and the region then lists the blocks in the order they were yielded, before `t`. -/
theorem insertBlockBefore_single_pass {s s' : IRStore} (h : Inv s) {r t : Nat} {bs : List Nat}
    (hok : s.insertBlockBefore r bs t = .ok s') :
    L.Ext (s.blockL.insertStreamBefore r t bs) s'.blockL ∧
    s'.blocksOf r = bs.foldl (fun l b => insBefore l t b) (s.blocksOf r) ∧ bs.Nodup := by
  obtain ⟨a, ha⟩ := h
  unfold IRStore.insertBlockBefore at hok
  by_cases g1 : s.blockParent t = some r
  · simp only [g1, ne_eq, not_true_eq_false, if_false] at hok
    obtain ⟨e, hn, hfree⟩ := insertBlockBefore_fold r t bs s s' g1 (by simpa using hok)
    have hex : t ∈ a.blocks r := (ha.blockL.mem_iff_parent r t).mpr g1
    have hfr : ∀ b ∈ bs, ∀ d, b ∉ a.blocks d := fun b hb => ha.blockL.not_mem_of_parent_none (hfree b hb)
    obtain ⟨hext, _⟩ := ha.blockL.insertStreamBefore hex hn hfr
    refine ⟨by rw [e]; exact hext, ?_, hn⟩
    have hw := ha.blockL.foldInsertBefore r t bs hex hn hfr
    unfold IRStore.blocksOf
    rw [e, hw.toList_eq, ha.blockL.toList_eq, Function.update_self]
  · simp [g1] at hok

theorem addBlock_fold (r : Nat) (bs : List Nat) : ∀ (s s' : IRStore) (f : Nat → List Nat), WF s.blockL f →
    bs.foldlM (fun s b => do
      s.checkAttachBlock r b
      pure { s with blockL := s.blockL.pushBack r b }) s = .ok s' →
    s'.blockL = bs.foldl (fun l b => l.pushBack r b) s.blockL ∧ bs.Nodup ∧
      ∀ b ∈ bs, s.blockParent b = none := by
  induction bs with
  | nil => intro s s' _ _ h; simp [List.foldlM] at h; subst h; simp
  | cons b rest ih =>
    intro s s' f hw h
    simp only [List.foldlM, bind_eq_ok_iff, pure_eq_ok_iff] at h
    obtain ⟨s1, ⟨_, hchk, rfl⟩, h2⟩ := h
    have hb := checkAttachBlock_ok hchk
    have hnew := hw.not_mem_of_parent_none hb
    have hpar : ∀ x, IRStore.blockParent { s with blockL := s.blockL.pushBack r b } x
        = if x = b then some r else s.blockParent x := fun x => parent_pushBack s.blockL f hw r b x hnew
    obtain ⟨e, hn, hfree⟩ := ih _ s' _ (hw.pushBack (c := r) hnew) h2
    refine ⟨by simpa using e, List.nodup_cons.mpr ⟨fun hm => ?_, hn⟩, fun x hx => ?_⟩
    · have := hfree b hm; rw [hpar, if_pos rfl] at this; cases this
    · rcases List.mem_cons.mp hx with rfl | hx
      · exact hb
      · have := hfree x hx
        rw [hpar] at this
        split at this
        · cases this
        · exact this

/-- **`Region.add_block` = its single-pass loop** (as above, appending) -/
theorem addBlock_single_pass {s s' : IRStore} (h : Inv s) {r : Nat} {bs : List Nat}
    (hok : s.addBlock r bs = .ok s') :
    L.Ext (s.blockL.appendStream r bs) s'.blockL ∧ s'.blocksOf r = s.blocksOf r ++ bs ∧ bs.Nodup := by
  obtain ⟨a, ha⟩ := h
  unfold IRStore.addBlock at hok
  obtain ⟨e, hn, hfree⟩ := addBlock_fold r bs s s' _ ha.blockL hok
  have hfr : ∀ b ∈ bs, ∀ d, b ∉ a.blocks d := fun b hb => ha.blockL.not_mem_of_parent_none (hfree b hb)
  obtain ⟨hext, _⟩ := ha.blockL.appendStream (c := r) hn hfr
  refine ⟨by rw [e]; exact hext, ?_, hn⟩
  have hw := ha.blockL.foldPushBack r bs hn hfr
  unfold IRStore.blocksOf
  rw [e, hw.toList_eq, ha.blockL.toList_eq, Function.update_self]

end Xdsl.IR
