import XdslProofs.Lemmas.SymbolTable
/-!
Helper lemmas for C29: respelling the names of a tree (`Op.rename`) by an injective map commutes
with every piece of the resolvers.
-/
namespace Xdsl.SymbolTable

theorem renameList_eq_map (f : Nat → Nat) (l : List Op) : renameList f l = l.map (Op.rename f) := by
  induction l with
  | nil => rfl
  | cons o os ih => simp [renameList, ih]

@[simp] theorem rename_id (f : Nat → Nat) (o : Op) : (o.rename f).id = o.id := by
  cases o; simp [Op.rename, Op.id]

@[simp] theorem rename_isTable (f : Nat → Nat) (o : Op) : (o.rename f).isTable = o.isTable := by
  cases o; simp [Op.rename, Op.isTable]

@[simp] theorem rename_isSymbol (f : Nat → Nat) (o : Op) : (o.rename f).isSymbol = o.isSymbol := by
  cases o; simp [Op.rename, Op.isSymbol]

@[simp] theorem rename_vis (f : Nat → Nat) (o : Op) : (o.rename f).vis = o.vis := by
  cases o; simp [Op.rename, Op.vis]

@[simp] theorem rename_symName (f : Nat → Nat) (o : Op) : (o.rename f).symName = o.symName.map f := by
  cases o; simp [Op.rename, Op.symName]

@[simp] theorem rename_body (f : Nat → Nat) (o : Op) : (o.rename f).body = o.body.map (Op.rename f) := by
  cases o; simp [Op.rename, Op.body, renameList_eq_map]

@[simp] theorem rename_rest (f : Nat → Nat) (o : Op) : (o.rename f).rest = o.rest.map (Op.rename f) := by
  cases o; simp [Op.rename, Op.rest, renameList_eq_map]

@[simp] theorem rename_children (f : Nat → Nat) (o : Op) :
    (o.rename f).children = o.children.map (Op.rename f) := by
  simp [Op.children]

@[simp] theorem symbolName_rename (f : Nat → Nat) (o : Op) :
    symbolName (o.rename f) = (symbolName o).map f := by
  unfold symbolName
  by_cases h : o.isSymbol = true <;> simp [h]

@[simp] theorem visibility_rename (f : Nat → Nat) (o : Op) : visibility (o.rename f) = visibility o := by
  simp [visibility]

@[simp] theorem isPrivate_rename (f : Nat → Nat) (o : Op) : isPrivate (o.rename f) = isPrivate o := by
  simp [isPrivate]

theorem map_eq_some_inj {f : Nat → Nat} (hf : Function.Injective f) (x : Option Nat) (n : Nat) :
    (x.map f == some (f n)) = (x == some n) := by
  cases x with
  | none => simp
  | some k =>
    by_cases h : k = n
    · subst h; simp
    · have h1 : (f k == f n) = false := beq_eq_false_iff_ne.mpr fun e => h (hf e)
      have h2 : (k == n) = false := beq_eq_false_iff_ne.mpr h
      simp [h1, h2]

/-- the name test of the block scan sees the same ops before and after respelling -/
theorem nameTest_rename {f : Nat → Nat} (hf : Function.Injective f) (n : Nat) :
    ((fun o => symbolName o == some (f n)) ∘ Op.rename f) = fun o => symbolName o == some n := by
  funext o
  simp only [Function.comp, symbolName_rename]
  exact map_eq_some_inj hf _ _

/-- a table lookup `lk'` on respelled trees does what `lk` does on the original ones -/
def Commutes (f : Nat → Nat) (lk lk' : Op → Nat → Option Op) : Prop :=
  ∀ o n, lk' (o.rename f) (f n) = (lk o n).map (Op.rename f)

theorem directChild_rename {f : Nat → Nat} (hf : Function.Injective f) :
    Commutes f directChild directChild := by
  intro t n
  unfold directChild
  rw [rename_body, List.find?_map, nameTest_rename hf]

theorem cachedChild_rename {f : Nat → Nat} (hf : Function.Injective f) :
    Commutes f cachedChild cachedChild := by
  intro t n
  rw [cachedChild_eq_last, cachedChild_eq_last, rename_body, ← List.map_reverse, List.find?_map,
    nameTest_rename hf]

theorem refNested_rename {f : Nat → Nat} {lk lk' : Op → Nat → Option Op} (h : Commutes f lk lk')
    (cur : Op) (ns : List Nat) (acc : List Op) :
    refNested lk' (cur.rename f) (ns.map f) (acc.map (Op.rename f)) =
      (refNested lk cur ns acc).map (List.map (Op.rename f)) := by
  induction ns generalizing cur acc with
  | nil => simp [refNested]
  | cons n ns ih =>
    simp only [List.map_cons, refNested, rename_isTable]
    by_cases ht : cur.isTable = true
    · simp only [ht, Bool.not_true, Bool.false_eq_true, if_false, h cur n]
      cases lk cur n with
      | none => simp
      | some s =>
        simp only [Option.map_some, isPrivate_rename]
        by_cases hp : isPrivate s = true
        · simp [hp]
        · simp only [hp, Bool.false_eq_true, if_false]
          have := ih s (acc ++ [s])
          simpa using this
    · simp [ht]

theorem refIn_rename {f : Nat → Nat} {lk lk' : Op → Nat → Option Op} (h : Commutes f lk lk')
    (t : Op) (r : Nat) (ns : List Nat) :
    refIn lk' (t.rename f) (f r) (ns.map f) = (refIn lk t r ns).map (List.map (Op.rename f)) := by
  unfold refIn
  rw [h t r]
  cases lk t r with
  | none => simp
  | some s =>
    have := refNested_rename h s ns [s]
    simpa using this

theorem lookupAllIn_rename {f : Nat → Nat} {lk lk' : Op → Nat → Option Op} (h : Commutes f lk lk')
    (t : Op) (s : Sym) :
    lookupAllIn lk' (t.rename f) (s.rename f) = (lookupAllIn lk t s).map (List.map (Op.rename f)) := by
  cases s with
  | flat n =>
    simp only [Sym.rename, lookupAllIn, h t n]
    cases lk t n <;> simp
  | ref r ns => simp only [Sym.rename, lookupAllIn, refIn_rename h]

theorem lookupIn_rename {f : Nat → Nat} {lk lk' : Op → Nat → Option Op} (h : Commutes f lk lk')
    (t : Op) (s : Sym) :
    lookupIn lk' (t.rename f) (s.rename f) = (lookupIn lk t s).map (Op.rename f) := by
  cases s with
  | flat n => simp only [Sym.rename, lookupIn, h t n]
  | ref r ns =>
    simp only [Sym.rename, lookupIn, refIn_rename h]
    cases refIn lk t r ns with
    | none => simp
    | some l => simp [List.getLast?_map]

theorem nearestTable_rename (f : Nat → Nat) (chain : List Op) :
    nearestTable (chain.map (Op.rename f)) = (nearestTable chain).map (Op.rename f) := by
  induction chain with
  | nil => simp [nearestTable]
  | cons o up ih =>
    simp only [List.map_cons, nearestTable, rename_isTable]
    by_cases ht : o.isTable = true
    · simp [ht]
    · simp [ht, ih]

theorem lookupNearest_rename {f : Nat → Nat} {lk lk' : Op → Nat → Option Op} (h : Commutes f lk lk')
    (chain : List Op) (s : Sym) :
    lookupNearest lk' (chain.map (Op.rename f)) (s.rename f) =
      (lookupNearest lk chain s).map (Op.rename f) := by
  unfold lookupNearest
  rw [nearestTable_rename]
  cases nearestTable chain with
  | none => simp
  | some t => simp [lookupIn_rename h]

theorem chainAt_rename (f : Nat → Nat) (root : Op) (p : List Nat) (acc : List Op) :
    chainAt (root.rename f) p (acc.map (Op.rename f)) =
      (chainAt root p acc).map (List.map (Op.rename f)) := by
  induction p generalizing root acc with
  | nil => simp [chainAt]
  | cons i p ih =>
    simp only [chainAt, rename_children, List.getElem?_map]
    cases root.children[i]? with
    | none => simp
    | some c =>
      have := ih c (root :: acc)
      simpa using this

theorem traitsGo_rename {f : Nat → Nat} (hf : Function.Injective f) (first : Bool) (tbl : Op)
    (ns : List Nat) :
    traitsGo first (tbl.rename f) (ns.map f) = (traitsGo first tbl ns).map (Op.rename f) := by
  induction ns generalizing first tbl with
  | nil => simp [traitsGo]
  | cons n ns ih =>
    simp only [List.map_cons, traitsGo, rename_isTable, directChild_rename hf tbl n]
    by_cases hc : (!first && !tbl.isTable) = true
    · simp [hc]
    · simp only [hc, Bool.false_eq_true, if_false]
      cases directChild tbl n with
      | none => simp
      | some o =>
        simp only [Option.map_some, isPrivate_rename]
        by_cases hp : (!first && isPrivate o) = true
        · simp [hp]
        · simp only [hp, Bool.false_eq_true, if_false]
          exact ih false o

theorem contains_map_inj {f : Nat → Nat} (hf : Function.Injective f) (met : List Nat) (n : Nat) :
    (met.map f).contains (f n) = met.contains n := by
  induction met with
  | nil => simp
  | cons m ms ih =>
    simp only [List.map_cons, List.contains_cons, ih]
    by_cases h : n = m
    · subst h; simp
    · have h1 : (f n == f m) = false := beq_eq_false_iff_ne.mpr fun e => h (hf e)
      have h2 : (n == m) = false := beq_eq_false_iff_ne.mpr h
      simp [h1, h2]

theorem noDupNames_rename {f : Nat → Nat} (hf : Function.Injective f) (l : List Op) (met : List Nat) :
    noDupNames (l.map (Op.rename f)) (met.map f) = noDupNames l met := by
  induction l generalizing met with
  | nil => simp [noDupNames]
  | cons o os ih =>
    simp only [List.map_cons, noDupNames, rename_symName]
    cases o.symName with
    | none => simpa using ih met
    | some n =>
      simp only [Option.map_some, contains_map_inj hf]
      cases hm : met.contains n with
      | true => simp only [↓reduceIte]
      | false =>
        simp only [Bool.false_eq_true, ↓reduceIte]
        have := ih (n :: met)
        simpa using this

mutual
theorem verifyB_rename {f : Nat → Nat} (hf : Function.Injective f) :
    (o : Op) → verifyB (o.rename f) = verifyB o
  | .mk i t s n v body rest => by
    have hb := verifyListB_rename hf body
    have hr := verifyListB_rename hf rest
    have hn := noDupNames_rename hf body []
    simp only [List.map_nil] at hn
    simp only [Op.rename, verifyB, hb, hr]
    rw [renameList_eq_map, hn]
theorem verifyListB_rename {f : Nat → Nat} (hf : Function.Injective f) :
    (l : List Op) → verifyListB (renameList f l) = verifyListB l
  | [] => rfl
  | o :: os => by
    simp only [renameList, verifyListB, verifyB_rename hf o, verifyListB_rename hf os]
end

end Xdsl.SymbolTable
