import XdslModel.SymbolTable
import XdslProofs.Lemmas.AL
/-!
Helper lemmas for C29 (symbol resolution).
-/
namespace Xdsl.SymbolTable

/-! ### direct children -/

theorem directChild_member {t : Op} {n : Nat} {o : Op} (h : directChild t n = some o) :
    Member t n o := by
  unfold directChild at h
  refine ⟨List.mem_of_find?_eq_some h, ?_⟩
  have := List.find?_some h
  simpa using this

theorem directChild_none {t : Op} {n : Nat} (h : directChild t n = none) (o : Op) :
    ¬ Member t n o := by
  unfold directChild at h
  rw [List.find?_eq_none] at h
  rintro ⟨hm, hn⟩
  exact h o hm (by simp [hn])

theorem directChild_of_unique {t : Op} {n : Nat} {o : Op} (hu : UniqueSyms t) (h : Member t n o) :
    directChild t n = some o := by
  cases hd : directChild t n with
  | none => exact absurd h (directChild_none hd o)
  | some o' => rw [hu n o' o (directChild_member hd) h]

/-! ### the dict built by `SymbolTable.__init__` -/

/-- one iteration of the `__init__` loop -/
def cacheStep (m : AL Nat Op) (o : Op) : AL Nat Op :=
  match symbolName o with | some n => AL.set m n o | none => m

theorem cachedTable_eq (t : Op) : cachedTable t = t.body.foldl cacheStep [] := rfl

theorem get_cacheStep (m : AL Nat Op) (o : Op) (n : Nat) :
    AL.get (cacheStep m o) n = if symbolName o = some n then some o else AL.get m n := by
  unfold cacheStep
  cases h : symbolName o with
  | none => simp
  | some k =>
    simp only [AL.get_set, Option.some.injEq]
    by_cases hk : n = k
    · subst hk; simp
    · have : ¬ k = n := fun e => hk e.symm
      simp [hk, this]

/-- last writer wins: the dict maps `n` to the *last* op of the block with that symbol name -/
theorem get_foldl_cacheStep (body : List Op) (acc : AL Nat Op) (n : Nat) :
    AL.get (body.foldl cacheStep acc) n =
      match body.reverse.find? (fun o => symbolName o == some n) with
      | some o => some o
      | none => AL.get acc n := by
  induction body generalizing acc with
  | nil => simp
  | cons o os ih =>
    simp only [List.foldl_cons, List.reverse_cons, List.find?_append]
    rw [ih]
    cases hos : os.reverse.find? (fun o => symbolName o == some n) with
    | some x => simp
    | none =>
      simp only [Option.none_or, List.find?_cons, List.find?_nil, get_cacheStep]
      by_cases hn : symbolName o = some n
      · simp [hn]
      · have hb : (symbolName o == some n) = false := by simpa using hn
        simp [hn, hb]

theorem cachedChild_eq_last (t : Op) (n : Nat) :
    cachedChild t n = t.body.reverse.find? (fun o => symbolName o == some n) := by
  unfold cachedChild
  rw [cachedTable_eq, get_foldl_cacheStep]
  cases t.body.reverse.find? (fun o => symbolName o == some n) <;> simp

theorem cachedChild_member {t : Op} {n : Nat} {o : Op} (h : cachedChild t n = some o) :
    Member t n o := by
  rw [cachedChild_eq_last] at h
  refine ⟨by simpa using List.mem_of_find?_eq_some h, ?_⟩
  simpa using List.find?_some h

theorem cachedChild_none {t : Op} {n : Nat} (h : cachedChild t n = none) (o : Op) :
    ¬ Member t n o := by
  rw [cachedChild_eq_last, List.find?_eq_none] at h
  rintro ⟨hm, hn⟩
  exact h o (by simpa using hm) (by simp [hn])

/-- with unique names the dict lookup is the block scan -/
theorem cachedChild_eq_directChild {t : Op} (hu : UniqueSyms t) (n : Nat) :
    cachedChild t n = directChild t n := by
  cases hc : cachedChild t n with
  | none =>
    cases hd : directChild t n with
    | none => rfl
    | some o => exact absurd (directChild_member hd) (cachedChild_none hc o)
  | some o => exact (directChild_of_unique hu (cachedChild_member hc)).symm

/-! ### containment -/

theorem Sub.trans {a b c : Op} (h1 : Sub a b) (h2 : Sub b c) : Sub a c := by
  induction h1 with
  | refl => exact h2
  | step hc _ ih => exact Sub.step hc (ih h2)

theorem Sub.child {o c : Op} (h : c ∈ o.children) : Sub o c := Sub.step h (Sub.refl c)

theorem Member.sub {t o : Op} {n : Nat} (h : Member t n o) : Sub t o :=
  Sub.child (by unfold Op.children; exact List.mem_append_left _ h.1)

/-! ### the nested part of a reference, last element only -/

/-- the last element of what `refNested` returns, computed without the accumulator -/
def nestedLast (lk : Op → Nat → Option Op) : Op → List Nat → Option Op
  | cur, [] => some cur
  | cur, n :: ns =>
    if !cur.isTable then none
    else match lk cur n with
      | none => none
      | some s => if isPrivate s then none else nestedLast lk s ns

theorem refNested_last (lk : Op → Nat → Option Op) (cur : Op) (ns : List Nat) (acc : List Op) :
    (refNested lk cur ns (acc ++ [cur])).bind List.getLast? = nestedLast lk cur ns := by
  induction ns generalizing cur acc with
  | nil => simp [refNested, nestedLast]
  | cons n ns ih =>
    simp only [refNested, nestedLast]
    by_cases ht : cur.isTable = true
    · simp only [ht, Bool.not_true, Bool.false_eq_true, if_false]
      cases lk cur n with
      | none => rfl
      | some s =>
        by_cases hp : isPrivate s = true
        · simp [hp]
        · simp only [hp]
          exact ih s (acc ++ [cur])
    · simp [ht]

theorem refNested_length (lk : Op → Nat → Option Op) (cur : Op) (ns : List Nat) (acc l : List Op)
    (h : refNested lk cur ns acc = some l) : l.length = acc.length + ns.length := by
  induction ns generalizing cur acc with
  | nil => simp [refNested] at h; subst h; simp
  | cons n ns ih =>
    simp only [refNested] at h
    split at h
    · exact absurd h (by simp)
    · split at h
      · exact absurd h (by simp)
      · split at h
        · exact absurd h (by simp)
        · have := ih _ _ h
          simp at this ⊢; omega

theorem lookupIn_ref (lk : Op → Nat → Option Op) (t : Op) (r : Nat) (ns : List Nat) :
    lookupIn lk t (.ref r ns) = (lk t r).bind fun s => nestedLast lk s ns := by
  simp only [lookupIn, refIn]
  cases lk t r with
  | none => rfl
  | some s => exact refNested_last lk s ns []

theorem lookupIn_eq (lk : Op → Nat → Option Op) (t : Op) (s : Sym) :
    lookupIn lk t s = (lk t s.root).bind fun x => nestedLast lk x s.nested := by
  cases s with
  | flat n => simp only [lookupIn, Sym.root, Sym.nested, nestedLast]; cases lk t n <;> rfl
  | ref r ns => exact lookupIn_ref lk t r ns

/-! ### direct resolver vs `Nested` -/

theorem nestedLast_sound {s r : Op} {ns : List Nat}
    (h : nestedLast directChild s ns = some r) : Nested s ns r := by
  induction ns generalizing s with
  | nil => simp [nestedLast] at h; subst h; exact Nested.done _
  | cons n ns ih =>
    simp only [nestedLast] at h
    split at h
    · exact absurd h (by simp)
    · rename_i ht
      split at h
      · exact absurd h (by simp)
      · rename_i o ho
        split at h
        · exact absurd h (by simp)
        · rename_i hp
          exact Nested.step (by simpa using ht) (directChild_member ho) (by simpa using hp) (ih h)

theorem nestedLast_complete {root s r : Op} {ns : List Nat} (hv : Verified root)
    (hs : Sub root s) (h : Nested s ns r) : nestedLast directChild s ns = some r := by
  induction h with
  | done s => rfl
  | step ht hm hp _ ih =>
    simp only [nestedLast, ht, Bool.not_true, Bool.false_eq_true, if_false]
    rw [directChild_of_unique (hv _ hs ht) hm]
    simp only [hp, Bool.false_eq_true, if_false]
    exact ih (hs.trans hm.sub)

/-! ### cached resolver follows the direct one on verified trees -/

theorem nestedLast_cached {root s : Op} (ns : List Nat) (hv : Verified root) (hs : Sub root s) :
    nestedLast cachedChild s ns = nestedLast directChild s ns := by
  induction ns generalizing s with
  | nil => rfl
  | cons n ns ih =>
    simp only [nestedLast]
    by_cases ht : s.isTable = true
    · simp only [ht, Bool.not_true, Bool.false_eq_true, if_false]
      rw [cachedChild_eq_directChild (hv _ hs ht)]
      cases hd : directChild s n with
      | none => rfl
      | some o =>
        simp only
        rw [ih (hs.trans (directChild_member hd).sub)]
    · simp [ht]

theorem refNested_cached {root s : Op} (ns : List Nat) (acc : List Op) (hv : Verified root)
    (hs : Sub root s) : refNested cachedChild s ns acc = refNested directChild s ns acc := by
  induction ns generalizing s acc with
  | nil => rfl
  | cons n ns ih =>
    simp only [refNested]
    by_cases ht : s.isTable = true
    · simp only [ht, Bool.not_true, Bool.false_eq_true, if_false]
      rw [cachedChild_eq_directChild (hv _ hs ht)]
      cases hd : directChild s n with
      | none => rfl
      | some o =>
        simp only
        rw [ih _ (hs.trans (directChild_member hd).sub)]
    · simp [ht]

/-! ### traits resolver -/

theorem traitsGo_false (s : Op) (ns : List Nat) :
    traitsGo false s ns = nestedLast directChild s ns := by
  induction ns generalizing s with
  | nil => rfl
  | cons n ns ih =>
    simp only [traitsGo, nestedLast, Bool.not_false, Bool.true_and]
    by_cases ht : s.isTable = true
    · simp only [ht, Bool.not_true, Bool.false_eq_true, if_false]
      cases directChild s n with
      | none => rfl
      | some o => simp only [ih]
    · simp [ht]

/-! ### nearest table -/

theorem nearestTable_some {chain : List Op} {t : Op} (h : nearestTable chain = some t) :
    NearestTable chain t := by
  induction chain with
  | nil => simp [nearestTable] at h
  | cons o up ih =>
    simp only [nearestTable] at h
    split at h
    · rename_i ho
      simp at h; subst h
      exact ⟨[], up, rfl, ho, by simp⟩
    · rename_i ho
      obtain ⟨pre, post, hc, ht, hpre⟩ := ih h
      refine ⟨o :: pre, post, by simp [hc], ht, ?_⟩
      intro x hx
      rcases List.mem_cons.mp hx with rfl | hx
      · simpa using ho
      · exact hpre x hx

theorem nearestTable_of {chain : List Op} {t : Op} (h : NearestTable chain t) :
    nearestTable chain = some t := by
  obtain ⟨pre, post, hc, ht, hpre⟩ := h
  subst hc
  induction pre with
  | nil => simp [nearestTable, ht]
  | cons o pre ih =>
    have ho : o.isTable = false := hpre o (by simp)
    simp only [List.cons_append, nearestTable, ho, Bool.false_eq_true, if_false]
    exact ih fun x hx => hpre x (by simp [hx])

theorem nearestTable_mem {chain : List Op} {t : Op} (h : nearestTable chain = some t) : t ∈ chain := by
  obtain ⟨pre, post, hc, _, _⟩ := nearestTable_some h
  subst hc; simp

/-! ### ancestor chains -/

theorem chainAt_sub {root o : Op} (p : List Nat) (acc ch : List Op) (ho : Sub root o)
    (hacc : ∀ x ∈ acc, Sub root x) (h : chainAt o p acc = some ch) : ∀ x ∈ ch, Sub root x := by
  induction p generalizing o acc with
  | nil =>
    simp [chainAt] at h; subst h
    intro x hx
    rcases List.mem_cons.mp hx with rfl | hx
    · exact ho
    · exact hacc x hx
  | cons i p ih =>
    simp only [chainAt] at h
    split at h
    · rename_i c hc
      refine ih (acc := o :: acc) (ho.trans (Sub.child (List.mem_of_getElem? hc))) ?_ h
      intro x hx
      rcases List.mem_cons.mp hx with rfl | hx
      · exact ho
      · exact hacc x hx
    · exact absurd h (by simp)

theorem chainAt_parentChain (o : Op) (p : List Nat) (acc ch : List Op)
    (hacc : ParentChain (o :: acc)) (h : chainAt o p acc = some ch) : ParentChain ch := by
  induction p generalizing o acc with
  | nil => simp [chainAt] at h; subst h; exact hacc
  | cons i p ih =>
    simp only [chainAt] at h
    split at h
    · rename_i c hc
      exact ih c (o :: acc) ⟨List.mem_of_getElem? hc, hacc⟩ h
    · exact absurd h (by simp)

/-! ### the verifier -/

theorem pairwise_mem {α : Type} {R : α → α → Prop} {l : List α} (h : l.Pairwise R) {a b : α}
    (ha : a ∈ l) (hb : b ∈ l) : a = b ∨ R a b ∨ R b a := by
  induction h with
  | nil => simp at ha
  | cons hx _ ih =>
    rcases List.mem_cons.mp ha with rfl | ha' <;> rcases List.mem_cons.mp hb with rfl | hb'
    · exact Or.inl rfl
    · exact Or.inr (Or.inl (hx _ hb'))
    · exact Or.inr (Or.inr (hx _ ha'))
    · exact ih ha' hb'

theorem noDupNames_spec (os : List Op) (met : List Nat) (h : noDupNames os met = true) :
    os.Pairwise (fun a b => ∀ n, a.symName = some n → b.symName ≠ some n) ∧
    ∀ o ∈ os, ∀ n, o.symName = some n → n ∉ met := by
  induction os generalizing met with
  | nil => simp
  | cons o os ih =>
    simp only [noDupNames] at h
    cases hn : o.symName with
    | none =>
      simp only [hn] at h
      obtain ⟨hp, hm⟩ := ih met h
      refine ⟨List.pairwise_cons.mpr ⟨(by intro b _ n hn'; rw [hn] at hn'; cases hn'), hp⟩, ?_⟩
      intro x hx n hxn
      rcases List.mem_cons.mp hx with rfl | hx
      · rw [hn] at hxn; simp at hxn
      · exact hm x hx n hxn
    | some k =>
      simp only [hn] at h
      split at h
      · exact absurd h (by simp)
      · rename_i hk
        obtain ⟨hp, hm⟩ := ih (k :: met) h
        refine ⟨List.pairwise_cons.mpr ⟨?_, hp⟩, ?_⟩
        · intro b hb n hn' hbn
          rw [hn] at hn'; cases hn'
          exact hm b hb _ hbn (by simp)
        · intro x hx n hxn
          rcases List.mem_cons.mp hx with rfl | hx
          · rw [hn] at hxn; simp at hxn; subst hxn
            simpa using hk
          · intro hmem
            exact hm x hx n hxn (List.mem_cons_of_mem _ hmem)

theorem symbolName_symName {o : Op} {n : Nat} (h : symbolName o = some n) : o.symName = some n := by
  unfold symbolName at h
  split at h
  · exact h
  · exact absurd h (by simp)

theorem noDupNames_unique {t : Op} (h : noDupNames t.body [] = true) : UniqueSyms t := by
  intro n a b ha hb
  have hp := (noDupNames_spec _ _ h).1
  rcases pairwise_mem hp ha.1 hb.1 with e | hab | hba
  · exact e
  · exact absurd (symbolName_symName hb.2) (hab n (symbolName_symName ha.2))
  · exact absurd (symbolName_symName ha.2) (hba n (symbolName_symName hb.2))

theorem verifyListB_mem {l : List Op} (h : verifyListB l = true) {c : Op} (hc : c ∈ l) :
    verifyB c = true := by
  induction l with
  | nil => simp at hc
  | cons o os ih =>
    simp only [verifyListB, Bool.and_eq_true] at h
    rcases List.mem_cons.mp hc with rfl | hc
    · exact h.1
    · exact ih h.2 hc

theorem verifyB_child {o c : Op} (h : verifyB o = true) (hc : c ∈ o.children) : verifyB c = true := by
  cases o with
  | mk i t s nm v body rest =>
    simp only [verifyB, Bool.and_eq_true] at h
    simp only [Op.children, Op.body, Op.rest, List.mem_append] at hc
    rcases hc with hc | hc
    · exact verifyListB_mem h.1.2 hc
    · exact verifyListB_mem h.2 hc

theorem verifyB_table {o : Op} (h : verifyB o = true) (ht : o.isTable = true) :
    noDupNames o.body [] = true := by
  cases o with
  | mk i t s nm v body rest =>
    simp only [verifyB, Bool.and_eq_true] at h
    simp only [Op.isTable] at ht
    subst ht
    simpa [Op.body] using h.1.1

theorem verifyB_sub {o t : Op} (h : verifyB o = true) (hs : Sub o t) : verifyB t = true := by
  induction hs with
  | refl => exact h
  | step hc _ ih => exact ih (verifyB_child h hc)

/-! ### the resolver of `traits.SymbolTable.lookup_symbol` before the repair -/

/-- pre-repair code: recursive call `lookup_symbol(o, rest)` re-anchors at `o` when `o` is a table and
otherwise at the table that holds `o`; no visibility check -/
def traitsOld (anchor : Op) : List Nat → Option Op
  | [] => none
  | [n] => directChild anchor n
  | n :: m :: ns =>
    match directChild anchor n with
    | none => none
    | some o => traitsOld (if o.isTable then o else anchor) (m :: ns)

end Xdsl.SymbolTable
