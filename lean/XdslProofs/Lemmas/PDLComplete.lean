import XdslProofs.Lemmas.PDLMatch
/-!
Completeness of the PDL specification matcher: whenever SOME binding instantiates the pattern with its root at
`o`, `matchRoot` succeeds and returns a sub-binding of it — for every DAG-shaped pattern (shared nodes included)
whose `pdl.result` operands refer to earlier operations (`WFPat`, which SSA form guarantees).
-/
namespace Xdsl.PDL
open Xdsl

/-- operands defined by `pdl.result` refer to operations declared earlier -/
def WFPat (p : Pattern) : Prop :=
  ∀ i pat, p.ops[i]? = some pat → ∀ j idx, ORef.res j idx ∈ pat.operands → j < i

/-! ### frames: which maps a step can touch -/

theorem bindVal_frame {p : Pattern} {ir : IR} {b b' : Binding} {v : Nat} {x : Val}
    (h : bindVal p ir b v x = some b') : b'.ops = b.ops := by
  unfold bindVal at h
  split at h
  · split at h
    · cases h; rfl
    · cases h
  · split at h
    · cases h
    · cases h; rfl
    · split at h
      · cases h
      · split at h
        · cases h
        · rename_i b1 hb1; cases h; exact (bindTy_frame hb1).1

theorem bindAttr_frame {p : Pattern} {b b' : Binding} {a : Nat} {x : Attr}
    (h : bindAttr p b a x = some b') : b'.ops = b.ops := by
  unfold bindAttr at h
  split at h
  · split at h
    · cases h; rfl
    · cases h
  · split at h
    · cases h
    · split at h
      · split at h
        · cases h; rfl
        · split at h
          · cases h
          · split at h
            · cases h
            · rename_i b1 hb1; cases h; exact (bindTy_frame hb1).1
      · cases h

theorem matchAttrs_frame {p : Pattern} {x : Op} :
    ∀ (l : List (Nat × Nat)) {b b' : Binding}, matchAttrs p x b l = some b' → b'.ops = b.ops := by
  intro l
  induction l with
  | nil => intro b b' h; simp only [matchAttrs] at h; cases h; rfl
  | cons na r ih =>
    intro b b' h
    obtain ⟨n, a⟩ := na
    simp only [matchAttrs] at h
    split at h
    · cases h
    · split at h
      · cases h
      · rename_i b1 hb1; rw [ih h, bindAttr_frame hb1]

theorem matchResults_frame {p : Pattern} :
    ∀ (ts : List Nat) (xs : List Ty) {b b' : Binding}, matchResults p b ts xs = some b' → b'.ops = b.ops := by
  intro ts
  induction ts with
  | nil =>
    intro xs b b' h
    cases xs with
    | nil => simp only [matchResults] at h; cases h; rfl
    | cons _ _ => simp [matchResults] at h
  | cons t ts ih =>
    intro xs b b' h
    cases xs with
    | nil => simp [matchResults] at h
    | cons x xs =>
      simp only [matchResults] at h
      split at h
      · cases h
      · rename_i b1 hb1; rw [ih xs h, (bindTy_frame hb1).1]

/-- the operation keys a run may add are bounded by `n` -/
def KeysBelow (b b' : Binding) (n : Nat) : Prop :=
  ∀ k, AL.get b'.ops k ≠ none → AL.get b.ops k ≠ none ∨ k < n

theorem KeysBelow.trans {a b c : Binding} {n : Nat} (h1 : KeysBelow a b n) (h2 : KeysBelow b c n) : KeysBelow a c n := by
  intro k hk
  rcases h2 k hk with h | h
  · exact h1 k h
  · exact Or.inr h

theorem KeysBelow.of_eq {b b' : Binding} {n : Nat} (h : b'.ops = b.ops) : KeysBelow b b' n := by
  intro k hk; rw [h] at hk; exact Or.inl hk

theorem matchOperands_keys {p : Pattern} {ir : IR} {rec : Binding → Nat → OpId → Option Binding} {i : Nat}
    (hrec : ∀ b j o b', j < i → rec b j o = some b' → KeysBelow b b' i) :
    ∀ (rs : List ORef) (xs : List Val) {b b' : Binding}, (∀ j idx, ORef.res j idx ∈ rs → j < i) →
      matchOperands p ir rec b rs xs = some b' → KeysBelow b b' i := by
  intro rs
  induction rs with
  | nil =>
    intro xs b b' _ h
    cases xs with
    | nil => simp only [matchOperands] at h; cases h; exact KeysBelow.of_eq rfl
    | cons _ _ => simp [matchOperands] at h
  | cons r rs ih =>
    intro xs b b' hlt h
    cases xs with
    | nil => simp [matchOperands] at h
    | cons x xs =>
      simp only [matchOperands] at h
      split at h
      · cases h
      · rename_i b1 hb1
        have step : KeysBelow b b1 i := by
          cases r with
          | val v => simp only at hb1; exact KeysBelow.of_eq (bindVal_frame hb1)
          | res j idx =>
            simp only at hb1
            cases x with
            | arg k => simp at hb1
            | res o k =>
              simp only at hb1
              split at hb1
              · exact hrec _ _ _ _ (hlt j idx (List.mem_cons_self ..)) hb1
              · cases hb1
        exact step.trans (ih xs (fun j idx hm => hlt j idx (List.mem_cons_of_mem _ hm)) h)

theorem matchOp_keys {p : Pattern} {ir : IR} (hwf : WFPat p) :
    ∀ fuel b i o b', matchOp p ir fuel b i o = some b' → KeysBelow b b' (i + 1) := by
  intro fuel
  induction fuel with
  | zero => intro b i o b' h; simp [matchOp] at h
  | succ fuel ih =>
    intro b i o b' h
    simp only [matchOp] at h
    split at h
    · split at h
      · cases h; exact KeysBelow.of_eq rfl
      · cases h
    · split at h
      · rename_i pat x hpat hx
        split at h
        · split at h
          · cases h
          · rename_i b1 hb1
            split at h
            · cases h
            · rename_i b2 hb2
              split at h
              · cases h
              · rename_i b3 hb3
                split at h
                · cases h
                · cases h
                  have k1 : KeysBelow b b1 i := KeysBelow.of_eq (matchAttrs_frame _ hb1)
                  have k2 : KeysBelow b1 b2 i :=
                    matchOperands_keys (i := i)
                      (fun b j o b' hj hr k hk => by
                        rcases ih b j o b' hr k hk with h | h
                        · exact Or.inl h
                        · exact Or.inr (by omega))
                      _ _ (hwf i pat hpat) hb2
                  have k3 : KeysBelow b2 b3 i := KeysBelow.of_eq (matchResults_frame _ _ hb3)
                  intro k hk
                  simp only [AL.get_cons] at hk
                  by_cases e : i = k
                  · exact Or.inr (by omega)
                  · simp only [e, if_false] at hk
                    rcases (k1.trans (k2.trans k3)) k hk with h | h
                    · exact Or.inl h
                    · exact Or.inr (by omega)
        · cases h
      · cases h

/-! ### every step succeeds below an instantiating binding -/

theorem bindTy_complete {p : Pattern} {ir : IR} {b B : Binding} {t : Nat} {x : Ty} (hle : Le b B) (hB : Holds p ir B)
    (hx : AL.get B.tys t = some x) : ∃ b', bindTy p b t x = some b' ∧ Le b' B := by
  unfold bindTy
  cases hg : AL.get b.tys t with
  | some y =>
    have : y = x := by have := hle.tys _ _ hg; rw [hx] at this; cases this; rfl
    subst this
    exact ⟨b, by simp, hle⟩
  | none =>
    obtain ⟨c, hc, hopt⟩ := hB.tys t x hx
    have hle' : Le { b with tys := (t, x) :: b.tys } B :=
      ⟨hle.ops, hle.vals, hle.attrs, fun k v h => by
        rcases get_cons_inv h with h' | ⟨e1, e2⟩
        · exact hle.tys _ _ h'
        · subst e1; subst e2; exact hx⟩
    simp only [hc]
    cases c with
    | none => exact ⟨_, rfl, hle'⟩
    | some c =>
      have : c = x := by simpa [optEq] using hopt
      subst this
      exact ⟨_, by simp, hle'⟩

theorem bindVal_complete {p : Pattern} {ir : IR} {b B : Binding} {v : Nat} {x : Val} (hle : Le b B) (hB : Holds p ir B)
    (hx : AL.get B.vals v = some x) : ∃ b', bindVal p ir b v x = some b' ∧ Le b' B := by
  unfold bindVal
  cases hg : AL.get b.vals v with
  | some y =>
    have : y = x := by have := hle.vals _ _ hg; rw [hx] at this; cases this; rfl
    subst this
    exact ⟨b, by simp, hle⟩
  | none =>
    obtain ⟨c, hc, hty⟩ := hB.vals v x hx
    simp only [hc]
    cases c with
    | none =>
      exact ⟨_, rfl, hle.ops, fun k w h => by
        rcases get_cons_inv h with h' | ⟨e1, e2⟩
        · exact hle.vals _ _ h'
        · subst e1; subst e2; exact hx, hle.attrs, hle.tys⟩
    | some t =>
      obtain ⟨ty, h1, h2⟩ := hty t rfl
      obtain ⟨b1, hb1, hle1⟩ := bindTy_complete (b := b) hle hB h2
      simp only [h1, hb1]
      exact ⟨_, rfl, hle1.ops, fun k w h => by
        rcases get_cons_inv h with h' | ⟨e1, e2⟩
        · exact hle1.vals _ _ h'
        · subst e1; subst e2; exact hx, hle1.attrs, hle1.tys⟩

theorem bindAttr_complete {p : Pattern} {ir : IR} {b B : Binding} {a : Nat} {x : Attr} (hle : Le b B) (hB : Holds p ir B)
    (hx : AL.get B.attrs a = some x) : ∃ b', bindAttr p b a x = some b' ∧ Le b' B := by
  unfold bindAttr
  cases hg : AL.get b.attrs a with
  | some y =>
    have : y = x := by have := hle.attrs _ _ hg; rw [hx] at this; cases this; rfl
    subst this
    exact ⟨b, by simp, hle⟩
  | none =>
    obtain ⟨ap, hap, hopt, hty⟩ := hB.attrs a x hx
    simp only [hap, hopt, if_true]
    cases hapty : ap.ty with
    | none =>
      exact ⟨_, rfl, hle.ops, hle.vals, fun k w h => by
        rcases get_cons_inv h with h' | ⟨e1, e2⟩
        · exact hle.attrs _ _ h'
        · subst e1; subst e2; exact hx, hle.tys⟩
    | some t =>
      obtain ⟨ty, h1, h2⟩ := hty t hapty
      obtain ⟨b1, hb1, hle1⟩ := bindTy_complete (b := b) hle hB h2
      simp only [h1, hb1]
      exact ⟨_, rfl, hle1.ops, hle1.vals, fun k w h => by
        rcases get_cons_inv h with h' | ⟨e1, e2⟩
        · exact hle1.attrs _ _ h'
        · subst e1; subst e2; exact hx, hle1.tys⟩

theorem matchAttrs_complete {p : Pattern} {ir : IR} {B : Binding} {x : Op} (hB : Holds p ir B) :
    ∀ (l : List (Nat × Nat)) {b : Binding}, Le b B →
      (∀ n a, (n, a) ∈ l → ∃ av, x.attr n = some av ∧ AL.get B.attrs a = some av) →
      ∃ b', matchAttrs p x b l = some b' ∧ Le b' B := by
  intro l
  induction l with
  | nil => intro b hle _; exact ⟨b, rfl, hle⟩
  | cons na r ih =>
    intro b hle hall
    obtain ⟨n, a⟩ := na
    obtain ⟨av, h1, h2⟩ := hall n a (List.mem_cons_self ..)
    obtain ⟨b1, hb1, hle1⟩ := bindAttr_complete (b := b) hle hB h2
    obtain ⟨b2, hb2, hle2⟩ := ih hle1 (fun n' a' hm => hall n' a' (List.mem_cons_of_mem _ hm))
    exact ⟨b2, by simp only [matchAttrs, h1, hb1, hb2], hle2⟩

theorem matchResults_complete {p : Pattern} {ir : IR} {B : Binding} (hB : Holds p ir B) :
    ∀ {ts : List Nat} {xs : List Ty}, All2 (fun t ty => AL.get B.tys t = some ty) ts xs → ∀ {b : Binding}, Le b B →
      ∃ b', matchResults p b ts xs = some b' ∧ Le b' B := by
  intro ts xs hall
  induction hall with
  | nil => intro b hle; exact ⟨b, rfl, hle⟩
  | cons h1 _ ih =>
    intro b hle
    obtain ⟨b1, hb1, hle1⟩ := bindTy_complete (b := b) hle hB h1
    obtain ⟨b2, hb2, hle2⟩ := ih hle1
    exact ⟨b2, by simp only [matchResults, hb1, hb2], hle2⟩

theorem matchOperands_complete {p : Pattern} {ir : IR} {B : Binding} {rec : Binding → Nat → OpId → Option Binding}
    {i : Nat} (hB : Holds p ir B)
    (hrec : ∀ b j o, j < i → Le b B → AL.get B.ops j = some o → ∃ b', rec b j o = some b' ∧ Le b' B) :
    ∀ {rs : List ORef} {xs : List Val}, All2 (OperandOk B) rs xs → (∀ j idx, ORef.res j idx ∈ rs → j < i) →
      ∀ {b : Binding}, Le b B → ∃ b', matchOperands p ir rec b rs xs = some b' ∧ Le b' B := by
  intro rs xs hall
  induction hall with
  | nil => intro _ b hle; exact ⟨b, rfl, hle⟩
  | @cons r x rs xs h1 _ ih =>
    intro hlt b hle
    have hlt' : ∀ j idx, ORef.res j idx ∈ rs → j < i := fun j idx hm => hlt j idx (List.mem_cons_of_mem _ hm)
    cases r with
    | val v =>
      obtain ⟨b1, hb1, hle1⟩ := bindVal_complete (b := b) hle hB h1
      obtain ⟨b2, hb2, hle2⟩ := ih hlt' hle1
      exact ⟨b2, by simp only [matchOperands, hb1, hb2], hle2⟩
    | res j idx =>
      obtain ⟨o, e, ho⟩ := h1
      subst e
      obtain ⟨b1, hb1, hle1⟩ := hrec b j o (hlt j idx (List.mem_cons_self ..)) hle ho
      obtain ⟨b2, hb2, hle2⟩ := ih hlt' hle1
      exact ⟨b2, by simp only [matchOperands, if_true, hb1, hb2], hle2⟩

theorem matchOp_complete {p : Pattern} {ir : IR} {B : Binding} (hwf : WFPat p) (hB : Holds p ir B) :
    ∀ fuel i o b, i < fuel → Le b B → AL.get B.ops i = some o →
      ∃ b', matchOp p ir fuel b i o = some b' ∧ Le b' B := by
  intro fuel
  induction fuel with
  | zero => intro i o b h; omega
  | succ fuel ih =>
    intro i o b hi hle ho
    simp only [matchOp]
    cases hg : AL.get b.ops i with
    | some o' =>
      have : o' = o := by have := hle.ops _ _ hg; rw [ho] at this; cases this; rfl
      subst this
      exact ⟨b, by simp, hle⟩
    | none =>
      obtain ⟨pat, x, hpat, hx, hname, hA, hO, hR⟩ := hB.ops i o ho
      obtain ⟨b1, hb1, hle1⟩ := matchAttrs_complete (x := x) hB pat.attrs hle hA
      obtain ⟨b2, hb2, hle2⟩ := matchOperands_complete (rec := fun b' j o' => matchOp p ir fuel b' j o') (i := i) hB
        (fun b j o hj hle ho => ih j o b (by omega) hle ho) hO (hwf i pat hpat) hle1
      obtain ⟨b3, hb3, hle3⟩ := matchResults_complete hB hR hle2
      have hnone3 : AL.get b3.ops i = none := by
        have k1 : KeysBelow b b1 i := KeysBelow.of_eq (matchAttrs_frame _ hb1)
        have k2 : KeysBelow b1 b2 i :=
          matchOperands_keys (i := i)
            (fun b j o b' hj hr k hk => by
              rcases matchOp_keys hwf fuel b j o b' hr k hk with h | h
              · exact Or.inl h
              · exact Or.inr (by omega))
            _ _ (hwf i pat hpat) hb2
        have k3 : KeysBelow b2 b3 i := KeysBelow.of_eq (matchResults_frame _ _ hb3)
        cases h3 : AL.get b3.ops i with
        | none => rfl
        | some _ =>
          rcases (k1.trans (k2.trans k3)) i (by rw [h3]; simp) with h | h
          · exact absurd hg h
          · omega
      refine ⟨{ b3 with ops := (i, o) :: b3.ops }, by simp only [hpat, hx, hname, if_true, hb1, hb2, hb3, hnone3], ?_⟩
      exact ⟨fun k v h => by
        rcases get_cons_inv h with h' | ⟨e1, e2⟩
        · exact hle3.ops _ _ h'
        · subst e1; subst e2; exact ho, hle3.vals, hle3.attrs, hle3.tys⟩

theorem matchRoot_complete {p : Pattern} {ir : IR} {B : Binding} {o : OpId} (hwf : WFPat p) (hne : p.ops ≠ [])
    (hB : Holds p ir B) (ho : AL.get B.ops p.root = some o) :
    ∃ b, matchRoot p ir o = some b ∧ Le b B := by
  unfold matchRoot
  simp only [hne, if_false]
  exact matchOp_complete hwf hB _ _ _ _ (by unfold Pattern.root; omega)
    ⟨fun _ _ h => by simp at h, fun _ _ h => by simp at h, fun _ _ h => by simp at h, fun _ _ h => by simp at h⟩ ho

end Xdsl.PDL
