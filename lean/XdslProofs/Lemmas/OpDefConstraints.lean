import XdslModel.OpDef
import XdslProofs.Lemmas.AL
/-!
Sequential constraint checking with one shared context versus one consistent assignment (C10).
-/
namespace Xdsl.OpDef

/-- an assignment of the constraint variables (attribute variables and range variables) -/
structure Assign where
  var : Nat → Option Nat
  rvar : Nat → Option (List Nat)

/-- `c` is satisfied by attribute `a` under the assignment: "consistent constraint variables" -/
def AttrC.Sat (σ : Assign) : AttrC → Nat → Prop
  | .plain b, a => b.accepts a = true
  | .var v b, a => σ.var v = some a ∧ b.accepts a = true

def RangeC.Sat (σ : Assign) : RangeC → List Nat → Prop
  | .single c, as => ∃ a, as = [a] ∧ c.Sat σ a
  | .rangeOf c, as => ∀ a ∈ as, c.Sat σ a
  | .rangeVar v b, as => σ.rvar v = some as ∧ ∀ a ∈ as, b.accepts a = true

/-- the constraint checks of `OpDef.verify` in order, threading the context -/
def verifyPieces : List (RangeC × List Nat) → Ctx → Option Ctx
  | [], ctx => some ctx
  | (c, as) :: r, ctx =>
    match c.verify as ctx with
    | some ctx' => verifyPieces r ctx'
    | none => none

/-- every variable name is declared with one base constraint (a shared `ClassVar`) -/
def AttrC.WF (decl : Nat → BaseC) : AttrC → Prop
  | .plain _ => True
  | .var v b => b = decl v

def RangeC.WF (decl rdecl : Nat → BaseC) : RangeC → Prop
  | .single c => c.WF decl
  | .rangeOf c => c.WF decl
  | .rangeVar v b => b = rdecl v

def Assign.le (σ τ : Assign) : Prop :=
  (∀ v a, σ.var v = some a → τ.var v = some a) ∧ (∀ v as, σ.rvar v = some as → τ.rvar v = some as)

def Ctx.assign (ctx : Ctx) : Assign := ⟨AL.get ctx.vars, AL.get ctx.rvars⟩

/-- every bound variable holds a value its declared base constraint accepts -/
def Ctx.Inv (decl rdecl : Nat → BaseC) (ctx : Ctx) : Prop :=
  (∀ v a, AL.get ctx.vars v = some a → (decl v).accepts a = true) ∧
  (∀ v as, AL.get ctx.rvars v = some as → ∀ a ∈ as, (rdecl v).accepts a = true)

theorem Assign.le_refl (σ : Assign) : σ.le σ := ⟨fun _ _ h => h, fun _ _ h => h⟩

theorem Assign.le_trans {σ τ υ : Assign} (h₁ : σ.le τ) (h₂ : τ.le υ) : σ.le υ :=
  ⟨fun v a h => h₂.1 v a (h₁.1 v a h), fun v as h => h₂.2 v as (h₁.2 v as h)⟩

theorem AttrC.Sat.mono {σ τ : Assign} (h : σ.le τ) {c : AttrC} {a : Nat} (hs : c.Sat σ a) :
    c.Sat τ a := by
  cases c with
  | plain b => exact hs
  | var v b => exact ⟨h.1 v a hs.1, hs.2⟩

theorem RangeC.Sat.mono {σ τ : Assign} (h : σ.le τ) {c : RangeC} {as : List Nat}
    (hs : c.Sat σ as) : c.Sat τ as := by
  cases c with
  | single c => obtain ⟨a, e, s⟩ := hs; exact ⟨a, e, s.mono h⟩
  | rangeOf c => exact fun a ha => (hs a ha).mono h
  | rangeVar v b => exact ⟨h.2 v as hs.1, hs.2⟩

/-! ### soundness of one step -/

theorem AttrC.verify_sound (decl rdecl : Nat → BaseC) (c : AttrC) (a : Nat) (ctx ctx' : Ctx)
    (wf : c.WF decl) (inv : ctx.Inv decl rdecl) (h : c.verify a ctx = some ctx') :
    ctx'.Inv decl rdecl ∧ ctx.assign.le ctx'.assign ∧ c.Sat ctx'.assign a := by
  cases c with
  | plain b =>
    simp only [AttrC.verify] at h
    split at h
    · rename_i hb
      simp only [Option.some.injEq] at h; subst h
      exact ⟨inv, Assign.le_refl _, hb⟩
    · simp at h
  | var v b =>
    simp only [AttrC.verify] at h
    simp only [AttrC.WF] at wf
    subst wf
    split at h
    · rename_i a' hget
      split at h
      · rename_i he
        simp only [Option.some.injEq] at h; subst h; subst he
        exact ⟨inv, Assign.le_refl _, hget, inv.1 v a hget⟩
      · simp at h
    · rename_i hget
      split at h
      · rename_i hb
        simp only [Option.some.injEq] at h; subst h
        refine ⟨⟨?_, inv.2⟩, ⟨?_, fun _ _ h => h⟩, ?_, hb⟩
        · intro w x hw
          simp only [AL.get_set] at hw
          split at hw
          · rename_i e; subst e; simp only [Option.some.injEq] at hw; subst hw; exact hb
          · exact inv.1 w x hw
        · intro w x hw
          simp only [Ctx.assign, AL.get_set] at hw ⊢
          split
          · rename_i e; subst e; rw [hget] at hw; simp at hw
          · exact hw
        · simp [Ctx.assign, AL.get_set]
      · simp at h

theorem verifyEach_sound (decl rdecl : Nat → BaseC) (c : AttrC) (wf : c.WF decl) :
    ∀ (as : List Nat) (ctx ctx' : Ctx), ctx.Inv decl rdecl → verifyEach c as ctx = some ctx' →
      ctx'.Inv decl rdecl ∧ ctx.assign.le ctx'.assign ∧ ∀ a ∈ as, c.Sat ctx'.assign a
  | [], ctx, ctx', inv, h => by
    simp only [verifyEach, Option.some.injEq] at h; subst h
    exact ⟨inv, Assign.le_refl _, by simp⟩
  | a :: as, ctx, ctx', inv, h => by
    simp only [verifyEach] at h
    split at h
    · rename_i ctx₁ h₁
      obtain ⟨i₁, l₁, s₁⟩ := AttrC.verify_sound decl rdecl c a ctx ctx₁ wf inv h₁
      obtain ⟨i₂, l₂, s₂⟩ := verifyEach_sound decl rdecl c wf as ctx₁ ctx' i₁ h
      refine ⟨i₂, Assign.le_trans l₁ l₂, ?_⟩
      intro x hx
      rcases List.mem_cons.1 hx with rfl | hx
      · exact s₁.mono l₂
      · exact s₂ x hx
    · simp at h

theorem RangeC.verify_sound (decl rdecl : Nat → BaseC) (c : RangeC) (as : List Nat)
    (ctx ctx' : Ctx) (wf : c.WF decl rdecl) (inv : ctx.Inv decl rdecl)
    (h : c.verify as ctx = some ctx') :
    ctx'.Inv decl rdecl ∧ ctx.assign.le ctx'.assign ∧ c.Sat ctx'.assign as := by
  cases c with
  | single c =>
    match as, h with
    | [a], h =>
      simp only [RangeC.verify] at h
      obtain ⟨i, l, s⟩ := AttrC.verify_sound decl rdecl c a ctx ctx' wf inv h
      exact ⟨i, l, a, rfl, s⟩
    | [], h => simp [RangeC.verify] at h
    | _ :: _ :: _, h => simp [RangeC.verify] at h
  | rangeOf c =>
    simp only [RangeC.verify] at h
    exact verifyEach_sound decl rdecl c wf as ctx ctx' inv h
  | rangeVar v b =>
    simp only [RangeC.verify] at h
    simp only [RangeC.WF] at wf
    subst wf
    split at h
    · rename_i as' hget
      split at h
      · rename_i he
        simp only [Option.some.injEq] at h; subst h; subst he
        exact ⟨inv, Assign.le_refl _, hget, inv.2 v as hget⟩
      · simp at h
    · rename_i hget
      split at h
      · rename_i hb
        simp only [Option.some.injEq] at h; subst h
        have hb' : ∀ a ∈ as, (rdecl v).accepts a = true := by simpa [List.all_eq_true] using hb
        refine ⟨⟨inv.1, ?_⟩, ⟨fun _ _ h => h, ?_⟩, ?_, hb'⟩
        · intro w x hw
          simp only [AL.get_set] at hw
          split at hw
          · rename_i e; subst e; simp only [Option.some.injEq] at hw; subst hw; exact hb'
          · exact inv.2 w x hw
        · intro w x hw
          simp only [Ctx.assign, AL.get_set] at hw ⊢
          split
          · rename_i e; subst e; rw [hget] at hw; simp at hw
          · exact hw
        · simp [Ctx.assign, AL.get_set]
      · simp at h

theorem verifyPieces_sound (decl rdecl : Nat → BaseC) :
    ∀ (ps : List (RangeC × List Nat)) (ctx ctx' : Ctx), (∀ p ∈ ps, p.1.WF decl rdecl) →
      ctx.Inv decl rdecl → verifyPieces ps ctx = some ctx' →
      ctx.assign.le ctx'.assign ∧ ∀ p ∈ ps, p.1.Sat ctx'.assign p.2
  | [], ctx, ctx', _, _, h => by
    simp only [verifyPieces, Option.some.injEq] at h; subst h
    exact ⟨Assign.le_refl _, by simp⟩
  | (c, as) :: r, ctx, ctx', wf, inv, h => by
    simp only [verifyPieces] at h
    split at h
    · rename_i ctx₁ h₁
      obtain ⟨i₁, l₁, s₁⟩ := RangeC.verify_sound decl rdecl c as ctx ctx₁
        (wf (c, as) (List.mem_cons_self ..)) inv h₁
      obtain ⟨l₂, s₂⟩ := verifyPieces_sound decl rdecl r ctx₁ ctx'
        (fun p hp => wf p (List.mem_cons_of_mem _ hp)) i₁ h
      refine ⟨Assign.le_trans l₁ l₂, ?_⟩
      intro p hp
      rcases List.mem_cons.1 hp with rfl | hp
      · exact s₁.mono l₂
      · exact s₂ p hp
    · simp at h

/-! ### completeness of one step -/

theorem AttrC.verify_complete (σ : Assign) (c : AttrC) (a : Nat) (ctx : Ctx)
    (hle : ctx.assign.le σ) (hs : c.Sat σ a) : ∃ ctx', c.verify a ctx = some ctx' ∧ ctx'.assign.le σ := by
  cases c with
  | plain b =>
    have hb : b.accepts a = true := hs
    exact ⟨ctx, by simp [AttrC.verify, hb], hle⟩
  | var v b =>
    obtain ⟨hv, hb⟩ := hs
    simp only [AttrC.verify]
    cases hget : AL.get ctx.vars v with
    | some a' =>
      have : σ.var v = some a' := hle.1 v a' hget
      rw [hv] at this
      simp only [Option.some.injEq] at this
      subst this
      exact ⟨ctx, by simp, hle⟩
    | none =>
      refine ⟨{ ctx with vars := AL.set ctx.vars v a }, by simp [hb], ?_, hle.2⟩
      intro w x hw
      simp only [Ctx.assign, AL.get_set] at hw
      split at hw
      · rename_i e; subst e; simp only [Option.some.injEq] at hw; subst hw; exact hv
      · exact hle.1 w x hw

theorem verifyEach_complete (σ : Assign) (c : AttrC) : ∀ (as : List Nat) (ctx : Ctx),
    ctx.assign.le σ → (∀ a ∈ as, c.Sat σ a) →
    ∃ ctx', verifyEach c as ctx = some ctx' ∧ ctx'.assign.le σ
  | [], ctx, hle, _ => ⟨ctx, rfl, hle⟩
  | a :: as, ctx, hle, hs => by
    obtain ⟨ctx₁, h₁, l₁⟩ := AttrC.verify_complete σ c a ctx hle (hs a (List.mem_cons_self ..))
    obtain ⟨ctx₂, h₂, l₂⟩ := verifyEach_complete σ c as ctx₁ l₁
      (fun x hx => hs x (List.mem_cons_of_mem _ hx))
    exact ⟨ctx₂, by simp [verifyEach, h₁, h₂], l₂⟩

theorem RangeC.verify_complete (σ : Assign) (c : RangeC) (as : List Nat) (ctx : Ctx)
    (hle : ctx.assign.le σ) (hs : c.Sat σ as) :
    ∃ ctx', c.verify as ctx = some ctx' ∧ ctx'.assign.le σ := by
  cases c with
  | single c =>
    obtain ⟨a, rfl, s⟩ := hs
    simpa [RangeC.verify] using AttrC.verify_complete σ c a ctx hle s
  | rangeOf c =>
    simpa [RangeC.verify] using verifyEach_complete σ c as ctx hle hs
  | rangeVar v b =>
    obtain ⟨hv, hb⟩ := hs
    simp only [RangeC.verify]
    cases hget : AL.get ctx.rvars v with
    | some as' =>
      have : σ.rvar v = some as' := hle.2 v as' hget
      rw [hv] at this
      simp only [Option.some.injEq] at this
      subst this
      exact ⟨ctx, by simp, hle⟩
    | none =>
      have hall : as.all b.accepts = true := by simpa [List.all_eq_true] using hb
      refine ⟨{ ctx with rvars := AL.set ctx.rvars v as }, by simp [hall], hle.1, ?_⟩
      intro w x hw
      simp only [Ctx.assign, AL.get_set] at hw
      split at hw
      · rename_i e; subst e; simp only [Option.some.injEq] at hw; subst hw; exact hv
      · exact hle.2 w x hw

theorem verifyPieces_complete (σ : Assign) : ∀ (ps : List (RangeC × List Nat)) (ctx : Ctx),
    ctx.assign.le σ → (∀ p ∈ ps, p.1.Sat σ p.2) → ∃ ctx', verifyPieces ps ctx = some ctx'
  | [], ctx, _, _ => ⟨ctx, rfl⟩
  | (c, as) :: r, ctx, hle, hs => by
    obtain ⟨ctx₁, h₁, l₁⟩ := RangeC.verify_complete σ c as ctx hle (hs (c, as) (List.mem_cons_self ..))
    obtain ⟨ctx₂, h₂⟩ := verifyPieces_complete σ r ctx₁ l₁ (fun p hp => hs p (List.mem_cons_of_mem _ hp))
    exact ⟨ctx₂, by simp [verifyPieces, h₁, h₂]⟩

end Xdsl.OpDef
