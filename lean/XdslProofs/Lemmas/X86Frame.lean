import XdslProofs.Lemmas.X86Sym
/-!
Frame discipline: a program of the shape `label* push r₁ … push rₙ body pop rₙ … pop r₁ ret`
restores `rsp`, the callee-saved registers and all memory outside the `n` pushed slots.
-/
namespace Xdsl.X86

theorem exec_append (l₁ l₂ : List Instr) (σ : St) : exec (l₁ ++ l₂) σ = exec l₂ (exec l₁ σ) := by
  simp [exec, List.foldl_append]

@[simp] theorem exec_nil (σ : St) : exec [] σ = σ := rfl
@[simp] theorem exec_cons (i : Instr) (l : List Instr) (σ : St) : exec (i :: l) σ = exec l (step i σ) := rfl

theorem run_append_ret (l t : List Instr) (h : ∀ i ∈ l, i ≠ Instr.ret) (σ : St) :
    run (l ++ Instr.ret :: t) σ = some (retStep (exec l σ)) := by
  induction l generalizing σ with
  | nil => simp [run]
  | cons i r ih =>
    have hi : i ≠ .ret := h i (by simp)
    have hr : ∀ j ∈ r, j ≠ Instr.ret := fun j hj => h j (by simp [hj])
    have : run (i :: r ++ Instr.ret :: t) σ = run (r ++ Instr.ret :: t) (step i σ) := by
      cases i <;> first | rfl | exact absurd rfl hi
    rw [this, ih hr]; rfl

theorem run_dropLabels (a : List Instr) (σ : St) : run a σ = run (a.dropWhile isLabel) σ := by
  induction a with
  | nil => rfl
  | cons i r ih =>
    cases i <;> simp [List.dropWhile, isLabel]
    simpa [run, step] using ih

theorem takePushes_spec (a : List Instr) : a = (takePushes a).1.map Instr.push ++ (takePushes a).2 := by
  induction a with
  | nil => simp [takePushes]
  | cons i r ih =>
    cases i <;> simp [takePushes]
    exact ih

theorem beforeRet_spec (l pre : List Instr) (h : beforeRet l = some pre) :
    (∃ t, l = pre ++ Instr.ret :: t) ∧ ∀ i ∈ pre, i ≠ Instr.ret := by
  induction l generalizing pre with
  | nil => simp [beforeRet] at h
  | cons i r ih =>
    by_cases hi : i = .ret
    · subst hi; simp [beforeRet] at h; subst h; exact ⟨⟨r, rfl⟩, by simp⟩
    · have : beforeRet (i :: r) = (beforeRet r).map (i :: ·) := by
        cases i <;> first | rfl | exact absurd rfl hi
      rw [this] at h
      cases hb : beforeRet r with
      | none => simp [hb] at h
      | some pre' =>
        simp [hb] at h; subst h
        obtain ⟨⟨t, ht⟩, hn⟩ := ih pre' hb
        refine ⟨⟨t, by simp [ht]⟩, ?_⟩
        intro j hj
        simp at hj
        rcases hj with rfl | hj
        · exact hi
        · exact hn j hj

/-! ### the body -/

theorem writeOk_spec {saved : List Nat} {d : Nat} (h : writeOk saved d = true) :
    d ≠ RSP ∧ (d ∉ calleeSaved ∨ d ∈ saved) := by
  simp [writeOk] at h
  exact ⟨h.1, h.2⟩

structure BodyKeeps (saved : List Nat) (σ σ' : St) : Prop where
  rsp : σ'.reg RSP = σ.reg RSP
  mem : σ'.mem = σ.mem
  regs : ∀ r, r ∈ calleeSaved → r ∉ saved → σ'.reg r = σ.reg r

theorem BodyKeeps.setReg (saved : List Nat) (σ : St) (d : Nat) (v : W) (h : writeOk saved d = true) :
    BodyKeeps saved σ (setReg σ d v) := by
  obtain ⟨h4, hs⟩ := writeOk_spec h
  have h4' : RSP ≠ d := fun hh => h4 hh.symm
  refine ⟨by simp [h4'], rfl, ?_⟩
  intro r hr hns
  have : r ≠ d := by
    intro hh; subst hh
    rcases hs with hs | hs
    · exact hs hr
    · exact hns hs
  simp [this]

theorem step_body (saved : List Nat) (i : Instr) (h : bodyInstrOk saved i = true) (σ : St) :
    BodyKeeps saved σ (step i σ) := by
  cases i <;> simp only [bodyInstrOk] at h <;> try exact BodyKeeps.setReg saved σ _ _ h
  all_goals first | exact ⟨rfl, rfl, fun _ _ _ => rfl⟩ | cases h

theorem exec_body (saved : List Nat) (body : List Instr) (h : ∀ i ∈ body, bodyInstrOk saved i = true)
    (σ : St) : BodyKeeps saved σ (exec body σ) := by
  induction body generalizing σ with
  | nil => exact ⟨rfl, rfl, fun _ _ _ => rfl⟩
  | cons i r ih =>
    have h1 := step_body saved i (h i (by simp)) σ
    have h2 := ih (fun j hj => h j (by simp [hj])) (step i σ)
    exact ⟨h2.rsp.trans h1.rsp, h2.mem.trans h1.mem,
      fun x hx hs => (h2.regs x hx hs).trans (h1.regs x hx hs)⟩

/-! ### pushes around the body -/

/-- the `i`-th qword below `a` -/
def below (a : W) (i : Nat) : W := a - BitVec.ofNat 64 (8 * i)

structure Framed (saved rs : List Nat) (σ σ' : St) : Prop where
  rsp : σ'.reg RSP = σ.reg RSP
  mem : ∀ x, (∀ i, 1 ≤ i → i ≤ rs.length → x ≠ below (σ.reg RSP) i) → σ'.mem x = σ.mem x
  regs : ∀ r, r ∈ calleeSaved → (r ∈ rs ∨ r ∉ saved) → σ'.reg r = σ.reg r

theorem below_shift (a : W) (i : Nat) : below (a - 8#64) i = below a (i + 1) := by
  unfold below; bv_omega

theorem below_ne (a : W) (i : Nat) (h1 : 1 ≤ i) (h2 : i ≤ 4096) : a ≠ below a i := by
  unfold below; bv_omega

theorem sub_add_8 (a : W) : a - 8#64 + 8#64 = a := by bv_omega

theorem exec_framed (saved : List Nat) (body : List Instr)
    (hb : ∀ i ∈ body, bodyInstrOk saved i = true) :
    ∀ (rs : List Nat), rs.length ≤ depthCap → RSP ∉ rs → ∀ σ : St,
      Framed saved rs σ (exec (rs.map Instr.push ++ body ++ rs.reverse.map Instr.pop) σ) := by
  intro rs
  induction rs with
  | nil =>
    intro _ _ σ
    have h := exec_body saved body hb σ
    simp only [List.map_nil, List.reverse_nil, List.nil_append, List.append_nil]
    exact ⟨h.rsp, fun x _ => by rw [h.mem], fun r hr hs => by
      rcases hs with hs | hs
      · simp at hs
      · exact h.regs r hr hs⟩
  | cons r0 rs ih =>
    intro hlen h4 σ
    have hlen' : rs.length ≤ depthCap := by simp at hlen; omega
    have h4' : RSP ∉ rs := fun h => h4 (by simp [h])
    have hr0 : r0 ≠ RSP := fun h => h4 (by simp [h])
    have hshape : (r0 :: rs).map Instr.push ++ body ++ (r0 :: rs).reverse.map Instr.pop
        = Instr.push r0 :: ((rs.map Instr.push ++ body ++ rs.reverse.map Instr.pop) ++ [Instr.pop r0]) := by
      simp
    rw [hshape, exec_cons, exec_append]
    generalize hσ1 : step (Instr.push r0) σ = σ1
    have F := ih hlen' h4' σ1
    generalize exec (rs.map Instr.push ++ body ++ rs.reverse.map Instr.pop) σ1 = σ2 at F
    have h1rsp : σ1.reg RSP = σ.reg RSP - 8#64 := by subst hσ1; simp [step]
    have h1mem : ∀ x, σ1.mem x = if x = σ.reg RSP - 8#64 then σ.reg r0 else σ.mem x := by
      subst hσ1; intro x; simp [step]
    have h1reg : ∀ r, r ≠ RSP → σ1.reg r = σ.reg r := by
      subst hσ1; intro r hr; simp [step, hr]
    have hdc : depthCap = 4096 := rfl
    -- the slot written by `push r0` survives the inner part
    have hslot : σ2.mem (σ2.reg RSP) = σ.reg r0 := by
      rw [F.rsp, F.mem (σ1.reg RSP) (fun i hi1 hi2 => below_ne _ i hi1 (by omega)), h1mem, h1rsp]
      simp
    simp only [exec_cons, exec_nil, step]
    refine ⟨?_, ?_, ?_⟩
    · have : RSP ≠ r0 := fun h => hr0 h.symm
      simp [this, F.rsp, h1rsp, sub_add_8]
    · intro x hx
      simp only [setReg_mem]
      have hx1 : x ≠ σ.reg RSP - 8#64 := by
        have := hx 1 (by omega) (by simp)
        simpa [below] using this
      rw [F.mem x ?_, h1mem, if_neg hx1]
      intro i hi1 hi2
      rw [h1rsp, below_shift]
      exact hx (i + 1) (by omega) (by simp; omega)
    · intro r hr hs
      have hr4 : r ≠ RSP := by intro h; subst h; simp [calleeSaved, RSP] at hr
      by_cases hrr : r = r0
      · subst hrr; simp [hslot]
      · have hs' : r ∈ rs ∨ r ∉ saved := by
          rcases hs with hs | hs
          · simp [hrr] at hs; exact Or.inl hs
          · exact Or.inr hs
        simp [hrr, hr4, F.regs r hr hs', h1reg r hr4]

end Xdsl.X86
