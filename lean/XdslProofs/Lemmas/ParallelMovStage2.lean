import XdslProofs.Lemmas.ParallelMovCount
/-!
Lemmas for C20: the cycle stage (`stage2`): breaking a cycle through a designated free register
(`tempWalk`) and by a chain of xor swaps (`xorChain`).
-/
namespace Xdsl.ParallelMov

open Env

variable {n : Nat}

/-- What is left after the tree stage is a union of cycles: an unprocessed register has at most one
unprocessed child, and the parent of an unprocessed register is itself the target of an edge. -/
structure Inv2 (e : Env) (P : List Reg) : Prop where
  inj : ∀ y y' p, y ∉ P → y' ∉ P → Edge e p y → Edge e p y' → y = y'
  par : ∀ y p, y ∉ P → Edge e p y → ∃ q, Edge e q p

theorem Inv2.mono {e : Env} {P P' : List Reg} (h : Inv2 e P) (hsub : ∀ x ∈ P, x ∈ P') : Inv2 e P' :=
  ⟨fun y y' p hy hy' => h.inj y y' p (fun hp => hy (hsub y hp)) (fun hp => hy' (hsub y' hp)),
   fun y p hy => h.par y p (fun hp => hy (hsub y hp))⟩

/-- bookkeeping of `results` when the result of the operand with destination `x` is set -/
theorem res_update {e : Env} (w : WF e) {results : List (Option Val)} {S : Reg → Prop} {i : Nat}
    {m0 : Move} {x : Reg} (v : Val) (hlen : i < results.length) (hm0 : e.moves[i]? = some m0)
    (hx : m0.dst = x) (hz : x ≠ Reg.zero)
    (h : ∀ j m, e.moves[j]? = some m →
      ((results.getD j none).isSome ↔ (m.src = m.dst ∨ m.dst = Reg.zero ∨ S m.dst))) :
    ∀ j m, e.moves[j]? = some m →
      (((results.set i (some v)).getD j none).isSome ↔
        (m.src = m.dst ∨ m.dst = Reg.zero ∨ (m.dst = x ∨ S m.dst))) := by
  intro j m hm
  rw [getD_set_isSome hlen, Bool.or_eq_true, decide_eq_true_eq, h j m hm]
  constructor
  · rintro (rfl | h)
    · rw [hm0] at hm
      cases hm
      exact Or.inr (Or.inr (Or.inl hx))
    · rcases h with h | h | h
      · exact Or.inl h
      · exact Or.inr (Or.inl h)
      · exact Or.inr (Or.inr (Or.inr h))
  · rintro (h | h | h | h)
    · exact Or.inr (Or.inl h)
    · exact Or.inr (Or.inr (Or.inl h))
    · left
      exact pairwise_idx_unique w.dstDistinct hm hm0 (by rw [h, hx]) (by rw [h]; exact hz)
    · exact Or.inr (Or.inr (Or.inr h))

/-! ### breaking a cycle through a free register -/

/-- State of the walk around a cycle: `Q` = registers of the cycle already overwritten (final),
`x` = the register about to be overwritten, `temp` holds the old content of `s`. -/
structure TW (e : Env) (ρ₀ : RegFile n) (P : List Reg) (s d temp : Reg) (Q : List Reg) (x : Reg)
    (st : St) : Prop where
  hx : x ∉ P ∧ x ∉ Q ∧ ∃ p, Edge e p x
  hQ : ∀ q ∈ Q, q ∉ P ∧ q ≠ d ∧ ∃ p, Edge e p q
  hQd : ∀ q ∈ Q, ∀ p, Edge e p q → rd (exec st.ops ρ₀) q = rd ρ₀ p
  htemp : rd (exec st.ops ρ₀) temp = rd ρ₀ s
  hdone : ∀ r ∈ P, ∀ p, Edge e p r → rd (exec st.ops ρ₀) r = rd ρ₀ p
  hkeep : ∀ r, r ∉ P → r ∉ Q → r ∉ e.free → rd (exec st.ops ρ₀) r = rd ρ₀ r
  hW : ∀ y, y ∉ P → ∀ p, Edge e p y → (p ∈ Q ∨ p = x) → (y ∈ Q ∨ y = d)
  len : st.results.length = e.moves.length
  res : ∀ j m, e.moves[j]? = some m →
    ((st.results.getD j none).isSome ↔ (m.src = m.dst ∨ m.dst = Reg.zero ∨ (m.dst ∈ Q ∨ m.dst ∈ P)))

/-- one step of the walk: `x ← pred x` -/
theorem TW.step {e : Env} (w : WF e) {ρ₀ : RegFile n} {P : List Reg} (i2 : Inv2 e P)
    (hclosed : ∀ d ∈ P, ∀ x, Edge e d x → x ∈ P) {s d temp : Reg} (htf : temp ∈ e.free)
    {x p : Reg} {Q : List Reg} {st st1 : St} (tw : TW e ρ₀ P s d temp Q x st) (hxd : x ≠ d)
    (hp : e.pred x = some p) {v : Val} {wd : Nat}
    (hem : emitMv st ⟨.src, p⟩ x wd = .ok (st1, v)) {i : Nat} (ho : e.outIdx x = some i) :
    TW e ρ₀ P s d temp (x :: Q) p (setResult st1 i v) := by
  have hE : Edge e p x := pred_some_edge hp
  obtain ⟨hres, ins, hops, hmv⟩ := emitMv_ok hem
  obtain ⟨hxP, hxQ, _⟩ := tw.hx
  have hpP : p ∉ P := fun hp => hxP (hclosed p hp x hE)
  have hpQ : p ∉ Q := by
    intro hpQ
    rcases tw.hW x hxP p hE (Or.inl hpQ) with h | h
    · exact hxQ h
    · exact hxd h
  have hpx : p ≠ x := hE.ne
  have hpfree : p ∉ e.free := hE.src_not_free w
  have hxfree : x ∉ e.free := hE.dst_not_free w
  have hxz : x ≠ Reg.zero := hE.dst_ne_zero
  have hex : exec (setResult st1 i v).ops ρ₀ = wr (exec st.ops ρ₀) x (rd ρ₀ p) := by
    show exec st1.ops ρ₀ = _
    rw [hops, exec_emit hmv, tw.hkeep p hpP hpQ hpfree]
  obtain ⟨m0, hm0, hm0d⟩ := outIdx_some ho
  have hilt : i < st.results.length := by
    rw [tw.len]; exact (List.getElem?_eq_some_iff.mp hm0).1
  refine ⟨⟨hpP, ?_, i2.par x p hxP hE⟩, ?_, ?_, ?_, ?_, ?_, ?_, ?_, ?_⟩
  · intro h
    rcases List.mem_cons.mp h with h | h
    · exact hpx h
    · exact hpQ h
  · intro q hq
    rcases List.mem_cons.mp hq with rfl | hq
    · exact ⟨hxP, hxd, p, hE⟩
    · exact tw.hQ q hq
  · intro q hq p' hp'
    rw [hex]
    rcases List.mem_cons.mp hq with rfl | hq
    · rw [rd_wr_same _ hxz, Edge.src_unique w hp' hE]
    · have : q ≠ x := fun e => hxQ (e ▸ hq)
      rw [rd_wr_ne _ this]
      exact tw.hQd q hq p' hp'
  · rw [hex]
    have : temp ≠ x := fun e => hxfree (e ▸ htf)
    rw [rd_wr_ne _ this]
    exact tw.htemp
  · intro r hr p' hp'
    rw [hex]
    have : r ≠ x := fun e => hxP (e ▸ hr)
    rw [rd_wr_ne _ this]
    exact tw.hdone r hr p' hp'
  · intro r hrP hrQ hrf
    rw [hex]
    have : r ≠ x := fun e => hrQ (e ▸ List.mem_cons_self)
    rw [rd_wr_ne _ this]
    exact tw.hkeep r hrP (fun h => hrQ (List.mem_cons_of_mem _ h)) hrf
  · intro y hy p' hp' hor
    rcases hor with hq | rfl
    · rcases List.mem_cons.mp hq with rfl | hq
      · rcases tw.hW y hy p' hp' (Or.inr rfl) with h | h
        · exact Or.inl (List.mem_cons_of_mem _ h)
        · exact Or.inr h
      · rcases tw.hW y hy p' hp' (Or.inl hq) with h | h
        · exact Or.inl (List.mem_cons_of_mem _ h)
        · exact Or.inr h
    · have := i2.inj y x p' hy hxP hp' hE
      exact Or.inl (this ▸ List.mem_cons_self)
  · show (st1.results.set i (some v)).length = _
    rw [List.length_set, hres, tw.len]
  · intro j m hm
    show ((st1.results.set i (some v)).getD j none).isSome ↔ _
    rw [hres]
    have := res_update w (S := fun r => r ∈ Q ∨ r ∈ P) v hilt hm0 hm0d hxz tw.res j m hm
    rw [this]
    simp only [List.mem_cons, or_assoc]

theorem tempWalk_inv {e : Env} (w : WF e) {ρ₀ : RegFile n} {P : List Reg} (i2 : Inv2 e P)
    (hclosed : ∀ d ∈ P, ∀ x, Edge e d x → x ∈ P) {s d temp : Reg} (htf : temp ∈ e.free) :
    ∀ (fuel : Nat) (x : Reg) (Q : List Reg) (st st' : St),
      TW e ρ₀ P s d temp Q x st → tempWalk e d fuel x st = .ok st' →
      ∃ Q', TW e ρ₀ P s d temp Q' d st' := by
  intro fuel
  induction fuel with
  | zero => intro x Q st st' _ h; simp [tempWalk] at h
  | succ fuel ih =>
    intro x Q st st' tw h
    unfold tempWalk at h
    by_cases hxd : x = d
    · rw [if_pos hxd] at h
      cases h
      exact ⟨Q, hxd ▸ tw⟩
    · rw [if_neg hxd] at h
      cases hp : e.pred x with
      | none => rw [hp] at h; cases h
      | some p =>
        rw [hp] at h
        simp only at h
        cases hem : emitMv st ⟨.src, p⟩ x (e.widthOf p) with
        | error err => rw [hem] at h; cases h
        | ok r =>
          obtain ⟨st1, v⟩ := r
          rw [hem] at h
          simp only at h
          cases ho : e.outIdx x with
          | none => rw [ho] at h; cases h
          | some i =>
            rw [ho] at h
            simp only at h
            exact ih p (x :: Q) _ st' (tw.step w i2 hclosed htf hxd hp hem ho) h

/-- Closing the cycle: `d ← temp`; all registers of the cycle are now processed. -/
theorem TW.finish {e : Env} (w : WF e) {ρ₀ : RegFile n} {P : List Reg}
    (hsub : ∀ d ∈ P, ∃ s, Edge e s d) (hclosed : ∀ d ∈ P, ∀ x, Edge e d x → x ∈ P)
    {s d temp : Reg} (htf : temp ∈ e.free) (hE : Edge e s d) {Q : List Reg} {st st' : St}
    (tw : TW e ρ₀ P s d temp Q d st) {tv v : Val} (htv : tv.reg = temp) {wd : Nat}
    (hemit : emitMv st tv d wd = .ok (st', v)) {i : Nat} {m : Move} (hm : e.moves[i]? = some m)
    (hmd : m.dst = d) :
    Inv e ρ₀ (d :: (Q ++ P)) (setResult st' i v) := by
  obtain ⟨hres, ins, hops, hmv⟩ := emitMv_ok hemit
  obtain ⟨hdP, hdQ, _⟩ := tw.hx
  have hdz := hE.dst_ne_zero
  have hex : exec (setResult st' i v).ops ρ₀ = wr (exec st.ops ρ₀) d (rd ρ₀ s) := by
    show exec st'.ops ρ₀ = _
    rw [hops, exec_emit hmv, htv, tw.htemp]
  have hilt : i < st.results.length := by
    rw [tw.len]; exact (List.getElem?_eq_some_iff.mp hm).1
  refine ⟨?_, ?_, ?_, ?_, ?_, ?_⟩
  · intro x hx
    rcases List.mem_cons.mp hx with rfl | hx
    · exact ⟨s, hE⟩
    · rcases List.mem_append.mp hx with hx | hx
      · exact (tw.hQ x hx).2.2
      · exact hsub x hx
  · intro x hx p hp
    rw [hex]
    rcases List.mem_cons.mp hx with rfl | hx
    · rw [rd_wr_same _ hdz, Edge.src_unique w hp hE]
    · rcases List.mem_append.mp hx with hx | hx
      · rw [rd_wr_ne _ (tw.hQ x hx).2.1]
        exact tw.hQd x hx p hp
      · have : x ≠ d := fun e => hdP (e ▸ hx)
        rw [rd_wr_ne _ this]
        exact tw.hdone x hx p hp
  · intro r hr hf
    rw [hex]
    have hrd : r ≠ d := fun e => hr (e ▸ List.mem_cons_self)
    rw [rd_wr_ne _ hrd]
    refine tw.hkeep r ?_ ?_ hf
    · exact fun h => hr (List.mem_cons_of_mem _ (List.mem_append_right _ h))
    · exact fun h => hr (List.mem_cons_of_mem _ (List.mem_append_left _ h))
  · intro x hx y hy
    by_cases hyP : y ∈ P
    · exact List.mem_cons_of_mem _ (List.mem_append_right _ hyP)
    · rcases List.mem_cons.mp hx with rfl | hx
      · rcases tw.hW y hyP x hy (Or.inr rfl) with h | h
        · exact List.mem_cons_of_mem _ (List.mem_append_left _ h)
        · exact h ▸ List.mem_cons_self
      · rcases List.mem_append.mp hx with hx | hx
        · rcases tw.hW y hyP x hy (Or.inl hx) with h | h
          · exact List.mem_cons_of_mem _ (List.mem_append_left _ h)
          · exact h ▸ List.mem_cons_self
        · exact absurd (hclosed x hx y hy) hyP
  · show (st'.results.set i (some v)).length = _
    rw [List.length_set, hres, tw.len]
  · intro j m' hm'
    show ((st'.results.set i (some v)).getD j none).isSome ↔ _
    rw [hres]
    have := res_update w (S := fun r => r ∈ Q ∨ r ∈ P) v hilt hm hmd hdz tw.res j m' hm'
    rw [this]
    simp only [List.mem_cons, List.mem_append]

/-! ### breaking a cycle by xor swaps -/

theorem xor_cancel (x y : BitVec n) : x ^^^ y ^^^ y = x := by
  rw [BitVec.xor_assoc, BitVec.xor_self, BitVec.xor_zero]

theorem exec_swap {ops : List Instr} {a b : Reg} (hab : a ≠ b) (ha : a ≠ Reg.zero) (hb : b ≠ Reg.zero)
    (ρ₀ : RegFile n) (r : Reg) :
    rd (exec (ops ++ [.xor a a b, .xor b a b, .xor a a b]) ρ₀) r
      = if r = a then rd (exec ops ρ₀) b else if r = b then rd (exec ops ρ₀) a else rd (exec ops ρ₀) r := by
  rw [exec_append]
  generalize exec ops ρ₀ = ρ
  have hba : b ≠ a := fun e => hab e.symm
  simp only [exec, List.foldl_cons, List.foldl_nil, step]
  by_cases hra : r = a
  · subst hra
    simp only [rd_wr, hab, hba, ha, hb, ne_eq, not_false_eq_true, and_self, and_true, if_true,
      if_false, false_and]
    rw [xor_cancel, BitVec.xor_comm (rd ρ r) (rd ρ b), xor_cancel]
  · by_cases hrb : r = b
    · subst hrb
      simp only [rd_wr, hab, hba, ha, hb, ne_eq, not_false_eq_true, and_self, and_true, if_true,
        if_false, false_and]
      rw [xor_cancel]
    · simp only [rd_wr, hra, hrb, false_and, if_false]

/-- State of the xor chain: `Q` = registers of the cycle that already hold their final content,
`out` = the register holding the travelling value (the old content of `s`), `inp` its predecessor. -/
structure XW (e : Env) (ρ₀ : RegFile n) (P : List Reg) (s : Reg) (Q : List Reg) (out inp : Reg)
    (st : St) : Prop where
  hout : out ∉ P ∧ out ∉ Q ∧ Edge e inp out
  houtv : rd (exec st.ops ρ₀) out = rd ρ₀ s
  hQ : ∀ q ∈ Q, q ∉ P ∧ ∃ p, Edge e p q
  hQd : ∀ q ∈ Q, ∀ p, Edge e p q → rd (exec st.ops ρ₀) q = rd ρ₀ p
  hdone : ∀ r ∈ P, ∀ p, Edge e p r → rd (exec st.ops ρ₀) r = rd ρ₀ p
  hkeep : ∀ r, r ∉ P → r ∉ Q → r ≠ out → r ∉ e.free → rd (exec st.ops ρ₀) r = rd ρ₀ r
  hchain : ∀ q, (q ∈ Q ∨ q = out) → q ≠ s → ∃ q' ∈ Q, Edge e q q'
  len : st.results.length = e.moves.length
  res : ∀ j m, e.moves[j]? = some m →
    ((st.results.getD j none).isSome ↔ (m.src = m.dst ∨ m.dst = Reg.zero ∨ (m.dst ∈ Q ∨ m.dst ∈ P)))

/-- the travelling value has arrived: everything on the cycle is final -/
theorem XW.finish {e : Env} (w : WF e) {ρ₀ : RegFile n} {P : List Reg} (i2 : Inv2 e P)
    (hsub : ∀ d ∈ P, ∃ s, Edge e s d) (hclosed : ∀ d ∈ P, ∀ x, Edge e d x → x ∈ P) {s : Reg}
    {out : Val} {inp : Reg} {Q : List Reg} {st : St} (xw : XW e ρ₀ P s Q out.reg inp st)
    (hstart : inp = s) {i : Nat} (ho : e.outIdx out.reg = some i) :
    Inv e ρ₀ (out.reg :: (Q ++ P)) (setResult st i out) := by
  obtain ⟨hoP, hoQ, hE⟩ := xw.hout
  have hoz : out.reg ≠ Reg.zero := hE.dst_ne_zero
  obtain ⟨m0, hm0, hm0d⟩ := outIdx_some ho
  have hilt : i < st.results.length := by
    rw [xw.len]; exact (List.getElem?_eq_some_iff.mp hm0).1
  refine ⟨?_, ?_, ?_, ?_, ?_, ?_⟩
  · intro x hx
    rcases List.mem_cons.mp hx with rfl | hx
    · exact ⟨_, hE⟩
    · rcases List.mem_append.mp hx with hx | hx
      · exact (xw.hQ x hx).2
      · exact hsub x hx
  · intro x hx p hp
    show rd (exec st.ops ρ₀) x = _
    rcases List.mem_cons.mp hx with rfl | hx
    · rw [xw.houtv, Edge.src_unique w hp hE, hstart]
    · rcases List.mem_append.mp hx with hx | hx
      · exact xw.hQd x hx p hp
      · exact xw.hdone x hx p hp
  · intro r hr hf
    show rd (exec st.ops ρ₀) r = _
    refine xw.hkeep r ?_ ?_ ?_ hf
    · exact fun h => hr (List.mem_cons_of_mem _ (List.mem_append_right _ h))
    · exact fun h => hr (List.mem_cons_of_mem _ (List.mem_append_left _ h))
    · exact fun e => hr (e ▸ List.mem_cons_self)
  · intro x hx y hy
    by_cases hyP : y ∈ P
    · exact List.mem_cons_of_mem _ (List.mem_append_right _ hyP)
    · have key : ∀ q, (q ∈ Q ∨ q = out.reg) → Edge e q y → y ∈ out.reg :: (Q ++ P) := by
        intro q hq hqy
        by_cases hqs : q = s
        · -- the only unprocessed child of `s` is `out`
          have : y = out.reg := i2.inj y out.reg q hyP hoP hqy (by rw [hqs, ← hstart]; exact hE)
          exact this ▸ List.mem_cons_self
        · obtain ⟨q', hq', hqq'⟩ := xw.hchain q hq hqs
          have : y = q' := i2.inj y q' q hyP (xw.hQ q' hq').1 hqy hqq'
          exact List.mem_cons_of_mem _ (List.mem_append_left _ (this ▸ hq'))
      rcases List.mem_cons.mp hx with rfl | hx
      · exact key _ (Or.inr rfl) hy
      · rcases List.mem_append.mp hx with hx | hx
        · exact key x (Or.inl hx) hy
        · exact absurd (hclosed x hx y hy) hyP
  · show (st.results.set i (some out)).length = _
    rw [List.length_set, xw.len]
  · intro j m' hm'
    show ((st.results.set i (some out)).getD j none).isSome ↔ _
    have := res_update w (S := fun r => r ∈ Q ∨ r ∈ P) out hilt hm0 hm0d hoz xw.res j m' hm'
    rw [this]
    simp only [List.mem_cons, List.mem_append]

/-- one swap: `out` becomes final, the travelling value moves to `inp` -/
theorem XW.step {e : Env} (w : WF e) {ρ₀ : RegFile n} {P : List Reg} (i2 : Inv2 e P)
    (hclosed : ∀ d ∈ P, ∀ x, Edge e d x → x ∈ P) {s : Reg}
    {out inp p : Reg} {Q : List Reg} {st : St} (xw : XW e ρ₀ P s Q out inp st)
    (hstart : inp ≠ s) {i : Nat} (ho : e.outIdx out = some i) (hp : e.pred inp = some p) :
    XW e ρ₀ P s (out :: Q) inp p
      (setResult { st with ops := st.ops ++ [.xor inp inp out, .xor out inp out, .xor inp inp out] }
        i ⟨.op (st.ops.length + 1), out⟩) := by
  obtain ⟨hoP, hoQ, hE⟩ := xw.hout
  have hoz : out ≠ Reg.zero := hE.dst_ne_zero
  have hEp : Edge e p inp := pred_some_edge hp
  have hiz : inp ≠ Reg.zero := hEp.dst_ne_zero
  have hio : inp ≠ out := hE.ne
  have hiP : inp ∉ P := fun hp => hoP (hclosed _ hp _ hE)
  have hiQ : inp ∉ Q := by
    intro hq
    obtain ⟨q', hq', hqq'⟩ := xw.hchain inp (Or.inl hq) hstart
    have : out = q' := i2.inj _ _ _ hoP (xw.hQ q' hq').1 hE hqq'
    exact hoQ (this ▸ hq')
  have hifree : inp ∉ e.free := hE.src_not_free w
  have hival : rd (exec st.ops ρ₀) inp = rd ρ₀ inp := xw.hkeep _ hiP hiQ hio hifree
  obtain ⟨m0, hm0, hm0d⟩ := outIdx_some ho
  have hilt : i < st.results.length := by
    rw [xw.len]; exact (List.getElem?_eq_some_iff.mp hm0).1
  have hsw := fun r => exec_swap (ops := st.ops) hio hiz hoz ρ₀ r
  refine ⟨⟨hiP, ?_, hEp⟩, ?_, ?_, ?_, ?_, ?_, ?_, ?_, ?_⟩
  · intro h
    rcases List.mem_cons.mp h with h | h
    · exact hio h
    · exact hiQ h
  · show rd (exec (st.ops ++ _) ρ₀) inp = _
    rw [hsw, if_pos rfl, xw.houtv]
  · intro q hq
    rcases List.mem_cons.mp hq with rfl | hq
    · exact ⟨hoP, _, hE⟩
    · exact xw.hQ q hq
  · intro q hq p' hp'
    show rd (exec (st.ops ++ _) ρ₀) q = _
    rw [hsw]
    rcases List.mem_cons.mp hq with rfl | hq
    · have : ¬ q = inp := fun e => hio e.symm
      rw [if_neg this, if_pos rfl, hival, Edge.src_unique w hp' hE]
    · have h1 : q ≠ inp := fun e => hiQ (e ▸ hq)
      have h2 : q ≠ out := fun e => hoQ (e ▸ hq)
      rw [if_neg h1, if_neg h2]
      exact xw.hQd q hq p' hp'
  · intro r hr p' hp'
    show rd (exec (st.ops ++ _) ρ₀) r = _
    rw [hsw]
    have h1 : r ≠ inp := fun e => hiP (e ▸ hr)
    have h2 : r ≠ out := fun e => hoP (e ▸ hr)
    rw [if_neg h1, if_neg h2]
    exact xw.hdone r hr p' hp'
  · intro r hrP hrQ hri hrf
    show rd (exec (st.ops ++ _) ρ₀) r = _
    rw [hsw]
    have h2 : r ≠ out := fun e => hrQ (e ▸ List.mem_cons_self)
    rw [if_neg hri, if_neg h2]
    exact xw.hkeep r hrP (fun h => hrQ (List.mem_cons_of_mem _ h)) h2 hrf
  · intro q hq hqs
    rcases hq with hq | rfl
    · rcases List.mem_cons.mp hq with rfl | hq
      · obtain ⟨q', hq', h⟩ := xw.hchain _ (Or.inr rfl) hqs
        exact ⟨q', List.mem_cons_of_mem _ hq', h⟩
      · obtain ⟨q', hq', h⟩ := xw.hchain q (Or.inl hq) hqs
        exact ⟨q', List.mem_cons_of_mem _ hq', h⟩
    · exact ⟨out, List.mem_cons_self, hE⟩
  · show (st.results.set i _).length = _
    rw [List.length_set, xw.len]
  · intro j m' hm'
    show ((st.results.set i _).getD j none).isSome ↔ _
    have := res_update w (S := fun r => r ∈ Q ∨ r ∈ P) ⟨.op (st.ops.length + 1), out⟩
      hilt hm0 hm0d hoz xw.res j m' hm'
    rw [this]
    simp only [List.mem_cons, or_assoc]

theorem xorChain_inv {e : Env} (w : WF e) {ρ₀ : RegFile n} {P : List Reg} (i2 : Inv2 e P)
    (hsub : ∀ d ∈ P, ∃ s, Edge e s d) (hclosed : ∀ d ∈ P, ∀ x, Edge e d x → x ∈ P) {s : Reg} :
    ∀ (fuel : Nat) (out inp : Val) (Q : List Reg) (st st' : St),
      XW e ρ₀ P s Q out.reg inp.reg st → xorChain e s fuel out inp st = .ok st' →
      ∃ P', Inv e ρ₀ P' st' ∧ (∀ x ∈ P, x ∈ P') ∧ out.reg ∈ P' ∧ (∀ q ∈ Q, q ∈ P') := by
  intro fuel
  induction fuel with
  | zero => intro out inp Q st st' _ h; simp [xorChain] at h
  | succ fuel ih =>
    intro out inp Q st st' xw h
    unfold xorChain at h
    by_cases hstart : inp.reg = s
    · rw [if_pos hstart] at h
      cases ho : e.outIdx out.reg with
      | none => rw [ho] at h; cases h
      | some i =>
        rw [ho] at h
        simp only [Except.ok.injEq] at h
        subst h
        refine ⟨out.reg :: (Q ++ P), xw.finish w i2 hsub hclosed hstart ho, ?_, List.mem_cons_self, ?_⟩
        · intro x hx
          exact List.mem_cons_of_mem _ (List.mem_append_right _ hx)
        · intro q hq
          exact List.mem_cons_of_mem _ (List.mem_append_left _ hq)
    · rw [if_neg hstart] at h
      simp only [emitSwap] at h
      cases ho : e.outIdx out.reg with
      | none => rw [ho] at h; cases h
      | some i =>
        rw [ho] at h
        simp only at h
        cases hp : e.pred inp.reg with
        | none => rw [hp] at h; cases h
        | some p =>
          rw [hp] at h
          simp only at h
          have hxw := xw.step w i2 hclosed hstart ho hp
          obtain ⟨P', h1, h2, h3, h4⟩ :=
            ih ⟨.op (st.ops.length + 2), inp.reg⟩ ⟨.src, p⟩ (out.reg :: Q) _ st' hxw h
          exact ⟨P', h1, h2, h4 _ List.mem_cons_self, fun q hq => h4 q (List.mem_cons_of_mem _ hq)⟩

/-! ### the cycle stage -/

theorem Inv.isSome_mono {e : Env} {ρ₀ : RegFile n} {P P' : List Reg} {st st' : St}
    (inv : Inv e ρ₀ P st) (inv' : Inv e ρ₀ P' st') (hsub : ∀ x ∈ P, x ∈ P') {i : Nat} {m : Move}
    (hm : e.moves[i]? = some m) (h : (st.results.getD i none).isSome = true) :
    (st'.results.getD i none).isSome = true := by
  rw [inv.res i m hm] at h
  rw [inv'.res i m hm]
  rcases h with h | h | h
  · exact Or.inl h
  · exact Or.inr (Or.inl h)
  · exact Or.inr (Or.inr (hsub _ h))

theorem stage2_inv {e : Env} (w : WF e) {ρ₀ : RegFile n} :
    ∀ (l : List (Nat × Move)) (st st' : St) (P : List Reg),
      (∀ p ∈ l, e.moves[p.1]? = some p.2) → Inv e ρ₀ P st → Inv2 e P →
      stage2 e l st = .ok st' →
      ∃ P', Inv e ρ₀ P' st' ∧ (∀ x ∈ P, x ∈ P') ∧ ∀ p ∈ l, (st'.results.getD p.1 none).isSome = true := by
  intro l
  induction l with
  | nil =>
    intro st st' P _ inv _ h
    simp only [stage2, Except.ok.injEq] at h
    subst h
    exact ⟨P, inv, fun x hx => hx, fun p hp => by simp at hp⟩
  | cons hd rest ih =>
    obtain ⟨i, m⟩ := hd
    intro st st' P hl inv i2 h
    have hm : e.moves[i]? = some m := hl (i, m) List.mem_cons_self
    have hl' : ∀ p ∈ rest, e.moves[p.1]? = some p.2 := fun p hp => hl p (List.mem_cons_of_mem _ hp)
    unfold stage2 at h
    by_cases hsome : (st.results.getD i none).isSome = true
    · rw [if_pos hsome] at h
      obtain ⟨P', inv', hsub, hall⟩ := ih st st' P hl' inv i2 h
      refine ⟨P', inv', hsub, ?_⟩
      intro p hp
      rcases List.mem_cons.mp hp with rfl | hp
      · exact inv.isSome_mono inv' hsub hm hsome
      · exact hall p hp
    · rw [if_neg hsome] at h
      have hnot : ¬ (m.src = m.dst ∨ m.dst = Reg.zero ∨ m.dst ∈ P) := fun hc => hsome ((inv.res i m hm).mpr hc)
      have hself : m.src ≠ m.dst := fun e => hnot (Or.inl e)
      have hz : m.dst ≠ Reg.zero := fun e => hnot (Or.inr (Or.inl e))
      have hdP : m.dst ∉ P := fun e => hnot (Or.inr (Or.inr e))
      have hE : Edge e m.src m.dst := ⟨m, List.mem_of_getElem? hm, rfl, rfl, hself, hz⟩
      have hsP : m.src ∉ P := inv.parent_unprocessed hE hdP
      have hsfree : m.src ∉ e.free := hE.src_not_free w
      -- common continuation: the cycle through `m.dst` has been processed
      have cont : ∀ (st1 : St) (P1 : List Reg), Inv e ρ₀ P1 st1 → (∀ x ∈ P, x ∈ P1) → m.dst ∈ P1 →
          stage2 e rest st1 = .ok st' →
          ∃ P', Inv e ρ₀ P' st' ∧ (∀ x ∈ P, x ∈ P') ∧
            ∀ p ∈ (i, m) :: rest, (st'.results.getD p.1 none).isSome = true := by
        intro st1 P1 inv1 hsub1 hd1 h1
        obtain ⟨P', inv', hsub, hall⟩ := ih st1 st' P1 hl' inv1 (i2.mono hsub1) h1
        refine ⟨P', inv', fun x hx => hsub x (hsub1 x hx), ?_⟩
        intro p hp
        rcases List.mem_cons.mp hp with rfl | hp
        · exact (inv'.res i m hm).mpr (Or.inr (Or.inr (hsub _ hd1)))
        · exact hall p hp
      cases hfree : e.freeOf m.dst.kind with
      | nil =>
        rw [hfree] at h
        simp only at h
        by_cases hk : m.dst.kind ≠ Kind.int
        · rw [if_pos hk] at h; cases h
        · rw [if_neg hk] at h
          cases hp : e.pred m.src with
          | none => rw [hp] at h; cases h
          | some p =>
            rw [hp] at h
            simp only at h
            cases hx : xorChain e m.src (e.moves.length + 1) ⟨.src, m.src⟩ ⟨.src, p⟩ st with
            | error err => rw [hx] at h; cases h
            | ok st1 =>
              rw [hx] at h
              simp only at h
              have xw : XW e ρ₀ P m.src [] (Val.mk .src m.src).reg (Val.mk .src p).reg st := by
                refine ⟨⟨hsP, by simp, pred_some_edge hp⟩, inv.keep _ hsP hsfree, ?_, ?_, inv.done,
                  ?_, ?_, inv.len, ?_⟩
                · intro q hq; simp at hq
                · intro q hq; simp at hq
                · intro r hrP _ _ hrf; exact inv.keep r hrP hrf
                · intro q hq hqs
                  rcases hq with hq | hq
                  · simp at hq
                  · exact absurd hq hqs
                · intro j m' hm'
                  rw [inv.res j m' hm']
                  simp
              obtain ⟨P1, inv1, hsub1, hs1, _⟩ :=
                xorChain_inv w i2 inv.sub inv.closed _ _ _ [] st st1 xw hx
              exact cont st1 P1 inv1 hsub1 (inv1.closed _ hs1 _ hE) h
      | cons temp tl =>
        rw [hfree] at h
        simp only at h
        have htf : temp ∈ e.free := by
          have : temp ∈ e.freeOf m.dst.kind := by rw [hfree]; exact List.mem_cons_self
          exact (List.mem_filter.mp this).1
        have htz : temp ≠ Reg.zero := (w.freeOk temp htf).1
        cases hem : emitMv st ⟨.src, m.src⟩ temp m.w with
        | error err => rw [hem] at h; cases h
        | ok r =>
          obtain ⟨st1, tv⟩ := r
          rw [hem] at h
          simp only at h
          cases htw : tempWalk e m.dst (e.moves.length + 1) m.src st1 with
          | error err => rw [htw] at h; cases h
          | ok st2 =>
            rw [htw] at h
            simp only at h
            cases hem2 : emitMv st2 tv m.dst m.w with
            | error err => rw [hem2] at h; cases h
            | ok r2 =>
              obtain ⟨st3, v⟩ := r2
              rw [hem2] at h
              simp only at h
              obtain ⟨hres, ins, hops, hmv⟩ := emitMv_ok hem
              have htv : tv.reg = temp := by
                unfold emitMv at hem
                split at hem
                · cases hem
                · simp only [Except.ok.injEq, Prod.mk.injEq] at hem
                  rw [← hem.2]
              have hex : exec st1.ops ρ₀ = wr (exec st.ops ρ₀) temp (rd ρ₀ m.src) := by
                rw [hops, exec_emit hmv, inv.keep _ hsP hsfree]
              have tw : TW e ρ₀ P m.src m.dst temp [] m.src st1 := by
                refine ⟨⟨hsP, by simp, i2.par _ _ hdP hE⟩, ?_, ?_, ?_, ?_, ?_, ?_, ?_, ?_⟩
                · intro q hq; simp at hq
                · intro q hq; simp at hq
                · rw [hex, rd_wr_same _ htz]
                · intro r hr p hp
                  rw [hex]
                  have : r ≠ temp := fun e => hp.dst_not_free w (e ▸ htf)
                  rw [rd_wr_ne _ this]
                  exact inv.done r hr p hp
                · intro r hrP _ hrf
                  rw [hex]
                  have : r ≠ temp := fun e => hrf (e ▸ htf)
                  rw [rd_wr_ne _ this]
                  exact inv.keep r hrP hrf
                · intro y hy p hp hor
                  rcases hor with hq | rfl
                  · simp at hq
                  · exact Or.inr (i2.inj y m.dst _ hy hdP hp hE)
                · rw [hres]; exact inv.len
                · intro j m' hm'
                  rw [hres, inv.res j m' hm']
                  simp
              obtain ⟨Q', tw'⟩ := tempWalk_inv w i2 inv.closed htf _ _ _ st1 st2 tw htw
              have inv3 := tw'.finish w inv.sub inv.closed htf hE htv hem2 hm rfl
              refine cont _ _ inv3 ?_ List.mem_cons_self h
              intro x hx
              exact List.mem_cons_of_mem _ (List.mem_append_right _ hx)

end Xdsl.ParallelMov
