import XdslModel.DeclFormat
/-!
C05 helper lemmas, part 1: the comma-separated list / optional element parsers consume exactly what
`commaSep` / a single token printed, provided the next token is not one they would take.
-/
namespace Xdsl.DeclFormat

/-- class of the first token of a stream -/
def clsHd (ts : List Tok) : Cls := clsOf ts.head?

@[simp] theorem clsHd_nil : clsHd [] = Cls.eof := rfl
@[simp] theorem clsHd_cons (t : Tok) (r : List Tok) : clsHd (t :: r) = clsOf (some t) := rfl

/-- `sel`/`mk` pair: `mk` builds the token that `sel` recognises -/
structure SelMk (sel : Tok → Option Nat) (mk : Nat → Tok) : Prop where
  sel_mk : ∀ n, sel (mk n) = some n
  mk_ne_comma : ∀ n, mk n ≠ Tok.punct ","

theorem selMk_val : SelMk selVal Tok.val := ⟨fun _ => rfl, fun _ h => by cases h⟩
theorem selMk_ty : SelMk selTy Tok.ty := ⟨fun _ => rfl, fun _ h => by cases h⟩
theorem selMk_succ : SelMk selSucc Tok.succ := ⟨fun _ => rfl, fun _ h => by cases h⟩

theorem moreList_nil (sel : Tok → Option Nat) : moreList sel [] = some ([], []) := by
  rw [moreList.eq_def]

theorem moreList_cons_ne (sel : Tok → Option Nat) (t : Tok) (r : List Tok) (h : t ≠ Tok.punct ",") :
    moreList sel (t :: r) = some ([], t :: r) := by
  rw [moreList.eq_def]
  simp [h]

theorem moreList_comma (sel : Tok → Option Nat) (u : Tok) (r : List Tok) (v : Nat) (h : sel u = some v) :
    moreList sel (Tok.punct "," :: u :: r) = (moreList sel r).map fun p => (v :: p.1, p.2) := by
  rw [moreList.eq_def]
  simp [h]

theorem moreList_commaTail {sel : Tok → Option Nat} {mk : Nat → Tok} (h : SelMk sel mk)
    (xs : List Nat) (rest : List Tok) (hr : clsHd rest ≠ Cls.punct ",") :
    moreList sel (commaTail mk xs ++ rest) = some (xs, rest) := by
  induction xs with
  | nil =>
    cases rest with
    | nil => simp [commaTail, moreList_nil]
    | cons t r =>
      have : t ≠ Tok.punct "," := by
        intro e; subst e; exact hr rfl
      simp [commaTail, moreList_cons_ne _ _ _ this]
  | cons x xs ih =>
    simp [commaTail, moreList_comma _ _ _ _ (h.sel_mk x), ih]

theorem optList_commaSep_cons {sel : Tok → Option Nat} {mk : Nat → Tok} (h : SelMk sel mk)
    (bad : Tok → Bool) (x : Nat) (xs : List Nat) (rest : List Tok) (hr : clsHd rest ≠ Cls.punct ",") :
    optList sel bad (commaSep mk (x :: xs) ++ rest) = some (x :: xs, rest) := by
  simp [commaSep, optList, h.sel_mk, moreList_commaTail h xs rest hr]

/-- the next token is neither taken by `sel` nor one on which the optional parser commits -/
def Passes (sel : Tok → Option Nat) (bad : Tok → Bool) (rest : List Tok) : Prop :=
  match rest with
  | [] => True
  | t :: _ => sel t = none ∧ bad t = false

theorem optList_nil {sel : Tok → Option Nat} (bad : Tok → Bool) (rest : List Tok)
    (hp : Passes sel bad rest) : optList sel bad rest = some ([], rest) := by
  cases rest with
  | nil => rfl
  | cons t r =>
    obtain ⟨h1, h2⟩ := hp
    simp [optList, h1, h2]

theorem optList_commaSep {sel : Tok → Option Nat} {mk : Nat → Tok} (h : SelMk sel mk)
    (bad : Tok → Bool) (xs : List Nat) (rest : List Tok) (hr : clsHd rest ≠ Cls.punct ",")
    (hp : xs = [] → Passes sel bad rest) :
    optList sel bad (commaSep mk xs ++ rest) = some (xs, rest) := by
  cases xs with
  | nil => simpa [commaSep] using optList_nil bad rest (hp rfl)
  | cons x xs => exact optList_commaSep_cons h bad x xs rest hr

theorem optOne_some {sel : Tok → Option Nat} {mk : Nat → Tok} (h : SelMk sel mk) (bad : Tok → Bool)
    (x : Nat) (rest : List Tok) : optOne sel bad (mk x :: rest) = some (some x, rest) := by
  simp [optOne, h.sel_mk]

theorem optOne_none {sel : Tok → Option Nat} (bad : Tok → Bool) (rest : List Tok)
    (hp : Passes sel bad rest) : optOne sel bad rest = some (none, rest) := by
  cases rest with
  | nil => rfl
  | cons t r =>
    obtain ⟨h1, h2⟩ := hp
    simp [optOne, h1, h2]

theorem reqOne_mk {sel : Tok → Option Nat} {mk : Nat → Tok} (h : SelMk sel mk)
    (x : Nat) (rest : List Tok) : reqOne sel (mk x :: rest) = some (x, rest) := by
  simp [reqOne, h.sel_mk]

theorem manyRegions_map (xs : List Nat) (rest : List Tok) (hp : Passes selRegion badBrace rest) :
    manyRegions (xs.map Tok.region ++ rest) = some (xs, rest) := by
  induction xs with
  | nil =>
    cases rest with
    | nil => rfl
    | cons t r =>
      obtain ⟨h1, h2⟩ := hp
      cases t <;> simp_all [manyRegions, selRegion]
  | cons x xs ih => simp [manyRegions, ih]

/-- a list of at most one element printed with `commaSep` is the element itself -/
theorem commaSep_le_one (mk : Nat → Tok) (xs : List Nat) (h : xs.length ≤ 1) :
    commaSep mk xs = xs.map mk := by
  match xs, h with
  | [], _ => rfl
  | [x], _ => rfl

end Xdsl.DeclFormat
