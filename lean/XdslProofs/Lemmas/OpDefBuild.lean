import XdslProofs.Lemmas.OpDef
/-!
Lemmas about the generated constructor (`irdl_build_arg_list` + `irdl_op_init`).
-/
namespace Xdsl.OpDef

/-- the values an argument of the generated constructor stands for -/
def BArg.toList {α : Type} : BArg α → List α
  | .none => []
  | .one x => [x]
  | .seq xs => xs

theorem buildArg_spec {α : Type} (norm : Bool) (d : Seg) (a : BArg α) (s : List α)
    (h : buildArg norm d a = some s) : s = a.toList ∧ kindOk d s.length := by
  cases a with
  | none =>
    cases d <;> cases norm <;> simp [buildArg, Seg.isVariadic, Seg.isOptional] at h <;>
      subst h <;> simp [BArg.toList, kindOk]
  | one x =>
    simp only [buildArg, Option.some.injEq] at h
    subst h
    cases d <;> simp [BArg.toList, kindOk]
  | seq xs =>
    cases d
    · simp [buildArg, Seg.isVariadic, Seg.isOptional] at h
      obtain ⟨h1, h2⟩ := h
      subst h2
      exact ⟨rfl, h1⟩
    · simp [buildArg, Seg.isVariadic, Seg.isOptional] at h
      obtain ⟨h1, h2⟩ := h
      subst h2
      exact ⟨rfl, h1⟩
    · simp [buildArg, Seg.isVariadic, Seg.isOptional] at h
      subst h
      exact ⟨rfl, trivial⟩

theorem buildSegs_spec {α : Type} (norm : Bool) : ∀ (defs : List Seg) (args : List (BArg α))
    (segs : List (List α)), buildSegs norm defs args = some segs →
    segs = args.map BArg.toList ∧ KindsOk defs (segs.map List.length)
  | [], [], segs, h => by
    simp only [buildSegs, Option.some.injEq] at h; subst h; exact ⟨rfl, trivial⟩
  | [], _ :: _, _, h => by simp [buildSegs] at h
  | _ :: _, [], _, h => by simp [buildSegs] at h
  | d :: ds, a :: as, segs, h => by
    simp only [buildSegs] at h
    cases h1 : buildArg norm d a with
    | none => simp [h1] at h
    | some s =>
      cases h2 : buildSegs norm ds as with
      | none => simp [h1, h2] at h
      | some r =>
        simp only [h1, h2, Option.some.injEq] at h
        subst h
        obtain ⟨e1, k1⟩ := buildArg_spec norm d a s h1
        obtain ⟨e2, k2⟩ := buildSegs_spec norm ds as r h2
        exact ⟨by rw [e1, e2]; rfl, k1, k2⟩

theorem allVar_of_variadicSizes (k : Nat) : ∀ (defs : List Seg) (sizes : List Nat),
    (∀ s ∈ variadicSizes defs sizes, s = k) → AllVar k defs sizes
  | [], _, _ => by unfold AllVar; trivial
  | _ :: _, [], _ => by unfold AllVar; trivial
  | d :: ds, s :: ss, h => by
    by_cases hd : d.isVariadic = true
    · simp only [variadicSizes, hd, if_true, List.mem_cons] at h
      exact ⟨fun _ => h s (Or.inl rfl), allVar_of_variadicSizes k ds ss fun t ht => h t (Or.inr ht)⟩
    · simp only [variadicSizes, hd] at h
      exact ⟨fun hh => absurd hh hd, allVar_of_variadicSizes k ds ss (by simpa using h)⟩

theorem segAt_map_length {α : Type} : ∀ (segs : List (List α)) (i : Nat), i < segs.length →
    segAt (segs.map List.length) segs.flatten i = segs.getD i []
  | [], i, h => by simp at h
  | a :: r, 0, _ => by
    rw [List.map_cons, List.flatten_cons, segAt_cons_zero]
    simp
  | a :: r, j + 1, h => by
    rw [List.map_cons, List.flatten_cons, segAt_cons_succ]
    simp only [List.drop_left', List.getD_cons_succ]
    exact segAt_map_length r j (by simpa using h)

end Xdsl.OpDef
