import XdslProofs.Lemmas.RiscV
/-!
Helper lemmas for `XdslProofs/C22Frame.lean`: frame slots, aligned slot addresses, what the store
loop of the prologue and the load loop of the epilogue do, one step of the program-counter machine
on a non-control instruction.
-/
namespace Xdsl.RiscV

def st1 : St := { regs := fun _ => 0#32, mem := fun _ => 0#32 }

def slotAddr (sp : W) (j : Nat) : W := sp + imm32 ((4 * j : Nat) : Int)

def slots : List Reg → Nat → List (Reg × Nat)
  | [], _ => []
  | r :: rs, k => (r, k) :: slots rs (k + 1)

theorem slots_bound {rs : List Reg} {k : Nat} {r : Reg} {j : Nat} (h : (r, j) ∈ slots rs k) :
    k ≤ j ∧ j < k + rs.length ∧ r ∈ rs := by
  induction rs generalizing k with
  | nil => simp [slots] at h
  | cons a rs ih =>
    simp only [slots, List.mem_cons, Prod.mk.injEq] at h
    rcases h with ⟨h1, h2⟩ | h
    · subst h1; subst h2; simp
    · have := ih h
      simp only [List.length_cons, List.mem_cons]
      exact ⟨by omega, by omega, Or.inr this.2.2⟩

theorem mem_slots {rs : List Reg} (k : Nat) {r : Reg} (h : r ∈ rs) : ∃ j, (r, j) ∈ slots rs k := by
  induction rs generalizing k with
  | nil => cases h
  | cons a rs ih =>
    simp only [List.mem_cons] at h
    rcases h with rfl | h
    · exact ⟨k, by simp [slots]⟩
    · obtain ⟨j, hj⟩ := ih (k + 1) h
      exact ⟨j, by simp [slots, hj]⟩

theorem toNat_imm32_nat (j : Nat) : (imm32 ((4 * j : Nat) : Int)).toNat = (4 * j) % 4294967296 := by
  unfold imm32
  rw [BitVec.ofInt_natCast]
  simp

theorem aligned_slot (sp : W) (j : Nat) (h : aligned sp = true) : aligned (slotAddr sp j) = true := by
  unfold aligned slotAddr at *
  rw [BitVec.toNat_add, toNat_imm32_nat]
  simp at h ⊢
  omega

theorem slot_inj (sp : W) (j k : Nat) (hj : j < 1073741824) (hk : k < 1073741824)
    (h : slotAddr sp j = slotAddr sp k) : j = k := by
  unfold slotAddr at h
  have h2 := (BitVec.add_right_inj sp).mp h  -- cancels `sp`
  have h3 := congrArg BitVec.toNat h2
  rw [toNat_imm32_nat, toNat_imm32_nat] at h3
  omega

theorem get_of_regs {a b : St} (h : a.regs = b.regs) (r : Reg) : a.get r = b.get r := by
  unfold St.get; rw [h]

@[simp] theorem store_regs (s : St) (a v : W) : (s.store a v).regs = s.regs := rfl

theorem store_mem (s : St) (a v x : W) : (s.store a v).mem x = if x = a then v else s.mem x := rfl

theorem exec_cons (i : Instr) (is : List Instr) (s : St) : exec (i :: is) s = (exec1 i s).bind (exec is) := rfl

theorem exec_append (a b : List Instr) (s : St) : exec (a ++ b) s = (exec a s).bind (exec b) := by
  induction a generalizing s with
  | nil => simp [exec]
  | cons i a ih =>
    simp only [List.cons_append, exec_cons]
    cases exec1 i s with
    | none => rfl
    | some s' => simp [Option.bind, ih]

/-- the stores of the prologue write each saved register to its slot and nothing else -/
theorem stores_spec (rs : List Reg) : ∀ (k : Nat) (s : St), aligned (s.get SP) = true →
    k + rs.length ≤ 1073741824 →
    ∃ s', exec (frameStores rs k) s = some s' ∧ s'.regs = s.regs ∧
      (∀ r j, (r, j) ∈ slots rs k → s'.mem (slotAddr (s.get SP) j) = s.get r) ∧
      (∀ x, (∀ j, k ≤ j → j < k + rs.length → x ≠ slotAddr (s.get SP) j) → s'.mem x = s.mem x) := by
  induction rs with
  | nil =>
    intro k s _ _
    exact ⟨s, rfl, rfl, by simp [slots], fun _ _ => rfl⟩
  | cons r rs ih =>
    intro k s hal hk
    simp only [List.length_cons] at hk
    have hal' : aligned (s.get SP + imm32 ((4 * k : Nat) : Int)) = true := aligned_slot _ k hal
    let s1 := s.store (slotAddr (s.get SP) k) (s.get r)
    have hget : ∀ x, s1.get x = s.get x := fun x => get_of_regs (by simp [s1]) x
    obtain ⟨s', he, hr, hm, hfr⟩ := ih (k + 1) s1 (by rw [hget]; exact hal) (by omega)
    refine ⟨s', ?_, ?_, ?_, ?_⟩
    · simp only [frameStores, exec_cons, exec1, hal', if_true, Option.bind]
      exact he
    · rw [hr]; simp [s1]
    · intro r' j hj
      simp only [slots, List.mem_cons, Prod.mk.injEq] at hj
      rcases hj with ⟨h1, h2⟩ | hj
      · subst h1; subst h2
        rw [hfr]
        · simp [s1, store_mem]
        · intro j hj1 hj2 heq
          rw [hget] at heq
          have := slot_inj _ _ _ (by omega) (by omega) heq
          omega
      · have := hm r' j hj
        rw [hget, hget] at this
        exact this
    · intro x hx
      rw [hfr]
      · have : x ≠ slotAddr (s.get SP) k := hx k (Nat.le_refl _) (by simp)
        simp [s1, store_mem, this]
      · intro j hj1 hj2
        rw [hget]
        exact hx j (by omega) (by simp only [List.length_cons]; omega)

/-- the loads of the epilogue put the slot contents back into the saved registers and change nothing else -/
theorem loads_spec (rs : List Reg) : ∀ (k : Nat) (u : St) (v : Reg → W), aligned (u.get SP) = true →
    rs.Nodup → (∀ r ∈ rs, r ≠ 0 ∧ r ≠ SP) →
    (∀ r j, (r, j) ∈ slots rs k → u.mem (slotAddr (u.get SP) j) = v r) →
    ∃ u', exec (frameLoads rs k) u = some u' ∧ u'.mem = u.mem ∧ (∀ r ∈ rs, u'.get r = v r) ∧
      (∀ x, x ∉ rs → u'.get x = u.get x) := by
  induction rs with
  | nil =>
    intro k u v _ _ _ _
    exact ⟨u, rfl, rfl, by simp, fun _ _ => rfl⟩
  | cons r rs ih =>
    intro k u v hal hnd hreg hmem
    have hr := hreg r (List.mem_cons_self)
    have hal' : aligned (u.get SP + imm32 ((4 * k : Nat) : Int)) = true := aligned_slot _ k hal
    have hnd' := List.nodup_cons.mp hnd
    let u1 := u.set r (u.mem (slotAddr (u.get SP) k))
    have hsp : u1.get SP = u.get SP := get_set_ne _ _ _ _ (fun e => hr.2 e.symm)
    obtain ⟨u', he, hm, hv, hfr⟩ := ih (k + 1) u1 v (by rw [hsp]; exact hal) hnd'.2
      (fun x hx => hreg x (List.mem_cons_of_mem _ hx))
      (by
        intro r' j hj
        rw [hsp]
        simp only [u1, set_mem]
        exact hmem r' j (by simp [slots, hj]))
    refine ⟨u', ?_, ?_, ?_, ?_⟩
    · simp only [frameLoads, exec_cons, exec1, hal', if_true, Option.bind]
      exact he
    · rw [hm]; simp [u1]
    · intro r' hr'
      simp only [List.mem_cons] at hr'
      rcases hr' with rfl | hr'
      · rw [hfr _ hnd'.1]
        simp only [u1]
        rw [get_set_same _ _ _ hr.1]
        exact hmem r' k (by simp [slots])
      · exact hv r' hr'
    · intro x hx
      simp only [List.mem_cons, not_or] at hx
      rw [hfr x hx.2]
      exact get_set_ne _ _ _ _ hx.1

theorem imm32_neg_add (n : Nat) :
    imm32 (-((4 * n : Nat) : Int)) + imm32 ((4 * n : Nat) : Int) = 0#32 := by
  rw [imm32_neg, BitVec.add_comm]
  exact BitVec.add_right_neg _

def Instr.straight : Instr → Bool
  | .br _ _ _ _ | .j _ | .jal _ | .ret => false
  | _ => true

theorem step_straight (prog : Array Instr) (pc : Nat) (s : St) (i : Instr)
    (h : prog[pc]? = some i) (hs : i.straight = true) (he : i.encodable = true) :
    step prog pc s = (exec1 i s).map (fun s' => (some (pc + 1), s')) := by
  unfold step
  rw [h]
  simp only [he, Bool.not_true, Bool.false_eq_true, if_false]
  cases i <;> simp [Instr.straight] at hs <;> rfl

end Xdsl.RiscV
