import XdslModel.DCEMini
import XdslProofs.Lemmas.AL
/-!
State relation used by the semantic-preservation proof of dead-code elimination on `Sem`
(`XdslProofs/C13SemCFG.lean`): two machine states are related when they have the same effect log,
memory and `symref` variables and their value environments agree on every value id outside a set `D`
(the values defined by erased operations and blocks).
-/
namespace Xdsl.DCEM
open Xdsl.DCE Xdsl.MiniIR Xdsl.Sem

/-- same effect log, memory, symref variables; environments agree outside `D` -/
structure Rel (D : Nat → Prop) (st st' : St) : Prop where
  eff : st'.eff = st.eff
  sym : st'.sym = st.sym
  mem : st'.mem = st.mem
  env : ∀ v, ¬ D v → AL.get st'.env v = AL.get st.env v

theorem Rel.refl {D : Nat → Prop} (st : St) : Rel D st st := ⟨rfl, rfl, rfl, fun _ _ => rfl⟩

theorem Rel.symm {D : Nat → Prop} {a b : St} (h : Rel D a b) : Rel D b a :=
  ⟨h.eff.symm, h.sym.symm, h.mem.symm, fun v hv => (h.env v hv).symm⟩

theorem Rel.trans {D : Nat → Prop} {a b c : St} (h1 : Rel D a b) (h2 : Rel D b c) : Rel D a c :=
  ⟨h2.eff.trans h1.eff, h2.sym.trans h1.sym, h2.mem.trans h1.mem,
   fun v hv => (h2.env v hv).trans (h1.env v hv)⟩

theorem Rel.mono {D D' : Nat → Prop} {a b : St} (h : Rel D a b) (hs : ∀ v, D v → D' v) : Rel D' a b :=
  ⟨h.eff, h.sym, h.mem, fun v hv => h.env v (fun hd => hv (hs v hd))⟩

theorem get_rel {D : Nat → Prop} {st st' : St} (h : Rel D st st') {v : Nat} (hv : ¬ D v) :
    st'.get v = st.get v := by
  unfold St.get
  rw [h.env v hv]

theorem mapM_loop_congr {α β : Type} (f g : α → Res β) :
    ∀ (l : List α) (acc : List β), (∀ x ∈ l, f x = g x) → List.mapM.loop f l acc = List.mapM.loop g l acc := by
  intro l
  induction l with
  | nil => intro acc _; rfl
  | cons x xs ih =>
    intro acc h
    simp only [List.mapM.loop]
    rw [h x (by simp)]
    congr
    funext b
    exact ih _ (fun y hy => h y (by simp [hy]))

theorem gets_rel {D : Nat → Prop} {st st' : St} (h : Rel D st st') {l : List Nat} (hl : ∀ v ∈ l, ¬ D v) :
    st'.gets l = st.gets l := by
  unfold St.gets List.mapM
  exact mapM_loop_congr _ _ l [] (fun v hv => get_rel h (hl v hv))

/-! ### binding results / block arguments -/

theorem foldl_set_rel {D : Nat → Prop} (ps : List ((Nat × Ty) × Val)) :
    ∀ (e e' : AL Nat Val), (∀ v, ¬ D v → AL.get e' v = AL.get e v) →
      ∀ v, ¬ D v → AL.get (ps.foldl (fun e (p : (Nat × Ty) × Val) => AL.set e p.1.1 p.2) e') v
        = AL.get (ps.foldl (fun e (p : (Nat × Ty) × Val) => AL.set e p.1.1 p.2) e) v := by
  induction ps with
  | nil => intro e e' h; exact h
  | cons p ps ih =>
    intro e e' h
    simp only [List.foldl_cons]
    apply ih
    intro v hv
    rw [AL.get_set, AL.get_set, h v hv]

theorem foldl_set_other (ps : List ((Nat × Ty) × Val)) :
    ∀ (e : AL Nat Val) (v : Nat), (∀ p ∈ ps, p.1.1 ≠ v) →
      AL.get (ps.foldl (fun e (p : (Nat × Ty) × Val) => AL.set e p.1.1 p.2) e) v = AL.get e v := by
  induction ps with
  | nil => intro e v _; rfl
  | cons p ps ih =>
    intro e v h
    simp only [List.foldl_cons]
    rw [ih _ v (fun q hq => h q (by simp [hq])), AL.get_set]
    have := h p (by simp)
    simp [Ne.symm this]

/-- binding the same values to the same names keeps two states related -/
theorem bind_rel {D : Nat → Prop} {st st' s1 : St} (h : Rel D st st') {names : List (Nat × Ty)}
    {vals : List Val} (hb : st.bind names vals = .ok s1) :
    ∃ s1', st'.bind names vals = .ok s1' ∧ Rel D s1 s1' := by
  unfold St.bind at hb ⊢
  split at hb
  · cases hb
  · rename_i hlen
    cases hb
    rw [if_neg hlen]
    exact ⟨_, rfl, ⟨h.eff, h.sym, h.mem, foldl_set_rel _ _ _ h.env⟩⟩

/-- binding names that all lie in `D` does not leave the relation -/
theorem bind_keep {D : Nat → Prop} {st s1 : St} {names : List (Nat × Ty)} {vals : List Val}
    (hD : ∀ p ∈ names, D p.1) (hb : st.bind names vals = .ok s1) : Rel D st s1 := by
  unfold St.bind at hb
  split at hb
  · cases hb
  · cases hb
    refine ⟨rfl, rfl, rfl, fun v hv => foldl_set_other _ _ _ ?_⟩
    intro p hp heq
    have := (List.of_mem_zip hp).1
    exact hv (heq ▸ hD _ this)

/-! ### the region-free state operations do not look at the environment -/

def envMap (e' : AL Nat Val) : Res (St × List Val) → Res (St × List Val)
  | .ok (s1, rs) => .ok ({ s1 with env := e' }, rs)
  | .ub w => .ub w
  | .fuel => .fuel
  | .err x => .err x

theorem load_env (st : St) (e' : AL Nat Val) (m : Val) (idx : List Int) :
    St.load { st with env := e' } m idx = St.load st m idx := by
  unfold St.load; rfl

theorem store_env (st : St) (e' : AL Nat Val) (m : Val) (idx : List Int) (v : Val) :
    St.store { st with env := e' } m idx v = match St.store st m idx v with
      | .ok s1 => .ok { s1 with env := e' } | .ub w => .ub w | .fuel => .fuel | .err x => .err x := by
  unfold St.store
  cases m <;> try rfl
  rename_i id
  simp only
  cases st.mem[id]? with
  | none => rfl
  | some a =>
    simp only
    cases linearIndex a.shape idx <;> rfl

theorem stateOp_env (st : St) (e' : AL Nat Val) (o : Op) (args : List Val) :
    stateOp { st with env := e' } o args = (stateOp st o args).map (envMap e') := by
  unfold stateOp
  split
  all_goals first | rfl | skip
  all_goals try simp only [load_env, store_env]
  all_goals repeat' split
  all_goals first | rfl | simp_all [envMap]

theorem store_env_eq {st st' : St} {m : Val} {idx : List Int} {v : Val}
    (h : st.store m idx v = .ok st') : st'.env = st.env := by
  unfold St.store at h
  repeat' split at h
  all_goals first | (cases h; rfl) | cases h

theorem stateOp_env_eq {st st1 : St} {o : Op} {args rs : List Val}
    (h : stateOp st o args = some (.ok (st1, rs))) : st1.env = st.env := by
  unfold stateOp at h
  repeat' split at h
  all_goals first
    | (cases h; rfl)
    | (cases h; done)
    | (cases h; exact store_env_eq (by assumption))

theorem Rel.eq_with {D : Nat → Prop} {st st' : St} (h : Rel D st st') : st' = { st with env := st'.env } := by
  cases st'; cases st
  have := h.eff; have := h.sym; have := h.mem
  simp_all

/-- outcomes related: when the first is `ok`, so is the second, with related payloads -/
def RelRes {α : Type} (Q : α → α → Prop) : Res α → Res α → Prop
  | .ok a, r => ∃ b, r = .ok b ∧ Q a b
  | _, _ => True

theorem RelRes.of_ok {α : Type} {Q : α → α → Prop} {a b : α} (h : Q a b) : RelRes Q (.ok a) (.ok b) :=
  ⟨b, rfl, h⟩

end Xdsl.DCEM
