import XdslModel.Skeleton
/-!
With injective naming the name-distinctness checks of `walk` are vacuous.
-/
namespace Xdsl.Skeleton

variable {N : Type} [DecidableEq N]

theorem liveOK_inj (nv : Nat → N) (hv : Function.Injective nv) (t : VT Nat) (v : Nat) :
    liveOK nv t v = true := by
  simp only [liveOK, List.all_eq_true, Bool.or_eq_true, decide_eq_true_eq]
  intro e _
  by_cases h : e.1 = v
  · exact Or.inl h
  · exact Or.inr fun he => h (hv he)

theorem bliveOK_inj (nb : Nat → N) (hb : Function.Injective nb) (t : BT Nat) (b : Nat) :
    bliveOK nb t b = true := by
  simp only [bliveOK, List.all_eq_true, Bool.or_eq_true, decide_eq_true_eq]
  intro e _
  by_cases h : e.1 = b
  · exact Or.inl h
  · exact Or.inr fun he => h (hb he)

variable (nv nb : Nat → N) (hv : Function.Injective nv) (hb : Function.Injective nb)
include hv

theorem wUse_inj (gs : GS) (v : Nat) (ty : Opq) : wUse nv gs v ty = wUse (fun x => x) gs v ty := by
  simp only [wUse, liveOK_inj nv hv, liveOK_inj (fun x : Nat => x) (fun _ _ h => h)]

theorem wDef_inj (gs : GS) (v : Nat) (ty : Opq) : wDef nv gs v ty = wDef (fun x => x) gs v ty := by
  simp only [wDef, liveOK_inj nv hv, liveOK_inj (fun x : Nat => x) (fun _ _ h => h)]

theorem wUseAll_inj (vs : List Nat) : ∀ (tys : List Opq) (gs : GS),
    wUseAll nv gs vs tys = wUseAll (fun x => x) gs vs tys := by
  induction vs with
  | nil => intro tys gs; cases tys <;> rfl
  | cons v vs ih =>
    intro tys gs
    cases tys with
    | nil => rfl
    | cons ty tys =>
      simp only [wUseAll, wUse_inj nv hv]
      cases wUse (fun x => x) gs v ty with
      | none => rfl
      | some r => simp only [ih]

theorem wDefAll_inj (vs : List Nat) : ∀ (tys : List Opq) (gs : GS),
    wDefAll nv gs vs tys = wDefAll (fun x => x) gs vs tys := by
  induction vs with
  | nil => intro tys gs; cases tys <;> rfl
  | cons v vs ih =>
    intro tys gs
    cases tys with
    | nil => rfl
    | cons ty tys =>
      simp only [wDefAll, wDef_inj nv hv]
      cases wDef (fun x => x) gs v ty with
      | none => rfl
      | some r => simp only [ih]

theorem wDefArgs_inj (args : List (Nat × Opq)) : ∀ gs : GS,
    wDefArgs nv gs args = wDefArgs (fun x => x) gs args := by
  induction args with
  | nil => intro gs; rfl
  | cons a args ih =>
    intro gs
    obtain ⟨v, ty⟩ := a
    simp only [wDefArgs, wDef_inj nv hv]
    cases wDef (fun x => x) gs v ty with
    | none => rfl
    | some r => simp only [ih]

omit hv
include hb

theorem wRef_inj (gs : GS) (b : Nat) : wRef nb gs b = wRef (fun x => x) gs b := by
  simp only [wRef, bliveOK_inj nb hb, bliveOK_inj (fun x : Nat => x) (fun _ _ h => h)]

theorem wBDef_inj (gs : GS) (b : Nat) : wBDef nb gs b = wBDef (fun x => x) gs b := by
  simp only [wBDef, bliveOK_inj nb hb, bliveOK_inj (fun x : Nat => x) (fun _ _ h => h)]

theorem wRefAll_inj (bs : List Nat) : ∀ gs : GS,
    wRefAll nb gs bs = wRefAll (fun x => x) gs bs := by
  induction bs with
  | nil => intro gs; rfl
  | cons b bs ih =>
    intro gs
    simp only [wRefAll, wRef_inj nb hb]
    cases wRef (fun x => x) gs b with
    | none => rfl
    | some r => simp only [ih]

include hv

theorem walk_inj (t : IR) : ∀ (e : Bool) (gs : GS),
    walk nv nb e gs t = walk (fun x : Nat => x) (fun x : Nat => x) e gs t := by
  induction t with
  | nil => intro e gs; rfl
  | op h rs nx ihr ihn =>
    intro e gs
    simp only [walk, wRefAll_inj nb hb, wUseAll_inj nv hv, wDefAll_inj nv hv, ihr, ihn]
  | region bs nx ihb ihn =>
    intro e gs
    simp only [walk, ihb, ihn]
  | block b args ops nx iho ihn =>
    intro e gs
    simp only [walk, wBDef_inj nb hb, wDefArgs_inj nv hv, iho, ihn]

end Xdsl.Skeleton
