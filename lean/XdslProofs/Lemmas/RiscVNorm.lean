import XdslModel.RiscVValidate
import XdslProofs.Lemmas.X86Poly
import XdslProofs.Lemmas.RiscV
/-!
Normalisation of expression trees to polynomials over hash-consed atoms (`XdslModel/RiscVValidate.lean`)
is sound: `norm_ok`, `checkPairs_sound`.  Core Lean only.

The atoms of a table `t` get their values from `envL`: entry `i` of the table is variable `NV + i`, its
value is the node's operation on the values of its operand polynomials *in the environment of the
entries before it*.  A table is well formed (`WF`) when every node mentions only earlier variables;
then a node's value also satisfies its defining equation in the final environment (`envL_node`), and
extending the table does not change the value of earlier polynomials (`evalPoly_envL_append`).
-/
namespace Xdsl.RiscV.TV
open Xdsl.X86

/-! ### variable bounds of polynomials -/

def MB (n : Nat) (m : Mono) : Prop := ∀ v ∈ m, v < n
def PB (n : Nat) (p : Poly) : Prop := ∀ t ∈ p, MB n t.1

theorem PB_mono {n n' : Nat} {p : Poly} (h : PB n p) (hn : n ≤ n') : PB n' p :=
  fun t ht v hv => Nat.lt_of_lt_of_le (h t ht v hv) hn

theorem PB_nil (n : Nat) : PB n [] := fun _ h => by cases h

theorem mem_minsert {v x : Nat} {m : Mono} : x ∈ minsert v m → x = v ∨ x ∈ m := by
  induction m with
  | nil => intro h; simp [minsert] at h; exact Or.inl h
  | cons y r ih =>
    unfold minsert
    split
    · intro h; simp at h; rcases h with h | h | h
      · exact Or.inl h
      · exact Or.inr (by simp [h])
      · exact Or.inr (by simp [h])
    · intro h; simp at h; rcases h with h | h
      · exact Or.inr (by simp [h])
      · rcases ih h with h | h
        · exact Or.inl h
        · exact Or.inr (by simp [h])

theorem MB_minsert {n v : Nat} {m : Mono} (hv : v < n) (hm : MB n m) : MB n (minsert v m) := by
  intro x hx
  rcases mem_minsert hx with rfl | h
  · exact hv
  · exact hm x h

theorem MB_mmul {n : Nat} {a b : Mono} (ha : MB n a) (hb : MB n b) : MB n (mmul a b) := by
  induction a with
  | nil => exact hb
  | cons v a ih =>
    have : mmul (v :: a) b = minsert v (mmul a b) := rfl
    rw [this]
    exact MB_minsert (ha v (by simp)) (ih (fun x hx => ha x (by simp [hx])))

theorem PB_cons {n : Nat} {t : Mono × Int} {p : Poly} (ht : MB n t.1) (hp : PB n p) : PB n (t :: p) := by
  intro u hu
  simp at hu
  rcases hu with rfl | hu
  · exact ht
  · exact hp u hu

theorem PB_tail {n : Nat} {t : Mono × Int} {p : Poly} (h : PB n (t :: p)) : PB n p :=
  fun u hu => h u (by simp [hu])

theorem PB_head {n : Nat} {t : Mono × Int} {p : Poly} (h : PB n (t :: p)) : MB n t.1 :=
  h t (by simp)

theorem PB_pins {n : Nat} {m : Mono} (c : Int) {p : Poly} (hm : MB n m) (hp : PB n p) :
    PB n (pins m c p) := by
  induction p with
  | nil => exact PB_cons hm (PB_nil n)
  | cons t r ih =>
    obtain ⟨m', c'⟩ := t
    unfold pins
    split
    · exact PB_cons hm (PB_tail hp)
    · split
      · exact PB_cons hm hp
      · exact PB_cons (PB_head hp) (ih (PB_tail hp))

theorem PB_padd {n : Nat} {p q : Poly} (hp : PB n p) (hq : PB n q) : PB n (padd p q) := by
  induction p with
  | nil => exact hq
  | cons t r ih =>
    have : padd (t :: r) q = pins t.1 t.2 (padd r q) := rfl
    rw [this]
    exact PB_pins _ (PB_head hp) (ih (PB_tail hp))

theorem PB_pscale {n : Nat} {m : Mono} (c : Int) {q acc : Poly} (hm : MB n m) (hq : PB n q)
    (ha : PB n acc) : PB n (pscale m c q acc) := by
  induction q with
  | nil => exact ha
  | cons t r ih =>
    have : pscale m c (t :: r) acc = pins (mmul m t.1) (c * t.2) (pscale m c r acc) := rfl
    rw [this]
    exact PB_pins _ (MB_mmul hm (PB_head hq)) (ih (PB_tail hq))

theorem PB_pmul {n : Nat} {p q : Poly} (hp : PB n p) (hq : PB n q) : PB n (pmul p q) := by
  induction p with
  | nil => exact PB_nil n
  | cons t r ih =>
    have : pmul (t :: r) q = pscale t.1 t.2 q (pmul r q) := rfl
    rw [this]
    exact PB_pscale _ (PB_head hp) hq (ih (PB_tail hp))

theorem PB_pneg {n : Nat} {p : Poly} (hp : PB n p) : PB n (pneg p) := by
  intro t ht
  simp only [pneg, List.mem_map] at ht
  obtain ⟨u, hu, rfl⟩ := ht
  exact hp u hu

theorem PB_pclean {n : Nat} {p : Poly} (hp : PB n p) : PB n (pclean p) := by
  intro t ht
  simp only [pclean, List.mem_filter] at ht
  exact hp t ht.1

theorem PB_pnorm {n : Nat} {p : Poly} (hp : PB n p) : PB n (pnorm p) := by
  apply PB_pclean
  intro t ht
  simp only [List.mem_map] at ht
  obtain ⟨u, hu, rfl⟩ := ht
  exact hp u hu

theorem PB_pconst (n : Nat) (c : Int) : PB n (pconst c) := by
  intro t ht
  simp only [pconst, List.mem_singleton] at ht
  subst ht
  intro v hv
  cases hv

theorem PB_pvar {n i : Nat} (h : i < n) : PB n (pvar i) := by
  intro t ht
  simp only [pvar, List.mem_singleton] at ht
  subst ht
  intro v hv
  simp at hv
  omega

theorem PB_pmul? {n : Nat} {p q r : Poly} (h : pmul? p q = some r) (hp : PB n p) (hq : PB n q) :
    PB n r := by
  unfold pmul? at h
  split at h
  · cases h; exact PB_pclean (PB_pmul hp hq)
  · cases h

/-! ### `pnorm` keeps the value at 32 bits -/

theorem ofInt_emod (c : Int) : BitVec.ofInt 32 (c % M32) = BitVec.ofInt 32 c := by
  apply BitVec.eq_of_toNat_eq
  simp only [BitVec.toNat_ofInt, M32]
  have : ((2 ^ 32 : Nat) : Int) = 4294967296 := by decide
  rw [this, Int.emod_emod_of_dvd _ (Int.dvd_refl _)]

theorem evalPoly_map_emod (env : Nat → W) (p : Poly) :
    evalPoly env (p.map fun t => (t.1, t.2 % M32)) = evalPoly env p := by
  induction p with
  | nil => rfl
  | cons t r ih => simp [ih, ofInt_emod]

theorem evalPoly_pnorm (env : Nat → W) (p : Poly) : evalPoly env (pnorm p) = evalPoly env p := by
  rw [pnorm, evalPoly_pclean, evalPoly_map_emod]

/-! ### environments of tables -/

def ext (env : Nat → W) (k : Nat) (v : W) : Nat → W := fun i => if i = k then v else env i

def nodeVal (env : Nat → W) (n : Node) : W := aluR n.1 (evalPoly env n.2.1) (evalPoly env n.2.2)

/-- entry `i` of the table is variable `k + i` -/
def envL (env : Nat → W) : Tbl → Nat → (Nat → W)
  | [], _ => env
  | n :: r, k => envL (ext env k (nodeVal env n)) r (k + 1)

theorem evalMono_ext (env : Nat → W) {n j : Nat} (v : W) {m : Mono} (hm : MB n m) (hj : n ≤ j) :
    evalMono (ext env j v) m = evalMono env m := by
  induction m with
  | nil => rfl
  | cons x r ih =>
    have hx : x < n := hm x (by simp)
    have : ext env j v x = env x := by simp [ext]; omega
    simp only [evalMono_cons, this, ih (fun y hy => hm y (by simp [hy]))]

theorem evalPoly_ext (env : Nat → W) {n j : Nat} (v : W) {p : Poly} (hp : PB n p) (hj : n ≤ j) :
    evalPoly (ext env j v) p = evalPoly env p := by
  induction p with
  | nil => rfl
  | cons t r ih =>
    simp only [evalPoly_cons, evalMono_ext env v (PB_head hp) hj, ih (PB_tail hp)]

theorem evalPoly_envL {n : Nat} {p : Poly} (hp : PB n p) (t : Tbl) :
    ∀ (env : Nat → W) (k : Nat), n ≤ k → evalPoly (envL env t k) p = evalPoly env p := by
  induction t with
  | nil => intro env k _; rfl
  | cons nd r ih =>
    intro env k hk
    show evalPoly (envL (ext env k (nodeVal env nd)) r (k + 1)) p = _
    rw [ih _ (k + 1) (by omega), evalPoly_ext env _ hp hk]

theorem envL_lt (t : Tbl) : ∀ (env : Nat → W) (k i : Nat), i < k → envL env t k i = env i := by
  induction t with
  | nil => intro env k i _; rfl
  | cons nd r ih =>
    intro env k i hi
    show envL (ext env k (nodeVal env nd)) r (k + 1) i = _
    rw [ih _ (k + 1) i (by omega)]
    simp [ext]; omega

theorem envL_append (a b : Tbl) : ∀ (env : Nat → W) (k : Nat),
    envL env (a ++ b) k = envL (envL env a k) b (k + a.length) := by
  induction a with
  | nil => intro env k; rfl
  | cons nd r ih =>
    intro env k
    show envL (ext env k (nodeVal env nd)) (r ++ b) (k + 1) = _
    rw [ih]
    show _ = envL (envL (ext env k (nodeVal env nd)) r (k + 1)) b (k + (r.length + 1))
    congr 1; omega

def NB (n : Nat) (nd : Node) : Prop := PB n nd.2.1 ∧ PB n nd.2.2

/-- every node mentions only variables before its own -/
def WF (t : Tbl) (k : Nat) : Prop := ∀ i nd, t[i]? = some nd → NB (k + i) nd

theorem nodeVal_congr {e1 e2 : Nat → W} {nd : Node} (h1 : evalPoly e1 nd.2.1 = evalPoly e2 nd.2.1)
    (h2 : evalPoly e1 nd.2.2 = evalPoly e2 nd.2.2) : nodeVal e1 nd = nodeVal e2 nd := by
  simp only [nodeVal, h1, h2]

/-- in the final environment a node's variable satisfies the node's defining equation -/
theorem envL_node (t : Tbl) : ∀ (env : Nat → W) (k i : Nat) (nd : Node), WF t k → t[i]? = some nd →
    envL env t k (k + i) = nodeVal (envL env t k) nd := by
  induction t with
  | nil => intro env k i nd _ h; simp at h
  | cons n r ih =>
    intro env k i nd hwf h
    show envL (ext env k (nodeVal env n)) r (k + 1) (k + i) = nodeVal (envL (ext env k (nodeVal env n)) r (k + 1)) nd
    cases i with
    | zero =>
      simp at h; subst h
      have hnb : NB k n := by have := hwf 0 n (by simp); simpa using this
      show envL (ext env k (nodeVal env n)) r (k + 1) k = _
      rw [envL_lt r _ (k + 1) k (by omega)]
      have hk : ext env k (nodeVal env n) k = nodeVal env n := by simp [ext]
      rw [hk]
      apply nodeVal_congr
      · rw [evalPoly_envL hnb.1 r _ (k + 1) (by omega), evalPoly_ext env _ hnb.1 (Nat.le_refl k)]
      · rw [evalPoly_envL hnb.2 r _ (k + 1) (by omega), evalPoly_ext env _ hnb.2 (Nat.le_refl k)]
    | succ i' =>
      have h' : r[i']? = some nd := by simpa using h
      have hwf' : WF r (k + 1) := by
        intro j m hj
        have := hwf (j + 1) m (by simpa using hj)
        have e : k + (j + 1) = k + 1 + j := by omega
        rw [e] at this; exact this
      have := ih (ext env k (nodeVal env n)) (k + 1) i' nd hwf' h'
      have e : k + (i' + 1) = k + 1 + i' := by omega
      rw [e]; exact this

theorem evalPoly_envL_append (env : Nat → W) (t e : Tbl) (k : Nat) {p : Poly}
    (hp : PB (k + t.length) p) :
    evalPoly (envL env (t ++ e) k) p = evalPoly (envL env t k) p := by
  rw [envL_append, evalPoly_envL hp e _ _ (Nat.le_refl _)]

/-! ### node construction -/

theorem isConst_ev (env : Nat → W) {p : Poly} {c : Int} (h : isConst p = some c) :
    evalPoly env p = imm32 c := by
  unfold isConst at h
  split at h
  · cases h; simp [imm32]
  · cases h; simp [imm32]
  · cases h

theorem div_one (a : W) : aluR .div a (imm32 1) = a := by
  have h1 : (1#32).toInt = 1 := by decide
  have h2 : ¬ (1#32 = 0#32) := by decide
  simp [aluR, imm32_one, h1, h2, Int.tdiv_one, BitVec.ofInt_toInt]

theorem simpNode_ok (env : Nat → W) {op : ROp} {p q r : Poly} (h : simpNode op p q = some r) :
    (r = p ∨ r = q ∨ r = []) ∧ evalPoly env r = aluR op (evalPoly env p) (evalPoly env q) := by
  unfold simpNode at h
  split at h
  · -- and
    split at h
    · next e => cases h; subst e; exact ⟨Or.inl rfl, by simp [aluR]⟩
    · split at h
      · next e =>
        cases h
        refine ⟨Or.inr (Or.inr rfl), ?_⟩
        rcases e with e | e <;> subst e <;> simp [aluR]
      · cases h
  · -- or
    split at h
    · next e => cases h; subst e; exact ⟨Or.inl rfl, by simp [aluR]⟩
    · split at h
      · next e => cases h; subst e; exact ⟨Or.inr (Or.inl rfl), by simp [aluR]⟩
      · split at h
        · next e => cases h; subst e; exact ⟨Or.inl rfl, by simp [aluR]⟩
        · cases h
  · -- xor
    split at h
    · next e => cases h; subst e; exact ⟨Or.inr (Or.inr rfl), by simp [aluR]⟩
    · split at h
      · next e => cases h; subst e; exact ⟨Or.inr (Or.inl rfl), by simp [aluR]⟩
      · split at h
        · next e => cases h; subst e; exact ⟨Or.inl rfl, by simp [aluR]⟩
        · cases h
  · -- div
    split at h
    · next e =>
      cases h; subst e
      refine ⟨Or.inl rfl, ?_⟩
      have : evalPoly env [(([] : Mono), (1 : Int))] = imm32 1 := by simp [imm32]
      rw [this, div_one]
    · cases h
  · cases h

theorem lookup_some (n : Node) (t : Tbl) : ∀ (k j : Nat), lookup n t k = some j →
    ∃ i, j = k + i ∧ t[i]? = some n := by
  induction t with
  | nil => intro k j h; simp [lookup] at h
  | cons m r ih =>
    intro k j h
    unfold lookup at h
    split at h
    · next e => cases h; exact ⟨0, rfl, by simp [e]⟩
    · obtain ⟨i, hj, hi⟩ := ih (k + 1) j h
      exact ⟨i + 1, by omega, by simpa using hi⟩

theorem WF_getElem {t : Tbl} {k i : Nat} {nd : Node} (h : t[i]? = some nd) : i < t.length := by
  rcases Nat.lt_or_ge i t.length with h' | h'
  · exact h'
  · rw [List.getElem?_eq_none h'] at h; cases h

/-- what `norm`/`mkNode` promise about their result: the table only grows, stays well formed, the
polynomial mentions only existing variables and evaluates to `x` -/
structure NormOK (base : Nat → W) (t : Tbl) (x : W) (t' : Tbl) (p : Poly) : Prop where
  grow : ∃ e, t' = t ++ e
  wf : WF t' NV
  pb : PB (NV + t'.length) p
  ev : evalPoly (envL base t' NV) p = x

theorem intern_ok (base : Nat → W) (op : ROp) (p q : Poly) (t : Tbl) (hwf : WF t NV)
    (hp : PB (NV + t.length) p) (hq : PB (NV + t.length) q) :
    NormOK base t (aluR op (evalPoly (envL base t NV) p) (evalPoly (envL base t NV) q))
      (intern (op, p, q) t).1 (intern (op, p, q) t).2 := by
  unfold intern
  split
  · next j hj =>
    obtain ⟨i, rfl, hi⟩ := lookup_some _ _ _ _ hj
    have hlt := WF_getElem (k := NV) hi
    refine ⟨⟨[], by simp⟩, hwf, ?_, ?_⟩
    · show PB (NV + t.length) (pvar (NV + i))
      exact PB_pvar (by omega)
    · show evalPoly (envL base t NV) (pvar (NV + i)) = _
      simp only [evalPoly_pvar]
      rw [envL_node t base NV i _ hwf hi]; rfl
  · have hwf' : WF (t ++ [(op, p, q)]) NV := by
      intro i nd hi
      rcases Nat.lt_or_ge i t.length with h' | h'
      · rw [List.getElem?_append_left h'] at hi
        exact hwf i nd hi
      · rw [List.getElem?_append_right h'] at hi
        have : i - t.length = 0 := by
          rcases Nat.eq_zero_or_pos (i - t.length) with h0 | h0
          · exact h0
          · rw [List.getElem?_eq_none (by simp; omega)] at hi; cases hi
        rw [this] at hi
        simp at hi; subst hi
        have e : i = t.length := by omega
        subst e
        exact ⟨hp, hq⟩
    refine ⟨⟨[(op, p, q)], rfl⟩, hwf', ?_, ?_⟩
    · show PB (NV + (t ++ [(op, p, q)]).length) (pvar (NV + t.length))
      exact PB_pvar (by simp)
    · show evalPoly (envL base (t ++ [(op, p, q)]) NV) (pvar (NV + t.length)) = _
      simp only [evalPoly_pvar]
      rw [envL_node (t ++ [(op, p, q)]) base NV t.length (op, p, q) hwf' (by simp)]
      simp only [nodeVal]
      rw [evalPoly_envL_append base t _ NV hp, evalPoly_envL_append base t _ NV hq]

theorem mkNode_ok (base : Nat → W) (op : ROp) (p q : Poly) (t : Tbl) (hwf : WF t NV)
    (hp : PB (NV + t.length) p) (hq : PB (NV + t.length) q) :
    NormOK base t (aluR op (evalPoly (envL base t NV) p) (evalPoly (envL base t NV) q))
      (mkNode op p q t).1 (mkNode op p q t).2 := by
  unfold mkNode
  split
  · next a b ha hb =>
    refine ⟨⟨[], by simp⟩, hwf, PB_pnorm (PB_pconst _ _), ?_⟩
    simp only [evalPoly_pnorm, evalPoly_pconst, BitVec.ofInt_toInt, isConst_ev _ ha, isConst_ev _ hb]
  · split
    · next r hr =>
      obtain ⟨hmem, hev⟩ := simpNode_ok (envL base t NV) hr
      refine ⟨⟨[], by simp⟩, hwf, ?_, hev⟩
      rcases hmem with rfl | rfl | rfl
      · exact hp
      · exact hq
      · exact PB_nil _
    · exact intern_ok base op p q t hwf hp hq

theorem NormOK.trans_ev {base : Nat → W} {t t1 t2 : Tbl} {x : W} {p : Poly}
    (h1 : NormOK base t x t1 p) (h2 : ∃ e, t2 = t1 ++ e) :
    evalPoly (envL base t2 NV) p = x ∧ PB (NV + t2.length) p := by
  obtain ⟨e, rfl⟩ := h2
  refine ⟨?_, PB_mono h1.pb (by simp)⟩
  rw [evalPoly_envL_append base t1 e NV h1.pb, h1.ev]

theorem norm_ok (base : Nat → W) (x : T) : ∀ (t t' : Tbl) (p : Poly), WF t NV → norm x t = some (t', p) →
    NormOK base t (den base x) t' p := by
  induction x with
  | var i =>
    intro t t' p hwf h
    unfold norm at h
    split at h
    · next hi =>
      cases h
      refine ⟨⟨[], by simp⟩, hwf, PB_pvar (by omega), ?_⟩
      simp only [evalPoly_pvar, den]
      exact envL_lt t base NV i hi
    · cases h
  | const c =>
    intro t t' p hwf h
    unfold norm at h
    cases h
    exact ⟨⟨[], by simp⟩, hwf, PB_pnorm (PB_pconst _ _), by simp [evalPoly_pnorm, den, imm32]⟩
  | bin op a b iha ihb =>
    intro t t' p hwf h
    unfold norm at h
    split at h
    · cases h
    · next t1 pa ha =>
      have A := iha t t1 pa hwf ha
      split at h
      · cases h
      · next t2 pb hb =>
        have B := ihb t1 t2 pb A.wf hb
        obtain ⟨e1, he1⟩ := A.grow
        obtain ⟨e2, he2⟩ := B.grow
        obtain ⟨hAev, hApb⟩ := A.trans_ev B.grow
        have hgrow2 : ∃ e, t2 = t ++ e := ⟨e1 ++ e2, by rw [he2, he1, List.append_assoc]⟩
        have key : ∀ r, PB (NV + t2.length) r →
            evalPoly (envL base t2 NV) r = aluR op (den base a) (den base b) →
            NormOK base t (den base (.bin op a b)) t2 r :=
          fun r hr hev => ⟨hgrow2, B.wf, hr, by simpa [den] using hev⟩
        have M := mkNode_ok base op pa pb t2 B.wf hApb B.pb
        rw [hAev, B.ev] at M
        have keyM : some (mkNode op pa pb t2) = some (t', p) →
            NormOK base t (den base (.bin op a b)) t' p := by
          intro hm
          have e : mkNode op pa pb t2 = (t', p) := Option.some.inj hm
          have M' : NormOK base t2 (aluR op (den base a) (den base b)) t' p := by rw [e] at M; exact M
          obtain ⟨e3, he3⟩ := M'.grow
          exact ⟨⟨e1 ++ e2 ++ e3, by rw [he3, he2, he1]; simp [List.append_assoc]⟩, M'.wf, M'.pb, by
            simpa [den] using M'.ev⟩
        cases op
        case add =>
          simp only at h; cases h
          exact key _ (PB_pnorm (PB_padd hApb B.pb)) (by
            rw [evalPoly_pnorm, evalPoly_padd, hAev, B.ev]; rfl)
        case sub =>
          simp only at h; cases h
          exact key _ (PB_pnorm (PB_padd hApb (PB_pneg B.pb))) (by
            rw [evalPoly_pnorm, evalPoly_padd, evalPoly_pneg, hAev, B.ev]
            simp only [aluR, BitVec.sub_eq_add_neg])
        case mul =>
          simp only at h
          split at h
          · next r hr =>
            cases h
            exact key _ (PB_pnorm (PB_pmul? hr hApb B.pb)) (by
              rw [evalPoly_pnorm, evalPoly_pmul? _ _ _ _ hr, hAev, B.ev]; rfl)
          · cases h
        all_goals exact keyM h

theorem WF_nil (k : Nat) : WF [] k := by intro i nd h; simp at h

/-- pairs that normalise to the same polynomial (in one shared table) denote the same value -/
theorem checkPairs_sound (base : Nat → W) (ps : List (T × T)) : ∀ (t : Tbl), WF t NV →
    checkPairs ps t = true → ∀ xy ∈ ps, den base xy.1 = den base xy.2 := by
  induction ps with
  | nil => intro t _ _ xy h; cases h
  | cons hd r ih =>
    obtain ⟨x, y⟩ := hd
    intro t hwf h xy hmem
    unfold checkPairs at h
    split at h
    · cases h
    · next t1 p hx =>
      split at h
      · cases h
      · next t2 q hy =>
        simp only [Bool.and_eq_true, beq_iff_eq] at h
        obtain ⟨hpq, hrest⟩ := h
        have A := norm_ok base x t t1 p hwf hx
        have B := norm_ok base y t1 t2 q A.wf hy
        simp only [List.mem_cons] at hmem
        rcases hmem with rfl | hmem
        · obtain ⟨hAev, _⟩ := A.trans_ev B.grow
          show den base x = den base y
          rw [← hAev, ← B.ev, hpq]
        · exact ih t2 B.wf hrest xy hmem

end Xdsl.RiscV.TV
