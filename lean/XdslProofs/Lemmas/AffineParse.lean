import XdslProofs.Lemmas.AffineSubst
import Std.Data.String.ToNat
/-!
Lemmas for the print / parse round trip of affine expressions (C26): token level
(`parsePrimary (toToks e ++ rest)`) and character level (`lex (toStr e) = toToks e`).
-/
namespace Xdsl.Affine

/-- `e.replace_dims_and_symbols((), ())`: the tree rebuilt bottom-up with the smart constructors —
what re-parsing the fully parenthesised text computes -/
def rebuild (e : Expr) : R Expr := replace [] [] e

/-- all positions are names of the affine space `(d0..d{nd-1})[s0..s{ns-1}]` -/
def PosLt (nd ns : Nat) : Expr → Prop
  | .const _ => True
  | .dim p => p < nd
  | .sym p => p < ns
  | .bin _ l r => PosLt nd ns l ∧ PosLt nd ns r

def size : Expr → Nat
  | .bin _ l r => size l + size r + 1
  | _ => 1

/-- the operator token `toToks` emits for a kind -/
def opTok : Kind → Tok
  | .add => .plus
  | .mul => .star
  | k => .ident k.token

theorem toToks_bin (k : Kind) (l r : Expr) :
    toToks (.bin k l r) = .lp :: (toToks l ++ opTok k :: (toToks r ++ [.rp])) := by
  cases k <;> simp [toToks, opTok]

theorem createBinop_opTok (k : Kind) (l r : Expr) : createBinop l r (opTok k) = mkBin k l r := by
  cases k <;> simp [createBinop, opTok, mkBin, Kind.token] <;> rfl

theorem tokPrec_opTok (k : Kind) : 10 ≤ tokPrec (some (opTok k)) := by
  cases k <;> simp [tokPrec, opTok, Kind.token]

/-! ### identifiers -/

theorem idxOf?_map_range {g : Nat → String} (hg : ∀ i j, g i = g j → i = j) {n p : Nat} (hp : p < n) :
    ((List.range n).map g).idxOf? (g p) = some p := by
  unfold List.idxOf?
  rw [List.findIdx?_eq_some_iff_getElem]
  refine ⟨by simpa using hp, by simp, fun j hj => ?_⟩
  simp only [List.getElem_map, List.getElem_range, beq_iff_eq]
  intro h
  have := hg _ _ h
  omega

theorem idxOf?_map_range_none {g : Nat → String} {s : String} (hs : ∀ i, g i ≠ s) (n : Nat) :
    ((List.range n).map g).idxOf? s = none := by
  rw [List.idxOf?_eq_none_iff]
  simp only [List.mem_map, List.mem_range, not_exists, not_and]
  intro i _ h
  exact hs i h

theorem dname_inj (c : String) (i j : Nat) (h : c ++ toString i = c ++ toString j) : i = j := by
  have := (String.append_right_inj c).1 h
  exact Nat.repr_inj.1 this

theorem d_ne_s (i j : Nat) : "d" ++ toString i ≠ "s" ++ toString j := by
  intro h
  have := congrArg String.toList h
  simp at this

theorem resolveId_dim {nd : Nat} (ns : Nat) {p : Nat} (hp : p < nd) :
    resolveId nd ns ("d" ++ toString p) = .ok (.dim p) := by
  unfold resolveId dimNames
  rw [idxOf?_map_range (g := fun i => "d" ++ toString i) (dname_inj "d") hp]
  rfl

theorem resolveId_sym (nd : Nat) {ns : Nat} {p : Nat} (hp : p < ns) :
    resolveId nd ns ("s" ++ toString p) = .ok (.sym p) := by
  unfold resolveId dimNames symNames
  rw [idxOf?_map_range_none (g := fun i => "d" ++ toString i) (fun i => d_ne_s i p),
    idxOf?_map_range (g := fun i => "s" ++ toString i) (dname_inj "s") hp]
  rfl

/-! ### token level -/

theorem except_map_bind {α β γ : Type} (x : R α) (f : α → R β) (g : β → γ) :
    (x >>= f).map g = x >>= fun a => (f a).map g := by
  cases x <;> rfl

/-- parsing the tokens of `e` (followed by anything) as a primary expression consumes exactly those
tokens and yields the rebuilt tree — or the exception rebuilding raises. -/
theorem parsePrimary_toToks {nd ns : Nat} (e : Expr) (h : PosLt nd ns e) (rest : List Tok)
    (fuel : Nat) (hf : 3 * size e ≤ fuel) :
    parsePrimary nd ns fuel (toToks e ++ rest) = (rebuild e).map (fun x => (x, rest)) := by
  induction e generalizing rest fuel with
  | const v =>
    obtain ⟨f, rfl⟩ : ∃ f, fuel = f + 2 := ⟨fuel - 2, by simp [size] at hf; omega⟩
    by_cases hv : v < 0
    · simp only [toToks, hv, if_true, List.cons_append, List.nil_append, parsePrimary, bind,
        Except.bind, pure, Except.pure, mkNeg, rebuild, replace, Except.map]
      congr 3
      omega
    · simp only [toToks, hv, if_false, List.cons_append, List.nil_append, parsePrimary,
        pure, Except.pure, rebuild, replace, Except.map]
      congr 3
      omega
  | dim p =>
    obtain ⟨f, rfl⟩ : ∃ f, fuel = f + 1 := ⟨fuel - 1, by simp [size] at hf; omega⟩
    simp only [toToks, List.cons_append, List.nil_append, parsePrimary, resolveId_dim ns h, bind,
      Except.bind, pure, Except.pure, rebuild, replace, Except.map]
    simp
  | sym p =>
    obtain ⟨f, rfl⟩ : ∃ f, fuel = f + 1 := ⟨fuel - 1, by simp [size] at hf; omega⟩
    simp only [toToks, List.cons_append, List.nil_append, parsePrimary, resolveId_sym nd h, bind,
      Except.bind, pure, Except.pure, rebuild, replace, Except.map]
    simp
  | bin k l r ihl ihr =>
    obtain ⟨hl, hr⟩ := h
    simp only [size] at hf
    obtain ⟨f, rfl⟩ : ∃ f, fuel = f + 4 := ⟨fuel - 4, by have := (show 1 ≤ size l by cases l <;> simp [size]); omega⟩
    rw [toToks_bin]
    simp only [List.cons_append, List.append_assoc, parsePrimary, parseExpr, bind, Except.bind]
    rw [ihl hl _ _ (by omega)]
    unfold rebuild at *
    simp only [replace, bind, Except.bind]
    cases hle : replace [] [] l with
    | error x => rfl
    | ok l' =>
      simp only [Except.map]
      have hp := tokPrec_opTok k
      have hnlt : ¬ tokPrec (some (opTok k)) < 0 := by omega
      simp only [parseBinopRhs, List.head?_cons, hnlt, if_false, bind, Except.bind]
      rw [ihr hr _ _ (by omega)]
      cases hre : replace [] [] r with
      | error x => rfl
      | ok r' =>
        have hrp : ¬ tokPrec (some (opTok k)) < tokPrec (some Tok.rp) := by
          have h1 : tokPrec (some Tok.rp) = -1 := rfl
          rw [h1]; omega
        simp only [Except.map, List.head?_cons, hrp, if_false, pure, Except.pure,
          createBinop_opTok]
        cases hm : mkBin k l' r' with
        | error x => rfl
        | ok m =>
          have : tokPrec (some Tok.rp) < 0 := by simp [tokPrec]
          simp [this]

/-! ### character level -/

/-- what may follow a printed sub-expression: end of text, a space or a closing parenthesis -/
def Boundary (rest : List Char) : Prop := ∀ c, rest.head? = some c → c = ' ' ∨ c = ')'

theorem Boundary.nil : Boundary [] := by intro c h; simp at h
theorem Boundary.space (cs : List Char) : Boundary (' ' :: cs) := by
  intro c h; simp at h; exact Or.inl h.symm
theorem Boundary.rp (cs : List Char) : Boundary (')' :: cs) := by
  intro c h; simp at h; exact Or.inr h.symm

theorem Boundary.takeWhile_digit {rest : List Char} (h : Boundary rest) :
    rest.takeWhile Char.isDigit = [] ∧ rest.dropWhile Char.isDigit = rest := by
  cases rest with
  | nil => simp
  | cons c cs =>
    rcases h c rfl with rfl | rfl <;> simp [List.takeWhile, List.dropWhile] <;> decide

theorem Boundary.takeWhile_ident {rest : List Char} (h : Boundary rest) :
    rest.takeWhile isIdentCont = [] ∧ rest.dropWhile isIdentCont = rest := by
  cases rest with
  | nil => simp
  | cons c cs =>
    have h1 : isIdentCont ' ' = false := by decide
    have h2 : isIdentCont ')' = false := by decide
    rcases h c rfl with rfl | rfl <;> simp [List.takeWhile, List.dropWhile, h1, h2]

/-- a character that starts a number in `lexAux` (none of the earlier branches applies) -/
def numStart (c : Char) : Bool :=
  !(c == ' ') && !(c == '(') && !(c == ')') && !(c == '+') && !(c == '-') && !(c == '*') && c.isDigit

/-- a character that starts an identifier in `lexAux` -/
def wordStart (c : Char) : Bool :=
  !(c == ' ') && !(c == '(') && !(c == ')') && !(c == '+') && !(c == '-') && !(c == '*')
    && !c.isDigit && isIdentStart c && isIdentCont c

theorem numStart_of_isDigit {c : Char} (h : c.isDigit = true) : numStart c = true := by
  have h' := h
  simp only [Char.isDigit, Bool.and_eq_true, decide_eq_true_eq] at h'
  have ne : ∀ x : Char, x.isDigit = false → (c == x) = false := by
    intro x hx
    cases hcx : c == x with
    | false => rfl
    | true => rw [beq_iff_eq] at hcx; subst hcx; rw [h] at hx; cases hx
  simp [numStart, h, ne ' ' (by decide), ne '(' (by decide), ne ')' (by decide), ne '+' (by decide),
    ne '-' (by decide), ne '*' (by decide)]

theorem isIdentCont_of_isDigit {c : Char} (h : c.isDigit = true) : isIdentCont c = true := by
  simp [isIdentCont, Char.isAlphanum, h]

theorem lexAux_number (n : Nat) {rest : List Char} (hb : Boundary rest) (acc : List Tok) (fuel : Nat) :
    lexAux (fuel + 1) (Nat.toDigits 10 n ++ rest) acc = lexAux fuel rest (.int n :: acc) := by
  have hd : ∀ c ∈ Nat.toDigits 10 n, c.isDigit = true :=
    fun c hc => Nat.isDigit_of_mem_toDigits (by omega) (by omega) hc
  cases hds : Nat.toDigits 10 n with
  | nil => exact absurd hds Nat.toDigits_ne_nil
  | cons c cs =>
    have hc : numStart c = true := numStart_of_isDigit (hd c (by rw [hds]; simp))
    simp only [numStart, Bool.and_eq_true, Bool.not_eq_true', beq_eq_false_iff_ne] at hc
    obtain ⟨⟨⟨⟨⟨⟨h1, h2⟩, h3⟩, h4⟩, h5⟩, h6⟩, h7⟩ := hc
    have htw : (c :: (cs ++ rest)).takeWhile Char.isDigit = c :: cs := by
      have := List.takeWhile_append_of_pos (p := Char.isDigit) (l₁ := c :: cs) (l₂ := rest)
        (by rw [← hds]; exact hd)
      rw [hb.takeWhile_digit.1] at this
      simpa using this
    have hdw : (c :: (cs ++ rest)).dropWhile Char.isDigit = rest := by
      have := List.dropWhile_append_of_pos (p := Char.isDigit) (l₁ := c :: cs) (l₂ := rest)
        (by rw [← hds]; exact hd)
      rw [hb.takeWhile_digit.2] at this
      simpa using this
    have hval : digitsVal (c :: cs) = n := by
      rw [← hds]; exact Nat.ofDigitChars_ten_toDigits
    simp only [List.cons_append, lexAux, beq_iff_eq, h1, h2, h3, h4, h5, h6, h7, if_false, if_true,
      htw, hdw, hval]

theorem lexAux_word (c : Char) (ws : List Char) (hc : wordStart c = true)
    (hws : ∀ x ∈ ws, isIdentCont x = true) {rest : List Char} (hb : Boundary rest)
    (acc : List Tok) (fuel : Nat) :
    lexAux (fuel + 1) (c :: ws ++ rest) acc = lexAux fuel rest (.ident (String.ofList (c :: ws)) :: acc) := by
  simp only [wordStart, Bool.and_eq_true, Bool.not_eq_true', beq_eq_false_iff_ne] at hc
  obtain ⟨⟨⟨⟨⟨⟨⟨⟨h1, h2⟩, h3⟩, h4⟩, h5⟩, h6⟩, h7⟩, h8⟩, h9⟩ := hc
  have hall : ∀ x ∈ c :: ws, isIdentCont x = true := by
    intro x hx
    cases hx with
    | head => exact h9
    | tail _ hx => exact hws x hx
  have htw : (c :: (ws ++ rest)).takeWhile isIdentCont = c :: ws := by
    have := List.takeWhile_append_of_pos (p := isIdentCont) (l₁ := c :: ws) (l₂ := rest) hall
    rw [hb.takeWhile_ident.1] at this
    simpa using this
  have hdw : (c :: (ws ++ rest)).dropWhile isIdentCont = rest := by
    have := List.dropWhile_append_of_pos (p := isIdentCont) (l₁ := c :: ws) (l₂ := rest) hall
    rw [hb.takeWhile_ident.2] at this
    simpa using this
  simp only [List.cons_append, lexAux, beq_iff_eq, h1, h2, h3, h4, h5, h6, h7, h8, if_false, if_true,
    htw, hdw, Bool.false_eq_true]

theorem digits_identCont (n : Nat) : ∀ x ∈ Nat.toDigits 10 n, isIdentCont x = true :=
  fun x hx => isIdentCont_of_isDigit (Nat.isDigit_of_mem_toDigits (by omega) (by omega) hx)

/-- number of `lexAux` iterations spent on the text of `e` -/
def steps : Expr → Nat
  | .const v => if v < 0 then 2 else 1
  | .bin _ l r => steps l + steps r + 5
  | _ => 1

theorem toList_toString_nat (n : Nat) : (toString n).toList = Nat.toDigits 10 n := Nat.toList_repr

theorem lexAux_opTok (k : Kind) (cs : List Char) (acc : List Tok) (fuel : Nat) :
    lexAux (fuel + 1) (k.token.toList ++ ' ' :: cs) acc = lexAux fuel (' ' :: cs) (opTok k :: acc) := by
  cases k with
  | add => simp [Kind.token, lexAux, opTok]
  | mul => simp [Kind.token, lexAux, opTok]
  | mod =>
    have := lexAux_word 'm' ['o', 'd'] (by decide) (by decide) (Boundary.space cs) acc fuel
    simpa [Kind.token, opTok] using this
  | floordiv =>
    have := lexAux_word 'f' ['l', 'o', 'o', 'r', 'd', 'i', 'v'] (by decide) (by decide)
      (Boundary.space cs) acc fuel
    simpa [Kind.token, opTok] using this
  | ceildiv =>
    have := lexAux_word 'c' ['e', 'i', 'l', 'd', 'i', 'v'] (by decide) (by decide)
      (Boundary.space cs) acc fuel
    simpa [Kind.token, opTok] using this

/-- lexing the printed text of `e` (followed by a boundary) yields exactly the tokens of `e` -/
theorem lexAux_toStr (e : Expr) {rest : List Char} (hb : Boundary rest) (acc : List Tok) (fuel : Nat) :
    lexAux (fuel + steps e) ((toStr e).toList ++ rest) acc
      = lexAux fuel rest ((toToks e).reverse ++ acc) := by
  induction e generalizing rest acc fuel with
  | const v =>
    cases v with
    | ofNat m =>
      have hv : ¬ ((Int.ofNat m) < 0) := by simp
      simp only [steps, toToks, hv, if_false, toStr]
      have : (toString (Int.ofNat m)).toList = Nat.toDigits 10 m := Nat.toList_repr
      rw [this, lexAux_number m hb]
      simp
    | negSucc m =>
      have hv : (Int.negSucc m) < 0 := Int.negSucc_lt_zero m
      simp only [steps, toToks, hv, if_true, toStr]
      have : (toString (Int.negSucc m)).toList = '-' :: Nat.toDigits 10 (m + 1) := by
        show ("-" ++ Nat.repr (m + 1)).toList = _
        simp [Nat.toList_repr]
      rw [this]
      have h2 : fuel + 2 = (fuel + 1) + 1 := rfl
      rw [h2]
      simp only [List.cons_append, lexAux]
      simp only [show ('-' == ' ') = false from rfl, show ('-' == '(') = false from rfl,
        show ('-' == ')') = false from rfl, show ('-' == '+') = false from rfl,
        show ('-' == '-') = true from rfl, if_true, Bool.false_eq_true, if_false]
      rw [lexAux_number (m + 1) hb]
      simp [Int.natAbs]
  | dim p =>
    simp only [steps, toToks, toStr, String.toList_append, toList_toString_nat]
    have := lexAux_word 'd' (Nat.toDigits 10 p) (by decide) (digits_identCont p) hb acc fuel
    have hs : String.ofList ('d' :: Nat.toDigits 10 p) = "d" ++ toString p := by
      rw [← String.toList_inj]; simp
    rw [hs] at this
    simpa using this
  | sym p =>
    simp only [steps, toToks, toStr, String.toList_append, toList_toString_nat]
    have := lexAux_word 's' (Nat.toDigits 10 p) (by decide) (digits_identCont p) hb acc fuel
    have hs : String.ofList ('s' :: Nat.toDigits 10 p) = "s" ++ toString p := by
      rw [← String.toList_inj]; simp
    rw [hs] at this
    simpa using this
  | bin k l r ihl ihr =>
    rw [toToks_bin]
    simp only [steps, toStr, String.toList_append, List.append_assoc]
    have e1 : ("(" : String).toList = ['('] := rfl
    have e2 : (" " : String).toList = [' '] := rfl
    have e3 : (")" : String).toList = [')'] := rfl
    rw [e1, e2, e3]
    have hf : fuel + (steps l + steps r + 5) = ((((fuel + 1) + steps r) + 1 + 1 + 1) + steps l) + 1 := by
      omega
    rw [hf]
    simp only [List.cons_append, List.nil_append]
    -- '('
    rw [show lexAux (((((fuel + 1) + steps r) + 1 + 1 + 1) + steps l) + 1)
          ('(' :: ((toStr l).toList ++ ' ' :: (k.token.toList ++ ' ' :: ((toStr r).toList ++ ')' :: rest)))) acc
        = lexAux ((((fuel + 1) + steps r) + 1 + 1 + 1) + steps l)
          ((toStr l).toList ++ ' ' :: (k.token.toList ++ ' ' :: ((toStr r).toList ++ ')' :: rest))) (.lp :: acc)
        from by simp [lexAux]]
    rw [ihl (Boundary.space _)]
    -- ' '
    rw [show lexAux ((fuel + 1) + steps r + 1 + 1 + 1)
          (' ' :: (k.token.toList ++ ' ' :: ((toStr r).toList ++ ')' :: rest))) ((toToks l).reverse ++ .lp :: acc)
        = lexAux ((fuel + 1) + steps r + 1 + 1)
          (k.token.toList ++ ' ' :: ((toStr r).toList ++ ')' :: rest)) ((toToks l).reverse ++ .lp :: acc)
        from by simp [lexAux]]
    rw [lexAux_opTok]
    rw [show lexAux ((fuel + 1) + steps r + 1)
          (' ' :: ((toStr r).toList ++ ')' :: rest)) (opTok k :: ((toToks l).reverse ++ .lp :: acc))
        = lexAux ((fuel + 1) + steps r)
          ((toStr r).toList ++ ')' :: rest) (opTok k :: ((toToks l).reverse ++ .lp :: acc))
        from by simp [lexAux]]
    rw [ihr (Boundary.rp _)]
    rw [show lexAux (fuel + 1) (')' :: rest) ((toToks r).reverse ++ opTok k :: ((toToks l).reverse ++ .lp :: acc))
        = lexAux fuel rest (.rp :: ((toToks r).reverse ++ opTok k :: ((toToks l).reverse ++ .lp :: acc)))
        from by simp [lexAux]]
    simp

theorem steps_le_length (e : Expr) : steps e ≤ (toStr e).length := by
  induction e with
  | const v =>
    cases v with
    | ofNat m =>
      have : 0 < (Nat.repr m).length := Nat.length_repr_pos
      have hv : ¬ ((Int.ofNat m) < 0) := by simp
      simp only [steps, hv, if_false, toStr]
      exact this
    | negSucc m =>
      have : 0 < (Nat.repr (m + 1)).length := Nat.length_repr_pos
      have hv : (Int.negSucc m) < 0 := Int.negSucc_lt_zero m
      simp only [steps, hv, if_true, toStr]
      show 2 ≤ ("-" ++ Nat.repr (m + 1)).length
      have l1 : ("-" : String).length = 1 := by decide
      simp [String.length_append, l1]; omega
  | dim p =>
    have l1 : ("d" : String).length = 1 := by decide
    simp [steps, toStr, String.length_append, l1]
  | sym p =>
    have l1 : ("s" : String).length = 1 := by decide
    simp [steps, toStr, String.length_append, l1]
  | bin k l r ihl ihr =>
    have : 1 ≤ k.token.length := by cases k <;> decide
    have l1 : ("(" : String).length = 1 := by decide
    have l2 : (" " : String).length = 1 := by decide
    have l3 : (")" : String).length = 1 := by decide
    simp [steps, toStr, String.length_append, l1, l2, l3]; omega

/-- `lex (str e)` is the token sequence of `e` -/
theorem lex_toStr (e : Expr) : lex (toStr e) = .ok (toToks e) := by
  unfold lex
  have h := steps_le_length e
  obtain ⟨f, hf⟩ : ∃ f, (toStr e).length + 1 = (f + 1) + steps e := ⟨(toStr e).length - steps e, by omega⟩
  have := lexAux_toStr e Boundary.nil [] (f + 1)
  rw [List.append_nil] at this
  rw [hf, this]
  simp [lexAux, pure, Except.pure]

theorem mkMul_const_ok' (a : Expr) (c : Int) :
    (∃ e, mkMul a (.const c) = .ok e) ∧ (∃ e, mkMul (.const c) a = .ok e) := by
  constructor
  · cases a <;> exact ⟨_, rfl⟩
  · exact ⟨_, rfl⟩

theorem mkDiv_const_ok' {k : Kind} (hk : k.isDivLike = true) (a : Expr) {y : Int} (hy : y ≠ 0) :
    ∃ e, mkDiv k a (.const y) = .ok e := by
  unfold mkDiv
  cases a with
  | const x => cases k <;> simp_all [foldConst, Kind.isDivLike, pure, Except.pure]
  | _ => simp [pure, Except.pure]

end Xdsl.Affine
