import XdslModel.Skeleton
/-!
Only the names of the identities that occur in an IR matter for its printed form; a naming that is
injective on them extends to an injective naming.
-/
namespace Xdsl.Skeleton

/-- the identities of values occurring in a tree (definitions and uses) -/
def vals : IR → List Nat
  | .nil => []
  | .op h rs nx => h.results ++ (h.operands ++ (vals rs ++ vals nx))
  | .region bs nx => vals bs ++ vals nx
  | .block _ args ops nx => args.map (·.1) ++ (vals ops ++ vals nx)

/-- the identities of blocks occurring in a tree (blocks and successor references) -/
def blks : IR → List Nat
  | .nil => []
  | .op h rs nx => h.succs ++ (blks rs ++ blks nx)
  | .region bs nx => blks bs ++ blks nx
  | .block b _ ops nx => b :: (blks ops ++ blks nx)

theorem map_congr_mem {α β : Type} (f g : α → β) (l : List α) (h : ∀ x ∈ l, f x = g x) :
    l.map f = l.map g := List.map_congr_left h

theorem nameT_congr (nv nb nv' nb' : Nat → Str) (t : IR) :
    ∀ e, (∀ x ∈ vals t, nv x = nv' x) → (∀ x ∈ blks t, nb x = nb' x) →
      nameT nv nb e t = nameT nv' nb' e t := by
  induction t with
  | nil => intro e _ _; rfl
  | op h rs nx ihr ihn =>
    intro e hv hb
    simp only [vals, blks, List.mem_append] at hv hb
    simp only [nameT, Hdr.map]
    rw [ihr false (fun x hx => hv x (Or.inr (Or.inr (Or.inl hx)))) (fun x hx => hb x (Or.inr (Or.inl hx))),
      ihn false (fun x hx => hv x (Or.inr (Or.inr (Or.inr hx)))) (fun x hx => hb x (Or.inr (Or.inr hx))),
      map_congr_mem nv nv' h.results (fun x hx => hv x (Or.inl hx)),
      map_congr_mem nv nv' h.operands (fun x hx => hv x (Or.inr (Or.inl hx))),
      map_congr_mem nb nb' h.succs (fun x hx => hb x (Or.inl hx))]
  | region bs nx ihb ihn =>
    intro e hv hb
    simp only [vals, blks, List.mem_append] at hv hb
    simp only [nameT]
    rw [ihb true (fun x hx => hv x (Or.inl hx)) (fun x hx => hb x (Or.inl hx)),
      ihn false (fun x hx => hv x (Or.inr hx)) (fun x hx => hb x (Or.inr hx))]
  | block b args ops nx iho ihn =>
    intro e hv hb
    simp only [vals, blks, List.mem_append, List.mem_cons, List.mem_map] at hv hb
    simp only [nameT, mapArgs]
    rw [iho false (fun x hx => hv x (Or.inr (Or.inl hx))) (fun x hx => hb x (Or.inr (Or.inl hx))),
      ihn false (fun x hx => hv x (Or.inr (Or.inr hx))) (fun x hx => hb x (Or.inr (Or.inr hx))),
      hb b (Or.inl rfl),
      map_congr_mem (fun a : Nat × Opq => (nv a.1, a.2)) (fun a => (nv' a.1, a.2)) args
        (fun a ha => by rw [hv a.1 (Or.inl ⟨a, ha, rfl⟩)])]

/-- an upper bound of the lengths of the names given to `S` -/
def nameBound (nv : Nat → Str) (S : List Nat) : Nat := (S.map fun x => (nv x).length).foldr max 0

theorem le_nameBound (nv : Nat → Str) (S : List Nat) (x : Nat) (h : x ∈ S) :
    (nv x).length ≤ nameBound nv S := by
  induction S with
  | nil => cases h
  | cons a S ih =>
    simp only [nameBound, List.map_cons, List.foldr_cons]
    rcases List.mem_cons.mp h with rfl | h
    · exact Nat.le_max_left _ _
    · exact Nat.le_trans (ih h) (Nat.le_max_right _ _)

/-- `nv` on `S`, names longer than all of those elsewhere -/
def extend (nv : Nat → Str) (S : List Nat) (x : Nat) : Str :=
  if x ∈ S then nv x else List.replicate (nameBound nv S + 1 + x) 'a'

theorem extend_on (nv : Nat → Str) (S : List Nat) (x : Nat) (h : x ∈ S) : extend nv S x = nv x := by
  simp [extend, h]

theorem extend_injective (nv : Nat → Str) (S : List Nat)
    (hinj : ∀ x ∈ S, ∀ y ∈ S, nv x = nv y → x = y) : Function.Injective (extend nv S) := by
  intro x y h
  unfold extend at h
  by_cases hx : x ∈ S <;> by_cases hy : y ∈ S <;> simp only [hx, hy, if_true, if_false] at h
  · exact hinj x hx y hy h
  · have h1 := le_nameBound nv S x hx
    have h2 := congrArg List.length h
    simp only [List.length_replicate] at h2
    omega
  · have h1 := le_nameBound nv S y hy
    have h2 := congrArg List.length h
    simp only [List.length_replicate] at h2
    omega
  · have h2 := congrArg List.length h
    simp only [List.length_replicate] at h2
    omega

end Xdsl.Skeleton
