import XdslModel.PostOrder
import XdslProofs.Lemmas.Graph
/-!
Lemmas for C24 (post-order): invariant of the explicit-stack loop of `PostOrderIterator`, its
termination measure, and what the invariant gives once the stack is empty.
-/
namespace Xdsl.PostOrder
open Xdsl.Graph

/-- the blocks on the stack, top first -/
def nodes (st : List (Nat × Bool)) : List Nat := st.map Prod.fst

@[simp] theorem nodes_cons (e : Nat × Bool) (st : List (Nat × Bool)) :
    nodes (e :: st) = e.1 :: nodes st := rfl

@[simp] theorem nodes_append (a b : List (Nat × Bool)) : nodes (a ++ b) = nodes a ++ nodes b := by
  simp [nodes]

@[simp] theorem nodes_fresh (new : List Nat) : nodes (new.map fun x => (x, false)) = new := by
  simp [nodes, Function.comp_def]

/-- what the push loop does: it pushes a duplicate-free list `new` of unseen successors and marks
exactly those as seen (`new` is in push order reversed: its head is the new top of the stack) -/
theorem pushSuccs_spec (xs : List Nat) : ∀ s : St, ∃ new : List Nat,
    (pushSuccs xs s).stack = (new.map fun x => (x, false)) ++ s.stack
    ∧ (pushSuccs xs s).seen = new ++ s.seen
    ∧ new.Nodup ∧ (∀ x ∈ new, x ∈ xs ∧ x ∉ s.seen) ∧ (∀ x ∈ xs, x ∈ s.seen ∨ x ∈ new) := by
  induction xs with
  | nil => intro s; exact ⟨[], by simp [pushSuccs]⟩
  | cons x xs ih =>
    intro s
    unfold pushSuccs
    by_cases hx : s.seen.contains x = true
    · rw [if_pos hx]
      obtain ⟨new, h1, h2, h3, h4, h5⟩ := ih s
      have hx' : x ∈ s.seen := by simpa using hx
      refine ⟨new, h1, h2, h3, ?_, ?_⟩
      · intro y hy; exact ⟨List.mem_cons_of_mem _ (h4 y hy).1, (h4 y hy).2⟩
      · intro y hy
        rcases List.mem_cons.mp hy with rfl | hy
        · exact Or.inl hx'
        · exact h5 y hy
    · rw [if_neg hx]
      have hx' : x ∉ s.seen := by simpa using hx
      obtain ⟨new, h1, h2, h3, h4, h5⟩ := ih { stack := (x, false) :: s.stack, seen := x :: s.seen }
      refine ⟨new ++ [x], ?_, ?_, ?_, ?_, ?_⟩
      · rw [h1]; simp
      · rw [h2]; simp
      · rw [List.nodup_append]
        refine ⟨h3, by simp, ?_⟩
        intro a ha b hb
        have := (h4 a ha).2
        simp at hb this
        subst hb; exact this.1
      · intro y hy
        rcases List.mem_append.mp hy with hy | hy
        · have := h4 y hy
          simp only [List.mem_cons, not_or] at this
          exact ⟨List.mem_cons_of_mem _ this.1, this.2.2⟩
        · simp at hy; subst hy; exact ⟨by simp, hx'⟩
      · intro y hy
        rcases List.mem_cons.mp hy with rfl | hy
        · right; simp
        · rcases h5 y hy with h | h
          · simp only [List.mem_cons] at h
            rcases h with rfl | h
            · right; simp
            · exact Or.inl h
          · right; simp [h]

/-- cost of a stack entry in the termination measure -/
def cost (e : Nat × Bool) : Nat := if e.2 then 1 else 2

@[simp] theorem cost_true (b : Nat) : cost (b, true) = 1 := rfl
@[simp] theorem cost_false (b : Nat) : cost (b, false) = 2 := rfl

theorem sum_cost_fresh (new : List Nat) :
    ((new.map fun x => (x, false)).map cost).sum = 2 * new.length := by
  induction new with
  | nil => rfl
  | cons a l ih => simp only [List.map_cons, List.sum_cons, List.length_cons, ih, cost_false]; omega

/-- number of pops still to come is at most `measure` -/
def measure (n : Nat) (s : St) : Nat := 2 * (n - s.seen.length) + (s.stack.map cost).sum

/-- loop invariant; `out` holds the blocks yielded so far, most recent first -/
structure Inv (g : Graph) (r : Nat) (s : St) (out : List Nat) : Prop where
  nodup : (nodes s.stack ++ out).Nodup
  seen_iff : ∀ x, x ∈ s.seen ↔ x ∈ nodes s.stack ∨ x ∈ out
  seen_nodup : s.seen.Nodup
  reach : ∀ x ∈ s.seen, Reach g r x
  closed : ∀ x, (x ∈ out ∨ (x, true) ∈ s.stack) → ∀ y, Edge g x y → y ∈ s.seen
  root : (∃ st flag, s.stack = st ++ [(r, flag)]) ∨ (s.stack = [] ∧ ∃ o, out = r :: o)
  later : ∀ x, x ∈ out.reverse ++ nodes s.stack → x ≠ r →
    ∃ u, Edge g u x ∧ [x, u].Sublist (out.reverse ++ nodes s.stack) ∧ (u ∈ out ∨ (u, true) ∈ s.stack)

theorem inv_init (g : Graph) (r : Nat) : Inv g r (init r) [] where
  nodup := by simp [init, nodes]
  seen_iff := by simp [init, nodes]
  seen_nodup := by simp [init]
  reach := by intro x hx; simp [init] at hx; rw [hx]; exact Reach.refl g r
  closed := by intro x hx; simp [init] at hx
  root := Or.inl ⟨[], false, rfl⟩
  later := by intro x hx hne; simp [init, nodes] at hx; exact absurd hx hne

/-- pigeonhole: a duplicate-free list of numbers below `n` has at most `n` elements -/
theorem nodup_length_le : ∀ (n : Nat) (l : List Nat), l.Nodup → (∀ x ∈ l, x < n) → l.length ≤ n := by
  intro n
  induction n with
  | zero =>
    intro l _ h
    cases l with
    | nil => simp
    | cons a l => exact absurd (h a (by simp)) (by omega)
  | succ n ih =>
    intro l hnd h
    by_cases hn : n ∈ l
    · obtain ⟨s, t, rfl⟩ := List.append_of_mem hn
      have hnd' := (List.perm_middle.nodup_iff).mp hnd
      rw [List.nodup_cons] at hnd'
      have := ih (s ++ t) hnd'.2 (by
        intro x hx
        have h1 : x < n + 1 := h x (by simp only [List.mem_append, List.mem_cons] at hx ⊢; grind)
        have h2 : x ≠ n := fun e => hnd'.1 (e ▸ hx)
        omega)
      simp only [List.length_append, List.length_cons] at this ⊢
      omega
    · have := ih l hnd (by
        intro x hx
        have h1 := h x hx
        have h2 : x ≠ n := fun e => hn (e ▸ hx)
        omega)
      omega

theorem seen_length_le {g : Graph} (hwf : WF g) {r : Nat} (hr : r < g.length) {s : St}
    {out : List Nat} (hi : Inv g r s out) : s.seen.length ≤ g.length := by
  exact nodup_length_le _ _ hi.seen_nodup fun x hx => Reach.lt hwf hr (hi.reach x hx)

/-- popping an entry whose successors have been pushed: the block is yielded -/
theorem inv_pop_true {g : Graph} {r b : Nat} {rest : List (Nat × Bool)} {seen out : List Nat}
    (hi : Inv g r { stack := (b, true) :: rest, seen := seen } out) :
    Inv g r { stack := rest, seen := seen } (b :: out) where
  nodup := by
    have := hi.nodup
    simp only [nodes_cons, List.cons_append] at this
    exact (List.perm_middle.nodup_iff).mpr this
  seen_iff := by
    intro x
    have := hi.seen_iff x
    simp only [nodes_cons, List.mem_cons] at this ⊢
    rw [this]; grind
  seen_nodup := hi.seen_nodup
  reach := hi.reach
  closed := by
    intro x hx
    apply hi.closed x
    rcases hx with hx | hx
    · rcases List.mem_cons.mp hx with rfl | hx
      · right; simp
      · exact Or.inl hx
    · right; exact List.mem_cons_of_mem _ hx
  root := by
    rcases hi.root with ⟨st, flag, h⟩ | ⟨h, _⟩
    · cases st with
      | nil =>
        simp only [List.nil_append, List.cons.injEq, Prod.mk.injEq] at h
        obtain ⟨⟨rfl, _⟩, rfl⟩ := h
        exact Or.inr ⟨rfl, out, rfl⟩
      | cons e st =>
        simp only [List.cons_append, List.cons.injEq] at h
        exact Or.inl ⟨st, flag, h.2⟩
    · cases h
  later := by
    have e : (b :: out).reverse ++ nodes rest = out.reverse ++ nodes ((b, true) :: rest) := by simp
    intro x hx hne
    simp only at hx ⊢
    rw [e] at hx ⊢
    obtain ⟨u, h1, h2, h3⟩ := hi.later x hx hne
    refine ⟨u, h1, h2, ?_⟩
    rcases h3 with h3 | h3
    · exact Or.inl (List.mem_cons_of_mem _ h3)
    · rcases List.mem_cons.mp h3 with h3 | h3
      · left; simp only [Prod.mk.injEq] at h3; simp [h3.1]
      · exact Or.inr h3

/-- popping a fresh entry: it is re-pushed as visited under its unseen successors -/
theorem inv_pop_false {g : Graph} {r b : Nat} {rest : List (Nat × Bool)} {seen out new : List Nat}
    (hi : Inv g r { stack := (b, false) :: rest, seen := seen } out)
    (hnd : new.Nodup) (hnew : ∀ x ∈ new, x ∈ (succ g b).reverse ∧ x ∉ seen)
    (hall : ∀ x ∈ (succ g b).reverse, x ∈ seen ∨ x ∈ new) :
    Inv g r { stack := (new.map fun x => (x, false)) ++ (b, true) :: rest, seen := new ++ seen } out where
  nodup := by
    have h0 := hi.nodup
    simp only [nodes_cons] at h0
    simp only [nodes_append, nodes_fresh, nodes_cons, List.append_assoc]
    rw [List.nodup_append]
    refine ⟨hnd, h0, ?_⟩
    intro a ha c hc hac
    subst hac
    refine (hnew a ha).2 ((hi.seen_iff a).mpr ?_)
    simp only [nodes_cons, List.mem_cons, List.mem_append] at hc ⊢
    grind
  seen_iff := by
    intro x
    have := hi.seen_iff x
    simp only [nodes_cons, List.mem_cons] at this
    simp only [nodes_append, nodes_fresh, nodes_cons, List.mem_append, List.mem_cons]
    rw [this]; grind
  seen_nodup := by
    rw [List.nodup_append]
    refine ⟨hnd, hi.seen_nodup, ?_⟩
    intro a ha c hc hac
    subst hac
    exact (hnew a ha).2 hc
  reach := by
    intro x hx
    rcases List.mem_append.mp hx with hx | hx
    · have hb : Reach g r b := hi.reach b ((hi.seen_iff b).mpr (by simp))
      exact hb.step (List.mem_reverse.mp (hnew x hx).1)
    · exact hi.reach x hx
  closed := by
    intro x hx y e
    simp only [List.mem_append]
    rcases hx with hx | hx
    · exact Or.inr (hi.closed x (Or.inl hx) y e)
    · rcases List.mem_append.mp hx with hx | hx
      · simp at hx
      · rcases List.mem_cons.mp hx with hx | hx
        · simp only [Prod.mk.injEq, and_true] at hx
          subst hx
          rcases hall y (List.mem_reverse.mpr e) with h | h
          · exact Or.inr h
          · exact Or.inl h
        · exact Or.inr (hi.closed x (Or.inr (List.mem_cons_of_mem _ hx)) y e)
  root := by
    rcases hi.root with ⟨st, flag, h⟩ | ⟨h, _⟩
    · cases st with
      | nil =>
        simp only [List.nil_append, List.cons.injEq, Prod.mk.injEq] at h
        obtain ⟨⟨rfl, _⟩, rfl⟩ := h
        exact Or.inl ⟨new.map fun x => (x, false), true, rfl⟩
      | cons e st =>
        simp only [List.cons_append, List.cons.injEq] at h
        refine Or.inl ⟨(new.map fun x => (x, false)) ++ (b, true) :: st, flag, ?_⟩
        rw [h.2]; simp
    · cases h
  later := by
    intro x hx hne
    simp only [nodes_append, nodes_fresh, nodes_cons] at hx ⊢
    have hsub : (out.reverse ++ nodes ((b, false) :: rest)).Sublist
        (out.reverse ++ (new ++ b :: nodes rest)) := by
      apply List.Sublist.append_left
      simp only [nodes_cons]
      exact List.sublist_append_right _ _
    by_cases hxn : x ∈ new
    · refine ⟨b, List.mem_reverse.mp (hnew x hxn).1, ?_, Or.inr (by simp)⟩
      apply List.Sublist.trans _ (List.sublist_append_right _ _)
      have h1 : [x].Sublist new := List.singleton_sublist.mpr hxn
      have h2 : [b].Sublist (b :: nodes rest) := by simp
      exact h1.append h2
    · have hx' : x ∈ out.reverse ++ nodes ((b, false) :: rest) := by
        simp only [List.mem_append, List.mem_cons, nodes_cons] at hx ⊢
        grind
      obtain ⟨u, h1, h2, h3⟩ := hi.later x hx' hne
      refine ⟨u, h1, h2.trans hsub, ?_⟩
      rcases h3 with h3 | h3
      · exact Or.inl h3
      · right
        rcases List.mem_cons.mp h3 with h3 | h3
        · simp at h3
        · simp [h3]

/-- what the invariant says once the stack is empty -/
structure Final (g : Graph) (r : Nat) (out : List Nat) : Prop where
  nodup : out.Nodup
  mem_iff : ∀ x, x ∈ out ↔ Reach g r x
  last : ∃ o, out = r :: o
  later : ∀ x, x ∈ out → x ≠ r → ∃ u, Edge g u x ∧ [x, u].Sublist out.reverse

theorem final_of_inv {g : Graph} {r : Nat} {seen out : List Nat}
    (hi : Inv g r { stack := [], seen := seen } out) : Final g r out := by
  have hseen : ∀ x, x ∈ seen ↔ x ∈ out := by
    intro x; have := hi.seen_iff x; simpa [nodes] using this
  have hlast : ∃ o, out = r :: o := by
    rcases hi.root with ⟨st, flag, h⟩ | ⟨_, h⟩
    · simp at h
    · exact h
  refine ⟨by simpa [nodes] using hi.nodup, ?_, hlast, ?_⟩
  · intro x
    constructor
    · intro hx; exact hi.reach x ((hseen x).mpr hx)
    · rintro ⟨l, hl⟩
      induction hl with
      | root => obtain ⟨o, rfl⟩ := hlast; simp
      | snoc _ e ih => exact (hseen _).mp (hi.closed _ (Or.inl ih) _ e)
  · intro x hx hne
    obtain ⟨u, h1, h2, _⟩ := hi.later x (by simpa [nodes] using hx) hne
    exact ⟨u, h1, by simpa [nodes] using h2⟩

theorem run_spec {g : Graph} (hwf : WF g) {r : Nat} (hr : r < g.length) :
    ∀ (fuel : Nat) (s : St) (out : List Nat), Inv g r s out → measure g.length s < fuel →
    ∃ out', run g fuel s out = (out'.reverse, true) ∧ Final g r out' := by
  intro fuel
  induction fuel with
  | zero => intro s out _ h; omega
  | succ fuel ih =>
    intro s out hi hm
    obtain ⟨stack, seen⟩ := s
    cases stack with
    | nil => exact ⟨out, by simp [run, step], final_of_inv hi⟩
    | cons e rest =>
      obtain ⟨b, flag⟩ := e
      cases flag with
      | true =>
        have hi' := inv_pop_true hi
        have : run g (fuel + 1) { stack := (b, true) :: rest, seen := seen } out
            = run g fuel { stack := rest, seen := seen } (b :: out) := by simp [run, step]
        rw [this]
        apply ih _ _ hi'
        simp only [measure, List.map_cons, List.sum_cons, cost_true] at hm ⊢
        omega
      | false =>
        obtain ⟨new, h1, h2, h3, h4, h5⟩ :=
          pushSuccs_spec (succ g b).reverse { stack := (b, true) :: rest, seen := seen }
        have hi' := inv_pop_false hi h3 h4 h5
        have hlen := seen_length_le hwf hr hi'
        have : run g (fuel + 1) { stack := (b, false) :: rest, seen := seen } out
            = run g fuel (pushSuccs (succ g b).reverse { stack := (b, true) :: rest, seen := seen }) out := by
          simp [run, step]
        rw [this]
        have hs : pushSuccs (succ g b).reverse { stack := (b, true) :: rest, seen := seen }
            = { stack := (new.map fun x => (x, false)) ++ (b, true) :: rest, seen := new ++ seen } := by
          cases hp : pushSuccs (succ g b).reverse { stack := (b, true) :: rest, seen := seen }
          rw [hp] at h1 h2
          simp only at h1 h2
          rw [h1, h2]
        rw [hs]
        apply ih _ _ hi'
        have hcost := sum_cost_fresh new
        simp only [measure, List.map_cons, List.sum_cons, cost_true, cost_false, List.map_append,
          List.sum_append, hcost, List.length_append] at hm hlen ⊢
        omega

theorem measure_init (n r : Nat) (hn : 0 < n) : measure n (init r) < 2 * n + 1 := by
  simp only [measure, init, List.length_singleton, List.map_cons, List.map_nil, List.sum_cons,
    List.sum_nil, cost_false]
  omega

end Xdsl.PostOrder
