import XdslProofs.Lemmas.ParallelMovGraph
/-!
Lemmas for C20: the invariant of the lowering and the tree stage (`stage0`, `walkUp`, `stage1`).
-/
namespace Xdsl.ParallelMov

open Env

variable {n : Nat}

/-! ### emission -/

/-- `i` copies register `s` into register `d` -/
def IsMove (i : Instr) (d s : Reg) : Prop := ∀ (n : Nat) (ρ : RegFile n), step ρ i = wr ρ d (rd ρ s)

theorem emitMv_ok {st st' : St} {src v : Val} {dst : Reg} {w : Nat}
    (h : emitMv st src dst w = .ok (st', v)) :
    st'.results = st.results ∧ ∃ i, st'.ops = st.ops ++ [i] ∧ IsMove i dst src.reg := by
  unfold emitMv at h
  split at h
  · cases h
  · simp only [Except.ok.injEq, Prod.mk.injEq] at h
    obtain ⟨h1, _⟩ := h
    subst h1
    refine ⟨rfl, _, rfl, ?_⟩
    intro n ρ
    cases dst.kind <;> rfl

theorem exec_emit {ops : List Instr} {i : Instr} {d s : Reg} (hi : IsMove i d s) (ρ₀ : RegFile n) :
    exec (ops ++ [i]) ρ₀ = wr (exec ops ρ₀) d (rd (exec ops ρ₀) s) := by
  rw [exec_snoc, hi]

/-! ### the invariant shared by all stages -/

/-- `P` = destinations of the edges already performed.  `done`: they hold their source's old content;
`keep`: every other register (outside the designated free ones) is untouched; `closed`: a register is
overwritten only after all its out-edges were performed; `res`: `results[i]` is set exactly for
self-moves, moves into `zero`, and performed edges. -/
structure Inv (e : Env) (ρ₀ : RegFile n) (P : List Reg) (st : St) : Prop where
  sub : ∀ d ∈ P, ∃ s, Edge e s d
  done : ∀ d ∈ P, ∀ s, Edge e s d → rd (exec st.ops ρ₀) d = rd ρ₀ s
  keep : ∀ r, r ∉ P → r ∉ e.free → rd (exec st.ops ρ₀) r = rd ρ₀ r
  closed : ∀ d ∈ P, ∀ x, Edge e d x → x ∈ P
  len : st.results.length = e.moves.length
  res : ∀ i m, e.moves[i]? = some m →
    ((st.results.getD i none).isSome ↔ (m.src = m.dst ∨ m.dst = Reg.zero ∨ m.dst ∈ P))

theorem Edge.src_not_free {e : Env} (w : WF e) {s d : Reg} (h : Edge e s d) : s ∉ e.free := by
  obtain ⟨m, hm, hs, _, _, _⟩ := h
  intro hf
  exact ((w.freeOk s hf).2 m hm).1 hs

theorem Edge.dst_not_free {e : Env} (w : WF e) {s d : Reg} (h : Edge e s d) : d ∉ e.free := by
  obtain ⟨m, hm, _, hd, _, _⟩ := h
  intro hf
  exact ((w.freeOk d hf).2 m hm).2 hd

/-- the parent of an unprocessed node is unprocessed -/
theorem Inv.parent_unprocessed {e : Env} {ρ₀ : RegFile n} {P : List Reg} {st : St}
    (inv : Inv e ρ₀ P st) {s d : Reg} (h : Edge e s d) (hd : d ∉ P) : s ∉ P :=
  fun hs => hd (inv.closed s hs d h)

theorem getD_set_isSome {l : List (Option Val)} {i j : Nat} {v : Val} (hi : i < l.length) :
    ((l.set i (some v)).getD j none).isSome = (decide (j = i) || (l.getD j none).isSome) := by
  rw [List.getD_eq_getElem?_getD, List.getD_eq_getElem?_getD, List.getElem?_set]
  by_cases h : i = j
  · subst h; simp [hi]
  · have : ¬ j = i := fun e => h e.symm
    simp [h, this]

/-- Performing the edge `s → d` by a register copy, when all out-edges of `d` are done. -/
theorem Inv.process {e : Env} (w : WF e) {ρ₀ : RegFile n} {P : List Reg} {st st' : St}
    (inv : Inv e ρ₀ P st) {s d : Reg} (hE : Edge e s d) (hd : d ∉ P)
    (hch : ∀ x, Edge e d x → x ∈ P) {v : Val} {wd : Nat}
    (hemit : emitMv st ⟨.src, s⟩ d wd = .ok (st', v)) {i : Nat} (hi : e.outIdx d = some i) :
    Inv e ρ₀ (d :: P) (setResult st' i v) := by
  obtain ⟨hres, ins, hops, hmv⟩ := emitMv_ok hemit
  have hs : s ∉ P := inv.parent_unprocessed hE hd
  have hdz := hE.dst_ne_zero
  have hex : exec (setResult st' i v).ops ρ₀ = wr (exec st.ops ρ₀) d (rd ρ₀ s) := by
    show exec st'.ops ρ₀ = _
    rw [hops, exec_emit hmv, inv.keep s hs (hE.src_not_free w)]
  obtain ⟨m0, hm0, hm0d⟩ := outIdx_some hi
  have hilt : i < st.results.length := by
    rw [inv.len]
    exact (List.getElem?_eq_some_iff.mp hm0).1
  refine ⟨?_, ?_, ?_, ?_, ?_, ?_⟩
  · intro x hx
    rcases List.mem_cons.mp hx with rfl | hx
    · exact ⟨s, hE⟩
    · exact inv.sub x hx
  · intro x hx s' hs'
    rw [hex]
    rcases List.mem_cons.mp hx with rfl | hx
    · rw [rd_wr_same _ hdz, Edge.src_unique w hs' hE]
    · have : x ≠ d := fun e => hd (e ▸ hx)
      rw [rd_wr_ne _ this]
      exact inv.done x hx s' hs'
  · intro r hr hf
    rw [hex]
    have hrd : r ≠ d := fun e => hr (e ▸ List.mem_cons_self)
    rw [rd_wr_ne _ hrd]
    exact inv.keep r (fun h => hr (List.mem_cons_of_mem _ h)) hf
  · intro x hx y hy
    rcases List.mem_cons.mp hx with rfl | hx
    · exact List.mem_cons_of_mem _ (hch y hy)
    · exact List.mem_cons_of_mem _ (inv.closed x hx y hy)
  · show (st'.results.set i (some v)).length = _
    rw [List.length_set, hres, inv.len]
  · intro j m hm
    show ((st'.results.set i (some v)).getD j none).isSome ↔ _
    rw [hres, getD_set_isSome hilt, Bool.or_eq_true, decide_eq_true_eq, inv.res j m hm]
    constructor
    · rintro (rfl | h)
      · rw [hm0] at hm
        cases hm
        exact Or.inr (Or.inr (by rw [hm0d]; exact List.mem_cons_self))
      · rcases h with h | h | h
        · exact Or.inl h
        · exact Or.inr (Or.inl h)
        · exact Or.inr (Or.inr (List.mem_cons_of_mem _ h))
    · rintro (h | h | h)
      · exact Or.inr (Or.inl h)
      · exact Or.inr (Or.inr (Or.inl h))
      · rcases List.mem_cons.mp h with h | h
        · left
          exact pairwise_idx_unique w.dstDistinct hm hm0 (by rw [h, hm0d]) (by rw [h]; exact hdz)
        · exact Or.inr (Or.inr (Or.inr h))

/-! ### the tree stage -/

theorem Cnt.val_set (c : Cnt) (s s' : Reg) (v : Int) :
    Cnt.val (AL.set c s v) s' = if s' = s then v else c.val s' := by
  unfold Cnt.val
  rw [AL.get_set]
  split <;> rfl

/-- counters = number of unprocessed out-edges; a node whose out-edges are all done but which is not
done itself is the current position of the walk or a leaf still in the work list -/
structure Inv1 (e : Env) (P : List Reg) (c : Cnt) (todo : List Reg) (cur : Option Reg) : Prop where
  count : ∀ s, c.val s = (cnt e P s : Int)
  pend : ∀ x, (∃ s, Edge e s x) → x ∉ P → cnt e P x = 0 →
    (some x = cur ∨ (x ∈ todo ∧ e.isLeaf x = true))

theorem not_leaf_of_edge {e : Env} {s d : Reg} (h : Edge e s d) : e.isLeaf s = false := by
  obtain ⟨m, hm, hs, hd, hne, hz⟩ := h
  unfold Env.isLeaf
  simp only [Bool.not_eq_false', List.any_eq_true, Bool.and_eq_true, decide_eq_true_eq,
    Bool.or_eq_true]
  exact ⟨m, hm, hs, Or.inr (by rw [isEdge_iff, hs, hd]; exact ⟨hne, hz⟩)⟩

theorem leaf_no_edge {e : Env} {s : Reg} (h : e.isLeaf s = true) (x : Reg) : ¬ Edge e s x := by
  intro hE
  rw [not_leaf_of_edge hE] at h
  cases h

theorem walkUp_inv {e : Env} (w : WF e) {ρ₀ : RegFile n} {todo : List Reg} :
    ∀ (fuel : Nat) (d : Reg) (st : St) (c : Cnt) (P : List Reg) (st' : St) (c' : Cnt),
      Inv e ρ₀ P st → Inv1 e P c todo (some d) → d ∉ P → cnt e P d = 0 →
      walkUp e fuel d st c = .ok (st', c') →
      ∃ P', Inv e ρ₀ P' st' ∧ Inv1 e P' c' todo none ∧ (∀ x ∈ P, x ∈ P') ∧
        (∀ x ∈ P', x ∈ P ∨ x = d ∨ e.isLeaf x = false) := by
  intro fuel
  induction fuel with
  | zero => intro d st c P st' c' _ _ _ _ h; simp [walkUp] at h
  | succ fuel ih =>
    intro d st c P st' c' inv inv1 hd hc h
    unfold walkUp at h
    cases hp : e.pred d with
    | none =>
      rw [hp] at h
      simp only [Except.ok.injEq, Prod.mk.injEq] at h
      obtain ⟨rfl, rfl⟩ := h
      refine ⟨P, inv, ⟨inv1.count, ?_⟩, fun x hx => hx, fun x hx => Or.inl hx⟩
      intro x hx hxP hx0
      rcases inv1.pend x hx hxP hx0 with h | h
      · cases h
        obtain ⟨s, hs⟩ := hx
        exact absurd hs ((pred_none_iff w).mp hp s)
      · exact Or.inr h
    | some s =>
      rw [hp] at h
      have hE : Edge e s d := pred_some_edge hp
      simp only at h
      cases hem : emitMv st ⟨.src, s⟩ d (e.widthOf s) with
      | error x => rw [hem] at h; cases h
      | ok r =>
        obtain ⟨st1, v⟩ := r
        rw [hem] at h
        simp only at h
        cases ho : e.outIdx d with
        | none => rw [ho] at h; cases h
        | some i =>
          rw [ho] at h
          simp only at h
          split at h
          · cases h
          · have inv' := inv.process w hE hd ((cnt_eq_zero_iff).mp hc) hem ho
            have hs : s ∉ P := inv.parent_unprocessed hE hd
            have hsd : s ≠ d := hE.ne
            have hcount : ∀ s', Cnt.val (AL.set c s (c.val s - 1)) s' = (cnt e (d :: P) s' : Int) := by
              intro s'
              rw [Cnt.val_set]
              have h1 := cnt_add w hE hd s'
              have h2 := inv1.count s'
              split
              · rename_i e1; subst e1
                have h3 := inv1.count s'
                simp only [if_true] at h1
                omega
              · rename_i e1
                simp only [e1, if_false] at h1
                omega
            split at h
            · -- the source still has unprocessed children: stop here
              rename_i hn
              simp only [Except.ok.injEq, Prod.mk.injEq] at h
              obtain ⟨rfl, rfl⟩ := h
              refine ⟨d :: P, inv', ⟨hcount, ?_⟩, fun x hx => List.mem_cons_of_mem _ hx, ?_⟩
              · intro x hx hxP hx0
                have hxd : x ≠ d := fun e => hxP (e ▸ List.mem_cons_self)
                have hxP' : x ∉ P := fun h => hxP (List.mem_cons_of_mem _ h)
                by_cases hxs : x = s
                · subst hxs
                  have := hcount x
                  rw [Cnt.val_set, if_pos rfl, hx0] at this
                  exact absurd this hn
                · have h1 := cnt_add w hE hd x
                  simp only [hxs, if_false, Nat.add_zero] at h1
                  rcases inv1.pend x hx hxP' (by rw [h1]; exact hx0) with h | h
                  · cases h; exact absurd rfl hxd
                  · exact Or.inr h
              · intro x hx
                rcases List.mem_cons.mp hx with h | h
                · exact Or.inr (Or.inl h)
                · exact Or.inl h
            · -- all children of the source are done: continue with the source
              rename_i hn
              have hn0 : c.val s - 1 = 0 := by
                by_cases h0 : c.val s - 1 = 0
                · exact h0
                · exact absurd h0 hn
              have hs' : s ∉ d :: P := by
                intro h
                rcases List.mem_cons.mp h with h | h
                · exact hsd h
                · exact hs h
              have hc' : cnt e (d :: P) s = 0 := by
                have := hcount s
                rw [Cnt.val_set, if_pos rfl, hn0] at this
                omega
              have inv1' : Inv1 e (d :: P) (AL.set c s (c.val s - 1)) todo (some s) := by
                refine ⟨hcount, ?_⟩
                intro x hx hxP hx0
                have hxd : x ≠ d := fun e => hxP (e ▸ List.mem_cons_self)
                have hxP' : x ∉ P := fun h => hxP (List.mem_cons_of_mem _ h)
                by_cases hxs : x = s
                · exact Or.inl (by rw [hxs])
                · have h1 := cnt_add w hE hd x
                  simp only [hxs, if_false, Nat.add_zero] at h1
                  rcases inv1.pend x hx hxP' (by rw [h1]; exact hx0) with h | h
                  · cases h; exact absurd rfl hxd
                  · exact Or.inr h
              obtain ⟨P', i1, i2, i3, i4⟩ := ih s _ _ (d :: P) st' c' inv' inv1' hs' hc' h
              refine ⟨P', i1, i2, fun x hx => i3 x (List.mem_cons_of_mem _ hx), ?_⟩
              intro x hx
              rcases i4 x hx with h | h | h
              · rcases List.mem_cons.mp h with h | h
                · exact Or.inr (Or.inl h)
                · exact Or.inl h
              · exact Or.inr (Or.inr (by rw [h]; exact not_leaf_of_edge hE))
              · exact Or.inr (Or.inr h)

theorem stage1_inv {e : Env} (w : WF e) {ρ₀ : RegFile n} :
    ∀ (todo : List Reg) (st : St) (c : Cnt) (P : List Reg) (st' : St) (c' : Cnt),
      todo.Pairwise (fun a b => a = b → a = Reg.zero) →
      Inv e ρ₀ P st → Inv1 e P c todo none → (∀ x ∈ todo, e.isLeaf x = true → x ∉ P) →
      stage1 e todo st c = .ok (st', c') →
      ∃ P', Inv e ρ₀ P' st' ∧ Inv1 e P' c' [] none := by
  intro todo
  induction todo with
  | nil =>
    intro st c P st' c' _ inv inv1 _ h
    simp only [stage1, Except.ok.injEq, Prod.mk.injEq] at h
    obtain ⟨rfl, rfl⟩ := h
    exact ⟨P, inv, inv1⟩
  | cons d rest ih =>
    intro st c P st' c' hpw inv inv1 hfresh h
    rw [List.pairwise_cons] at hpw
    unfold stage1 at h
    by_cases hl : e.isLeaf d = true
    · rw [if_pos hl] at h
      cases hw : walkUp e (e.moves.length + 1) d st c with
      | error x => rw [hw] at h; cases h
      | ok r =>
        obtain ⟨st1, c1⟩ := r
        rw [hw] at h
        simp only at h
        have hd : d ∉ P := hfresh d List.mem_cons_self hl
        have hc : cnt e P d = 0 := cnt_eq_zero_iff.mpr fun x hx => absurd hx (leaf_no_edge hl x)
        have inv1' : Inv1 e P c rest (some d) := by
          refine ⟨inv1.count, ?_⟩
          intro x hx hxP hx0
          rcases inv1.pend x hx hxP hx0 with h | ⟨h, h'⟩
          · cases h
          · rcases List.mem_cons.mp h with h | h
            · exact Or.inl (by rw [h])
            · exact Or.inr ⟨h, h'⟩
        obtain ⟨P', i1, i2, i3, i4⟩ := walkUp_inv w _ d st c P st1 c1 inv inv1' hd hc hw
        refine ih st1 c1 P' st' c' hpw.2 i1 i2 ?_ h
        intro x hx hxl hxP'
        rcases i4 x hxP' with h | h | h
        · exact hfresh x (List.mem_cons_of_mem _ hx) hxl h
        · subst h
          obtain ⟨s, hs⟩ := i1.sub x hxP'
          exact hs.dst_ne_zero (hpw.1 x hx rfl)
        · rw [hxl] at h; cases h
    · rw [if_neg hl] at h
      refine ih st c P st' c' hpw.2 inv ⟨inv1.count, ?_⟩ (fun x hx => hfresh x (List.mem_cons_of_mem _ hx)) h
      intro x hx hxP hx0
      rcases inv1.pend x hx hxP hx0 with h | ⟨h, h'⟩
      · cases h
      · rcases List.mem_cons.mp h with h | h
        · rw [h] at h'; exact absurd h' hl
        · exact Or.inr ⟨h, h'⟩

end Xdsl.ParallelMov
