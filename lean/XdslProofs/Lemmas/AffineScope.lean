import XdslProofs.Lemmas.AffineFlat
/-!
Closure of `InScope` (the expressions `simplify` is guaranteed to accept) under the smart
constructors of the statement (C26).
-/
namespace Xdsl.Affine

variable {nd ns : Nat}

theorem InScope.add_inv {l r : Expr} (h : InScope nd ns (.bin .add l r)) :
    InScope nd ns l ∧ InScope nd ns r := by
  cases h with
  | add hl hr => exact ⟨hl, hr⟩
  | div hk _ _ => cases hk

theorem InScope.mul_inv {l r : Expr} (h : InScope nd ns (.bin .mul l r)) :
    InScope nd ns l ∧ ∃ c, r = .const c := by
  cases h with
  | mul c hl => exact ⟨hl, c, rfl⟩
  | div hk _ _ => cases hk

theorem inScope_addCore {a b : Expr} (ha : InScope nd ns a) (hb : InScope nd ns b) :
    InScope nd ns (addCore a b) := by
  fun_induction addCore a b
  all_goals first
    | exact .const _
    | exact ha
    | exact .add ha (.const _)
    | exact .add ha hb
    | (rename_i ih; exact ih ha.add_inv.1 (.const _))

theorem inScope_mkAdd {a b : Expr} (ha : InScope nd ns a) (hb : InScope nd ns b) :
    InScope nd ns (mkAdd a b) := by
  unfold mkAdd
  split
  · exact inScope_addCore hb ha
  · exact inScope_addCore ha hb

theorem inScope_mulC {a : Expr} (k : Int) (ha : InScope nd ns a) : InScope nd ns (mulC a k) := by
  fun_induction mulC a k
  all_goals first
    | exact .const _
    | exact ha
    | exact .mul _ ha
    | (rename_i ih; exact ih ha.mul_inv.1)
    | (rename_i ihl ihr; exact inScope_mkAdd (ihl ha.add_inv.1) (ihr ha.add_inv.2))

theorem inScope_mkMul {a b e : Expr} (ha : InScope nd ns a) (hb : InScope nd ns b)
    (h : mkMul a b = .ok e) : InScope nd ns e := by
  unfold mkMul at h
  split at h
  · cases h; exact inScope_mulC _ hb
  · cases h; exact inScope_mulC _ ha
  · cases h

theorem inScope_mkDiv {k : Kind} {a e : Expr} {c : Int} (hk : k.isDivLike = true)
    (ha : InScope nd ns a) (hc : 0 < c) (h : mkDiv k a (.const c) = .ok e) : InScope nd ns e := by
  have hc' : c ≠ 0 := by omega
  cases a with
  | const x =>
    cases k <;> simp [mkDiv, foldConst, Kind.isDivLike, hc', pure, Except.pure] at h hk <;>
      (subst h; exact .const _)
  | dim p => simp only [mkDiv, pure, Except.pure, Except.ok.injEq] at h; subst h; exact .div hk ha hc
  | sym p => simp only [mkDiv, pure, Except.pure, Except.ok.injEq] at h; subst h; exact .div hk ha hc
  | bin k' l r =>
    simp only [mkDiv, pure, Except.pure, Except.ok.injEq] at h; subst h; exact .div hk ha hc

theorem inScope_mkNeg {a : Expr} (ha : InScope nd ns a) : InScope nd ns (mkNeg a) := by
  unfold mkNeg
  split
  · exact .const _
  · exact inScope_mulC _ ha

theorem inScope_mkSub {a b : Expr} (ha : InScope nd ns a) (hb : InScope nd ns b) :
    InScope nd ns (mkSub a b) := inScope_mkAdd ha (inScope_mulC _ hb)

end Xdsl.Affine
