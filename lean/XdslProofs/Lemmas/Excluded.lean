import XdslModel.Excluded
/-!
Helper lemmas for `XdslProofs.C19Excluded`: the walk over nested operations, the sorted-set
insertion, and filtering the freshly built register stack.
-/
namespace Xdsl.RegAlloc
open Xdsl.RegMachine

theorem walkOp_sub_walkOps {k : XOp} : ∀ {ks : List XOp}, k ∈ ks → ∀ x ∈ walkOp k, x ∈ walkOps ks := by
  intro ks
  induction ks with
  | nil => intro h; simp at h
  | cons o os ih =>
    intro h x hx
    rw [walkOps]
    rcases List.mem_cons.1 h with rfl | h
    · exact List.mem_append_left _ hx
    · exact List.mem_append_right _ (ih h x hx)

theorem mem_walkOp_self (o : XOp) : o ∈ walkOp o := by
  cases o with
  | mk e kids => rw [walkOp]; exact List.mem_cons_self ..

theorem mem_walkOp_of_within {o x : XOp} (h : Within o x) : x ∈ walkOp o := by
  induction h with
  | self o => exact mem_walkOp_self o
  | @kid o k x hk _ ih =>
    cases o with
    | mk e kids =>
      rw [walkOp]
      exact List.mem_cons_of_mem _ (walkOp_sub_walkOps hk x ih)

mutual
  theorem within_of_mem_walkOp : ∀ (o x : XOp), x ∈ walkOp o → Within o x
    | .mk e kids, x, h => by
      rw [walkOp] at h
      rcases List.mem_cons.1 h with rfl | h
      · exact Within.self _
      · obtain ⟨k, hk, hw⟩ := within_of_mem_walkOps kids x h
        exact Within.kid hk hw
  theorem within_of_mem_walkOps : ∀ (os : List XOp) (x : XOp), x ∈ walkOps os → ∃ o ∈ os, Within o x
    | [], x, h => by rw [walkOps] at h; simp at h
    | o :: os, x, h => by
      rw [walkOps] at h
      rcases List.mem_append.1 h with h | h
      · exact ⟨o, List.mem_cons_self .., within_of_mem_walkOp o x h⟩
      · obtain ⟨o', ho', hw⟩ := within_of_mem_walkOps os x h
        exact ⟨o', List.mem_cons_of_mem _ ho', hw⟩
end

theorem mem_insertReg (r x : Reg) (l : List Reg) : x ∈ insertReg r l ↔ x = r ∨ x ∈ l := by
  induction l with
  | nil => simp [insertReg]
  | cons y ys ih =>
    rw [insertReg]
    split
    · simp
    · split
      · rename_i h; subst h; simp
      · simp only [List.mem_cons, ih]
        constructor
        · rintro (h | h | h)
          · exact Or.inr (Or.inl h)
          · exact Or.inl h
          · exact Or.inr (Or.inr h)
        · rintro (h | h | h)
          · exact Or.inr (Or.inl h)
          · exact Or.inl h
          · exact Or.inr (Or.inr h)

theorem mem_foldr_insertReg (l : List Reg) (x : Reg) : x ∈ l.foldr insertReg [] ↔ x ∈ l := by
  induction l with
  | nil => simp
  | cons y ys ih => simp only [List.foldr_cons, mem_insertReg, ih, List.mem_cons]

theorem insertReg_sorted (r : Reg) (l : List Reg) (h : l.Pairwise (· < ·)) :
    (insertReg r l).Pairwise (· < ·) := by
  induction l with
  | nil => simp [insertReg]
  | cons y ys ih =>
    rw [insertReg]
    have hy := List.pairwise_cons.1 h
    by_cases hlt : r < y
    · rw [if_pos hlt]
      refine List.pairwise_cons.2 ⟨?_, h⟩
      intro z hz
      rcases List.mem_cons.1 hz with hz | hz
      · rw [hz]; exact hlt
      · exact Nat.lt_trans hlt (hy.1 z hz)
    · rw [if_neg hlt]
      by_cases heq : r = y
      · rw [if_pos heq]; exact h
      · rw [if_neg heq]
        refine List.pairwise_cons.2 ⟨?_, ih hy.2⟩
        intro z hz
        rcases (mem_insertReg r z ys).1 hz with hz | hz
        · rw [hz]
          exact Nat.lt_of_le_of_ne (Nat.le_of_not_lt hlt) (fun e => heq e.symm)
        · exact hy.1 z hz

theorem stack_filter (q : Reg → Bool) (pool : List Reg) :
    ∀ st : List Reg,
      (pool.foldl (fun st r => r :: st.filter (· != r)) st).filter q
        = (pool.filter q).foldl (fun st r => r :: st.filter (· != r)) (st.filter q) := by
  induction pool with
  | nil => intro st; rfl
  | cons x xs ih =>
    intro st
    simp only [List.foldl_cons]
    rw [ih]
    by_cases hq : q x = true
    · simp only [List.filter_cons, hq, if_true, List.foldl_cons, List.filter_filter, Bool.and_comm]
    · have hq' : q x = false := by simpa using hq
      simp only [List.filter_cons, hq', List.filter_filter]
      congr 1
      apply List.filter_congr
      intro y _
      by_cases hy : y = x
      · subst hy; simp [hq']
      · simp [hy]

theorem stack_filter2 (q1 q2 : Reg → Bool) (pool : List Reg) :
    ((pool.foldl (fun st r => r :: st.filter (· != r)) []).filter q1).filter q2
      = ((pool.filter q2).foldl (fun st r => r :: st.filter (· != r)) []).filter q1 := by
  have e1 := stack_filter q1 pool []
  have e2 := stack_filter q2 (pool.filter q1) []
  have e3 := stack_filter q1 (pool.filter q2) []
  simp only [List.filter_nil] at e1 e2 e3
  rw [e1, e2, e3, List.filter_filter, List.filter_filter]
  congr 1
  apply List.filter_congr
  intro x _
  exact Bool.and_comm _ _

end Xdsl.RegAlloc
