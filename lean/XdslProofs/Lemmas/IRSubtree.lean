import XdslProofs.Lemmas.IRUses
/-!
# C01 — the subtree walk of `drop_all_references`

`IRStore.subtreeOf s root` is the fuel-bounded depth-first walk that `dropTree` folds over.  Under the
store invariant, and when `root` is detached, the walk

* never meets an object twice (an object has one parent, the root has none, so every object the
  walk reaches hangs below the root — cycles elsewhere in the store are out of reach),
* therefore has enough fuel (pigeonhole over the id tables), and
* returns a list that contains the root, is closed under children, and in which every object other
  than the root has its parent in the list.

No acyclicity assumption on the store is needed.
-/
namespace Xdsl.IR
open Xdsl Xdsl.DLL IRStore

/-- the object has an entry in its id table -/
def Reg (s : IRStore) : Ref → Prop
  | .op o => regO s o
  | .block b => regB s b
  | .region r => regR s r

theorem mem_keys_of_get {β : Type} (m : AL Nat β) (k : Nat) (h : (AL.get m k).isSome) :
    k ∈ m.map Prod.fst := by
  induction m with
  | nil => simp [AL.get] at h
  | cons p r ih =>
    obtain ⟨a, b⟩ := p
    simp only [AL.get] at h
    split at h
    · subst_vars; simp
    · simp [ih h]

/-- every id of the three tables, as a `Ref` -/
def allRefs (s : IRStore) : List Ref :=
  (s.ops.map Prod.fst).map Ref.op ++
    ((s.blocks.map Prod.fst).map Ref.block ++ (s.regions.map Prod.fst).map Ref.region)

theorem mem_allRefs {s : IRStore} {x : Ref} (h : Reg s x) : x ∈ allRefs s := by
  unfold allRefs
  cases x with
  | op o => exact List.mem_append_left _ (List.mem_map_of_mem (mem_keys_of_get _ _ h))
  | block b =>
    exact List.mem_append_right _ (List.mem_append_left _ (List.mem_map_of_mem (mem_keys_of_get _ _ h)))
  | region r =>
    exact List.mem_append_right _ (List.mem_append_right _ (List.mem_map_of_mem (mem_keys_of_get _ _ h)))

theorem allRefs_length (s : IRStore) : (allRefs s).length + 1 = s.size := by
  simp [allRefs, IRStore.size]; omega

/-- pigeonhole: a duplicate-free list of registered objects is shorter than `size` -/
theorem length_lt_size {s : IRStore} {l : List Ref} (hn : l.Nodup) (hr : ∀ x ∈ l, Reg s x) :
    l.length < s.size := by
  have hsub : l ⊆ allRefs s := fun x hx => mem_allRefs (hr x hx)
  have := (List.subperm_of_subset hn hsub).length_le
  rw [← allRefs_length]; omega

/-! ### children = objects whose parent pointer points here -/

theorem regR_of_parent {s : IRStore} {r o : Nat} (h : s.regionParent r = some o) : regR s r := by
  unfold IRStore.regionParent IRStore.region! at h
  unfold IR.regR
  cases e : AL.get s.regions r with
  | none => simp [e] at h
  | some x => simp

theorem mem_regions_iff {s : IRStore} {a : Abs} (ha : InvA s a) (o r : Nat) :
    r ∈ (s.op! o).regions ↔ s.regionParent r = some o := by
  cases hd : AL.get s.ops o with
  | none =>
    have e : s.op! o = {} := by simp [IRStore.op!, hd]
    rw [e]
    constructor
    · intro h; simp at h
    · intro h
      obtain ⟨d, hd', _⟩ := ha.regionParent r o h
      rw [hd] at hd'; cases hd'
  | some d =>
    have e : s.op! o = d := by simp [IRStore.op!, hd]
    rw [e]
    exact ⟨(ha.regions o d hd).2 r, fun hp => by
      obtain ⟨d', hd', hr⟩ := ha.regionParent r o hp
      rw [hd] at hd'; cases hd'; exact hr⟩

theorem regions_nodup {s : IRStore} {a : Abs} (ha : InvA s a) (o : Nat) : (s.op! o).regions.Nodup := by
  cases hd : AL.get s.ops o with
  | none =>
    have e : s.op! o = {} := by simp [IRStore.op!, hd]
    rw [e]; exact List.nodup_nil
  | some d =>
    have e : s.op! o = d := by simp [IRStore.op!, hd]
    rw [e]; exact (ha.regions o d hd).1

theorem mem_blocksOf_iff {s : IRStore} {a : Abs} (ha : InvA s a) (r b : Nat) :
    b ∈ s.blocksOf r ↔ s.blockParent b = some r := by
  unfold IRStore.blocksOf IRStore.blockParent
  rw [ha.blockL.toList_eq]; exact ha.blockL.mem_iff_parent r b

theorem mem_opsOf_iff {s : IRStore} {a : Abs} (ha : InvA s a) (b o : Nat) :
    o ∈ s.opsOf b ↔ s.opParent o = some b := by
  unfold IRStore.opsOf IRStore.opParent
  rw [ha.opL.toList_eq]; exact ha.opL.mem_iff_parent b o

theorem mem_children_iff {s : IRStore} {a : Abs} (ha : InvA s a) (c y : Ref) :
    c ∈ s.children y ↔ s.parentRef c = some y := by
  cases y with
  | op o =>
    cases c with
    | region r =>
      simp only [IRStore.children, IRStore.parentRef, List.mem_map, Ref.region.injEq, exists_eq_right,
        Option.map_eq_some_iff, Ref.op.injEq]
      exact mem_regions_iff ha o r
    | op _ => simp [IRStore.children, IRStore.parentRef]
    | block _ => simp [IRStore.children, IRStore.parentRef]
  | block b =>
    cases c with
    | op o =>
      simp only [IRStore.children, IRStore.parentRef, List.mem_map, Ref.op.injEq, exists_eq_right,
        Option.map_eq_some_iff, Ref.block.injEq]
      exact mem_opsOf_iff ha b o
    | block _ => simp [IRStore.children, IRStore.parentRef]
    | region _ => simp [IRStore.children, IRStore.parentRef]
  | region r =>
    cases c with
    | block b =>
      simp only [IRStore.children, IRStore.parentRef, List.mem_map, Ref.block.injEq, exists_eq_right,
        Option.map_eq_some_iff, Ref.region.injEq]
      exact mem_blocksOf_iff ha r b
    | op _ => simp [IRStore.children, IRStore.parentRef]
    | region _ => simp [IRStore.children, IRStore.parentRef]

theorem children_nodup {s : IRStore} {a : Abs} (ha : InvA s a) (y : Ref) : (s.children y).Nodup := by
  cases y with
  | op o =>
    exact List.Nodup.map (fun _ _ h => by cases h; rfl) (regions_nodup ha o)
  | block b =>
    exact List.Nodup.map (fun _ _ h => by cases h; rfl) (ha.opL.nodup_toList b)
  | region r =>
    exact List.Nodup.map (fun _ _ h => by cases h; rfl) (ha.blockL.nodup_toList r)

/-- an object with a parent pointer is registered -/
theorem reg_of_parent {s : IRStore} {a : Abs} (ha : InvA s a) {c p : Ref} (h : s.parentRef c = some p) :
    Reg s c := by
  cases c with
  | op o =>
    simp only [IRStore.parentRef, Option.map_eq_some_iff] at h
    obtain ⟨b, hb, _⟩ := h
    exact (ha.regOps b o ((ha.opL.mem_iff_parent b o).mpr hb)).1
  | block b =>
    simp only [IRStore.parentRef, Option.map_eq_some_iff] at h
    obtain ⟨r, hr, _⟩ := h
    exact (ha.regBlocks r b ((ha.blockL.mem_iff_parent r b).mpr hr)).1
  | region r =>
    simp only [IRStore.parentRef, Option.map_eq_some_iff] at h
    obtain ⟨o, ho, _⟩ := h
    exact regR_of_parent ho

/-! ### the walk -/

/-- the loop invariant of `IRStore.subtree` (`acc`: visited, `todo`: stack) -/
structure Walk (s : IRStore) (root : Ref) (todo acc : List Ref) : Prop where
  nodup : (acc ++ todo).Nodup
  up : ∀ y ∈ acc ++ todo, y = root ∨ ∃ p ∈ acc, s.parentRef y = some p
  down : ∀ y ∈ acc, ∀ c, s.parentRef c = some y → c ∈ acc ++ todo
  root : root ∈ acc ++ todo
  reg : ∀ y ∈ acc ++ todo, Reg s y

theorem Walk.init {s : IRStore} {root : Ref} (hreg : Reg s root) : Walk s root [root] [] where
  nodup := by simp
  up := by simp
  down := by simp
  root := by simp
  reg := by simpa using hreg

theorem Walk.step {s : IRStore} {a : Abs} (ha : InvA s a) {root : Ref} (hroot : s.parentRef root = none)
    {x : Ref} {todo acc : List Ref} (w : Walk s root (x :: todo) acc) :
    Walk s root (s.children x ++ todo) (x :: acc) := by
  have hnd := w.nodup
  have hx_acc : x ∉ acc := by
    intro hm
    have := (List.nodup_append.mp hnd).2.2 x hm x (by simp)
    exact this rfl
  have hx_todo : x ∉ todo := by
    have := (List.nodup_append.mp hnd).2.1
    exact (List.nodup_cons.mp this).1
  have child_new : ∀ c ∈ s.children x, c ∉ acc ++ x :: todo := by
    intro c hc hm
    have hp := (mem_children_iff ha c x).mp hc
    rcases w.up c hm with e | ⟨p, hp', e⟩
    · subst e; rw [hroot] at hp; cases hp
    · rw [hp] at e; cases e; exact hx_acc hp'
  have hacc : acc.Nodup := (List.nodup_append.mp hnd).1
  have htodo : todo.Nodup := (List.nodup_cons.mp (List.nodup_append.mp hnd).2.1).2
  have hdisj : ∀ y ∈ acc, y ∉ todo := fun y hy hy' =>
    (List.nodup_append.mp hnd).2.2 y hy y (List.mem_cons_of_mem _ hy') rfl
  refine ⟨?_, ?_, ?_, ?_, ?_⟩
  · rw [List.nodup_append]
    refine ⟨List.nodup_cons.mpr ⟨hx_acc, hacc⟩, ?_, ?_⟩
    · rw [List.nodup_append]
      refine ⟨children_nodup ha x, htodo, fun c hc y hy e => ?_⟩
      subst e
      exact child_new c hc (by simp [hy])
    · intro y hy z hz e
      subst e
      rcases List.mem_cons.mp hy with e | hy
      · subst e
        rcases List.mem_append.mp hz with h | h
        · exact child_new y h (by simp)
        · exact hx_todo h
      · rcases List.mem_append.mp hz with h | h
        · exact child_new y h (by simp [hy])
        · exact hdisj y hy h
  · intro y hy
    have hy' : y ∈ s.children x ∨ y ∈ acc ++ x :: todo := by
      simp only [List.mem_append, List.mem_cons] at hy ⊢
      tauto
    rcases hy' with h | h
    · exact Or.inr ⟨x, List.mem_cons_self, (mem_children_iff ha y x).mp h⟩
    · rcases w.up y h with e | ⟨p, hp, e⟩
      · exact Or.inl e
      · exact Or.inr ⟨p, List.mem_cons_of_mem _ hp, e⟩
  · intro y hy c hc
    rcases List.mem_cons.mp hy with e | hy
    · subst e
      have := (mem_children_iff ha c y).mpr hc
      simp [this]
    · have := w.down y hy c hc
      simp only [List.mem_append, List.mem_cons] at this ⊢
      tauto
  · have := w.root
    simp only [List.mem_append, List.mem_cons] at this ⊢
    tauto
  · intro y hy
    have hy' : y ∈ s.children x ∨ y ∈ acc ++ x :: todo := by
      simp only [List.mem_append, List.mem_cons] at hy ⊢
      tauto
    rcases hy' with h | h
    · exact reg_of_parent ha ((mem_children_iff ha y x).mp h)
    · exact w.reg y h

/-- with enough fuel the walk ends with an empty stack -/
theorem subtree_walk {s : IRStore} {a : Abs} (ha : InvA s a) {root : Ref} (hroot : s.parentRef root = none) :
    ∀ (fuel : Nat) (todo acc : List Ref), Walk s root todo acc → s.size ≤ fuel + acc.length →
      Walk s root [] (s.subtree fuel todo acc) := by
  intro fuel
  induction fuel with
  | zero =>
    intro todo acc w hf
    exfalso
    have h1 := length_lt_size (List.nodup_append.mp w.nodup).1 (fun y hy => w.reg y (List.mem_append_left _ hy))
    omega
  | succ k ih =>
    intro todo acc w hf
    cases todo with
    | nil => simpa [IRStore.subtree] using w
    | cons x r =>
      simp only [IRStore.subtree]
      apply ih _ _ (w.step ha hroot)
      simp only [List.length_cons]; omega

/-- what `dropTree` folds over -/
structure Subtree (s : IRStore) (root : Ref) (T : List Ref) : Prop where
  nodup : T.Nodup
  root : root ∈ T
  reg : ∀ y ∈ T, Reg s y
  /-- membership is inherited along parent pointers, both ways -/
  closed : ∀ c p, s.parentRef c = some p → (c ∈ T ↔ p ∈ T)

theorem subtreeOf_spec {s : IRStore} {a : Abs} (ha : InvA s a) {root : Ref}
    (hroot : s.parentRef root = none) (hreg : Reg s root) : Subtree s root (s.subtreeOf root) := by
  have w := subtree_walk ha hroot (3 * s.size) [root] [] (Walk.init hreg) (by simp; omega)
  unfold IRStore.subtreeOf
  generalize s.subtree (3 * s.size) [root] [] = T at w
  refine ⟨by simpa using w.nodup, by simpa using w.root, fun y hy => w.reg y (by simpa using hy), ?_⟩
  intro c p hp
  constructor
  · intro hc
    rcases w.up c (by simpa using hc) with e | ⟨p', hp', e⟩
    · subst e; rw [hroot] at hp; cases hp
    · rw [hp] at e; cases e; exact hp'
  · intro hpT
    simpa using w.down p hpT c hp

end Xdsl.IR
