import XdslProofs.Lemmas.Clone
/-!
C02 helper lemmas, part 2: what phase 1 (`c1`) does to the mappers, and that its output is the
source renamed by the final mappers (operands still missing).
-/
namespace Xdsl.Clone

/-! ## kinds without direct blocks -/

theorem directIds_ops (t : T .ops) : directIds t = [] := by cases t <;> rfl
theorem directIds_regions (t : T .regions) : directIds t = [] := by cases t <;> rfl
theorem dlen_ops (t : T .ops) : dlen t = 0 := by cases t <;> rfl
theorem dlen_regions (t : T .regions) : dlen t = 0 := by cases t <;> rfl
theorem Reg_ops (bm : AL Nat Nat) (nb : Nat) (t : T .ops) : Reg bm nb t := by cases t <;> simp [Reg]
theorem Reg_regions (bm : AL Nat Nat) (nb : Nat) (t : T .regions) : Reg bm nb t := by
  cases t <;> simp [Reg]

/-! ## cloneHdr -/

@[simp] theorem cloneHdr_bm (st : St) (h : OpHdr) (co : Bool) : (cloneHdr st h co).2.bm = st.bm := rfl
@[simp] theorem cloneHdr_vm (st : St) (h : OpHdr) (co : Bool) :
    (cloneHdr st h co).2.vm = (cloneVals st.vm (st.next + 3) h.results).2.1 := rfl
@[simp] theorem cloneHdr_next (st : St) (h : OpHdr) (co : Bool) :
    (cloneHdr st h co).2.next = st.next + 3 + h.results.length := by
  simp [cloneHdr, cloneVals_next]

/-! ## frames of `c1` -/

theorem c1_next_le {k : Kind} (t : T k) (nb : Nat) (st : St) : st.next ≤ (c1 nb st t).2.next := by
  induction t generalizing nb st with
  | nil => simp [c1]
  | op h rs nx ih1 ih2 =>
    simp only [c1]
    have a := ih1 0 (cloneHdr st h false).2
    have b := ih2 0 (c1 0 (cloneHdr st h false).2 rs).2
    simp only [cloneHdr_next] at a
    omega
  | region bs nx ih1 ih2 =>
    simp only [c1]
    have a := ih1 st.next { st with bm := (regBlocks st.bm st.next bs).1, next := (regBlocks st.bm st.next bs).2 }
    have b := ih2 0 (c1 st.next { st with bm := (regBlocks st.bm st.next bs).1, next := (regBlocks st.bm st.next bs).2 } bs).2
    simp only [regBlocks_next] at a b ⊢
    omega
  | block h ops nx ih1 ih2 =>
    simp only [c1]
    have a := ih1 0 { st with vm := (cloneVals st.vm st.next h.args).2.1, next := (cloneVals st.vm st.next h.args).2.2 }
    have b := ih2 (nb + 1) (c1 0 { st with vm := (cloneVals st.vm st.next h.args).2.1, next := (cloneVals st.vm st.next h.args).2.2 } ops).2
    simp only [cloneVals_next] at a b ⊢
    omega

/-- `value_mapper` changes only at values defined in the cloned tree -/
theorem c1_vm_frame {k : Kind} (t : T k) (nb : Nat) (st : St) (v : Nat) (hv : v ∉ defVals t) :
    AL.get (c1 nb st t).2.vm v = AL.get st.vm v := by
  induction t generalizing nb st with
  | nil => simp [c1]
  | op h rs nx ih1 ih2 =>
    simp only [defVals, List.mem_append, not_or] at hv
    simp only [c1]
    rw [ih2 _ _ hv.2.2, ih1 _ _ hv.2.1, cloneHdr_vm, cloneVals_frame _ _ _ _ hv.1]
  | region bs nx ih1 ih2 =>
    simp only [defVals, List.mem_append, not_or] at hv
    simp only [c1]
    rw [ih2 _ _ hv.2, ih1 _ _ hv.1]
  | block h ops nx ih1 ih2 =>
    simp only [defVals, List.mem_append, not_or] at hv
    simp only [c1]
    rw [ih2 _ _ hv.2.2, ih1 _ _ hv.2.1, cloneVals_frame _ _ _ _ hv.1]

/-- `block_mapper` changes only at blocks of regions inside the cloned tree -/
theorem c1_bm_frame {k : Kind} (t : T k) (nb : Nat) (st : St) (b : Nat) (hb : b ∉ regd t) :
    AL.get (c1 nb st t).2.bm b = AL.get st.bm b := by
  induction t generalizing nb st with
  | nil => simp [c1]
  | op h rs nx ih1 ih2 =>
    simp only [regd, List.mem_append, not_or] at hb
    simp only [c1]
    rw [ih2 _ _ hb.2, ih1 _ _ hb.1, cloneHdr_bm]
  | region bs nx ih1 ih2 =>
    simp only [regd, List.mem_append, not_or] at hb
    simp only [c1]
    rw [ih2 _ _ hb.2, ih1 _ _ hb.1.2, regBlocks_frame _ _ _ _ hb.1.1]
  | block h ops nx ih1 ih2 =>
    simp only [regd, List.mem_append, not_or] at hb
    simp only [c1]
    rw [ih2 _ _ hb.2, ih1 _ _ hb.1]

/-! ## Iso depends only on the renaming of what the tree mentions -/

theorem Iso_congr {co : Bool} {fv fb fv' fb' : Nat → Nat} {k : Kind} (t t' : T k)
    (hv : ∀ v, v ∈ defVals t ∨ (co = true ∧ v ∈ operandsOf t) → fv' v = fv v)
    (hb : ∀ b, b ∈ defBlocks t ∨ b ∈ succsOf t → fb' b = fb b)
    (i : Iso co fv fb t t') : Iso co fv' fb' t t' := by
  induction t with
  | nil => cases t' <;> simp_all [Iso]
  | op h rs nx ih1 ih2 =>
    cases t' with
    | nil => simp [Iso] at i
    | op h' rs' nx' =>
      simp only [Iso] at i ⊢
      obtain ⟨i1, i2, i3, i4, i5, i6, i7, i8⟩ := i
      refine ⟨i1, i2, i3, ?_, ?_, ?_, ?_, ?_⟩
      · rw [i4]; apply List.map_congr_left
        intro p hp
        rw [hv p.1 (Or.inl (by simp only [defVals, List.mem_append, List.mem_map]; exact Or.inl ⟨p, hp, rfl⟩))]
      · rw [i5]; cases co
        · simp
        · simp only [if_true]; apply List.map_congr_left
          intro v hv'
          rw [hv v (Or.inr ⟨rfl, by simp [operandsOf, hv']⟩)]
      · rw [i6]; apply List.map_congr_left
        intro s hs
        rw [hb s (Or.inr (by simp [succsOf, hs]))]
      · apply ih1 rs' _ _ i7
        · intro v hv'; apply hv
          rcases hv' with h1 | ⟨h1, h2⟩
          · exact Or.inl (by simp [defVals, h1])
          · exact Or.inr ⟨h1, by simp [operandsOf, h2]⟩
        · intro b hb'; apply hb
          rcases hb' with h1 | h1
          · exact Or.inl (by simp [defBlocks, h1])
          · exact Or.inr (by simp [succsOf, h1])
      · apply ih2 nx' _ _ i8
        · intro v hv'; apply hv
          rcases hv' with h1 | ⟨h1, h2⟩
          · exact Or.inl (by simp [defVals, h1])
          · exact Or.inr ⟨h1, by simp [operandsOf, h2]⟩
        · intro b hb'; apply hb
          rcases hb' with h1 | h1
          · exact Or.inl (by simp [defBlocks, h1])
          · exact Or.inr (by simp [succsOf, h1])
  | region bs nx ih1 ih2 =>
    cases t' with
    | nil => simp [Iso] at i
    | region bs' nx' =>
      simp only [Iso] at i ⊢
      refine ⟨ih1 bs' ?_ ?_ i.1, ih2 nx' ?_ ?_ i.2⟩
      · intro v hv'; apply hv
        rcases hv' with h1 | ⟨h1, h2⟩
        · exact Or.inl (by simp [defVals, h1])
        · exact Or.inr ⟨h1, by simp [operandsOf, h2]⟩
      · intro b hb'; apply hb
        rcases hb' with h1 | h1
        · exact Or.inl (by simp [defBlocks, h1])
        · exact Or.inr (by simp [succsOf, h1])
      · intro v hv'; apply hv
        rcases hv' with h1 | ⟨h1, h2⟩
        · exact Or.inl (by simp [defVals, h1])
        · exact Or.inr ⟨h1, by simp [operandsOf, h2]⟩
      · intro b hb'; apply hb
        rcases hb' with h1 | h1
        · exact Or.inl (by simp [defBlocks, h1])
        · exact Or.inr (by simp [succsOf, h1])
  | block h ops nx ih1 ih2 =>
    cases t' with
    | nil => simp [Iso] at i
    | block h' ops' nx' =>
      simp only [Iso] at i ⊢
      obtain ⟨i1, i2, i3, i4⟩ := i
      refine ⟨?_, ?_, ih1 ops' ?_ ?_ i3, ih2 nx' ?_ ?_ i4⟩
      · rw [i1, hb h.id (Or.inl (by simp [defBlocks]))]
      · rw [i2]; apply List.map_congr_left
        intro p hp
        rw [hv p.1 (Or.inl (by simp only [defVals, List.mem_append, List.mem_map]; exact Or.inl ⟨p, hp, rfl⟩))]
      · intro v hv'; apply hv
        rcases hv' with h1 | ⟨h1, h2⟩
        · exact Or.inl (by simp [defVals, h1])
        · exact Or.inr ⟨h1, by simp [operandsOf, h2]⟩
      · intro b hb'; apply hb
        rcases hb' with h1 | h1
        · exact Or.inl (by simp [defBlocks, h1])
        · exact Or.inr (by simp [succsOf, h1])
      · intro v hv'; apply hv
        rcases hv' with h1 | ⟨h1, h2⟩
        · exact Or.inl (by simp [defVals, h1])
        · exact Or.inr ⟨h1, by simp [operandsOf, h2]⟩
      · intro b hb'; apply hb
        rcases hb' with h1 | h1
        · exact Or.inl (by simp [defBlocks, h1])
        · exact Or.inr (by simp [succsOf, h1])

/-! ## block identities: definition order vs registration order -/

theorem mem_defBlocks {k : Kind} (t : T k) (b : Nat) : b ∈ defBlocks t ↔ b ∈ blockIds t := by
  induction t with
  | nil => simp [defBlocks, blockIds, directIds, regd]
  | op h rs nx ih1 ih2 =>
    simp only [defBlocks, blockIds, directIds, regd, List.mem_append, ih1, ih2, directIds_ops,
      directIds_regions, List.nil_append]
  | region bs nx ih1 ih2 =>
    simp only [defBlocks, blockIds, directIds, regd, List.mem_append, ih1, ih2,
      directIds_regions, List.nil_append]
  | block h ops nx ih1 ih2 =>
    simp only [defBlocks, blockIds, directIds, regd, List.mem_append, List.mem_cons, ih1, ih2,
      directIds_ops, List.not_mem_nil, false_or]
    constructor
    · rintro (h | h | h | h) <;> simp [h]
    · rintro ((h | h) | h | h) <;> simp [h]

end Xdsl.Clone
