import XdslModel.OpDef
import XdslProofs.Lemmas.AL
/-! helper lemmas for `XdslProofs/C10Storage.lean` -/
namespace Xdsl.OpDef

theorem fillDefaults_cons (d : AttrDef) (ds : List AttrDef) (m : AL Nat Nat) :
    fillDefaults (d :: ds) m = fillDefaults ds (fillStep m d) := by
  simp only [fillDefaults, List.foldl_cons]

theorem fillDefaults_nil (m : AL Nat Nat) : fillDefaults [] m = m := rfl

theorem fillStep_keeps (m : AL Nat Nat) (d : AttrDef) (k : Nat) (h : (AL.get m k).isSome = true) :
    AL.get (fillStep m d) k = AL.get m k := by
  unfold fillStep
  split
  · rename_i hg _ _
    rw [AL.get_set]
    split
    · rename_i e; subst e; rw [hg] at h; cases h
    · rfl
  · rfl

theorem fillDefaults_mono : ∀ (defs : List AttrDef) (m : AL Nat Nat) (k : Nat),
    (AL.get m k).isSome = true → AL.get (fillDefaults defs m) k = AL.get m k
  | [], _, _, _ => rfl
  | d :: ds, m, k, h => by
    rw [fillDefaults_cons, fillDefaults_mono ds (fillStep m d) k (by rw [fillStep_keeps m d k h]; exact h),
      fillStep_keeps m d k h]

theorem fillStep_present (m : AL Nat Nat) (d : AttrDef) (hr : d.optional = false) (v : Nat)
    (hd : d.default = some v) : (AL.get (fillStep m d) d.name).isSome = true := by
  unfold fillStep
  cases hg : AL.get m d.name with
  | some a => simp [hg]
  | none => simp [hr, hd, AL.get_set]

theorem fillDefaults_present' : ∀ (defs : List AttrDef) (m : AL Nat Nat) (d : AttrDef), d ∈ defs →
    d.optional = false → ∀ v, d.default = some v → (AL.get (fillDefaults defs m) d.name).isSome = true
  | [], _, _, hm, _, _, _ => by cases hm
  | e :: ds, m, d, hm, hr, v, hd => by
    rw [fillDefaults_cons]
    rcases List.mem_cons.1 hm with rfl | hm'
    · have hp := fillStep_present m d hr v hd
      rw [fillDefaults_mono ds _ _ hp]; exact hp
    · exact fillDefaults_present' ds _ d hm' hr v hd

theorem fillStep_written (m : AL Nat Nat) (d : AttrDef) (k a : Nat) (h0 : AL.get m k = none)
    (h : AL.get (fillStep m d) k = some a) : d.name = k ∧ d.optional = false ∧ d.default = some a := by
  unfold fillStep at h
  split at h
  · rename_i hg ho hdv
    rw [AL.get_set] at h
    split at h
    · rename_i e
      simp only [Option.some.injEq] at h
      subst h
      exact ⟨e.symm, ho, hdv⟩
    · rw [h0] at h; cases h
  · rw [h0] at h; cases h

theorem fillDefaults_written : ∀ (defs : List AttrDef) (m : AL Nat Nat) (k a : Nat),
    AL.get m k = none → AL.get (fillDefaults defs m) k = some a →
    ∃ d ∈ defs, d.name = k ∧ d.optional = false ∧ d.default = some a
  | [], m, k, a, h0, h => by rw [fillDefaults_nil, h0] at h; cases h
  | e :: ds, m, k, a, h0, h => by
    rw [fillDefaults_cons] at h
    cases hs : AL.get (fillStep m e) k with
    | none =>
      obtain ⟨d, hm, hd⟩ := fillDefaults_written ds _ k a hs h
      exact ⟨d, List.mem_cons_of_mem _ hm, hd⟩
    | some b =>
      rw [fillDefaults_mono ds _ k (by simp [hs]), hs] at h
      simp only [Option.some.injEq] at h
      subst h
      exact ⟨e, List.mem_cons_self .., fillStep_written m e k b h0 hs⟩

theorem fillDefaults_noop : ∀ (defs : List AttrDef) (m : AL Nat Nat),
    (∀ d ∈ defs, d.optional = false → ∀ v, d.default = some v → (AL.get m d.name).isSome = true) →
    fillDefaults defs m = m
  | [], _, _ => rfl
  | e :: ds, m, h => by
    have hs : fillStep m e = m := by
      unfold fillStep
      split
      · rename_i hg ho hdv
        have := h e (List.mem_cons_self ..) ho _ hdv
        rw [hg] at this; cases this
      · rfl
    rw [fillDefaults_cons, hs]
    exact fillDefaults_noop ds m fun d hm => h d (List.mem_cons_of_mem _ hm)

theorem dictAccessor_of_present (d : AttrDef) (m : AL Nat Nat)
    (h : d.optional = false → (AL.get m d.name).isSome = true) :
    dictAccessor d m = .ok ((AL.get m d.name).or d.default) := by
  unfold dictAccessor
  cases hg : AL.get m d.name with
  | some a => simp
  | none =>
    cases ho : d.optional with
    | true => simp
    | false => have := h ho; rw [hg] at this; cases this

/-! ### storage -/

theorem mem_del {α β : Type} [DecidableEq α] : ∀ (m : AL α β) (k : α) (kv : α × β),
    kv ∈ AL.del m k → kv ∈ m
  | [], _, _, h => by simp [AL.del] at h
  | (a, b) :: r, k, kv, h => by
    simp only [AL.del] at h
    split at h
    · exact List.mem_cons_of_mem _ (mem_del r k kv h)
    · rcases List.mem_cons.1 h with rfl | h'
      · exact List.mem_cons_self ..
      · exact List.mem_cons_of_mem _ (mem_del r k kv h')

theorem storeSizes_cons (d : Def) (sizes : Construct → SizeAttr) (c : Construct)
    (order : List Construct) (raw : RawSizes) :
    storeSizes d sizes (c :: order) raw = storeSizes d sizes order (storeStep d sizes raw c) := by
  simp only [storeSizes, List.foldl_cons]

/-- the container of construct `c` -/
def containerOf (d : Def) (c : Construct) (raw : RawSizes) : AL Construct SizeAttr :=
  if (d.get c).asProp then raw.props else raw.attrs

theorem container_storeStep_self (d : Def) (sizes : Construct → SizeAttr) (raw : RawSizes)
    (c : Construct) (hc : (d.get c).opt = .attrSized) :
    AL.get (containerOf d c (storeStep d sizes raw c)) c = some (sizes c) := by
  unfold containerOf storeStep
  cases hp : (d.get c).asProp <;> simp [hc, AL.get_set]

theorem container_storeStep_other (d : Def) (sizes : Construct → SizeAttr) (raw : RawSizes)
    (c c' : Construct) (hne : c' ≠ c) :
    AL.get (containerOf d c (storeStep d sizes raw c')) c = AL.get (containerOf d c raw) c := by
  unfold containerOf storeStep
  have hne' : ¬ c = c' := fun e => hne e.symm
  cases hp : (d.get c).asProp <;> cases hp' : (d.get c').asProp <;>
    by_cases ho : (d.get c').opt = .attrSized <;> simp [ho, AL.get_set, hne']

theorem get_container_storeSizes (d : Def) (sizes : Construct → SizeAttr) :
    ∀ (order : List Construct) (raw : RawSizes) (c : Construct), (d.get c).opt = .attrSized →
    (c ∈ order ∨ AL.get (containerOf d c raw) c = some (sizes c)) →
    AL.get (if (d.get c).asProp then (storeSizes d sizes order raw).props
            else (storeSizes d sizes order raw).attrs) c = some (sizes c)
  | [], raw, c, _, h => by
    rcases h with h | h
    · cases h
    · simpa [storeSizes, containerOf] using h
  | c' :: rest, raw, c, hc, h => by
    rw [storeSizes_cons]
    apply get_container_storeSizes d sizes rest _ c hc
    by_cases e : c' = c
    · subst e
      exact Or.inr (container_storeStep_self d sizes raw c' hc)
    · rcases h with h | h
      · rcases List.mem_cons.1 h with rfl | h'
        · exact absurd rfl e
        · exact Or.inl h'
      · exact Or.inr (by rw [container_storeStep_other d sizes raw c c' e]; exact h)

theorem storeSizes_declared' (d : Def) (sizes : Construct → SizeAttr) :
    ∀ (order : List Construct) (raw : RawSizes), undefinedSizeProp d raw = false →
    undefinedSizeProp d (storeSizes d sizes order raw) = false
  | [], _, h => h
  | c :: rest, raw, h => by
    rw [storeSizes_cons]
    apply storeSizes_declared' d sizes rest
    unfold storeStep
    split
    · rename_i hc
      split
      · rename_i hp
        unfold undefinedSizeProp at h ⊢
        rw [← Bool.not_eq_true, List.any_eq_true] at h ⊢
        rintro ⟨kv, hm, hk⟩
        simp only [AL.set, List.mem_cons] at hm
        rcases hm with rfl | hm
        · simp [declaresSizeProp, hc, hp] at hk
        · exact h ⟨kv, mem_del _ _ _ hm, hk⟩
      · exact h
    · exact h

theorem build_attr_missing {α : Type} (norm : Bool) (defs : List Seg) (opt : Opt)
    (args : List (BArg α)) (xs : List α) (attr : SizeAttr)
    (h : build norm defs opt args = some (xs, attr)) (hne : opt ≠ .attrSized) : attr = .missing := by
  unfold build at h
  cases hb : buildSegs norm defs args with
  | none => simp [hb] at h
  | some segs =>
    simp only [hb] at h
    cases opt with
    | attrSized => exact absurd rfl hne
    | none =>
      simp only [Option.some.injEq, Prod.mk.injEq] at h
      exact h.2.symm
    | sameSize =>
      simp only at h
      split at h
      · simp only [Option.some.injEq, Prod.mk.injEq] at h
        exact h.2.symm
      · cases h

end Xdsl.OpDef
