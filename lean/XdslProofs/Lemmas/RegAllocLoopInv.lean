import XdslProofs.Lemmas.RegAllocLoopStack
import XdslProofs.Lemmas.RegAllocLoopSem
/-!
C19 (loops) helper lemmas, part 4: the invariant of the allocator for blocks with loops.
`LInv` = the invariant `Inv` of the straight-line allocator (on the inner state) + what the
reservations guarantee: the values of `P` (block arguments and iter_args of the loops around the
current point) have a register that is reserved, hence not available and never handed out, although
they need not be live at this point; a live value shares a register with one of them only if the
feasibility witness `a0` puts them into one register as well.
-/
namespace Xdsl.RegAllocLoop
open Xdsl.RegMachine Xdsl.RegAlloc

/-! ### the zero constants -/

/-- `Zc` contains every value that `get_constant_value` can take to be the constant 0 -/
structure ZClosed (zi : ZInfo) (Zc : List ValId) : Prop where
  zk1 : ∀ v ∈ zi.opres, v ∈ zi.zk1 → v ∈ Zc
  mv : ∀ v ∈ zi.opres, ∀ x, AL.get zi.mvs v = some x → x ∈ Zc → v ∈ Zc

theorem isZeroNow_mem {zi : ZInfo} {Zc : List ValId} (hc : ZClosed zi Zc) {asg : AL ValId Reg}
    (h0 : ∀ w ∈ zi.opres, AL.get asg w = some 0 → w ∈ Zc) :
    ∀ (n : Nat) (v : ValId), isZeroNow zi asg n v = true → v ∈ Zc := by
  intro n
  induction n with
  | zero => intro v h; simp [isZeroNow] at h
  | succ n ih =>
    intro v h
    simp only [isZeroNow, Bool.and_eq_true, Bool.or_eq_true, List.contains_eq_mem, decide_eq_true_eq,
      beq_iff_eq] at h
    obtain ⟨hop, h⟩ := h
    rcases h with (h | h) | h
    · exact h0 v hop h
    · exact hc.zk1 v hop h
    · cases hm : AL.get zi.mvs v with
      | none => rw [hm] at h; simp at h
      | some x => rw [hm] at h; exact hc.mv v hop x hm (ih x h)

/-! ### `Inv` and the set of zero constants -/

theorem _root_.Xdsl.RegAlloc.Inv.monoZ {c : Cfg} {pre : AL ValId Reg} {A0 : List Reg} {Zc Zc' : List ValId}
    {Tie : (ValId → Reg) → Prop} {s : St} {V L : List ValId} (h : Inv c pre A0 Zc Tie s V L)
    (hsub : ∀ v ∈ Zc, v ∈ Zc') : Inv c pre A0 Zc' Tie s V L :=
  { h with
    origin := fun v r hv hp => by
      rcases h.origin v r hv hp with h1 | h1 | h1 | h1
      · exact Or.inl h1
      · exact Or.inr (Or.inl h1)
      · exact Or.inr (Or.inr (Or.inl ⟨h1.1, h1.2.1, hsub v h1.2.2⟩))
      · exact Or.inr (Or.inr (Or.inr h1)) }

theorem _root_.Xdsl.RegAlloc.Inv.dropZ {c : Cfg} {pre : AL ValId Reg} {A0 : List Reg} {Zc : List ValId}
    {Tie : (ValId → Reg) → Prop} {s : St} {V L : List ValId} (h : Inv c pre A0 Zc Tie s V L)
    {v : ValId} (hv : AL.get s.asg v = none) : Inv c pre A0 (Zc.filter (· != v)) Tie s V L :=
  { h with
    origin := fun w r hw hp => by
      rcases h.origin w r hw hp with h1 | h1 | h1 | h1
      · exact Or.inl h1
      · exact Or.inr (Or.inl h1)
      · refine Or.inr (Or.inr (Or.inl ⟨h1.1, h1.2.1, ?_⟩))
        have : w ≠ v := fun e => by rw [e, hv] at hw; simp at hw
        simp [List.mem_filter, h1.2.2, this]
      · exact Or.inr (Or.inr (Or.inr h1)) }

/-- a value without a register receives one from the stack (or a new infinite one) and is live from
here on: the stack branches of `inv_allocValue_live`, which need no feasibility witness -/
theorem inv_pop_live {c : Cfg} {pre : AL ValId Reg} {A0 : List Reg} {Zc U : List ValId}
    {Tie : (ValId → Reg) → Prop} {s s1 : St} {V M : List ValId} {v : ValId} {r : Nat}
    (hst : Static c pre A0 U) (hinv : Inv c pre A0 Zc Tie s V M)
    (hnone : AL.get s.asg v = none) (hp : pop c s = .ok (r, s1)) :
    Inv c pre A0 Zc Tie { s1 with asg := AL.set s1.asg v r } (v :: V) (v :: M) := by
  obtain ⟨hasg1, htbl, hcase⟩ := pop_cases hp
  have hasg : ({ s1 with asg := AL.set s1.asg v r } : St).asg = AL.set s.asg v r := by simp [hasg1]
  generalize hs' : ({ s1 with asg := AL.set s1.asg v r } : St) = s' at hasg ⊢
  have hav1 : s'.avail = s1.avail := by rw [← hs']
  have hni1 : s'.nextInf = s1.nextInf := by rw [← hs']
  have htbl' : s'.allocatable = s.allocatable := by rw [← hs']; exact htbl
  have hvV : v ∉ V := fun hv => by
    have := hinv.allocd v hv
    rw [hnone] at this; simp at this
  have hvM : v ∉ M := fun hv => hvV (hinv.liveSub v hv)
  have hne : ∀ w ∈ M, w ≠ v := fun w hw e => hvM (e ▸ hw)
  have hsame : ∀ w, w ≠ v → allocOf s'.asg w = allocOf s.asg w := by
    intro w hw; rw [hasg]; exact allocOf_set_ne hw
  have hnew : allocOf s'.asg v = r := by rw [hasg]; exact allocOf_set_eq
  have hget : ∀ w, AL.get s'.asg w = if w = v then some r else AL.get s.asg w := by
    intro w; rw [hasg, AL.get_set]
  have hprev : AL.get pre v = none := by
    cases hp : AL.get pre v with
    | none => rfl
    | some rp => have := hinv.ext v rp hp; rw [hnone] at this; simp at this
  have hext : ∀ w rw, AL.get pre w = some rw → AL.get s'.asg w = some rw := by
    intro w rw hw
    have hwv : w ≠ v := fun e => by rw [e, hprev] at hw; simp at hw
    rw [hget, if_neg hwv]; exact hinv.ext w rw hw
  have hallocd : ∀ w ∈ v :: V, (AL.get s'.asg w).isSome = true := by
    intro w hw
    rw [hget]
    split
    · rfl
    · rcases List.mem_cons.1 hw with hwv | hw
      · rename_i hn; exact absurd hwv hn
      · exact hinv.allocd w hw
  have honly : ∀ w, (AL.get s'.asg w).isSome = true → (AL.get pre w).isSome = true ∨ w ∈ v :: V := by
    intro w hw
    by_cases hwv : w = v
    · exact Or.inr (hwv ▸ List.mem_cons_self ..)
    · rw [hget, if_neg hwv] at hw
      exact (hinv.only w hw).imp id (List.mem_cons_of_mem _)
  have hlive : ∀ w ∈ v :: M, w ∈ v :: V := by
    intro w hw
    rcases List.mem_cons.1 hw with rfl | hw
    · exact List.mem_cons_self ..
    · exact List.mem_cons_of_mem _ (hinv.liveSub w hw)
  rcases hcase with ⟨hav, hni⟩ | ⟨hav, hav', hr, hni⟩
  · -- popped from the stack
    rw [← hav1] at hav
    rw [← hni1] at hni
    have hrmem : r ∈ s.avail := by rw [hav]; exact List.mem_cons_self ..
    have hnd := hinv.nodup
    rw [hav] at hnd
    have hr_notin : r ∉ s'.avail := (List.nodup_cons.1 hnd).1
    have hsub : ∀ x ∈ s'.avail, x ∈ s.avail := fun x hx => by rw [hav]; exact List.mem_cons_of_mem _ hx
    have hfresh : ∀ w ∈ M, allocOf s.asg w ≠ r := fun w hw e => hinv.notAvail w hw (e ▸ hrmem)
    exact {
      ext := hext, allocd := hallocd, only := honly, liveSub := hlive
      pw := fun x hx y hy hne' heq => by
        rcases List.mem_cons.1 hx with hxv | hx <;> rcases List.mem_cons.1 hy with hyv | hy
        · exact absurd (hxv.trans hyv.symm) hne'
        · rw [hxv, hnew, hsame y (hne y hy)] at heq
          exact absurd heq.symm (hfresh y hy)
        · rw [hyv, hnew, hsame x (hne x hx)] at heq
          exact absurd heq (hfresh x hx)
        · rw [hsame x (hne x hx), hsame y (hne y hy)] at heq
          rw [hsame x (hne x hx)]
          exact hinv.pw x hx y hy hne' heq
      notAvail := fun x hx => by
        rcases List.mem_cons.1 hx with hxv | hx
        · rw [hxv, hnew]; exact hr_notin
        · rw [hsame x (hne x hx)]
          exact fun hm => hinv.notAvail x hx (hsub _ hm)
      nodup := (List.nodup_cons.1 hnd).2
      availOk := fun r' hr' => by rw [hni]; exact hinv.availOk r' (hsub r' hr')
      tbl := htbl'.trans hinv.tbl
      infFresh := fun w rw hw hge => by
        rw [hni]
        rw [hget] at hw
        split at hw
        · simp only [Option.some.injEq] at hw
          subst hw
          rcases hinv.availOk r hrmem with h1 | h1
          · have := hst.allocLt r h1; omega
          · exact h1.2
        · exact hinv.infFresh w rw hw hge
      origin := fun w rw hw hp => by
        rw [hget] at hw
        split at hw
        · simp only [Option.some.injEq] at hw
          subst hw
          rcases hinv.availOk r hrmem with h1 | h1
          · exact Or.inl h1
          · exact Or.inr (Or.inl h1.1)
        · exact hinv.origin w rw hw hp }
  · -- a new infinite register
    rw [← hav1] at hav'
    rw [← hni1] at hni
    have hfresh : ∀ w ∈ M, allocOf s.asg w ≠ r := by
      intro w hw e
      have hg := get_of_isSome (hinv.allocd w (hinv.liveSub w hw))
      have := hinv.infFresh w _ hg (by rw [e, hr]; omega)
      rw [e, hr] at this; omega
    exact {
      ext := hext, allocd := hallocd, only := honly, liveSub := hlive
      pw := fun x hx y hy hne' heq => by
        rcases List.mem_cons.1 hx with hxv | hx <;> rcases List.mem_cons.1 hy with hyv | hy
        · exact absurd (hxv.trans hyv.symm) hne'
        · rw [hxv, hnew, hsame y (hne y hy)] at heq
          exact absurd heq.symm (hfresh y hy)
        · rw [hyv, hnew, hsame x (hne x hx)] at heq
          exact absurd heq (hfresh x hx)
        · rw [hsame x (hne x hx), hsame y (hne y hy)] at heq
          rw [hsame x (hne x hx)]
          exact hinv.pw x hx y hy hne' heq
      notAvail := fun x _ => by rw [hav']; simp
      nodup := by rw [hav']; exact List.nodup_nil
      availOk := fun r' hr' => by rw [hav'] at hr'; simp at hr'
      tbl := htbl'.trans hinv.tbl
      infFresh := fun w rw hw hge => by
        rw [hni]
        rw [hget] at hw
        split at hw
        · simp only [Option.some.injEq] at hw
          omega
        · have := hinv.infFresh w rw hw hge; omega
      origin := fun w rw hw hp => by
        rw [hget] at hw
        split at hw
        · simp only [Option.some.injEq] at hw
          exact Or.inr (Or.inl (by omega))
        · exact hinv.origin w rw hw hp }

/-! ### the invariant -/

structure LInv (c : Cfg) (pre : AL ValId Reg) (A0 : List Reg) (Zc : List ValId)
    (Tie : (ValId → Reg) → Prop) (zi : ZInfo) (a0 : ValId → Reg) (s : LSt) (V L P : List ValId) : Prop where
  inv : Inv c pre A0 Zc Tie s.st V L
  rpos : RPos s
  /-- reserved registers are not available -/
  rdisj : ∀ r, s.isReserved r = true → r ∉ s.st.avail
  /-- the protected values have a reserved register -/
  prot : ∀ p ∈ P, (AL.get s.st.asg p).isSome = true ∧ s.isReserved (allocOf s.st.asg p) = true ∧ p ∈ V
  pnz : c.z = true → ∀ p ∈ P, allocOf s.st.asg p ≠ 0
  /-- who shares a register with a protected value -/
  share : ∀ p ∈ P, ∀ w, (w ∈ L ∨ w ∈ P) → allocOf s.st.asg w = allocOf s.st.asg p → w = p ∨ a0 w = a0 p
  /-- an operation result in `zero` is one of the zero constants -/
  zres : c.z = true → ∀ w ∈ zi.opres, AL.get s.st.asg w = some 0 → w ∈ Zc

theorem LInv.mono {c : Cfg} {pre : AL ValId Reg} {A0 : List Reg} {Zc : List ValId}
    {Tie : (ValId → Reg) → Prop} {zi : ZInfo} {a0 : ValId → Reg} {s : LSt} {V V2 L L2 P : List ValId}
    (h : LInv c pre A0 Zc Tie zi a0 s V L P)
    (hV : ∀ v, v ∈ V ↔ v ∈ V2) (hL : ∀ v ∈ L2, v ∈ L) : LInv c pre A0 Zc Tie zi a0 s V2 L2 P :=
  { h with
    inv := h.inv.mono hV hL
    prot := fun p hp => ⟨(h.prot p hp).1, (h.prot p hp).2.1, (hV p).1 (h.prot p hp).2.2⟩
    share := fun p hp w hw => h.share p hp w (hw.imp (hL w) id) }

/-- the same state up to the log -/
theorem LInv.congr {c : Cfg} {pre : AL ValId Reg} {A0 : List Reg} {Zc : List ValId}
    {Tie : (ValId → Reg) → Prop} {zi : ZInfo} {a0 : ValId → Reg} {s s2 : LSt} {V L P : List ValId}
    (h : LInv c pre A0 Zc Tie zi a0 s V L P) (hst : s2.st = s.st) (hres : s2.reserved = s.reserved) :
    LInv c pre A0 Zc Tie zi a0 s2 V L P := by
  have hR : ∀ r, s2.isReserved r = s.isReserved r := fun r => by simp [LSt.isReserved, hres]
  exact {
    inv := hst ▸ h.inv
    rpos := fun r n hr => h.rpos r n (hres ▸ hr)
    rdisj := fun r hr => by rw [hst]; exact h.rdisj r (hR r ▸ hr)
    prot := fun p hp => by rw [hst, hR]; exact h.prot p hp
    pnz := fun hz p hp => by rw [hst]; exact h.pnz hz p hp
    share := fun p hp w hw => by rw [hst]; exact h.share p hp w hw
    zres := fun hz w hw => by rw [hst]; exact h.zres hz w hw }

section Steps
variable {x : Ctx} {pre : AL ValId Reg} {A0 : List Reg} {Zc U : List ValId}
  {Tie : (ValId → Reg) → Prop} {a0 : ValId → Reg}

/-- `allocate_value` of a value that is live from here on: an operand, a live-in, a bound -/
theorem linv_allocValue_live {s s' : LSt} {V M T P : List ValId} {v : ValId}
    (hst : Static x.c pre A0 U) (hzc : ZClosed x.zi Zc)
    (hinv : LInv x.c pre A0 Zc Tie x.zi a0 s V M P) (hvU : v ∈ U)
    (h : allocValueR x s v = .ok s')
    (hVM : v ∈ V → v ∈ M ∨ v ∈ P)
    (hext0 : ∀ v r, AL.get pre v = some r → a0 v = r) (hTie0 : Tie a0)
    (ha0 : PW x.c.z a0 T) (hMT : ∀ w ∈ M, w ∈ T) (hvT : v ∈ T)
    (hPa0 : x.c.z = true → ∀ p ∈ P, a0 p ≠ 0) :
    LInv x.c pre A0 Zc Tie x.zi a0 s' (v :: V) (v :: M) P := by
  have hI := hinv.inv
  rcases allocValueR_cases h with ⟨hsome, hss⟩ | ⟨hnone, ⟨hz, hzero, hss⟩ | ⟨r, s1, hp, hss⟩⟩
  · -- already has a register
    have hss' := hss.symm
    subst hss'
    by_cases hvM : v ∈ M
    · have hI' := inv_allocValue_live hst hI hvU (allocValue_of_isSome hsome) (fun _ => hvM) hext0 hTie0
        ha0 hMT hvT
      exact { hinv with
        inv := hI'
        prot := fun p hp => ⟨(hinv.prot p hp).1, (hinv.prot p hp).2.1, List.mem_cons_of_mem _ (hinv.prot p hp).2.2⟩
        share := fun p hp w hw => by
          refine hinv.share p hp w ?_
          rcases hw with hw | hw
          · rcases List.mem_cons.1 hw with rfl | hw
            · exact Or.inl hvM
            · exact Or.inl hw
          · exact Or.inr hw }
    · by_cases hvP : v ∈ P
      · -- a protected value becomes live
        obtain ⟨_, hres, hvV⟩ := hinv.prot v hvP
        have hclash : ∀ w ∈ M, allocOf s.st.asg w ≠ allocOf s.st.asg v := by
          intro w hw heq
          rcases hinv.share v hvP w (Or.inl hw) heq with e | e
          · exact hvM (e ▸ hw)
          · have hne : w ≠ v := fun e' => hvM (e' ▸ hw)
            have := ha0 w (hMT w hw) v hvT hne e
            exact hPa0 this.1 v hvP (e ▸ this.2)
        refine { hinv with
          inv := ?_
          prot := fun p hp => ⟨(hinv.prot p hp).1, (hinv.prot p hp).2.1, List.mem_cons_of_mem _ (hinv.prot p hp).2.2⟩
          share := fun p hp w hw => by
            refine hinv.share p hp w ?_
            rcases hw with hw | hw
            · rcases List.mem_cons.1 hw with rfl | hw
              · exact Or.inr hvP
              · exact Or.inl hw
            · exact Or.inr hw }
        exact { hI with
          allocd := fun w hw => by
            rcases List.mem_cons.1 hw with rfl | hw
            · exact hsome
            · exact hI.allocd w hw
          only := fun w hw => (hI.only w hw).imp id (List.mem_cons_of_mem _)
          liveSub := fun w hw => by
            rcases List.mem_cons.1 hw with rfl | hw
            · exact List.mem_cons_self ..
            · exact List.mem_cons_of_mem _ (hI.liveSub w hw)
          pw := fun a ha b hb hne heq => by
            rcases List.mem_cons.1 ha with ea | ha
            · rcases List.mem_cons.1 hb with eb | hb
              · exact absurd (ea.trans eb.symm) hne
              · rw [ea] at heq; exact absurd heq.symm (hclash b hb)
            · rcases List.mem_cons.1 hb with eb | hb
              · rw [eb] at heq; exact absurd heq (hclash a ha)
              · exact hI.pw a ha b hb hne heq
          notAvail := fun w hw => by
            rcases List.mem_cons.1 hw with rfl | hw
            · exact hinv.rdisj _ hres
            · exact hI.notAvail w hw }
      · have hVM' : v ∈ V → v ∈ M := fun hv => (hVM hv).resolve_right hvP
        have hI' := inv_allocValue_live hst hI hvU (allocValue_of_isSome hsome) hVM' hext0 hTie0 ha0 hMT hvT
        -- `v` is pre-assigned and not seen so far
        have hvV : v ∉ V := fun hv => hvM (hVM' hv)
        have hpre : (AL.get pre v).isSome = true := (hI.only v hsome).resolve_right hvV
        obtain ⟨rv, hrv⟩ := Option.isSome_iff_exists.1 hpre
        have hasgv : AL.get s.st.asg v = some rv := hI.ext v rv hrv
        exact { hinv with
          inv := hI'
          prot := fun p hp => ⟨(hinv.prot p hp).1, (hinv.prot p hp).2.1, List.mem_cons_of_mem _ (hinv.prot p hp).2.2⟩
          share := fun p hp w hw heq => by
            rcases hw with hw | hw
            · rcases List.mem_cons.1 hw with rfl | hw
              · -- the pre-assigned register of `w` is the register of `p`: `p` is forced into it
                right
                rw [hext0 w rv hrv]
                obtain ⟨hpS, _, _⟩ := hinv.prot p hp
                have hgp := get_of_isSome hpS
                rw [allocOf_of_get hasgv] at heq
                rw [← heq] at hgp
                cases hpp : AL.get pre p with
                | some rp =>
                  have := hI.ext p rp hpp
                  rw [hgp] at this
                  simp only [Option.some.injEq] at this
                  rw [hext0 p rp hpp, this]
                | none =>
                  rcases hI.origin p rv hgp hpp with h1 | h1 | h1 | h1
                  · exact absurd h1 (hst.usedOut w hvU rv hrv)
                  · have := hst.preLt w rv hrv; omega
                  · exact absurd (heq ▸ h1.2.1) (hinv.pnz h1.1 p hp)
                  · exact (h1 a0 hext0 hTie0).symm
              · exact hinv.share p hp w (Or.inl hw) heq
            · exact hinv.share p hp w (Or.inr hw) heq }
  · -- constant 0: the zero register
    have hss' := hss.symm
    subst hss'
    have hvZ : v ∈ Zc := isZeroNow_mem hzc (fun w hw h0 => hinv.zres hz w hw h0) _ v hzero
    have hav : allocValue x.c Zc s.st v = .ok (setReg s v 0).st := by
      unfold allocValue
      simp [hnone, hz, hvZ, setReg]
    have hVM' : v ∈ V → v ∈ M := fun hv => by
      have := hI.allocd v hv; rw [hnone] at this; simp at this
    have hI' := inv_allocValue_live hst hI hvU hav hVM' hext0 hTie0 ha0 hMT hvT
    have hne : ∀ p ∈ P, p ≠ v := fun p hp e => by
      have := (hinv.prot p hp).1; rw [e, hnone] at this; simp at this
    have hsame : ∀ w, w ≠ v → allocOf (setReg s v 0).st.asg w = allocOf s.st.asg w :=
      fun w hw => allocOf_set_ne hw
    exact {
      inv := hI'
      rpos := hinv.rpos
      rdisj := hinv.rdisj
      prot := fun p hp => by
        obtain ⟨h1, h2, h3⟩ := hinv.prot p hp
        refine ⟨?_, ?_, List.mem_cons_of_mem _ h3⟩
        · simp [setReg, AL.get_set, hne p hp, h1]
        · rw [hsame p (hne p hp)]; exact h2
      pnz := fun hz' p hp => by rw [hsame p (hne p hp)]; exact hinv.pnz hz' p hp
      share := fun p hp w hw heq => by
        rw [hsame p (hne p hp)] at heq
        by_cases hwv : w = v
        · subst hwv
          simp only [setReg] at heq
          rw [allocOf_set_eq] at heq
          exact absurd heq.symm (hinv.pnz hz p hp)
        · rw [hsame w hwv] at heq
          refine hinv.share p hp w ?_ heq
          rcases hw with hw | hw
          · exact Or.inl ((List.mem_cons.1 hw).resolve_left hwv)
          · exact Or.inr hw
      zres := fun hz' w hw h0 => by
        by_cases hwv : w = v
        · exact hwv ▸ hvZ
        · simp only [setReg, AL.get_set, if_neg hwv] at h0
          exact hinv.zres hz' w hw h0 }
  · -- a register from the stack
    have hss' := hss.symm
    subst hss'
    obtain ⟨hp', hres1, hnr, _⟩ := popR_ok hp
    have hav : allocValue x.c (Zc.filter (· != v)) s.st v = .ok (setReg s1 v r).st := by
      unfold allocValue
      have : (Zc.filter (· != v)).contains v = false := by simp [List.mem_filter]
      simp [hnone, this, hp', setReg]
    have hVM' : v ∈ V → v ∈ M := fun hv => by
      have := hI.allocd v hv; rw [hnone] at this; simp at this
    have hI' := (inv_allocValue_live hst (hI.dropZ hnone) hvU hav hVM' hext0 hTie0 ha0 hMT hvT).monoZ
      (fun w hw => (List.mem_filter.1 hw).1)
    obtain ⟨hasg1, _, hcase⟩ := pop_cases hp'
    have hne : ∀ p ∈ P, p ≠ v := fun p hp e => by
      have := (hinv.prot p hp).1; rw [e, hnone] at this; simp at this
    have hsame : ∀ w, w ≠ v → allocOf (setReg s1 v r).st.asg w = allocOf s.st.asg w := by
      intro w hw
      simp only [setReg]
      rw [allocOf_set_ne hw, hasg1]
    have hR : ∀ q, (setReg s1 v r).isReserved q = s.isReserved q := fun q => by
      simp [LSt.isReserved, setReg, hres1]
    have havsub : ∀ q ∈ (setReg s1 v r).st.avail, q ∈ s.st.avail := by
      intro q hq
      rcases hcase with ⟨h1, _⟩ | ⟨_, h1, _, _⟩
      · rw [h1]; exact List.mem_cons_of_mem _ hq
      · have : (setReg s1 v r).st.avail = s1.st.avail := rfl
        rw [this, h1] at hq; simp at hq
    -- the popped register is the register of no protected value
    have hrp : ∀ p ∈ P, allocOf s.st.asg p ≠ r := by
      intro p hp e
      obtain ⟨hpS, hpR, _⟩ := hinv.prot p hp
      rcases hcase with ⟨h1, _⟩ | ⟨_, _, h1, _⟩
      · have : r ∈ s.st.avail := by rw [h1]; exact List.mem_cons_self ..
        exact hinv.rdisj r (e ▸ hpR) this
      · have hge : x.c.infBase ≤ r := by rw [h1]; exact Nat.le_add_right _ _
        have := hI.infFresh p r (e ▸ get_of_isSome hpS) hge
        rw [h1] at this
        exact absurd this (Nat.lt_irrefl _)
    have hr0 : x.c.z = true → r ≠ 0 := by
      intro hz e
      rcases hcase with ⟨h1, _⟩ | ⟨_, _, h1, _⟩
      · have hm : r ∈ s.st.avail := by rw [h1]; exact List.mem_cons_self ..
        rcases hI.availOk r hm with h2 | h2
        · exact hst.zeroNotAlloc hz (e ▸ h2)
        · have hb := hst.basePos hz
          rw [e] at h2
          exact absurd (Nat.lt_of_lt_of_le hb h2.1) (Nat.lt_irrefl _)
      · have hb := hst.basePos hz
        rw [h1] at e
        exact absurd (Nat.eq_zero_of_add_eq_zero_right e) (Nat.ne_of_gt hb)
    exact {
      inv := hI'
      rpos := fun q n hq => hinv.rpos q n (by simpa [setReg, hres1] using hq)
      rdisj := fun q hq hm => hinv.rdisj q (hR q ▸ hq) (havsub q hm)
      prot := fun p hp => by
        obtain ⟨h1, h2, h3⟩ := hinv.prot p hp
        refine ⟨?_, ?_, List.mem_cons_of_mem _ h3⟩
        · simp [setReg, AL.get_set, hne p hp, hasg1, h1]
        · rw [hsame p (hne p hp), hR]; exact h2
      pnz := fun hz' p hp => by rw [hsame p (hne p hp)]; exact hinv.pnz hz' p hp
      share := fun p hp w hw heq => by
        rw [hsame p (hne p hp)] at heq
        by_cases hwv : w = v
        · subst hwv
          simp only [setReg] at heq
          rw [allocOf_set_eq] at heq
          exact absurd heq.symm (hrp p hp)
        · rw [hsame w hwv] at heq
          refine hinv.share p hp w ?_ heq
          rcases hw with hw | hw
          · exact Or.inl ((List.mem_cons.1 hw).resolve_left hwv)
          · exact Or.inr hw
      zres := fun hz' w hw h0 => by
        by_cases hwv : w = v
        · subst hwv
          simp [setReg, AL.get_set] at h0
          exact absurd h0 (hr0 hz')
        · simp only [setReg, AL.get_set, if_neg hwv, hasg1] at h0
          exact hinv.zres hz' w hw h0 }

/-- a value that has no register receives one from the stack and is live from here on -/
theorem linv_pop_live {s s1 : LSt} {V M P : List ValId} {v : ValId} {r : Reg}
    (hst : Static x.c pre A0 U)
    (hinv : LInv x.c pre A0 Zc Tie x.zi a0 s V M P) (hvU : v ∈ U)
    (hnone : AL.get s.st.asg v = none) (hp : popR x.c s = .ok (r, s1)) :
    LInv x.c pre A0 Zc Tie x.zi a0 (setReg s1 v r) (v :: V) (v :: M) P
    ∧ (x.c.z = true → r ≠ 0) ∧ r ∉ s1.st.avail := by
  have hI := hinv.inv
  obtain ⟨hp', hres1, hnr, _⟩ := popR_ok hp
  have hI' : Inv x.c pre A0 Zc Tie (setReg s1 v r).st (v :: V) (v :: M) := inv_pop_live hst hI hnone hp'
  obtain ⟨hasg1, _, hcase⟩ := pop_cases hp'
  have hne : ∀ p ∈ P, p ≠ v := fun p hp e => by
    have := (hinv.prot p hp).1; rw [e, hnone] at this; simp at this
  have hsame : ∀ w, w ≠ v → allocOf (setReg s1 v r).st.asg w = allocOf s.st.asg w := by
    intro w hw
    simp only [setReg]
    rw [allocOf_set_ne hw, hasg1]
  have hR : ∀ q, (setReg s1 v r).isReserved q = s.isReserved q := fun q => by
    simp [LSt.isReserved, setReg, hres1]
  have havsub : ∀ q ∈ (setReg s1 v r).st.avail, q ∈ s.st.avail := by
    intro q hq
    rcases hcase with ⟨h1, _⟩ | ⟨_, h1, _, _⟩
    · rw [h1]; exact List.mem_cons_of_mem _ hq
    · have : (setReg s1 v r).st.avail = s1.st.avail := rfl
      rw [this, h1] at hq; simp at hq
  -- the popped register is the register of no protected value
  have hrp : ∀ p ∈ P, allocOf s.st.asg p ≠ r := by
    intro p hp e
    obtain ⟨hpS, hpR, _⟩ := hinv.prot p hp
    rcases hcase with ⟨h1, _⟩ | ⟨_, _, h1, _⟩
    · have : r ∈ s.st.avail := by rw [h1]; exact List.mem_cons_self ..
      exact hinv.rdisj r (e ▸ hpR) this
    · have hge : x.c.infBase ≤ r := by rw [h1]; exact Nat.le_add_right _ _
      have := hI.infFresh p r (e ▸ get_of_isSome hpS) hge
      rw [h1] at this
      exact absurd this (Nat.lt_irrefl _)
  have hr0 : x.c.z = true → r ≠ 0 := by
    intro hz e
    rcases hcase with ⟨h1, _⟩ | ⟨_, _, h1, _⟩
    · have hm : r ∈ s.st.avail := by rw [h1]; exact List.mem_cons_self ..
      rcases hI.availOk r hm with h2 | h2
      · exact hst.zeroNotAlloc hz (e ▸ h2)
      · have hb := hst.basePos hz
        rw [e] at h2
        exact absurd (Nat.lt_of_lt_of_le hb h2.1) (Nat.lt_irrefl _)
    · have hb := hst.basePos hz
      rw [h1] at e
      exact absurd (Nat.eq_zero_of_add_eq_zero_right e) (Nat.ne_of_gt hb)
  refine ⟨{
    inv := hI'
    rpos := fun q n hq => hinv.rpos q n (by simpa [setReg, hres1] using hq)
    rdisj := fun q hq hm => hinv.rdisj q (hR q ▸ hq) (havsub q hm)
    prot := fun p hp => by
      obtain ⟨h1, h2, h3⟩ := hinv.prot p hp
      refine ⟨?_, ?_, List.mem_cons_of_mem _ h3⟩
      · simp [setReg, AL.get_set, hne p hp, hasg1, h1]
      · rw [hsame p (hne p hp), hR]; exact h2
    pnz := fun hz' p hp => by rw [hsame p (hne p hp)]; exact hinv.pnz hz' p hp
    share := fun p hp w hw heq => by
      rw [hsame p (hne p hp)] at heq
      by_cases hwv : w = v
      · subst hwv
        simp only [setReg] at heq
        rw [allocOf_set_eq] at heq
        exact absurd heq.symm (hrp p hp)
      · rw [hsame w hwv] at heq
        refine hinv.share p hp w ?_ heq
        rcases hw with hw | hw
        · exact Or.inl ((List.mem_cons.1 hw).resolve_left hwv)
        · exact Or.inr hw
    zres := fun hz' w hw h0 => by
      by_cases hwv : w = v
      · subst hwv
        simp [setReg, AL.get_set] at h0
        exact absurd h0 (hr0 hz')
      · simp only [setReg, AL.get_set, if_neg hwv, hasg1] at h0
        exact hinv.zres hz' w hw h0 }, hr0, ?_⟩
  intro hm
  rcases hcase with ⟨h1, _⟩ | ⟨_, h1, _, _⟩
  · have hnd := hI.nodup
    rw [h1] at hnd
    exact (List.nodup_cons.1 hnd).1 hm
  · rw [h1] at hm; simp at hm


/-- several values become live -/
theorem lfold_live {T P : List ValId}
    (hst : Static x.c pre A0 U) (hzc : ZClosed x.zi Zc)
    (hext0 : ∀ v r, AL.get pre v = some r → a0 v = r) (hTie0 : Tie a0) (ha0 : PW x.c.z a0 T)
    (hPa0 : x.c.z = true → ∀ p ∈ P, a0 p ≠ 0) :
    ∀ (vs : List ValId) (s s' : LSt) (V M : List ValId),
      foldL (allocValueR x) s vs = .ok s' → LInv x.c pre A0 Zc Tie x.zi a0 s V M P →
      (∀ v ∈ vs, v ∈ U) → (∀ v ∈ vs, v ∈ T) → (∀ w ∈ M, w ∈ T) → (∀ v ∈ vs, v ∈ V → v ∈ M ∨ v ∈ P) →
      LInv x.c pre A0 Zc Tie x.zi a0 s' (vs.reverse ++ V) (vs.reverse ++ M) P ∧ LExt s s' := by
  intro vs
  induction vs with
  | nil =>
    intro s s' V M h hinv _ _ _ _
    simp only [foldL, Except.ok.injEq] at h
    subst h
    exact ⟨by simpa using hinv, LExt.refl _⟩
  | cons v vs ih =>
    intro s s' V M h hinv hU hT hMT hVM
    rw [foldL_cons] at h
    split at h
    · exact absurd h (by simp)
    · rename_i s1 hs1
      have hinv1 := linv_allocValue_live hst hzc hinv (hU v (List.mem_cons_self ..)) hs1
        (hVM v (List.mem_cons_self ..)) hext0 hTie0 ha0 hMT (hT v (List.mem_cons_self ..)) hPa0
      have := ih s1 s' (v :: V) (v :: M) h hinv1
        (fun y hy => hU y (List.mem_cons_of_mem _ hy))
        (fun y hy => hT y (List.mem_cons_of_mem _ hy))
        (fun w hw => by
          rcases List.mem_cons.1 hw with rfl | hw
          · exact hT w (List.mem_cons_self ..)
          · exact hMT w hw)
        (fun y hy hyV => by
          rcases List.mem_cons.1 hyV with hyv | hyV
          · exact Or.inl (hyv ▸ List.mem_cons_self ..)
          · exact (hVM y (List.mem_cons_of_mem _ hy) hyV).imp (List.mem_cons_of_mem _) id)
      refine ⟨?_, (allocValueR_ext hs1).trans this.2⟩
      have h1 := this.1
      simp only [List.reverse_cons, List.append_assoc, List.singleton_append]
      exact h1

/-- `free_value`: the register goes back on the stack unless it is reserved -/
theorem linv_free {s : LSt} {V L P : List ValId} {d : ValId}
    (hst : Static x.c pre A0 U) (hinv : LInv x.c pre A0 Zc Tie x.zi a0 s V L P)
    (hd : (AL.get s.st.asg d).isSome = true)
    (hclash : ∀ w ∈ L, allocOf s.st.asg w = allocOf s.st.asg d → (x.c.z = true ∧ allocOf s.st.asg d = 0)) :
    LInv x.c pre A0 Zc Tie x.zi a0 (freeValueR x.c s d) V L P ∧ (freeValueR x.c s d).st.asg = s.st.asg := by
  refine ⟨?_, freeValueR_asg ..⟩
  have hg := get_of_isSome hd
  unfold freeValueR
  rw [hg]
  simp only
  unfold pushR
  split
  · exact hinv.congr rfl rfl
  · rename_i hres
    have hfree : freeValue x.c s.st d = push x.c s.st (allocOf s.st.asg d) := by
      unfold freeValue; rw [hg]
    obtain ⟨hI', hasg'⟩ := inv_free hst hinv.inv hd hclash
    rw [hfree] at hI' hasg'
    have hav : ∀ q ∈ (push x.c s.st (allocOf s.st.asg d)).avail, q = allocOf s.st.asg d ∨ q ∈ s.st.avail := by
      intro q hq
      unfold push at hq
      split at hq
      · exact Or.inr hq
      · simp only [List.mem_cons, List.mem_filter] at hq
        exact hq.imp id (fun h => h.1)
    exact {
      inv := hI'
      rpos := hinv.rpos
      rdisj := fun q hq hm => by
        rcases hav q hm with e | e
        · rw [e] at hq; exact hres hq
        · exact hinv.rdisj q hq e
      prot := fun p hp => by
        show (AL.get (push x.c s.st (allocOf s.st.asg d)).asg p).isSome = true ∧ _
        rw [hasg']; exact hinv.prot p hp
      pnz := fun hz p hp => by
        show allocOf (push x.c s.st (allocOf s.st.asg d)).asg p ≠ 0
        rw [hasg']; exact hinv.pnz hz p hp
      share := fun p hp w hw => by
        show allocOf (push x.c s.st (allocOf s.st.asg d)).asg w = allocOf (push x.c s.st (allocOf s.st.asg d)).asg p → _
        rw [hasg']; exact hinv.share p hp w hw
      zres := fun hz w hw => by
        show AL.get (push x.c s.st (allocOf s.st.asg d)).asg w = some 0 → _
        rw [hasg']; exact hinv.zres hz w hw }

theorem lfold_free {V L P : List ValId} (hst : Static x.c pre A0 U) :
    ∀ (ds : List ValId) (s : LSt), LInv x.c pre A0 Zc Tie x.zi a0 s V L P →
      (∀ d ∈ ds, (AL.get s.st.asg d).isSome = true) →
      (∀ d ∈ ds, ∀ w ∈ L, allocOf s.st.asg w = allocOf s.st.asg d → (x.c.z = true ∧ allocOf s.st.asg d = 0)) →
      LInv x.c pre A0 Zc Tie x.zi a0 (ds.foldl (freeValueR x.c) s) V L P
      ∧ (ds.foldl (freeValueR x.c) s).st.asg = s.st.asg := by
  intro ds
  induction ds with
  | nil => intro s hinv _ _; exact ⟨hinv, rfl⟩
  | cons d ds ih =>
    intro s hinv hsome hclash
    have hd := List.mem_cons_self (a := d) (l := ds)
    obtain ⟨hinv1, hasg1⟩ := linv_free hst hinv (hsome d hd) (hclash d hd)
    have := ih (freeValueR x.c s d) hinv1
      (fun y hy => by rw [hasg1]; exact hsome y (List.mem_cons_of_mem _ hy))
      (fun y hy w hw => by rw [hasg1]; exact hclash y (List.mem_cons_of_mem _ hy) w hw)
    simp only [List.foldl_cons]
    exact ⟨this.1, this.2.trans hasg1⟩

theorem LExt.allocOf {s s' : LSt} (h : LExt s s') {w : ValId} (hw : (AL.get s.st.asg w).isSome = true) :
    allocOf s'.st.asg w = allocOf s.st.asg w := by
  obtain ⟨r, hr⟩ := Option.isSome_iff_exists.1 hw
  rw [allocOf_of_get hr, allocOf_of_get (h w r hr)]

/-- One plain operation (no in/out pairs: RISC-V): results allocated and freed, operands allocated;
the operation passes the validator with the resulting assignment. -/
theorem allocOpR_step {o : Op} {Z V' L' P : List ValId} {s s' : LSt}
    (hst : Static x.c pre A0 U) (hzc : ZClosed x.zi Zc)
    (hext0 : ∀ v r, AL.get pre v = some r → a0 v = r) (hTie0 : Tie a0)
    (hPa0 : x.c.z = true → ∀ p ∈ P, a0 p ≠ 0)
    (hio : o.ios = [])
    (hU : ∀ v, v ∈ o.reads ∨ v ∈ o.defs → v ∈ U)
    (h : allocOpR x s o = .ok s')
    (hinv : LInv x.c pre A0 Zc Tie x.zi a0 s V' L' P)
    (hgood : opOk x.c.z a0 Z (Z ++ newZero true Z o) o L' = true)
    (hpw0 : PW x.c.z a0 (liveIn o L'))
    (hZc : ∀ d ∈ o.defs, d ∈ Zc → d ∈ Z ++ newZero true Z o)
    (hRD : ∀ v ∈ o.reads, v ∉ o.defs)
    (hVLd : ∀ d ∈ o.defs, d ∈ V' → d ∈ L')
    (hVLr : ∀ v ∈ o.reads, v ∈ V' → v ∈ L' ∨ v ∈ P) :
    ∃ V, (∀ v, v ∈ V ↔ (v ∈ o.reads ∨ v ∈ o.defs ∨ v ∈ V'))
      ∧ LInv x.c pre A0 Zc Tie x.zi a0 s' V (liveIn o L') P ∧ LExt s s'
      ∧ opOk x.c.z (allocOf s'.st.asg) Z (Z ++ newZero true Z o) o L' = true := by
  have hreads : o.reads = o.ins := by simp [Op.reads, hio]
  have hdefs : o.defs = o.outs := by simp [Op.defs, hio]
  unfold allocOpR at h
  rw [hio] at h
  simp only [foldL] at h
  split at h
  · exact absurd h (by simp)
  rename_i s2 hs2
  obtain ⟨hnd, hdZ, hclash0, hzero0, _⟩ := opOk_iff.1 hgood
  have hpwL' : PW x.c.z a0 L' := pw_step hgood hpw0
  have hpwT : PW x.c.z a0 (o.defs ++ L') := by
    intro a ha b hb hne heq
    rcases List.mem_append.1 ha with had | haL
    · exact hclash0 a had b hb (fun e => hne e.symm) heq.symm
    · rcases List.mem_append.1 hb with hbd | hbL
      · have := hclash0 b hbd a ha hne heq
        exact ⟨this.1, heq ▸ this.2⟩
      · exact hpwL' a haL b hbL hne heq
  -- results
  obtain ⟨hinv2, hext2⟩ := lfold_live hst hzc hext0 hTie0 hpwT hPa0 o.outs s s2 V' L' hs2 hinv
    (fun v hv => hU v (Or.inr (hdefs ▸ hv))) (fun v hv => List.mem_append_left _ (hdefs ▸ hv))
    (fun w hw => List.mem_append_right _ hw)
    (fun v hv hvV => Or.inl (hVLd v (hdefs ▸ hv) hvV))
  -- free the results
  let L'' := L'.filter fun v => !o.defs.contains v
  have hL''L : ∀ w ∈ L'', w ∈ L' := fun w hw => (List.mem_filter.1 hw).1
  have hL''d : ∀ w ∈ L'', w ∉ o.defs := fun w hw => by simpa using (List.mem_filter.1 hw).2
  have hsome2 : ∀ d ∈ o.outs, (AL.get s2.st.asg d).isSome = true := fun d hd =>
    hinv2.inv.allocd d (List.mem_append_left _ (List.mem_reverse.2 hd))
  have hinv2' : LInv x.c pre A0 Zc Tie x.zi a0 s2 (o.outs.reverse ++ V') L'' P :=
    hinv2.mono (fun _ => Iff.rfl) (fun v hv => List.mem_append_right _ (hL''L v hv))
  obtain ⟨hinv3, hasg3⟩ := lfold_free hst o.outs.reverse s2 hinv2'
    (fun d hd => hsome2 d (List.mem_reverse.1 hd))
    (fun d hd w hw heq => by
      have hd' := List.mem_reverse.1 hd
      have hwne : w ≠ d := fun e => hL''d w hw (e ▸ (hdefs ▸ hd'))
      have hwM : w ∈ o.outs.reverse ++ L' := List.mem_append_right _ (hL''L w hw)
      have := hinv2.inv.pw w hwM d (List.mem_append_left _ hd) hwne heq
      exact ⟨this.1, heq ▸ this.2⟩)
  have hext3 : LExt s2 (o.outs.reverse.foldl (freeValueR x.c) s2) := lext_of_asg hasg3
  -- operands
  obtain ⟨hinv4, hext4⟩ := lfold_live hst hzc hext0 hTie0 hpw0 hPa0 o.ins _ s' _ _ h hinv3
    (fun v hv => hU v (Or.inl (hreads ▸ hv))) (fun v hv => mem_liveIn_reads (hreads ▸ hv))
    (fun w hw => mem_liveIn_of_live (hL''L w hw) (hL''d w hw))
    (fun v hv hvV => by
      have hvd : v ∉ o.defs := hRD v (hreads ▸ hv)
      rcases List.mem_append.1 hvV with h1 | h1
      · exact absurd (hdefs ▸ List.mem_reverse.1 h1) hvd
      · rcases hVLr v (hreads ▸ hv) h1 with h2 | h2
        · exact Or.inl (List.mem_filter.2 ⟨h2, by simpa using hvd⟩)
        · exact Or.inr h2)
  have hextAll : LExt s2 s' := hext3.trans hext4
  refine ⟨o.ins.reverse ++ (o.outs.reverse ++ V'), ?_, ?_, hext2.trans hextAll, ?_⟩
  · intro v
    simp only [List.mem_append, List.mem_reverse, hreads, hdefs]
  · refine hinv4.mono (fun _ => Iff.rfl) ?_
    intro v hv
    rcases mem_liveIn.1 hv with h1 | ⟨h1, h2⟩
    · exact List.mem_append_left _ (List.mem_reverse.2 (hreads ▸ h1))
    · exact List.mem_append_right _ (List.mem_filter.2 ⟨h1, by simpa using h2⟩)
  · -- the operation passes the validator with the final assignment
    have hsomeD : ∀ d ∈ o.defs, (AL.get s2.st.asg d).isSome = true := fun d hd => hsome2 d (hdefs ▸ hd)
    have hmemM : ∀ w ∈ o.defs ++ L', w ∈ o.outs.reverse ++ L' := by
      intro w hw
      rcases List.mem_append.1 hw with h1 | h1
      · exact List.mem_append_left _ (List.mem_reverse.2 (hdefs ▸ h1))
      · exact List.mem_append_right _ h1
    rw [opOk_iff]
    refine ⟨hnd, hdZ, ?_, ?_, ?_⟩
    · intro d hd w hw hne heq
      have hdS := hsomeD d hd
      have hwM := hmemM w hw
      have hwS : (AL.get s2.st.asg w).isSome = true := hinv2.inv.allocd w (hinv2.inv.liveSub w hwM)
      rw [hextAll.allocOf hdS, hextAll.allocOf hwS] at heq
      rw [hextAll.allocOf hdS]
      have := hinv2.inv.pw w hwM d (hmemM d (List.mem_append_left _ hd)) hne heq
      exact ⟨this.1, heq ▸ this.2⟩
    · intro hz d hd h0
      have hdS := hsomeD d hd
      rw [hextAll.allocOf hdS] at h0
      have hg := get_of_isSome hdS
      rw [h0] at hg
      cases hp : AL.get pre d with
      | some r =>
        have := hinv2.inv.ext d r hp
        rw [hg] at this
        simp only [Option.some.injEq] at this
        have ha0 : a0 d = 0 := by rw [hext0 d r hp, ← this]
        exact hzero0 hz d hd ha0
      | none =>
        rcases hinv2.inv.origin d 0 hg hp with h1 | h1 | h1 | h1
        · exact absurd h1 (hst.zeroNotAlloc hz)
        · have := hst.basePos hz; omega
        · exact hZc d hd h1.2.2
        · exact hzero0 hz d hd (h1 a0 hext0 hTie0)
    · intro p hp
      rw [hio] at hp; simp at hp

end Steps

end Xdsl.RegAllocLoop
