import XdslModel.ParallelMov
import XdslProofs.Lemmas.AL
/-!
Lemmas for C20: register machine facts and soundness of symbolic execution over xor-sets.
-/
namespace Xdsl.ParallelMov

variable {n : Nat}

/-! ### register machine -/

theorem rd_zero (ρ : RegFile n) : rd ρ Reg.zero = 0 := by simp [rd]

theorem rd_of_ne {ρ : RegFile n} {r : Reg} (h : r ≠ Reg.zero) : rd ρ r = ρ r := by simp [rd, h]

theorem rd_wr (ρ : RegFile n) (d r : Reg) (v : BitVec n) :
    rd (wr ρ d v) r = if r = d ∧ d ≠ Reg.zero then v else rd ρ r := by
  unfold rd wr
  by_cases hz : r = Reg.zero
  · subst hz
    by_cases hd : Reg.zero = d
    · subst hd; simp
    · simp [hd]
  · simp only [hz, if_false]

theorem rd_wr_same {ρ : RegFile n} {d : Reg} (v : BitVec n) (h : d ≠ Reg.zero) :
    rd (wr ρ d v) d = v := by simp [rd_wr, h]

theorem rd_wr_ne {ρ : RegFile n} {d r : Reg} (v : BitVec n) (h : r ≠ d) :
    rd (wr ρ d v) r = rd ρ r := by simp [rd_wr, h]

theorem rd_wr_zero (ρ : RegFile n) (r : Reg) (v : BitVec n) :
    rd (wr ρ Reg.zero v) r = rd ρ r := by simp [rd_wr]

theorem exec_nil (ρ : RegFile n) : exec [] ρ = ρ := rfl

theorem exec_cons (i : Instr) (is : List Instr) (ρ : RegFile n) :
    exec (i :: is) ρ = exec is (step ρ i) := rfl

theorem exec_append (a b : List Instr) (ρ : RegFile n) : exec (a ++ b) ρ = exec b (exec a ρ) := by
  simp [exec, List.foldl_append]

theorem exec_snoc (a : List Instr) (i : Instr) (ρ : RegFile n) :
    exec (a ++ [i]) ρ = step (exec a ρ) i := by
  simp [exec]

/-! ### denotation of symbolic contents -/

/-- xor of the initial contents of the registers of `l` -/
def den (ρ : RegFile n) (l : Sym) : BitVec n := l.foldr (fun r acc => rd ρ r ^^^ acc) 0

@[simp] theorem den_nil (ρ : RegFile n) : den ρ [] = 0 := rfl

@[simp] theorem den_cons (ρ : RegFile n) (r : Reg) (l : Sym) : den ρ (r :: l) = rd ρ r ^^^ den ρ l := rfl

theorem den_erase (ρ : RegFile n) (r : Reg) (l : Sym) (h : r ∈ l) :
    den ρ l = rd ρ r ^^^ den ρ (l.erase r) := by
  induction l with
  | nil => simp at h
  | cons a t ih =>
    by_cases e : a = r
    · subst e; simp
    · have ht : r ∈ t := by
        rcases List.mem_cons.mp h with h | h
        · exact absurd h.symm e
        · exact h
      have : (a :: t).erase r = a :: t.erase r := by
        simp [e]
      rw [this, den_cons, den_cons, ih ht]
      rw [← BitVec.xor_assoc, ← BitVec.xor_assoc, BitVec.xor_comm (rd ρ a)]

theorem den_toggle (ρ : RegFile n) (r : Reg) (l : Sym) :
    den ρ (toggle r l) = rd ρ r ^^^ den ρ l := by
  unfold toggle
  split
  · rename_i h
    rw [den_erase ρ r l h, ← BitVec.xor_assoc, BitVec.xor_self, BitVec.zero_xor]
  · rfl

theorem den_xorSym (ρ : RegFile n) (a b : Sym) : den ρ (xorSym a b) = den ρ a ^^^ den ρ b := by
  induction a with
  | nil => simp [xorSym]
  | cons x t ih =>
    have : xorSym (x :: t) b = toggle x (xorSym t b) := rfl
    rw [this, den_toggle, ih, den_cons, BitVec.xor_assoc]

/-! ### symbolic state -/

theorem symRd_wr (σ : SymSt) (d r : Reg) (v : Sym) :
    (σ.wr d v).rd r = if r = d ∧ d ≠ Reg.zero then v else σ.rd r := by
  unfold SymSt.wr SymSt.rd
  by_cases hd : d = Reg.zero
  · subst hd; simp
  · simp only [hd, if_false]
    by_cases hz : r = Reg.zero
    · subst hz
      have : ¬ Reg.zero = d := fun e => hd e.symm
      simp [this]
    · simp only [hz, if_false, AL.get_set]
      by_cases e : r = d
      · simp [e, hd]
      · simp [e]

/-- The concrete state `ρ` is what the symbolic state `σ` says about the initial state `ρ₀`. -/
def Agree (σ : SymSt) (ρ₀ ρ : RegFile n) : Prop := ∀ r, rd ρ r = den ρ₀ (σ.rd r)

theorem agree_init (ρ : RegFile n) : Agree ([] : SymSt) ρ ρ := by
  intro r
  unfold SymSt.rd
  by_cases h : r = Reg.zero
  · subst h; simp [rd_zero]
  · simp [h]

theorem agree_wr {σ : SymSt} {ρ₀ ρ : RegFile n} (h : Agree σ ρ₀ ρ) (d : Reg) (s : Sym)
    (v : BitVec n) (hv : v = den ρ₀ s) : Agree (σ.wr d s) ρ₀ (wr ρ d v) := by
  intro r
  rw [rd_wr, symRd_wr]
  split
  · exact hv
  · exact h r

theorem agree_step {σ : SymSt} {ρ₀ ρ : RegFile n} (h : Agree σ ρ₀ ρ) (i : Instr) :
    Agree (symStep σ i) ρ₀ (step ρ i) := by
  cases i with
  | mv d s => exact agree_wr h d _ _ (h s)
  | fmv w d s => exact agree_wr h d _ _ (h s)
  | xor d a b =>
    refine agree_wr h d _ _ ?_
    rw [den_xorSym, h a, h b]

theorem agree_foldl (is : List Instr) {σ : SymSt} {ρ₀ ρ : RegFile n} (h : Agree σ ρ₀ ρ) :
    Agree (is.foldl symStep σ) ρ₀ (is.foldl step ρ) := by
  induction is generalizing σ ρ with
  | nil => exact h
  | cons i t ih => exact ih (agree_step h i)

/-- Symbolic execution is sound for every initial register file. -/
theorem agree_symExec (is : List Instr) (ρ : RegFile n) : Agree (symExec is) ρ (exec is ρ) :=
  agree_foldl is (agree_init ρ)

/-- registers without an entry in the symbolic state still hold their initial content -/
theorem symRd_of_get_none {σ : SymSt} {r : Reg} (h : AL.get σ r = none) :
    σ.rd r = if r = Reg.zero then [] else [r] := by
  simp [SymSt.rd, h]

theorem mem_of_get_some {σ : SymSt} {r : Reg} {v : Sym} (h : AL.get σ r = some v) :
    (r, v) ∈ σ := by
  induction σ with
  | nil => simp at h
  | cons p t ih =>
    obtain ⟨a, b⟩ := p
    rw [AL.get_cons] at h
    split at h
    · rename_i e; subst e; cases h; simp
    · exact List.mem_cons_of_mem _ (ih h)

end Xdsl.ParallelMov
