import XdslModel.PyInt
import XdslModel.Generated.ArithInterp
/-!
Helper lemmas for the cast kernels `_truncate` / `_sign_extend` of `xdsl/interpreters/arith.py`
(as translated): Python's `&` with the masks `2^w - 1` and `2^k` in arithmetic form, and the two
kernels as `Int.bmod`.  Core Lean only (no Mathlib).
-/
namespace Xdsl.Py

theorem testBit_natLdiff (m n i : Nat) :
    (natLdiff m n).testBit i = (m.testBit i && !n.testBit i) := by
  unfold natLdiff
  exact Nat.testBit_bitwise (f := fun a b => a && !b) rfl m n i

private theorem two_pow_cast (w : Nat) : ((2 : Int) ^ w) = (((2 : Nat) ^ w : Nat) : Int) := by
  push_cast; rfl

private theorem two_pow_sub_one_cast (w : Nat) :
    ((2 : Int) ^ w - 1) = Int.ofNat (2 ^ w - 1) := by
  have hpos : 0 < 2 ^ w := Nat.two_pow_pos w
  rw [two_pow_cast]
  show _ = (((2 ^ w - 1 : Nat)) : Int)
  omega

/-- `natLdiff (2^w - 1) n`, the low `w` bits of `~n`, arithmetically. -/
theorem natLdiff_mask (w n : Nat) : natLdiff (2 ^ w - 1) n = 2 ^ w - (n % 2 ^ w + 1) := by
  apply Nat.eq_of_testBit_eq
  intro i
  rw [testBit_natLdiff, Nat.testBit_two_pow_sub_one,
    Nat.testBit_two_pow_sub_succ (Nat.mod_lt _ (Nat.two_pow_pos w)), Nat.testBit_mod_two_pow]
  cases decide (i < w) <;> simp

/-- (a) Python `v & ((1 << w) - 1)` is `v mod 2^w` (non-negative remainder), for every integer `v`. -/
theorem land_mask (v : Int) (w : Nat) : Py.land v ((2 : Int) ^ w - 1) = v % (2 : Int) ^ w := by
  have hpos : 0 < 2 ^ w := Nat.two_pow_pos w
  rw [two_pow_sub_one_cast]
  cases v with
  | ofNat n =>
    show Int.ofNat (n &&& (2 ^ w - 1)) = _
    rw [Nat.and_two_pow_sub_one_eq_mod, two_pow_cast]
    rfl
  | negSucc n =>
    show Int.ofNat (natLdiff (2 ^ w - 1) n) = _
    rw [natLdiff_mask, two_pow_cast, Int.negSucc_emod n (by exact_mod_cast hpos)]
    have hlt : n % 2 ^ w < 2 ^ w := Nat.mod_lt _ hpos
    show (((2 ^ w - (n % 2 ^ w + 1) : Nat)) : Int) = _
    rw [← Int.natCast_emod]
    omega

theorem nat_and_two_pow (n k : Nat) : n &&& 2 ^ k = 2 ^ k * (n.testBit k).toNat := by
  apply Nat.eq_of_testBit_eq
  intro i
  rw [Nat.testBit_and, Nat.testBit_two_pow]
  cases hb : n.testBit k
  · by_cases h : k = i
    · subst h; simp [hb]
    · simp [h]
  · by_cases h : k = i
    · subst h; simp [hb]
    · simp [h]

theorem natLdiff_two_pow (n k : Nat) : natLdiff (2 ^ k) n = 2 ^ k * (!n.testBit k).toNat := by
  apply Nat.eq_of_testBit_eq
  intro i
  rw [testBit_natLdiff, Nat.testBit_two_pow]
  cases hb : n.testBit k
  · by_cases h : k = i
    · subst h; simp [hb]
    · simp [h]
  · by_cases h : k = i
    · subst h; simp [hb]
    · simp [h]

theorem nat_mod_two_pow_succ (x i : Nat) :
    x % 2 ^ (i + 1) = x % 2 ^ i + 2 ^ i * (x.testBit i).toNat := by
  rw [Nat.mod_pow_succ, Nat.toNat_testBit]

/-- (b) Python `v & (1 << k)` is the weight of bit `k` of the two's-complement expansion of `v`,
in arithmetic form: `v mod 2^(k+1) - v mod 2^k` (so it is `2^k` or `0`). -/
theorem land_two_pow (v : Int) (k : Nat) :
    Py.land v ((2 : Int) ^ k) = v % (2 : Int) ^ (k + 1) - v % (2 : Int) ^ k := by
  have hpos : 0 < 2 ^ k := Nat.two_pow_pos k
  have hpos1 : 0 < 2 ^ (k + 1) := Nat.two_pow_pos (k + 1)
  have hs : 2 ^ (k + 1) = 2 * 2 ^ k := by rw [Nat.pow_succ]; omega
  rw [two_pow_cast k, two_pow_cast (k + 1)]
  cases v with
  | ofNat n =>
    show Int.ofNat (n &&& 2 ^ k) = _
    rw [nat_and_two_pow]
    show ((2 ^ k * (n.testBit k).toNat : Nat) : Int) = (n : Int) % _ - (n : Int) % _
    rw [← Int.natCast_emod, ← Int.natCast_emod, nat_mod_two_pow_succ]
    omega
  | negSucc n =>
    show Int.ofNat (natLdiff (2 ^ k) n) = _
    rw [natLdiff_two_pow, Int.negSucc_emod n (by exact_mod_cast hpos1),
      Int.negSucc_emod n (by exact_mod_cast hpos)]
    show ((2 ^ k * (!n.testBit k).toNat : Nat) : Int) = _
    rw [← Int.natCast_emod, ← Int.natCast_emod, nat_mod_two_pow_succ]
    have hlt : n % 2 ^ k < 2 ^ k := Nat.mod_lt _ hpos
    cases n.testBit k <;> simp only [Bool.not_false, Bool.not_true, Bool.toNat_true, Bool.toNat_false] <;> omega

end Xdsl.Py

namespace Xdsl.C15
open Xdsl Xdsl.Generated.ArithInterp

/-- reduction of `x mod h` for `0 ≤ x < 2h` -/
private theorem emod_half (r h : Int) (h0 : 0 ≤ r) (h1 : r < 2 * h) :
    r % h = if r < h then r else r - h := by
  split
  · exact Int.emod_eq_of_lt h0 ‹_›
  · rw [← Int.sub_emod_right]; exact Int.emod_eq_of_lt (by omega) (by omega)

/-- `_truncate v w` is the balanced remainder of `v` modulo `2^w` (`w ≥ 1`). -/
theorem truncate_eq_bmod (v : Int) (w : Nat) (hw : 0 < w) :
    _truncate v (w : Int) = Int.bmod v (2 ^ w) := by
  obtain ⟨k, rfl⟩ : ∃ k, w = k + 1 := ⟨w - 1, by omega⟩
  have e1 : ((k + 1 : Nat) : Int) - 1 = (k : Int) := by omega
  have shl1 : ∀ n : Nat, Py.shl 1 (n : Int) = (2 : Int) ^ n := by intro n; simp [Py.shl]
  simp only [_truncate, e1, shl1, Py.land_mask, Py.land_two_pow]
  have h2 : (2 : Int) ^ (k + 1) = 2 * 2 ^ k := by rw [Int.pow_succ]; omega
  have hp : (0 : Int) < 2 ^ k := Int.pow_pos (by omega)
  rw [Int.bmod_def]
  have e2 : (((2 : Nat) ^ (k + 1) : Nat) : Int) = 2 * 2 ^ k := by push_cast; exact h2
  rw [e2, Int.emod_emod, h2]
  have e3 : (2 * (2 : Int) ^ k + 1) / 2 = 2 ^ k := by omega
  rw [e3]
  generalize (2 : Int) ^ k = h at *
  have hr := Int.emod_nonneg v (show (2 * h) ≠ 0 by omega)
  have hr2 := Int.emod_lt_of_pos v (show 0 < 2 * h by omega)
  generalize v % (2 * h) = r at *
  rw [emod_half r h hr hr2]
  by_cases hlt : r < h
  · simp [hlt]
  · have : r - (r - h) ≠ 0 := by omega
    simp [hlt, this]

/-- `_sign_extend v w` is the balanced remainder of `v` modulo `2^w` (`w ≥ 1`). -/
theorem sign_extend_eq_bmod (v : Int) (w : Nat) (hw : 0 < w) :
    _sign_extend v (w : Int) = Int.bmod v (2 ^ w) := by
  obtain ⟨k, rfl⟩ : ∃ k, w = k + 1 := ⟨w - 1, by omega⟩
  have e1 : ((k + 1 : Nat) : Int) - 1 = (k : Int) := by omega
  have shl1 : ∀ n : Nat, Py.shl 1 (n : Int) = (2 : Int) ^ n := by intro n; simp [Py.shl]
  simp only [_sign_extend, e1, shl1, Py.land_mask, Py.land_two_pow]
  have h2 : (2 : Int) ^ (k + 1) = 2 * 2 ^ k := by rw [Int.pow_succ]; omega
  have hp : (0 : Int) < 2 ^ k := Int.pow_pos (by omega)
  rw [Int.bmod_def]
  have e2 : (((2 : Nat) ^ (k + 1) : Nat) : Int) = 2 * 2 ^ k := by push_cast; exact h2
  rw [e2, h2]
  have e3 : (2 * (2 : Int) ^ k + 1) / 2 = 2 ^ k := by omega
  rw [e3]
  have hdvd : v % (2 : Int) ^ k = v % (2 * 2 ^ k) % 2 ^ k :=
    (Int.emod_emod_of_dvd v ⟨2, by omega⟩).symm
  rw [hdvd]
  generalize (2 : Int) ^ k = h at *
  have hr := Int.emod_nonneg v (show (2 * h) ≠ 0 by omega)
  have hr2 := Int.emod_lt_of_pos v (show 0 < 2 * h by omega)
  generalize v % (2 * h) = r at *
  rw [emod_half r h hr hr2]
  by_cases hlt : r < h
  · simp [hlt]
  · simp [hlt]; omega

end Xdsl.C15
