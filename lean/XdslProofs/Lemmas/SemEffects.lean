import XdslModel.Sem
/-!
# The effect log of the reference semantics is append-only

`St.eff` holds the external calls made so far, most recent first.  Every function of the mutual block
of `XdslModel/Sem.lean` that returns a state returns one whose log has the initial log as a suffix
(`EffAt P n` for every fuel `n`, `eff_all`), i.e. in chronological order (`.reverse`, what `Sem.run`
reports) the log after extends the log before.  No Mathlib.
-/
namespace Xdsl.SemMeta
open Xdsl.Sem Xdsl.MiniIR

theorem bind_eff {st st' : St} {names : List (Nat × Ty)} {vals : List Val}
    (h : st.bind names vals = .ok st') : st'.eff = st.eff := by
  unfold St.bind at h
  split at h
  · cases h
  · cases h; rfl

theorem bind_suffix {st st' : St} {names : List (Nat × Ty)} {vals : List Val} {l : List Effect}
    (h : st.bind names vals = .ok st') (hl : l <:+ st.eff) : l <:+ st'.eff := by
  rw [bind_eff h]; exact hl

theorem store_eff {st st' : St} {m : Val} {idx : List Int} {v : Val}
    (h : st.store m idx v = .ok st') : st'.eff = st.eff := by
  unfold St.store at h
  repeat' split at h
  all_goals first | (cases h; rfl) | cases h

/-- the region-free state operations (symref, memref, affine.apply/load/store) never touch the log -/
theorem stateOp_eff {st st1 : St} {o : Op} {args rs : List Val}
    (h : stateOp st o args = some (.ok (st1, rs))) : st1.eff = st.eff := by
  unfold stateOp at h
  repeat' split at h
  all_goals first
    | (cases h; rfl)
    | (cases h; done)
    | (cases h; exact store_eff (by assumption))

theorem stateOp_suffix {st st1 : St} {o : Op} {args rs : List Val}
    (h : stateOp st o args = some (.ok (st1, rs))) : st.eff <:+ st1.eff := by
  rw [stateOp_eff h]; exact List.suffix_refl _

/-- the combined statement for fuel `n` -/
structure EffAt (P : Prog) (n : Nat) : Prop where
  ops : ∀ st ops st' t, runOps n P st ops = .ok (st', t) → st.eff <:+ st'.eff
  op : ∀ st o st' t, runOp n P st o = .ok (st', t) → st.eff <:+ st'.eff
  region : ∀ st r args st' t, runRegion n P st r args = .ok (st', t) → st.eff <:+ st'.eff
  block : ∀ st r b args st' t, runBlock n P st r b args = .ok (st', t) → st.eff <:+ st'.eff
  for_ : ∀ st body w i ub step iters st' vs,
    runFor n P st body w i ub step iters = .ok (st', vs) → st.eff <:+ st'.eff
  while_ : ∀ st b a args st' vs, runWhile n P st b a args = .ok (st', vs) → st.eff <:+ st'.eff
  call : ∀ st name args st' vs, callFunc n P st name args = .ok (st', vs) → st.eff <:+ st'.eff

theorem eff_ops_step {P : Prog} {n : Nat} (ih : EffAt P n) (st : St) (ops : List Op) (st' : St) (t : Term)
    (h : runOps (n + 1) P st ops = .ok (st', t)) : st.eff <:+ st'.eff := by
  cases ops with
  | nil => rw [runOps.eq_2 _ _ _ (by omega)] at h; cases h
  | cons o rest =>
    rw [runOps] at h
    split at h
    · exact (ih.op _ _ _ _ (by assumption)).trans (ih.ops _ _ _ _ h)
    · cases h; exact ih.op _ _ _ _ (by assumption)
    all_goals cases h

theorem eff_op_step {P : Prog} {n : Nat} (ih : EffAt P n) (st : St) (o : Op) (st' : St) (t : Option Term)
    (h : runOp (n + 1) P st o = .ok (st', t)) : st.eff <:+ st'.eff := by
  rw [runOp] at h
  repeat' split at h
  all_goals first
    | (cases h; done)
    | (cases h; exact List.suffix_refl _)
    | (cases h
       try refine bind_suffix (by assumption) ?_
       first
       | exact List.suffix_refl _
       | exact ih.call _ _ _ _ _ (by assumption)
       | exact ih.region _ _ _ _ _ (by assumption)
       | exact ih.for_ _ _ _ _ _ _ _ _ _ (by assumption)
       | exact ih.while_ _ _ _ _ _ _ (by assumption)
       | exact stateOp_suffix (by assumption))

theorem eff_region_step {P : Prog} {n : Nat} (ih : EffAt P n) (st : St) (r : Region) (args : List Val)
    (st' : St) (t : Term) (h : runRegion (n + 1) P st r args = .ok (st', t)) : st.eff <:+ st'.eff := by
  rw [runRegion] at h
  split at h
  · cases h
  · exact ih.block _ _ _ _ _ _ h

theorem eff_block_step {P : Prog} {n : Nat} (ih : EffAt P n) (st : St) (r : Region) (b : Nat)
    (args : List Val) (st' : St) (t : Term) (h : runBlock (n + 1) P st r b args = .ok (st', t)) :
    st.eff <:+ st'.eff := by
  rw [runBlock] at h
  split at h
  · cases h
  · split at h
    · rename_i hb
      have e := bind_eff hb
      split at h
      · have h1 := ih.ops _ _ _ _ (by assumption)
        have h2 := ih.block _ _ _ _ _ _ h
        rw [e] at h1; exact h1.trans h2
      · have h1 := ih.ops _ _ _ _ h
        rw [e] at h1; exact h1
    · cases h

theorem eff_for_step {P : Prog} {n : Nat} (ih : EffAt P n) (st : St) (body : Region) (w : Nat)
    (i ub step : Int) (iters : List Val) (st' : St) (vs : List Val)
    (h : runFor (n + 1) P st body w i ub step iters = .ok (st', vs)) : st.eff <:+ st'.eff := by
  rw [runFor] at h
  split at h
  · split at h
    · exact (ih.region _ _ _ _ _ (by assumption)).trans (ih.for_ _ _ _ _ _ _ _ _ _ h)
    all_goals cases h
  · cases h; exact List.suffix_refl _

theorem eff_while_step {P : Prog} {n : Nat} (ih : EffAt P n) (st : St) (before after : Region)
    (args : List Val) (st' : St) (vs : List Val)
    (h : runWhile (n + 1) P st before after args = .ok (st', vs)) : st.eff <:+ st'.eff := by
  rw [runWhile] at h
  split at h
  · have h1 := ih.region _ _ _ _ _ (by assumption)
    split at h
    · split at h
      · have h2 := ih.region _ _ _ _ _ (by assumption)
        exact (h1.trans h2).trans (ih.while_ _ _ _ _ _ _ h)
      all_goals cases h
    · cases h; exact h1
  all_goals cases h

theorem eff_call_step {P : Prog} {n : Nat} (ih : EffAt P n) (st : St) (name : String) (args : List Val)
    (st' : St) (vs : List Val) (h : callFunc (n + 1) P st name args = .ok (st', vs)) :
    st.eff <:+ st'.eff := by
  rw [callFunc] at h
  split at h
  · cases h
  · split at h
    · cases h; exact List.suffix_cons _ _
    · split at h
      · rename_i hr
        have hs := ih.region _ _ _ _ _ hr
        cases h; exact hs
      all_goals cases h

theorem eff_all (P : Prog) : ∀ n : Nat, EffAt P n := by
  intro n
  induction n with
  | zero =>
    exact {
      ops := fun _ _ _ _ h => by rw [runOps] at h; cases h
      op := fun _ _ _ _ h => by rw [runOp] at h; cases h
      region := fun _ _ _ _ _ h => by rw [runRegion] at h; cases h
      block := fun _ _ _ _ _ _ h => by rw [runBlock] at h; cases h
      for_ := fun _ _ _ _ _ _ _ _ _ h => by rw [runFor] at h; cases h
      while_ := fun _ _ _ _ _ _ h => by rw [runWhile] at h; cases h
      call := fun _ _ _ _ _ h => by rw [callFunc] at h; cases h }
  | succ n ih =>
    exact {
      ops := eff_ops_step ih
      op := eff_op_step ih
      region := eff_region_step ih
      block := eff_block_step ih
      for_ := eff_for_step ih
      while_ := eff_while_step ih
      call := eff_call_step ih }

end Xdsl.SemMeta
