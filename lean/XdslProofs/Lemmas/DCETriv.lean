import XdslProofs.Lemmas.DCEComplete
import XdslProofs.C24PostOrder
/-!
Lemmas for C13: the erasure of trivially dead operations (`trivDel`, `trivLoop`), and the passage from
"yielded by the post-order iteration" to graph reachability.
-/
namespace Xdsl.DCE
open Xdsl.Graph

theorem size_trivDel_le (root : T) (t : T) : size (trivDel root t) ≤ size t := by
  induction t with
  | nil => simp [trivDel]
  | op h rs next ihr ihn =>
    simp only [trivDel]
    split <;> simp only [size] <;> omega
  | block ops next iho ihn => simp only [trivDel, size]; omega
  | region bs next ihb ihn => simp only [trivDel, size]; omega

/-- an operation that `trivDel` drops is a trivially dead operation or sits inside one -/
theorem trivDel_removed (root : T) (t : T) : ∀ i ∈ allIds t, i ∉ allIds (trivDel root t) →
    ∃ h rs, (h, rs) ∈ allCells t ∧ trivDead root h rs = true ∧ i ∈ h.id :: allIds rs := by
  induction t with
  | nil => intro i hi; simp at hi
  | op h rs next ihr ihn =>
    intro i hi hn
    simp only [allIds_op, List.mem_cons, List.mem_append] at hi
    simp only [trivDel] at hn
    split at hn
    · rename_i htd
      rcases hi with rfl | hi | hi
      · exact ⟨h, rs, by simp [allCells], htd, by simp⟩
      · exact ⟨h, rs, by simp [allCells], htd, by simp [hi]⟩
      · obtain ⟨h', rs', hc, ht, hm⟩ := ihn i hi hn
        exact ⟨h', rs', by simp [allCells, hc], ht, hm⟩
    · simp only [allIds_op, List.mem_cons, List.mem_append, not_or] at hn
      rcases hi with rfl | hi | hi
      · exact absurd rfl hn.1
      · obtain ⟨h', rs', hc, ht, hm⟩ := ihr i hi hn.2.1
        exact ⟨h', rs', by simp [allCells, hc], ht, hm⟩
      · obtain ⟨h', rs', hc, ht, hm⟩ := ihn i hi hn.2.2
        exact ⟨h', rs', by simp [allCells, hc], ht, hm⟩
  | block ops next iho ihn =>
    intro i hi hn
    simp only [allIds_block, List.mem_append] at hi
    simp only [trivDel, allIds_block, List.mem_append, not_or] at hn
    rcases hi with hi | hi
    · obtain ⟨h', rs', hc, ht, hm⟩ := iho i hi hn.1
      exact ⟨h', rs', by simp [allCells, hc], ht, hm⟩
    · obtain ⟨h', rs', hc, ht, hm⟩ := ihn i hi hn.2
      exact ⟨h', rs', by simp [allCells, hc], ht, hm⟩
  | region bs next ihb ihn =>
    intro i hi hn
    simp only [allIds_region, List.mem_append] at hi
    simp only [trivDel, allIds_region, List.mem_append, not_or] at hn
    rcases hi with hi | hi
    · obtain ⟨h', rs', hc, ht, hm⟩ := ihb i hi hn.1
      exact ⟨h', rs', by simp [allCells, hc], ht, hm⟩
    · obtain ⟨h', rs', hc, ht, hm⟩ := ihn i hi hn.2
      exact ⟨h', rs', by simp [allCells, hc], ht, hm⟩

/-- if `trivDel` erases nothing, no operation of the tree is trivially dead -/
theorem trivDel_fix (root : T) (t : T) : size (trivDel root t) = size t →
    ∀ h rs, (h, rs) ∈ allCells t → trivDead root h rs = false := by
  induction t with
  | nil => intro _ h rs hc; simp [allCells] at hc
  | op h0 rs0 next ihr ihn =>
    intro hs h rs hc
    have h1 := size_trivDel_le root rs0
    have h2 := size_trivDel_le root next
    simp only [trivDel] at hs
    split at hs
    · simp only [size] at hs; omega
    · rename_i htd
      simp only [size] at hs
      simp only [allCells, List.mem_cons, List.mem_append] at hc
      rcases hc with heq | hc | hc
      · cases heq; simpa using htd
      · exact ihr (by omega) h rs hc
      · exact ihn (by omega) h rs hc
  | block ops next iho ihn =>
    intro hs h rs hc
    have h1 := size_trivDel_le root ops
    have h2 := size_trivDel_le root next
    simp only [trivDel, size] at hs
    simp only [allCells, List.mem_append] at hc
    rcases hc with hc | hc
    · exact iho (by omega) h rs hc
    · exact ihn (by omega) h rs hc
  | region bs next ihb ihn =>
    intro hs h rs hc
    have h1 := size_trivDel_le root bs
    have h2 := size_trivDel_le root next
    simp only [trivDel, size] at hs
    simp only [allCells, List.mem_append] at hc
    rcases hc with hc | hc
    · exact ihb (by omega) h rs hc
    · exact ihn (by omega) h rs hc

theorem trivLoop_spec : ∀ fuel t, size t < fuel →
    (trivLoop fuel t).2 = true
      ∧ size (trivDel (trivLoop fuel t).1 (trivLoop fuel t).1) = size (trivLoop fuel t).1 := by
  intro fuel
  induction fuel with
  | zero => intro t h; omega
  | succ fuel ih =>
    intro t hlt
    have hle := size_trivDel_le t t
    simp only [trivLoop]
    split
    · rename_i heq
      have heq' : size (trivDel t t) = size t := by simpa using heq
      exact ⟨rfl, heq'⟩
    · rename_i hne
      have : size (trivDel t t) ≠ size t := by simpa using hne
      exact ih _ (by omega)

/-! ### from the post-order iteration to graph reachability -/

/-- every block of every region of the tree is reachable from the entry block of its region
(`g`: graph of the enclosing region, `idx`: position of the head of a block list in it) -/
def AllReachG : T → Graph → Nat → Prop
  | .nil, _, _ => True
  | .op _ rs next, _, _ => AllReachG rs [] 0 ∧ AllReachG next [] 0
  | .block ops next, g, idx => Reach g 0 idx ∧ AllReachG ops [] 0 ∧ AllReachG next g (idx + 1)
  | .region bs next, _, _ => AllReachG bs (graphOf bs) 0 ∧ AllReachG next [] 0

theorem allReachG_of (t : T) : ∀ f reach idx g, wfT t = true →
    (∀ b, reach.contains b = true → Reach g 0 b) → (f = true → idx = 0) →
    AllReach t f reach idx → AllReachG t g idx := by
  induction t with
  | nil => intro f reach idx g _ _ _ _; trivial
  | op h rs next ihr ihn =>
    intro f reach idx g hw _ _ ha
    simp only [wfT, Bool.and_eq_true] at hw
    exact ⟨ihr true [] 0 [] hw.1 (fun b hb => by simp at hb) (fun _ => rfl) ha.1,
      ihn false [] 0 [] hw.2 (fun b hb => by simp at hb) (fun _ => rfl) ha.2⟩
  | block ops next iho ihn =>
    intro f reach idx g hw hr hf ha
    simp only [wfT, Bool.and_eq_true] at hw
    refine ⟨?_, iho false [] 0 [] hw.1 (fun b hb => by simp at hb) (fun _ => rfl) ha.2.1,
      ihn false reach (idx + 1) g hw.2 hr (fun h => by cases h) ha.2.2⟩
    rcases ha.1 with h1 | h1
    · rw [hf h1]; exact Reach.refl _ _
    · exact hr idx h1
  | region bs next ihb ihn =>
    intro f reach idx g hw _ _ ha
    simp only [wfT, Bool.and_eq_true, Bool.or_eq_true, beq_iff_eq] at hw
    refine ⟨?_, ihn true [] 0 [] hw.2 (fun b hb => by simp at hb) (fun _ => rfl) ha.2⟩
    rcases hw.1.1 with hnil | hg
    · subst hnil; trivial
    · refine ihb true (reachSet bs) 0 (graphOf bs) hw.1.2 ?_ (fun _ => rfl) ha.1
      intro b hb
      have hwf : WF (graphOf bs) := (wf_iff _).mp hg.1
      by_cases hpos : 0 < (graphOf bs).length
      · exact ((PostOrder.postorder_spec (graphOf bs) hwf hpos).2.1 b).mp (by simpa [reachSet] using hb)
      · -- no block at all: the iteration yields nothing
        have hlen : (graphOf bs).length = 0 := by omega
        have hnil : graphOf bs = [] := List.eq_nil_of_length_eq_zero hlen
        have : reachSet bs = [] := by
          unfold reachSet; rw [hnil]; decide
        rw [this] at hb; simp at hb

end Xdsl.DCE
