import XdslProofs.Lemmas.ConstraintComplete
/-! A successful `verify` establishes the declarative meaning (soundness), C09. -/
namespace Xdsl.Constraint

mutual
/-- names of the `VarConstraint` nodes of a constraint -/
def vars : C → List Nat
  | .var n c => n :: vars c
  | .anyOf cs => varsL cs
  | .allOf cs => varsL cs
  | .param _ ps => varsL ps
  | .msg _ c => vars c
  | .tvar _ c => vars c
  | .arrayOf _ c => vars c
  | .any | .eq _ | .set _ | .base _ => []
def varsL : List C → List Nat
  | [] => []
  | c :: cs => vars c ++ varsL cs
end

theorem mem_varsL {n : Nat} : ∀ {cs : List C} {c : C}, c ∈ cs → n ∈ vars c → n ∈ varsL cs
  | c0 :: cs, c, hc, hn => by
    simp only [varsL, List.mem_append]
    rcases List.mem_cons.1 hc with e | hc
    · subst e; exact Or.inl hn
    · exact Or.inr (mem_varsL hc hn)

mutual
/-- the intended use of constraint variables: a name always carries the same constraint
(`decl n`), and that constraint does not mention the name itself -/
def WellDeclared (decl : Nat → C) : C → Prop
  | .var n c => c = decl n ∧ n ∉ vars c ∧ WellDeclared decl c
  | .anyOf cs => WDL decl cs
  | .allOf cs => WDL decl cs
  | .param _ ps => WDL decl ps
  | .msg _ c => WellDeclared decl c
  | .tvar _ c => WellDeclared decl c
  | .arrayOf _ c => WellDeclared decl c
  | .any | .eq _ | .set _ | .base _ => True
def WDL (decl : Nat → C) : List C → Prop
  | [] => True
  | c :: cs => WellDeclared decl c ∧ WDL decl cs
end

theorem WDL_iff (decl : Nat → C) : ∀ cs, WDL decl cs ↔ ∀ c ∈ cs, WellDeclared decl c
  | [] => by simp [WDL]
  | c :: cs => by simp [WDL, WDL_iff decl cs]

def Ext (ctx ctx' : Ctx) : Prop := ∀ n v, AL.get ctx n = some v → AL.get ctx' n = some v
def Frame (ctx ctx' : Ctx) (vs : List Nat) : Prop := ∀ n, AL.get ctx n = none → n ∉ vs → AL.get ctx' n = none
/-- every binding of the context satisfies the declared constraint of its name -/
def CtxInv (U : Univ) (decl : Nat → C) (ctx : Ctx) : Prop :=
  ∀ n v, AL.get ctx n = some v → sat U (AL.get ctx) (decl n) v

theorem Ext.refl (ctx : Ctx) : Ext ctx ctx := fun _ _ h => h
theorem Ext.trans {a b c : Ctx} (h1 : Ext a b) (h2 : Ext b c) : Ext a c := fun n v h => h2 n v (h1 n v h)
theorem Frame.refl (ctx : Ctx) (vs : List Nat) : Frame ctx ctx vs := fun _ h _ => h

section
variable (U : Univ)

theorem satZip_mono {σ σ' : Asg} : ∀ cs as, (∀ c ∈ cs, ∀ a, sat U σ c a → sat U σ' c a) →
    satZip U σ cs as → satZip U σ' cs as
  | [], [], _, h => h
  | [], _ :: _, _, h => by simp [satZip] at h
  | _ :: _, [], _, h => by simp [satZip] at h
  | c :: cs, a :: as, ih, h => by
    simp only [satZip] at h ⊢
    exact ⟨ih c (List.mem_cons_self ..) a h.1,
      satZip_mono cs as (fun c' hc' => ih c' (List.mem_cons_of_mem _ hc')) h.2⟩

/-- the meaning is monotone in the assignment -/
theorem sat_mono {σ σ' : Asg} (hσ : ∀ n v, σ n = some v → σ' n = some v) :
    ∀ c a, sat U σ c a → sat U σ' c a := by
  intro c
  induction c using C.ind with
  | any => intro a h; trivial
  | eq b => intro a h; exact h
  | set vs => intro a h; exact h
  | base d => intro a h; exact h
  | anyOf cs ih =>
    intro a h
    simp only [sat] at h ⊢
    obtain ⟨c, hc, hs⟩ := (satAny_iff U σ a cs).1 h
    exact (satAny_iff U σ' a cs).2 ⟨c, hc, ih c hc a hs⟩
  | allOf cs ih =>
    intro a h
    simp only [sat] at h ⊢
    exact (satAll_iff U σ' a cs).2 fun c hc => ih c hc a ((satAll_iff U σ a cs).1 h c hc)
  | param d ps ih =>
    intro a h
    simp only [sat] at h ⊢
    refine ⟨h.1, ?_⟩
    cases a with
    | param ca as => exact satZip_mono U ps as ih h.2
    | data _ _ => exact h.2
    | arr _ _ => exact h.2
  | var n c ih => intro a h; exact ⟨hσ n a h.1, ih a h.2⟩
  | msg n c ih => intro a h; exact ih a h
  | tvar n c ih => intro a h; exact ih a h
  | arrayOf k c ih =>
    intro a h
    simp only [sat] at h ⊢
    refine ⟨h.1, ?_⟩
    cases a with
    | arr ca es => exact fun e he => ih e (h.2 e he)
    | data _ _ => exact h.2
    | param _ _ => exact h.2

variable (decl : Nat → C)

def SoundAt (c : C) : Prop := ∀ a ctx ctx', verify U c a ctx = some ctx' → WellDeclared decl c →
    CtxInv U decl ctx →
    Ext ctx ctx' ∧ Frame ctx ctx' (vars c) ∧ sat U (AL.get ctx') c a ∧ CtxInv U decl ctx'

theorem verifyAll_sound (a : Attr) : ∀ cs, (∀ c ∈ cs, SoundAt U decl c) → ∀ ctx ctx',
    verifyAll U cs a ctx = some ctx' → WDL decl cs → CtxInv U decl ctx →
    Ext ctx ctx' ∧ Frame ctx ctx' (varsL cs) ∧ satAll U (AL.get ctx') cs a ∧ CtxInv U decl ctx'
  | [], _, ctx, ctx', h, _, hi => by
    simp only [verifyAll] at h; cases h
    exact ⟨Ext.refl _, Frame.refl _ _, by simp [satAll], hi⟩
  | c :: cs, ih, ctx, ctx', h, hw, hi => by
    simp only [verifyAll] at h
    simp only [WDL] at hw
    cases h1 : verify U c a ctx with
    | none => simp [h1] at h
    | some ctx1 =>
      simp only [h1] at h
      obtain ⟨e1, f1, s1, i1⟩ := ih c (List.mem_cons_self ..) a ctx ctx1 h1 hw.1 hi
      obtain ⟨e2, f2, s2, i2⟩ := verifyAll_sound a cs (fun c' hc' => ih c' (List.mem_cons_of_mem _ hc')) ctx1 ctx' h hw.2 i1
      refine ⟨e1.trans e2, ?_, ?_, i2⟩
      · intro n hn hv
        simp only [varsL, List.mem_append, not_or] at hv
        exact f2 n (f1 n hn hv.1) hv.2
      · simp only [satAll]
        exact ⟨sat_mono U e2 c a s1, s2⟩

theorem verifyZip_sound : ∀ cs as, (∀ c ∈ cs, SoundAt U decl c) → ∀ ctx ctx',
    verifyZip U cs as ctx = some ctx' → WDL decl cs → CtxInv U decl ctx →
    Ext ctx ctx' ∧ Frame ctx ctx' (varsL cs) ∧ satZip U (AL.get ctx') cs as ∧ CtxInv U decl ctx'
  | [], [], _, ctx, ctx', h, _, hi => by
    simp only [verifyZip] at h; cases h
    exact ⟨Ext.refl _, Frame.refl _ _, by simp [satZip], hi⟩
  | [], _ :: _, _, _, _, h, _, _ => by simp [verifyZip] at h
  | _ :: _, [], _, _, _, h, _, _ => by simp [verifyZip] at h
  | c :: cs, a :: as, ih, ctx, ctx', h, hw, hi => by
    simp only [verifyZip] at h
    simp only [WDL] at hw
    cases h1 : verify U c a ctx with
    | none => simp [h1] at h
    | some ctx1 =>
      simp only [h1] at h
      obtain ⟨e1, f1, s1, i1⟩ := ih c (List.mem_cons_self ..) a ctx ctx1 h1 hw.1 hi
      obtain ⟨e2, f2, s2, i2⟩ := verifyZip_sound cs as (fun c' hc' => ih c' (List.mem_cons_of_mem _ hc')) ctx1 ctx' h hw.2 i1
      refine ⟨e1.trans e2, ?_, ?_, i2⟩
      · intro n hn hv
        simp only [varsL, List.mem_append, not_or] at hv
        exact f2 n (f1 n hn hv.1) hv.2
      · simp only [satZip]
        exact ⟨sat_mono U e2 c a s1, s2⟩

theorem fold_sound (c : C) (ih : SoundAt U decl c) (hw : WellDeclared decl c) : ∀ (es : List Attr) ctx ctx',
    es.foldl (foldStep U c) (some ctx) = some ctx' → CtxInv U decl ctx →
    Ext ctx ctx' ∧ Frame ctx ctx' (vars c) ∧ (∀ e ∈ es, sat U (AL.get ctx') c e) ∧ CtxInv U decl ctx'
  | [], ctx, ctx', h, hi => by
    simp only [List.foldl] at h; cases h
    exact ⟨Ext.refl _, Frame.refl _ _, by simp, hi⟩
  | e :: es, ctx, ctx', h, hi => by
    simp only [List.foldl] at h
    have hs : foldStep U c (some ctx) e = verify U c e ctx := rfl
    rw [hs] at h
    cases h1 : verify U c e ctx with
    | none =>
      rw [h1, foldl_none U c es] at h; cases h
    | some ctx1 =>
      rw [h1] at h
      obtain ⟨e1, f1, s1, i1⟩ := ih e ctx ctx1 h1 hw hi
      obtain ⟨e2, f2, s2, i2⟩ := fold_sound c ih hw es ctx1 ctx' h i1
      refine ⟨e1.trans e2, fun n hn hv => f2 n (f1 n hn hv) hv, ?_, i2⟩
      intro e' he'
      rcases List.mem_cons.1 he' with eq | he'
      · subst eq; exact sat_mono U e2 c e' s1
      · exact s2 e' he'

theorem verify_sound : ∀ c, SoundAt U decl c := by
  intro c
  induction c using C.ind with
  | any =>
    intro a ctx ctx' h _ hi; simp only [verify] at h; cases h
    exact ⟨Ext.refl _, Frame.refl _ _, trivial, hi⟩
  | eq b =>
    intro a ctx ctx' h _ hi
    simp only [verify] at h
    split at h
    · rename_i hb; cases h
      exact ⟨Ext.refl _, Frame.refl _ _, (Attr.beq_iff a b).1 hb, hi⟩
    · cases h
  | set vs =>
    intro a ctx ctx' h _ hi
    simp only [verify] at h
    split at h
    · rename_i hb; cases h
      exact ⟨Ext.refl _, Frame.refl _ _, (memA_iff a vs).1 hb, hi⟩
    · cases h
  | base d =>
    intro a ctx ctx' h _ hi
    simp only [verify] at h
    split at h
    · rename_i hb; cases h
      exact ⟨Ext.refl _, Frame.refl _ _, hb, hi⟩
    · cases h
  | anyOf cs ih =>
    intro a ctx ctx' h hw hi
    simp only [verify] at h
    simp only [WellDeclared] at hw
    cases hk : selectIdx U cs a.cls with
    | none => simp [hk] at h
    | some k =>
      simp only [hk] at h
      obtain ⟨c, hc, hv⟩ := verifyNth_some U a ctx ctx' cs k h
      obtain ⟨e1, f1, s1, i1⟩ := ih c hc a ctx ctx' hv ((WDL_iff decl cs).1 hw c hc) hi
      refine ⟨e1, fun n hn hv' => f1 n hn (fun hm => hv' (mem_varsL hc hm)), ?_, i1⟩
      simp only [sat]
      exact (satAny_iff U _ a cs).2 ⟨c, hc, s1⟩
  | allOf cs ih =>
    intro a ctx ctx' h hw hi
    simp only [verify] at h
    simp only [WellDeclared] at hw
    obtain ⟨e1, f1, s1, i1⟩ := verifyAll_sound U decl a cs ih ctx ctx' h hw hi
    exact ⟨e1, f1, s1, i1⟩
  | param d ps ih =>
    intro a ctx ctx' h hw hi
    simp only [verify] at h
    simp only [WellDeclared] at hw
    split at h
    · rename_i hsub
      cases a with
      | param ca as =>
        simp only at h
        obtain ⟨e1, f1, s1, i1⟩ := verifyZip_sound U decl ps as ih ctx ctx' h hw hi
        exact ⟨e1, f1, ⟨hsub, s1⟩, i1⟩
      | data _ _ => simp at h
      | arr _ _ => simp at h
    · cases h
  | var n c ih =>
    intro a ctx ctx' h hw hi
    simp only [verify] at h
    simp only [WellDeclared] at hw
    obtain ⟨hdecl, hnot, hwc⟩ := hw
    cases hg : AL.get ctx n with
    | some v =>
      simp only [hg] at h
      split at h
      · rename_i hb; cases h
        have hav := (Attr.beq_iff a v).1 hb
        subst hav
        refine ⟨Ext.refl _, Frame.refl _ _, ⟨hg, ?_⟩, hi⟩
        rw [hdecl]; exact hi n a hg
      · cases h
    | none =>
      simp only [hg] at h
      cases h1 : verify U c a ctx with
      | none => simp [h1] at h
      | some ctx1 =>
        simp only [h1] at h; cases h
        obtain ⟨e1, f1, s1, i1⟩ := ih a ctx ctx1 h1 hwc hi
        have hn1 : AL.get ctx1 n = none := f1 n hg hnot
        have e2 : Ext ctx1 (AL.set ctx1 n a) := by
          intro m v hm
          rw [AL.get_set]
          split
          · rename_i e; subst e; rw [hn1] at hm; cases hm
          · exact hm
        refine ⟨e1.trans e2, ?_, ⟨by simp [AL.get_set], sat_mono U e2 c a s1⟩, ?_⟩
        · intro m hm hv
          simp only [vars, List.mem_cons, not_or] at hv
          rw [AL.get_set]; simp only [hv.1, if_false]
          exact f1 m hm hv.2
        · intro m v hm
          rw [AL.get_set] at hm
          split at hm
          · rename_i e; subst e; cases hm
            rw [← hdecl]; exact sat_mono U e2 c _ s1
          · exact sat_mono U e2 _ v (i1 m v hm)
  | msg n c ih => intro a ctx ctx' h hw hi; exact ih a ctx ctx' h hw hi
  | tvar n c ih => intro a ctx ctx' h hw hi; exact ih a ctx ctx' h hw hi
  | arrayOf k c ih =>
    intro a ctx ctx' h hw hi
    simp only [verify] at h
    simp only [WellDeclared] at hw
    split at h
    · rename_i hsub
      cases a with
      | arr ca es =>
        simp only at h
        obtain ⟨e1, f1, s1, i1⟩ := fold_sound U decl c ih hw es ctx ctx' h hi
        exact ⟨e1, f1, ⟨hsub, s1⟩, i1⟩
      | data _ _ => simp at h
      | param _ _ => simp at h
    · cases h

end

end Xdsl.Constraint
