import XdslModel.DLL
import XdslProofs.Lemmas.AL
import Mathlib.Data.List.Basic
import Mathlib.Data.List.Nodup
import Batteries.Data.List.Perm
/-!
# Lemmas for the generic intrusive doubly-linked-list library (`XdslModel/DLL.lean`)

* accessor calculus (`nd`/`en` of every pointer write);
* the abstract side: `nextOf l n` (successor of `n` in the list `l`), and how it changes under the
  list operations `insAfter`, `insBefore`, `erase`, `++`, `takeWhile/dropWhile`;
* `WF s f`: the pointer structure `s` represents the family of duplicate-free, pairwise disjoint
  lists `f : container → List node`;
* refinement: under `WF s f`, `toList s c = f c` and `toListBack s c = (f c).reverse`;
* every primitive preserves `WF` and performs the corresponding list operation on `f`.
-/
namespace Xdsl.DLL
open Xdsl

namespace L

/-! ### accessor calculus -/
@[simp] theorem nd_setNd (s : L) (n m : Nat) (x : Node) :
    (s.setNd n x).nd m = if m = n then x else s.nd m := by
  simp only [nd, setNd, AL.get_set]; split <;> simp

@[simp] theorem en_setNd (s : L) (n c : Nat) (x : Node) : (s.setNd n x).en c = s.en c := rfl

@[simp] theorem nd_setEn (s : L) (c n : Nat) (e : Ends) : (s.setEn c e).nd n = s.nd n := rfl

@[simp] theorem en_setEn (s : L) (c d : Nat) (e : Ends) :
    (s.setEn c e).en d = if d = c then e else s.en d := by
  simp only [en, setEn, AL.get_set]; split <;> simp

@[simp] theorem nd_setNext (s : L) (n m : Nat) (v : Option Nat) :
    (s.setNext n v).nd m = if m = n then { s.nd n with next := v } else s.nd m := by
  simp [setNext]
@[simp] theorem nd_setPrev (s : L) (n m : Nat) (v : Option Nat) :
    (s.setPrev n v).nd m = if m = n then { s.nd n with prev := v } else s.nd m := by
  simp [setPrev]
@[simp] theorem nd_setParent (s : L) (n m : Nat) (v : Option Nat) :
    (s.setParent n v).nd m = if m = n then { s.nd n with parent := v } else s.nd m := by
  simp [setParent]
@[simp] theorem en_setNext (s : L) (n c : Nat) (v : Option Nat) : (s.setNext n v).en c = s.en c := rfl
@[simp] theorem en_setPrev (s : L) (n c : Nat) (v : Option Nat) : (s.setPrev n v).en c = s.en c := rfl
@[simp] theorem en_setParent (s : L) (n c : Nat) (v : Option Nat) : (s.setParent n v).en c = s.en c := rfl
@[simp] theorem nd_setFirst (s : L) (c n : Nat) (v : Option Nat) : (s.setFirst c v).nd n = s.nd n := rfl
@[simp] theorem nd_setLast (s : L) (c n : Nat) (v : Option Nat) : (s.setLast c v).nd n = s.nd n := rfl
@[simp] theorem en_setFirst (s : L) (c d : Nat) (v : Option Nat) :
    (s.setFirst c v).en d = if d = c then { s.en c with first := v } else s.en d := by
  simp [setFirst]
@[simp] theorem en_setLast (s : L) (c d : Nat) (v : Option Nat) :
    (s.setLast c v).en d = if d = c then { s.en c with last := v } else s.en d := by
  simp [setLast]

/-- which nodes have an entry (needed only to bound the fuel of `toList`) -/
def has (s : L) (n : Nat) : Prop := (AL.get s.node n).isSome

theorem has_setNd (s : L) (n m : Nat) (x : Node) : (s.setNd n x).has m ↔ m = n ∨ s.has m := by
  simp only [has, setNd, AL.get_set]; split <;> simp_all

@[simp] theorem has_setEn (s : L) (c m : Nat) (e : Ends) : (s.setEn c e).has m ↔ s.has m := Iff.rfl

end L
/-! ### the abstract side: successor function of a list and the list operations -/

/-- successor of `n` in `l` -/
def nextOf : List Nat → Nat → Option Nat
  | [], _ => none
  | x :: r, n => if n = x then r.head? else nextOf r n

/-- predecessor of `n` in `l` -/
def prevOf (l : List Nat) (n : Nat) : Option Nat := nextOf l.reverse n

def insAfter : List Nat → Nat → Nat → List Nat
  | [], _, _ => []
  | x :: r, ex, new => if x = ex then x :: new :: r else x :: insAfter r ex new

def insBefore : List Nat → Nat → Nat → List Nat
  | [], _, _ => []
  | x :: r, ex, new => if x = ex then new :: x :: r else x :: insBefore r ex new

theorem nextOf_of_not_mem {l : List Nat} {n : Nat} (h : n ∉ l) : nextOf l n = none := by
  induction l with
  | nil => rfl
  | cons x r ih =>
    simp only [List.mem_cons, not_or] at h
    simp [nextOf, h.1, ih h.2]

theorem mem_of_nextOf {l : List Nat} {n m : Nat} (h : nextOf l n = some m) : n ∈ l ∧ m ∈ l := by
  induction l with
  | nil => simp [nextOf] at h
  | cons x r ih =>
    simp only [nextOf] at h
    split at h
    · subst_vars
      cases r with
      | nil => simp at h
      | cons y r' => simp at h; subst h; simp
    · have := ih h; simp [this.1, this.2]

/-- in a duplicate-free list nothing has the head as successor -/
theorem nextOf_ne_head {x : Nat} {r : List Nat} (hn : (x :: r).Nodup) (n : Nat) :
    nextOf (x :: r) n ≠ some x := by
  intro h
  simp only [nextOf] at h
  have hx : x ∉ r := (List.nodup_cons.mp hn).1
  split at h
  · cases r with
    | nil => simp at h
    | cons y r' => simp at h; subst h; simp at hx
  · exact hx (mem_of_nextOf h).2

theorem head?_insAfter (l : List Nat) (ex new : Nat) : (insAfter l ex new).head? = l.head? := by
  cases l with
  | nil => rfl
  | cons x r => simp only [insAfter]; split <;> rfl

theorem nextOf_insAfter {l : List Nat} {ex new : Nat} (hex : ex ∈ l) (hnew : new ∉ l) (n : Nat) :
    nextOf (insAfter l ex new) n =
      if n = ex then some new else if n = new then nextOf l ex else nextOf l n := by
  induction l with
  | nil => simp at hex
  | cons x r ih =>
    simp only [List.mem_cons, not_or] at hnew
    by_cases hx : x = ex
    · subst hx
      simp only [insAfter, if_true, nextOf]
      by_cases h1 : n = x
      · simp [h1]
      · by_cases h2 : n = new
        · simp [h2, hnew.1]
        · simp [h1, h2]
    · have hex' : ex ∈ r := by
        rcases List.mem_cons.mp hex with h | h
        · exact absurd h.symm hx
        · exact h
      simp only [insAfter, hx, if_false, nextOf, head?_insAfter]
      by_cases h1 : n = x
      · subst h1
        have : n ≠ new := fun h => hnew.1 h.symm
        simp [hx, this]
      · have hne : ¬ ex = x := fun h => hx h.symm
        simp only [h1, if_false, ih hex' hnew.2, hne]

theorem head?_insBefore (l : List Nat) (ex new : Nat) :
    (insBefore l ex new).head? = if l.head? = some ex then some new else l.head? := by
  cases l with
  | nil => rfl
  | cons x r =>
    simp only [insBefore]
    split <;> simp_all

theorem nextOf_insBefore {l : List Nat} {ex new : Nat} (hex : ex ∈ l) (hnew : new ∉ l)
    (hn : l.Nodup) (n : Nat) :
    nextOf (insBefore l ex new) n =
      if n = new then some ex else if nextOf l n = some ex then some new else nextOf l n := by
  induction l with
  | nil => simp at hex
  | cons x r ih =>
    simp only [List.mem_cons, not_or] at hnew
    by_cases hx : x = ex
    · subst hx
      simp only [insBefore, if_true]
      by_cases h1 : n = new
      · simp [nextOf, h1]
      · have h3 := nextOf_ne_head hn n
        simp only [nextOf, h1, if_false] at h3 ⊢
        simp [h3]
    · have hex' : ex ∈ r := by
        rcases List.mem_cons.mp hex with h | h
        · exact absurd h.symm hx
        · exact h
      have hn' := (List.nodup_cons.mp hn).2
      simp only [insBefore, hx, if_false, nextOf, head?_insBefore]
      by_cases h1 : n = x
      · subst h1
        have : n ≠ new := fun h => hnew.1 h.symm
        simp [this]
      · simp only [h1, if_false, ih hex' hnew.2 hn']


theorem nextOf_cons_of_ne {x n : Nat} (r : List Nat) (h : n ≠ x) : nextOf (x :: r) n = nextOf r n := by
  simp [nextOf, h]

theorem nextOf_cons_self (x : Nat) (r : List Nat) : nextOf (x :: r) x = r.head? := by
  simp [nextOf]

theorem nextOf_append_of_mem {a : List Nat} (b : List Nat) {n : Nat} (h : n ∈ a) :
    nextOf (a ++ b) n = (nextOf a n).or b.head? := by
  induction a with
  | nil => simp at h
  | cons x r ih =>
    by_cases hx : n = x
    · subst hx
      cases r <;> simp [nextOf]
    · have : n ∈ r := by
        rcases List.mem_cons.mp h with h | h
        · exact absurd h hx
        · exact h
      simp [nextOf, hx, ih this]

theorem nextOf_append_of_not_mem {a : List Nat} (b : List Nat) {n : Nat} (h : n ∉ a) :
    nextOf (a ++ b) n = nextOf b n := by
  induction a with
  | nil => rfl
  | cons x r ih =>
    simp only [List.mem_cons, not_or] at h
    simp [nextOf, h.1, ih h.2]

/-- `nextOf` is `none` exactly on the last element (and on non-members) of a duplicate-free list -/
theorem nextOf_eq_none_iff {l : List Nat} (hn : l.Nodup) {n : Nat} (h : n ∈ l) :
    nextOf l n = none ↔ l.getLast? = some n := by
  induction l with
  | nil => simp at h
  | cons x r ih =>
    have hx : x ∉ r := (List.nodup_cons.mp hn).1
    by_cases hnx : n = x
    · subst hnx
      cases r with
      | nil => simp [nextOf]
      | cons y r' =>
        simp only [nextOf, if_true, List.head?_cons, reduceCtorEq, false_iff]
        intro hl
        rw [List.getLast?_cons_cons] at hl
        exact hx (List.mem_of_getLast? hl)
    · have hr : n ∈ r := by
        rcases List.mem_cons.mp h with h | h
        · exact absurd h hnx
        · exact h
      rw [nextOf_cons_of_ne r hnx, ih (List.nodup_cons.mp hn).2 hr]
      cases r with
      | nil => simp at hr
      | cons y r' => rw [List.getLast?_cons_cons]

open L


/-- adjacency in a duplicate-free list -/
theorem nextOf_eq_some_iff {l : List Nat} (hn : l.Nodup) (m n : Nat) :
    nextOf l m = some n ↔ ∃ a b, l = a ++ m :: n :: b := by
  induction l with
  | nil => simp [nextOf]
  | cons x r ih =>
    have hx : x ∉ r := (List.nodup_cons.mp hn).1
    have hr := (List.nodup_cons.mp hn).2
    by_cases hmx : m = x
    · subst hmx
      rw [nextOf_cons_self]
      constructor
      · intro h
        cases r with
        | nil => simp at h
        | cons y r' => simp at h; subst h; exact ⟨[], r', rfl⟩
      · rintro ⟨a, b, hab⟩
        cases a with
        | nil => simp at hab; simp [hab]
        | cons z a' =>
          simp only [List.cons_append, List.cons.injEq] at hab
          exact absurd (hab.2 ▸ by simp : m ∈ r) hx
    · rw [nextOf_cons_of_ne r hmx, ih hr]
      constructor
      · rintro ⟨a, b, hab⟩; exact ⟨x :: a, b, by simp [hab]⟩
      · rintro ⟨a, b, hab⟩
        cases a with
        | nil => simp at hab; exact absurd hab.1.symm hmx
        | cons z a' =>
          simp only [List.cons_append, List.cons.injEq] at hab
          exact ⟨a', b, hab.2⟩

theorem prevOf_eq_some_iff {l : List Nat} (hn : l.Nodup) (m n : Nat) :
    prevOf l n = some m ↔ nextOf l m = some n := by
  unfold prevOf
  rw [nextOf_eq_some_iff (List.nodup_reverse.mpr hn), nextOf_eq_some_iff hn]
  constructor
  · rintro ⟨a, b, hab⟩
    refine ⟨b.reverse, a.reverse, ?_⟩
    have := congrArg List.reverse hab
    simpa using this
  · rintro ⟨a, b, hab⟩
    refine ⟨b.reverse, a.reverse, ?_⟩
    rw [hab]; simp

theorem nextOf_self_ne {l : List Nat} (hn : l.Nodup) (n : Nat) : nextOf l n ≠ some n := by
  intro h
  obtain ⟨a, b, hab⟩ := (nextOf_eq_some_iff hn n n).mp h
  rw [hab] at hn
  have := List.nodup_append.mp hn
  simp at this

theorem prevOf_of_not_mem {l : List Nat} {n : Nat} (h : n ∉ l) : prevOf l n = none :=
  nextOf_of_not_mem (by simpa using h)



/-! ### more list facts about `insAfter` / `insBefore` -/

theorem insAfter_of_not_mem {l : List Nat} {ex : Nat} (h : ex ∉ l) (new : Nat) : insAfter l ex new = l := by
  induction l with
  | nil => rfl
  | cons x r ih =>
    simp only [List.mem_cons, not_or] at h
    simp [insAfter, Ne.symm h.1, ih h.2]

theorem insBefore_of_not_mem {l : List Nat} {ex : Nat} (h : ex ∉ l) (new : Nat) : insBefore l ex new = l := by
  induction l with
  | nil => rfl
  | cons x r ih =>
    simp only [List.mem_cons, not_or] at h
    simp [insBefore, Ne.symm h.1, ih h.2]

theorem mem_insAfter {l : List Nat} {ex : Nat} (h : ex ∈ l) (new m : Nat) :
    m ∈ insAfter l ex new ↔ m = new ∨ m ∈ l := by
  induction l with
  | nil => simp at h
  | cons x r ih =>
    by_cases hx : x = ex
    · simp [insAfter, hx]; tauto
    · have : ex ∈ r := by
        rcases List.mem_cons.mp h with h | h
        · exact absurd h.symm hx
        · exact h
      simp [insAfter, hx, ih this]; tauto

theorem mem_insBefore {l : List Nat} {ex : Nat} (h : ex ∈ l) (new m : Nat) :
    m ∈ insBefore l ex new ↔ m = new ∨ m ∈ l := by
  induction l with
  | nil => simp at h
  | cons x r ih =>
    by_cases hx : x = ex
    · simp [insBefore, hx]
    · have : ex ∈ r := by
        rcases List.mem_cons.mp h with h | h
        · exact absurd h.symm hx
        · exact h
      simp [insBefore, hx, ih this]; tauto

theorem insBefore_append_of_mem {a : List Nat} {ex : Nat} (h : ex ∈ a) (b : List Nat) (new : Nat) :
    insBefore (a ++ b) ex new = insBefore a ex new ++ b := by
  induction a with
  | nil => simp at h
  | cons x r ih =>
    by_cases hx : x = ex
    · simp [insBefore, hx]
    · have : ex ∈ r := by
        rcases List.mem_cons.mp h with h | h
        · exact absurd h.symm hx
        · exact h
      simp [insBefore, hx, ih this]

theorem insBefore_append_of_not_mem {a : List Nat} {ex : Nat} (h : ex ∉ a) (b : List Nat) (new : Nat) :
    insBefore (a ++ b) ex new = a ++ insBefore b ex new := by
  induction a with
  | nil => rfl
  | cons x r ih =>
    simp only [List.mem_cons, not_or] at h
    simp [insBefore, Ne.symm h.1, ih h.2]

theorem insAfter_append_of_mem {a : List Nat} {ex : Nat} (h : ex ∈ a) (b : List Nat) (new : Nat) :
    insAfter (a ++ b) ex new = insAfter a ex new ++ b := by
  induction a with
  | nil => simp at h
  | cons x r ih =>
    by_cases hx : x = ex
    · simp [insAfter, hx]
    · have : ex ∈ r := by
        rcases List.mem_cons.mp h with h | h
        · exact absurd h.symm hx
        · exact h
      simp [insAfter, hx, ih this]

theorem insAfter_append_of_not_mem {a : List Nat} {ex : Nat} (h : ex ∉ a) (b : List Nat) (new : Nat) :
    insAfter (a ++ b) ex new = a ++ insAfter b ex new := by
  induction a with
  | nil => rfl
  | cons x r ih =>
    simp only [List.mem_cons, not_or] at h
    simp [insAfter, Ne.symm h.1, ih h.2]

theorem reverse_insAfter {l : List Nat} (hn : l.Nodup) (ex new : Nat) :
    (insAfter l ex new).reverse = insBefore l.reverse ex new := by
  induction l with
  | nil => rfl
  | cons x r ih =>
    have hx : x ∉ r := (List.nodup_cons.mp hn).1
    have hr := (List.nodup_cons.mp hn).2
    by_cases hxe : x = ex
    · subst hxe
      have : x ∉ r.reverse := by simpa using hx
      simp [insAfter, insBefore_append_of_not_mem this, insBefore]
    · simp only [insAfter, hxe, if_false, List.reverse_cons, ih hr]
      by_cases hm : ex ∈ r
      · rw [insBefore_append_of_mem (by simpa using hm)]
      · have h' : ex ∉ r.reverse := by simpa using hm
        rw [insBefore_append_of_not_mem h', insBefore_of_not_mem h']
        simp [insBefore, hxe]

theorem reverse_insBefore {l : List Nat} (hn : l.Nodup) (ex new : Nat) :
    (insBefore l ex new).reverse = insAfter l.reverse ex new := by
  induction l with
  | nil => rfl
  | cons x r ih =>
    have hx : x ∉ r := (List.nodup_cons.mp hn).1
    have hr := (List.nodup_cons.mp hn).2
    by_cases hxe : x = ex
    · subst hxe
      have : x ∉ r.reverse := by simpa using hx
      simp [insBefore, insAfter_append_of_not_mem this, insAfter]
    · simp only [insBefore, hxe, if_false, List.reverse_cons, ih hr]
      by_cases hm : ex ∈ r
      · rw [insAfter_append_of_mem (by simpa using hm)]
      · have h' : ex ∉ r.reverse := by simpa using hm
        rw [insAfter_append_of_not_mem h', insAfter_of_not_mem h']
        simp [insAfter, hxe]

theorem nodup_insAfter {l : List Nat} (hn : l.Nodup) {ex new : Nat} (hnew : new ∉ l) :
    (insAfter l ex new).Nodup := by
  induction l with
  | nil => exact List.nodup_nil
  | cons x r ih =>
    have hx : x ∉ r := (List.nodup_cons.mp hn).1
    have hr := (List.nodup_cons.mp hn).2
    simp only [List.mem_cons, not_or] at hnew
    by_cases hxe : x = ex
    · simp only [insAfter, hxe, if_true, List.nodup_cons, List.mem_cons, not_or]
      subst hxe
      exact ⟨⟨Ne.symm hnew.1, hx⟩, hnew.2, hr⟩
    · simp only [insAfter, hxe, if_false, List.nodup_cons]
      refine ⟨?_, ih hr hnew.2⟩
      by_cases hm : ex ∈ r
      · rw [mem_insAfter hm]; exact fun h => h.elim (fun h => hnew.1 h.symm) hx
      · rwa [insAfter_of_not_mem hm]

theorem nodup_insBefore {l : List Nat} (hn : l.Nodup) {ex new : Nat} (hnew : new ∉ l) :
    (insBefore l ex new).Nodup := by
  have := nodup_insAfter (List.nodup_reverse.mpr hn) (ex := ex) (new := new) (by simpa using hnew)
  rw [← reverse_insBefore hn] at this
  exact List.nodup_reverse.mp this

theorem getLast?_insAfter {l : List Nat} (hn : l.Nodup) (ex new : Nat) :
    (insAfter l ex new).getLast? = if l.getLast? = some ex then some new else l.getLast? := by
  rw [← List.head?_reverse, reverse_insAfter hn, head?_insBefore, List.head?_reverse]

theorem getLast?_insBefore {l : List Nat} (hn : l.Nodup) (ex new : Nat) :
    (insBefore l ex new).getLast? = l.getLast? := by
  rw [← List.head?_reverse, reverse_insBefore hn, head?_insAfter, List.head?_reverse]


/-! ### the representation invariant -/

/-- container `c` of `s` holds exactly the list `l` -/
structure Rep (s : L) (c : Nat) (l : List Nat) : Prop where
  first : (s.en c).first = l.head?
  last : (s.en c).last = l.getLast?
  link : ∀ n ∈ l, s.nd n = { next := nextOf l n, prev := prevOf l n, parent := some c }
  nodup : l.Nodup

/-- `s` represents the family of lists `f`: every container's pointers spell out its list forward
and backward, every member points back to its container, lists are duplicate-free and pairwise
disjoint, and nodes that are in no list have null links. -/
structure WF (s : L) (f : Nat → List Nat) : Prop where
  rep : ∀ c, Rep s c (f c)
  disj : ∀ c c' n, n ∈ f c → n ∈ f c' → c = c'
  free : ∀ n, (∀ c, n ∉ f c) → s.nd n = {}
  has : ∀ c n, n ∈ f c → s.has n

theorem wf_empty : WF {} (fun _ => []) where
  rep _ := ⟨rfl, rfl, by simp, List.nodup_nil⟩
  disj := by simp
  free _ _ := rfl
  has := by simp

/-! ### refinement: the traversals compute the abstract list -/

theorem walk_eq (s : L) (l : List Nat) (hn : l.Nodup)
    (hl : ∀ n ∈ l, (s.nd n).next = nextOf l n) (fuel : Nat) (hf : l.length ≤ fuel) :
    s.walk fuel l.head? = l := by
  induction l generalizing fuel with
  | nil => cases fuel <;> rfl
  | cons x r ih =>
    cases fuel with
    | zero => simp at hf
    | succ k =>
      have hx : x ∉ r := (List.nodup_cons.mp hn).1
      simp only [List.head?_cons, walk, hl x (List.mem_cons_self), nextOf_cons_self]
      congr 1
      apply ih (List.nodup_cons.mp hn).2 _ k (by simpa using hf)
      intro n hnr
      have : n ≠ x := fun h => hx (h ▸ hnr)
      rw [hl n (List.mem_cons_of_mem _ hnr), nextOf_cons_of_ne r this]

theorem walkBack_eq (s : L) (l : List Nat) (hn : l.Nodup)
    (hl : ∀ n ∈ l, (s.nd n).prev = nextOf l n) (fuel : Nat) (hf : l.length ≤ fuel) :
    s.walkBack fuel l.head? = l := by
  induction l generalizing fuel with
  | nil => cases fuel <;> rfl
  | cons x r ih =>
    cases fuel with
    | zero => simp at hf
    | succ k =>
      have hx : x ∉ r := (List.nodup_cons.mp hn).1
      simp only [List.head?_cons, walkBack, hl x (List.mem_cons_self), nextOf_cons_self]
      congr 1
      apply ih (List.nodup_cons.mp hn).2 _ k (by simpa using hf)
      intro n hnr
      have : n ≠ x := fun h => hx (h ▸ hnr)
      rw [hl n (List.mem_cons_of_mem _ hnr), nextOf_cons_of_ne r this]

theorem mem_keys_of_has {s : L} {n : Nat} (h : s.has n) : n ∈ s.node.map Prod.fst := by
  unfold L.has at h
  generalize s.node = m at h
  induction m with
  | nil => simp [AL.get] at h
  | cons p r ih =>
    obtain ⟨a, b⟩ := p
    simp only [AL.get] at h
    split at h
    · subst_vars; simp
    · simp [ih h]

/-- pigeonhole: a duplicate-free list of nodes that all have an entry is shorter than the fuel -/
theorem length_lt_fuel {s : L} {l : List Nat} (hn : l.Nodup) (hh : ∀ n ∈ l, s.has n) :
    l.length < s.fuel := by
  have hsub : l ⊆ s.node.map Prod.fst := fun n h => mem_keys_of_has (hh n h)
  have := (List.subperm_of_subset hn hsub).length_le
  simp only [List.length_map] at this
  unfold L.fuel; omega

namespace WF
variable {s : L} {f : Nat → List Nat}

theorem toList_eq (h : WF s f) (c : Nat) : s.toList c = f c := by
  have r := h.rep c
  unfold L.toList
  rw [r.first]
  exact walk_eq s (f c) r.nodup (fun n hn => by rw [r.link n hn]) _
    (Nat.le_of_lt (length_lt_fuel r.nodup (h.has c)))

theorem toListBack_eq (h : WF s f) (c : Nat) : s.toListBack c = (f c).reverse := by
  have r := h.rep c
  unfold L.toListBack
  rw [r.last, ← List.head?_reverse]
  refine walkBack_eq s (f c).reverse (List.nodup_reverse.mpr r.nodup) (fun n hn => ?_) _ ?_
  · rw [r.link n (List.mem_reverse.mp hn)]; rfl
  · rw [List.length_reverse]; exact Nat.le_of_lt (length_lt_fuel r.nodup (h.has c))

/-- "found … in both forward and backward order": the backward traversal is the reverse of the
forward traversal -/
theorem toListBack_eq_reverse (h : WF s f) (c : Nat) : s.toListBack c = (s.toList c).reverse := by
  rw [h.toListBack_eq, h.toList_eq]

theorem nodup_toList (h : WF s f) (c : Nat) : (s.toList c).Nodup := by
  rw [h.toList_eq]; exact (h.rep c).nodup

theorem parent_of_mem (h : WF s f) {c n : Nat} (hn : n ∈ f c) : (s.nd n).parent = some c := by
  rw [(h.rep c).link n hn]

/-- "… and points back to that container": membership is exactly the parent pointer -/
theorem mem_iff_parent (h : WF s f) (c n : Nat) : n ∈ f c ↔ (s.nd n).parent = some c := by
  constructor
  · exact h.parent_of_mem
  · intro hp
    by_contra hc
    by_cases hex : ∃ c', n ∈ f c'
    · obtain ⟨c', hc'⟩ := hex
      have := h.parent_of_mem hc'
      rw [hp] at this
      cases this
      exact hc hc'
    · have := h.free n (fun c' hc' => hex ⟨c', hc'⟩)
      rw [this] at hp
      cases hp

theorem nd_of_not_mem (h : WF s f) {n : Nat} (hp : (s.nd n).parent = none) : s.nd n = {} := by
  apply h.free
  intro c hc
  rw [h.parent_of_mem hc] at hp
  cases hp

end WF
open L

/-- Frame rule for an update that rewrites the list of one container `c` to `l'`: nodes outside
`f c ∪ l'` and all other containers are untouched, new members were free, removed members are
nulled. -/
theorem WF.update_one {s s' : L} {f : Nat → List Nat} (h : WF s f) (c : Nat) (l' : List Nat)
    (hen : ∀ d, d ≠ c → s'.en d = s.en d)
    (hnd : ∀ n, n ∉ f c → n ∉ l' → s'.nd n = s.nd n)
    (hrep : Rep s' c l')
    (hnew : ∀ n ∈ l', n ∈ f c ∨ ∀ d, n ∉ f d)
    (hgone : ∀ n ∈ f c, n ∉ l' → s'.nd n = {})
    (hhas : ∀ n, s.has n → s'.has n) (hhas' : ∀ n ∈ l', s'.has n) :
    WF s' (Function.update f c l') := by
  have other : ∀ d, d ≠ c → ∀ n ∈ f d, n ∉ f c ∧ n ∉ l' := by
    intro d hd n hn
    have h1 : n ∉ f c := fun hc => hd (h.disj d c n hn hc)
    refine ⟨h1, fun hl => ?_⟩
    rcases hnew n hl with h2 | h2
    · exact h1 h2
    · exact h2 d hn
  refine ⟨fun d => ?_, ?_, ?_, ?_⟩
  · by_cases hd : d = c
    · subst hd; simpa using hrep
    · rw [Function.update_of_ne hd]
      have r := h.rep d
      refine ⟨by rw [hen d hd]; exact r.first, by rw [hen d hd]; exact r.last, fun n hn => ?_, r.nodup⟩
      rw [hnd n (other d hd n hn).1 (other d hd n hn).2]; exact r.link n hn
  · intro d d' n hn hn'
    by_cases hd : d = c <;> by_cases hd' : d' = c
    · rw [hd, hd']
    · subst hd
      rw [Function.update_of_ne hd'] at hn'
      rw [Function.update_self] at hn
      exact absurd hn (other d' hd' n hn').2
    · subst hd'
      rw [Function.update_of_ne hd] at hn
      rw [Function.update_self] at hn'
      exact absurd hn' (other d hd n hn).2
    · rw [Function.update_of_ne hd] at hn
      rw [Function.update_of_ne hd'] at hn'
      exact h.disj d d' n hn hn'
  · intro n hn
    have hl : n ∉ l' := by simpa using hn c
    by_cases hc : n ∈ f c
    · exact hgone n hc hl
    · rw [hnd n hc hl]
      apply h.free
      intro d
      by_cases hd : d = c
      · rw [hd]; exact hc
      · have := hn d; rwa [Function.update_of_ne hd] at this
  · intro d n hn
    by_cases hd : d = c
    · subst hd; rw [Function.update_self] at hn; exact hhas' n hn
    · rw [Function.update_of_ne hd] at hn; exact hhas n (h.has d n hn)

theorem has_setNext (s : L) (n m : Nat) (v : Option Nat) : (s.setNext n v).has m ↔ m = n ∨ s.has m := by
  simp [setNext, has_setNd]
theorem has_setPrev (s : L) (n m : Nat) (v : Option Nat) : (s.setPrev n v).has m ↔ m = n ∨ s.has m := by
  simp [setPrev, has_setNd]
theorem has_setParent (s : L) (n m : Nat) (v : Option Nat) : (s.setParent n v).has m ↔ m = n ∨ s.has m := by
  simp [setParent, has_setNd]
@[simp] theorem has_setFirst (s : L) (c m : Nat) (v : Option Nat) : (s.setFirst c v).has m ↔ s.has m := Iff.rfl
@[simp] theorem has_setLast (s : L) (c m : Nat) (v : Option Nat) : (s.setLast c v).has m ↔ s.has m := Iff.rfl

/-- `insertAfter` performs `insAfter` on the list of `c` -/
theorem WF.insertAfter {s : L} {f : Nat → List Nat} (h : WF s f) {c ex new : Nat}
    (hex : ex ∈ f c) (hnew : ∀ d, new ∉ f d) :
    WF (s.insertAfter c ex new) (Function.update f c (insAfter (f c) ex new)) := by
  have r := h.rep c
  have hne : new ≠ ex := fun e => hnew c (e ▸ hex)
  have hnx : (s.nd ex).next = nextOf (f c) ex := by rw [r.link ex hex]
  have nxmem : ∀ x, nextOf (f c) ex = some x → x ∈ f c := fun x hx => (mem_of_nextOf hx).2
  apply h.update_one c
  · -- other containers' ends
    intro d hd
    simp only [L.insertAfter]
    split <;> split <;> simp [hd]
  · -- frame
    intro n hn1 hn2
    rw [mem_insAfter hex] at hn2
    have h1 : n ≠ new := fun e => hn2 (Or.inl e)
    have h2 : n ≠ ex := fun e => hn1 (e ▸ hex)
    simp only [L.insertAfter, hnx]
    cases hx : nextOf (f c) ex with
    | none => simp [h1, h2]
    | some x =>
      have h3 : n ≠ x := fun e => hn1 (e ▸ nxmem x hx)
      simp [h1, h2, h3]
  · -- the representation of c
    refine ⟨?_, ?_, ?_, nodup_insAfter r.nodup (hnew c)⟩
    · rw [head?_insAfter, ← r.first]
      simp only [L.insertAfter]
      split <;> split <;> simp
    · rw [getLast?_insAfter r.nodup, ← r.last]
      have hl := nextOf_eq_none_iff r.nodup hex
      simp only [L.insertAfter, hnx]
      cases hx : nextOf (f c) ex with
      | none =>
        have := hl.mp hx
        simp [r.last, this]
      | some x =>
        have : (f c).getLast? ≠ some ex := fun e => by rw [hl.mpr e] at hx; cases hx
        simp [r.last, this]
    · intro n hn
      rw [mem_insAfter hex] at hn
      have hprev : prevOf (insAfter (f c) ex new) n =
          if n = new then some ex else if prevOf (f c) n = some ex then some new else prevOf (f c) n := by
        unfold prevOf
        rw [reverse_insAfter r.nodup, nextOf_insBefore (by simpa using hex) (by simpa using hnew c)
          (List.nodup_reverse.mpr r.nodup)]
      rw [nextOf_insAfter hex (hnew c), hprev]
      simp only [L.insertAfter, hnx]
      have hadj := fun n => prevOf_eq_some_iff r.nodup ex n
      by_cases h1 : n = new
      · subst h1
        cases hx : nextOf (f c) ex <;> simp [hne]
      · have hnl : n ∈ f c := hn.resolve_left h1
        have hln := r.link n hnl
        by_cases h2 : n = ex
        · subst h2
          have hp : prevOf (f c) n ≠ some n := fun e => nextOf_self_ne r.nodup n ((hadj n).mp e)
          cases hx : nextOf (f c) n with
          | none => simp [h1, hln, hp]
          | some x =>
            have : n ≠ x := fun e => nextOf_self_ne r.nodup n (e ▸ hx)
            simp [h1, hln, hp, this]
        · cases hx : nextOf (f c) ex with
          | none =>
            have : prevOf (f c) n ≠ some ex := fun e => by rw [(hadj n).mp e] at hx; cases hx
            simp [h1, h2, hln, this]
          | some x =>
            by_cases h3 : n = x
            · subst h3
              have : prevOf (f c) n = some ex := (hadj n).mpr hx
              simp [h1, h2, hln, this]
            · have : prevOf (f c) n ≠ some ex := fun e => by
                rw [(hadj n).mp e] at hx; cases hx; exact h3 rfl
              simp [h1, h2, h3, hln, this]
  · -- provenance of members
    intro n hn
    rw [mem_insAfter hex] at hn
    rcases hn with e | hm
    · exact Or.inr (e ▸ hnew)
    · exact Or.inl hm
  · -- nothing is removed
    intro n hn hn'
    exact absurd ((mem_insAfter hex new n).mpr (Or.inr hn)) hn'
  · intro n hn
    simp only [L.insertAfter]
    split <;> split <;> simp [has_setNext, has_setNd, has_setPrev, hn]
  · intro n hn
    rw [mem_insAfter hex] at hn
    have : n = new ∨ s.has n := hn.imp id (h.has c n)
    simp only [L.insertAfter]
    split <;> split <;> simp [has_setNext, has_setNd, has_setPrev] <;> tauto


/-- `prevOf` is `none` exactly on the first element of a duplicate-free list -/
theorem prevOf_eq_none_iff {l : List Nat} (hn : l.Nodup) {n : Nat} (h : n ∈ l) :
    prevOf l n = none ↔ l.head? = some n := by
  unfold prevOf
  rw [nextOf_eq_none_iff (List.nodup_reverse.mpr hn) (by simpa using h), List.getLast?_reverse]

/-- `insertBefore` performs `insBefore` on the list of `c` -/
theorem WF.insertBefore {s : L} {f : Nat → List Nat} (h : WF s f) {c ex new : Nat}
    (hex : ex ∈ f c) (hnew : ∀ d, new ∉ f d) :
    WF (s.insertBefore c ex new) (Function.update f c (insBefore (f c) ex new)) := by
  have r := h.rep c
  have hne : new ≠ ex := fun e => hnew c (e ▸ hex)
  have hpv : (s.nd ex).prev = prevOf (f c) ex := by rw [r.link ex hex]
  have pvmem : ∀ x, prevOf (f c) ex = some x → x ∈ f c := fun x hx => by
    have := (mem_of_nextOf hx).2; simpa using this
  apply h.update_one c
  · intro d hd
    simp only [L.insertBefore]
    split <;> split <;> simp [hd]
  · intro n hn1 hn2
    rw [mem_insBefore hex] at hn2
    have h1 : n ≠ new := fun e => hn2 (Or.inl e)
    have h2 : n ≠ ex := fun e => hn1 (e ▸ hex)
    simp only [L.insertBefore, hpv]
    cases hx : prevOf (f c) ex with
    | none => simp [h1, h2]
    | some x =>
      have h3 : n ≠ x := fun e => hn1 (e ▸ pvmem x hx)
      simp [h1, h2, h3]
  · refine ⟨?_, ?_, ?_, nodup_insBefore r.nodup (hnew c)⟩
    · rw [head?_insBefore, ← r.first]
      have hl := prevOf_eq_none_iff r.nodup hex
      simp only [L.insertBefore, hpv]
      cases hx : prevOf (f c) ex with
      | none =>
        have := hl.mp hx
        simp [r.first, this]
      | some x =>
        have : (f c).head? ≠ some ex := fun e => by rw [hl.mpr e] at hx; cases hx
        simp [r.first, this]
    · rw [getLast?_insBefore r.nodup, ← r.last]
      simp only [L.insertBefore]
      split <;> split <;> simp
    · intro n hn
      rw [mem_insBefore hex] at hn
      have hprev : prevOf (insBefore (f c) ex new) n =
          if n = ex then some new else if n = new then prevOf (f c) ex else prevOf (f c) n := by
        unfold prevOf
        rw [reverse_insBefore r.nodup, nextOf_insAfter (by simpa using hex) (by simpa using hnew c)]
      rw [nextOf_insBefore hex (hnew c) r.nodup, hprev]
      simp only [L.insertBefore, hpv]
      have hadj := fun n => prevOf_eq_some_iff r.nodup n ex
      by_cases h1 : n = new
      · subst h1
        cases hx : prevOf (f c) ex <;> simp [hne]
      · have hnl : n ∈ f c := hn.resolve_left h1
        have hln := r.link n hnl
        by_cases h2 : n = ex
        · subst h2
          have hp : nextOf (f c) n ≠ some n := nextOf_self_ne r.nodup n
          cases hx : prevOf (f c) n with
          | none => simp [h1, hln, hp]
          | some x =>
            have : n ≠ x := fun e => nextOf_self_ne r.nodup n ((hadj n).mp (e ▸ hx))
            simp [h1, hln, hp, this]
        · cases hx : prevOf (f c) ex with
          | none =>
            have : nextOf (f c) n ≠ some ex := fun e => by rw [(hadj n).mpr e] at hx; cases hx
            simp [h1, h2, hln, this]
          | some x =>
            by_cases h3 : n = x
            · subst h3
              have : nextOf (f c) n = some ex := (hadj n).mp hx
              simp [h1, h2, hln, this]
            · have : nextOf (f c) n ≠ some ex := fun e => by
                rw [(hadj n).mpr e] at hx; cases hx; exact h3 rfl
              simp [h1, h2, h3, hln, this]
  · intro n hn
    rw [mem_insBefore hex] at hn
    rcases hn with e | hm
    · exact Or.inr (e ▸ hnew)
    · exact Or.inl hm
  · intro n hn hn'
    exact absurd ((mem_insBefore hex new n).mpr (Or.inr hn)) hn'
  · intro n hn
    simp only [L.insertBefore]
    split <;> split <;> simp [has_setNext, has_setNd, has_setPrev, hn]
  · intro n hn
    rw [mem_insBefore hex] at hn
    have : n = new ∨ s.has n := hn.imp id (h.has c n)
    simp only [L.insertBefore]
    split <;> split <;> simp [has_setNext, has_setNd, has_setPrev] <;> tauto

theorem insAfter_getLast {l : List Nat} {x : Nat} (hn : l.Nodup) (h : l.getLast? = some x) (new : Nat) :
    insAfter l x new = l ++ [new] := by
  obtain ⟨a, rfl⟩ : ∃ a, l = a ++ [x] := by
    rcases List.eq_nil_or_concat l with rfl | ⟨a, y, rfl⟩
    · simp at h
    · simp at h; subst h; exact ⟨a, by simp⟩
  have : x ∉ a := by
    have := List.nodup_append.mp hn
    intro hx; exact this.2.2 x hx x (by simp) rfl
  rw [insAfter_append_of_not_mem this]; simp [insAfter]

theorem insBefore_head {l : List Nat} {x : Nat} (h : l.head? = some x) (new : Nat) :
    insBefore l x new = new :: l := by
  cases l with
  | nil => simp at h
  | cons y r => simp at h; subst h; simp [insBefore]

/-- inserting into an empty container -/
theorem WF.initSingle {s : L} {f : Nat → List Nat} (h : WF s f) {c new : Nat}
    (hc : f c = []) (hnew : ∀ d, new ∉ f d) :
    WF ((s.setNd new { parent := some c }).setEn c { first := some new, last := some new })
      (Function.update f c [new]) := by
  apply h.update_one c
  · intro d hd; simp [hd]
  · intro n _ hn2
    have : n ≠ new := by simpa using hn2
    simp [this]
  · refine ⟨by simp, by simp, ?_, by simp⟩
    intro n hn
    have : n = new := by simpa using hn
    subst this
    simp [nextOf, prevOf]
  · intro n hn
    have : n = new := by simpa using hn
    exact Or.inr (this ▸ hnew)
  · intro n hn; rw [hc] at hn; cases hn
  · intro n hn; simp [has_setNd, hn]
  · intro n hn
    have : n = new := by simpa using hn
    simp [has_setNd, this]

/-- `pushBack` appends -/
theorem WF.pushBack {s : L} {f : Nat → List Nat} (h : WF s f) {c new : Nat} (hnew : ∀ d, new ∉ f d) :
    WF (s.pushBack c new) (Function.update f c (f c ++ [new])) := by
  have r := h.rep c
  unfold L.pushBack
  cases hl : (s.en c).last with
  | none =>
    have : f c = [] := by
      rw [r.last] at hl
      exact List.getLast?_eq_none_iff.mp hl
    simp only [this, List.nil_append]
    exact h.initSingle this hnew
  | some l =>
    rw [r.last] at hl
    have hmem : l ∈ f c := List.mem_of_getLast? hl
    simp only
    rw [← insAfter_getLast r.nodup hl]
    exact h.insertAfter hmem hnew

/-- `pushFront` prepends (`add_use`) -/
theorem WF.pushFront {s : L} {f : Nat → List Nat} (h : WF s f) {c new : Nat} (hnew : ∀ d, new ∉ f d) :
    WF (s.pushFront c new) (Function.update f c (new :: f c)) := by
  have r := h.rep c
  unfold L.pushFront
  cases hl : (s.en c).first with
  | none =>
    have : f c = [] := by
      rw [r.first] at hl
      exact List.head?_eq_none_iff.mp hl
    simp only [this]
    exact h.initSingle this hnew
  | some l =>
    rw [r.first] at hl
    have hmem : l ∈ f c := List.mem_of_head? hl
    simp only
    rw [← insBefore_head hl]
    exact h.insertBefore hmem hnew


/-! ### removal -/

theorem erase_cons_ne {y x : Nat} (r : List Nat) (h : y ≠ x) : (y :: r).erase x = y :: r.erase x := by
  simp [List.erase_cons, h]

/-- two steps forward never return to the start in a duplicate-free list -/
theorem nextOf_nextOf_ne {l : List Nat} (hn : l.Nodup) {p n q : Nat} (h1 : nextOf l p = some n)
    (h2 : nextOf l n = some q) : p ≠ q := by
  obtain ⟨a, b, hab⟩ := (nextOf_eq_some_iff hn p n).mp h1
  subst hab
  have hnd := List.nodup_append.mp hn
  have hna : n ∉ a := fun hm => hnd.2.2 n hm n (by simp) rfl
  have hpn : n ≠ p := fun e => by
    have := (List.nodup_cons.mp hnd.2.1).1; simp [e] at this
  rw [nextOf_append_of_not_mem _ hna, nextOf_cons_of_ne _ hpn, nextOf_cons_self] at h2
  intro e
  subst e
  have : p ∈ b := List.mem_of_head? h2
  have := (List.nodup_cons.mp hnd.2.1).1
  simp_all

theorem head?_erase {l : List Nat} (x : Nat) :
    (l.erase x).head? = if l.head? = some x then nextOf l x else l.head? := by
  cases l with
  | nil => rfl
  | cons y r =>
    by_cases h : y = x
    · subst h; simp [nextOf]
    · simp [erase_cons_ne r h, h]

theorem nextOf_erase {l : List Nat} (hn : l.Nodup) (x n : Nat) :
    nextOf (l.erase x) n =
      if n = x then none else if nextOf l n = some x then nextOf l x else nextOf l n := by
  induction l with
  | nil => simp [nextOf]
  | cons y r ih =>
    have hy : y ∉ r := (List.nodup_cons.mp hn).1
    have hr := (List.nodup_cons.mp hn).2
    by_cases hyx : y = x
    · subst hyx
      simp only [List.erase_cons_head]
      by_cases h1 : n = y
      · subst h1; simp [nextOf_of_not_mem hy]
      · have : nextOf r n ≠ some y := fun e => hy (mem_of_nextOf e).2
        simp [h1, nextOf_cons_of_ne r h1, this]
    · rw [erase_cons_ne r hyx]
      by_cases h1 : n = y
      · subst h1
        have hxn : ¬ x = n := fun e => hyx e.symm
        simp only [nextOf_cons_self, head?_erase, hyx, if_false, nextOf_cons_of_ne r hxn]
      · rw [nextOf_cons_of_ne _ h1, ih hr, nextOf_cons_of_ne r h1,
          nextOf_cons_of_ne r (fun e => hyx e.symm : x ≠ y)]

theorem reverse_erase {l : List Nat} (hn : l.Nodup) (x : Nat) :
    (l.erase x).reverse = l.reverse.erase x := by
  induction l with
  | nil => rfl
  | cons y r ih =>
    have hy : y ∉ r := (List.nodup_cons.mp hn).1
    have hr := (List.nodup_cons.mp hn).2
    by_cases hyx : y = x
    · subst hyx
      have : y ∉ r.reverse := by simpa using hy
      simp [List.erase_append_right _ this]
    · rw [erase_cons_ne r hyx]
      simp only [List.reverse_cons, ih hr]
      by_cases hm : x ∈ r
      · rw [List.erase_append_left _ (by simpa using hm)]
      · have h' : x ∉ r.reverse := by simpa using hm
        rw [List.erase_append_right _ h', List.erase_of_not_mem h']
        simp [List.erase_cons, hyx]

theorem getLast?_erase {l : List Nat} (hn : l.Nodup) (x : Nat) :
    (l.erase x).getLast? = if l.getLast? = some x then prevOf l x else l.getLast? := by
  rw [← List.head?_reverse, reverse_erase hn, head?_erase, List.head?_reverse]; rfl

theorem prevOf_erase {l : List Nat} (hn : l.Nodup) (x n : Nat) :
    prevOf (l.erase x) n =
      if n = x then none else if prevOf l n = some x then prevOf l x else prevOf l n := by
  unfold prevOf
  rw [reverse_erase hn, nextOf_erase (List.nodup_reverse.mpr hn)]

/-- `remove` erases the node from the list of its container and nulls its links -/
theorem WF.remove {s : L} {f : Nat → List Nat} (h : WF s f) {c n : Nat} (hn : n ∈ f c) :
    WF (s.remove c n) (Function.update f c ((f c).erase n)) := by
  have r := h.rep c
  have hx := r.link n hn
  have memE : ∀ m, m ∈ (f c).erase n ↔ m ≠ n ∧ m ∈ f c := fun m => r.nodup.mem_erase_iff
  have pvmem : ∀ x, prevOf (f c) n = some x → x ∈ f c := fun x hx => by
    have := (mem_of_nextOf hx).2; simpa using this
  have nxmem : ∀ x, nextOf (f c) n = some x → x ∈ f c := fun x hx => (mem_of_nextOf hx).2
  have hadjP := fun m => prevOf_eq_some_iff r.nodup m n   -- prevOf n = some m ↔ nextOf m = some n
  have hadjN := fun m => prevOf_eq_some_iff r.nodup n m   -- prevOf m = some n ↔ nextOf n = some m
  apply h.update_one c
  · intro d hd
    simp only [L.remove, hx]
    cases prevOf (f c) n <;> cases nextOf (f c) n <;> simp [hd]
  · intro m hm1 hm2
    have h2 : m ≠ n := fun e => hm1 (e ▸ hn)
    simp only [L.remove, hx]
    cases hp : prevOf (f c) n with
    | none =>
      cases hq : nextOf (f c) n with
      | none => simp [h2]
      | some q =>
        have : m ≠ q := fun e => hm1 (e ▸ nxmem q hq)
        simp [h2, this]
    | some p =>
      have h3 : m ≠ p := fun e => hm1 (e ▸ pvmem p hp)
      cases hq : nextOf (f c) n with
      | none => simp [h2, h3]
      | some q =>
        have : m ≠ q := fun e => hm1 (e ▸ nxmem q hq)
        simp [h2, h3, this]
  · refine ⟨?_, ?_, ?_, r.nodup.erase n⟩
    · rw [head?_erase, ← r.first]
      have hl := prevOf_eq_none_iff r.nodup hn
      simp only [L.remove, hx]
      cases hp : prevOf (f c) n with
      | none =>
        have := hl.mp hp
        cases hq : nextOf (f c) n <;> simp [r.first, this]
      | some p =>
        have : (f c).head? ≠ some n := fun e => by rw [hl.mpr e] at hp; cases hp
        cases hq : nextOf (f c) n <;> simp [r.first, this]
    · rw [getLast?_erase r.nodup, ← r.last]
      have hl := nextOf_eq_none_iff r.nodup hn
      simp only [L.remove, hx]
      cases hq : nextOf (f c) n with
      | none =>
        have := hl.mp hq
        cases hp : prevOf (f c) n <;> simp [r.last, this]
      | some q =>
        have : (f c).getLast? ≠ some n := fun e => by rw [hl.mpr e] at hq; cases hq
        cases hp : prevOf (f c) n <;> simp [r.last, this]
    · intro m hm
      rw [memE] at hm
      obtain ⟨hmn, hml⟩ := hm
      have hlm := r.link m hml
      rw [nextOf_erase r.nodup, prevOf_erase r.nodup]
      simp only [L.remove, hx, hmn, if_false]
      cases hp : prevOf (f c) n with
      | none =>
        have h1 : nextOf (f c) m ≠ some n := fun e => by rw [(hadjP m).mpr e] at hp; cases hp
        cases hq : nextOf (f c) n with
        | none =>
          have h2 : prevOf (f c) m ≠ some n := fun e => by rw [(hadjN m).mp e] at hq; cases hq
          simp [hmn, hlm, h1, h2]
        | some q =>
          by_cases h3 : m = q
          · subst h3
            have : prevOf (f c) m = some n := (hadjN m).mpr hq
            simp [hmn, hlm, h1, this]
          · have h2 : prevOf (f c) m ≠ some n := fun e => by
              rw [(hadjN m).mp e] at hq; cases hq; exact h3 rfl
            simp [hmn, hlm, h1, h2, h3]
      | some p =>
        have hpq : ∀ q, nextOf (f c) n = some q → p ≠ q := fun q hq =>
          nextOf_nextOf_ne r.nodup ((hadjP p).mp hp) hq
        cases hq : nextOf (f c) n with
        | none =>
          have h2 : prevOf (f c) m ≠ some n := fun e => by rw [(hadjN m).mp e] at hq; cases hq
          by_cases h3 : m = p
          · subst h3
            have : nextOf (f c) m = some n := (hadjP m).mp hp
            simp [hmn, hlm, this, h2]
          · have h1 : nextOf (f c) m ≠ some n := fun e => by
              rw [(hadjP m).mpr e] at hp; cases hp; exact h3 rfl
            simp [hmn, hlm, h1, h2, h3]
        | some q =>
          have hpq' := hpq q hq
          by_cases h3 : m = p
          · subst h3
            have e1 : nextOf (f c) m = some n := (hadjP m).mp hp
            have h2 : prevOf (f c) m ≠ some n := fun e => by
              rw [(hadjN m).mp e] at hq; cases hq; exact hpq' rfl
            simp [hmn, hlm, e1, h2, hpq']
          · have h1 : nextOf (f c) m ≠ some n := fun e => by
              rw [(hadjP m).mpr e] at hp; cases hp; exact h3 rfl
            by_cases h4 : m = q
            · subst h4
              have e2 : prevOf (f c) m = some n := (hadjN m).mpr hq
              simp [hmn, hlm, h1, e2, h3]
            · have h2 : prevOf (f c) m ≠ some n := fun e => by
                rw [(hadjN m).mp e] at hq; cases hq; exact h4 rfl
              simp [hmn, hlm, h1, h2, h3, h4]
  · intro m hm
    rw [memE] at hm
    exact Or.inl hm.2
  · intro m hm hm'
    rw [memE] at hm'
    have : m = n := by
      by_contra e; exact hm' ⟨e, hm⟩
    subst this
    simp [L.remove]
  · intro m hm
    simp only [L.remove, hx]
    cases prevOf (f c) n <;> cases nextOf (f c) n <;>
      simp [has_setNext, has_setNd, has_setPrev, hm]
  · intro m hm
    rw [memE] at hm
    have := h.has c m hm.2
    simp only [L.remove, hx]
    cases prevOf (f c) n <;> cases nextOf (f c) n <;>
      simp [has_setNext, has_setNd, has_setPrev, this]


/-! ### operations on two containers -/

theorem nd_setParents (s : L) (l : List Nat) (p : Option Nat) (n : Nat) :
    (s.setParents l p).nd n = if n ∈ l then { s.nd n with parent := p } else s.nd n := by
  unfold L.setParents
  induction l generalizing s with
  | nil => simp
  | cons x r ih =>
    simp only [List.foldl_cons, ih, nd_setParent, List.mem_cons]
    by_cases h1 : n ∈ r <;> by_cases h2 : n = x <;> simp [h1, h2]

@[simp] theorem en_setParents (s : L) (l : List Nat) (p : Option Nat) (c : Nat) :
    (s.setParents l p).en c = s.en c := by
  unfold L.setParents
  induction l generalizing s with
  | nil => rfl
  | cons x r ih => simp [ih]

theorem has_setParents (s : L) (l : List Nat) (p : Option Nat) (n : Nat) (h : s.has n) :
    (s.setParents l p).has n := by
  unfold L.setParents
  induction l generalizing s with
  | nil => exact h
  | cons x r ih => exact ih _ ((has_setParent s x n p).mpr (Or.inr h))

theorem WF.update_two {s s' : L} {f : Nat → List Nat} (h : WF s f) (c c' : Nat) (hcc : c ≠ c')
    (l1 l2 : List Nat)
    (hen : ∀ d, d ≠ c → d ≠ c' → s'.en d = s.en d)
    (hnd : ∀ n, n ∉ f c → n ∉ f c' → s'.nd n = s.nd n)
    (hrep1 : Rep s' c l1) (hrep2 : Rep s' c' l2)
    (hmem : ∀ n, (n ∈ l1 ∨ n ∈ l2) ↔ (n ∈ f c ∨ n ∈ f c'))
    (hdisj : ∀ n, n ∈ l1 → n ∉ l2)
    (hhas : ∀ n, s.has n → s'.has n) :
    WF s' (Function.update (Function.update f c l1) c' l2) := by
  have fother : ∀ d, d ≠ c → d ≠ c' → Function.update (Function.update f c l1) c' l2 d = f d := by
    intro d h1 h2; rw [Function.update_of_ne h2, Function.update_of_ne h1]
  have fc : Function.update (Function.update f c l1) c' l2 c = l1 := by
    rw [Function.update_of_ne hcc, Function.update_self]
  have fc' : Function.update (Function.update f c l1) c' l2 c' = l2 := Function.update_self ..
  have other : ∀ d, d ≠ c → d ≠ c' → ∀ n ∈ f d, n ∉ f c ∧ n ∉ f c' := by
    intro d h1 h2 n hn
    exact ⟨fun hc => h1 (h.disj d c n hn hc), fun hc => h2 (h.disj d c' n hn hc)⟩
  have newmem : ∀ n, n ∈ l1 ∨ n ∈ l2 → ∀ d, d ≠ c → d ≠ c' → n ∉ f d := by
    intro n hn d h1 h2 hd
    have := other d h1 h2 n hd
    rcases (hmem n).mp hn with e | e
    · exact this.1 e
    · exact this.2 e
  refine ⟨fun d => ?_, ?_, ?_, ?_⟩
  · by_cases h1 : d = c
    · subst h1; rw [fc]; exact hrep1
    · by_cases h2 : d = c'
      · subst h2; rw [fc']; exact hrep2
      · rw [fother d h1 h2]
        have r := h.rep d
        refine ⟨by rw [hen d h1 h2]; exact r.first, by rw [hen d h1 h2]; exact r.last, fun n hn => ?_, r.nodup⟩
        rw [hnd n (other d h1 h2 n hn).1 (other d h1 h2 n hn).2]; exact r.link n hn
  · intro d d' n hn hn'
    by_cases h1 : d = c
    · subst h1
      rw [fc] at hn
      by_cases h1' : d' = d
      · exact h1'.symm
      · by_cases h2' : d' = c'
        · subst h2'; rw [fc'] at hn'; exact absurd hn' (hdisj n hn)
        · rw [fother d' h1' h2'] at hn'; exact absurd hn' (newmem n (Or.inl hn) d' h1' h2')
    · by_cases h2 : d = c'
      · subst h2
        rw [fc'] at hn
        by_cases h1' : d' = c
        · subst h1'; rw [fc] at hn'; exact absurd hn (hdisj n hn')
        · by_cases h2' : d' = d
          · exact h2'.symm
          · rw [fother d' h1' h2'] at hn'; exact absurd hn' (newmem n (Or.inr hn) d' h1' h2')
      · rw [fother d h1 h2] at hn
        by_cases h1' : d' = c
        · subst h1'; rw [fc] at hn'; exact absurd hn (newmem n (Or.inl hn') d h1 h2)
        · by_cases h2' : d' = c'
          · subst h2'; rw [fc'] at hn'; exact absurd hn (newmem n (Or.inr hn') d h1 h2)
          · rw [fother d' h1' h2'] at hn'; exact h.disj d d' n hn hn'
  · intro n hn
    have h1 : n ∉ l1 := by have := hn c; rwa [fc] at this
    have h2 : n ∉ l2 := by have := hn c'; rwa [fc'] at this
    have h3 : ¬ (n ∈ f c ∨ n ∈ f c') := fun e => by
      rcases (hmem n).mpr e with e | e
      · exact h1 e
      · exact h2 e
    rw [hnd n (fun e => h3 (Or.inl e)) (fun e => h3 (Or.inr e))]
    apply h.free
    intro d
    by_cases h1' : d = c
    · rw [h1']; exact fun e => h3 (Or.inl e)
    · by_cases h2' : d = c'
      · rw [h2']; exact fun e => h3 (Or.inr e)
      · have := hn d; rwa [fother d h1' h2'] at this
  · intro d n hn
    apply hhas
    by_cases h1 : d = c
    · subst h1; rw [fc] at hn
      rcases (hmem n).mp (Or.inl hn) with e | e
      · exact h.has _ n e
      · exact h.has _ n e
    · by_cases h2 : d = c'
      · subst h2; rw [fc'] at hn
        rcases (hmem n).mp (Or.inr hn) with e | e
        · exact h.has _ n e
        · exact h.has _ n e
      · rw [fother d h1 h2] at hn; exact h.has d n hn

theorem prevOf_append_of_mem_right {a b : List Nat} {n : Nat} (h : n ∈ b) :
    prevOf (a ++ b) n = (prevOf b n).or a.getLast? := by
  unfold prevOf
  rw [List.reverse_append, nextOf_append_of_mem _ (by simpa using h), List.head?_reverse]

theorem prevOf_append_of_not_mem_right {a b : List Nat} {n : Nat} (h : n ∉ b) :
    prevOf (a ++ b) n = prevOf a n := by
  unfold prevOf
  rw [List.reverse_append, nextOf_append_of_not_mem _ (by simpa using h)]

theorem prevOf_cons_self (x : Nat) (r : List Nat) (h : x ∉ r) : prevOf (x :: r) x = none := by
  have hn : (x :: r).head? = some x := rfl
  unfold prevOf
  rw [List.reverse_cons, nextOf_append_of_not_mem _ (by simpa using h)]
  simp [nextOf]

theorem nextOf_some_of_mem_of_ne_last {l : List Nat} (hn : l.Nodup) {n : Nat} (h : n ∈ l)
    (hl : l.getLast? ≠ some n) : (nextOf l n).isSome := by
  cases hx : nextOf l n with
  | none => exact absurd ((nextOf_eq_none_iff hn h).mp hx) hl
  | some _ => rfl

theorem prevOf_some_of_mem_of_ne_head {l : List Nat} (hn : l.Nodup) {n : Nat} (h : n ∈ l)
    (hl : l.head? ≠ some n) : (prevOf l n).isSome := by
  cases hx : prevOf l n with
  | none => exact absurd ((prevOf_eq_none_iff hn h).mp hx) hl
  | some _ => rfl


theorem Option.or_of_isSome' {α : Type} {a b : Option α} (h : a.isSome) : a.or b = a := by
  cases a with
  | none => cases h
  | some _ => rfl

/-- `splitBefore` moves the suffix starting at `n` into the empty container `c'` -/
theorem WF.splitBefore {s : L} {f : Nat → List Nat} (h : WF s f) {c n c' : Nat} {a b : List Nat}
    (hab : f c = a ++ n :: b) (hc' : f c' = []) (hcc : c ≠ c') :
    WF (s.splitBefore c n c') (Function.update (Function.update f c a) c' (n :: b)) := by
  have r := h.rep c
  have hnd := r.nodup
  rw [hab] at hnd
  have hd := List.nodup_append.mp hnd
  have hnb : n ∉ b := (List.nodup_cons.mp hd.2.1).1
  have hdisj : ∀ m, m ∈ a → m ∉ n :: b := fun m hm hm' => hd.2.2 m hm m hm' rfl
  have hdisj' : ∀ m, m ∈ n :: b → m ∉ a := fun m hm hm' => hd.2.2 m hm' m hm rfl
  have hn : n ∈ f c := by rw [hab]; simp
  have hx := r.link n hn
  have hprev : prevOf (f c) n = a.getLast? := by
    rw [hab, prevOf_append_of_mem_right (by simp), prevOf_cons_self n b hnb]; rfl
  -- the suffix walked by the model is `n :: b`
  have hsuf : s.walk s.fuel (some n) = n :: b := by
    have : (some n) = (n :: b).head? := rfl
    rw [this]
    apply walk_eq s (n :: b) hd.2.1
    · intro m hm
      rw [r.link m (by rw [hab]; exact List.mem_append_right _ hm), hab,
        nextOf_append_of_not_mem _ (hdisj' m hm)]
    · have := length_lt_fuel r.nodup (h.has c)
      rw [hab] at this; simp at this ⊢; omega
  have hlast : (f c).getLast? = (n :: b).getLast? := by
    rw [hab, List.getLast?_append_of_ne_nil _ (by simp)]
  have hfirst : (if (a.getLast?).isNone then none else (f c).head?) = a.head? := by
    cases a with
    | nil => simp
    | cons y a' => rw [hab]; simp [List.getLast?_cons]
  have pmem : ∀ p, a.getLast? = some p → p ∈ a := fun p hp => List.mem_of_getLast? hp
  -- pointer state after the split
  have ndS : ∀ m, (s.splitBefore c n c').nd m =
      if m = n then { (s.nd n) with prev := none, parent := some c' }
      else if a.getLast? = some m then { (s.nd m) with next := none }
      else if m ∈ b then { (s.nd m) with parent := some c' } else s.nd m := by
    intro m
    simp only [L.splitBefore, hx, hprev, hsuf]
    cases hp : a.getLast? with
    | none =>
      by_cases h1 : m = n
      · subst h1; simp [nd_setParents, hx, hprev, hp]
      · simp [nd_setParents, h1]
    | some p =>
      have hpa := pmem p hp
      have hpn : p ≠ n := fun e => hdisj p hpa (e ▸ List.mem_cons_self)
      have hpb : p ∉ b := fun e => hdisj p hpa (List.mem_cons_of_mem _ e)
      by_cases h1 : m = n
      · subst h1
        simp [nd_setParents, hx, hprev, hp, Ne.symm hpn]
      · by_cases h2 : m = p
        · subst h2; simp [nd_setParents, h1, hpb]
        · have : ¬ p = m := fun e => h2 e.symm
          simp [nd_setParents, h1, h2, this]
  have enS : ∀ d, (s.splitBefore c n c').en d =
      if d = c' then { first := some n, last := (f c).getLast? }
      else if d = c then { first := a.head?, last := a.getLast? } else s.en d := by
    intro d
    simp only [L.splitBefore, hx, hprev, hsuf, r.first, r.last]
    cases hp : a.getLast? with
    | none =>
      have : a = [] := List.getLast?_eq_none_iff.mp hp
      subst this
      by_cases h1 : d = c' <;> by_cases h2 : d = c <;> simp [h1, h2]
    | some p =>
      have : (if (some p).isNone = true then none else (f c).head?) = a.head? := by rw [← hp]; exact hfirst
      by_cases h1 : d = c' <;> by_cases h2 : d = c <;> simp_all
  apply h.update_two c c' hcc
  · intro d h1 h2; rw [enS]; simp [h1, h2]
  · intro m hm1 _
    rw [ndS]
    have h1 : m ≠ n := fun e => hm1 (e ▸ hn)
    have h2 : a.getLast? ≠ some m := fun e => hm1 (by rw [hab]; exact List.mem_append_left _ (pmem m e))
    have h3 : m ∉ b := fun e => hm1 (by rw [hab]; simp [e])
    simp [h1, h2, h3]
  · -- the prefix stays in c
    have ha := hd.1
    refine ⟨by rw [enS]; simp [hcc], by rw [enS]; simp [hcc], ?_, ha⟩
    intro m hm
    have h1 : m ≠ n := fun e => hdisj m hm (e ▸ List.mem_cons_self)
    have h3 : m ∉ b := fun e => hdisj m hm (List.mem_cons_of_mem _ e)
    have hl := r.link m (by rw [hab]; exact List.mem_append_left _ hm)
    rw [ndS, hl]
    have hp' : prevOf (f c) m = prevOf a m := by
      rw [hab, prevOf_append_of_not_mem_right (hdisj m hm)]
    have hn' : nextOf (f c) m = (nextOf a m).or (some n) := by
      rw [hab, nextOf_append_of_mem _ hm]; rfl
    by_cases h2 : a.getLast? = some m
    · have : nextOf a m = none := (nextOf_eq_none_iff ha hm).mpr h2
      simp [h1, h2, hp', this]
    · have := nextOf_some_of_mem_of_ne_last ha hm h2
      simp [h1, h2, h3, hp', hn', Option.or_of_isSome' this]
  · -- the suffix is the new container
    refine ⟨by rw [enS]; simp, by rw [enS, hlast]; simp, ?_, hd.2.1⟩
    intro m hm
    have hma := hdisj' m hm
    have hl := r.link m (by rw [hab]; exact List.mem_append_right _ hm)
    have hn' : nextOf (f c) m = nextOf (n :: b) m := by
      rw [hab, nextOf_append_of_not_mem _ hma]
    rw [ndS, hl]
    by_cases h1 : m = n
    · subst h1
      rw [r.link m hn]
      simp [hn', prevOf_cons_self m b hnb]
    · have hmb : m ∈ b := by
        rcases List.mem_cons.mp hm with e | e
        · exact absurd e h1
        · exact e
      have h2 : a.getLast? ≠ some m := fun e => hma (pmem m e)
      have hp' : prevOf (f c) m = prevOf (n :: b) m := by
        rw [hab, prevOf_append_of_mem_right hm]
        exact Option.or_of_isSome' (prevOf_some_of_mem_of_ne_head hd.2.1 hm (by simp [Ne.symm h1]))
      simp [h1, h2, hmb, hn', hp']
  · intro m
    rw [hab, hc']; simp
  · intro m hm; exact hdisj m hm
  · intro m hm
    simp only [L.splitBefore]
    cases (s.nd n).prev <;>
      simp [has_setPrev, has_setNext, has_setParents, hm]


theorem update_update_self_of_nil {f : Nat → List Nat} {src dst : Nat} (h : f src = []) :
    Function.update (Function.update f src []) dst (f dst ++ []) = f := by
  funext d
  by_cases h1 : d = dst
  · subst h1; simp
  · rw [Function.update_of_ne h1]
    by_cases h2 : d = src
    · subst h2; simp [h]
    · rw [Function.update_of_ne h2]

/-- `spliceAllBack` appends the whole list of `src` to `dst` (`Region.move_blocks`) -/
theorem WF.spliceAllBack {s : L} {f : Nat → List Nat} (h : WF s f) {src dst : Nat} (hsd : src ≠ dst) :
    WF (s.spliceAllBack src dst) (Function.update (Function.update f src []) dst (f dst ++ f src)) := by
  have rs := h.rep src
  have rd := h.rep dst
  cases hA : f src with
  | nil =>
    have : (s.en src).first = none := by rw [rs.first, hA]; rfl
    have e : s.spliceAllBack src dst = s := by simp only [L.spliceAllBack, this]
    rw [e, ← hA]; rw [hA, update_update_self_of_nil hA]; exact h
  | cons fs A' =>
    have hAne : f src ≠ [] := by rw [hA]; simp
    obtain ⟨ls, hls⟩ : ∃ ls, (f src).getLast? = some ls := by
      cases e : (f src).getLast? with
      | none => exact absurd (List.getLast?_eq_none_iff.mp e) hAne
      | some x => exact ⟨x, rfl⟩
    have hfs : (f src).head? = some fs := by rw [hA]; rfl
    rw [← hA]
    have e1 : (s.en src).first = some fs := by rw [rs.first, hfs]
    have e2 : (s.en src).last = some ls := by rw [rs.last, hls]
    have hS : s.spliceAllBack src dst =
        ((match (s.en dst).last with
            | none => s.setFirst dst (some fs)
            | some ol => (s.setPrev fs (some ol)).setNext ol (some fs)).setLast dst (some ls)
          |>.setParents (f src) (some dst) |>.setEn src {}) := by
      simp only [L.spliceAllBack, e1, e2, h.toList_eq src]
      cases (s.en dst).last <;> rfl
    have fsmem : fs ∈ f src := List.mem_of_head? hfs
    have lsmem : ls ∈ f src := List.mem_of_getLast? hls
    have hdisj : ∀ m, m ∈ f dst → m ∉ f src := fun m h1 h2 => hsd (h.disj src dst m h2 h1)
    have hdisj' : ∀ m, m ∈ f src → m ∉ f dst := fun m h1 h2 => hsd (h.disj src dst m h1 h2)
    have lastmem : ∀ p, (f dst).getLast? = some p → p ∈ f dst := fun p hp => List.mem_of_getLast? hp
    have ndS : ∀ m, (s.spliceAllBack src dst).nd m =
        if m ∈ f src then
          (if m = fs then { (s.nd m) with prev := (f dst).getLast?, parent := some dst }
           else { (s.nd m) with parent := some dst })
        else if (f dst).getLast? = some m then { (s.nd m) with next := some fs } else s.nd m := by
      intro m
      rw [hS, rd.last]
      cases hp : (f dst).getLast? with
      | none =>
        by_cases h1 : m ∈ f src
        · by_cases h2 : m = fs
          · subst h2
            have := rs.link m h1
            simp [nd_setParents, h1, this, prevOf_eq_none_iff rs.nodup h1 |>.mpr hfs]
          · simp [nd_setParents, h1, h2]
        · simp [nd_setParents, h1]
      | some ol =>
        have hol := lastmem ol hp
        have hol' : ol ∉ f src := hdisj ol hol
        have hne : ol ≠ fs := fun e => hol' (e ▸ fsmem)
        by_cases h1 : m ∈ f src
        · have h3 : m ≠ ol := fun e => hol' (e ▸ h1)
          by_cases h2 : m = fs
          · subst h2; simp [nd_setParents, h1, h3]
          · simp [nd_setParents, h1, h2, h3]
        · by_cases h3 : m = ol
          · subst h3; simp [nd_setParents, h1, hne]
          · have h2 : m ≠ fs := fun e => h1 (e ▸ fsmem)
            have : ¬ ol = m := fun e => h3 e.symm
            simp [nd_setParents, h1, h2, h3, this]
    have enS : ∀ d, (s.spliceAllBack src dst).en d =
        if d = src then {} else if d = dst then { first := (f dst ++ f src).head?, last := some ls }
        else s.en d := by
      intro d
      rw [hS, rd.last]
      cases hp : (f dst).getLast? with
      | none =>
        have : f dst = [] := List.getLast?_eq_none_iff.mp hp
        by_cases h1 : d = src <;> by_cases h2 : d = dst <;> simp [h1, h2, this, hfs, hsd, Ne.symm hsd]
      | some ol =>
        have hne : f dst ≠ [] := fun e => by rw [e] at hp; cases hp
        have hh : (f dst ++ f src).head? = (f dst).head? := by
          cases e : f dst with
          | nil => exact absurd e hne
          | cons y r => rfl
        by_cases h1 : d = src <;> by_cases h2 : d = dst <;> simp [h1, h2, hh, rd.first, hsd, Ne.symm hsd]
    apply h.update_two src dst hsd
    · intro d h1 h2; rw [enS]; simp [h1, h2]
    · intro m hm1 hm2
      rw [ndS]
      have : (f dst).getLast? ≠ some m := fun e => hm2 (lastmem m e)
      simp [hm1, this]
    · exact ⟨by rw [enS]; simp, by rw [enS]; simp, by simp, List.nodup_nil⟩
    · have hnd : (f dst ++ f src).Nodup :=
        List.nodup_append.mpr ⟨rd.nodup, rs.nodup, fun a ha b hb e => hdisj a ha (e ▸ hb)⟩
      refine ⟨by rw [enS]; simp [Ne.symm hsd], ?_, ?_, hnd⟩
      · rw [enS, List.getLast?_append_of_ne_nil _ hAne, hls]; simp [Ne.symm hsd]
      · intro m hm
        rw [ndS]
        by_cases h1 : m ∈ f src
        · have hl := rs.link m h1
          have hn' : nextOf (f dst ++ f src) m = nextOf (f src) m :=
            nextOf_append_of_not_mem _ (hdisj' m h1)
          have hp' : prevOf (f dst ++ f src) m = (prevOf (f src) m).or (f dst).getLast? :=
            prevOf_append_of_mem_right h1
          by_cases h2 : m = fs
          · subst h2
            have : prevOf (f src) m = none := (prevOf_eq_none_iff rs.nodup h1).mpr hfs
            simp [h1, hl, hn', hp', this]
          · have := prevOf_some_of_mem_of_ne_head rs.nodup h1 (by rw [hfs]; simpa using Ne.symm h2)
            simp [h1, h2, hl, hn', hp', Option.or_of_isSome' this]
        · have hmd : m ∈ f dst := (List.mem_append.mp hm).resolve_right h1
          have hl := rd.link m hmd
          have hn' : nextOf (f dst ++ f src) m = (nextOf (f dst) m).or (some fs) := by
            rw [nextOf_append_of_mem _ hmd, hfs]
          have hp' : prevOf (f dst ++ f src) m = prevOf (f dst) m :=
            prevOf_append_of_not_mem_right h1
          by_cases h2 : (f dst).getLast? = some m
          · have : nextOf (f dst) m = none := (nextOf_eq_none_iff rd.nodup hmd).mpr h2
            simp [h1, h2, hl, hn', hp', this]
          · have := nextOf_some_of_mem_of_ne_last rd.nodup hmd h2
            simp [h1, h2, hl, hn', hp', Option.or_of_isSome' this]
    · intro m; simp; tauto
    · intro m hm; cases hm
    · intro m hm
      rw [hS]
      cases (s.en dst).last <;>
        simp [has_setPrev, has_setNext, has_setParents, hm]


theorem update_update_self_of_nil' {f : Nat → List Nat} {src dst : Nat} {l : List Nat} (h : f src = [])
    (hl : f dst = l) : Function.update (Function.update f src []) dst l = f := by
  funext d
  by_cases h1 : d = dst
  · subst h1; simp [hl]
  · rw [Function.update_of_ne h1]
    by_cases h2 : d = src
    · subst h2; simp [h]
    · rw [Function.update_of_ne h2]

/-- `spliceAllBefore` puts the whole list of `src` before the member `t` of `dst`
(`Region.move_blocks_before`) -/
theorem WF.spliceAllBefore {s : L} {f : Nat → List Nat} (h : WF s f) {src dst t : Nat} {a b : List Nat}
    (hsd : src ≠ dst) (hab : f dst = a ++ t :: b) :
    WF (s.spliceAllBefore src dst t)
      (Function.update (Function.update f src []) dst (a ++ (f src ++ t :: b))) := by
  have rs := h.rep src
  have rd := h.rep dst
  cases hA : f src with
  | nil =>
    have : (s.en src).first = none := by rw [rs.first, hA]; rfl
    have e : s.spliceAllBefore src dst t = s := by simp only [L.spliceAllBefore, this]
    rw [e, List.nil_append, update_update_self_of_nil' hA hab]; exact h
  | cons fs A' =>
    have hAne : f src ≠ [] := by rw [hA]; simp
    obtain ⟨ls, hls⟩ : ∃ ls, (f src).getLast? = some ls := by
      cases e : (f src).getLast? with
      | none => exact absurd (List.getLast?_eq_none_iff.mp e) hAne
      | some x => exact ⟨x, rfl⟩
    have hfs : (f src).head? = some fs := by rw [hA]; rfl
    rw [← hA]
    have e1 : (s.en src).first = some fs := by rw [rs.first, hfs]
    have e2 : (s.en src).last = some ls := by rw [rs.last, hls]
    have fsmem : fs ∈ f src := List.mem_of_head? hfs
    have lsmem : ls ∈ f src := List.mem_of_getLast? hls
    have hndD := rd.nodup
    rw [hab] at hndD
    have hd := List.nodup_append.mp hndD
    have htb : t ∉ b := (List.nodup_cons.mp hd.2.1).1
    have hat : ∀ m, m ∈ a → m ∉ t :: b := fun m hm hm' => hd.2.2 m hm m hm' rfl
    have hta : ∀ m, m ∈ t :: b → m ∉ a := fun m hm hm' => hd.2.2 m hm' m hm rfl
    have ht : t ∈ f dst := by rw [hab]; simp
    have hdisj : ∀ m, m ∈ f dst → m ∉ f src := fun m h1 h2 => hsd (h.disj src dst m h2 h1)
    have hdisj' : ∀ m, m ∈ f src → m ∉ f dst := fun m h1 h2 => hsd (h.disj src dst m h1 h2)
    have memD : ∀ m, m ∈ f dst ↔ m ∈ a ∨ m = t ∨ m ∈ b := fun m => by rw [hab]; simp
    have pmem : ∀ p, a.getLast? = some p → p ∈ a := fun p hp => List.mem_of_getLast? hp
    have hprev : (s.nd t).prev = a.getLast? := by
      rw [rd.link t ht, hab, prevOf_append_of_mem_right (by simp), prevOf_cons_self t b htb]; rfl
    have htA : t ∉ f src := hdisj t ht
    have hS : s.spliceAllBefore src dst t =
        ((((match a.getLast? with
            | none => s.setFirst dst (some fs)
            | some p => (s.setNext p (some fs)).setPrev fs (some p)).setParents (f src) (some dst)).setNext
              ls (some t)).setPrev t (some ls)).setEn src {} := by
      simp only [L.spliceAllBefore, e1, e2, h.toList_eq src, hprev]
      cases a.getLast? <;> rfl
    have ndS : ∀ m, (s.spliceAllBefore src dst t).nd m =
        if m = t then { (s.nd m) with prev := some ls }
        else if m ∈ f src then
          { next := if m = ls then some t else (s.nd m).next,
            prev := if m = fs then a.getLast? else (s.nd m).prev, parent := some dst }
        else if a.getLast? = some m then { (s.nd m) with next := some fs } else s.nd m := by
      intro m
      rw [hS]
      have hlt : ls ≠ t := fun e => htA (e ▸ lsmem)
      cases hp : a.getLast? with
      | none =>
        by_cases h0 : m = t
        · subst h0; simp [nd_setParents, htA, Ne.symm hlt]
        · by_cases h1 : m ∈ f src
          · have hl := rs.link m h1
            have hpf : prevOf (f src) fs = none := (prevOf_eq_none_iff rs.nodup fsmem).mpr hfs
            by_cases h2 : m = ls <;> by_cases h3 : m = fs <;>
              simp_all [nd_setParents]
          · have h2 : m ≠ ls := fun e => h1 (e ▸ lsmem)
            simp [nd_setParents, h0, h1, h2]
      | some p =>
        have hpa := pmem p hp
        have hpD : p ∈ f dst := (memD p).mpr (Or.inl hpa)
        have hpA : p ∉ f src := hdisj p hpD
        have hpt : p ≠ t := fun e => hat p hpa (e ▸ List.mem_cons_self)
        have hpfs : p ≠ fs := fun e => hpA (e ▸ fsmem)
        have hpls : p ≠ ls := fun e => hpA (e ▸ lsmem)
        by_cases h0 : m = t
        · subst h0
          have h5 : m ≠ fs := fun e => htA (e ▸ fsmem)
          simp [nd_setParents, htA, Ne.symm hlt, Ne.symm hpt, h5]
        · by_cases h1 : m ∈ f src
          · have hmp : m ≠ p := fun e => hpA (e ▸ h1)
            by_cases h2 : m = ls <;> by_cases h3 : m = fs <;>
              simp_all [nd_setParents]
          · have h2 : m ≠ ls := fun e => h1 (e ▸ lsmem)
            have h3 : m ≠ fs := fun e => h1 (e ▸ fsmem)
            by_cases h4 : m = p
            · subst h4; simp [nd_setParents, h0, h1, h2, h3]
            · have : ¬ p = m := fun e => h4 e.symm
              simp [nd_setParents, h0, h1, h2, h3, h4, this]
    have enS : ∀ d, (s.spliceAllBefore src dst t).en d =
        if d = src then {} else if d = dst then
          { first := (a ++ (f src ++ t :: b)).head?, last := (f dst).getLast? }
        else s.en d := by
      intro d
      rw [hS]
      cases hp : a.getLast? with
      | none =>
        have : a = [] := List.getLast?_eq_none_iff.mp hp
        by_cases h1 : d = src <;> by_cases h2 : d = dst <;>
          simp [h1, h2, this, hfs, hsd, Ne.symm hsd, rd.last]
      | some p =>
        have hne : a ≠ [] := fun e => by rw [e] at hp; cases hp
        have hh : (a ++ (f src ++ t :: b)).head? = (f dst).head? := by
          rw [hab]
          cases e : a with
          | nil => exact absurd e hne
          | cons y r => rfl
        have hen : s.en dst = { first := (f dst).head?, last := (f dst).getLast? } := by
          rw [← rd.first, ← rd.last]
        by_cases h1 : d = src <;> by_cases h2 : d = dst <;>
          simp [h1, h2, hh, hen, hsd, Ne.symm hsd]
    apply h.update_two src dst hsd
    · intro d h1 h2; rw [enS]; simp [h1, h2]
    · intro m hm1 hm2
      rw [ndS]
      have h0 : m ≠ t := fun e => hm2 (e ▸ ht)
      have : a.getLast? ≠ some m := fun e => hm2 ((memD m).mpr (Or.inl (pmem m e)))
      simp [h0, hm1, this]
    · exact ⟨by rw [enS]; simp, by rw [enS]; simp, by simp, List.nodup_nil⟩
    · have hnd2 : (f src ++ t :: b).Nodup :=
        List.nodup_append.mpr ⟨rs.nodup, hd.2.1, fun x hx y hy e =>
          hdisj' x hx ((memD x).mpr (Or.inr (by subst e; simpa using hy)))⟩
      have hnd : (a ++ (f src ++ t :: b)).Nodup :=
        List.nodup_append.mpr ⟨hd.1, hnd2, fun x hx y hy e => by
          subst e
          rcases List.mem_append.mp hy with e | e
          · exact hdisj x ((memD x).mpr (Or.inl hx)) e
          · exact hat x hx e⟩
      have hlast : (a ++ (f src ++ t :: b)).getLast? = (f dst).getLast? := by
        rw [hab, List.getLast?_append_of_ne_nil _ (by simp), List.getLast?_append_of_ne_nil _ (by simp),
          List.getLast?_append_of_ne_nil _ (by simp)]
      refine ⟨by rw [enS]; simp [Ne.symm hsd], by rw [enS, hlast]; simp [Ne.symm hsd], ?_, hnd⟩
      intro m hm
      rw [ndS]
      by_cases h0 : m = t
      · subst h0
        have hma : m ∉ a := hta m List.mem_cons_self
        have hl := rd.link m ht
        have hn' : nextOf (a ++ (f src ++ m :: b)) m = nextOf (f dst) m := by
          rw [hab, nextOf_append_of_not_mem _ hma, nextOf_append_of_not_mem _ hma,
            nextOf_append_of_not_mem _ htA]
        have hp' : prevOf (a ++ (f src ++ m :: b)) m = some ls := by
          rw [prevOf_append_of_mem_right (by simp), prevOf_append_of_mem_right (by simp),
            prevOf_cons_self m b htb, hls]; rfl
        simp [hl, hn', hp']
      · by_cases h1 : m ∈ f src
        · have hl := rs.link m h1
          have hma : m ∉ a := fun e => hdisj' m h1 ((memD m).mpr (Or.inl e))
          have hmtb : m ∉ t :: b := fun e => hdisj' m h1 ((memD m).mpr (Or.inr (by simpa using e)))
          have hn' : nextOf (a ++ (f src ++ t :: b)) m = (nextOf (f src) m).or (some t) := by
            rw [nextOf_append_of_not_mem _ hma, nextOf_append_of_mem _ h1]; rfl
          have hp' : prevOf (a ++ (f src ++ t :: b)) m = (prevOf (f src) m).or a.getLast? := by
            rw [prevOf_append_of_mem_right (by simp [h1]), prevOf_append_of_not_mem_right hmtb]
          have nx : (if m = ls then some t else nextOf (f src) m) = (nextOf (f src) m).or (some t) := by
            by_cases h2 : m = ls
            · subst h2
              simp [(nextOf_eq_none_iff rs.nodup h1).mpr hls]
            · have := nextOf_some_of_mem_of_ne_last rs.nodup h1 (by rw [hls]; simpa using Ne.symm h2)
              simp [h2, Option.or_of_isSome' this]
          have pv : (if m = fs then a.getLast? else prevOf (f src) m) = (prevOf (f src) m).or a.getLast? := by
            by_cases h2 : m = fs
            · subst h2
              simp [(prevOf_eq_none_iff rs.nodup h1).mpr hfs]
            · have := prevOf_some_of_mem_of_ne_head rs.nodup h1 (by rw [hfs]; simpa using Ne.symm h2)
              simp [h2, Option.or_of_isSome' this]
          simp only [h0, h1, if_false, if_true, hl, hn', hp', nx, pv]
        · have hmD : m ∈ a ∨ m ∈ b := by
            rcases List.mem_append.mp hm with e | e
            · exact Or.inl e
            · rcases List.mem_append.mp e with e | e
              · exact absurd e h1
              · rcases List.mem_cons.mp e with e | e
                · exact absurd e h0
                · exact Or.inr e
          have hmd : m ∈ f dst := (memD m).mpr (hmD.elim Or.inl (fun e => Or.inr (Or.inr e)))
          have hl := rd.link m hmd
          rcases hmD with hma | hmb
          · have hmtb := hat m hma
            have hn' : nextOf (a ++ (f src ++ t :: b)) m = (nextOf a m).or (some fs) := by
              rw [nextOf_append_of_mem _ hma, List.head?_append, hfs]; rfl
            have hno : nextOf (f dst) m = (nextOf a m).or (some t) := by
              rw [hab, nextOf_append_of_mem _ hma]; rfl
            have hp' : prevOf (a ++ (f src ++ t :: b)) m = prevOf (f dst) m := by
              rw [hab, prevOf_append_of_not_mem_right hmtb,
                prevOf_append_of_not_mem_right (by simp [h1]; simpa using hmtb)]
            by_cases h2 : a.getLast? = some m
            · have : nextOf a m = none := (nextOf_eq_none_iff hd.1 hma).mpr h2
              simp [h0, h1, h2, hl, hn', hp', this]
            · have := nextOf_some_of_mem_of_ne_last hd.1 hma h2
              simp [h0, h1, h2, hl, hn', hno, hp', Option.or_of_isSome' this]
          · have hma : m ∉ a := hta m (List.mem_cons_of_mem _ hmb)
            have h2 : a.getLast? ≠ some m := fun e => hma (pmem m e)
            have hmtb : m ∈ t :: b := List.mem_cons_of_mem _ hmb
            have hsome := prevOf_some_of_mem_of_ne_head hd.2.1 hmtb (by simpa using Ne.symm h0)
            have hn' : nextOf (a ++ (f src ++ t :: b)) m = nextOf (f dst) m := by
              rw [hab, nextOf_append_of_not_mem _ hma, nextOf_append_of_not_mem _ hma,
                nextOf_append_of_not_mem _ h1]
            have hp' : prevOf (a ++ (f src ++ t :: b)) m = prevOf (f dst) m := by
              rw [hab, prevOf_append_of_mem_right hmtb, prevOf_append_of_mem_right (by simp [hmb]),
                prevOf_append_of_mem_right hmtb]
              simp [Option.or_of_isSome' hsome]
            simp [h0, h1, h2, hl, hn', hp']
    · intro m; rw [hab]; simp; tauto
    · intro m hm; cases hm
    · intro m hm
      rw [hS]
      cases a.getLast? <;>
        simp [has_setPrev, has_setNext, has_setParents, hm]


/-! ### batches (the `operands` / `successors` setters) -/

/-- removing a batch of nodes, each from the list it is in -/
theorem WF.removeAll {l : L} {f : Nat → List Nat} (h : WF l f) (P : List (Nat × Nat))
    (hP : ∀ p ∈ P, p.2 ∈ f p.1) (hnd : (P.map Prod.snd).Nodup) :
    ∃ f', WF (P.foldl (fun l p => l.remove p.1 p.2) l) f' ∧
      ∀ w x, x ∈ f' w ↔ x ∈ f w ∧ x ∉ P.map Prod.snd := by
  induction P generalizing l f with
  | nil => exact ⟨f, h, by simp⟩
  | cons p r ih =>
    simp only [List.map_cons, List.nodup_cons] at hnd
    have hp := hP p List.mem_cons_self
    have w1 := h.remove hp
    have f1 : ∀ c y, y ∈ Function.update f p.1 ((f p.1).erase p.2) c ↔ y ≠ p.2 ∧ y ∈ f c := by
      intro c y
      by_cases hc : c = p.1
      · subst hc; rw [Function.update_self, (h.rep _).nodup.mem_erase_iff]
      · rw [Function.update_of_ne hc]
        exact ⟨fun hy => ⟨fun e => hc (h.disj c p.1 y hy (e ▸ hp)), hy⟩, fun hy => hy.2⟩
    obtain ⟨f', w', hm⟩ := ih w1 (fun q hq => by
      rw [f1]
      refine ⟨fun e => hnd.1 ?_, hP q (List.mem_cons_of_mem _ hq)⟩
      rw [← e]; exact List.mem_map_of_mem hq) hnd.2
    refine ⟨f', w', fun w x => ?_⟩
    rw [hm, f1]
    simp only [List.map_cons, List.mem_cons, not_or]
    tauto

/-- pushing a batch of free nodes to the front of lists -/
theorem WF.addAll {l : L} {f : Nat → List Nat} (h : WF l f) (Q : List (Nat × Nat))
    (hQ : ∀ p ∈ Q, ∀ c, p.2 ∉ f c) (hnd : (Q.map Prod.snd).Nodup) :
    ∃ f', WF (Q.foldl (fun l p => l.pushFront p.1 p.2) l) f' ∧
      ∀ w x, x ∈ f' w ↔ x ∈ f w ∨ (w, x) ∈ Q := by
  induction Q generalizing l f with
  | nil => exact ⟨f, h, by simp⟩
  | cons p r ih =>
    simp only [List.map_cons, List.nodup_cons] at hnd
    have hp := hQ p List.mem_cons_self
    have w1 := h.pushFront (c := p.1) hp
    have f1 : ∀ c y, y ∈ Function.update f p.1 (p.2 :: f p.1) c ↔ (c = p.1 ∧ y = p.2) ∨ y ∈ f c := by
      intro c y
      by_cases hc : c = p.1
      · subst hc; rw [Function.update_self, List.mem_cons]; simp
      · rw [Function.update_of_ne hc]; simp [hc]
    obtain ⟨f', w', hm⟩ := ih w1 (fun q hq c => by
      rw [f1]
      rintro (⟨_, e⟩ | e)
      · exact hnd.1 (e ▸ List.mem_map_of_mem hq)
      · exact hQ q (List.mem_cons_of_mem _ hq) c e) hnd.2
    refine ⟨f', w', fun w x => ?_⟩
    rw [hm, f1, List.mem_cons]
    constructor
    · rintro ((⟨e1, e2⟩ | e) | e)
      · exact Or.inr (Or.inl (by rw [e1, e2]))
      · exact Or.inl e
      · exact Or.inr (Or.inr e)
    · rintro (e | e | e)
      · exact Or.inl (Or.inr e)
      · exact Or.inl (Or.inl ⟨by rw [← e], by rw [← e]⟩)
      · exact Or.inr e

/-- resetting the (already null) links of a node that is in no list -/
theorem WF.setNd_free {l : L} {f : Nat → List Nat} (h : WF l f) {k : Nat} (hk : ∀ c, k ∉ f c) :
    WF (l.setNd k {}) f := by
  have e : ∀ m, (l.setNd k {}).nd m = l.nd m := by
    intro m
    rw [nd_setNd]
    split
    · subst_vars; exact (h.free _ hk).symm
    · rfl
  refine ⟨fun c => ?_, h.disj, fun n hn => by rw [e]; exact h.free n hn, fun c n hn => ?_⟩
  · have r := h.rep c
    exact ⟨r.first, r.last, fun n hn => by rw [e]; exact r.link n hn, r.nodup⟩
  · exact (has_setNd l k n {}).mpr (Or.inr (h.has c n hn))
end Xdsl.DLL
