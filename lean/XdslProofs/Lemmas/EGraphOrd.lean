import XdslProofs.Lemmas.EGraphOps
/-!
Def-before-use order of a block (C28, totality part): `OrdFrom D body` — scanning `body` from a
state in which exactly the ids satisfying `D` are defined, every operand is defined when it is used.
Lemmas: monotonicity, erasing an unused definition, redirecting the uses of a class to one of its
alternatives, evaluation succeeds on ordered blocks, the model's `isOrdered` fast path.  No Mathlib.
-/
namespace Xdsl.EGraph

variable {V : Type}

def OrdFrom (D : Nat → Prop) : List Node → Prop
  | [] => True
  | n :: rest => (∀ a ∈ n.args, D a) ∧ OrdFrom (fun x => D x ∨ x = n.res) rest

theorem OrdFrom.mono {D D' : Nat → Prop} (h : ∀ x, D x → D' x) :
    ∀ {b : List Node}, OrdFrom D b → OrdFrom D' b
  | [], _ => trivial
  | n :: rest, ⟨ha, hr⟩ =>
    ⟨fun a h' => h a (ha a h'), OrdFrom.mono (fun x hx => hx.elim (fun h' => Or.inl (h x h')) Or.inr) hr⟩

theorem OrdFrom.restrict {Q : Nat → Prop} :
    ∀ {D : Nat → Prop} {b : List Node}, OrdFrom D b → (∀ n ∈ b, ∀ a ∈ n.args, Q a) →
      OrdFrom (fun x => D x ∧ Q x) b
  | _, [], _, _ => trivial
  | D, n :: rest, ⟨ha, hr⟩, hq =>
    ⟨fun a h' => ⟨ha a h', hq n (by simp) a h'⟩,
     OrdFrom.mono (fun x hx => hx.1.elim (fun h' => Or.inl ⟨h', hx.2⟩) Or.inr)
       (OrdFrom.restrict hr (fun m hm => hq m (by simp [hm])))⟩

/-- erasing the definition of a value that nothing uses -/
theorem OrdFrom.erase {v : Nat} :
    ∀ {D : Nat → Prop} {b : List Node}, OrdFrom D b → (∀ n ∈ b, v ∉ n.args) →
      OrdFrom D (b.filter (·.res ≠ v))
  | _, [], _, _ => trivial
  | D, n :: rest, ⟨ha, hr⟩, hu => by
    have hu' : ∀ m ∈ rest, v ∉ m.args := fun m hm => hu m (by simp [hm])
    by_cases h : n.res = v
    · have : (n :: rest).filter (·.res ≠ v) = rest.filter (·.res ≠ v) := by simp [List.filter, h]
      rw [this]
      apply OrdFrom.erase _ hu'
      have h1 := OrdFrom.restrict (Q := fun x => x ≠ v) hr (fun m hm a ha' e => hu' m hm (e ▸ ha'))
      exact OrdFrom.mono (fun x hx => hx.1.elim id (fun e => absurd (e.trans h) hx.2)) h1
    · have : (n :: rest).filter (·.res ≠ v) = n :: rest.filter (·.res ≠ v) := by simp [List.filter, h]
      rw [this]
      exact ⟨ha, OrdFrom.erase hr hu'⟩

theorem OrdFrom.arg_defined :
    ∀ {D : Nat → Prop} {b : List Node}, OrdFrom D b → ∀ n ∈ b, ∀ a ∈ n.args, D a ∨ a ∈ b.map (·.res)
  | _, [], _, n, hn, _, _ => by simp at hn
  | D, m :: rest, ⟨ha, hr⟩, n, hn, a, han => by
    simp only [List.mem_cons] at hn
    rcases hn with rfl | hn
    · exact Or.inl (ha a han)
    · rcases OrdFrom.arg_defined hr n hn a han with (h | h) | h
      · exact Or.inl h
      · exact Or.inr (by simp [h])
      · exact Or.inr (by simp only [List.map_cons, List.mem_cons]; exact Or.inr h)

/-- maps that keep result ids and operands (cost / min_cost_index updates) -/
theorem OrdFrom.congr (f : Node → Node) (hf : ∀ n, (f n).res = n.res ∧ (f n).args = n.args) :
    ∀ {D : Nat → Prop} {b : List Node}, OrdFrom D b → OrdFrom D (b.map f)
  | _, [], _ => trivial
  | D, n :: rest, ⟨ha, hr⟩ => by
    simp only [List.map_cons, OrdFrom, (hf n).1, (hf n).2]
    exact ⟨ha, OrdFrom.congr f hf hr⟩

/-- redirecting every use of the class `c` (outside the class op itself) to its alternative `x` -/
theorem OrdFrom.replace {c x : Nat} :
    ∀ {D : Nat → Prop} {b : List Node}, OrdFrom D b → (D c → D x) → (∀ n ∈ b, n.res = c → x ∈ n.args) →
      OrdFrom D (b.map fun n => if some n.res = some c then n else n.mapArgs (substId c x))
  | _, [], _, _, _ => trivial
  | D, n :: rest, ⟨ha, hr⟩, hcx, hn => by
    simp only [List.map_cons]
    by_cases h : n.res = c
    · subst h
      simp only [if_true, OrdFrom]
      refine ⟨ha, ?_⟩
      apply OrdFrom.replace hr
      · intro _; exact Or.inl (ha x (hn n (by simp) rfl))
      · intro m hm; exact hn m (by simp [hm])
    · have hne : ¬ (some n.res = some c) := by simpa using h
      simp only [hne, if_false, OrdFrom, mapArgs_res, mapArgs_args]
      refine ⟨?_, ?_⟩
      · intro a ha'
        simp only [List.mem_map] at ha'
        obtain ⟨y, hy, e⟩ := ha'
        subst e
        unfold substId
        split
        · rename_i e; subst e; exact hcx (ha y hy)
        · exact ha y hy
      · apply OrdFrom.replace hr
        · intro hc'
          rcases hc' with hc' | hc'
          · exact Or.inl (hcx hc')
          · exact absurd hc'.symm h
        · intro m hm; exact hn m (by simp [hm])

/-! ## evaluation succeeds on ordered blocks -/

theorem mapM_some_of_bound {σ : Env V} : ∀ (a : List Nat), (∀ x ∈ a, σ x ≠ none) → ∃ vs, a.mapM σ = some vs ∧ vs.length = a.length
  | [], _ => ⟨[], by simp, rfl⟩
  | x :: a, h => by
    obtain ⟨vs, hvs, hl⟩ := mapM_some_of_bound a (fun y hy => h y (by simp [hy]))
    cases hx : σ x with
    | none => exact absurd hx (h x (by simp))
    | some v => exact ⟨v :: vs, by rw [List.mapM_cons]; simp [hx, hvs], by simp [hl]⟩

theorem evalNodes_of_ord (I : Interp V) :
    ∀ (b : List Node) (D : Nat → Prop) (σ : Env V), OrdFrom D b → (∀ x, D x → σ x ≠ none) →
      (∀ r a m, .cls r a m ∈ b → a ≠ []) →
      ∃ σ', evalNodes I b σ = some σ' ∧ ∀ x, (D x ∨ x ∈ b.map (·.res)) → σ' x ≠ none := by
  intro b
  induction b with
  | nil =>
    intro D σ _ hb _
    exact ⟨σ, rfl, fun x hx => hx.elim (hb x) (by simp)⟩
  | cons n rest ih =>
    intro D σ ho hb hne
    obtain ⟨ha, hr⟩ := ho
    obtain ⟨vs, hvs, hl⟩ := mapM_some_of_bound (σ := σ) n.args (fun x hx => hb x (ha x hx))
    have key : ∃ v, evalNode I σ n = some (σ.set n.res v) := by
      cases n with
      | op r nm k a c =>
        simp only [Node.args] at hvs
        exact ⟨I nm k vs, by simp [evalNode, hvs, Node.res]⟩
      | cls r a m =>
        simp only [Node.args] at hvs hl
        cases vs with
        | nil =>
          have : a = [] := by cases a with
            | nil => rfl
            | cons _ _ => simp at hl
          exact absurd this (hne r a m (by simp))
        | cons v vs => exact ⟨v, by simp [evalNode, hvs, Node.res]⟩
    obtain ⟨v, hv⟩ := key
    obtain ⟨σ', he, hb'⟩ := ih (fun x => D x ∨ x = n.res) (σ.set n.res v) hr
      (fun x hx => by
        unfold Env.set
        split
        · simp
        · rename_i hne'; exact hb x (hx.elim id (fun e => absurd e hne')))
      (fun r a m hm => hne r a m (by simp [hm]))
    refine ⟨σ', by simp [evalNodes, hv, he], ?_⟩
    intro x hx
    apply hb'
    rcases hx with hx | hx
    · exact Or.inl (Or.inl hx)
    · simp only [List.map_cons, List.mem_cons] at hx
      rcases hx with hx | hx
      · exact Or.inl (Or.inr hx)
      · exact Or.inr hx

/-- the whole function: ordered body, defined returned ids -/
structure Ordered (g : Prog) : Prop where
  body : OrdFrom (· < g.nargs) g.body
  ret : ∀ x ∈ g.ret, x < g.nargs ∨ x ∈ g.body.map (·.res)
  clsArgs : ∀ r a m, .cls r a m ∈ g.body → a ≠ []

theorem evalSeq_of_ordered (I : Interp V) {g : Prog} {env : List V} (ho : Ordered g)
    (hl : env.length = g.nargs) : ∃ rs, evalSeq I g env = some rs := by
  obtain ⟨σ', he, hb⟩ := evalNodes_of_ord I g.body (· < g.nargs) (initEnv env) ho.body
    (fun x hx => by simp [initEnv]; omega) ho.clsArgs
  obtain ⟨rs, hrs, _⟩ := mapM_some_of_bound (σ := σ') g.ret (fun x hx => hb x (ho.ret x hx))
  exact ⟨rs, by simp [evalSeq, hl, he, hrs]⟩

/-- a successful run certifies the order -/
theorem ordFrom_of_run (I : Interp V) :
    ∀ (b : List Node) (σ σ' : Env V), evalNodes I b σ = some σ' → OrdFrom (fun x => σ x ≠ none) b := by
  intro b
  induction b with
  | nil => intro _ _ _; trivial
  | cons n rest ih =>
    intro σ σ' he
    simp only [evalNodes] at he
    cases hn : evalNode I σ n with
    | none => simp [hn] at he
    | some σ1 =>
      simp [hn] at he
      have hargs : ∃ vs, n.args.mapM σ = some vs ∧ ∃ v, σ1 = σ.set n.res v := by
        cases n with
        | op r nm k a c =>
          simp only [evalNode] at hn
          cases ha : a.mapM σ with
          | none => simp [ha] at hn
          | some vs => simp [ha] at hn; exact ⟨vs, ha, _, hn.symm⟩
        | cls r a m =>
          simp only [evalNode] at hn
          cases ha : a.mapM σ with
          | none => simp [ha] at hn
          | some vs =>
            cases vs with
            | nil => simp [ha] at hn
            | cons v vs => simp [ha] at hn; exact ⟨v :: vs, ha, v, hn.symm⟩
      obtain ⟨vs, hvs, v, hσ1⟩ := hargs
      refine ⟨?_, ?_⟩
      · intro a ha hnone
        have : ∀ (l : List Nat) (ws : List V), l.mapM σ = some ws → a ∈ l → False := by
          intro l
          induction l with
          | nil => intro _ _ h; simp at h
          | cons y l ihl =>
            intro ws hws hmem
            rw [List.mapM_cons] at hws
            cases hy : σ y with
            | none => simp [hy] at hws
            | some w =>
              cases hl : l.mapM σ with
              | none => simp [hy, hl] at hws
              | some ws' =>
                simp only [List.mem_cons] at hmem
                rcases hmem with rfl | hmem
                · rw [hnone] at hy; cases hy
                · exact ihl ws' hl hmem
        exact this n.args vs hvs ha
      · apply OrdFrom.mono _ (ih σ1 σ' he)
        intro x hx
        subst hσ1
        unfold Env.set at hx
        split at hx
        · rename_i e; exact Or.inr e
        · exact Or.inl hx

end Xdsl.EGraph
