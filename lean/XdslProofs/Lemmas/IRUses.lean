import XdslProofs.Lemmas.IRStore
/-!
# C01 — use lists: `OpOperands.__setitem__`, `OpSuccessors.__setitem__` and the methods built on them
-/
namespace Xdsl.IR
open Xdsl Xdsl.DLL IRStore

/-! ### use lists: replacing the value at one operand / successor position -/

/-- rewriting the data of one operation without touching the positions of this family -/
theorem UseInv.setOp_other {s s' : IRStore} {pos uid : OpData → List Nat} {f : Nat → List Nat}
    (h : UseInv s pos uid f) {o : Nat} {d d' : OpData} (hd : AL.get s.ops o = some d)
    (hpos : pos d' = pos d) (huid : uid d' = uid d)
    (hops : s'.ops = AL.set s.ops o d') (huses : ∀ u, u < s.nextUse → s'.use! u = s.use! u)
    (hnu : s.nextUse ≤ s'.nextUse) :
    UseInv s' pos uid f := by
  have get' : ∀ o' d'', AL.get s'.ops o' = some d'' →
      ∃ d0, AL.get s.ops o' = some d0 ∧ pos d'' = pos d0 ∧ uid d'' = uid d0 := by
    intro o' d'' h1
    rw [hops, AL.get_set] at h1
    split at h1
    · cases h1; subst_vars; exact ⟨d, hd, hpos, huid⟩
    · exact ⟨d'', h1, rfl, rfl⟩
  refine ⟨?_, ?_, ?_, ?_⟩
  · intro o' d'' h1
    obtain ⟨d0, h0, e1, e2⟩ := get' o' d'' h1
    rw [e1, e2]; exact h.len o' d0 h0
  · intro o' d'' i u v h1 h2 h3
    obtain ⟨d0, h0, e1, e2⟩ := get' o' d'' h1
    rw [e2] at h2; rw [e1] at h3
    have := h.fwd o' d0 i u v h0 h2 h3
    rw [huses u (h.lt v u this.2)]
    exact this
  · intro v u hm
    obtain ⟨d0, h0, h1, h2⟩ := h.bwd v u hm
    rw [huses u (h.lt v u hm)]
    by_cases ho : (s.use! u).1 = o
    · refine ⟨d', by rw [hops, AL.get_set]; simp [ho], ?_, ?_⟩
      · rw [ho, hd] at h0; cases h0; rw [huid]; exact h1
      · rw [ho, hd] at h0; cases h0; rw [hpos]; exact h2
    · exact ⟨d0, by rw [hops, AL.get_set]; simp [ho]; exact h0, h1, h2⟩
  · intro v u hm; exact Nat.lt_of_lt_of_le (h.lt v u hm) hnu

/-- the use `u` of position `(o, k)` moves from the list of `old` to the list of `v` -/
theorem UseInv.replace {s s' : IRStore} {pos uid : OpData → List Nat} {f f2 : Nat → List Nat}
    (h : UseInv s pos uid f) {o k u old v : Nat} {d d' : OpData} (hd : AL.get s.ops o = some d)
    (hu : (uid d)[k]? = some u) (hold : (pos d)[k]? = some old)
    (hpos : pos d' = (pos d).set k v) (huid : uid d' = uid d)
    (hf2 : ∀ w x, x ∈ f2 w ↔ (x = u ∧ w = v) ∨ (x ≠ u ∧ x ∈ f w))
    (hops : s'.ops = AL.set s.ops o d') (huses : s'.uses = s.uses) (hnu : s'.nextUse = s.nextUse) :
    UseInv s' pos uid f2 := by
  have hus : ∀ u, s'.use! u = s.use! u := fun u => by unfold IRStore.use!; rw [huses]
  obtain ⟨huse, humem⟩ := h.fwd o d k u old hd hu hold
  have hklt : k < (pos d).length := (List.getElem?_eq_some_iff.mp hold).1
  -- a use object other than `u` sits at a position other than `(o, k)`
  have other : ∀ o' d0 i u', AL.get s.ops o' = some d0 → (uid d0)[i]? = some u' → i < (pos d0).length →
      (o', i) ≠ (o, k) → u' ≠ u := by
    intro o' d0 i u' h0 h1 hlt hne e
    subst e
    have := (h.fwd o' d0 i u' _ h0 h1 (List.getElem?_eq_getElem hlt)).1
    rw [huse] at this
    exact hne this.symm
  refine ⟨?_, ?_, ?_, ?_⟩
  · intro o' d'' h1
    rw [hops, AL.get_set] at h1
    split at h1
    · cases h1; subst_vars; rw [hpos, huid, List.length_set]; exact h.len _ d hd
    · exact h.len o' d'' h1
  · intro o' d'' i u' v' h1 h2 h3
    rw [hus]
    rw [hops, AL.get_set] at h1
    split at h1
    · cases h1
      subst_vars
      rw [huid] at h2; rw [hpos] at h3
      by_cases hik : i = k
      · subst hik
        rw [hu] at h2; cases h2
        rw [List.getElem?_set_self hklt] at h3; cases h3
        exact ⟨huse, (hf2 _ _).mpr (Or.inl ⟨rfl, rfl⟩)⟩
      · rw [List.getElem?_set_ne (fun e => hik e.symm)] at h3
        have hlt : i < (pos d).length := (List.getElem?_eq_some_iff.mp h3).1
        have hne := other _ d i u' hd h2 hlt (by simp [hik])
        obtain ⟨e1, e2⟩ := h.fwd _ d i u' v' hd h2 h3
        exact ⟨e1, (hf2 _ _).mpr (Or.inr ⟨hne, e2⟩)⟩
    · rename_i hne0
      have hlt : i < (pos d'').length := (List.getElem?_eq_some_iff.mp h3).1
      have hne := other o' d'' i u' h1 h2 hlt (by
        intro e; cases e; exact hne0 rfl)
      obtain ⟨e1, e2⟩ := h.fwd o' d'' i u' v' h1 h2 h3
      exact ⟨e1, (hf2 _ _).mpr (Or.inr ⟨hne, e2⟩)⟩
  · intro w x hm
    rw [hus]
    rcases (hf2 w x).mp hm with ⟨rfl, rfl⟩ | ⟨hne, hm'⟩
    · rw [huse]
      refine ⟨d', by rw [hops, AL.get_set]; simp, by rw [huid]; exact hu, ?_⟩
      rw [hpos]; exact List.getElem?_set_self hklt
    · obtain ⟨d0, h0, h1, h2⟩ := h.bwd w x hm'
      by_cases ho : (s.use! x).1 = o
      · rw [ho, hd] at h0; cases h0
        have hjk : (s.use! x).2 ≠ k := fun e => by
          rw [e, hu] at h1; cases h1; exact hne rfl
        refine ⟨d', by rw [hops, AL.get_set]; simp [ho], by rw [huid]; exact h1, ?_⟩
        rw [hpos, List.getElem?_set_ne (fun e => hjk e.symm)]; exact h2
      · exact ⟨d0, by rw [hops, AL.get_set]; simp [ho]; exact h0, h1, h2⟩
  · intro w x hm
    rw [hnu]
    rcases (hf2 w x).mp hm with ⟨rfl, rfl⟩ | ⟨_, hm'⟩
    · exact h.lt old x humem
    · exact h.lt w x hm'

/-- the list bookkeeping of "remove `u` from `old`, push it in front of `v`" -/
theorem moveUse_mem {f : Nat → List Nat} {old v u : Nat} (hn : (f old).Nodup) (hu : u ∈ f old)
    (hdisj : ∀ c c' n, n ∈ f c → n ∈ f c' → c = c') (w x : Nat) :
    x ∈ Function.update (Function.update f old ((f old).erase u)) v
          (u :: Function.update f old ((f old).erase u) v) w ↔
      (x = u ∧ w = v) ∨ (x ≠ u ∧ x ∈ f w) := by
  have f1 : ∀ c y, y ∈ Function.update f old ((f old).erase u) c ↔ y ≠ u ∧ y ∈ f c := by
    intro c y
    by_cases hc : c = old
    · subst hc; rw [Function.update_self, hn.mem_erase_iff]
    · rw [Function.update_of_ne hc]
      constructor
      · intro hy; exact ⟨fun e => hc (hdisj c old y hy (e ▸ hu)), hy⟩
      · exact fun hy => hy.2
  by_cases hw : w = v
  · subst hw
    rw [Function.update_self, List.mem_cons, f1]
    constructor
    · rintro (e | e)
      · exact Or.inl ⟨e, rfl⟩
      · exact Or.inr e
    · rintro (⟨e, _⟩ | e)
      · exact Or.inl e
      · exact Or.inr e
  · rw [Function.update_of_ne hw, f1]
    constructor
    · exact fun e => Or.inr e
    · rintro (⟨_, e⟩ | e)
      · exact absurd e hw
      · exact e

/-- the pointer side of the same move -/
theorem _root_.Xdsl.DLL.WF.moveUse {l : L} {f : Nat → List Nat} (h : WF l f) {old v u : Nat} (hu : u ∈ f old) :
    WF ((l.remove old u).pushFront v u)
      (Function.update (Function.update f old ((f old).erase u)) v
          (u :: Function.update f old ((f old).erase u) v)) := by
  have w1 := h.remove hu
  apply w1.pushFront
  intro c
  by_cases hc : c = old
  · subst hc; rw [Function.update_self]; exact fun e => ((h.rep c).nodup.mem_erase_iff.mp e).1 rfl
  · rw [Function.update_of_ne hc]; exact fun e => hc (h.disj c old u e hu)


/-- the part of the invariant that only looks at `results`/`regions` of the operation table -/
theorem InvA.setOp_frame {s s' : IRStore} {a a' : Abs} (h : InvA s a) {o : Nat} {d d' : OpData}
    (hd : AL.get s.ops o = some d) (hres : d'.results = d.results) (hreg : d'.regions = d.regions)
    (hops : s'.ops = AL.set s.ops o d') (hblocks : s'.blocks = s.blocks) (hregions : s'.regions = s.regions)
    (hvals : s'.vals = s.vals) (hopL : s'.opL = s.opL) (hblockL : s'.blockL = s.blockL)
    (haops : a'.ops = a.ops) (hablocks : a'.blocks = a.blocks)
    (hv : WF s'.vuseL a'.vuses) (hb : WF s'.buseL a'.buses)
    (hou : UseInv s' (·.operands) (·.operandUses) a'.vuses)
    (hsu : UseInv s' (·.successors) (·.successorUses) a'.buses) : InvA s' a' := by
  have par : ∀ r, s'.regionParent r = s.regionParent r := fun r => by
    unfold IRStore.regionParent IRStore.region!; rw [hregions]
  have get' : ∀ o' d'', AL.get s'.ops o' = some d'' →
      ∃ d0, AL.get s.ops o' = some d0 ∧ d''.results = d0.results ∧ d''.regions = d0.regions := by
    intro o' d'' h1
    rw [hops, AL.get_set] at h1
    split at h1
    · cases h1; subst_vars; exact ⟨d, hd, hres, hreg⟩
    · exact ⟨d'', h1, rfl, rfl⟩
  have regO' : ∀ k, regO s k → regO s' k := fun k hk => by
    unfold IR.regO at *; rw [hops, AL.get_set]; split <;> simp [hk]
  exact {
    opL := by rw [hopL, haops]; exact h.opL
    blockL := by rw [hblockL, hablocks]; exact h.blockL
    vuseL := hv
    buseL := hb
    operandUses := hou
    successorUses := hsu
    results := fun o' d'' i v h1 h2 => by
      obtain ⟨d0, h0, e1, _⟩ := get' o' d'' h1
      rw [hvals]; rw [e1] at h2; exact h.results o' d0 i v h0 h2
    args := fun b d0 i v h1 h2 => by
      rw [hblocks] at h1; rw [hvals]; exact h.args b d0 i v h1 h2
    regions := fun o' d'' h1 => by
      obtain ⟨d0, h0, _, e2⟩ := get' o' d'' h1
      rw [e2]
      exact ⟨(h.regions o' d0 h0).1, fun r hr => by rw [par]; exact (h.regions o' d0 h0).2 r hr⟩
    regionParent := fun r o' hp => by
      rw [par] at hp
      obtain ⟨d0, h0, hr⟩ := h.regionParent r o' hp
      by_cases ho : o' = o
      · subst ho
        rw [hd] at h0; cases h0
        exact ⟨d', by rw [hops, AL.get_set]; simp, by rw [hreg]; exact hr⟩
      · exact ⟨d0, by rw [hops, AL.get_set]; simp [ho]; exact h0, hr⟩
    regOps := fun b x hx => by
      rw [haops] at hx
      have := h.regOps b x hx
      exact ⟨regO' x this.1, by unfold IR.regB at *; rw [hblocks]; exact this.2⟩
    regBlocks := fun r x hx => by
      rw [hablocks] at hx
      have := h.regBlocks r x hx
      exact ⟨by unfold IR.regB at *; rw [hblocks]; exact this.1,
        by unfold IR.regR at *; rw [hregions]; exact this.2⟩ }

theorem normIdx_some_lt {n : Nat} {i : Int} {k : Nat} (h : IRStore.normIdx n i = some k) : k < n :=
  normIdx_lt h

/-- `OpOperands.__setitem__` -/
theorem Inv.setOperand {s s' : IRStore} (h : Inv s) {o : Nat} {i : Int} {v : Nat}
    (hok : s.setOperand o i v = .ok s') : Inv s' := by
  obtain ⟨a, ha⟩ := h
  unfold IRStore.setOperand at hok
  cases hk : IRStore.normIdx (s.op! o).operands.length i with
  | none => simp [hk] at hok
  | some k =>
    simp only [hk] at hok
    have hlt := normIdx_lt hk
    -- the operation is registered (otherwise it has no operands)
    cases hd : AL.get s.ops o with
    | none => simp [IRStore.op!, hd] at hlt
    | some d =>
      have hop : s.op! o = d := by simp [IRStore.op!, hd]
      rw [hop] at hok hlt
      have hlen := ha.operandUses.len o d hd
      have hlt' : k < d.operandUses.length := by rw [hlen]; exact hlt
      have e1 : d.operands.getD k 0 = d.operands[k] := by
        simp [List.getD_eq_getElem?_getD, List.getElem?_eq_getElem hlt]
      have e2 : d.operandUses.getD k 0 = d.operandUses[k] := by
        simp [List.getD_eq_getElem?_getD, List.getElem?_eq_getElem hlt']
      rw [e1, e2] at hok
      simp only [Except.ok.injEq] at hok
      subst hok
      have hu : d.operandUses[k]? = some d.operandUses[k] := List.getElem?_eq_getElem hlt'
      have hold : d.operands[k]? = some d.operands[k] := List.getElem?_eq_getElem hlt
      have humem := (ha.operandUses.fwd o d k _ _ hd hu hold).2
      let f2 := Function.update (Function.update a.vuses d.operands[k] ((a.vuses d.operands[k]).erase d.operandUses[k])) v
          (d.operandUses[k] :: Function.update a.vuses d.operands[k] ((a.vuses d.operands[k]).erase d.operandUses[k]) v)
      let d' : OpData := { d with operands := d.operands.set k v }
      refine ⟨{ a with vuses := f2 }, ha.setOp_frame (d' := d') hd rfl rfl
        rfl rfl rfl rfl rfl rfl rfl rfl (ha.vuseL.moveUse humem) ha.buseL ?_ ?_⟩
      · exact ha.operandUses.replace (pos := (·.operands)) (uid := (·.operandUses)) (d' := d') (f2 := f2) hd hu hold rfl rfl
          (moveUse_mem (ha.vuseL.rep _).nodup humem ha.vuseL.disj) rfl rfl rfl
      · exact ha.successorUses.setOp_other (pos := (·.successors)) (uid := (·.successorUses)) (d' := d') hd rfl rfl rfl (fun _ _ => rfl) (Nat.le_refl _)

/-- `OpSuccessors.__setitem__` -/
theorem Inv.setSuccessor {s s' : IRStore} (h : Inv s) {o : Nat} {i : Int} {b : Nat}
    (hok : s.setSuccessor o i b = .ok s') : Inv s' := by
  obtain ⟨a, ha⟩ := h
  unfold IRStore.setSuccessor at hok
  cases hk : IRStore.normIdx (s.op! o).successors.length i with
  | none => simp [hk] at hok
  | some k =>
    simp only [hk] at hok
    have hlt := normIdx_lt hk
    cases hd : AL.get s.ops o with
    | none => simp [IRStore.op!, hd] at hlt
    | some d =>
      have hop : s.op! o = d := by simp [IRStore.op!, hd]
      rw [hop] at hok hlt
      have hlen := ha.successorUses.len o d hd
      have hlt' : k < d.successorUses.length := by rw [hlen]; exact hlt
      have e1 : d.successors.getD k 0 = d.successors[k] := by
        simp [List.getD_eq_getElem?_getD, List.getElem?_eq_getElem hlt]
      have e2 : d.successorUses.getD k 0 = d.successorUses[k] := by
        simp [List.getD_eq_getElem?_getD, List.getElem?_eq_getElem hlt']
      rw [e1, e2] at hok
      simp only [Except.ok.injEq] at hok
      subst hok
      have hu : d.successorUses[k]? = some d.successorUses[k] := List.getElem?_eq_getElem hlt'
      have hold : d.successors[k]? = some d.successors[k] := List.getElem?_eq_getElem hlt
      have humem := (ha.successorUses.fwd o d k _ _ hd hu hold).2
      let f2 := Function.update (Function.update a.buses d.successors[k] ((a.buses d.successors[k]).erase d.successorUses[k])) b
          (d.successorUses[k] :: Function.update a.buses d.successors[k] ((a.buses d.successors[k]).erase d.successorUses[k]) b)
      let d' : OpData := { d with successors := d.successors.set k b }
      refine ⟨{ a with buses := f2 }, ha.setOp_frame (d' := d') hd rfl rfl
        rfl rfl rfl rfl rfl rfl rfl rfl ha.vuseL (ha.buseL.moveUse humem) ?_ ?_⟩
      · exact ha.operandUses.setOp_other (pos := (·.operands)) (uid := (·.operandUses)) (d' := d') hd rfl rfl rfl (fun _ _ => rfl) (Nat.le_refl _)
      · exact ha.successorUses.replace (pos := (·.successors)) (uid := (·.successorUses)) (d' := d') (f2 := f2) hd hu hold rfl rfl
          (moveUse_mem (ha.buseL.rep _).nodup humem ha.buseL.disj) rfl rfl rfl

/-- `SSAValue.replace_uses_with_if` (and `replace_all_uses_with`): a fold of `__setitem__` -/
theorem Inv.replaceUsesIf {s s' : IRStore} (h : Inv s) {v w : Nat} {keep : Nat → Bool}
    (hok : s.replaceUsesIf v w keep = .ok s') : Inv s' := by
  unfold IRStore.replaceUsesIf at hok
  exact foldlM_ok_inv Inv _ _ (fun t u t' _ ht hu => by
    dsimp only at hu
    split at hu
    · exact ht.setOperand hu
    · simp at hu; exact hu ▸ ht) s s' h hok

theorem Inv.replaceAllUsesWith {s s' : IRStore} (h : Inv s) {v w : Nat}
    (hok : s.replaceAllUsesWith v w = .ok s') : Inv s' := by
  unfold IRStore.replaceAllUsesWith at hok
  split at hok
  · simp at hok; exact hok ▸ h
  · exact h.replaceUsesIf hok


/-! ### the `operands` / `successors` setters: fresh `Use` objects for every position -/

def useIds (base n : Nat) : List Nat := (List.range n).map (· + base)

def usesTable (m : AL Nat (Nat × Nat)) (base o n : Nat) : AL Nat (Nat × Nat) :=
  (List.range n).foldl (fun m i => AL.set m (base + i) (o, i)) m

theorem get_usesTable (m : AL Nat (Nat × Nat)) (base o n k : Nat) :
    AL.get (usesTable m base o n) k =
      if base ≤ k ∧ k < base + n then some (o, k - base) else AL.get m k := by
  unfold usesTable
  induction n with
  | zero =>
    simp only [List.range_zero, List.foldl_nil, Nat.add_zero]
    split
    · omega
    · rfl
  | succ n ih =>
    rw [List.range_succ, List.foldl_append]
    simp only [List.foldl_cons, List.foldl_nil, AL.get_set, ih]
    by_cases h1 : k = base + n
    · subst h1; simp
    · simp only [h1, if_false]
      by_cases h2 : base ≤ k ∧ k < base + n
      · have : base ≤ k ∧ k < base + (n + 1) := ⟨h2.1, by omega⟩
        simp [h2, this]
      · have : ¬ (base ≤ k ∧ k < base + (n + 1)) := by omega
        simp [h2, this]

theorem mkUses_eq (s : IRStore) (o n : Nat) :
    s.mkUses o n = ({ s with uses := usesTable s.uses s.nextUse o n, nextUse := s.nextUse + n },
      useIds s.nextUse n) := rfl

theorem fold_removeUseV (s : IRStore) (P : List (Nat × Nat)) :
    P.foldl (fun s p => s.removeUseV p.1 p.2) s =
      { s with vuseL := P.foldl (fun l p => l.remove p.1 p.2) s.vuseL } := by
  induction P generalizing s with
  | nil => rfl
  | cons p r ih => simp only [List.foldl_cons, ih]; rfl

theorem fold_addUseV (s : IRStore) (P : List (Nat × Nat)) :
    P.foldl (fun s p => s.addUseV p.1 p.2) s =
      { s with vuseL := P.foldl (fun l p => l.pushFront p.1 p.2) s.vuseL } := by
  induction P generalizing s with
  | nil => rfl
  | cons p r ih => simp only [List.foldl_cons, ih]; rfl

theorem fold_removeUseB (s : IRStore) (P : List (Nat × Nat)) :
    P.foldl (fun s p => s.removeUseB p.1 p.2) s =
      { s with buseL := P.foldl (fun l p => l.remove p.1 p.2) s.buseL } := by
  induction P generalizing s with
  | nil => rfl
  | cons p r ih => simp only [List.foldl_cons, ih]; rfl

theorem fold_addUseB (s : IRStore) (P : List (Nat × Nat)) :
    P.foldl (fun s p => s.addUseB p.1 p.2) s =
      { s with buseL := P.foldl (fun l p => l.pushFront p.1 p.2) s.buseL } := by
  induction P generalizing s with
  | nil => rfl
  | cons p r ih => simp only [List.foldl_cons, ih]; rfl

theorem setOperands_eq (s : IRStore) (o : Nat) (new : List Nat) :
    s.setOperands o new =
      { s with
        uses := usesTable s.uses s.nextUse o new.length
        nextUse := s.nextUse + new.length
        vuseL := (new.zip (useIds s.nextUse new.length)).foldl (fun l p => l.pushFront p.1 p.2)
          (((s.op! o).operands.zip (s.op! o).operandUses).foldl (fun l p => l.remove p.1 p.2) s.vuseL)
        ops := AL.set s.ops o { s.op! o with operands := new, operandUses := useIds s.nextUse new.length } } := by
  unfold IRStore.setOperands
  simp only [mkUses_eq, fold_removeUseV, fold_addUseV]
  rfl

theorem setSuccessors_eq (s : IRStore) (o : Nat) (new : List Nat) :
    s.setSuccessors o new =
      { s with
        uses := usesTable s.uses s.nextUse o new.length
        nextUse := s.nextUse + new.length
        buseL := (new.zip (useIds s.nextUse new.length)).foldl (fun l p => l.pushFront p.1 p.2)
          (((s.op! o).successors.zip (s.op! o).successorUses).foldl (fun l p => l.remove p.1 p.2) s.buseL)
        ops := AL.set s.ops o { s.op! o with successors := new, successorUses := useIds s.nextUse new.length } } := by
  unfold IRStore.setSuccessors
  simp only [mkUses_eq, fold_removeUseB, fold_addUseB]
  rfl

theorem mem_zip_iff_getElem? {l1 l2 : List Nat} {w x : Nat} :
    (w, x) ∈ l1.zip l2 ↔ ∃ i : Nat, l1[i]? = some w ∧ l2[i]? = some x := by
  rw [List.mem_iff_getElem?]
  constructor
  · rintro ⟨i, hi⟩
    rw [List.getElem?_zip_eq_some] at hi
    exact ⟨i, hi⟩
  · rintro ⟨i, hi⟩
    exact ⟨i, List.getElem?_zip_eq_some.mpr hi⟩

theorem useIds_getElem? (base n i : Nat) : (useIds base n)[i]? = if i < n then some (i + base) else none := by
  unfold useIds
  by_cases h : i < n
  · simp [h, List.getElem?_range h]
  · have : (List.range n)[i]? = none := List.getElem?_eq_none (by simpa using h)
    simp [h, this]

theorem useIds_length (base n : Nat) : (useIds base n).length = n := by simp [useIds]

theorem useIds_nodup (base n : Nat) : (useIds base n).Nodup := by
  unfold useIds
  exact List.Nodup.map (fun a b h => by simpa using h) List.nodup_range

theorem zip_map_snd {l1 l2 : List Nat} (h : l2.length = l1.length) : (l1.zip l2).map Prod.snd = l2 := by
  rw [List.map_snd_zip]; omega

/-- the `Use` objects of one operation are pairwise distinct -/
theorem UseInv.uid_nodup {s : IRStore} {pos uid : OpData → List Nat} {f : Nat → List Nat}
    (h : UseInv s pos uid f) {o : Nat} {d : OpData} (hd : AL.get s.ops o = some d) : (uid d).Nodup := by
  rw [List.nodup_iff_injective_getElem]
  intro ⟨i, hi⟩ ⟨j, hj⟩ e
  simp only at e
  have hl := h.len o d hd
  have h1 := (h.fwd o d i _ _ hd (List.getElem?_eq_getElem hi) (List.getElem?_eq_getElem (hl ▸ hi))).1
  have h2 := (h.fwd o d j _ _ hd (List.getElem?_eq_getElem hj) (List.getElem?_eq_getElem (hl ▸ hj))).1
  rw [e, h2] at h1
  simp only [Prod.mk.injEq, true_and] at h1
  exact Fin.ext h1.symm

/-- all positions of one operation get new values and new `Use` objects -/
theorem UseInv.reset {s s' : IRStore} {pos uid : OpData → List Nat} {f f2 : Nat → List Nat}
    (h : UseInv s pos uid f) {o : Nat} {d d' : OpData} {new : List Nat}
    (hd : AL.get s.ops o = some d)
    (hpos : pos d' = new) (huid : uid d' = useIds s.nextUse new.length)
    (hf2 : ∀ w x, x ∈ f2 w ↔ (x ∈ f w ∧ x ∉ uid d) ∨ (w, x) ∈ new.zip (useIds s.nextUse new.length))
    (hops : s'.ops = AL.set s.ops o d')
    (huses : s'.uses = usesTable s.uses s.nextUse o new.length)
    (hnu : s'.nextUse = s.nextUse + new.length) : UseInv s' pos uid f2 := by
  have use_old : ∀ u, u < s.nextUse → s'.use! u = s.use! u := fun u hu => by
    unfold IRStore.use!; rw [huses, get_usesTable]
    have : ¬ (s.nextUse ≤ u ∧ u < s.nextUse + new.length) := by omega
    simp [this]
  have use_new : ∀ i, i < new.length → s'.use! (i + s.nextUse) = (o, i) := fun i hi => by
    unfold IRStore.use!; rw [huses, get_usesTable]
    have : s.nextUse ≤ i + s.nextUse ∧ i + s.nextUse < s.nextUse + new.length := by omega
    simp [this]
  have zipmem : ∀ w x, (w, x) ∈ new.zip (useIds s.nextUse new.length) ↔
      ∃ i, new[i]? = some w ∧ x = i + s.nextUse := by
    intro w x
    rw [mem_zip_iff_getElem?]
    constructor
    · rintro ⟨i, h1, h2⟩
      rw [useIds_getElem?] at h2
      split at h2
      · cases h2; exact ⟨i, h1, rfl⟩
      · cases h2
    · rintro ⟨i, h1, rfl⟩
      have := (List.getElem?_eq_some_iff.mp h1).1
      exact ⟨i, h1, by rw [useIds_getElem?]; simp [this]⟩
  -- old use objects of other operations are not among those of `o`
  have notmine : ∀ o' d0 i u', AL.get s.ops o' = some d0 → (uid d0)[i]? = some u' → i < (pos d0).length →
      o' ≠ o → u' ∉ uid d := by
    intro o' d0 i u' h0 h1 hlt hne hm
    obtain ⟨j, hj⟩ := List.mem_iff_getElem?.mp hm
    have hjl : j < (pos d).length := by
      rw [← h.len o d hd]; exact (List.getElem?_eq_some_iff.mp hj).1
    have e1 := (h.fwd o' d0 i u' _ h0 h1 (List.getElem?_eq_getElem hlt)).1
    have e2 := (h.fwd o d j u' _ hd hj (List.getElem?_eq_getElem hjl)).1
    rw [e1] at e2; cases e2; exact hne rfl
  refine ⟨?_, ?_, ?_, ?_⟩
  · intro o' d'' h1
    rw [hops, AL.get_set] at h1
    split at h1
    · cases h1; subst_vars; rw [huid, useIds_length]
    · exact h.len o' d'' h1
  · intro o' d'' i u' v' h1 h2 h3
    rw [hops, AL.get_set] at h1
    split at h1
    · cases h1
      subst_vars
      rw [huid, useIds_getElem?] at h2
      split at h2
      · cases h2
        rename_i hi
        exact ⟨use_new i hi, (hf2 _ _).mpr (Or.inr ((zipmem _ _).mpr ⟨i, h3, rfl⟩))⟩
      · cases h2
    · rename_i hne0
      have hlt : i < (pos d'').length := (List.getElem?_eq_some_iff.mp h3).1
      obtain ⟨e1, e2⟩ := h.fwd o' d'' i u' v' h1 h2 h3
      refine ⟨by rw [use_old u' (h.lt v' u' e2)]; exact e1, (hf2 _ _).mpr (Or.inl ⟨e2, ?_⟩)⟩
      exact notmine o' d'' i u' h1 h2 hlt hne0
  · intro w x hm
    rcases (hf2 w x).mp hm with ⟨hm', hnot⟩ | hz
    · obtain ⟨d0, h0, h1, h2⟩ := h.bwd w x hm'
      rw [use_old x (h.lt w x hm')]
      have ho : (s.use! x).1 ≠ o := fun e => by
        rw [e, hd] at h0; cases h0
        exact hnot (List.mem_of_getElem? h1)
      exact ⟨d0, by rw [hops, AL.get_set]; simp [ho]; exact h0, h1, h2⟩
    · obtain ⟨i, h1, rfl⟩ := (zipmem w x).mp hz
      have hi := (List.getElem?_eq_some_iff.mp h1).1
      rw [use_new i hi]
      refine ⟨d', by rw [hops, AL.get_set]; simp, ?_, by rw [hpos]; exact h1⟩
      rw [huid, useIds_getElem?]; simp [hi]
  · intro w x hm
    rw [hnu]
    rcases (hf2 w x).mp hm with ⟨hm', _⟩ | hz
    · exact Nat.lt_of_lt_of_le (h.lt w x hm') (Nat.le_add_right _ _)
    · obtain ⟨i, h1, rfl⟩ := (zipmem w x).mp hz
      have hi := (List.getElem?_eq_some_iff.mp h1).1
      omega


theorem use_old_usesTable (s : IRStore) (o n u : Nat) (hu : u < s.nextUse) :
    ((AL.get (usesTable s.uses s.nextUse o n) u).getD (0, 0)) = s.use! u := by
  rw [get_usesTable]
  have : ¬ (s.nextUse ≤ u ∧ u < s.nextUse + n) := by omega
  simp [this, IRStore.use!]

/-- `Operation.operands` setter -/
theorem Inv.setOperands {s : IRStore} (h : Inv s) {o : Nat} (new : List Nat) (ho : regO s o) :
    Inv (s.setOperands o new) := by
  obtain ⟨a, ha⟩ := h
  obtain ⟨d, hd⟩ := Option.isSome_iff_exists.mp ho
  have hop : s.op! o = d := by simp [IRStore.op!, hd]
  rw [setOperands_eq, hop]
  have U := ha.operandUses
  have hlen := U.len o d hd
  -- phase 1: the old uses leave their lists
  obtain ⟨f1, w1, m1⟩ := ha.vuseL.removeAll (d.operands.zip d.operandUses)
    (fun p hp => by
      obtain ⟨i, h1, h2⟩ := mem_zip_iff_getElem?.mp (show (p.1, p.2) ∈ _ from hp)
      exact (U.fwd o d i p.2 p.1 hd h2 h1).2)
    (by rw [zip_map_snd hlen]; exact U.uid_nodup hd)
  rw [zip_map_snd hlen] at m1
  -- phase 2: the fresh uses enter the lists of the new operands
  obtain ⟨f2, w2, m2⟩ := w1.addAll (new.zip (useIds s.nextUse new.length))
    (fun p hp c hc => by
      obtain ⟨i, _, h2⟩ := mem_zip_iff_getElem?.mp (show (p.1, p.2) ∈ _ from hp)
      rw [useIds_getElem?] at h2
      split at h2
      · have e : i + s.nextUse = p.2 := Option.some.inj h2
        have := U.lt c _ ((m1 c _).mp hc).1
        omega
      · exact absurd h2 (by simp))
    (by rw [zip_map_snd (by rw [useIds_length])]; exact useIds_nodup _ _)
  let d' : OpData := { d with operands := new, operandUses := useIds s.nextUse new.length }
  refine ⟨{ a with vuses := f2 }, ha.setOp_frame (d' := d') hd rfl rfl rfl rfl rfl rfl rfl rfl rfl rfl
    w2 ha.buseL ?_ ?_⟩
  · exact U.reset (pos := (·.operands)) (uid := (·.operandUses)) (d' := d') (f2 := f2) hd rfl rfl
      (fun w x => by rw [m2, m1]) rfl rfl rfl
  · exact ha.successorUses.setOp_other (pos := (·.successors)) (uid := (·.successorUses)) (d' := d') hd rfl rfl rfl
      (fun u hu => use_old_usesTable s o new.length u hu) (Nat.le_add_right _ _)

/-- `Operation.successors` setter -/
theorem Inv.setSuccessors {s : IRStore} (h : Inv s) {o : Nat} (new : List Nat) (ho : regO s o) :
    Inv (s.setSuccessors o new) := by
  obtain ⟨a, ha⟩ := h
  obtain ⟨d, hd⟩ := Option.isSome_iff_exists.mp ho
  have hop : s.op! o = d := by simp [IRStore.op!, hd]
  rw [setSuccessors_eq, hop]
  have U := ha.successorUses
  have hlen := U.len o d hd
  obtain ⟨f1, w1, m1⟩ := ha.buseL.removeAll (d.successors.zip d.successorUses)
    (fun p hp => by
      obtain ⟨i, h1, h2⟩ := mem_zip_iff_getElem?.mp (show (p.1, p.2) ∈ _ from hp)
      exact (U.fwd o d i p.2 p.1 hd h2 h1).2)
    (by rw [zip_map_snd hlen]; exact U.uid_nodup hd)
  rw [zip_map_snd hlen] at m1
  obtain ⟨f2, w2, m2⟩ := w1.addAll (new.zip (useIds s.nextUse new.length))
    (fun p hp c hc => by
      obtain ⟨i, _, h2⟩ := mem_zip_iff_getElem?.mp (show (p.1, p.2) ∈ _ from hp)
      rw [useIds_getElem?] at h2
      split at h2
      · have e : i + s.nextUse = p.2 := Option.some.inj h2
        have := U.lt c _ ((m1 c _).mp hc).1
        omega
      · exact absurd h2 (by simp))
    (by rw [zip_map_snd (by rw [useIds_length])]; exact useIds_nodup _ _)
  let d' : OpData := { d with successors := new, successorUses := useIds s.nextUse new.length }
  refine ⟨{ a with buses := f2 }, ha.setOp_frame (d' := d') hd rfl rfl rfl rfl rfl rfl rfl rfl rfl rfl
    ha.vuseL w2 ?_ ?_⟩
  · exact ha.operandUses.setOp_other (pos := (·.operands)) (uid := (·.operandUses)) (d' := d') hd rfl rfl rfl
      (fun u hu => use_old_usesTable s o new.length u hu) (Nat.le_add_right _ _)
  · exact U.reset (pos := (·.successors)) (uid := (·.successorUses)) (d' := d') (f2 := f2) hd rfl rfl
      (fun w x => by rw [m2, m1]) rfl rfl rfl

theorem regO_setOperands {s : IRStore} {o : Nat} {new : List Nat} {k : Nat} (h : regO s k) :
    regO (s.setOperands o new) k := by
  rw [setOperands_eq]; unfold IR.regO at *; simp only [AL.get_set]; split <;> simp [h]

theorem regO_setSuccessors {s : IRStore} {o : Nat} {new : List Nat} {k : Nat} (h : regO s k) :
    regO (s.setSuccessors o new) k := by
  rw [setSuccessors_eq]; unfold IR.regO at *; simp only [AL.get_set]; split <;> simp [h]


/-! ### creating operations; regions of operations -/

theorem freshO_not_reg {s : IRStore} {k : Nat} (h : s.freshO k = true) : AL.get s.ops k = none := by
  simp [IRStore.freshO] at h; exact h.2

/-- a new operation without operands, results, successors or regions -/
theorem InvA.newOpEntry {s : IRStore} {a : Abs} (h : InvA s a) {k : Nat} (hk : AL.get s.ops k = none) :
    InvA { (s.setOp k {}) with opL := (s.setOp k {}).opL.setNd k {} } a := by
  have nk : ¬ regO s k := by unfold IR.regO; simp [hk]
  have free : ∀ c, k ∉ a.ops c := fun c hm => nk (h.regOps c k hm).1
  have useinv : ∀ (pos uid : OpData → List Nat) (f : Nat → List Nat), pos {} = [] → uid {} = [] →
      UseInv s pos uid f →
      UseInv { (s.setOp k {}) with opL := (s.setOp k {}).opL.setNd k {} } pos uid f := by
    intro pos uid f hp hu U
    refine ⟨?_, ?_, ?_, U.lt⟩
    · intro o d h1
      simp only [IRStore.setOp, AL.get_set] at h1
      split at h1
      · cases h1; rw [hp, hu]
      · exact U.len o d h1
    · intro o d i u v h1 h2 h3
      simp only [IRStore.setOp, AL.get_set] at h1
      split at h1
      · cases h1; rw [hu] at h2; simp at h2
      · exact U.fwd o d i u v h1 h2 h3
    · intro v u hm
      obtain ⟨d0, h0, h1, h2⟩ := U.bwd v u hm
      have : (s.use! u).1 ≠ k := fun e => by rw [e, hk] at h0; cases h0
      exact ⟨d0, by
        show AL.get (AL.set s.ops k {}) (s.use! u).1 = some d0
        rw [AL.get_set]; simp [this]; exact h0, h1, h2⟩
  exact {
    opL := h.opL.setNd_free free
    blockL := h.blockL, vuseL := h.vuseL, buseL := h.buseL
    operandUses := useinv _ _ _ rfl rfl h.operandUses
    successorUses := useinv _ _ _ rfl rfl h.successorUses
    results := fun o d i v h1 h2 => by
      simp only [IRStore.setOp, AL.get_set] at h1
      split at h1
      · cases h1; simp at h2
      · exact h.results o d i v h1 h2
    args := h.args
    regions := fun o d h1 => by
      simp only [IRStore.setOp, AL.get_set] at h1
      split at h1
      · cases h1; simp
      · exact h.regions o d h1
    regionParent := fun r o hp => by
      obtain ⟨d0, h0, hr⟩ := h.regionParent r o hp
      have : o ≠ k := fun e => by rw [e, hk] at h0; cases h0
      exact ⟨d0, by
        show AL.get (AL.set s.ops k {}) o = some d0
        rw [AL.get_set]; simp [this]; exact h0, hr⟩
    regOps := fun b x hx => by
      have := h.regOps b x hx
      refine ⟨?_, this.2⟩
      have h3 := this.1
      unfold IR.regO at *
      show (AL.get (AL.set s.ops k {}) x).isSome
      rw [AL.get_set]; split <;> simp [h3]
    regBlocks := h.regBlocks }

/-- the result values of a fresh operation -/
theorem InvA.setResults {s : IRStore} {a : Abs} (h : InvA s a) {k : Nat} {d : OpData} {res : List Nat}
    (hd : AL.get s.ops k = some d) (hres : s.freshVs res = true) :
    InvA ((res.zipIdx).foldl (fun s p => s.setVal p.1 { kind := .result, owner := k, index := p.2 })
      (s.setOp k { d with results := res })) a := by
  obtain ⟨hfresh, hnd⟩ := freshVs_spec hres
  rw [fold_setVal]
  have keep : ∀ v dv, AL.get s.vals v = some dv →
      AL.get (setAll (fun i => ({ kind := .result, owner := k, index := i } : ValData)) res.zipIdx s.vals) v = some dv := by
    intro v dv hv
    rw [get_setAll_of_not_mem _ _ _ _ (by
      rw [zipIdx_fst]; intro hm; rw [hfresh v hm] at hv; cases hv)]
    exact hv
  let d' : OpData := { d with results := res }
  have hu : ∀ u, ({ (s.setOp k d') with vals := setAll (fun i => ({ kind := .result, owner := k, index := i } : ValData)) res.zipIdx (s.setOp k d').vals } : IRStore).use! u = s.use! u := fun _ => rfl
  have get' : ∀ o d'', AL.get (AL.set s.ops k d') o = some d'' →
      (o = k ∧ d'' = d') ∨ (o ≠ k ∧ AL.get s.ops o = some d'') := by
    intro o d'' h1
    rw [AL.get_set] at h1
    split at h1
    · cases h1; exact Or.inl ⟨by assumption, rfl⟩
    · exact Or.inr ⟨by assumption, h1⟩
  exact {
    opL := h.opL, blockL := h.blockL, vuseL := h.vuseL, buseL := h.buseL
    operandUses := h.operandUses.setOp_other (pos := (·.operands)) (uid := (·.operandUses)) (d' := d') hd rfl rfl rfl
      (fun _ _ => rfl) (Nat.le_refl _)
    successorUses := h.successorUses.setOp_other (pos := (·.successors)) (uid := (·.successorUses)) (d' := d') hd rfl rfl rfl
      (fun _ _ => rfl) (Nat.le_refl _)
    results := fun o d'' i v h1 h2 => by
      rcases get' o d'' h1 with ⟨rfl, rfl⟩ | ⟨_, h0⟩
      · exact get_setAll_of_mem _ _ _ _ _ (by rw [zipIdx_fst]; exact hnd) (mem_zipIdx_of_getElem? h2)
      · exact keep v _ (h.results o d'' i v h0 h2)
    args := fun b db i v h1 h2 => keep v _ (h.args b db i v h1 h2)
    regions := fun o d'' h1 => by
      rcases get' o d'' h1 with ⟨rfl, rfl⟩ | ⟨_, h0⟩
      · exact h.regions o d hd
      · exact h.regions o d'' h0
    regionParent := fun r o hp => by
      obtain ⟨d0, h0, hr⟩ := h.regionParent r o hp
      by_cases ho : o = k
      · subst ho; rw [hd] at h0; cases h0
        exact ⟨d', by show AL.get (AL.set s.ops o d') o = some d'; rw [AL.get_set]; simp, hr⟩
      · exact ⟨d0, by show AL.get (AL.set s.ops k d') o = some d0; rw [AL.get_set]; simp [ho]; exact h0, hr⟩
    regOps := fun b x hx => by
      have := h.regOps b x hx
      refine ⟨?_, this.2⟩
      have h3 := this.1
      unfold IR.regO at *
      show (AL.get (AL.set s.ops k d') x).isSome
      rw [AL.get_set]; split <;> simp [h3]
    regBlocks := h.regBlocks }

/-- `Operation.add_region` -/
theorem Inv.addRegion {s s' : IRStore} (h : Inv s) {o r : Nat} (ho : regO s o)
    (hok : s.addRegion o r = .ok s') : Inv s' := by
  obtain ⟨a, ha⟩ := h
  obtain ⟨d, hd⟩ := Option.isSome_iff_exists.mp ho
  have hop : s.op! o = d := by simp [IRStore.op!, hd]
  unfold IRStore.addRegion at hok
  by_cases g : (s.regionParent r).isSome
  · simp [g] at hok
  · simp only [g, hop] at hok
    simp at hok
    subst hok
    have hpn : s.regionParent r = none := by simpa using g
    let d' : OpData := { d with regions := d.regions ++ [r] }
    have par : ∀ x, IRStore.regionParent ((s.setOp o d').setRegion r { parent := some o }) x =
        if x = r then some o else s.regionParent x := by
      intro x
      unfold IRStore.regionParent IRStore.region! IRStore.setRegion IRStore.setOp
      simp only [AL.get_set]
      split <;> simp_all
    have hrn : r ∉ d.regions := fun hm => by
      have := (ha.regions o d hd).2 r hm; rw [hpn] at this; cases this
    have get' : ∀ o' d'', AL.get (AL.set s.ops o d') o' = some d'' →
        (o' = o ∧ d'' = d') ∨ (o' ≠ o ∧ AL.get s.ops o' = some d'') := by
      intro o' d'' h1
      rw [AL.get_set] at h1
      split at h1
      · cases h1; exact Or.inl ⟨by assumption, rfl⟩
      · exact Or.inr ⟨by assumption, h1⟩
    refine ⟨a, {
      opL := ha.opL, blockL := ha.blockL, vuseL := ha.vuseL, buseL := ha.buseL
      operandUses := ha.operandUses.setOp_other (pos := (·.operands)) (uid := (·.operandUses)) (d' := d') hd rfl rfl rfl
        (fun _ _ => rfl) (Nat.le_refl _)
      successorUses := ha.successorUses.setOp_other (pos := (·.successors)) (uid := (·.successorUses)) (d' := d') hd rfl rfl rfl
        (fun _ _ => rfl) (Nat.le_refl _)
      results := fun o' d'' i v h1 h2 => by
        rcases get' o' d'' h1 with ⟨rfl, rfl⟩ | ⟨_, h0⟩
        · exact ha.results o' d i v hd h2
        · exact ha.results o' d'' i v h0 h2
      args := ha.args
      regions := fun o' d'' h1 => by
        rcases get' o' d'' h1 with ⟨rfl, rfl⟩ | ⟨hne, h0⟩
        · refine ⟨?_, fun x hx => ?_⟩
          · exact List.nodup_append.mpr ⟨(ha.regions o' d hd).1, by simp, fun a ha' b hb e => by
              simp at hb; subst hb; exact hrn (e ▸ ha')⟩
          · rw [par]
            rcases List.mem_append.mp hx with e | e
            · have : x ≠ r := fun e' => hrn (e' ▸ e)
              simp [this]; exact (ha.regions o' d hd).2 x e
            · have : x = r := by simpa using e
              simp [this]
        · refine ⟨(ha.regions o' d'' h0).1, fun x hx => ?_⟩
          have hx' := (ha.regions o' d'' h0).2 x hx
          have : x ≠ r := fun e => by rw [e, hpn] at hx'; cases hx'
          rw [par]; simp [this]; exact hx'
      regionParent := fun x o' hp => by
        rw [par] at hp
        split at hp
        · rename_i hxr
          have e : o = o' := Option.some.inj hp
          subst e
          exact ⟨d', by show AL.get (AL.set s.ops o d') o = some d'; rw [AL.get_set]; simp, by
            rw [hxr]; simp [d']⟩
        · obtain ⟨d0, h0, hr⟩ := ha.regionParent x o' hp
          by_cases ho' : o' = o
          · subst ho'; rw [hd] at h0; cases h0
            exact ⟨d', by show AL.get (AL.set s.ops o' d') o' = some d'; rw [AL.get_set]; simp,
              List.mem_append_left _ hr⟩
          · exact ⟨d0, by show AL.get (AL.set s.ops o d') o' = some d0; rw [AL.get_set]; simp [ho']; exact h0, hr⟩
      regOps := fun b x hx => by
        have := ha.regOps b x hx
        refine ⟨?_, this.2⟩
        have h3 := this.1
        unfold IR.regO at *
        show (AL.get (AL.set s.ops o d') x).isSome
        rw [AL.get_set]; split <;> simp [h3]
      regBlocks := fun c x hx => by
        have := ha.regBlocks c x hx
        refine ⟨this.1, ?_⟩
        have h3 := this.2
        unfold IR.regR at *
        show (AL.get (AL.set s.regions r { parent := some o }) c).isSome
        rw [AL.get_set]; split <;> simp [h3] }⟩

theorem regO_addRegion {s s' : IRStore} {o r k : Nat} (hok : s.addRegion o r = .ok s') (h : regO s k) :
    regO s' k := by
  unfold IRStore.addRegion at hok
  split at hok
  · simp at hok
  · simp at hok; subst hok
    unfold IR.regO at *
    show (AL.get (AL.set s.ops o _) k).isSome
    rw [AL.get_set]; split <;> simp [h]


/-! ### `Operation.create` -/
def pre1 (s : IRStore) (k : Nat) : IRStore := { (s.setOp k {}) with opL := (s.setOp k {}).opL.setNd k {} }
def pre2 (s : IRStore) (k : Nat) (operands : List Nat) : IRStore := (pre1 s k).setOperands k operands
def pre3 (s : IRStore) (k : Nat) (operands res : List Nat) : IRStore :=
  (res.zipIdx).foldl (fun s p => s.setVal p.1 { kind := .result, owner := k, index := p.2 })
    ((pre2 s k operands).setOp k { (pre2 s k operands).op! k with results := res })
def pre4 (s : IRStore) (k : Nat) (operands res succs : List Nat) : IRStore :=
  (pre3 s k operands res).setSuccessors k succs

theorem newOp_eq (s : IRStore) (k : Nat) (res operands succs regions : List Nat) :
    s.newOp k res operands succs regions =
      regions.foldlM (fun s r => s.addRegion k r) (pre4 s k operands res succs) := rfl

theorem regO_pre1 (s : IRStore) (k : Nat) : regO (pre1 s k) k := by
  unfold IR.regO pre1 IRStore.setOp; simp [AL.get_set]

theorem vals_pre2 (s : IRStore) (k : Nat) (operands : List Nat) : (pre2 s k operands).vals = s.vals := by
  unfold pre2; rw [setOperands_eq]; rfl

theorem regO_pre3 {s : IRStore} {k : Nat} {operands res : List Nat} : regO (pre3 s k operands res) k := by
  unfold pre3; rw [fold_setVal]
  unfold IR.regO IRStore.setOp; simp [AL.get_set]

theorem Inv.newOp {s s' : IRStore} (h : Inv s) {k : Nat} {res operands succs regions : List Nat}
    (hk : s.freshO k = true) (hres : s.freshVs res = true)
    (hok : s.newOp k res operands succs regions = .ok s') : Inv s' := by
  obtain ⟨a, ha⟩ := h
  rw [newOp_eq] at hok
  have i1 : Inv (pre1 s k) := ⟨a, ha.newOpEntry (freshO_not_reg hk)⟩
  have i2 : Inv (pre2 s k operands) := i1.setOperands operands (regO_pre1 s k)
  have r2 : regO (pre2 s k operands) k := regO_setOperands (regO_pre1 s k)
  obtain ⟨d2, hd2⟩ := Option.isSome_iff_exists.mp r2
  have hop : (pre2 s k operands).op! k = d2 := by simp [IRStore.op!, hd2]
  have i3 : Inv (pre3 s k operands res) := by
    obtain ⟨a2, ha2⟩ := i2
    unfold pre3; rw [hop]
    exact ⟨a2, ha2.setResults hd2 (by
      unfold IRStore.freshVs IRStore.freshV at hres ⊢; rw [vals_pre2]; exact hres)⟩
  have i4 : Inv (pre4 s k operands res succs) := i3.setSuccessors succs regO_pre3
  have r4 : regO (pre4 s k operands res succs) k := regO_setSuccessors regO_pre3
  exact (foldlM_ok_inv (fun t => Inv t ∧ regO t k) _ regions
    (fun t r t' _ hp ht => ⟨hp.1.addRegion hp.2 ht, regO_addRegion ht hp.2⟩) _ s' ⟨i4, r4⟩ hok).1


/-! ### `Operation.detach_region` -/

theorem InvA.removeRegion {s : IRStore} {a : Abs} (h : InvA s a) {o r : Nat} {d : OpData}
    (hd : AL.get s.ops o = some d) (hr : r ∈ d.regions) :
    InvA ((s.setRegion r { parent := none }).setOp o { d with regions := d.regions.erase r }) a := by
  let d' : OpData := { d with regions := d.regions.erase r }
  have hnd := (h.regions o d hd).1
  have par : ∀ x, IRStore.regionParent ((s.setRegion r { parent := none }).setOp o d') x =
      if x = r then none else s.regionParent x := by
    intro x
    unfold IRStore.regionParent IRStore.region! IRStore.setRegion IRStore.setOp
    simp only [AL.get_set]
    split <;> simp_all
  have get' : ∀ o' d'', AL.get (AL.set s.ops o d') o' = some d'' →
      (o' = o ∧ d'' = d') ∨ (o' ≠ o ∧ AL.get s.ops o' = some d'') := by
    intro o' d'' h1
    rw [AL.get_set] at h1
    split at h1
    · cases h1; exact Or.inl ⟨by assumption, rfl⟩
    · exact Or.inr ⟨by assumption, h1⟩
  have hs : ∀ (t : IRStore), (t.setRegion r { parent := none }).ops = t.ops := fun _ => rfl
  exact {
    opL := h.opL, blockL := h.blockL, vuseL := h.vuseL, buseL := h.buseL
    operandUses := h.operandUses.setOp_other (pos := (·.operands)) (uid := (·.operandUses)) (d' := d') hd rfl rfl rfl
      (fun _ _ => rfl) (Nat.le_refl _)
    successorUses := h.successorUses.setOp_other (pos := (·.successors)) (uid := (·.successorUses)) (d' := d') hd rfl rfl rfl
      (fun _ _ => rfl) (Nat.le_refl _)
    results := fun o' d'' i v h1 h2 => by
      rcases get' o' d'' h1 with ⟨rfl, rfl⟩ | ⟨_, h0⟩
      · exact h.results o' d i v hd h2
      · exact h.results o' d'' i v h0 h2
    args := h.args
    regions := fun o' d'' h1 => by
      rcases get' o' d'' h1 with ⟨rfl, rfl⟩ | ⟨hne, h0⟩
      · refine ⟨hnd.erase r, fun x hx => ?_⟩
        have hx' := hnd.mem_erase_iff.mp hx
        rw [par]; simp [hx'.1]; exact (h.regions o' d hd).2 x hx'.2
      · refine ⟨(h.regions o' d'' h0).1, fun x hx => ?_⟩
        have hx' := (h.regions o' d'' h0).2 x hx
        have : x ≠ r := fun e => by
          subst e
          have := (h.regions o d hd).2 x hr
          rw [hx'] at this; cases this; exact hne rfl
        rw [par]; simp [this]; exact hx'
    regionParent := fun x o' hp => by
      rw [par] at hp
      split at hp
      · cases hp
      · rename_i hxr
        obtain ⟨d0, h0, hm⟩ := h.regionParent x o' hp
        by_cases ho' : o' = o
        · subst ho'; rw [hd] at h0; cases h0
          exact ⟨d', by show AL.get (AL.set s.ops o' d') o' = some d'; rw [AL.get_set]; simp,
            hnd.mem_erase_iff.mpr ⟨hxr, hm⟩⟩
        · exact ⟨d0, by show AL.get (AL.set s.ops o d') o' = some d0; rw [AL.get_set]; simp [ho']; exact h0, hm⟩
    regOps := fun b x hx => by
      have := h.regOps b x hx
      refine ⟨?_, this.2⟩
      have h3 := this.1
      unfold IR.regO at *
      show (AL.get (AL.set s.ops o d') x).isSome
      rw [AL.get_set]; split <;> simp [h3]
    regBlocks := fun c x hx => by
      have := h.regBlocks c x hx
      refine ⟨this.1, ?_⟩
      have h3 := this.2
      unfold IR.regR at *
      show (AL.get (AL.set s.regions r { parent := none }) c).isSome
      rw [AL.get_set]; split <;> simp [h3] }

theorem take_drop_eq_erase {l : List Nat} (hn : l.Nodup) {k : Nat} (hk : k < l.length) :
    l.take k ++ l.drop (k + 1) = l.erase l[k] := by
  rw [← List.eraseIdx_eq_take_drop_succ, hn.erase_getElem k hk]

theorem Inv.detachRegion {s s' : IRStore} (h : Inv s) {o r : Nat}
    (hok : s.detachRegion o r = .ok s') : Inv s' := by
  obtain ⟨a, ha⟩ := h
  unfold IRStore.detachRegion at hok
  by_cases g : s.regionParent r = some o
  · obtain ⟨d, hd, hr⟩ := ha.regionParent r o g
    have hop : s.op! o = d := by simp [IRStore.op!, hd]
    simp only [g, ne_eq, not_true_eq_false, if_false, hop] at hok
    simp at hok; subst hok
    have hnd := (ha.regions o d hd).1
    have hk : d.regions.idxOf r < d.regions.length := List.idxOf_lt_length_iff.mpr hr
    rw [take_drop_eq_erase hnd hk, List.getElem_idxOf hk]
    exact ⟨a, ha.removeRegion hd hr⟩
  · simp [g] at hok

theorem Inv.detachRegionIdx {s s' : IRStore} (h : Inv s) {o : Nat} {idx : Int} (ho : regO s o)
    (hok : s.detachRegionIdx o idx = .ok s') : Inv s' := by
  obtain ⟨a, ha⟩ := h
  obtain ⟨d, hd⟩ := Option.isSome_iff_exists.mp ho
  have hop : s.op! o = d := by simp [IRStore.op!, hd]
  unfold IRStore.detachRegionIdx at hok
  rw [hop] at hok
  cases hk : IRStore.normIdx d.regions.length idx with
  | none => simp [hk] at hok
  | some k =>
    simp only [hk] at hok
    have hlt := normIdx_lt hk
    have e1 : d.regions.getD k 0 = d.regions[k] := by
      simp [List.getD_eq_getElem?_getD, List.getElem?_eq_getElem hlt]
    rw [e1] at hok
    simp at hok; subst hok
    have hnd := (ha.regions o d hd).1
    rw [take_drop_eq_erase hnd hlt]
    exact ⟨a, ha.removeRegion hd (List.getElem_mem hlt)⟩


/-! ### `Block.insert_arg` -/

/-- `shiftArgs` only rewrites the `vals` table: the listed values get their index bumped -/
theorem shiftArgs_spec (s : IRStore) (l : List Nat) (up : Bool) (hn : l.Nodup) :
    ∃ m, s.shiftArgs l up = { s with vals := m } ∧
      ∀ v, AL.get m v = if v ∈ l then
          some { s.val! v with index := if up then (s.val! v).index + 1 else (s.val! v).index - 1 }
        else AL.get s.vals v := by
  unfold IRStore.shiftArgs
  induction l generalizing s with
  | nil => exact ⟨s.vals, rfl, fun v => by simp⟩
  | cons x r ih =>
    have hx : x ∉ r := (List.nodup_cons.mp hn).1
    simp only [List.foldl_cons]
    obtain ⟨m, hm, hg⟩ := ih (s.setVal x { s.val! x with index := if up then (s.val! x).index + 1 else (s.val! x).index - 1 })
      (List.nodup_cons.mp hn).2
    refine ⟨m, by rw [hm]; rfl, fun v => ?_⟩
    rw [hg]
    by_cases hv : v ∈ r
    · have : v ≠ x := fun e => hx (e ▸ hv)
      simp [hv, IRStore.val!, IRStore.setVal, AL.get_set, this]
    · by_cases hvx : v = x
      · subst hvx; simp [hv, IRStore.setVal, AL.get_set]
      · simp [hv, hvx, IRStore.setVal, AL.get_set]

/-- the arguments of a block are pairwise distinct (their index fields differ) -/
theorem InvA.args_nodup {s : IRStore} {a : Abs} (h : InvA s a) {b : Nat} {d : BlockData}
    (hd : AL.get s.blocks b = some d) : d.args.Nodup := by
  rw [List.nodup_iff_injective_getElem]
  intro ⟨i, hi⟩ ⟨j, hj⟩ e
  simp only at e
  have h1 := h.args b d i _ hd (List.getElem?_eq_getElem hi)
  have h2 := h.args b d j _ hd (List.getElem?_eq_getElem hj)
  rw [e, h2] at h1
  simp only [Option.some.injEq, ValData.mk.injEq, true_and] at h1
  exact Fin.ext h1.symm

theorem Inv.insertArg {s s' : IRStore} (h : Inv s) {b : Nat} {idx : Int} {nv : Nat} (hb : regB s b)
    (hnv : s.freshV nv = true) (hok : s.insertArg b idx nv = .ok s') : Inv s' := by
  obtain ⟨a, ha⟩ := h
  obtain ⟨d, hd⟩ := Option.isSome_iff_exists.mp hb
  have hblk : s.block! b = d := by simp [IRStore.block!, hd]
  have hfresh := freshV_not_reg hnv
  unfold IRStore.insertArg at hok
  rw [hblk] at hok
  clear hblk
  by_cases g1 : idx < 0
  · simp [g1] at hok
  by_cases g2 : idx.toNat > d.args.length
  · simp [g1, g2] at hok
  · have hdec : (decide (idx < 0) || decide (idx.toNat > d.args.length)) = false := by simp [g1, g2]
    simp only [hdec, Bool.false_eq_true, if_false] at hok
    have hk : idx.toNat ≤ d.args.length := by omega
    generalize idx.toNat = k at hok hk
    have hnd := ha.args_nodup hd
    obtain ⟨m, hm, hg⟩ := shiftArgs_spec s (d.args.drop k) true (hnd.sublist (List.drop_sublist _ _))
    rw [hm] at hok
    simp at hok; subst hok
    -- the value table after the call
    have valsNew : ∀ v, AL.get (AL.set m nv ({ kind := .arg, owner := b, index := k } : ValData)) v =
        if v = nv then some { kind := .arg, owner := b, index := k }
        else if v ∈ d.args.drop k then some { s.val! v with index := (s.val! v).index + 1 }
        else AL.get s.vals v := by
      intro v; rw [AL.get_set, hg]; simp
    have argsData : ∀ i v, d.args[i]? = some v → s.val! v = { kind := .arg, owner := b, index := i } := by
      intro i v hv; simp [IRStore.val!, ha.args b d i v hd hv]
    have listed_ne : ∀ v dv, AL.get s.vals v = some dv → v ≠ nv := fun v dv hv e => by
      rw [e, hfresh] at hv; cases hv
    -- a value that is not an argument of `b` keeps its entry
    have keep : ∀ v dv, AL.get s.vals v = some dv → v ∉ d.args →
        AL.get (AL.set m nv ({ kind := .arg, owner := b, index := k } : ValData)) v = some dv := by
      intro v dv hv hn
      rw [valsNew]
      have h1 := listed_ne v dv hv
      have h2 : v ∉ d.args.drop k := fun e => hn (List.mem_of_mem_drop e)
      simp [h1, h2, hv]
    refine ⟨a, {
      opL := ha.opL, blockL := ha.blockL, vuseL := ha.vuseL, buseL := ha.buseL
      operandUses := ⟨ha.operandUses.len, ha.operandUses.fwd, ha.operandUses.bwd, ha.operandUses.lt⟩
      successorUses := ⟨ha.successorUses.len, ha.successorUses.fwd, ha.successorUses.bwd, ha.successorUses.lt⟩
      results := fun o dop i v h1 h2 => by
        have hv := ha.results o dop i v h1 h2
        refine keep v _ hv (fun hm' => ?_)
        obtain ⟨j, hj⟩ := List.mem_iff_getElem?.mp hm'
        have := ha.args b d j v hd hj
        rw [hv] at this; cases this
      args := fun b' d'' i v h1 h2 => by
        show AL.get (AL.set m nv _) v = _
        change AL.get (AL.set s.blocks b _) b' = some d'' at h1
        rw [AL.get_set] at h1
        split at h1
        · cases h1
          subst_vars
          simp only at h2
          rw [valsNew]
          by_cases hi : i < k
          · rw [List.getElem?_append_left (by simp; omega), List.getElem?_take_of_lt hi] at h2
            have hv := ha.args b' d i v hd h2
            have h3 : v ∉ d.args.drop k := fun e => by
              obtain ⟨j, hj⟩ := List.mem_iff_getElem?.mp e
              rw [List.getElem?_drop] at hj
              have := ha.args b' d (k + j) v hd hj
              rw [hv] at this; simp at this; omega
            simp [listed_ne v _ hv, h3, hv]
          · by_cases hik : i = k
            · subst hik
              rw [List.getElem?_append_right (by simp; omega)] at h2
              simp [List.length_take, Nat.min_eq_left hk] at h2
              simp [h2]
            · have hgt : k < i := by omega
              rw [List.getElem?_append_right (by simp; omega)] at h2
              simp only [List.length_take, Nat.min_eq_left hk] at h2
              have : i - k = (i - k - 1) + 1 := by omega
              rw [this, List.getElem?_cons_succ, List.getElem?_drop] at h2
              have hv := ha.args b' d (k + (i - k - 1)) v hd h2
              have hmem : v ∈ d.args.drop k := List.mem_iff_getElem?.mpr ⟨i - k - 1, by rw [List.getElem?_drop]; exact h2⟩
              have hval := argsData _ v h2
              simp only [listed_ne v _ hv, hmem, if_false, if_true, hval]
              congr 2; omega
        · rename_i hne
          have hv := ha.args b' d'' i v h1 h2
          refine keep v _ hv (fun hm' => ?_)
          obtain ⟨j, hj⟩ := List.mem_iff_getElem?.mp hm'
          have := ha.args b d j v hd hj
          rw [hv] at this; cases this; exact hne rfl
      regions := ha.regions
      regionParent := ha.regionParent
      regOps := fun c o ho => by
        have := ha.regOps c o ho
        refine ⟨this.1, ?_⟩
        have h3 := this.2
        unfold IR.regB at *
        show (AL.get (AL.set s.blocks b _) c).isSome
        rw [AL.get_set]; split <;> simp [h3]
      regBlocks := fun r x hx => by
        have := ha.regBlocks r x hx
        refine ⟨?_, this.2⟩
        have h3 := this.1
        unfold IR.regB at *
        show (AL.get (AL.set s.blocks b _) x).isSome
        rw [AL.get_set]; split <;> simp [h3] }⟩


/-! ### erasing values: `SSAValue.erase`, `Block.erase_arg` -/

/-- registering a value that no table entry refers to -/
theorem InvA.setVal_fresh {s : IRStore} {a : Abs} (h : InvA s a) {e : Nat} (he : AL.get s.vals e = none)
    (dv : ValData) : InvA (s.setVal e dv) a := by
  have keep : ∀ v d, AL.get s.vals v = some d → AL.get (AL.set s.vals e dv) v = some d := by
    intro v d hv
    rw [AL.get_set]
    have : v ≠ e := fun x => by rw [x, he] at hv; cases hv
    simp [this, hv]
  exact {
    opL := h.opL, blockL := h.blockL, vuseL := h.vuseL, buseL := h.buseL
    operandUses := ⟨h.operandUses.len, h.operandUses.fwd, h.operandUses.bwd, h.operandUses.lt⟩
    successorUses := ⟨h.successorUses.len, h.successorUses.fwd, h.successorUses.bwd, h.successorUses.lt⟩
    results := fun o d i v h1 h2 => keep v _ (h.results o d i v h1 h2)
    args := fun b d i v h1 h2 => keep v _ (h.args b d i v h1 h2)
    regions := h.regions
    regionParent := h.regionParent
    regOps := h.regOps
    regBlocks := h.regBlocks }

/-- the bookkeeping of dead objects is not part of the invariant -/
theorem InvA.of_deadV {s : IRStore} {a : Abs} (h : InvA s a) (l : List Nat) : InvA { s with deadV := l } a where
  opL := h.opL
  blockL := h.blockL
  vuseL := h.vuseL
  buseL := h.buseL
  operandUses := ⟨h.operandUses.len, h.operandUses.fwd, h.operandUses.bwd, h.operandUses.lt⟩
  successorUses := ⟨h.successorUses.len, h.successorUses.fwd, h.successorUses.bwd, h.successorUses.lt⟩
  results := h.results
  args := h.args
  regions := h.regions
  regionParent := h.regionParent
  regOps := h.regOps
  regBlocks := h.regBlocks

/-- `SSAValue.erase` -/
theorem Inv.valueErase {s s' : IRStore} (h : Inv s) {v : Nat} {safe : Bool}
    (hok : s.valueErase v safe = .ok s') : Inv s' := by
  unfold IRStore.valueErase at hok
  split at hok
  · simp at hok
  · split at hok
    · simp at hok; exact hok ▸ h
    · dsimp only at hok
      split at hok
      · exact h.replaceAllUsesWith hok
      · rename_i hnone
        obtain ⟨a, ha⟩ := h
        have : AL.get s.vals (E_BASE + v) = none := by
          cases e : AL.get s.vals (E_BASE + v) with
          | none => rfl
          | some x => simp [e] at hnone
        exact Inv.replaceAllUsesWith ⟨a, ha.setVal_fresh this _⟩ hok

theorem Inv.of_deadV {s : IRStore} (h : Inv s) (l : List Nat) : Inv { s with deadV := l } := by
  obtain ⟨a, ha⟩ := h; exact ⟨a, ha.of_deadV l⟩

/-- `PatternRewriter.replace_all_uses_with` -/
theorem Inv.prReplaceAllUsesWith {s s' : IRStore} (h : Inv s) {v : Nat} {w : Option Nat} {safe : Bool}
    (hok : s.prReplaceAllUsesWith v w safe = .ok s') : Inv s' := by
  unfold IRStore.prReplaceAllUsesWith at hok
  cases w with
  | none =>
    simp only [bind_eq_ok_iff, pure_eq_ok_iff] at hok
    obtain ⟨t, ht, rfl⟩ := hok
    exact (h.valueErase ht).of_deadV _
  | some w => exact h.replaceAllUsesWith hok

/-- removing the argument at position `i` of a block (whatever value sits there) -/
theorem Inv.dropArg {s : IRStore} (h : Inv s) {b : Nat} {d : BlockData} (hd : AL.get s.blocks b = some d) (i : Nat) :
    Inv ((s.shiftArgs (d.args.drop (i + 1)) false).setBlock b { args := d.args.take i ++ d.args.drop (i + 1) }) := by
  obtain ⟨a, ha⟩ := h
  have hnd := ha.args_nodup hd
  obtain ⟨m, hm, hg⟩ := shiftArgs_spec s (d.args.drop (i + 1)) false (hnd.sublist (List.drop_sublist _ _))
  rw [hm]
  have argsData : ∀ j v, d.args[j]? = some v → s.val! v = { kind := .arg, owner := b, index := j } := by
    intro j v hv; simp [IRStore.val!, ha.args b d j v hd hv]
  have keep : ∀ v dv, AL.get s.vals v = some dv → v ∉ d.args → AL.get m v = some dv := by
    intro v dv hv hn
    rw [hg]
    have h2 : v ∉ d.args.drop (i + 1) := fun e => hn (List.mem_of_mem_drop e)
    simp [h2, hv]
  refine ⟨a, {
    opL := ha.opL, blockL := ha.blockL, vuseL := ha.vuseL, buseL := ha.buseL
    operandUses := ⟨ha.operandUses.len, ha.operandUses.fwd, ha.operandUses.bwd, ha.operandUses.lt⟩
    successorUses := ⟨ha.successorUses.len, ha.successorUses.fwd, ha.successorUses.bwd, ha.successorUses.lt⟩
    results := fun o dop j v h1 h2 => by
      have hv := ha.results o dop j v h1 h2
      refine keep v _ hv (fun hm' => ?_)
      obtain ⟨j', hj⟩ := List.mem_iff_getElem?.mp hm'
      have := ha.args b d j' v hd hj
      rw [hv] at this; cases this
    args := fun b' d'' j v h1 h2 => by
      show AL.get m v = _
      change AL.get (AL.set s.blocks b _) b' = some d'' at h1
      rw [AL.get_set] at h1
      split at h1
      · cases h1
        rename_i hbb
        subst hbb
        simp only at h2
        rw [hg]
        by_cases hi : j < i
        · have hlt : j < (d.args.take i).length ∨ i > d.args.length := by
            by_cases hx : i ≤ d.args.length
            · left; simp [List.length_take, Nat.min_eq_left hx]; exact hi
            · right; omega
          have h2' : d.args[j]? = some v := by
            by_cases hx : i ≤ d.args.length
            · rw [List.getElem?_append_left (by simp [List.length_take, Nat.min_eq_left hx]; exact hi),
                List.getElem?_take_of_lt hi] at h2
              exact h2
            · have e1 : d.args.take i = d.args := List.take_of_length_le (by omega)
              have e2 : d.args.drop (i + 1) = [] := List.drop_of_length_le (by omega)
              rw [e1, e2, List.append_nil] at h2; exact h2
          have hv := ha.args b' d j v hd h2'
          have h3 : v ∉ d.args.drop (i + 1) := fun e => by
            obtain ⟨j', hj⟩ := List.mem_iff_getElem?.mp e
            rw [List.getElem?_drop] at hj
            have := ha.args b' d (i + 1 + j') v hd hj
            rw [hv] at this; simp at this; omega
          simp [h3, hv]
        · have hile : i ≤ d.args.length := by
            by_contra hx
            have e1 : d.args.take i = d.args := List.take_of_length_le (by omega)
            have e2 : d.args.drop (i + 1) = [] := List.drop_of_length_le (by omega)
            rw [e1, e2, List.append_nil] at h2
            have := (List.getElem?_eq_some_iff.mp h2).1
            omega
          rw [List.getElem?_append_right (by simp [List.length_take, Nat.min_eq_left hile]; omega)] at h2
          simp only [List.length_take, Nat.min_eq_left hile, List.getElem?_drop] at h2
          have hidx : i + 1 + (j - i) = j + 1 := by omega
          rw [hidx] at h2
          have hv := ha.args b' d (j + 1) v hd h2
          have hmem : v ∈ d.args.drop (i + 1) :=
            List.mem_iff_getElem?.mpr ⟨j - i, by rw [List.getElem?_drop, hidx]; exact h2⟩
          have hval := argsData _ v h2
          simp [hmem, hval]
      · rename_i hne
        have hv := ha.args b' d'' j v h1 h2
        refine keep v _ hv (fun hm' => ?_)
        obtain ⟨j', hj⟩ := List.mem_iff_getElem?.mp hm'
        have := ha.args b d j' v hd hj
        rw [hv] at this; cases this; exact hne rfl
    regions := ha.regions
    regionParent := ha.regionParent
    regOps := fun c o ho => by
      have := ha.regOps c o ho
      refine ⟨this.1, ?_⟩
      have h3 := this.2
      unfold IR.regB at *
      show (AL.get (AL.set s.blocks b _) c).isSome
      rw [AL.get_set]; split <;> simp [h3]
    regBlocks := fun r x hx => by
      have := ha.regBlocks r x hx
      refine ⟨?_, this.2⟩
      have h3 := this.1
      unfold IR.regB at *
      show (AL.get (AL.set s.blocks b _) x).isSome
      rw [AL.get_set]; split <;> simp [h3] }⟩

/-- `Block.erase_arg` -/
theorem Inv.eraseArg {s s' : IRStore} (h : Inv s) {b v : Nat} {safe : Bool} (hb : regB s b)
    (hok : s.eraseArg b v safe = .ok s') : Inv s' := by
  obtain ⟨d, hd⟩ := Option.isSome_iff_exists.mp hb
  have hblk : s.block! b = d := by simp [IRStore.block!, hd]
  unfold IRStore.eraseArg at hok
  rw [hblk] at hok
  dsimp only at hok
  split at hok
  · simp at hok
  · simp only [bind_eq_ok_iff, pure_eq_ok_iff] at hok
    obtain ⟨t, ht, rfl⟩ := hok
    exact ((h.dropArg hd _).valueErase ht).of_deadV _

/-- `Block.erase_arg`, also when the owner recorded in the value is not a registered block (the
model then creates an empty entry for it) -/
theorem Inv.eraseArg' {s s' : IRStore} (h : Inv s) {b v : Nat} {safe : Bool}
    (hok : s.eraseArg b v safe = .ok s') : Inv s' := by
  by_cases hb : regB s b
  · exact h.eraseArg hb hok
  · have hnone : AL.get s.blocks b = none := by
      unfold IR.regB at hb
      cases e : AL.get s.blocks b with
      | none => rfl
      | some x => simp [e] at hb
    have hblk : s.block! b = {} := by simp [IRStore.block!, hnone]
    unfold IRStore.eraseArg at hok
    rw [hblk] at hok
    dsimp only at hok
    split at hok
    · simp at hok
    · simp only [bind_eq_ok_iff, pure_eq_ok_iff] at hok
      obtain ⟨t, ht, rfl⟩ := hok
      obtain ⟨a, ha⟩ := h
      have h0 : Inv (s.mkBlock b []) := ⟨a, ha.mkBlock hnone (by simp [IRStore.freshVs])⟩
      have e : ((s.shiftArgs (List.drop ((s.val! v).index + 1) ([] : List Nat)) false).setBlock b
          { args := List.take (s.val! v).index ([] : List Nat) ++ List.drop ((s.val! v).index + 1) ([] : List Nat) })
          = s.mkBlock b [] := by
        simp [IRStore.shiftArgs, IRStore.mkBlock]
      rw [e] at ht
      exact (h0.valueErase ht).of_deadV _

/-- `replace_all_uses_with` leaves the block and value tables alone -/
theorem tables_replaceAllUsesWith {t t' : IRStore} {w e : Nat} (hr : t.replaceAllUsesWith w e = .ok t') :
    t'.blocks = t.blocks ∧ t'.vals = t.vals := by
  unfold IRStore.replaceAllUsesWith at hr
  split at hr
  · simp at hr; subst hr; exact ⟨rfl, rfl⟩
  · unfold IRStore.replaceUsesIf at hr
    exact foldlM_ok_inv (fun x => x.blocks = t.blocks ∧ x.vals = t.vals) _ _ (fun x u x' _ hx hu => by
      dsimp only at hu
      split at hu
      · unfold IRStore.setOperand at hu
        dsimp only at hu
        split at hu
        · simp at hu
        · simp at hu; subst hu; exact hx
      · simp at hu; exact hu ▸ hx) t t' ⟨rfl, rfl⟩ hr

theorem tables_valueErase {s s' : IRStore} {v : Nat} {safe : Bool} (hok : s.valueErase v safe = .ok s') :
    s'.blocks = s.blocks ∧ ∀ k, k ≠ E_BASE + v → AL.get s'.vals k = AL.get s.vals k := by
  unfold IRStore.valueErase at hok
  split at hok
  · simp at hok
  · split at hok
    · simp at hok; subst hok; exact ⟨rfl, fun _ _ => rfl⟩
    · dsimp only at hok
      split at hok
      · obtain ⟨h1, h2⟩ := tables_replaceAllUsesWith hok
        exact ⟨h1, fun k _ => by rw [h2]⟩
      · obtain ⟨h1, h2⟩ := tables_replaceAllUsesWith hok
        refine ⟨h1, fun k hk => ?_⟩
        rw [h2]; show AL.get (AL.set s.vals _ _) k = _
        rw [AL.get_set]; simp [hk]

/-- `PatternRewriter.erase_block_argument` -/
theorem Inv.prEraseBlockArgument {s s' : IRStore} (h : Inv s) {v : Nat} {safe : Bool}
    (hok : s.prEraseBlockArgument v safe = .ok s') : Inv s' := by
  unfold IRStore.prEraseBlockArgument at hok
  simp only [bind_eq_ok_iff] at hok
  obtain ⟨t, ht, hok⟩ := hok
  exact (h.valueErase ht).eraseArg' hok


/-! ### `Rewriter.replace_value_with_new_type` -/

/-- an operation entry appears for an id that had none; it has no positions in this family -/
theorem UseInv.newEntry {s s' : IRStore} {pos uid : OpData → List Nat} {f : Nat → List Nat}
    (U : UseInv s pos uid f) {k : Nat} {d' : OpData} (hk : AL.get s.ops k = none)
    (hp : pos d' = []) (hu : uid d' = [])
    (hops : s'.ops = AL.set s.ops k d') (huses : s'.uses = s.uses) (hnu : s'.nextUse = s.nextUse) :
    UseInv s' pos uid f := by
  have hus : ∀ u, s'.use! u = s.use! u := fun u => by unfold IRStore.use!; rw [huses]
  refine ⟨?_, ?_, ?_, fun v u hm => by rw [hnu]; exact U.lt v u hm⟩
  · intro o d h1
    rw [hops, AL.get_set] at h1
    split at h1
    · cases h1; rw [hp, hu]
    · exact U.len o d h1
  · intro o d i u v h1 h2 h3
    rw [hops, AL.get_set] at h1
    split at h1
    · cases h1; rw [hu] at h2; simp at h2
    · rw [hus]; exact U.fwd o d i u v h1 h2 h3
  · intro v u hm
    obtain ⟨d0, h0, h1, h2⟩ := U.bwd v u hm
    rw [hus]
    have : (s.use! u).1 ≠ k := fun e => by rw [e, hk] at h0; cases h0
    exact ⟨d0, by rw [hops, AL.get_set]; simp [this]; exact h0, h1, h2⟩

/-- rewriting the result list of an operation (registered or not) with values whose table entries
say that they are these results -/
theorem InvA.setResultsOf {s : IRStore} {a : Abs} (h : InvA s a) (o : Nat) (res : List Nat)
    (hres : ∀ j w, res[j]? = some w → AL.get s.vals w = some { kind := .result, owner := o, index := j }) :
    InvA (s.setOp o { s.op! o with results := res }) a := by
  cases hd : AL.get s.ops o with
  | some d =>
    have hop : s.op! o = d := by simp [IRStore.op!, hd]
    rw [hop]
    let d' : OpData := { d with results := res }
    have get' : ∀ o' d'', AL.get (AL.set s.ops o d') o' = some d'' →
        (o' = o ∧ d'' = d') ∨ (o' ≠ o ∧ AL.get s.ops o' = some d'') := by
      intro o' d'' h1
      rw [AL.get_set] at h1
      split at h1
      · cases h1; exact Or.inl ⟨by assumption, rfl⟩
      · exact Or.inr ⟨by assumption, h1⟩
    exact {
      opL := h.opL, blockL := h.blockL, vuseL := h.vuseL, buseL := h.buseL
      operandUses := h.operandUses.setOp_other (pos := (·.operands)) (uid := (·.operandUses)) (d' := d') hd rfl rfl rfl
        (fun _ _ => rfl) (Nat.le_refl _)
      successorUses := h.successorUses.setOp_other (pos := (·.successors)) (uid := (·.successorUses)) (d' := d') hd rfl rfl rfl
        (fun _ _ => rfl) (Nat.le_refl _)
      results := fun o' d'' i v h1 h2 => by
        rcases get' o' d'' h1 with ⟨rfl, rfl⟩ | ⟨_, h0⟩
        · exact hres i v h2
        · exact h.results o' d'' i v h0 h2
      args := h.args
      regions := fun o' d'' h1 => by
        rcases get' o' d'' h1 with ⟨rfl, rfl⟩ | ⟨_, h0⟩
        · exact h.regions o' d hd
        · exact h.regions o' d'' h0
      regionParent := fun r o' hp => by
        obtain ⟨d0, h0, hr⟩ := h.regionParent r o' hp
        by_cases ho : o' = o
        · subst ho; rw [hd] at h0; cases h0
          exact ⟨d', by show AL.get (AL.set s.ops o' d') o' = some d'; rw [AL.get_set]; simp, hr⟩
        · exact ⟨d0, by show AL.get (AL.set s.ops o d') o' = some d0; rw [AL.get_set]; simp [ho]; exact h0, hr⟩
      regOps := fun b x hx => by
        have := h.regOps b x hx
        refine ⟨?_, this.2⟩
        have h3 := this.1
        unfold IR.regO at *
        show (AL.get (AL.set s.ops o d') x).isSome
        rw [AL.get_set]; split <;> simp [h3]
      regBlocks := h.regBlocks }
  | none =>
    have hop : s.op! o = {} := by simp [IRStore.op!, hd]
    rw [hop]
    let d' : OpData := { ({} : OpData) with results := res }
    exact {
      opL := h.opL, blockL := h.blockL, vuseL := h.vuseL, buseL := h.buseL
      operandUses := h.operandUses.newEntry (pos := (·.operands)) (uid := (·.operandUses)) (d' := d') hd rfl rfl rfl rfl rfl
      successorUses := h.successorUses.newEntry (pos := (·.successors)) (uid := (·.successorUses)) (d' := d') hd rfl rfl rfl rfl rfl
      results := fun o' d'' i v h1 h2 => by
        change AL.get (AL.set s.ops o d') o' = some d'' at h1
        rw [AL.get_set] at h1
        split at h1
        · cases h1; subst_vars; exact hres i v h2
        · exact h.results o' d'' i v h1 h2
      args := h.args
      regions := fun o' d'' h1 => by
        change AL.get (AL.set s.ops o d') o' = some d'' at h1
        rw [AL.get_set] at h1
        split at h1
        · cases h1; simp [d']
        · exact h.regions o' d'' h1
      regionParent := fun r o' hp => by
        obtain ⟨d0, h0, hr⟩ := h.regionParent r o' hp
        have : o' ≠ o := fun e => by rw [e, hd] at h0; cases h0
        exact ⟨d0, by show AL.get (AL.set s.ops o d') o' = some d0; rw [AL.get_set]; simp [this]; exact h0, hr⟩
      regOps := fun b x hx => by
        have := h.regOps b x hx
        refine ⟨?_, this.2⟩
        have h3 := this.1
        unfold IR.regO at *
        show (AL.get (AL.set s.ops o d') x).isSome
        rw [AL.get_set]; split <;> simp [h3]
      regBlocks := h.regBlocks }

/-- the same for the argument list of a block -/
theorem InvA.setArgsOf {s : IRStore} {a : Abs} (h : InvA s a) (b : Nat) (args : List Nat)
    (hargs : ∀ j w, args[j]? = some w → AL.get s.vals w = some { kind := .arg, owner := b, index := j }) :
    InvA (s.setBlock b { args := args }) a := {
  opL := h.opL, blockL := h.blockL, vuseL := h.vuseL, buseL := h.buseL
  operandUses := ⟨h.operandUses.len, h.operandUses.fwd, h.operandUses.bwd, h.operandUses.lt⟩
  successorUses := ⟨h.successorUses.len, h.successorUses.fwd, h.successorUses.bwd, h.successorUses.lt⟩
  results := h.results
  args := fun b' d'' i v h1 h2 => by
    change AL.get (AL.set s.blocks b _) b' = some d'' at h1
    rw [AL.get_set] at h1
    split at h1
    · cases h1; subst_vars; exact hargs i v h2
    · exact h.args b' d'' i v h1 h2
  regions := h.regions
  regionParent := h.regionParent
  regOps := fun c o ho => by
    have := h.regOps c o ho
    refine ⟨this.1, ?_⟩
    have h3 := this.2
    unfold IR.regB at *
    show (AL.get (AL.set s.blocks b _) c).isSome
    rw [AL.get_set]; split <;> simp [h3]
  regBlocks := fun r x hx => by
    have := h.regBlocks r x hx
    refine ⟨?_, this.2⟩
    have h3 := this.1
    unfold IR.regB at *
    show (AL.get (AL.set s.blocks b _) x).isSome
    rw [AL.get_set]; split <;> simp [h3] }

theorem Inv.replaceValueWithNewType {s s' : IRStore} (h : Inv s) {v nv : Nat} (hnv : s.freshV nv = true)
    (hok : s.replaceValueWithNewType v nv = .ok s') : Inv s' := by
  obtain ⟨a, ha⟩ := h
  have hfresh := freshV_not_reg hnv
  have ne_nv : ∀ w dv, AL.get s.vals w = some dv → w ≠ nv := fun w dv hw e => by
    rw [e, hfresh] at hw; cases hw
  unfold IRStore.replaceValueWithNewType at hok
  dsimp only at hok
  split at hok
  · simp at hok
  · -- an operation result
    simp only [bind_eq_ok_iff, pure_eq_ok_iff] at hok
    obtain ⟨t, ht, rfl⟩ := hok
    have h1 := ha.setVal_fresh hfresh { kind := .result, owner := (s.val! v).owner, index := (s.val! v).index }
    have hopeq : (s.setVal nv { kind := .result, owner := (s.val! v).owner, index := (s.val! v).index }).op! (s.val! v).owner
        = s.op! (s.val! v).owner := rfl
    have h2 := h1.setResultsOf (s.val! v).owner ((s.op! (s.val! v).owner).results.set (s.val! v).index nv)
      (fun j w hw => by
        show AL.get (AL.set s.vals nv _) w = _
        rw [AL.get_set]
        by_cases hj : j = (s.val! v).index
        · subst hj
          have hlt : (s.val! v).index < (s.op! (s.val! v).owner).results.length := by
            have := (List.getElem?_eq_some_iff.mp hw).1; simpa using this
          rw [List.getElem?_set_self hlt] at hw
          cases hw; simp
        · rw [List.getElem?_set_ne (fun e => hj e.symm)] at hw
          cases hd : AL.get s.ops (s.val! v).owner with
          | none => simp [IRStore.op!, hd] at hw
          | some d =>
            have : s.op! (s.val! v).owner = d := by simp [IRStore.op!, hd]
            rw [this] at hw
            have hv := ha.results _ d j w hd hw
            simp [ne_nv w _ hv, hv])
    rw [hopeq] at h2
    exact (Inv.replaceAllUsesWith ⟨a, h2⟩ ht).of_deadV _
  · -- a block argument
    simp only [bind_eq_ok_iff, pure_eq_ok_iff] at hok
    obtain ⟨t, ht, rfl⟩ := hok
    have h1 := ha.setVal_fresh hfresh { kind := .arg, owner := (s.val! v).owner, index := (s.val! v).index }
    have h2 := h1.setArgsOf (s.val! v).owner ((s.block! (s.val! v).owner).args.set (s.val! v).index nv)
      (fun j w hw => by
        show AL.get (AL.set s.vals nv _) w = _
        rw [AL.get_set]
        by_cases hj : j = (s.val! v).index
        · subst hj
          have hlt : (s.val! v).index < (s.block! (s.val! v).owner).args.length := by
            have := (List.getElem?_eq_some_iff.mp hw).1; simpa using this
          rw [List.getElem?_set_self hlt] at hw
          cases hw; simp
        · rw [List.getElem?_set_ne (fun e => hj e.symm)] at hw
          cases hd : AL.get s.blocks (s.val! v).owner with
          | none => simp [IRStore.block!, hd] at hw
          | some d =>
            have : s.block! (s.val! v).owner = d := by simp [IRStore.block!, hd]
            rw [this] at hw
            have hv := ha.args _ d j w hd hw
            simp [ne_nv w _ hv, hv])
    exact (Inv.replaceAllUsesWith ⟨a, h2⟩ ht).of_deadV _

end Xdsl.IR
