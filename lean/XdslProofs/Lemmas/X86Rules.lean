import XdslProofs.Lemmas.X86Frame
import XdslModel.X86Rules
/-!
Helper definitions and lemmas for `XdslProofs/C21Rules.lean`: the extended machine (`xexec`), frame
predicates, the entry-sequence invariant, facts of the canonicalization rules and their meaning in a
machine state.
-/
namespace Xdsl.X86.Lower
open Xdsl.X86

/-! ## the extended machine -/

@[simp] theorem xexec_nil (σ : St) : xexec [] σ = σ := rfl
@[simp] theorem xexec_cons (i : XInstr) (l : List XInstr) (σ : St) :
    xexec (i :: l) σ = xexec l (xstep i σ) := rfl
@[simp] theorem xstep_base (i : Instr) (σ : St) : xstep (.base i) σ = step i σ := rfl

theorem xexec_lift (l : List Instr) (σ : St) : xexec (lift l) σ = exec l σ := by
  induction l generalizing σ with
  | nil => rfl
  | cons i l ih => simp [lift, exec] at ih ⊢; exact ih _

theorem St.ext' {σ₁ σ₂ : St} (hr : ∀ r, σ₁.reg r = σ₂.reg r) (hm : ∀ a, σ₁.mem a = σ₂.mem a) : σ₁ = σ₂ := by
  cases σ₁; cases σ₂
  simp only [St.mk.injEq]
  exact ⟨funext hr, funext hm⟩

/-- frame: nothing but register `t` differs between `σ` and `σ'` -/
def OnlyReg (t : Nat) (σ σ' : St) : Prop := σ'.mem = σ.mem ∧ ∀ r, r ≠ t → σ'.reg r = σ.reg r

/-- a register class is as wide as the integer type it serves -/
theorem regSz_int_bits {w : Nat} {sz : Sz} (h : regSz (.int w) = some sz) : sz.bits = w := by
  simp only [regSz] at h
  repeat' split at h
  all_goals first | (cases h; simp_all [Sz.bits]; done) | (cases h; done)

theorem regSz_index : regSz .index = some .q := rfl
theorem regSz_ptr : regSz .ptr = some .q := rfl


/-- what register allocation owes the entry sequence `entryFrom i l`: a new register is not `rsp`,
not an argument register that is still to be read, and not reused by a later parameter -/
def EntryOk (i : Nat) : List (Sz × Nat) → Prop
  | [] => True
  | (_, t) :: r =>
    t ≠ RSP ∧ (∀ j, i < j → j < 6 → t ≠ argReg j) ∧ (∀ p ∈ r, p.2 ≠ t) ∧ EntryOk (i + 1) r

theorem argReg_lt (j : Nat) : argReg j < 16 := by
  unfold argReg; split <;> decide

/-- before register allocation the new registers are distinct SSA values (numbers ≥ 16): the
precondition holds -/
theorem entryOk_virtual (l : List (Sz × Nat)) : ∀ i, (∀ p ∈ l, 16 ≤ p.2) → (l.map (·.2)).Nodup → EntryOk i l := by
  induction l with
  | nil => intro _ _ _; trivial
  | cons hd r ih =>
    intro i hv hn
    obtain ⟨sz, t⟩ := hd
    simp only [List.map_cons, List.nodup_cons, List.mem_map, not_exists, not_and] at hn
    have ht : 16 ≤ t := hv (sz, t) (by simp)
    refine ⟨?_, ?_, ?_, ih (i + 1) (fun p hp => hv p (by simp [hp])) hn.2⟩
    · simp only [RSP]; omega
    · intro j _ _ e
      have := argReg_lt j
      omega
    · intro p hp e
      exact hn.1 p hp e

theorem argOf_setReg (σ : St) (t : Nat) (v : W) (i j : Nat) (hij : i < j) (hsp : t ≠ RSP)
    (harg : ∀ j, i < j → j < 6 → t ≠ argReg j) : argOf (setReg σ t v) j = argOf σ j := by
  unfold argOf
  split
  · next hj =>
    have := harg j hij hj
    simp [setReg_reg, Ne.symm this]
  · simp [setReg_reg, Ne.symm hsp]

theorem step_argInstr (i : Nat) (sz : Sz) (t : Nat) (σ : St) :
    step (argInstr i sz t) σ = setReg σ t (wr sz (σ.reg t) (argOf σ i)) := by
  unfold argInstr argOf
  split
  · rfl
  · simp only [step, addr, BitVec.ofInt_natCast]

/-- the entry sequence from parameter `i` on: every parameter reaches its register at its width,
memory and all other registers are untouched -/
theorem entryFrom_sound (l : List (Sz × Nat)) : ∀ (i : Nat) (σ : St), EntryOk i l →
    (∀ (k : Nat) (p : Sz × Nat), l[k]? = some p →
        trunc p.1 ((exec (entryFrom i l) σ).reg p.2) = trunc p.1 (argOf σ (i + k))) ∧
    (exec (entryFrom i l) σ).mem = σ.mem ∧
    (∀ r, (∀ p ∈ l, p.2 ≠ r) → (exec (entryFrom i l) σ).reg r = σ.reg r) := by
  induction l with
  | nil => intro i σ _; simp [entryFrom, exec]
  | cons hd r ih =>
    intro i σ hok
    obtain ⟨sz, t⟩ := hd
    obtain ⟨hsp, harg, hfresh, hrest⟩ := hok
    have hstep := step_argInstr i sz t σ
    obtain ⟨ihv, ihm, ihr⟩ := ih (i + 1) (step (argInstr i sz t) σ) hrest
    simp only [entryFrom, exec_cons]
    refine ⟨?_, ?_, ?_⟩
    · intro k p hk
      cases k with
      | zero =>
        simp only [List.getElem?_cons_zero, Option.some.injEq] at hk
        subst hk
        rw [ihr t (fun p hp => hfresh p hp), hstep]
        simp [trunc_wr]
      | succ k =>
        simp only [List.getElem?_cons_succ] at hk
        rw [ihv k p hk, hstep, argOf_setReg σ t _ i (i + 1 + k) (by omega) hsp harg]
        congr 2; omega
    · rw [ihm, hstep]; rfl
    · intro x hx
      have hxt : x ≠ t := fun e => hx (sz, t) (by simp) e.symm
      rw [ihr x (fun p hp => hx p (by simp [hp])), hstep]
      simp [hxt]


theorem maddr_zero (σ : St) (b : Nat) : maddr σ b 0 = σ.reg b := by simp [maddr]


theorem trunc_mwr (sz : Sz) (old v : W) : trunc sz (mwr sz old v) = trunc sz v := by
  cases sz
  · rfl
  all_goals (simp only [trunc, mwr, Sz.bits]; bv_omega)

theorem mwr_self (sz : Sz) (old : W) : mwr sz old old = old := by
  cases sz
  · rfl
  all_goals (simp only [mwr]; bv_omega)


/-- operand size of an instruction (`q` for those without) -/
def XInstr.size : XInstr → Sz
  | .base (.mov sz _ _) => sz
  | .base (.movi sz _ _) => sz
  | .base (.load sz _ _) => sz
  | .base (.alu _ sz _ _) => sz
  | .ldm sz _ _ _ => sz
  | .stm sz _ _ _ => sz
  | _ => .q

/-- the register an instruction writes at its operand size -/
def XInstr.dst : XInstr → Option Nat
  | .base (.mov _ d _) => some d
  | .base (.movi _ d _) => some d
  | .base (.load _ d _) => some d
  | .base (.alu _ _ d _) => some d
  | .ldm _ d _ _ => some d
  | _ => none

/-- a fact read off the defining operations is true of the machine state (constants at operand size
`sz`) -/
def Fact.Holds (sz : Sz) (σ : St) : Fact → Prop
  | .const r c => trunc sz (σ.reg r) = BitVec.ofInt sz.bits c
  | .movAdd m b c => σ.reg m = σ.reg b + BitVec.ofInt 64 c

/-- the two states agree on memory and on every register, except that register `d` is only compared
at operand size `sz` -/
def EqUpTo (sz : Sz) (d : Option Nat) (σ₁ σ₂ : St) : Prop :=
  σ₁.mem = σ₂.mem ∧ ∀ r, if some r = d then trunc sz (σ₁.reg r) = trunc sz (σ₂.reg r) else σ₁.reg r = σ₂.reg r

theorem EqUpTo.of_eq {sz : Sz} {d : Option Nat} {σ₁ σ₂ : St} (h : σ₁ = σ₂) : EqUpTo sz d σ₁ σ₂ := by
  subst h
  exact ⟨rfl, fun r => by split <;> rfl⟩

theorem constOf_holds {fs : List Fact} {sz : Sz} {σ : St} (hf : ∀ f ∈ fs, f.Holds sz σ) {r : Nat} {c : Int}
    (h : constOf fs r = some c) : trunc sz (σ.reg r) = BitVec.ofInt sz.bits c := by
  induction fs with
  | nil => cases h
  | cons f fs ih =>
    cases f with
    | const r' c' =>
      simp only [constOf] at h
      split at h
      · next e =>
        cases h
        subst e
        exact hf _ List.mem_cons_self
      · exact ih (fun g hg => hf g (by simp [hg])) h
    | movAdd m b c' =>
      simp only [constOf] at h
      exact ih (fun g hg => hf g (by simp [hg])) h

theorem movAddOf_holds {fs : List Fact} {sz : Sz} {σ : St} (hf : ∀ f ∈ fs, f.Holds sz σ) {m b : Nat} {c : Int}
    (h : movAddOf fs m = some (b, c)) : σ.reg m = σ.reg b + BitVec.ofInt 64 c := by
  induction fs with
  | nil => cases h
  | cons f fs ih =>
    cases f with
    | const r' c' =>
      simp only [movAddOf] at h
      exact ih (fun g hg => hf g (by simp [hg])) h
    | movAdd m' b' c' =>
      simp only [movAddOf] at h
      split at h
      · next e =>
        cases h
        subst e
        exact hf _ List.mem_cons_self
      · exact ih (fun g hg => hf g (by simp [hg])) h

theorem wr_self (sz : Sz) (hd : sz ≠ .d) (old : W) : wr sz old old = old := by
  cases sz
  · rfl
  · exact absurd rfl hd
  all_goals (simp only [wr]; bv_omega)

theorem setReg_self (σ : St) (r : Nat) : setReg σ r (σ.reg r) = σ := by
  apply St.ext'
  · intro x; simp only [setReg_reg]; split <;> simp_all
  · intro a; rfl


theorem maddr_fold (σ : St) (m b : Nat) (c k : Int) (h : σ.reg m = σ.reg b + BitVec.ofInt 64 c) :
    maddr σ b (k + c) = maddr σ m k := by
  simp only [maddr, h, BitVec.ofInt_add]
  ac_rfl


theorem lookupCanon_mem {name : String} {tbl : List (String × (List Fact → XInstr → Option (List XInstr)))}
    {f : List Fact → XInstr → Option (List XInstr)} (h : lookupCanon name tbl = some f) : (name, f) ∈ tbl := by
  induction tbl with
  | nil => cases h
  | cons e rest ih =>
    obtain ⟨n, g⟩ := e
    simp only [lookupCanon] at h
    split at h
    · next e' => cases h; subst e'; simp
    · simp [ih h]


/-! ### whole functions: `lowerBody` -/

/-- value of the register of an SSA value at the width of the function -/
def rd (sz : Sz) (σ : St) (r : Nat) : BitVec sz.bits := trunc sz (σ.reg r)

theorem constCode_spec (sz : Sz) (t : Nat) (c : Int) (σ : St) :
    (exec (constCode sz t c) σ).mem = σ.mem ∧
    (∀ r, r ≠ t → (exec (constCode sz t c) σ).reg r = σ.reg r) ∧
    rd sz (exec (constCode sz t c) σ) t = BitVec.ofInt sz.bits c := by
  refine ⟨rfl, ?_, ?_⟩
  · intro r hr; simp [constCode, step, hr]
  · simp [rd, constCode, step, trunc_wr, trunc_ofInt]

theorem trunc_aluOp (op : Alu) (sz : Sz) (a a' b : W) (h : trunc sz a = trunc sz a') :
    trunc sz (aluOp op a b) = trunc sz (aluOp op a' b) := by
  cases op
  · simp only [aluOp, trunc_add, h]
  · simp only [aluOp, trunc_sub, h]
  · simp only [aluOp, trunc_mul, h]
  · simp only [aluOp, trunc, BitVec.setWidth_and] at h ⊢; rw [h]
  · simp only [aluOp, trunc, BitVec.setWidth_or] at h ⊢; rw [h]
  · simp only [aluOp, trunc, BitVec.setWidth_xor] at h ⊢; rw [h]

theorem binCode_spec (op : Alu) (sz : Sz) (t lhs rhs : Nat) (σ : St) (ht : t ≠ lhs) :
    (exec (binCode op sz t lhs rhs) σ).mem = σ.mem ∧
    (∀ r, r ≠ t → (exec (binCode op sz t lhs rhs) σ).reg r = σ.reg r) ∧
    rd sz (exec (binCode op sz t lhs rhs) σ) t = trunc sz (aluOp op (σ.reg rhs) (σ.reg lhs)) := by
  have hl : lhs ≠ t := fun e => ht e.symm
  refine ⟨rfl, ?_, ?_⟩
  · intro r hr; simp [binCode, step, hr]
  · simp only [rd, binCode, exec_cons, exec_nil, step, setReg_reg, if_true, if_neg hl, trunc_wr]
    exact trunc_aluOp op sz _ _ _ (trunc_wr sz _ _)

theorem entryFrom_no_ret (l : List (Sz × Nat)) : ∀ i, ∀ x ∈ entryFrom i l, x ≠ Instr.ret := by
  induction l with
  | nil => intro i x hx; cases hx
  | cons hd r ih =>
    intro i x hx
    obtain ⟨sz, t⟩ := hd
    simp only [entryFrom, List.mem_cons] at hx
    rcases hx with rfl | hx
    · unfold argInstr; split <;> simp
    · exact ih _ x hx

theorem map_rd_congr (sz : Sz) (σ σ' : St) (regs : List Nat) (h : ∀ r ∈ regs, σ'.reg r = σ.reg r) :
    regs.map (rd sz σ') = regs.map (rd sz σ) :=
  List.map_congr_left fun r hr => by simp [rd, h r hr]

/-- the body of a function: every operation's new register receives the MLIR value of the operation,
registers below `next` (all earlier values, all physical registers) and memory are untouched -/
theorem lowerBody_sound (sz : Sz) (ops : List SOp) :
    ∀ (next : Nat) (regs : List Nat) (code : List Instr) (regs' : List Nat) (σ : St),
      lowerBody sz next regs ops = some (code, regs') → (∀ r ∈ regs, r < next) →
      evalOps ops (regs.map (rd sz σ)) = some (regs'.map (rd sz (exec code σ))) ∧
      (exec code σ).mem = σ.mem ∧ (∀ r, r < next → (exec code σ).reg r = σ.reg r) ∧
      (∀ i ∈ code, i ≠ Instr.ret) := by
  induction ops with
  | nil =>
    intro next regs code regs' σ h _
    simp only [lowerBody, Option.some.injEq, Prod.mk.injEq] at h
    obtain ⟨rfl, rfl⟩ := h
    exact ⟨rfl, rfl, fun _ _ => rfl, fun i hi => by cases hi⟩
  | cons op rest ih =>
    intro next regs code regs' σ h hlt
    have hlt' : ∀ r ∈ regs ++ [next], r < next + 1 := by
      intro r hr
      simp only [List.mem_append, List.mem_singleton] at hr
      rcases hr with hr | rfl
      · exact Nat.lt_succ_of_lt (hlt r hr)
      · exact Nat.lt_succ_self _
    cases op with
    | const c =>
      simp only [lowerBody] at h
      split at h
      · split at h
        · next code1 regs1 hrec =>
          simp only [Option.some.injEq, Prod.mk.injEq] at h
          obtain ⟨rfl, rfl⟩ := h
          obtain ⟨hm, hr, hv⟩ := constCode_spec sz next c σ
          obtain ⟨ie, im, ir, inr⟩ := ih (next + 1) (regs ++ [next]) code1 regs1 (exec (constCode sz next c) σ) hrec hlt'
          refine ⟨?_, ?_, ?_, ?_⟩
          · rw [exec_append, ← ie]
            simp only [evalOps, List.map_append, List.map_cons, List.map_nil, hv]
            rw [map_rd_congr sz σ _ regs (fun r hr' => hr r (Nat.ne_of_lt (hlt r hr')))]
          · rw [exec_append, im, hm]
          · intro r hr'
            rw [exec_append, ir r (Nat.lt_succ_of_lt hr'), hr r (Nat.ne_of_lt hr')]
          · intro i hi
            simp only [List.mem_append] at hi
            rcases hi with hi | hi
            · simp only [constCode, List.mem_singleton] at hi; subst hi; simp
            · exact inr i hi
        · cases h
      · cases h
    | add a b =>
      simp only [lowerBody] at h
      split at h
      · next ra rb ha hb =>
        split at h
        · next code1 regs1 hrec =>
          simp only [Option.some.injEq, Prod.mk.injEq] at h
          obtain ⟨rfl, rfl⟩ := h
          have hra : ra < next := hlt ra (List.mem_of_getElem? ha)
          obtain ⟨hm, hr, hv⟩ := binCode_spec .add sz next ra rb σ (Nat.ne_of_gt hra)
          obtain ⟨ie, im, ir, inr⟩ := ih (next + 1) (regs ++ [next]) code1 regs1 (exec (binCode .add sz next ra rb) σ) hrec hlt'
          refine ⟨?_, ?_, ?_, ?_⟩
          · rw [exec_append, ← ie]
            simp only [evalOps, List.getElem?_map, ha, hb, Option.map_some, List.map_append, List.map_cons,
              List.map_nil, hv]
            rw [map_rd_congr sz σ _ regs (fun r hr' => hr r (Nat.ne_of_lt (hlt r hr')))]
            simp [rd, aluOp, trunc_add, BitVec.add_comm]
          · rw [exec_append, im, hm]
          · intro r hr'
            rw [exec_append, ir r (Nat.lt_succ_of_lt hr'), hr r (Nat.ne_of_lt hr')]
          · intro i hi
            simp only [List.mem_append] at hi
            rcases hi with hi | hi
            · simp only [binCode, List.mem_cons, List.not_mem_nil, or_false] at hi
              rcases hi with rfl | rfl <;> simp
            · exact inr i hi
        · cases h
      · cases h
    | mul a b =>
      simp only [lowerBody] at h
      split at h
      · cases h
      · split at h
        · next ra rb ha hb =>
          split at h
          · next code1 regs1 hrec =>
            simp only [Option.some.injEq, Prod.mk.injEq] at h
            obtain ⟨rfl, rfl⟩ := h
            have hra : ra < next := hlt ra (List.mem_of_getElem? ha)
            obtain ⟨hm, hr, hv⟩ := binCode_spec .imul sz next ra rb σ (Nat.ne_of_gt hra)
            obtain ⟨ie, im, ir, inr⟩ := ih (next + 1) (regs ++ [next]) code1 regs1 (exec (binCode .imul sz next ra rb) σ) hrec hlt'
            refine ⟨?_, ?_, ?_, ?_⟩
            · rw [exec_append, ← ie]
              simp only [evalOps, List.getElem?_map, ha, hb, Option.map_some, List.map_append, List.map_cons,
                List.map_nil, hv]
              rw [map_rd_congr sz σ _ regs (fun r hr' => hr r (Nat.ne_of_lt (hlt r hr')))]
              simp [rd, aluOp, trunc_mul, BitVec.mul_comm]
            · rw [exec_append, im, hm]
            · intro r hr'
              rw [exec_append, ir r (Nat.lt_succ_of_lt hr'), hr r (Nat.ne_of_lt hr')]
            · intro i hi
              simp only [List.mem_append] at hi
              rcases hi with hi | hi
              · simp only [binCode, List.mem_cons, List.not_mem_nil, or_false] at hi
                rcases hi with rfl | rfl <;> simp
              · exact inr i hi
          · cases h
        · cases h

end Xdsl.X86.Lower
