import XdslProofs.Lemmas.EGraphSem
/-!
Every graph transformation of the model keeps a consistent e-graph consistent and keeps the values
of the roots (C28): `extract` (every branch, the re-ordering included), `addCosts`, `mergeInto`,
`createEclasses` (with an extended valuation), node insertion.  No Mathlib.
-/
namespace Xdsl.EGraph

variable {V : Type}

/-- the pair "consistent with `ρ`" + "roots have the same values as those of `g0`" that every step
of the pipeline preserves -/
def Keeps (I : Interp V) (env : List V) (ρ : Nat → V) (g g' : Prog) : Prop :=
  Consistent I g' env ρ ∧ g'.ret.map ρ = g.ret.map ρ

theorem Keeps.refl (I : Interp V) {env : List V} {ρ : Nat → V} {g : Prog} (h : Consistent I g env ρ) :
    Keeps I env ρ g g := ⟨h, rfl⟩

theorem Keeps.trans (I : Interp V) {env : List V} {ρ : Nat → V} {g g' g'' : Prog}
    (h : Keeps I env ρ g g') (h' : Keeps I env ρ g' g'') : Keeps I env ρ g g'' :=
  ⟨h'.1, h'.2.trans h.2⟩

/-! ## `eqsat-extract` -/

theorem eraseDef_keeps (I : Interp V) {env : List V} {ρ : Nat → V} {g g' : Prog} {v : Nat}
    (hc : Consistent I g env ρ) (he : eraseDef g v = some g') : Keeps I env ρ g g' := by
  unfold eraseDef at he
  split at he
  · cases he
  · simp at he; subst he
    exact ⟨filter_consistent I _ hc, rfl⟩

theorem eraseDefs_keeps (I : Interp V) {env : List V} {ρ : Nat → V} :
    ∀ (vs : List Nat) (g g' : Prog), Consistent I g env ρ → eraseDefs g vs = some g' → Keeps I env ρ g g' := by
  intro vs
  induction vs with
  | nil => intro g g' hc he; simp [eraseDefs] at he; subst he; exact Keeps.refl I hc
  | cons v vs ih =>
    intro g g' hc he
    simp only [eraseDefs, List.foldlM_cons] at he
    cases h1 : eraseDef g v with
    | none => simp [h1] at he
    | some g1 =>
      simp [h1] at he
      have k1 := eraseDef_keeps I hc h1
      exact k1.trans I (ih g1 g' k1.1 he)

theorem findDef_mem {body : List Node} {v : Nat} {n : Node} (h : findDef body v = some n) :
    n ∈ body ∧ n.res = v := by
  unfold findDef at h
  exact ⟨List.mem_of_find?_eq_some h, by simpa using List.find?_some h⟩

theorem clearCost_sameSem (v : Nat) (n : Node) :
    n.sameSem (match n with
      | .op r nm k a c => if r = v then .op r nm k a none else .op r nm k a c
      | n => n) := by
  cases n with
  | op r nm k a c => simp only; split <;> simp [Node.sameSem]
  | cls r a m => simp [Node.sameSem]

theorem extractStep_keeps (I : Interp V) {env : List V} {ρ : Nat → V} {g g' : Prog} {c : Nat}
    (hc : Consistent I g env ρ) (he : extractStep g c = some g') : Keeps I env ρ g g' := by
  unfold extractStep at he
  split at he
  · rename_i r args mci hf
    obtain ⟨hmem, hres⟩ := findDef_mem hf
    simp only [Node.res] at hres
    subst hres
    split at he
    · exact eraseDefs_keeps I _ g g' hc he
    · split at he
      · rename_i i
        split at he
        · cases he
        · rename_i m hm
          have hsat := hc.nodes _ hmem
          simp only [Node.Sat] at hsat
          have hρ : ρ r = ρ m := (hsat m (List.mem_of_getElem? hm)).symm
          obtain ⟨h1, h1r⟩ := replUsesExcept_consistent I (some r) hc hρ
          dsimp only at he
          split at he
          · rename_i g2 h2
            simp at he; subst he
            have k2 := eraseDefs_keeps I _ _ g2 h1 h2
            refine ⟨?_, k2.2.trans h1r⟩
            exact map_sameSem_consistent I _ (clearCost_sameSem m) k2.1
          · cases he
      · simp at he; subst he; exact Keeps.refl I hc
  · cases he

theorem foldlM_extractStep_keeps (I : Interp V) {env : List V} {ρ : Nat → V} :
    ∀ (cs : List Nat) (g g' : Prog), Consistent I g env ρ → cs.foldlM extractStep g = some g' →
      Keeps I env ρ g g' := by
  intro cs
  induction cs with
  | nil => intro g g' hc he; simp at he; subst he; exact Keeps.refl I hc
  | cons c cs ih =>
    intro g g' hc he
    simp only [List.foldlM_cons] at he
    cases h1 : extractStep g c with
    | none => simp [h1] at he
    | some g1 =>
      simp [h1] at he
      have k1 := extractStep_keeps I hc h1
      exact k1.trans I (ih g1 g' k1.1 he)

theorem mem_topoSort {body : List Node} {n : Node} (h : n ∈ topoSort body) : n ∈ body := by
  unfold topoSort at h
  split at h
  · exact h
  · simp only [List.mem_filterMap] at h
    obtain ⟨v, _, hv⟩ := h
    exact (findDef_mem hv).1

theorem extract_keeps (I : Interp V) {env : List V} {ρ : Nat → V} {g g' : Prog}
    (hc : Consistent I g env ρ) (he : extract g = some g') : Keeps I env ρ g g' := by
  unfold extract at he
  cases h1 : extractLoop g with
  | none => simp [h1] at he
  | some g1 =>
    simp [h1] at he; subst he
    have k1 := foldlM_extractStep_keeps I _ g g1 hc h1
    exact ⟨⟨k1.1.len, k1.1.args, fun n hn => k1.1.nodes n (mem_topoSort hn)⟩, k1.2⟩

/-! ## `eqsat-add-costs` -/

theorem addCosts_keeps (I : Interp V) {env : List V} {ρ : Nat → V} {g : Prog} (d : Option Nat)
    (dict : AL String Nat) (hc : Consistent I g env ρ) : Keeps I env ρ g (addCosts d dict g) := by
  unfold addCosts addCostsFuel
  simp only
  refine ⟨?_, rfl⟩
  have h1 : Consistent I { g with body := assignBaseCosts d dict g.body } env ρ := by
    apply map_sameSem_consistent I _ _ hc
    intro n
    cases n with
    | op r nm k a c => cases c <;> simp [Node.sameSem]
    | cls r a m => simp [Node.sameSem]
  apply map_sameSem_consistent I _ _ h1
  intro n
  cases n with
  | op r nm k a c => simp [Node.sameSem]
  | cls r a m => simp [Node.sameSem]

/-! ## merging two e-classes -/

theorem mem_dedup {x : Nat} : ∀ {l : List Nat}, x ∈ dedup l → x ∈ l
  | [], h => by simp [dedup] at h
  | a :: l, h => by
    simp only [dedup, List.mem_cons, List.mem_filter] at h
    rcases h with h | ⟨h, _⟩
    · simp [h]
    · exact List.mem_cons_of_mem _ (mem_dedup h)

/-- **merging keeps consistency**: if the two classes have the same value, the graph after
`eclass_union` (operands united, uses redirected, replaced class erased) is consistent with the same
valuation and its roots have the same values -/
theorem mergeInto_keeps (I : Interp V) {env : List V} {ρ : Nat → V} {g : Prog} {keep repl : Nat}
    (hc : Consistent I g env ρ) (h : ρ keep = ρ repl) : Keeps I env ρ g (mergeInto g keep repl) := by
  unfold mergeInto
  split
  · rename_i kr ka km rr ra rm hk hr
    obtain ⟨hkm, hkr⟩ := findDef_mem hk
    obtain ⟨hrm, hrr⟩ := findDef_mem hr
    simp only [Node.res] at hkr hrr
    subst hkr hrr
    have h1 : Consistent I { g with body := g.body.map fun n => if n.res = kr then .cls kr (dedup (ka ++ ra)) km else n } env ρ := by
      refine ⟨hc.len, hc.args, ?_⟩
      intro n hn
      simp only [List.mem_map] at hn
      obtain ⟨m, hm, e⟩ := hn
      subst e
      split
      · simp only [Node.Sat]
        intro x hx
        have hx' := mem_dedup hx
        simp only [List.mem_append] at hx'
        have sk := hc.nodes _ hkm
        have sr := hc.nodes _ hrm
        simp only [Node.Sat] at sk sr
        rcases hx' with hx' | hx'
        · exact sk x hx'
        · rw [sr x hx', h]
      · exact hc.nodes m hm
    obtain ⟨h2, h2r⟩ := replUsesExcept_consistent I none h1 h.symm
    exact ⟨filter_consistent I _ h2, h2r⟩
  · exact Keeps.refl I hc

/-! ## valuations that differ on fresh ids only -/

theorem Sat_congr (I : Interp V) {ρ ρ' : Nat → V} {n : Node}
    (h : ∀ x, x = n.res ∨ x ∈ n.args → ρ' x = ρ x) (hs : n.Sat I ρ) : n.Sat I ρ' := by
  cases n with
  | op r nm k a c =>
    simp only [Node.Sat, Node.res, Node.args] at *
    rw [h r (Or.inl rfl), hs]
    congr 1
    apply List.map_congr_left
    intro x hx
    exact (h x (Or.inr hx)).symm
  | cls r a m =>
    simp only [Node.Sat, Node.res, Node.args] at *
    intro x hx
    rw [h x (Or.inr hx), h r (Or.inl rfl)]
    exact hs x hx

/-- every id of the program is below `b` (so `b`, `b+1`, … are fresh) -/
structure Below (g : Prog) (b : Nat) : Prop where
  nargs : g.nargs ≤ b
  res : ∀ n ∈ g.body, n.res < b
  args : ∀ n ∈ g.body, ∀ a ∈ n.args, a < b
  ret : ∀ x ∈ g.ret, x < b

theorem Below.mono {g : Prog} {b b' : Nat} (h : Below g b) (hb : b ≤ b') : Below g b' :=
  ⟨Nat.le_trans h.nargs hb, fun n hn => Nat.lt_of_lt_of_le (h.res n hn) hb,
   fun n hn a ha => Nat.lt_of_lt_of_le (h.args n hn a ha) hb, fun x hx => Nat.lt_of_lt_of_le (h.ret x hx) hb⟩

def upd (ρ : Nat → V) (c : Nat) (v : V) : Nat → V := fun x => if x = c then v else ρ x

theorem upd_of_lt (ρ : Nat → V) {c x : Nat} (v : V) (h : x < c) : upd ρ c v x = ρ x := by
  unfold upd; split
  · omega
  · rfl

theorem upd_self (ρ : Nat → V) (c : Nat) (v : V) : upd ρ c v c = v := by simp [upd]

theorem consistent_upd (I : Interp V) {env : List V} {ρ : Nat → V} {g : Prog} {c : Nat} (v : V)
    (hc : Consistent I g env ρ) (hb : Below g c) :
    Consistent I g env (upd ρ c v) ∧ g.ret.map (upd ρ c v) = g.ret.map ρ := by
  refine ⟨⟨hc.len, ?_, ?_⟩, ?_⟩
  · intro i hi
    rw [upd_of_lt ρ v (by have := hb.nargs; have := hc.len; omega)]
    exact hc.args i hi
  · intro n hn
    apply Sat_congr I _ (hc.nodes n hn)
    intro x hx
    rcases hx with rfl | hx
    · exact upd_of_lt ρ v (hb.res n hn)
    · exact upd_of_lt ρ v (hb.args n hn x hx)
  · apply List.map_congr_left
    intro x hx
    exact upd_of_lt ρ v (hb.ret x hx)

/-! ## `eqsat-create-eclasses` -/

theorem mem_insertAfter {r : Nat} {n m : Node} : ∀ {l : List Node}, m ∈ insertAfter r n l → m ∈ l ∨ m = n
  | [], h => by simp [insertAfter] at h
  | x :: l, h => by
    simp only [insertAfter] at h
    split at h
    · simp only [List.mem_cons] at h ⊢
      rcases h with h | h | h
      · exact Or.inl (Or.inl h)
      · exact Or.inr h
      · exact Or.inl (Or.inr h)
    · simp only [List.mem_cons] at h ⊢
      rcases h with h | h
      · exact Or.inl (Or.inl h)
      · rcases mem_insertAfter h with h | h
        · exact Or.inl (Or.inr h)
        · exact Or.inr h

theorem mapArgs_res (f : Nat → Nat) (n : Node) : (n.mapArgs f).res = n.res := by
  cases n <;> rfl

theorem mapArgs_args (f : Nat → Nat) (n : Node) : (n.mapArgs f).args = n.args.map f := by
  cases n <;> rfl

theorem lt_substId {old new x b : Nat} (hx : x < b) (hn : new < b) : substId old new x < b := by
  unfold substId; split <;> assumption

theorem Below_replUsesNonCls {g : Prog} {b old new : Nat} (h : Below g b) (hn : new < b) :
    Below (replUsesNonCls old new g) b := by
  refine ⟨h.nargs, ?_, ?_, ?_⟩
  · intro n hn'
    simp only [replUsesNonCls, List.mem_map] at hn'
    obtain ⟨m, hm, e⟩ := hn'
    subst e
    split
    · exact h.res m hm
    · rw [mapArgs_res]; exact h.res m hm
  · intro n hn' a ha
    simp only [replUsesNonCls, List.mem_map] at hn'
    obtain ⟨m, hm, e⟩ := hn'
    subst e
    split at ha
    · exact h.args m hm a ha
    · cases m with
      | op r nm k as c =>
        simp only [Node.mapArgs, Node.args, List.mem_map] at ha
        obtain ⟨y, hy, e⟩ := ha
        subst e
        exact lt_substId (h.args _ hm y hy) hn
      | cls r as mm =>
        simp only [Node.mapArgs, Node.args, List.mem_map] at ha
        obtain ⟨y, hy, e⟩ := ha
        subst e
        exact lt_substId (h.args _ hm y hy) hn
  · intro x hx
    simp only [replUsesNonCls, List.mem_map] at hx
    obtain ⟨y, hy, e⟩ := hx
    subst e
    exact lt_substId (h.ret y hy) hn

/-- wrapping the value `r` (op result or block argument) in the fresh class `c` -/
theorem wrap_keeps (I : Interp V) {env : List V} {ρ : Nat → V} {g : Prog} {r c : Nat}
    (body' : List Node) (hbody : ∀ m ∈ body', m ∈ g.body ∨ m = .cls c [r] none)
    (hc : Consistent I g env ρ) (hb : Below g c) (hr : r < c) :
    Keeps I env (upd ρ c (ρ r)) { g with ret := g.ret } (replUsesNonCls r c { g with body := body' })
    ∧ Below (replUsesNonCls r c { g with body := body' }) (c + 1)
    ∧ g.ret.map (upd ρ c (ρ r)) = g.ret.map ρ := by
  obtain ⟨h1, h1r⟩ := consistent_upd I (ρ r) hc hb
  have hρ : upd ρ c (ρ r) r = upd ρ c (ρ r) c := by rw [upd_self, upd_of_lt ρ _ hr]
  have h2 : Consistent I { g with body := body' } env (upd ρ c (ρ r)) := by
    refine ⟨h1.len, h1.args, ?_⟩
    intro m hm
    rcases hbody m hm with hm | rfl
    · exact h1.nodes m hm
    · simp only [Node.Sat]
      intro x hx
      simp at hx; subst hx; exact hρ
  obtain ⟨h3, h3r⟩ := replUsesNonCls_consistent I h2 hρ
  refine ⟨⟨h3, h3r⟩, ?_, h1r⟩
  apply Below_replUsesNonCls _ (Nat.lt_succ_self c)
  refine ⟨Nat.le_succ_of_le hb.nargs, ?_, ?_, fun x hx => Nat.lt_succ_of_lt (hb.ret x hx)⟩
  · intro m hm
    rcases hbody m hm with hm | rfl
    · exact Nat.lt_succ_of_lt (hb.res m hm)
    · exact Nat.lt_succ_self c
  · intro m hm a ha
    rcases hbody m hm with hm | rfl
    · exact Nat.lt_succ_of_lt (hb.args m hm a ha)
    · simp [Node.args] at ha; subst ha; exact Nat.lt_succ_of_lt hr

theorem wrapOp_keeps (I : Interp V) {env : List V} {ρ : Nat → V} {g : Prog} {r c : Nat}
    (hc : Consistent I g env ρ) (hb : Below g c) (hr : r < c) :
    ∃ ρ', Consistent I (wrapOp g r c) env ρ' ∧ (wrapOp g r c).ret.map ρ' = g.ret.map ρ
      ∧ Below (wrapOp g r c) (c + 1) ∧ ∀ x, x < c → ρ' x = ρ x := by
  obtain ⟨k, b, e⟩ := wrap_keeps I (insertAfter r (.cls c [r] none) g.body)
    (fun m hm => mem_insertAfter hm) hc hb hr
  exact ⟨upd ρ c (ρ r), k.1, k.2.trans e, b, fun x hx => upd_of_lt ρ _ hx⟩

theorem wrapArg_keeps (I : Interp V) {env : List V} {ρ : Nat → V} {g : Prog} {a c : Nat}
    (hc : Consistent I g env ρ) (hb : Below g c) (hr : a < c) :
    ∃ ρ', Consistent I (wrapArg g a c) env ρ' ∧ (wrapArg g a c).ret.map ρ' = g.ret.map ρ
      ∧ Below (wrapArg g a c) (c + 1) ∧ ∀ x, x < c → ρ' x = ρ x := by
  obtain ⟨k, b, e⟩ := wrap_keeps I (.cls c [a] none :: g.body)
    (fun m hm => by simp only [List.mem_cons] at hm; rcases hm with h | h; exact Or.inr h; exact Or.inl h) hc hb hr
  exact ⟨upd ρ c (ρ a), k.1, k.2.trans e, b, fun x hx => upd_of_lt ρ _ hx⟩

/-- the two loops of `insert_eclass_ops`, for any wrapping function with the properties above -/
theorem fold_wrap_keeps (I : Interp V) {env : List V} (w : Prog → Nat → Nat → Prog)
    (hw : ∀ {ρ : Nat → V} {g : Prog} {r c : Nat}, Consistent I g env ρ → Below g c → r < c →
      ∃ ρ', Consistent I (w g r c) env ρ' ∧ (w g r c).ret.map ρ' = g.ret.map ρ
        ∧ Below (w g r c) (c + 1) ∧ ∀ x, x < c → ρ' x = ρ x)
    (base : Nat) :
    ∀ (l : List Nat) (k : Nat) (g : Prog) (ρ : Nat → V), Consistent I g env ρ → Below g (base + k) →
      (∀ r ∈ l, r < base) →
      ∃ ρ', Consistent I ((l.zipIdx k).foldl (fun g (rc : Nat × Nat) => w g rc.1 (base + rc.2)) g) env ρ'
        ∧ ((l.zipIdx k).foldl (fun g (rc : Nat × Nat) => w g rc.1 (base + rc.2)) g).ret.map ρ' = g.ret.map ρ
        ∧ Below ((l.zipIdx k).foldl (fun g (rc : Nat × Nat) => w g rc.1 (base + rc.2)) g) (base + k + l.length)
        ∧ ∀ x, x < base → ρ' x = ρ x := by
  intro l
  induction l with
  | nil => intro k g ρ hc hb _; exact ⟨ρ, by simpa using hc, by simp, by simpa using hb, fun _ _ => rfl⟩
  | cons r l ih =>
    intro k g ρ hc hb hl
    simp only [List.zipIdx_cons, List.foldl_cons]
    have hr : r < base + k := Nat.lt_of_lt_of_le (hl r (by simp)) (Nat.le_add_right _ _)
    obtain ⟨ρ1, c1, r1, b1, a1⟩ := hw hc hb hr
    obtain ⟨ρ2, c2, r2, b2, a2⟩ := ih (k + 1) (w g r (base + k)) ρ1 c1 (by rw [← Nat.add_assoc]; exact b1)
      (fun x hx => hl x (by simp [hx]))
    refine ⟨ρ2, c2, r2.trans r1, ?_, ?_⟩
    · have : base + (k + 1) + l.length = base + k + (r :: l).length := by simp; omega
      rw [← this]; exact b2
    · intro x hx
      rw [a2 x hx, a1 x (Nat.lt_of_lt_of_le hx (Nat.le_add_right _ _))]

theorem le_maxList {x : Nat} : ∀ {l : List Nat}, x ∈ l → x ≤ maxList l
  | [], h => by simp at h
  | a :: l, h => by
    simp only [List.mem_cons] at h
    simp only [maxList, List.foldr_cons]
    rcases h with rfl | h
    · exact Nat.le_max_left _ _
    · exact Nat.le_trans (le_maxList h) (Nat.le_max_right _ _)

theorem below_maxId (g : Prog) : Below g (maxId g + 1) := by
  unfold maxId
  refine ⟨?_, ?_, ?_, ?_⟩
  · exact Nat.le_succ_of_le (Nat.le_max_left _ _)
  · intro n hn
    have : max n.res (maxList n.args) ≤ maxList (g.body.map fun n => max n.res (maxList n.args)) :=
      le_maxList (List.mem_map.mpr ⟨n, hn, rfl⟩)
    have h1 := Nat.le_max_left n.res (maxList n.args)
    have h2 := Nat.le_max_left (maxList (g.body.map fun n => max n.res (maxList n.args))) (maxList g.ret)
    have h3 := Nat.le_max_right g.nargs (max (maxList (g.body.map fun n => max n.res (maxList n.args))) (maxList g.ret))
    omega
  · intro n hn a ha
    have : max n.res (maxList n.args) ≤ maxList (g.body.map fun n => max n.res (maxList n.args)) :=
      le_maxList (List.mem_map.mpr ⟨n, hn, rfl⟩)
    have h0 := le_maxList ha
    have h1 := Nat.le_max_right n.res (maxList n.args)
    have h2 := Nat.le_max_left (maxList (g.body.map fun n => max n.res (maxList n.args))) (maxList g.ret)
    have h3 := Nat.le_max_right g.nargs (max (maxList (g.body.map fun n => max n.res (maxList n.args))) (maxList g.ret))
    omega
  · intro x hx
    have h0 := le_maxList hx
    have h2 := Nat.le_max_right (maxList (g.body.map fun n => max n.res (maxList n.args))) (maxList g.ret)
    have h3 := Nat.le_max_right g.nargs (max (maxList (g.body.map fun n => max n.res (maxList n.args))) (maxList g.ret))
    omega

theorem createEclassesFrom_keeps (I : Interp V) {env : List V} {ρ : Nat → V} {g : Prog} {base : Nat}
    (hc : Consistent I g env ρ) (hb : Below g base) :
    ∃ ρ', Consistent I (createEclassesFrom base g) env ρ' ∧ (createEclassesFrom base g).ret.map ρ' = g.ret.map ρ
      ∧ ∀ x, x < base → ρ' x = ρ x := by
  unfold createEclassesFrom
  simp only
  obtain ⟨ρ1, c1, r1, b1, a1⟩ := fold_wrap_keeps I wrapOp (fun h1 h2 h3 => wrapOp_keeps I h1 h2 h3) base
    (g.body.map (·.res)) 0 g ρ hc (by simpa using hb)
    (fun r hr => by
      simp only [List.mem_map] at hr
      obtain ⟨n, hn, e⟩ := hr
      subst e
      exact hb.res n hn)
  have hn1 : ∀ (l : List (Nat × Nat)) (g : Prog),
      (l.foldl (fun g (rc : Nat × Nat) => wrapOp g rc.1 (base + rc.2)) g).nargs = g.nargs := by
    intro l
    induction l with
    | nil => intro g; rfl
    | cons x l ih => intro g; simp only [List.foldl_cons]; rw [ih]; rfl
  obtain ⟨ρ2, c2, r2, _, a2⟩ := fold_wrap_keeps I wrapArg (fun h1 h2 h3 => wrapArg_keeps I h1 h2 h3)
    (base + (g.body.map (·.res)).length) (List.range g.nargs) 0 _ ρ1 c1 (by simpa using b1)
    (fun r hr => by
      simp only [List.mem_range] at hr
      exact Nat.lt_of_lt_of_le hr (Nat.le_trans hb.nargs (Nat.le_add_right _ _)))
  simp only [List.length_map] at c2 r2 a2 ⊢
  refine ⟨ρ2, c2, r2.trans r1, ?_⟩
  intro x hx
  rw [a2 x (Nat.lt_of_lt_of_le hx (Nat.le_add_right _ _)), a1 x hx]

end Xdsl.EGraph

namespace Xdsl.EGraph
variable {V : Type}

/-! ## adding a node (rewrite right-hand sides) -/

theorem mem_insertBefore {root : Nat} {ns : List Node} {m : Node} :
    ∀ {l : List Node}, m ∈ insertBefore root ns l → m ∈ l ∨ m ∈ ns
  | [], h => by simp only [insertBefore] at h; exact Or.inr h
  | x :: l, h => by
    simp only [insertBefore] at h
    split at h
    · simp only [List.mem_append, List.mem_cons] at h ⊢
      rcases h with h | h | h
      · exact Or.inr h
      · exact Or.inl (Or.inl h)
      · exact Or.inl (Or.inr h)
    · simp only [List.mem_cons] at h ⊢
      rcases h with h | h
      · exact Or.inl (Or.inl h)
      · rcases mem_insertBefore h with h | h
        · exact Or.inl (Or.inr h)
        · exact Or.inr h

/-- **adding a node keeps consistency**: a new operation with fresh result id `r` and fresh class id
`c` extends the valuation by the operation's value on its operands' values -/
theorem addNode_keeps (I : Interp V) {env : List V} {ρ : Nat → V} {g : Prog} {root r c : Nat}
    (name key : String) (args : List Nat) (hc : Consistent I g env ρ) (hb : Below g r) (hrc : r < c)
    (ha : ∀ a ∈ args, a < r) :
    ∃ ρ', Consistent I (addNode g root r c name key args) env ρ'
      ∧ (addNode g root r c name key args).ret.map ρ' = g.ret.map ρ ∧ ∀ x, x < r → ρ' x = ρ x := by
  let v := I name key (args.map ρ)
  obtain ⟨h1, h1r⟩ := consistent_upd I v hc hb
  obtain ⟨h2, h2r⟩ := consistent_upd I v h1 (hb.mono (Nat.le_of_lt hrc))
  refine ⟨upd (upd ρ r v) c v, ⟨h2.len, h2.args, ?_⟩, h2r.trans h1r, ?_⟩
  · intro m hm
    rcases mem_insertBefore hm with hm | hm
    · exact h2.nodes m hm
    · simp only [List.mem_cons, List.not_mem_nil, or_false] at hm
      rcases hm with rfl | rfl
      · simp only [Node.Sat]
        rw [upd_of_lt _ _ hrc, upd_self]
        have : args.map (upd (upd ρ r v) c v) = args.map ρ := by
          apply List.map_congr_left
          intro x hx
          rw [upd_of_lt _ _ (Nat.lt_trans (ha x hx) hrc), upd_of_lt _ _ (ha x hx)]
        rw [this]
      · simp only [Node.Sat]
        intro x hx
        simp at hx; subst hx
        rw [upd_self, upd_of_lt _ _ hrc, upd_self]
  · intro x hx
    rw [upd_of_lt _ _ (Nat.lt_trans hx hrc), upd_of_lt _ _ hx]

/-! ## a well-formed SSA program is consistent with its own sequential run -/

/-- source programs: plain operations only, single assignment, results distinct from the arguments -/
structure WF (p : Prog) : Prop where
  noCls : ∀ n ∈ p.body, n.isCls = false
  nodup : (p.body.map (·.res)).Nodup
  fresh : ∀ n ∈ p.body, p.nargs ≤ n.res

def val [Inhabited V] (σ : Env V) : Nat → V := fun x => (σ x).getD default

theorem evalNodes_sat [Inhabited V] (I : Interp V) :
    ∀ (body : List Node) (σ0 σ : Env V), (∀ n ∈ body, n.isCls = false) → (body.map (·.res)).Nodup →
      (∀ n ∈ body, σ0 n.res = none) → evalNodes I body σ0 = some σ →
      (∀ x v, σ0 x = some v → σ x = some v) ∧ ∀ n ∈ body, n.Sat I (val σ) := by
  intro body
  induction body with
  | nil =>
    intro σ0 σ _ _ _ he
    simp [evalNodes] at he; subst he
    exact ⟨fun _ _ h => h, fun _ h => by simp at h⟩
  | cons n rest ih =>
    intro σ0 σ hcls hnd hfresh he
    simp only [evalNodes] at he
    cases hn : evalNode I σ0 n with
    | none => simp [hn] at he
    | some σ1 =>
      simp [hn] at he
      cases n with
      | cls r a m => have := hcls (.cls r a m) (by simp); simp [Node.isCls] at this
      | op r nm k a c =>
        simp only [evalNode] at hn
        cases ha : a.mapM σ0 with
        | none => simp [ha] at hn
        | some vs =>
          simp [ha] at hn
          subst hn
          simp only [List.map_cons, List.nodup_cons, List.mem_map, not_exists, not_and] at hnd
          have hr0 : σ0 r = none := hfresh (.op r nm k a c) (by simp)
          obtain ⟨hp, hs⟩ := ih (σ0.set r (I nm k vs)) σ (fun m hm => hcls m (by simp [hm])) hnd.2
            (fun m hm => by
              have hne : m.res ≠ r := fun e => hnd.1 m hm e
              simp only [Env.set, hne, if_false]
              exact hfresh m (by simp [hm])) he
          have hp0 : ∀ x v, σ0 x = some v → σ x = some v := by
            intro x v hx
            apply hp
            have hne : x ≠ r := fun e => by rw [e, hr0] at hx; cases hx
            simp only [Env.set, hne, if_false]; exact hx
          refine ⟨hp0, ?_⟩
          intro m hm
          simp only [List.mem_cons] at hm
          rcases hm with rfl | hm
          · simp only [Node.Sat]
            have hr : σ r = some (I nm k vs) := hp r _ (by simp [Env.set])
            have hvs : vs = a.map (val σ) := by
              apply mapM_agrees _ a vs ha
              intro x v hx
              simp [val, hp0 x v hx]
            simp only [val, hr, Option.getD_some]
            rw [hvs]
          · exact hs m hm

theorem evalSeq_consistent [Inhabited V] (I : Interp V) {p : Prog} {env : List V} {σ : Env V}
    (hw : WF p) (hl : env.length = p.nargs) (he : evalNodes I p.body (initEnv env) = some σ) :
    Consistent I p env (val σ) := by
  obtain ⟨hp, hs⟩ := evalNodes_sat I p.body (initEnv env) σ hw.noCls hw.nodup
    (fun n hn => by
      have := hw.fresh n hn
      simp only [initEnv]
      exact List.getElem?_eq_none (by omega)) he
  refine ⟨hl, ?_, hs⟩
  intro i hi
  have : initEnv env i = some env[i] := by simp [initEnv, hi]
  simp [val, hp i _ this]

end Xdsl.EGraph
