import XdslProofs.Lemmas.DeclFormatAgg
/-!
C05 helper lemmas, part 2: one simple directive parses back what it printed.
`replayS` is the specification of the state change: "the slot of the directive receives the value
the operation has there".
-/
namespace Xdsl.DeclFormat
set_option linter.unusedSimpArgs false

theorem passes_val {rest : List Tok} (h : (clsHd rest == Cls.val) = false) : Passes selVal badNone rest := by
  cases rest with
  | nil => trivial
  | cons t r => cases t <;> simp_all [Passes, selVal, badNone, clsOf]

theorem passes_succ {rest : List Tok} (h : (clsHd rest == Cls.succ) = false) : Passes selSucc badNone rest := by
  cases rest with
  | nil => trivial
  | cons t r => cases t <;> simp_all [Passes, selSucc, badNone, clsOf]

theorem passes_ty {rest : List Tok} (h : clsBadTy (clsHd rest) = false) : Passes selTy badTy rest := by
  cases rest with
  | nil => trivial
  | cons t r => cases t <;> simp_all [Passes, selTy, badTy, clsOf, clsBadTy]

theorem passes_attr {rest : List Tok} (h : clsBadAttr (clsHd rest) = false) : Passes selAttr badAttr rest := by
  cases rest with
  | nil => trivial
  | cons t r => cases t <;> simp_all [Passes, selAttr, badAttr, clsOf, clsBadAttr]

theorem passes_brace {rest : List Tok} (h : clsBadBrace (clsHd rest) = false) : Passes selRegion badBrace rest := by
  cases rest with
  | nil => trivial
  | cons t r => cases t <;> simp_all [Passes, selRegion, badBrace, clsOf, clsBadBrace]

/-- state after `attr-dict` has read the dictionary `d` -/
def dictState (st : PState) (expProps : List String) (d : List (String × Nat)) : PState :=
  { st with props := (d.filter (fun p => expProps.contains p.1)).foldl (fun m p => AL.set m p.1 p.2) st.props,
            attrs := (d.filter (fun p => !expProps.contains p.1)).foldl (fun m p => AL.set m p.1 p.2) st.attrs }

/-- what `set_types` of a typeable directive does with the operation's own types -/
def replayTy (op : OpInst) : TyRef → PState → PState
  | .operand i _, st => { st with operandTys := AL.set st.operandTys i (seg op.operandTys i) }
  | .result i _, st => { st with resultTys := AL.set st.resultTys i (seg op.resultTys i) }
  | .operands, st => { st with operandTys := setAll st.operandTys op.operandTys }
  | .results, st => { st with resultTys := setAll st.resultTys op.resultTys }

/-- what parsing directive `d` should do to the state when the text was printed from `op` -/
def replayS (D : Defs) (op : OpInst) (d : SDir) (st : PState) : PState :=
  match d with
  | .operand i _ => { st with operands := AL.set st.operands i (seg op.operands i) }
  | .operandTy i _ => { st with operandTys := AL.set st.operandTys i (seg op.operandTys i) }
  | .resultTy i _ => { st with resultTys := AL.set st.resultTys i (seg op.resultTys i) }
  | .region i _ => { st with regions := AL.set st.regions i (seg op.regions i) }
  | .succ i _ => { st with succs := AL.set st.succs i (seg op.succs i) }
  | .attr name isProp optional dflt =>
    match dictGet isProp op name with
    | none => st
    | some v => if optional && dflt == some v then st else setDict isProp st name v
  | .unitAttr name isProp u => setDict isProp st name u
  | .attrDict _ reserved expProps => dictState st expProps (dictEntries D reserved expProps op)
  | .operandsAll => { st with operands := setAll st.operands op.operands }
  | .operandTysAll => { st with operandTys := setAll st.operandTys op.operandTys }
  | .resultTysAll => { st with resultTys := setAll st.resultTys op.resultTys }
  | .funcTy ins outs => replayTy op outs (replayTy op ins st)
  | _ => st

/-- the types a typeable directive stands for have the cardinalities its flavour / the definitions
promise -/
def okTy (D : Defs) (op : OpInst) : TyRef → Prop
  | .operand i k => fitsK k (seg op.operandTys i) = true
  | .result i k => fitsK k (seg op.resultTys i) = true
  | .operands => fits D.operandKinds op.operandTys = true
  | .results => fits D.resultKinds op.resultTys = true

/-- the instance has the cardinalities the directive's flavour promises (part of "verifies") -/
def okInst (D : Defs) (op : OpInst) : SDir → Prop
  | .operand i .single => (seg op.operands i).length = 1
  | .operand i .opt => (seg op.operands i).length ≤ 1
  | .operandTy i .single => (seg op.operandTys i).length = 1
  | .operandTy i .opt => (seg op.operandTys i).length ≤ 1
  | .resultTy i .single => (seg op.resultTys i).length = 1
  | .resultTy i .opt => (seg op.resultTys i).length ≤ 1
  | .region i .single => (seg op.regions i).length = 1
  | .region i .opt => (seg op.regions i).length ≤ 1
  | .succ i .single => (seg op.succs i).length = 1
  | .succ i .opt => (seg op.succs i).length ≤ 1
  | .attr name isProp optional _ => optional = false → (dictGet isProp op name).isSome = true
  | .operandsAll => fits D.operandKinds op.operands = true
  | .operandTysAll => fits D.operandKinds op.operandTys = true
  | .resultTysAll => fits D.resultKinds op.resultTys = true
  | .funcTy ins outs => okTy D op ins ∧ okTy D op outs
  | _ => True

/-- the token after the directive is not one the directive would take -/
structure FollowOK (d : SDir) (rest : List Tok) : Prop where
  absent : nullableS d = true → conflict d (clsHd rest) = false
  comma : commaLike d = true → clsHd rest ≠ Cls.punct ","
  brace : regionLike d = true → clsBadBrace (clsHd rest) = false

/-- `set_types` with the operation's own types -/
theorem setTyRef_get (D : Defs) (op : OpInst) (r : TyRef) (st : PState)
    (hok : okTy D op r) (ha : okAggTy D r = true) :
    setTyRef D st r (tyRefGet op r) = some (replayTy op r st) := by
  cases r with
  | operand i k => rfl
  | result i k => rfl
  | operands =>
    simp only [okAggTy, Bool.and_eq_true] at ha
    simp [setTyRef, tyRefGet, replayTy, splitByKinds_flatten _ _ hok ha.2]
  | results =>
    simp only [okAggTy, Bool.and_eq_true] at ha
    simp [setTyRef, tyRefGet, replayTy, splitByKinds_flatten _ _ hok ha.2]

theorem fitsK_tyRefKind (D : Defs) (op : OpInst) (r : TyRef) (hok : okTy D op r) :
    fitsK (tyRefKind r) (tyRefGet op r) = true := by
  cases r <;> first | exact hok | rfl

/-- `parse_types` of a typeable directive inside `functional-type(…)`: the list is closed by `)` -/
theorem parseTyRef_print (D : Defs) (op : OpInst) (r : TyRef) (rest : List Tok) (st : PState)
    (hok : okTy D op r) (ha : okAggTy D r = true) :
    parseTyRef D r (commaSep Tok.ty (tyRefGet op r) ++ Tok.punct ")" :: rest) st =
      some (replayTy op r st, Tok.punct ")" :: rest) := by
  have hset := setTyRef_get D op r st hok ha
  have hk := fitsK_tyRefKind D op r hok
  have hpass : Passes selTy badTy (Tok.punct ")" :: rest) := ⟨rfl, by decide⟩
  unfold parseTyRef
  cases hkind : tyRefKind r with
  | single =>
    rw [hkind] at hk
    obtain ⟨x, hx⟩ := len1 (by simpa [fitsK] using hk)
    rw [hx] at hset
    simp [hx, commaSep, commaTail, reqOne, selTy, hset]
  | opt =>
    rw [hkind] at hk
    rcases le1 (by simpa [fitsK] using hk) with hx | ⟨x, hx⟩
    · rw [hx] at hset
      simp [hx, commaSep, optOne_none badTy _ hpass, hset]
    · rw [hx] at hset
      simp [hx, commaSep, commaTail, optOne, selTy, hset]
  | var =>
    have := optList_commaSep selMk_ty badTy (tyRefGet op r) (Tok.punct ")" :: rest)
      (by simp [clsOf]) (fun _ => hpass)
    simp [this, hset]

theorem dictEntries_not_reserved (D : Defs) (reserved expProps : List String) (op : OpInst) :
    (dictEntries D reserved expProps op).any (fun p => reserved.contains p.1) = false := by
  unfold dictEntries
  rw [List.any_eq_false]
  intro p hp
  simp only [List.mem_filter, Bool.and_eq_true, Bool.not_eq_eq_eq_not, Bool.not_true] at hp
  have := hp.2.1
  simpa using this

/-- a simple directive of the proved fragment parses back exactly the tokens it printed and puts the
operation's own value into its slot -/
theorem parseS_printS (D : Defs) (op : OpInst) (d : SDir) (rest : List Tok) (st : PState)
    (hinst : okInst D op d) (ha : okAgg D d = true) (hf : FollowOK d rest) :
    ∃ b, parseS D d (printS D op d ++ rest) st = some (b, replayS D op d st, rest) := by
  cases d with
  | kw s => exact ⟨true, by simp [parseS, printS, replayS]⟩
  | punct s => exact ⟨true, by simp [parseS, printS, replayS]⟩
  | operand i k =>
    cases k with
    | single =>
      obtain ⟨x, hx⟩ := len1 hinst
      exact ⟨true, by simp [parseS, printS, replayS, hx, commaSep, commaTail, reqOne, selVal]⟩
    | opt =>
      rcases le1 hinst with hx | ⟨x, hx⟩
      · have hp := passes_val (hf.absent rfl)
        exact ⟨false, by simp [parseS, printS, replayS, hx, commaSep, optOne_none badNone rest hp]⟩
      · exact ⟨true, by simp [parseS, printS, replayS, hx, commaSep, commaTail, optOne, selVal]⟩
    | var =>
      refine ⟨!(seg op.operands i).isEmpty, ?_⟩
      have := optList_commaSep selMk_val badNone (seg op.operands i) rest (hf.comma rfl)
        (fun _ => passes_val (hf.absent rfl))
      simp [parseS, printS, replayS, this]
  | operandTy i k =>
    cases k with
    | single =>
      obtain ⟨x, hx⟩ := len1 hinst
      exact ⟨true, by simp [parseS, printS, replayS, hx, commaSep, commaTail, reqOne, selTy]⟩
    | opt =>
      rcases le1 hinst with hx | ⟨x, hx⟩
      · have hp := passes_ty (hf.absent rfl)
        exact ⟨false, by simp [parseS, printS, replayS, hx, commaSep, optOne_none badTy rest hp]⟩
      · exact ⟨true, by simp [parseS, printS, replayS, hx, commaSep, commaTail, optOne, selTy]⟩
    | var =>
      refine ⟨!(seg op.operandTys i).isEmpty, ?_⟩
      have := optList_commaSep selMk_ty badTy (seg op.operandTys i) rest (hf.comma rfl)
        (fun _ => passes_ty (hf.absent rfl))
      simp [parseS, printS, replayS, this]
  | resultTy i k =>
    cases k with
    | single =>
      obtain ⟨x, hx⟩ := len1 hinst
      exact ⟨true, by simp [parseS, printS, replayS, hx, commaSep, commaTail, reqOne, selTy]⟩
    | opt =>
      rcases le1 hinst with hx | ⟨x, hx⟩
      · have hp := passes_ty (hf.absent rfl)
        exact ⟨false, by simp [parseS, printS, replayS, hx, commaSep, optOne_none badTy rest hp]⟩
      · exact ⟨true, by simp [parseS, printS, replayS, hx, commaSep, commaTail, optOne, selTy]⟩
    | var =>
      refine ⟨!(seg op.resultTys i).isEmpty, ?_⟩
      have := optList_commaSep selMk_ty badTy (seg op.resultTys i) rest (hf.comma rfl)
        (fun _ => passes_ty (hf.absent rfl))
      simp [parseS, printS, replayS, this]
  | region i k =>
    cases k with
    | single =>
      obtain ⟨x, hx⟩ := len1 hinst
      exact ⟨true, by simp [parseS, printS, replayS, hx, reqOne, selRegion]⟩
    | opt =>
      rcases le1 hinst with hx | ⟨x, hx⟩
      · have hp := passes_brace (hf.absent rfl)
        exact ⟨false, by simp [parseS, printS, replayS, hx, optOne_none badBrace rest hp]⟩
      · exact ⟨true, by simp [parseS, printS, replayS, hx, optOne, selRegion]⟩
    | var =>
      refine ⟨!(seg op.regions i).isEmpty, ?_⟩
      have := manyRegions_map (seg op.regions i) rest (passes_brace (hf.brace rfl))
      simp [parseS, printS, replayS, this]
  | succ i k =>
    cases k with
    | single =>
      obtain ⟨x, hx⟩ := len1 hinst
      exact ⟨true, by simp [parseS, printS, replayS, hx, commaSep, commaTail, reqOne, selSucc]⟩
    | opt =>
      rcases le1 hinst with hx | ⟨x, hx⟩
      · have hp := passes_succ (hf.absent rfl)
        exact ⟨false, by simp [parseS, printS, replayS, hx, commaSep, optOne_none badNone rest hp]⟩
      · exact ⟨true, by simp [parseS, printS, replayS, hx, commaSep, commaTail, optOne, selSucc]⟩
    | var =>
      refine ⟨!(seg op.succs i).isEmpty, ?_⟩
      have := optList_commaSep selMk_succ badNone (seg op.succs i) rest (hf.comma rfl)
        (fun _ => passes_succ (hf.absent rfl))
      simp [parseS, printS, replayS, this]
  | attr name isProp optional dflt =>
    simp only [okInst] at hinst
    have habs : optional = true → Passes selAttr badAttr rest := fun h =>
      passes_attr (hf.absent (by simpa [nullableS] using h))
    cases hg : dictGet isProp op name with
    | none =>
      cases optional with
      | false => simp [hg] at hinst
      | true => exact ⟨false, by simp [parseS, printS, replayS, hg, optOne_none badAttr rest (habs rfl)]⟩
    | some v =>
      by_cases he : (optional && dflt == some v) = true
      · have hopt : optional = true := by
          cases optional <;> simp_all
        subst hopt
        exact ⟨false, by simp [parseS, printS, replayS, hg, he, optOne_none badAttr rest (habs rfl)]⟩
      · cases optional with
        | false => exact ⟨true, by simp [parseS, printS, replayS, hg, reqOne, selAttr]⟩
        | true => exact ⟨true, by simp [parseS, printS, replayS, hg, he, optOne, selAttr]⟩
  | unitAttr name isProp u => exact ⟨true, by simp [parseS, printS, replayS]⟩
  | attrDict withKw reserved expProps =>
    have hres := dictEntries_not_reserved D reserved expProps op
    cases hes : dictEntries D reserved expProps op with
    | nil =>
      cases withKw with
      | true =>
        have hc := hf.absent rfl
        simp only [conflict, if_true] at hc
        refine ⟨false, ?_⟩
        cases rest with
        | nil => simp [parseS, printS, replayS, hes, dictState]
        | cons t r =>
          cases t <;> simp_all [parseS, printS, replayS, dictState, clsOf]
      | false =>
        have hc := hf.absent rfl
        simp only [conflict] at hc
        refine ⟨false, ?_⟩
        cases rest with
        | nil => simp [parseS, printS, replayS, hes, dictState]
        | cons t r =>
          cases t <;> simp_all [parseS, printS, replayS, dictState, clsOf, clsBadBrace, badBrace]
    | cons e es =>
      rw [hes] at hres
      have hres' : (reserved.contains e.1 || es.any fun p => reserved.contains p.1) = false := by
        simpa [List.any_cons] using hres
      cases withKw with
      | true => exact ⟨true, by
          simp only [parseS, printS, replayS, hes, dictState, List.isEmpty_cons, Bool.false_eq_true, if_false,
            if_true, List.nil_append, List.cons_append, List.singleton_append, hres]
          simp⟩
      | false => exact ⟨true, by
          simp only [parseS, printS, replayS, hes, dictState, List.isEmpty_cons, Bool.false_eq_true, if_false,
            if_true, List.nil_append, List.cons_append, List.singleton_append, hres]
          simp⟩
  | operandsAll =>
    simp only [okAgg, Bool.and_eq_true] at ha
    refine ⟨!op.operands.flatten.isEmpty, ?_⟩
    have := optList_commaSep selMk_val badNone op.operands.flatten rest (hf.comma rfl)
      (fun _ => passes_val (hf.absent rfl))
    simp [parseS, printS, replayS, this, splitByKinds_flatten _ _ hinst ha.2]
  | operandTysAll =>
    simp only [okAgg, Bool.and_eq_true] at ha
    refine ⟨!op.operandTys.flatten.isEmpty, ?_⟩
    have := optList_commaSep selMk_ty badTy op.operandTys.flatten rest (hf.comma rfl)
      (fun _ => passes_ty (hf.absent rfl))
    simp [parseS, printS, replayS, this, setTyRef, splitByKinds_flatten _ _ hinst ha.2]
  | resultTysAll =>
    simp only [okAgg, Bool.and_eq_true] at ha
    refine ⟨!op.resultTys.flatten.isEmpty, ?_⟩
    have := optList_commaSep selMk_ty badTy op.resultTys.flatten rest (hf.comma rfl)
      (fun _ => passes_ty (hf.absent rfl))
    simp [parseS, printS, replayS, this, setTyRef, splitByKinds_flatten _ _ hinst ha.2]
  | funcTy ins outs =>
    simp only [okAgg, Bool.and_eq_true] at ha
    obtain ⟨hi, ho⟩ := hinst
    refine ⟨true, ?_⟩
    have h1 := fun r' => parseTyRef_print D op ins r' st hi ha.1
    have h2 := fun r' => parseTyRef_print D op outs r' (replayTy op ins st) ho ha.2
    have hset := setTyRef_get D op outs (replayTy op ins st) ho ha.2
    simp only [printS, parseS, replayS, List.cons_append, List.nil_append, List.append_assoc, if_true]
    rw [h1]
    simp only [Option.bind_some, expectPunct, if_true]
    cases hrs : tyRefGet op outs with
    | nil =>
      have h2' := h2 rest
      rw [hrs] at h2'
      simp only [commaSep, List.nil_append] at h2'
      simp [commaSep, h2', expectPunct]
    | cons t tl =>
      cases tl with
      | nil =>
        by_cases hft : t ∈ D.funcTys
        · have h2' := h2 rest
          rw [hrs] at h2'
          simp only [commaSep, commaTail, List.cons_append, List.nil_append] at h2'
          simp [hft, h2', expectPunct]
        · rw [hrs] at hset
          simp [hft, reqOne, selTy, hset]
      | cons u tl' =>
        have h2' := h2 rest
        rw [hrs] at h2'
        simp [h2', expectPunct]

end Xdsl.DeclFormat
