import XdslProofs.Lemmas.DCEMiniCfg
/-!
The assembled statements (C13 on `Sem`): one call of `region_dce` (`dceOnceA_preserves`) and the pass
(`dceLoopA_preserves`) preserve every run of `Sem` that ends with results, under the decidable hypotheses
`cert` / `certLoop` of `XdslModel/DCEMini.lean`.  No Mathlib.
-/
namespace Xdsl.DCEM
open Xdsl.DCE Xdsl.MiniIR Xdsl.Sem

theorem isModule_eq {a : AT} (h : isModule a = true) : ∃ i args fops, a = .region (.block i args fops .nil) .nil := by
  unfold isModule at h
  split at h
  · exact ⟨_, _, _, rfl⟩
  · cases h

/-- **one call of `region_dce` preserves `Sem`** (validator form): if the decidable hypotheses `cert a`
hold, a run of the original program that ends with results and an effect log is reproduced by the
pruned program with any fuel at least as large. -/
theorem dceOnceA_preserves (a : AT) (hc : cert a = true) {f : String} {args : List Val} {n M : Nat} (hM : n ≤ M)
    {r : List Val × List Effect} (h : Sem.run (toProg a) f args n = .ok r) :
    Sem.run (toProg (dceOnceA a).1) f args M = .ok r := by
  simp only [cert, Bool.and_eq_true] at hc
  obtain ⟨⟨⟨⟨⟨⟨hmod, hnd⟩, hws⟩, hwf⟩, hlink⟩, hcfg⟩, htop⟩ := hc
  obtain ⟨i, bargs, fops, ha⟩ := isModule_eq hmod
  have hclosed : Closed (toT a) (liveSet (toT a)) (toT a) none := liveSet_closed ((nodupB_iff _).mp hnd)
  have hkr : keptReachB (liveSet (toT a)) a .regions true = true :=
    keptReachB_of a .regions true [] 0 hws hwf (kr_liveSet ((nodupB_iff _).mp hnd))
  have hsucc : succB (liveSet (toT a)) a .regions (fun _ => true) true = true :=
    succB_of_cfg (t := toT a) a .regions _ true hws hwf hclosed hkr hcfg trivial
  have hspec := dropRes_spec (t := toT a) a .regions true hclosed hkr
  have hG := no_live_use a hlink hspec
  have hW := dropCells_wbd (t := toT a) a .regions true hclosed hkr
  unfold dceOnceA
  simp only
  split
  · exact SemMeta.run_fuel_mono_ok _ f args hM h
  · generalize liveSet (toT a) = live at *
    have htopops : topOps a = fops := by rw [ha]; rfl
    rw [htopops] at htop
    have ed : dropRes live a true = dropRes live fops false := by rw [ha]; simp [dropRes]
    have eh : hiddenDefs live a true = hiddenDefs live fops false := by rw [ha]; simp [hiddenDefs]
    have ec : ∀ c ∈ cellsA fops, c ∈ cellsA a := by intro c hc; rw [ha]; simp [cellsA, hc]
    have ew : dropCells live a true = dropCells live fops false := by rw [ha]; simp [dropCells]
    have hsf : succB live fops .ops (fun b => firstKeptB live b (.block i bargs fops .nil) true) false = true := by
      rw [ha] at hsucc
      simpa [succB] using hsucc
    have hst : SimTop (toProg a) (fun v => v ∈ hiddenDefs live a true ∨ v ∈ dropRes live a true) live fops := by
      refine simTop_of_cert (rl := dropRes live a true) fops _ htop hsf ?_ ?_ (fun v hv => hv) ?_ ?_
      · intro v hv; right; rw [ed]; exact hv
      · intro v hv; left; rw [eh]; exact hv
      · intro c hc; exact hG c (ec c hc)
      · intro c hc; exact hW c (by rw [ew]; exact hc)
    have hcall : CallOK (fun v => v ∈ hiddenDefs live a true ∨ v ∈ dropRes live a true) live (toProg a)
        (toProg (delA live a true [])) := by
      have e1 : toProg a = ⟨funcsOf fops⟩ := by rw [ha]; rfl
      have e2 : toProg (delA live a true [])
          = ⟨funcsOf (delA live fops false (keepMaskA live (.block i bargs fops .nil) true))⟩ := by
        rw [ha]; simp [delA, toProg, topOps]
      rw [e2]
      rw [e1] at hst ⊢
      exact callOK_of_simTop _ fops hst
    exact run_sim hcall hM h


/-! ## the pass: `while region_dce(op.body): pass` -/

theorem toT_dceLoopA : ∀ (fuel : Nat) (a : AT) (k : Nat),
    toT (dceLoopA fuel a k).1 = (dceLoop fuel (toT a) k).1 ∧ (dceLoopA fuel a k).2 = (dceLoop fuel (toT a) k).2 := by
  intro fuel
  induction fuel with
  | zero => intro a k; exact ⟨rfl, rfl⟩
  | succ fuel ih =>
    intro a k
    simp only [dceLoopA, dceLoop, (toT_dceOnceA a).2]
    split
    · rw [← (toT_dceOnceA a).1]; exact ih _ _
    · exact ⟨(toT_dceOnceA a).1, rfl⟩

theorem toT_dceA (a : AT) : toT (dceA a).1 = (dce (toT a)).1 ∧ (dceA a).2 = (dce (toT a)).2 :=
  toT_dceLoopA _ a 0

theorem dceLoopA_preserves : ∀ (fuel : Nat) (a : AT) (k : Nat), certLoop fuel a = true →
    ∀ {f : String} {args : List Val} {n M : Nat}, n ≤ M → ∀ {r : List Val × List Effect},
      Sem.run (toProg a) f args n = .ok r → Sem.run (toProg (dceLoopA fuel a k).1) f args M = .ok r := by
  intro fuel
  induction fuel with
  | zero => intro a k _ f args n M hM r h; exact SemMeta.run_fuel_mono_ok _ f args hM h
  | succ fuel ih =>
    intro a k hc f args n M hM r h
    simp only [certLoop] at hc
    simp only [dceLoopA]
    split
    · rename_i hch
      simp only [hch, if_true, Bool.and_eq_true] at hc
      exact ih _ _ hc.2 (Nat.le_refl M) (dceOnceA_preserves a hc.1 hM h)
    · rename_i hch
      have : (dceOnceA a).1 = a := by
        unfold dceOnceA at hch ⊢
        simp only at hch ⊢
        split
        · rfl
        · rename_i hsz; simp [hsz] at hch
      rw [this]
      exact SemMeta.run_fuel_mono_ok _ f args hM h

/-! ## the comparison the driver model `dcemini` runs is sound -/

/-- what `eqA` compares -/
def MI.Is (a : AT) : MI → Prop
  | .ops l => opsOf a = l
  | .blocks l => blocksOf a = l
  | .regions l => regionsOf a = l

theorem eqA_sound (a : AT) : ∀ mi, eqA a mi = true → mi.Is a := by
  induction a with
  | nil =>
    intro mi h
    cases mi with
    | ops l => cases l <;> simp_all [eqA, MI.Is]
    | blocks l => cases l <;> simp_all [eqA, MI.Is]
    | regions l => cases l <;> simp_all [eqA, MI.Is]
  | op hd m rs next ihr ihn =>
    intro mi h
    cases mi with
    | blocks l => simp [eqA] at h
    | regions l => simp [eqA] at h
    | ops l =>
      cases l with
      | nil => simp [eqA] at h
      | cons o os =>
        obtain ⟨n, r, o', at', s, regs⟩ := o
        simp only [eqA, Bool.and_eq_true, decide_eq_true_eq] at h
        obtain ⟨⟨⟨⟨⟨⟨h1, h2⟩, h3⟩, h4⟩, h5⟩, h6⟩, h7⟩ := h
        have e1 : regionsOf rs = regs := ihr _ h6
        have e2 : opsOf next = os := ihn _ h7
        simp only [MI.Is, opsOf_op, mkOp, e1, e2, h1, h2, h3, h4, h5]
  | block i args ops next iho ihn =>
    intro mi h
    cases mi with
    | ops l => simp [eqA] at h
    | regions l => simp [eqA] at h
    | blocks l =>
      cases l with
      | nil => simp [eqA] at h
      | cons b bs =>
        obtain ⟨j, args', bops⟩ := b
        simp only [eqA, Bool.and_eq_true, decide_eq_true_eq] at h
        obtain ⟨⟨⟨h1, h2⟩, h3⟩, h4⟩ := h
        have e1 : opsOf ops = bops := iho _ h3
        have e2 : blocksOf next = bs := ihn _ h4
        simp only [MI.Is, blocksOf_block, e1, e2, h1, h2]
  | region bs next ihb ihn =>
    intro mi h
    cases mi with
    | ops l => simp [eqA] at h
    | blocks l => simp [eqA] at h
    | regions l =>
      cases l with
      | nil => simp [eqA] at h
      | cons r rest =>
        obtain ⟨blks⟩ := r
        simp only [eqA, Bool.and_eq_true] at h
        have e1 : blocksOf bs = blks := ihb _ h.1
        have e2 : regionsOf next = rest := ihn _ h.2
        simp only [MI.Is, regionsOf_region, e1, e2]

theorem bodyOf_self {l : List Region} {r x : Region} (hl : l = [r]) (h : bodyOf l = some x) : x = r := by
  have := bodyOf_some h
  rw [hl] at this
  simpa using this.symm

/-- the checker the driver runs is sound: if it accepts, the functions of the tree are the given ones -/
theorem eqFuncs_sound (a : AT) : ∀ fs, eqFuncs a fs = true → funcsOf a = fs := by
  induction a with
  | nil => intro fs h; simp only [eqFuncs, List.isEmpty_iff] at h; simp [funcsOf, h]
  | block _ _ _ _ _ _ => intro fs h; simp only [eqFuncs, List.isEmpty_iff] at h; simp [funcsOf, h]
  | region _ _ _ _ => intro fs h; simp only [eqFuncs, List.isEmpty_iff] at h; simp [funcsOf, h]
  | op hd m rs next _ ihn =>
    intro fs h
    simp only [eqFuncs] at h
    by_cases hn : m.name = "func.func"
    · simp only [hn, if_true] at h
      cases fs with
      | nil => cases h
      | cons f fs' =>
        simp only [Bool.and_eq_true, decide_eq_true_eq] at h
        obtain ⟨⟨h1, h2⟩, h3⟩ := h
        obtain ⟨fname, fbody⟩ := f
        simp only at h1 h2
        simp only [funcsOf, hn, if_true, ihn fs' h3, List.cons.injEq, and_true]
        subst h1
        congr 1
        cases fbody with
        | none =>
          cases hb : bodyOf (regionsOf rs) with
          | none => rfl
          | some x => rw [hb] at h2; cases h2
        | some r =>
          cases hb : bodyOf (regionsOf rs) with
          | none => rw [hb] at h2; cases h2
          | some x =>
            rw [hb] at h2
            simp only at h2
            have e : regionsOf rs = [r] := eqA_sound rs _ h2
            rw [bodyOf_self e hb]
    · simp only [hn, if_false] at h
      simp only [funcsOf, hn, if_false]
      exact ihn fs h

end Xdsl.DCEM
