import XdslProofs.Lemmas.DCEMiniTie
import XdslProofs.C24PostOrder
/-!
Unreachable blocks (C13 on `Sem`): what `cert` no longer has to check.

* `kr_liveSet` (+ `keptReachB_of`): every block `region_dce` keeps is the entry block of its region or one
  the post-order iteration yields (a live operation is a visited one: `LV.rIds`; unique ids).
* `region_succ` / `succB_of_cfg`: a kept operation of a kept block branches only to kept blocks — its block
  is yielded, so (by `postorder_spec` of C24: yielded = reachable) are its successors; a yielded block ends
  in a terminator, terminators are never `would_be_trivially_dead`, so by the closedness of the live set the
  block has a live operation and is kept.  The MiniIR successors are tied to the block positions of the tree
  by the decidable `cfgOkB` (unique block ids per region, only the last operation of a block has successors,
  they are the blocks its `Hdr.succs` point at, non-entry blocks end in a terminator).
No Mathlib.
-/
namespace Xdsl.DCE
open Xdsl.Graph

/-- along what `del` keeps: every kept block other than an entry block is one the post-order iteration
of its region yields -/
def KR (live : List Nat) : T → Bool → List Nat → Nat → Prop
  | .nil, _, _, _ => True
  | .op h rs next, _, _, _ => (h.id ∈ live → KR live rs true [] 0) ∧ KR live next false [] 0
  | .block ops next, first, reach, idx =>
    ((first = true ∨ anyLive live ops = true) →
        (first = true ∨ reach.contains idx = true) ∧ KR live ops false [] 0)
      ∧ KR live next false reach (idx + 1)
  | .region bs next, _, _, _ => KR live bs true (reachSet bs) 0 ∧ KR live next true [] 0

theorem kr_of_live (live : List Nat) (t : T) : ∀ reach idx f, (allIds t).Nodup →
    (∀ i ∈ live, i ∈ allIds t → i ∈ rIds t reach idx) → KR live t f reach idx := by
  induction t with
  | nil => intro reach idx f _ _; trivial
  | op h rs next ihr ihn =>
    intro reach idx f hnd hsub
    simp only [allIds_op, List.nodup_cons] at hnd
    have hnd2 := List.nodup_append.mp hnd.2
    refine ⟨fun _ => ihr [] 0 true hnd2.1 ?_, ihn [] 0 false hnd2.2.1 ?_⟩
    · intro i hi hin
      have := hsub i hi (by simp [hin])
      simp only [rIds, List.mem_cons, List.mem_append] at this
      rcases this with rfl | h1 | h1
      · exact absurd (List.mem_append_left _ hin) hnd.1
      · exact h1
      · exact (nodup_append_disjoint hnd.2 hin (rIds_sub _ _ _ _ h1)).elim
    · intro i hi hin
      have := hsub i hi (by simp [hin])
      simp only [rIds, List.mem_cons, List.mem_append] at this
      rcases this with rfl | h1 | h1
      · exact absurd (List.mem_append_right _ hin) hnd.1
      · exact (nodup_append_disjoint hnd.2 (rIds_sub _ _ _ _ h1) hin).elim
      · exact h1
  | block ops next iho ihn =>
    intro reach idx f hnd hsub
    simp only [allIds_block] at hnd
    have hnd2 := List.nodup_append.mp hnd
    have hops : ∀ i ∈ live, i ∈ allIds ops → reach.contains idx = true ∧ i ∈ rIds ops [] 0 := by
      intro i hi hin
      have := hsub i hi (by simp [hin])
      simp only [rIds, List.mem_append] at this
      rcases this with h1 | h1
      · split at h1
        · rename_i hr; exact ⟨hr, h1⟩
        · cases h1
      · exact (nodup_append_disjoint hnd hin (rIds_sub _ _ _ _ h1)).elim
    refine ⟨fun hk => ⟨?_, iho [] 0 false hnd2.1 (fun i hi hin => (hops i hi hin).2)⟩,
      ihn reach (idx + 1) false hnd2.2.1 ?_⟩
    · rcases hk with hf | ha
      · exact Or.inl hf
      · obtain ⟨i, hi, hin⟩ := anyLive_mem live ops ha
        exact Or.inr (hops i hi hin).1
    · intro i hi hin
      have := hsub i hi (by simp [hin])
      simp only [rIds, List.mem_append] at this
      rcases this with h1 | h1
      · split at h1
        · exact (nodup_append_disjoint hnd (rIds_sub _ _ _ _ h1) hin).elim
        · cases h1
      · exact h1
  | region bs next ihb ihn =>
    intro reach idx f hnd hsub
    simp only [allIds_region] at hnd
    have hnd2 := List.nodup_append.mp hnd
    refine ⟨ihb (reachSet bs) 0 true hnd2.1 ?_, ihn [] 0 true hnd2.2.1 ?_⟩
    · intro i hi hin
      have := hsub i hi (by simp [hin])
      simp only [rIds, List.mem_append] at this
      rcases this with h1 | h1
      · exact h1
      · exact (nodup_append_disjoint hnd hin (rIds_sub _ _ _ _ h1)).elim
    · intro i hi hin
      have := hsub i hi (by simp [hin])
      simp only [rIds, List.mem_append] at this
      rcases this with h1 | h1
      · exact (nodup_append_disjoint hnd (rIds_sub _ _ _ _ h1) hin).elim
      · exact h1

/-- for the computed live set: every block `region_dce` keeps is the entry block of its region or one the
post-order iteration yields -/
theorem kr_liveSet {P : T} (hnd : (allIds P).Nodup) : KR (liveSet P) P true [] 0 := by
  refine kr_of_live _ P [] 0 true hnd ?_
  intro i hi _
  obtain ⟨h, rs, hl, rfl⟩ := (live_iff hnd i).mp hi
  exact hl.rIds.1

end Xdsl.DCE

namespace Xdsl.DCEM
open Xdsl.DCE Xdsl.MiniIR Xdsl.Sem

variable {live : List Nat}

theorem zero_mem_reachSet' (bs : T) (hwf : Graph.wf (graphOf bs) = true) (hpos : 0 < (graphOf bs).length) :
    0 ∈ reachSet bs :=
  ((PostOrder.postorder_spec (graphOf bs) ((Graph.wf_iff _).mp hwf) hpos).2.1 0).mpr (Graph.Reach.refl _ _)

theorem kr_mask (bs : T) : ∀ (f : Bool) (reach : List Nat) (idx : Nat), KR live bs f reach idx →
    ∀ k, (keepMask live bs f).getD k false = true → (f = true ∧ k = 0) ∨ reach.contains (idx + k) = true := by
  induction bs with
  | nil => intro f reach idx _ k hk; simp [keepMask] at hk
  | op _ _ _ _ _ => intro f reach idx _ k hk; simp [keepMask] at hk
  | region _ _ _ _ => intro f reach idx _ k hk; simp [keepMask] at hk
  | block ops next _ ihn =>
    intro f reach idx hkr k hk
    obtain ⟨h1, h2⟩ := hkr
    cases k with
    | zero =>
      simp only [keepMask, List.getD_cons_zero, Bool.or_eq_true] at hk
      rcases (h1 hk).1 with h | h
      · exact Or.inl ⟨h, rfl⟩
      · exact Or.inr (by simpa using h)
    | succ k =>
      simp only [keepMask, List.getD_cons_succ] at hk
      rcases ihn false reach (idx + 1) h2 k hk with ⟨h, _⟩ | h
      · cases h
      · right; rw [← h]; congr 1; omega

theorem keptReachB_of (a : AT) : ∀ (s : Srt) (f : Bool) (reach : List Nat) (idx : Nat),
    ws (toT a) s = true → wfT (toT a) = true → KR live (toT a) f reach idx → keptReachB live a s f = true := by
  induction a with
  | nil => intro s f reach idx _ _ _; rfl
  | op h m rs next ihr ihn =>
    intro s f reach idx hws hwf hkr
    cases s with
    | blocks => simp [ws] at hws
    | regions => simp [ws] at hws
    | ops =>
      simp only [toT_op, ws, Bool.and_eq_true] at hws
      simp only [toT_op, wfT, Bool.and_eq_true] at hwf
      obtain ⟨k1, k2⟩ := hkr
      simp only [keptReachB, Bool.and_eq_true, Bool.or_eq_true, Bool.not_eq_true']
      refine ⟨?_, ihn .ops false [] 0 hws.2 hwf.2 k2⟩
      cases hl : live.contains h.id with
      | false => exact Or.inl rfl
      | true => exact Or.inr (ihr .regions true [] 0 hws.1 hwf.1 (k1 (by simpa using hl)))
  | block i args ops next iho ihn =>
    intro s f reach idx hws hwf hkr
    cases s with
    | ops => simp [ws] at hws
    | regions => simp [ws] at hws
    | blocks =>
      simp only [toT_block, ws, Bool.and_eq_true] at hws
      simp only [toT_block, wfT, Bool.and_eq_true] at hwf
      obtain ⟨k1, k2⟩ := hkr
      simp only [keptReachB, Bool.and_eq_true]
      refine ⟨?_, ihn .blocks false reach (idx + 1) hws.2 hwf.2 k2⟩
      cases hd : (!f && !anyLiveA live ops) with
      | true => rfl
      | false =>
        simp only [Bool.false_or]
        have hkeep : f = true ∨ anyLive live (toT ops) = true := by
          rw [← anyLiveA_toT]
          cases f <;> cases hq : anyLiveA live ops <;> simp_all
        exact iho .ops false [] 0 hws.1 hwf.1 (k1 hkeep).2
  | region bs next ihb ihn =>
    intro s f reach idx hws hwf hkr
    cases s with
    | ops => simp [ws] at hws
    | blocks => simp [ws] at hws
    | regions =>
      simp only [toT_region, ws, Bool.and_eq_true] at hws
      simp only [toT_region, wfT, Bool.and_eq_true, Bool.or_eq_true, beq_iff_eq] at hwf
      obtain ⟨k1, k2⟩ := hkr
      simp only [keptReachB, Bool.and_eq_true, List.all_eq_true, List.mem_range, Bool.or_eq_true,
        Bool.not_eq_true', List.contains_eq_mem, decide_eq_true_eq]
      refine ⟨⟨?_, ihb .blocks true _ 0 hws.1 hwf.1.2 k1⟩, ihn .regions true [] 0 hws.2 hwf.2 k2⟩
      intro k _
      cases hm : (keepMaskA live bs true).getD k false with
      | false => exact Or.inl rfl
      | true =>
        right
        rw [keepMaskA_toT] at hm
        rcases kr_mask (toT bs) true _ 0 k1 k hm with ⟨_, rfl⟩ | h
        · rcases hwf.1.1 with h0 | h0
          · rw [h0] at hm; simp [keepMask] at hm
          · refine zero_mem_reachSet' _ h0.1 ?_
            cases hb : toT bs with
            | block _ _ => simp [graphOf]
            | nil => rw [hb] at hm; simp [keepMask] at hm
            | op _ _ _ => rw [hb] at hm; simp [keepMask] at hm
            | region _ _ => rw [hb] at hm; simp [keepMask] at hm
        · simpa using h


theorem toT_opsAt (bs : AT) : ∀ k, toT (opsAt bs k) = blockAt (toT bs) k := by
  induction bs with
  | nil => intro k; rfl
  | op _ _ _ _ _ _ => intro k; rfl
  | region _ _ _ _ => intro k; rfl
  | block i a ops next _ ihn =>
    intro k
    cases k with
    | zero => rfl
    | succ k => simpa [opsAt, blockAt] using ihn k

/-- L1 -/
theorem succOps_spec (bs : AT) (ops : AT) (h : succOpsB bs ops = true) :
    ∀ c ∈ directOps ops, ∀ s ∈ c.2.1.succs, ∃ k ∈ lastSuccs (toT ops), s.1 = blockIdAt bs k := by
  induction ops with
  | nil => intro c hc; simp [directOps] at hc
  | block _ _ _ _ _ _ => intro c hc; simp [directOps] at hc
  | region _ _ _ _ => intro c hc; simp [directOps] at hc
  | op hd m rs next _ ihn =>
    intro c hc s hs
    simp only [directOps, List.mem_cons] at hc
    cases next with
    | nil =>
      simp only [directOps, List.not_mem_nil, or_false] at hc
      subst hc
      simp only [succOpsB, Bool.and_eq_true, decide_eq_true_eq, Bool.or_eq_true] at h
      have hterm : hd.term = true := by
        rcases h.2 with h0 | h0
        · simp only [List.isEmpty_iff] at h0
          rw [h0] at hs; cases hs
        · exact h0
      have hm : s.1 ∈ hd.succs.map (blockIdAt bs) := by
        rw [← h.1]; exact List.mem_map.mpr ⟨s, hs, rfl⟩
      obtain ⟨k, hk, e⟩ := List.mem_map.mp hm
      exact ⟨k, by simp [lastSuccs, hterm, hk], e.symm⟩
    | op h2 m2 r2 n2 =>
      simp only [succOpsB, Bool.and_eq_true] at h
      rcases hc with rfl | hc
      · have := h.1
        simp only [List.isEmpty_iff] at this
        rw [this] at hs; cases hs
      · obtain ⟨k, hk, e⟩ := ihn h.2 c hc s hs
        exact ⟨k, by simpa [lastSuccs] using hk, e⟩
    | block _ _ _ _ =>
      simp only [directOps, List.not_mem_nil, or_false] at hc
      subst hc
      simp only [succOpsB, Bool.and_eq_true] at h
      have := h.1
      simp only [List.isEmpty_iff] at this
      rw [this] at hs; cases hs
    | region _ _ =>
      simp only [directOps, List.not_mem_nil, or_false] at hc
      subst hc
      simp only [succOpsB, Bool.and_eq_true] at h
      have := h.1
      simp only [List.isEmpty_iff] at this
      rw [this] at hs; cases hs

/-- L2 -/
theorem succ_graphOf (t : T) : ∀ p, Graph.succ (graphOf t) p = lastSuccs (blockAt t p) := by
  induction t with
  | nil => intro p; simp [graphOf, Graph.succ, blockAt, lastSuccs]
  | op _ _ _ _ _ => intro p; simp [graphOf, Graph.succ, blockAt, lastSuccs]
  | region _ _ _ _ => intro p; simp [graphOf, Graph.succ, blockAt, lastSuccs]
  | block ops next _ ihn =>
    intro p
    cases p with
    | zero => simp [graphOf, Graph.succ, blockAt]
    | succ p => simpa [graphOf, Graph.succ, blockAt] using ihn p

/-- L3 -/
theorem reach_step (t : T) (hwf : Graph.wf (graphOf t) = true) (hpos : 0 < (graphOf t).length) {p k : Nat}
    (hp : p ∈ reachSet t) (hk : k ∈ Graph.succ (graphOf t) p) : k ∈ reachSet t ∧ k < (graphOf t).length := by
  have hspec := PostOrder.postorder_spec (graphOf t) ((Graph.wf_iff _).mp hwf) hpos
  have hr : Graph.Reach (graphOf t) 0 k := ((hspec.2.1 p).mp hp).step hk
  exact ⟨(hspec.2.1 k).mpr hr, ((Graph.wf_iff _).mp hwf) p k hk⟩


theorem lastTerm_spec (ops : AT) (h : lastTermB ops = true) : ∃ c ∈ directOps ops, c.1.term = true := by
  induction ops with
  | nil => simp [lastTermB] at h
  | block _ _ _ _ _ _ => simp [lastTermB] at h
  | region _ _ _ _ => simp [lastTermB] at h
  | op hd m rs next _ ihn =>
    cases next with
    | nil => exact ⟨(hd, m, rs), by simp [directOps], by simpa [lastTermB] using h⟩
    | op h2 m2 r2 n2 =>
      obtain ⟨c, hc, ht⟩ := ihn (by simpa [lastTermB] using h)
      exact ⟨c, by simp only [directOps, List.mem_cons] at hc ⊢; exact Or.inr hc, ht⟩
    | block _ _ _ _ => simp [lastTermB] at h
    | region _ _ => simp [lastTermB] at h

theorem directOps_vcells (ops : AT) : ∀ c ∈ directOps ops, (c.1, toT c.2.2) ∈ vcells (toT ops) none := by
  induction ops with
  | nil => intro c hc; simp [directOps] at hc
  | block _ _ _ _ _ _ => intro c hc; simp [directOps] at hc
  | region _ _ _ _ => intro c hc; simp [directOps] at hc
  | op hd m rs next _ ihn =>
    intro c hc
    simp only [directOps, List.mem_cons] at hc
    simp only [toT_op, vcells, List.mem_cons]
    rcases hc with rfl | hc
    · exact Or.inl rfl
    · exact Or.inr (ihn c hc)

/-- L4: a block the iteration yields whose last operation is a terminator has a live operation -/
theorem anyLive_of_reach {P : T} (bs : AT) (hws : ws (toT bs) .blocks = true) {k : Nat}
    (hcl : Closed P live (toT bs) (some k)) (hterm : lastTermB (opsAt bs k) = true) :
    anyLiveA live (opsAt bs k) = true := by
  obtain ⟨c, hc, ht⟩ := lastTerm_spec _ hterm
  have hv := directOps_vcells _ c hc
  rw [toT_opsAt, ← vcells_blockAt _ k hws] at hv
  have hm : c.1.id ∈ live := (closed_mem _ (some k) hcl c.1 _ hv).1 (Or.inl (by simp [wbd, ht]))
  rw [anyLiveA_toT, toT_opsAt]
  refine anyLive_of_vcell live _ (ws_blockAt _ k hws) c.1 (toT c.2.2) ?_ hm
  rw [← vcells_blockAt _ k hws]; exact hv

theorem blockIdAt_mem (bs : AT) (k : Nat) (hk : k < (blockIdsOf bs).length) : blockIdAt bs k ∈ blockIdsOf bs := by
  unfold blockIdAt
  simp only [List.getD, List.getElem?_eq_getElem hk, Option.getD_some]
  exact List.getElem_mem hk

/-- L5 -/
theorem firstKept_at (bs : AT) : ∀ (f : Bool) (k : Nat), k < (blockIdsOf bs).length → (blockIdsOf bs).Nodup →
    ((f = true ∧ k = 0) ∨ anyLiveA live (opsAt bs k) = true) → firstKeptB live (blockIdAt bs k) bs f = true := by
  induction bs with
  | nil => intro f k hk; simp [blockIdsOf] at hk
  | op _ _ _ _ _ _ => intro f k hk; simp [blockIdsOf] at hk
  | region _ _ _ _ => intro f k hk; simp [blockIdsOf] at hk
  | block i a ops next _ ihn =>
    intro f k hk hnd hkeep
    simp only [blockIdsOf, List.nodup_cons] at hnd
    cases k with
    | zero =>
      simp only [firstKeptB, blockIdAt, blockIdsOf, List.getD_cons_zero, if_true, Bool.or_eq_true]
      rcases hkeep with ⟨h, _⟩ | h
      · exact Or.inl h
      · exact Or.inr (by simpa [opsAt] using h)
    | succ k =>
      simp only [blockIdsOf, List.length_cons, Nat.add_lt_add_iff_right] at hk
      have e : blockIdAt (.block i a ops next) (k + 1) = blockIdAt next k := by
        simp [blockIdAt, blockIdsOf]
      rw [e]
      have hne : i ≠ blockIdAt next k := fun heq => hnd.1 (heq ▸ blockIdAt_mem next k hk)
      simp only [firstKeptB, hne, if_false]
      refine ihn false k hk hnd.2 (Or.inr ?_)
      rcases hkeep with ⟨_, h⟩ | h
      · cases h
      · simpa [opsAt] using h

theorem blocksCfg_at (bs : AT) (bs0 : AT) : ∀ (f : Bool) (p : Nat), blocksCfgB bs bs0 f = true →
    succOpsB bs (opsAt bs0 p) = true ∧ (p < (blockIdsOf bs0).length → (f = true ∧ p = 0) ∨ lastTermB (opsAt bs0 p) = true) := by
  induction bs0 with
  | nil => intro f p _; simp [opsAt, succOpsB, blockIdsOf]
  | op _ _ _ _ _ _ => intro f p _; simp [opsAt, succOpsB, blockIdsOf]
  | region _ _ _ _ => intro f p _; simp [opsAt, succOpsB, blockIdsOf]
  | block i a ops next _ ihn =>
    intro f p h
    simp only [blocksCfgB, Bool.and_eq_true, Bool.or_eq_true] at h
    cases p with
    | zero =>
      refine ⟨by simpa [opsAt] using h.1.1, fun _ => ?_⟩
      rcases h.1.2 with h0 | h0
      · exact Or.inl ⟨h0, rfl⟩
      · exact Or.inr (by simpa [opsAt] using h0)
    | succ p =>
      obtain ⟨e1, e2⟩ := ihn false p h.2
      refine ⟨by simpa [opsAt] using e1, fun hp => ?_⟩
      simp only [blockIdsOf, List.length_cons, Nat.add_lt_add_iff_right] at hp
      rcases e2 hp with ⟨h0, _⟩ | h0
      · cases h0
      · exact Or.inr (by simpa [opsAt] using h0)

theorem length_graphOf (bs : AT) : (graphOf (toT bs)).length = (blockIdsOf bs).length := by
  induction bs with
  | nil => rfl
  | op _ _ _ _ _ _ => rfl
  | region _ _ _ _ => rfl
  | block i a ops next _ ihn => simp [graphOf, blockIdsOf, ihn]

/-- **a kept operation of a kept block branches only to kept blocks**: its block is one the iteration yields,
so are its successors, and a yielded block ends in a terminator, which is live -/
theorem region_succ {P : T} (bs : AT) (hws : ws (toT bs) .blocks = true)
    (hwf : Graph.wf (graphOf (toT bs)) = true)
    (hcl : ∀ k ∈ reachSet (toT bs), Closed P live (toT bs) (some k))
    (hreach : ∀ k, (keepMaskA live bs true).getD k false = true → k ∈ reachSet (toT bs))
    (hnd : (blockIdsOf bs).Nodup) (hcfg : blocksCfgB bs bs true = true) :
    ∀ p, (keepMaskA live bs true).getD p false = true → ∀ c ∈ directOps (opsAt bs p), ∀ s ∈ c.2.1.succs,
      firstKeptB live s.1 bs true = true := by
  intro p hp c hc s hs
  obtain ⟨k, hk, hsk⟩ := succOps_spec bs _ (blocksCfg_at bs bs true p hcfg).1 c hc s hs
  rw [hsk]
  rw [toT_opsAt, ← succ_graphOf] at hk
  have hpos : 0 < (graphOf (toT bs)).length := by
    cases bs with
    | block _ _ _ _ => simp [graphOf]
    | nil => simp [keepMaskA] at hp
    | op _ _ _ _ => simp [keepMaskA] at hp
    | region _ _ => simp [keepMaskA] at hp
  obtain ⟨hkr, hklt⟩ := reach_step _ hwf hpos (hreach p hp) hk
  rw [length_graphOf] at hklt
  refine firstKept_at bs true k hklt hnd ?_
  rcases (blocksCfg_at bs bs true k hcfg).2 hklt with ⟨_, h0⟩ | h0
  · exact Or.inl ⟨rfl, h0⟩
  · exact Or.inr (anyLive_of_reach bs hws (hcl k hkr) h0)


/-- what the successors of the operations directly in a list of cells have to satisfy -/
def HypS (live : List Nat) (a : AT) (s : Srt) (kb : Nat → Bool) (f : Bool) : Prop :=
  match s with
  | .ops => ∀ c ∈ directOps a, ∀ x ∈ c.2.1.succs, kb x.1 = true
  | .blocks => ∀ p, (keepMaskA live a f).getD p false = true →
      ∀ c ∈ directOps (opsAt a p), ∀ x ∈ c.2.1.succs, kb x.1 = true
  | .regions => True

theorem succB_of_cfg {t : T} (a : AT) : ∀ (s : Srt) (kb : Nat → Bool) (f : Bool),
    ws (toT a) s = true → wfT (toT a) = true → HypC t live a s f → keptReachB live a s f = true →
    cfgOkB live a = true → HypS live a s kb f → succB live a s kb f = true := by
  induction a with
  | nil => intro s kb f _ _ _ _ _ _; cases s <;> rfl
  | op h m rs next ihr ihn =>
    intro s kb f hws hwf hy hk hcfg hS
    cases s with
    | blocks => simp [ws] at hws
    | regions => simp [ws] at hws
    | ops =>
      simp only [toT_op, ws, Bool.and_eq_true] at hws
      simp only [toT_op, wfT, Bool.and_eq_true] at hwf
      simp only [keptReachB, Bool.and_eq_true, Bool.or_eq_true, Bool.not_eq_true'] at hk
      simp only [HypC, toT_op, Closed] at hy
      simp only [cfgOkB, Bool.and_eq_true, Bool.or_eq_true, Bool.not_eq_true'] at hcfg
      simp only [HypS, directOps, List.mem_cons] at hS
      obtain ⟨hy1, _, hy3⟩ := hy
      simp only [succB, Bool.and_eq_true, Bool.or_eq_true, Bool.not_eq_true']
      refine ⟨?_, ihn .ops kb false hws.2 hwf.2 hy1 hk.2 hcfg.2 (fun c hc => hS c (Or.inr hc))⟩
      cases hl : live.contains h.id with
      | false => exact Or.inl rfl
      | true =>
        right
        have hk1 : keptReachB live rs .regions true = true := by
          rcases hk.1 with h0 | h0
          · rw [hl] at h0; cases h0
          · exact h0
        have hc1 : cfgOkB live rs = true := by
          rcases hcfg.1 with h0 | h0
          · rw [hl] at h0; cases h0
          · exact h0
        refine ⟨?_, ihr .regions _ true hws.1 hwf.1 (hy3 (by simpa using hl)) hk1 hc1 trivial⟩
        simp only [List.all_eq_true]
        exact fun x hx => hS (h, m, rs) (Or.inl rfl) x hx
  | block i args ops next iho ihn =>
    intro s kb f hws hwf hy hk hcfg hS
    cases s with
    | ops => simp [ws] at hws
    | regions => simp [ws] at hws
    | blocks =>
      simp only [toT_block, ws, Bool.and_eq_true] at hws
      simp only [toT_block, wfT, Bool.and_eq_true] at hwf
      simp only [keptReachB, Bool.and_eq_true] at hk
      simp only [HypC, toT_block, keepMaskA] at hy
      simp only [cfgOkB, Bool.and_eq_true] at hcfg
      simp only [HypS, keepMaskA] at hS
      simp only [succB, Bool.and_eq_true]
      have hy' : HypC t live next .blocks false := by
        intro k hk'
        have := hy (k + 1) (by simpa using hk')
        simpa [Closed] using this
      refine ⟨?_, ihn .blocks kb false hws.2 hwf.2 hy' hk.2 hcfg.2 ?_⟩
      · cases hd : (!f && !anyLiveA live ops) with
        | true => rfl
        | false =>
          simp only [Bool.false_or]
          have hk1 : keptReachB live ops .ops false = true := by
            have h0 := hk.1
            rw [hd] at h0
            simpa using h0
          have hkeep : (f || anyLiveA live ops) = true := by
            cases f <;> cases hq : anyLiveA live ops <;> simp_all
          have h0 := hy 0 (by simpa using hkeep)
          simp only [Closed] at h0
          refine iho .ops kb false hws.1 hwf.1 h0 hk1 hcfg.1 ?_
          intro c hc x hx
          exact hS 0 (by simpa using hkeep) c (by simpa [opsAt] using hc) x hx
      · intro p hp c hc x hx
        exact hS (p + 1) (by simpa using hp) c (by simpa [opsAt] using hc) x hx
  | region bs next ihb ihn =>
    intro s kb f hws hwf hy hk hcfg hS
    cases s with
    | ops => simp [ws] at hws
    | blocks => simp [ws] at hws
    | regions =>
      simp only [toT_region, ws, Bool.and_eq_true] at hws
      simp only [toT_region, wfT, Bool.and_eq_true, Bool.or_eq_true, beq_iff_eq] at hwf
      simp only [keptReachB, Bool.and_eq_true, List.all_eq_true, List.mem_range, Bool.or_eq_true,
        Bool.not_eq_true', List.contains_eq_mem, decide_eq_true_eq] at hk
      obtain ⟨⟨hk1, hk2⟩, hk3⟩ := hk
      simp only [HypC, toT_region, Closed] at hy
      simp only [cfgOkB, Bool.and_eq_true] at hcfg
      obtain ⟨⟨⟨hc1, hc2⟩, hc3⟩, hc4⟩ := hcfg
      simp only [succB, Bool.and_eq_true]
      have hreach : ∀ k, (keepMaskA live bs true).getD k false = true → k ∈ reachSet (toT bs) := by
        intro k hk'
        have hlt : k < (keepMaskA live bs true).length := by
          by_cases hlt : k < (keepMaskA live bs true).length
          · exact hlt
          · simp [List.getD, List.getElem?_eq_none (by omega : (keepMaskA live bs true).length ≤ k)] at hk'
        rcases hk1 k hlt with h0 | h0
        · rw [h0] at hk'; cases hk'
        · exact h0
      have hy' : HypC t live bs .blocks true := fun k hk' => hy.1 k (hreach k hk')
      refine ⟨ihb .blocks _ true hws.1 hwf.1.2 hy' hk2 hc3 ?_, ihn .regions _ true hws.2 hwf.2 hy.2 hk3 hc4 trivial⟩
      cases hb : bs with
      | nil => intro p hp; simp [keepMaskA] at hp
      | op _ _ _ _ => intro p hp; simp [keepMaskA] at hp
      | region _ _ => intro p hp; simp [keepMaskA] at hp
      | block i0 a0 o0 n0 =>
        rw [← hb]
        have hg : Graph.wf (graphOf (toT bs)) = true := by
          rcases hwf.1.1 with h0 | h0
          · rw [hb] at h0; simp at h0
          · exact h0.1
        exact region_succ bs hws.1 hg hy.1 hreach ((nodupB_iff _).mp hc1) hc2

end Xdsl.DCEM
