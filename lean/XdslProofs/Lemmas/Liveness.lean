import XdslModel.Liveness
/-!
Helper lemmas for C25 (`XdslModel/Liveness.lean`): specification (`Root`, `Feeds`, `Live`), the
solver invariant, the termination potential.
-/
namespace Xdsl.Liveness

/-! ## Specification -/

/-- the parent block of `op` is marked executable at some time (before or after the initialisation
of the liveness analysis) — ops of other blocks are never looked at by the analysis -/
def ExecP (p : Prog) (op : Op) : Prop := op.blk ∈ p.pre ∨ op.blk ∈ p.post

/-- `v` is demanded at a boundary: a pre-seeded / exit value, or an operand of an op (in an executable
block) that is not trivially removable (`would_be_trivially_dead(op) = False`: side effects,
terminator such as `func.return`, symbol op). -/
def Root (p : Prog) (v : Nat) : Prop :=
  v ∈ p.seeds ∨ v ∈ p.exits ∨ ∃ op ∈ p.ops, ExecP p op ∧ op.wbd = false ∧ v ∈ op.operands

/-- `a` is an operand of an op (in an executable block) that has `b` among its results. -/
def Feeds (p : Prog) (a b : Nat) : Prop :=
  ∃ op ∈ p.ops, ExecP p op ∧ a ∈ op.operands ∧ b ∈ op.results

/-- The specified liveness: the least set containing the roots and closed under "operand of an op
with a live result" (restricted to the value ids `< nvals` that have a lattice). -/
inductive Live (p : Prog) : Nat → Prop
  | root {v : Nat} : v < p.nvals → Root p v → Live p v
  | step {v r : Nat} : v < p.nvals → Feeds p v r → Live p r → Live p v

theorem Live.lt {p : Prog} {v : Nat} (h : Live p v) : v < p.nvals := by
  cases h <;> assumption

/-! ## `isLive`, `mark` -/

theorem isLive_lt {st : St} {v : Nat} (h : isLive st v = true) : v < st.live.length := by
  apply Classical.byContradiction
  intro hn
  have : st.live[v]? = none := List.getElem?_eq_none (Nat.le_of_not_lt hn)
  simp [isLive, List.getD_eq_getElem?_getD, this] at h

theorem mark_reg (p : Prog) (st : St) (v : Nat) : (mark p st v).reg = st.reg := by
  unfold mark; split <;> rfl

theorem mark_trace (p : Prog) (st : St) (v : Nat) : (mark p st v).trace = st.trace := by
  unfold mark; split <;> rfl

theorem mark_exec (p : Prog) (st : St) (v : Nat) : (mark p st v).exec = st.exec := by
  unfold mark; split <;> rfl

theorem isExec_congr {s st : St} (h : s.exec = st.exec) (b : Nat) : isExec s b = isExec st b := by
  unfold isExec; rw [h]

theorem mark_len (p : Prog) (st : St) (v : Nat) : (mark p st v).live.length = st.live.length := by
  unfold mark; split <;> simp

theorem isLive_mark (p : Prog) (st : St) (v u : Nat) :
    isLive (mark p st v) u = true ↔ isLive st u = true ∨ (u = v ∧ v < st.live.length) := by
  unfold mark
  split
  · rename_i h
    simp only [Bool.and_eq_true, decide_eq_true_eq, Bool.not_eq_true'] at h
    simp only [isLive, List.getD_eq_getElem?_getD, List.getElem?_set]
    by_cases huv : v = u
    · subst huv; simp [h.1]
    · have : ¬ u = v := fun e => huv e.symm
      simp [huv, this]
  · rename_i h
    simp only [Bool.and_eq_true, decide_eq_true_eq, Bool.not_eq_true'] at h
    constructor
    · exact Or.inl
    · rintro (h1 | ⟨rfl, h2⟩)
      · exact h1
      · cases hl : isLive st u
        · exact absurd ⟨h2, hl⟩ h
        · rfl

theorem mark_mono (p : Prog) (st : St) (v u : Nat) (h : isLive st u = true) :
    isLive (mark p st v) u = true := (isLive_mark p st v u).2 (Or.inl h)

theorem mark_wl_sub (p : Prog) (st : St) (v x : Nat) (h : x ∈ st.wl) : x ∈ (mark p st v).wl := by
  unfold mark; split
  · simp [h]
  · exact h

theorem mem_deps {p : Prog} {st : St} {v i : Nat} {op : Op} (hop : p.ops[i]? = some op)
    (hreg : st.reg.getD i false = true) (hr : v ∈ op.results) : i ∈ deps p st v := by
  have hi : i < p.ops.length := by
    apply Classical.byContradiction; intro hn
    simp [List.getElem?_eq_none (Nat.le_of_not_lt hn)] at hop
  have hop' : p.ops[i] = op := by simpa [List.getElem?_eq_getElem hi] using hop
  have hreg' : st.reg[i]?.getD false = true := by simpa [List.getD_eq_getElem?_getD] using hreg
  simp [deps, List.mem_filter, List.mem_range, hi, hasResult, hreg', hop', hr]

theorem deps_length (p : Prog) (st : St) (v : Nat) : (deps p st v).length ≤ p.ops.length := by
  unfold deps
  exact Nat.le_trans (List.length_filter_le _ _) (by simp)

theorem mark_wl_changed {p : Prog} {st : St} {v x : Nat} (h1 : v < st.live.length)
    (h2 : isLive st v = false) (hx : x ∈ deps p st v) : x ∈ (mark p st v).wl := by
  unfold mark; simp [h1, h2, hx]

/-! ## Termination potential -/

def dead (st : St) : Nat := st.live.count false

def pot (p : Prog) (st : St) : Nat := st.wl.length + p.ops.length * dead st

theorem mark_pot (p : Prog) (st : St) (v : Nat) : pot p (mark p st v) ≤ pot p st := by
  unfold mark
  split
  · rename_i h
    simp only [Bool.and_eq_true, decide_eq_true_eq, Bool.not_eq_true'] at h
    obtain ⟨h1, h2⟩ := h
    have hv : st.live[v] = false := by
      simpa [isLive, List.getD_eq_getElem?_getD, List.getElem?_eq_getElem h1] using h2
    have hpos : 0 < st.live.count false := by
      apply List.count_pos_iff.2
      rw [← hv]; exact List.getElem_mem h1
    have hd : dead { st with live := st.live.set v true, wl := st.wl ++ deps p st v } + 1 = dead st := by
      simp only [dead, List.count_set h1, hv]
      simp; omega
    have hl := deps_length p st v
    simp only [pot, List.length_append]
    rw [← hd, Nat.mul_add]
    omega
  · exact Nat.le_refl _

/-! ## markAll -/

theorem markAll_nil (p : Prog) (st : St) : markAll p st [] = st := rfl

theorem markAll_cons (p : Prog) (st : St) (v : Nat) (vs : List Nat) :
    markAll p st (v :: vs) = markAll p (mark p st v) vs := rfl

theorem markAll_reg (p : Prog) (st : St) (vs : List Nat) : (markAll p st vs).reg = st.reg := by
  induction vs generalizing st with
  | nil => rfl
  | cons v vs ih => rw [markAll_cons, ih, mark_reg]

theorem markAll_trace (p : Prog) (st : St) (vs : List Nat) : (markAll p st vs).trace = st.trace := by
  induction vs generalizing st with
  | nil => rfl
  | cons v vs ih => rw [markAll_cons, ih, mark_trace]

theorem markAll_exec (p : Prog) (st : St) (vs : List Nat) : (markAll p st vs).exec = st.exec := by
  induction vs generalizing st with
  | nil => rfl
  | cons v vs ih => rw [markAll_cons, ih, mark_exec]

theorem markAll_len (p : Prog) (st : St) (vs : List Nat) :
    (markAll p st vs).live.length = st.live.length := by
  induction vs generalizing st with
  | nil => rfl
  | cons v vs ih => rw [markAll_cons, ih, mark_len]

theorem markAll_mono (p : Prog) (st : St) (vs : List Nat) (u : Nat) (h : isLive st u = true) :
    isLive (markAll p st vs) u = true := by
  induction vs generalizing st with
  | nil => exact h
  | cons v vs ih => rw [markAll_cons]; exact ih _ (mark_mono p st v u h)

theorem markAll_wl_sub (p : Prog) (st : St) (vs : List Nat) (x : Nat) (h : x ∈ st.wl) :
    x ∈ (markAll p st vs).wl := by
  induction vs generalizing st with
  | nil => exact h
  | cons v vs ih => rw [markAll_cons]; exact ih _ (mark_wl_sub p st v x h)

theorem markAll_pot (p : Prog) (st : St) (vs : List Nat) : pot p (markAll p st vs) ≤ pot p st := by
  induction vs generalizing st with
  | nil => exact Nat.le_refl _
  | cons v vs ih => rw [markAll_cons]; exact Nat.le_trans (ih _) (mark_pot p st v)

/-- after `for operand in operand_lattices: mark_live` every operand (that has a lattice) is live -/
theorem markAll_all_live (p : Prog) (st : St) (vs : List Nat) (o : Nat) (ho : o ∈ vs)
    (hlt : o < st.live.length) : isLive (markAll p st vs) o = true := by
  induction vs generalizing st with
  | nil => cases ho
  | cons v vs ih =>
    rw [markAll_cons]
    rcases List.mem_cons.1 ho with rfl | h
    · exact markAll_mono p _ vs _ ((isLive_mark p st o o).2 (Or.inr ⟨rfl, hlt⟩))
    · exact ih _ h (by rw [mark_len]; exact hlt)

/-- a value that is live after `markAll` was live before or is one of the marked ones -/
theorem isLive_markAll (p : Prog) (st : St) (vs : List Nat) (u : Nat)
    (h : isLive (markAll p st vs) u = true) : isLive st u = true ∨ u ∈ vs := by
  induction vs generalizing st with
  | nil => exact Or.inl h
  | cons v vs ih =>
    rw [markAll_cons] at h
    rcases ih _ h with h1 | h1
    · rcases (isLive_mark p st v u).1 h1 with h2 | ⟨rfl, _⟩
      · exact Or.inl h2
      · exact Or.inr (List.mem_cons_self)
    · exact Or.inr (List.mem_cons_of_mem _ h1)

/-! ## Soundness part of the invariant -/

def Sound (p : Prog) (st : St) : Prop := ∀ v, isLive st v = true → Live p v

theorem markAll_sound (p : Prog) (st : St) (vs : List Nat) (hs : Sound p st)
    (hlen : st.live.length = p.nvals) (hv : ∀ v ∈ vs, v < p.nvals → Live p v) :
    Sound p (markAll p st vs) := by
  intro u hu
  rcases isLive_markAll p st vs u hu with h | h
  · exact hs u h
  · have := isLive_lt hu
    rw [markAll_len, hlen] at this
    exact hv u h this

/-! ## Scheduling part of the invariant -/

/-- nothing left to do at `op`: if it is not trivially removable or one of its results is live, all
its operands are live -/
def Stable (p : Prog) (st : St) (op : Op) : Prop :=
  (op.wbd = false ∨ ∃ r ∈ op.results, isLive st r = true) →
    ∀ o ∈ op.operands, o < p.nvals → isLive st o = true

/-- every registered op (satisfying `P`) is on the worklist or stable -/
def SchedOn (P : Nat → Prop) (p : Prog) (st : St) : Prop :=
  ∀ i op, p.ops[i]? = some op → st.reg.getD i false = true → P i → i ∈ st.wl ∨ Stable p st op

abbrev SchedAll (p : Prog) (st : St) : Prop := SchedOn (fun _ => True) p st

theorem mark_schedOn (P : Nat → Prop) (p : Prog) (st : St) (v : Nat) (h : SchedOn P p st) :
    SchedOn P p (mark p st v) := by
  intro i op hop hreg hP
  rw [mark_reg] at hreg
  rcases h i op hop hreg hP with hw | hs
  · exact Or.inl (mark_wl_sub p st v i hw)
  · by_cases hc : (v < st.live.length ∧ isLive st v = false) ∧ v ∈ op.results
    · exact Or.inl (mark_wl_changed hc.1.1 hc.1.2 (mem_deps hop hreg hc.2))
    · refine Or.inr ?_
      intro hpre o ho holt
      apply mark_mono
      apply hs _ o ho holt
      rcases hpre with hw | ⟨r, hr, hrl⟩
      · exact Or.inl hw
      · rcases (isLive_mark p st v r).1 hrl with h1 | ⟨rfl, h2⟩
        · exact Or.inr ⟨r, hr, h1⟩
        · refine Or.inr ⟨r, hr, ?_⟩
          cases hl : isLive st r
          · exact absurd ⟨⟨h2, hl⟩, hr⟩ hc
          · rfl

theorem markAll_schedOn (P : Nat → Prop) (p : Prog) (st : St) (vs : List Nat) (h : SchedOn P p st) :
    SchedOn P p (markAll p st vs) := by
  induction vs generalizing st with
  | nil => exact h
  | cons v vs ih => rw [markAll_cons]; exact ih _ (mark_schedOn P p st v h)

/-! ## Monotonicity -/

def Le (st st' : St) : Prop :=
  (∀ v, isLive st v = true → isLive st' v = true) ∧
  (∀ i, st.reg.getD i false = true → st'.reg.getD i false = true)

theorem Le.refl (st : St) : Le st st := ⟨fun _ h => h, fun _ h => h⟩

theorem Le.trans {a b c : St} (h1 : Le a b) (h2 : Le b c) : Le a c :=
  ⟨fun v h => h2.1 v (h1.1 v h), fun i h => h2.2 i (h1.2 i h)⟩

theorem markAll_le (p : Prog) (st : St) (vs : List Nat) : Le st (markAll p st vs) :=
  ⟨fun v h => markAll_mono p st vs v h, fun i h => by rw [markAll_reg]; exact h⟩

theorem getD_set_true_mono (l : List Bool) (j i : Nat) (h : l.getD i false = true) :
    (l.set j true).getD i false = true := by
  simp only [List.getD_eq_getElem?_getD, List.getElem?_set] at *
  by_cases hji : j = i
  · subst hji
    have : j < l.length := by
      apply Classical.byContradiction; intro hn
      simp [List.getElem?_eq_none (Nat.le_of_not_lt hn)] at h
    simp [this]
  · simp [hji, h]

theorem getD_set_true_self (l : List Bool) (j : Nat) (h : j < l.length) :
    (l.set j true).getD j false = true := by
  simp [List.getD_eq_getElem?_getD, h]

theorem getD_set_true_ne (l : List Bool) (j i : Nat) (hne : i ≠ j)
    (h : (l.set j true).getD i false = true) : l.getD i false = true := by
  simp only [List.getD_eq_getElem?_getD, List.getElem?_set] at *
  have : ¬ j = i := fun e => hne e.symm
  simpa [this] using h

/-! ## visit -/

def st0 (j : Nat) (st : St) : St := { st with reg := st.reg.set j true }

def st1 (p : Prog) (j : Nat) (op : Op) (st : St) : St :=
  if op.wbd then st0 j st else markAll p (st0 j st) op.operands

def visitBody (p : Prog) (j : Nat) (op : Op) (st : St) : St :=
  if op.results.any (isLive (st1 p j op st)) then markAll p (st1 p j op st) op.operands
  else st1 p j op st

theorem visit_eq (p : Prog) (j : Nat) (st : St) :
    visit p j st = match p.ops[j]? with
      | none => st
      | some op =>
        if op.operands.isEmpty then st
        else if !isExec st op.blk then st else visitBody p j op st := rfl

theorem isLive_st0 (j : Nat) (st : St) (v : Nat) : isLive (st0 j st) v = isLive st v := rfl

/-- anything true of the state after registration and preserved by `markAll` holds after the visit -/
theorem visitBody_ind (Q : St → Prop) (p : Prog) (j : Nat) (op : Op) (st : St) (h0 : Q (st0 j st))
    (hm : ∀ s, Q s → Q (markAll p s op.operands)) : Q (visitBody p j op st) := by
  have h1 : Q (st1 p j op st) := by
    unfold st1; split
    · exact h0
    · exact hm _ h0
  unfold visitBody; split
  · exact hm _ h1
  · exact h1

theorem visitBody_len (p : Prog) (j : Nat) (op : Op) (st : St) :
    (visitBody p j op st).live.length = st.live.length :=
  visitBody_ind (fun s => s.live.length = st.live.length) p j op st rfl
    (fun s h => by rw [markAll_len]; exact h)

theorem visitBody_reg (p : Prog) (j : Nat) (op : Op) (st : St) :
    (visitBody p j op st).reg = st.reg.set j true :=
  visitBody_ind (fun s => s.reg = st.reg.set j true) p j op st rfl
    (fun s h => by rw [markAll_reg]; exact h)

theorem visitBody_trace (p : Prog) (j : Nat) (op : Op) (st : St) :
    (visitBody p j op st).trace = st.trace :=
  visitBody_ind (fun s => s.trace = st.trace) p j op st rfl
    (fun s h => by rw [markAll_trace]; exact h)

theorem visitBody_exec (p : Prog) (j : Nat) (op : Op) (st : St) :
    (visitBody p j op st).exec = st.exec :=
  visitBody_ind (fun s => s.exec = st.exec) p j op st rfl
    (fun s h => by rw [markAll_exec]; exact h)

theorem visitBody_wl_sub (p : Prog) (j : Nat) (op : Op) (st : St) (x : Nat) (hx : x ∈ st.wl) :
    x ∈ (visitBody p j op st).wl :=
  visitBody_ind (fun s => x ∈ s.wl) p j op st hx (fun s h => markAll_wl_sub p s _ x h)

theorem visitBody_pot (p : Prog) (j : Nat) (op : Op) (st : St) :
    pot p (visitBody p j op st) ≤ pot p st :=
  visitBody_ind (fun s => pot p s ≤ pot p st) p j op st (Nat.le_refl _)
    (fun s h => Nat.le_trans (markAll_pot p s _) h)

theorem visitBody_le (p : Prog) (j : Nat) (op : Op) (st : St) : Le st (visitBody p j op st) :=
  visitBody_ind (fun s => Le st s) p j op st
    ⟨fun _ h => h, fun i h => getD_set_true_mono st.reg j i h⟩
    (fun s h => Le.trans h (markAll_le p s _))

theorem visitBody_schedOn (p : Prog) (j : Nat) (op : Op) (st : St)
    (h : SchedOn (fun i => i ≠ j) p st) : SchedOn (fun i => i ≠ j) p (visitBody p j op st) := by
  refine visitBody_ind (fun s => SchedOn (fun i => i ≠ j) p s) p j op st ?_
    (fun s hs => markAll_schedOn _ p s _ hs)
  intro i op' hop hreg hne
  exact h i op' hop (getD_set_true_ne st.reg j i hne hreg) hne

theorem st1_len (p : Prog) (j : Nat) (op : Op) (st : St) :
    (st1 p j op st).live.length = st.live.length := by
  unfold st1; split
  · rfl
  · rw [markAll_len]; rfl

theorem visitBody_stable (p : Prog) (j : Nat) (op : Op) (st : St) (hlen : st.live.length = p.nvals) :
    Stable p (visitBody p j op st) op := by
  unfold visitBody
  split
  · intro _ o ho hlt
    exact markAll_all_live p _ _ o ho (by rw [st1_len, hlen]; exact hlt)
  · rename_i hany
    intro hpre o ho hlt
    rcases hpre with hw | ⟨r, hr, hrl⟩
    · unfold st1
      simp only [hw, Bool.false_eq_true, if_false]
      exact markAll_all_live p _ _ o ho (by show st.live.length > o; rw [hlen]; exact hlt)
    · exact absurd (List.any_eq_true.2 ⟨r, hr, hrl⟩) hany

theorem visitBody_sound (p : Prog) (j : Nat) (op : Op) (st : St) (hop : op ∈ p.ops)
    (hex : ExecP p op) (hlen : st.live.length = p.nvals) (hs : Sound p st) : Sound p (visitBody p j op st) := by
  have h1 : Sound p (st1 p j op st) := by
    unfold st1
    cases hw : op.wbd
    · simp only [Bool.false_eq_true, if_false]
      exact markAll_sound p _ _ hs hlen
        (fun v hv hlt => Live.root hlt (Or.inr (Or.inr ⟨op, hop, hex, hw, hv⟩)))
    · simp only [if_true]
      exact hs
  unfold visitBody
  split
  · rename_i hany
    obtain ⟨r, hr, hrl⟩ := List.any_eq_true.1 hany
    exact markAll_sound p _ _ h1 (by rw [st1_len, hlen])
      (fun v hv hlt => Live.step hlt ⟨op, hop, hex, hv, hr⟩ (h1 r hrl))
  · exact h1

/-! ## The solver invariant -/

structure Inv (p : Prog) (st : St) : Prop where
  len : st.live.length = p.nvals
  rlen : st.reg.length = p.ops.length
  sound : Sound p st
  sched : SchedAll p st
  /-- only blocks of `pre`/`post` are ever executable -/
  execSub : ∀ b, isExec st b = true → b ∈ p.pre ∨ b ∈ p.post
  /-- an op is registered only while its block is executable -/
  regExec : ∀ i op, p.ops[i]? = some op → st.reg.getD i false = true → isExec st op.blk = true

theorem visit_inv (p : Prog) (j : Nat) (st : St) (hlen : st.live.length = p.nvals)
    (hrlen : st.reg.length = p.ops.length) (hsound : Sound p st)
    (hsched : SchedOn (fun i => i ≠ j) p st)
    (hex : ∀ b, isExec st b = true → b ∈ p.pre ∨ b ∈ p.post)
    (hre : ∀ i op, p.ops[i]? = some op → st.reg.getD i false = true → isExec st op.blk = true) :
    Inv p (visit p j st) := by
  rw [visit_eq]
  split
  · rename_i hnone
    refine ⟨hlen, hrlen, hsound, ?_, hex, hre⟩
    intro i op hop hreg _
    exact hsched i op hop hreg (by rintro rfl; rw [hnone] at hop; cases hop)
  · rename_i op hsome
    split
    · rename_i hemp
      refine ⟨hlen, hrlen, hsound, ?_, hex, hre⟩
      intro i op' hop hreg _
      by_cases hij : i = j
      · subst hij
        rw [hsome] at hop; cases hop
        refine Or.inr ?_
        intro _ o ho
        rw [List.isEmpty_iff.1 hemp] at ho; cases ho
      · exact hsched i op' hop hreg hij
    · split
      · rename_i hgate
        refine ⟨hlen, hrlen, hsound, ?_, hex, hre⟩
        intro i op' hop hreg _
        by_cases hij : i = j
        · subst hij
          rw [hsome] at hop; cases hop
          have := hre i _ hsome hreg
          rw [this] at hgate; cases hgate
        · exact hsched i op' hop hreg hij
      · rename_i hgate
        have hx : isExec st op.blk = true := by simpa using hgate
        refine ⟨by rw [visitBody_len]; exact hlen, by rw [visitBody_reg, List.length_set]; exact hrlen,
          visitBody_sound p j op st (List.mem_of_getElem? hsome) (hex _ hx) hlen hsound, ?_, ?_, ?_⟩
        · intro i op' hop hreg _
          by_cases hij : i = j
          · subst hij
            rw [hsome] at hop; cases hop
            exact Or.inr (visitBody_stable p i op st hlen)
          · exact visitBody_schedOn p j op st hsched i op' hop hreg hij
        · intro b hb
          rw [isExec_congr (visitBody_exec p j op st)] at hb
          exact hex b hb
        · intro i op' hop hreg
          rw [isExec_congr (visitBody_exec p j op st)]
          rw [visitBody_reg] at hreg
          by_cases hij : i = j
          · subst hij
            rw [hsome] at hop; cases hop
            exact hx
          · exact hre i op' hop (getD_set_true_ne st.reg j i hij hreg)

theorem visit_pot (p : Prog) (j : Nat) (st : St) : pot p (visit p j st) ≤ pot p st := by
  rw [visit_eq]
  split
  · exact Nat.le_refl _
  · split
    · exact Nat.le_refl _
    · split
      · exact Nat.le_refl _
      · exact visitBody_pot p j _ st

theorem visit_le (p : Prog) (j : Nat) (st : St) : Le st (visit p j st) := by
  rw [visit_eq]
  split
  · exact Le.refl _
  · split
    · exact Le.refl _
    · split
      · exact Le.refl _
      · exact visitBody_le p j _ st

theorem visit_exec (p : Prog) (j : Nat) (st : St) : (visit p j st).exec = st.exec := by
  rw [visit_eq]
  split
  · rfl
  · split
    · rfl
    · split
      · rfl
      · exact visitBody_exec p j _ st

theorem visit_wl_sub (p : Prog) (j : Nat) (st : St) (x : Nat) (hx : x ∈ st.wl) :
    x ∈ (visit p j st).wl := by
  rw [visit_eq]
  split
  · exact hx
  · split
    · exact hx
    · split
      · exact hx
      · exact visitBody_wl_sub p j _ st x hx

theorem visit_trace (p : Prog) (j : Nat) (st : St) : (visit p j st).trace = st.trace := by
  rw [visit_eq]
  split
  · rfl
  · split
    · rfl
    · split
      · rfl
      · exact visitBody_trace p j _ st

theorem visit_reg_self (p : Prog) (j : Nat) (st : St) (op : Op) (hop : p.ops[j]? = some op)
    (hne : op.operands ≠ []) (hrlen : st.reg.length = p.ops.length)
    (hx : isExec st op.blk = true) :
    (visit p j st).reg.getD j false = true := by
  have hj : j < p.ops.length := by
    apply Classical.byContradiction; intro hn
    simp [List.getElem?_eq_none (Nat.le_of_not_lt hn)] at hop
  rw [visit_eq, hop]
  simp only
  have : op.operands.isEmpty = false := by
    cases h : op.operands with
    | nil => exact absurd h hne
    | cons a l => rfl
  simp only [this, Bool.false_eq_true, if_false, hx, Bool.not_true]
  rw [visitBody_reg]
  exact getD_set_true_self _ _ (by rw [hrlen]; exact hj)

/-! ## Initialisation -/

theorem getD_set_true_iff (l : List Bool) (v u : Nat) :
    (l.set v true).getD u false = true ↔ l.getD u false = true ∨ (u = v ∧ v < l.length) := by
  simp only [List.getD_eq_getElem?_getD, List.getElem?_set]
  by_cases hvu : v = u
  · subst hvu
    by_cases hl : v < l.length
    · simp [hl]
    · simp [hl]
  · have : ¬ u = v := fun e => hvu e.symm
    simp [hvu, this]

theorem foldl_set_len (vs : List Nat) (l : List Bool) :
    (vs.foldl (fun l v => l.set v true) l).length = l.length := by
  induction vs generalizing l with
  | nil => rfl
  | cons v vs ih => simp only [List.foldl_cons]; rw [ih, List.length_set]

theorem foldl_set_getD (vs : List Nat) (l : List Bool) (u : Nat) :
    (vs.foldl (fun l v => l.set v true) l).getD u false = true ↔
      l.getD u false = true ∨ (u ∈ vs ∧ u < l.length) := by
  induction vs generalizing l with
  | nil => simp
  | cons v vs ih =>
    simp only [List.foldl_cons]
    rw [ih, getD_set_true_iff, List.length_set]
    constructor
    · rintro ((h | ⟨rfl, h⟩) | ⟨h1, h2⟩)
      · exact Or.inl h
      · exact Or.inr ⟨List.mem_cons_self, h⟩
      · exact Or.inr ⟨List.mem_cons_of_mem _ h1, h2⟩
    · rintro (h | ⟨h1, h2⟩)
      · exact Or.inl (Or.inl h)
      · rcases List.mem_cons.1 h1 with rfl | h1
        · exact Or.inl (Or.inr ⟨rfl, h2⟩)
        · exact Or.inr ⟨h1, h2⟩

theorem replicate_false_getD (n i : Nat) : (List.replicate n false).getD i false = false := by
  simp only [List.getD_eq_getElem?_getD, List.getElem?_replicate]
  split <;> rfl

theorem init0_inv (p : Prog) : Inv p (init0 p) := by
  refine ⟨by simp [init0, foldl_set_len], by simp [init0], ?_, ?_, ?_, ?_⟩
  · intro v hv
    have hv' : (p.seeds.foldl (fun l v => l.set v true) (List.replicate p.nvals false)).getD v false
        = true := hv
    rw [foldl_set_getD, replicate_false_getD] at hv'
    rcases hv' with h | ⟨h1, h2⟩
    · cases h
    · exact Live.root (by simpa using h2) (Or.inl h1)
  · intro i op _ hreg _
    have : (List.replicate p.ops.length false).getD i false = true := hreg
    rw [replicate_false_getD] at this
    cases this
  · intro b hb
    have : p.pre.contains b = true := hb
    exact Or.inl (by simpa using this)
  · intro i op _ hreg
    have : (List.replicate p.ops.length false).getD i false = true := hreg
    rw [replicate_false_getD] at this
    cases this

theorem init0_seeds (p : Prog) (v : Nat) (hv : v ∈ p.seeds) (hlt : v < p.nvals) :
    isLive (init0 p) v = true := by
  show (p.seeds.foldl (fun l v => l.set v true) (List.replicate p.nvals false)).getD v false = true
  rw [foldl_set_getD]
  exact Or.inr ⟨hv, by simpa using hlt⟩

def walk (p : Prog) (js : List Nat) (st : St) : St := js.foldl (fun st j => visit p j st) st

theorem walk_inv (p : Prog) (js : List Nat) (st : St) (h : Inv p st) : Inv p (walk p js st) := by
  induction js generalizing st with
  | nil => exact h
  | cons j js ih =>
    exact ih _ (visit_inv p j st h.len h.rlen h.sound
      (fun i op hop hreg _ => h.sched i op hop hreg trivial) h.execSub h.regExec)

theorem walk_exec (p : Prog) (js : List Nat) (st : St) : (walk p js st).exec = st.exec := by
  induction js generalizing st with
  | nil => rfl
  | cons j js ih => exact (ih _).trans (visit_exec p j st)

theorem walk_le (p : Prog) (js : List Nat) (st : St) : Le st (walk p js st) := by
  induction js generalizing st with
  | nil => exact Le.refl _
  | cons j js ih => exact Le.trans (visit_le p j st) (ih _)

theorem walk_reg (p : Prog) (js : List Nat) (st : St) (h : Inv p st) (j : Nat) (hj : j ∈ js) (op : Op)
    (hop : p.ops[j]? = some op) (hne : op.operands ≠ []) (hx : isExec st op.blk = true) :
    (walk p js st).reg.getD j false = true := by
  induction js generalizing st with
  | nil => cases hj
  | cons a js ih =>
    have hinv := visit_inv p a st h.len h.rlen h.sound
      (fun i op hop hreg _ => h.sched i op hop hreg trivial) h.execSub h.regExec
    by_cases hin : j ∈ js
    · exact ih _ hinv hin (by rw [isExec_congr (visit_exec p a st)]; exact hx)
    · rcases List.mem_cons.1 hj with rfl | h'
      · exact (walk_le p js _).2 j (visit_reg_self p j st op hop hne h.rlen hx)
      · exact absurd h' hin

/-! ### marking blocks executable after the walk -/

def enableAll (p : Prog) (st : St) (bs : List Nat) : St := bs.foldl (enable p) st

theorem enableAll_cons (p : Prog) (st : St) (b : Nat) (bs : List Nat) :
    enableAll p st (b :: bs) = enableAll p (enable p st b) bs := rfl

theorem enable_live (p : Prog) (st : St) (b : Nat) : (enable p st b).live = st.live := by
  unfold enable; split <;> rfl

theorem enable_reg (p : Prog) (st : St) (b : Nat) : (enable p st b).reg = st.reg := by
  unfold enable; split <;> rfl

theorem enable_trace (p : Prog) (st : St) (b : Nat) : (enable p st b).trace = st.trace := by
  unfold enable; split <;> rfl

theorem enable_wl_sub (p : Prog) (st : St) (b x : Nat) (h : x ∈ st.wl) : x ∈ (enable p st b).wl := by
  unfold enable; split
  · exact h
  · simp [h]

theorem isExec_enable (p : Prog) (st : St) (b c : Nat) :
    isExec (enable p st b) c = true ↔ isExec st c = true ∨ c = b := by
  unfold enable
  split
  · rename_i h
    constructor
    · exact Or.inl
    · rintro (h1 | rfl)
      · exact h1
      · exact h
  · simp only [isExec, List.contains_cons, Bool.or_eq_true, beq_iff_eq]
    constructor
    · rintro (h1 | h1)
      · exact Or.inr h1
      · exact Or.inl h1
    · rintro (h1 | h1)
      · exact Or.inr h1
      · exact Or.inl h1

theorem enable_wl_new (p : Prog) (st : St) (b x : Nat) (hb : isExec st b = false)
    (hx : x ∈ blockOps p b) : x ∈ (enable p st b).wl := by
  unfold enable; simp [hb, hx]

theorem isLive_enable (p : Prog) (st : St) (b v : Nat) : isLive (enable p st b) v = isLive st v := by
  unfold isLive; rw [enable_live]

theorem enable_inv (p : Prog) (st : St) (b : Nat) (h : Inv p st) (hb : b ∈ p.post) :
    Inv p (enable p st b) := by
  refine ⟨by rw [enable_live]; exact h.len, by rw [enable_reg]; exact h.rlen, ?_, ?_, ?_, ?_⟩
  · intro v hv; rw [isLive_enable] at hv; exact h.sound v hv
  · intro i op hop hreg _
    rw [enable_reg] at hreg
    rcases h.sched i op hop hreg trivial with hw | hs
    · exact Or.inl (enable_wl_sub p st b i hw)
    · refine Or.inr ?_
      intro hpre o ho hlt
      rw [isLive_enable]
      apply hs _ o ho hlt
      rcases hpre with hw | ⟨r, hr, hrl⟩
      · exact Or.inl hw
      · exact Or.inr ⟨r, hr, by rw [isLive_enable] at hrl; exact hrl⟩
  · intro c hc
    rcases (isExec_enable p st b c).1 hc with h1 | rfl
    · exact h.execSub c h1
    · exact Or.inr hb
  · intro i op hop hreg
    rw [enable_reg] at hreg
    exact (isExec_enable p st b _).2 (Or.inl (h.regExec i op hop hreg))

theorem enableAll_inv (p : Prog) (bs : List Nat) (st : St) (h : Inv p st) (hbs : ∀ b ∈ bs, b ∈ p.post) :
    Inv p (enableAll p st bs) := by
  induction bs generalizing st with
  | nil => exact h
  | cons b bs ih =>
    rw [enableAll_cons]
    exact ih _ (enable_inv p st b h (hbs b List.mem_cons_self))
      (fun c hc => hbs c (List.mem_cons_of_mem _ hc))

theorem enableAll_le (p : Prog) (bs : List Nat) (st : St) : Le st (enableAll p st bs) := by
  induction bs generalizing st with
  | nil => exact Le.refl _
  | cons b bs ih =>
    rw [enableAll_cons]
    refine Le.trans ?_ (ih _)
    exact ⟨fun v h => by rw [isLive_enable]; exact h, fun i h => by rw [enable_reg]; exact h⟩

theorem enableAll_wl_sub (p : Prog) (bs : List Nat) (st : St) (x : Nat) (h : x ∈ st.wl) :
    x ∈ (enableAll p st bs).wl := by
  induction bs generalizing st with
  | nil => exact h
  | cons b bs ih => rw [enableAll_cons]; exact ih _ (enable_wl_sub p st b x h)

theorem enableAll_trace (p : Prog) (bs : List Nat) (st : St) :
    (enableAll p st bs).trace = st.trace := by
  induction bs generalizing st with
  | nil => rfl
  | cons b bs ih => rw [enableAll_cons, ih, enable_trace]

theorem enableAll_exec_mono (p : Prog) (bs : List Nat) (st : St) (c : Nat) (h : isExec st c = true) :
    isExec (enableAll p st bs) c = true := by
  induction bs generalizing st with
  | nil => exact h
  | cons b bs ih => rw [enableAll_cons]; exact ih _ ((isExec_enable p st b c).2 (Or.inl h))

theorem enableAll_exec (p : Prog) (bs : List Nat) (st : St) (c : Nat) (hc : c ∈ bs) :
    isExec (enableAll p st bs) c = true := by
  induction bs generalizing st with
  | nil => cases hc
  | cons b bs ih =>
    rw [enableAll_cons]
    rcases List.mem_cons.1 hc with rfl | h
    · exact enableAll_exec_mono p bs _ c ((isExec_enable p st c c).2 (Or.inr rfl))
    · exact ih _ h

/-- the ops of a block that was not executable before are all enqueued -/
theorem enableAll_wl_new (p : Prog) (bs : List Nat) (st : St) (c x : Nat) (hc : c ∈ bs)
    (hn : isExec st c = false) (hx : x ∈ blockOps p c) : x ∈ (enableAll p st bs).wl := by
  induction bs generalizing st with
  | nil => cases hc
  | cons b bs ih =>
    rw [enableAll_cons]
    by_cases hcb : c = b
    · subst hcb
      exact enableAll_wl_sub p bs _ x (enable_wl_new p st c x hn hx)
    · rcases List.mem_cons.1 hc with rfl | h
      · exact absurd rfl hcb
      · refine ih _ h ?_
        cases he : isExec (enable p st b) c
        · rfl
        · rcases (isExec_enable p st b c).1 he with h1 | h1
          · rw [hn] at h1; cases h1
          · exact absurd h1 hcb

theorem mem_blockOps {p : Prog} {i : Nat} {op : Op} (hop : p.ops[i]? = some op) :
    i ∈ blockOps p op.blk := by
  have hi : i < p.ops.length := by
    apply Classical.byContradiction; intro hn
    simp [List.getElem?_eq_none (Nat.le_of_not_lt hn)] at hop
  have hop' : p.ops[i] = op := by simpa [List.getElem?_eq_getElem hi] using hop
  simp [blockOps, List.mem_filter, List.mem_range, hi, hop']

theorem init_eq (p : Prog) :
    init p = enableAll p
      (markAll p (walk p (List.range p.ops.length).reverse (init0 p)) p.exits) p.post := rfl

theorem init_inv (p : Prog) : Inv p (init p) := by
  rw [init_eq]
  have hw := walk_inv p (List.range p.ops.length).reverse (init0 p) (init0_inv p)
  refine enableAll_inv p _ _ ?_ (fun b hb => hb)
  refine ⟨by rw [markAll_len]; exact hw.len, by rw [markAll_reg]; exact hw.rlen, ?_, ?_, ?_, ?_⟩
  · exact markAll_sound p _ _ hw.sound hw.len (fun v hv hlt => Live.root hlt (Or.inr (Or.inl hv)))
  · exact markAll_schedOn _ p _ _ hw.sched
  · intro b hb; rw [isExec_congr (markAll_exec p _ _)] at hb; exact hw.execSub b hb
  · intro i op hop hreg
    rw [isExec_congr (markAll_exec p _ _)]
    rw [markAll_reg] at hreg
    exact hw.regExec i op hop hreg

/-- what initialisation establishes and the rest of the run keeps: every op with operands of an
executable block is waiting on the worklist or has been visited (registered); every block of
`pre`/`post` is executable; the boundary values are live -/
structure Ready (p : Prog) (st : St) : Prop where
  cover : ∀ i op, p.ops[i]? = some op → op.operands ≠ [] → ExecP p op →
    i ∈ st.wl ∨ st.reg.getD i false = true
  execAll : ∀ b, b ∈ p.pre ∨ b ∈ p.post → isExec st b = true
  seeds : ∀ v ∈ p.seeds, v < p.nvals → isLive st v = true
  exits : ∀ v ∈ p.exits, v < p.nvals → isLive st v = true

theorem init_ready (p : Prog) : Ready p (init p) := by
  rw [init_eq]
  have hw := walk_inv p (List.range p.ops.length).reverse (init0 p) (init0_inv p)
  have hexec : ∀ b, isExec (markAll p (walk p (List.range p.ops.length).reverse (init0 p)) p.exits) b
      = p.pre.contains b := by
    intro b
    rw [isExec_congr (markAll_exec p _ _), isExec_congr (walk_exec p _ _)]
    rfl
  refine ⟨?_, ?_, ?_, ?_⟩
  · intro i op hop hne hex
    have hi : i < p.ops.length := by
      apply Classical.byContradiction; intro hn
      simp [List.getElem?_eq_none (Nat.le_of_not_lt hn)] at hop
    by_cases hpre : op.blk ∈ p.pre
    · refine Or.inr ((enableAll_le p _ _).2 i ?_)
      rw [markAll_reg]
      exact walk_reg p _ _ (init0_inv p) i (by simp [hi]) op hop hne
        (by show p.pre.contains op.blk = true; simpa using hpre)
    · have hpost : op.blk ∈ p.post := by
        rcases hex with h | h
        · exact absurd h hpre
        · exact h
      refine Or.inl (enableAll_wl_new p _ _ op.blk i hpost ?_ (mem_blockOps hop))
      rw [hexec]; simpa using hpre
  · intro b hb
    by_cases hpost : b ∈ p.post
    · exact enableAll_exec p _ _ b hpost
    · refine enableAll_exec_mono p _ _ b ?_
      rw [hexec]
      rcases hb with h | h
      · simpa using h
      · exact absurd h hpost
  · intro v hv hlt
    exact (enableAll_le p _ _).1 v
      (markAll_mono p _ _ v ((walk_le p _ _).1 v (init0_seeds p v hv hlt)))
  · intro v hv hlt
    exact (enableAll_le p _ _).1 v (markAll_all_live p _ _ v hv (by rw [hw.len]; exact hlt))

/-! ## The worklist loop -/

theorem step_facts (p : Prog) (pick : Sched) (k : Nat) (st : St) (hne : st.wl ≠ []) :
    ∃ i j, i < st.wl.length ∧ st.wl[i]? = some j ∧
      step p pick k st = visit p j { st with wl := st.wl.eraseIdx i, trace := j :: st.trace } := by
  have hpos : 0 < st.wl.length := List.length_pos_iff.2 hne
  refine ⟨pick k st.wl % st.wl.length, st.wl.getD (pick k st.wl % st.wl.length) 0,
    Nat.mod_lt _ hpos, ?_, rfl⟩
  rw [List.getD_eq_getElem?_getD, List.getElem?_eq_getElem (Nat.mod_lt _ hpos)]
  rfl

theorem step_inv (p : Prog) (pick : Sched) (k : Nat) (st : St) (h : Inv p st) (hne : st.wl ≠ []) :
    Inv p (step p pick k st) := by
  obtain ⟨i, j, hi, hj, heq⟩ := step_facts p pick k st hne
  rw [heq]
  refine visit_inv p j _ h.len h.rlen h.sound ?_ h.execSub h.regExec
  intro i' op hop hreg hne'
  rcases h.sched i' op hop hreg trivial with hw | hs
  · refine Or.inl ?_
    obtain ⟨m, hm, e⟩ := List.mem_iff_getElem.1 hw
    refine List.mem_eraseIdx_iff_getElem.2 ⟨m, hm, ?_, e⟩
    rintro rfl
    rw [List.getElem?_eq_getElem hm] at hj
    cases hj
    exact hne' e.symm
  · exact Or.inr hs

theorem step_pot (p : Prog) (pick : Sched) (k : Nat) (st : St) (hne : st.wl ≠ []) :
    pot p (step p pick k st) + 1 ≤ pot p st := by
  obtain ⟨i, j, hi, _, heq⟩ := step_facts p pick k st hne
  rw [heq]
  have h1 := visit_pot p j { st with wl := st.wl.eraseIdx i, trace := j :: st.trace }
  have h2 : pot p { st with wl := st.wl.eraseIdx i, trace := j :: st.trace } + 1 = pot p st := by
    simp only [pot, dead, List.length_eraseIdx, hi, if_true]
    omega
  omega

theorem step_le (p : Prog) (pick : Sched) (k : Nat) (st : St) (hne : st.wl ≠ []) :
    Le st (step p pick k st) := by
  obtain ⟨i, j, _, _, heq⟩ := step_facts p pick k st hne
  rw [heq]
  have h0 : Le st { st with wl := st.wl.eraseIdx i, trace := j :: st.trace } :=
    ⟨fun _ h => h, fun _ h => h⟩
  exact Le.trans h0 (visit_le p j _)

theorem run_zero (p : Prog) (pick : Sched) (k : Nat) (st : St) : run p pick 0 k st = st := rfl

theorem run_succ (p : Prog) (pick : Sched) (f k : Nat) (st : St) :
    run p pick (f + 1) k st =
      if st.wl.isEmpty then st else run p pick f (k + 1) (step p pick k st) := rfl

theorem run_inv (p : Prog) (pick : Sched) (f k : Nat) (st : St) (h : Inv p st) :
    Inv p (run p pick f k st) := by
  induction f generalizing k st with
  | zero => exact h
  | succ f ih =>
    rw [run_succ]; split
    · exact h
    · rename_i hne
      exact ih _ _ (step_inv p pick k st h (by intro e; rw [e] at hne; exact hne rfl))

theorem run_le (p : Prog) (pick : Sched) (f k : Nat) (st : St) : Le st (run p pick f k st) := by
  induction f generalizing k st with
  | zero => exact Le.refl _
  | succ f ih =>
    rw [run_succ]; split
    · exact Le.refl _
    · rename_i hne
      exact Le.trans (step_le p pick k st (by intro e; rw [e] at hne; exact hne rfl)) (ih _ _)

theorem step_ready (p : Prog) (pick : Sched) (k : Nat) (st : St) (h : Ready p st) (hinv : Inv p st)
    (hne : st.wl ≠ []) : Ready p (step p pick k st) := by
  have hle := step_le p pick k st hne
  obtain ⟨i, j, hi, hj, heq⟩ := step_facts p pick k st hne
  refine ⟨?_, ?_, fun v hv hlt => hle.1 v (h.seeds v hv hlt), fun v hv hlt => hle.1 v (h.exits v hv hlt)⟩
  · intro i' op hop hne' hex
    rcases h.cover i' op hop hne' hex with hw | hreg
    · by_cases hij : i' = j
      · subst hij
        refine Or.inr ?_
        rw [heq]
        exact visit_reg_self p i' _ op hop hne' hinv.rlen (h.execAll _ hex)
      · refine Or.inl ?_
        rw [heq]
        apply visit_wl_sub
        obtain ⟨m, hm, e⟩ := List.mem_iff_getElem.1 hw
        refine List.mem_eraseIdx_iff_getElem.2 ⟨m, hm, ?_, e⟩
        rintro rfl
        rw [List.getElem?_eq_getElem hm] at hj
        cases hj
        exact hij e.symm
    · exact Or.inr (hle.2 i' hreg)
  · intro b hb
    rw [heq, isExec_congr (visit_exec p j _)]
    exact h.execAll b hb

theorem run_ready (p : Prog) (pick : Sched) (f k : Nat) (st : St) (h : Ready p st) (hinv : Inv p st) :
    Ready p (run p pick f k st) := by
  induction f generalizing k st with
  | zero => exact h
  | succ f ih =>
    rw [run_succ]; split
    · exact h
    · rename_i hne
      have hne' : st.wl ≠ [] := by intro e; rw [e] at hne; exact hne rfl
      exact ih _ _ (step_ready p pick k st h hinv hne') (step_inv p pick k st hinv hne')

theorem run_wl (p : Prog) (pick : Sched) (f k : Nat) (st : St) (h : pot p st ≤ f) :
    (run p pick f k st).wl = [] := by
  induction f generalizing k st with
  | zero =>
    rw [run_zero]
    have : st.wl.length = 0 := by unfold pot at h; omega
    exact List.length_eq_zero_iff.1 this
  | succ f ih =>
    rw [run_succ]; split
    · rename_i he; exact List.isEmpty_iff.1 he
    · rename_i hne
      have := step_pot p pick k st (by intro e; rw [e] at hne; exact hne rfl)
      exact ih _ _ (by omega)

theorem pot_le_fuel (p : Prog) (st : St) (hlen : st.live.length = p.nvals) : pot p st ≤ fuel p st := by
  unfold pot fuel dead
  have : st.live.count false ≤ p.nvals := hlen ▸ List.count_le_length
  exact Nat.add_le_add_left (Nat.mul_le_mul_left _ this) _

/-- at a state satisfying the invariant with an empty worklist every specified-live value is live -/
theorem complete_of_wl_nil (p : Prog) (st : St) (hinv : Inv p st) (hr : Ready p st) (hwl : st.wl = [])
    (v : Nat) (h : Live p v) : isLive st v = true := by
  have stable : ∀ op ∈ p.ops, op.operands ≠ [] → ExecP p op → Stable p st op := by
    intro op hop hne hex
    obtain ⟨i, hi, e⟩ := List.mem_iff_getElem.1 hop
    have hop' : p.ops[i]? = some op := by rw [List.getElem?_eq_getElem hi, e]
    have hreg : st.reg.getD i false = true := by
      rcases hr.cover i op hop' hne hex with hw | hreg
      · rw [hwl] at hw; cases hw
      · exact hreg
    rcases hinv.sched i op hop' hreg trivial with hw | hs
    · rw [hwl] at hw; cases hw
    · exact hs
  induction h with
  | root hlt hroot =>
    rcases hroot with hs | he | ⟨op, hop, hex, hw, ho⟩
    · exact hr.seeds _ hs hlt
    · exact hr.exits _ he hlt
    · exact stable op hop (List.ne_nil_of_mem ho) hex (Or.inl hw) _ ho hlt
  | step hlt hf _ ih =>
    obtain ⟨op, hop, hex, ho, hres⟩ := hf
    exact stable op hop (List.ne_nil_of_mem ho) hex (Or.inr ⟨_, hres, ih⟩) _ ho hlt

/-! ## Specification, continued: closure operator and operand chains -/

/-- one application of the specified closure: boundary demand, or operand of an op with a result in `S` -/
def F (p : Prog) (S : Nat → Prop) (v : Nat) : Prop :=
  v < p.nvals ∧ (Root p v ∨ ∃ r, Feeds p v r ∧ S r)

theorem F_congr (p : Prog) {S T : Nat → Prop} (h : ∀ v, S v ↔ T v) (v : Nat) : F p S v ↔ F p T v := by
  unfold F
  constructor
  · rintro ⟨hlt, hr | ⟨r, hf, hs⟩⟩
    · exact ⟨hlt, Or.inl hr⟩
    · exact ⟨hlt, Or.inr ⟨r, hf, (h r).1 hs⟩⟩
  · rintro ⟨hlt, hr | ⟨r, hf, hs⟩⟩
    · exact ⟨hlt, Or.inl hr⟩
    · exact ⟨hlt, Or.inr ⟨r, hf, (h r).2 hs⟩⟩

/-- "directly or through a chain of operands": `Chain p v u` — `v` reaches `u` along operand→result edges -/
inductive Chain (p : Prog) : Nat → Nat → Prop
  | refl (v : Nat) : Chain p v v
  | cons {a b c : Nat} : Feeds p a b → Chain p b c → Chain p a c

/-- every mentioned operand / seed / exit id has a lattice (`< nvals`) -/
def WF (p : Prog) : Prop :=
  (∀ op ∈ p.ops, ∀ o ∈ op.operands, o < p.nvals) ∧ (∀ v ∈ p.seeds, v < p.nvals) ∧
  (∀ v ∈ p.exits, v < p.nvals)

theorem Root.lt {p : Prog} (hwf : WF p) {v : Nat} (h : Root p v) : v < p.nvals := by
  rcases h with h | h | ⟨op, hop, _, _, ho⟩
  · exact hwf.2.1 v h
  · exact hwf.2.2 v h
  · exact hwf.1 op hop v ho

theorem Feeds.lt {p : Prog} (hwf : WF p) {a b : Nat} (h : Feeds p a b) : a < p.nvals := by
  obtain ⟨op, hop, _, ho, _⟩ := h
  exact hwf.1 op hop a ho

/-! ## run: fuel beyond termination, pop count -/

theorem run_of_wl_nil (p : Prog) (pick : Sched) (f k : Nat) (st : St) (h : st.wl = []) :
    run p pick f k st = st := by
  cases f with
  | zero => rfl
  | succ f => rw [run_succ]; simp [h]

theorem run_extra (p : Prog) (pick : Sched) (f e k : Nat) (st : St)
    (h : (run p pick f k st).wl = []) : run p pick (f + e) k st = run p pick f k st := by
  induction f generalizing k st with
  | zero =>
    rw [run_zero] at h
    rw [run_zero, run_of_wl_nil p pick _ k st h]
  | succ f ih =>
    rw [Nat.add_right_comm, run_succ, run_succ]
    rw [run_succ] at h
    split
    · rfl
    · rename_i hne
      simp only [hne] at h
      exact ih _ _ h

theorem step_trace (p : Prog) (pick : Sched) (k : Nat) (st : St) (hne : st.wl ≠ []) :
    (step p pick k st).trace.length = st.trace.length + 1 := by
  obtain ⟨i, j, _, _, heq⟩ := step_facts p pick k st hne
  rw [heq, visit_trace]; rfl

theorem run_trace (p : Prog) (pick : Sched) (f k : Nat) (st : St) :
    (run p pick f k st).trace.length ≤ st.trace.length + f := by
  induction f generalizing k st with
  | zero => exact Nat.le_refl _
  | succ f ih =>
    rw [run_succ]; split
    · omega
    · rename_i hne
      have h1 := step_trace p pick k st (by intro e; rw [e] at hne; exact hne rfl)
      have h2 := ih (k + 1) (step p pick k st)
      omega

theorem walk_trace (p : Prog) (js : List Nat) (st : St) : (walk p js st).trace = st.trace := by
  induction js generalizing st with
  | nil => rfl
  | cons j js ih => exact (ih _).trans (visit_trace p j st)

theorem init_trace (p : Prog) : (init p).trace = [] := by
  rw [init_eq, enableAll_trace, markAll_trace, walk_trace]; rfl

/-! ## Specification without gating, and comparison of programs that differ in executability only -/

/-- every op of the program sits in a block that is marked executable at some time -/
def AllExec (p : Prog) : Prop := ∀ op ∈ p.ops, ExecP p op

/-- the ungated `Root`: every op counts -/
def RootAll (p : Prog) (v : Nat) : Prop :=
  v ∈ p.seeds ∨ v ∈ p.exits ∨ ∃ op ∈ p.ops, op.wbd = false ∧ v ∈ op.operands

/-- the ungated `Feeds` -/
def FeedsAll (p : Prog) (a b : Nat) : Prop := ∃ op ∈ p.ops, a ∈ op.operands ∧ b ∈ op.results

/-- the liveness specification of a program all of whose blocks are executable -/
inductive LiveAll (p : Prog) : Nat → Prop
  | root {v : Nat} : v < p.nvals → RootAll p v → LiveAll p v
  | step {v r : Nat} : v < p.nvals → FeedsAll p v r → LiveAll p r → LiveAll p v

theorem Live.toAll {p : Prog} {v : Nat} (h : Live p v) : LiveAll p v := by
  induction h with
  | root hlt hr =>
    refine LiveAll.root hlt ?_
    rcases hr with h | h | ⟨op, hop, _, hw, ho⟩
    · exact Or.inl h
    · exact Or.inr (Or.inl h)
    · exact Or.inr (Or.inr ⟨op, hop, hw, ho⟩)
  | step hlt hf _ ih =>
    obtain ⟨op, hop, _, ho, hr⟩ := hf
    exact LiveAll.step hlt ⟨op, hop, ho, hr⟩ ih

theorem LiveAll.toLive {p : Prog} (hall : AllExec p) {v : Nat} (h : LiveAll p v) : Live p v := by
  induction h with
  | root hlt hr =>
    refine Live.root hlt ?_
    rcases hr with h | h | ⟨op, hop, hw, ho⟩
    · exact Or.inl h
    · exact Or.inr (Or.inl h)
    · exact Or.inr (Or.inr ⟨op, hop, hall op hop, hw, ho⟩)
  | step hlt hf _ ih =>
    obtain ⟨op, hop, ho, hr⟩ := hf
    exact Live.step hlt ⟨op, hop, hall op hop, ho, hr⟩ ih

/-- `Live` only depends on which blocks are executable at some time, monotonically -/
theorem Live.mono_exec {p q : Prog} (hn : q.nvals = p.nvals) (ho : q.ops = p.ops)
    (hs : q.seeds = p.seeds) (he : q.exits = p.exits)
    (hx : ∀ b, (b ∈ p.pre ∨ b ∈ p.post) → (b ∈ q.pre ∨ b ∈ q.post)) {v : Nat} (h : Live p v) :
    Live q v := by
  induction h with
  | root hlt hr =>
    refine Live.root (hn ▸ hlt) ?_
    rcases hr with h | h | ⟨op, hop, hex, hw, hv⟩
    · exact Or.inl (hs ▸ h)
    · exact Or.inr (Or.inl (he ▸ h))
    · exact Or.inr (Or.inr ⟨op, ho ▸ hop, hx _ hex, hw, hv⟩)
  | step hlt hf _ ih =>
    obtain ⟨op, hop, hex, hv, hr⟩ := hf
    exact Live.step (hn ▸ hlt) ⟨op, ho ▸ hop, hx _ hex, hv, hr⟩ ih

end Xdsl.Liveness
