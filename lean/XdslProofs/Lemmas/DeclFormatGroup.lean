import XdslProofs.Lemmas.DeclFormatSeq
/-!
C05 helper lemmas, part 4: optional groups and whole formats.  Stage 1 of the round trip:
`parseD fmt (printD fmt op ++ rest) st = some (replayD fmt op st, rest)`.
-/
namespace Xdsl.DeclFormat
set_option linter.unusedSimpArgs false

/-- the construct of `d` is what `set_empty` leaves behind -/
def emptyS (op : OpInst) : SDir → Prop
  | .operand i _ => seg op.operands i = []
  | .operandTy i _ => seg op.operandTys i = []
  | .resultTy i _ => seg op.resultTys i = []
  | .region i .single => seg op.regions i = [0]
  | .region i _ => seg op.regions i = []
  | .succ i _ => seg op.succs i = []
  | .attr name isProp _ dflt =>
    dictGet isProp op name = none ∨ (dflt.isSome = true ∧ dictGet isProp op name = dflt)
  | .unitAttr name isProp _ => dictGet isProp op name = none
  | _ => True

/-- a unit attribute variable in a taken branch: the operation has the unit attribute -/
def unitSet (op : OpInst) : SDir → Prop
  | .unitAttr name isProp u => dictGet isProp op name = some u
  | _ => True

/-- group consistency (the op author's obligation): what the printer leaves out is empty -/
def GroupCons (op : OpInst) (a f : SDir) (r e : List SDir) : Prop :=
  if presentS op a = true then (∀ d ∈ e, emptyS op d) ∧ (∀ d ∈ f :: r, unitSet op d)
  else ∀ d ∈ f :: r, emptyS op d

/-- instance conditions for a whole format -/
def ValidD (D : Defs) (op : OpInst) : List Dir → Prop
  | [] => True
  | .s d :: ds => okInstAll D op d ∧ ValidD D op ds
  | .group a f r e :: ds =>
    (∀ d ∈ f :: r, okInstAll D op d) ∧ (∀ d ∈ e, okInstAll D op d) ∧ GroupCons op a f r e ∧ ValidD D op ds

theorem present_print (D : Defs) (op : OpInst) (a : SDir) (hok : okFirst a = true)
    (hinst : okInstAll D op a) (hp : presentS op a = true) : printS D op a ≠ [] := by
  obtain ⟨hi, ht⟩ := hinst
  cases a with
  | kw s => simp [printS]
  | punct s => simp [printS]
  | operand i k =>
    simp only [presentS, printS] at hp ⊢
    cases hx : seg op.operands i <;> simp_all [commaSep]
  | operandTy i k =>
    simp only [presentS, printS, tysMatch] at hp ht ⊢
    cases hx : seg op.operands i with
    | nil => simp [hx] at hp
    | cons x xs =>
      cases hy : seg op.operandTys i with
      | nil => simp [hx, hy] at ht
      | cons y ys => simp [commaSep]
  | resultTy i k =>
    simp only [presentS, printS] at hp ⊢
    cases hx : seg op.resultTys i <;> simp_all [commaSep]
  | region i k =>
    cases k with
    | single =>
      simp only [presentS, printS] at hp ⊢
      cases hx : seg op.regions i <;> simp_all
    | opt =>
      simp only [presentS, printS] at hp ⊢
      cases hx : seg op.regions i <;> simp_all
    | var =>
      simp only [presentS, printS] at hp ⊢
      cases hx : seg op.regions i <;> simp_all
  | succ i k =>
    simp only [presentS, printS] at hp ⊢
    cases hx : seg op.succs i <;> simp_all [commaSep]
  | attr name isProp optional dflt =>
    simp only [presentS, printS] at hp ⊢
    cases hg : dictGet isProp op name with
    | none => simp [hg] at hp
    | some v =>
      simp only [hg] at hp
      have : (dflt == some v) = false := by simpa using hp
      simp [this]
  | unitAttr _ _ _ => simp [okFirst] at hok
  | attrDict _ _ _ => simp [okFirst] at hok
  | operandsAll => simp [okFirst] at hok
  | operandTysAll => simp [okFirst] at hok
  | resultTysAll => simp [okFirst] at hok
  | funcTy _ _ => simp [okFirst] at hok

/-- first element of a taken group: `parse_optional` returns True -/
theorem parseOptS_present (D : Defs) (op : OpInst) (f : SDir) (rest : List Tok) (st : PState)
    (hfrag : inFragment f = true) (hok : okFirst f = true)
    (hinst : okInst D op f) (hf : FollowOK f rest) (hne : printS D op f ≠ []) :
    parseOptS D f (printS D op f ++ rest) st = some (true, replayS D op f st, rest) := by
  cases f with
  | kw s => simp [parseOptS, parseS, printS, replayS]
  | punct s => simp [parseOptS, parseS, printS, replayS]
  | operand i k =>
    cases k with
    | single => simp [okFirst, kindNullable] at hok
    | opt =>
      rcases le1 hinst with hx | ⟨x, hx⟩
      · simp [printS, hx, commaSep] at hne
      · simp [parseOptS, parseS, printS, replayS, hx, commaSep, commaTail, optOne, selVal]
    | var =>
      have := optList_commaSep selMk_val badNone (seg op.operands i) rest (hf.comma rfl)
        (fun h => by simp [printS, h, commaSep] at hne)
      have hne' : seg op.operands i ≠ [] := fun h => by simp [printS, h, commaSep] at hne
      cases hx : seg op.operands i with
      | nil => exact absurd hx hne'
      | cons x xs => simp [parseOptS, parseS, printS, replayS, hx ▸ this, hx]
  | operandTy i k =>
    cases k with
    | single => simp [okFirst, kindNullable] at hok
    | opt =>
      rcases le1 hinst with hx | ⟨x, hx⟩
      · simp [printS, hx, commaSep] at hne
      · simp [parseOptS, parseS, printS, replayS, hx, commaSep, commaTail, optOne, selTy]
    | var =>
      have := optList_commaSep selMk_ty badTy (seg op.operandTys i) rest (hf.comma rfl)
        (fun h => by simp [printS, h, commaSep] at hne)
      have hne' : seg op.operandTys i ≠ [] := fun h => by simp [printS, h, commaSep] at hne
      cases hx : seg op.operandTys i with
      | nil => exact absurd hx hne'
      | cons x xs => simp [parseOptS, parseS, printS, replayS, hx ▸ this, hx]
  | resultTy i k =>
    cases k with
    | single => simp [okFirst, kindNullable] at hok
    | opt =>
      rcases le1 hinst with hx | ⟨x, hx⟩
      · simp [printS, hx, commaSep] at hne
      · simp [parseOptS, parseS, printS, replayS, hx, commaSep, commaTail, optOne, selTy]
    | var =>
      have := optList_commaSep selMk_ty badTy (seg op.resultTys i) rest (hf.comma rfl)
        (fun h => by simp [printS, h, commaSep] at hne)
      have hne' : seg op.resultTys i ≠ [] := fun h => by simp [printS, h, commaSep] at hne
      cases hx : seg op.resultTys i with
      | nil => exact absurd hx hne'
      | cons x xs => simp [parseOptS, parseS, printS, replayS, hx ▸ this, hx]
  | region i k =>
    cases k with
    | single =>
      obtain ⟨x, hx⟩ := len1 hinst
      simp [parseOptS, printS, replayS, hx, optOne, selRegion]
    | opt =>
      rcases le1 hinst with hx | ⟨x, hx⟩
      · simp [printS, hx] at hne
      · simp [parseOptS, parseS, printS, replayS, hx, optOne, selRegion]
    | var =>
      have := manyRegions_map (seg op.regions i) rest (passes_brace (hf.brace rfl))
      have hne' : seg op.regions i ≠ [] := fun h => by simp [printS, h] at hne
      cases hx : seg op.regions i with
      | nil => exact absurd hx hne'
      | cons x xs =>
        rw [hx] at this
        simp only [List.map_cons, List.cons_append] at this
        simp [parseOptS, parseS, printS, replayS, hx, this]
  | succ i k =>
    cases k with
    | single => simp [okFirst, kindNullable] at hok
    | opt =>
      rcases le1 hinst with hx | ⟨x, hx⟩
      · simp [printS, hx, commaSep] at hne
      · simp [parseOptS, parseS, printS, replayS, hx, commaSep, commaTail, optOne, selSucc]
    | var =>
      have := optList_commaSep selMk_succ badNone (seg op.succs i) rest (hf.comma rfl)
        (fun h => by simp [printS, h, commaSep] at hne)
      have hne' : seg op.succs i ≠ [] := fun h => by simp [printS, h, commaSep] at hne
      cases hx : seg op.succs i with
      | nil => exact absurd hx hne'
      | cons x xs => simp [parseOptS, parseS, printS, replayS, hx ▸ this, hx]
  | attr name isProp optional dflt =>
    simp only [okFirst] at hok
    subst hok
    simp only [printS] at hne
    cases hg : dictGet isProp op name with
    | none => simp [hg] at hne
    | some v =>
      by_cases he : (true && dflt == some v) = true
      · simp [hg, he] at hne
      · simp [parseOptS, parseS, printS, replayS, hg, he, optOne, selAttr]
  | unitAttr _ _ _ => simp [okFirst] at hok
  | attrDict _ _ _ => simp [okFirst] at hok
  | operandsAll => simp [okFirst] at hok
  | operandTysAll => simp [okFirst] at hok
  | resultTysAll => simp [okFirst] at hok
  | funcTy _ _ => simp [okFirst] at hok


/-- first element of an untaken group: `parse_optional` returns False and consumes nothing -/
theorem parseOptS_absent (D : Defs) (op : OpInst) (f : SDir) (toks : List Tok) (st : PState)
    (hok : okFirst f = true)
    (hempty : emptyS op f) (hc : conflict f (clsHd toks) = false) :
    parseOptS D f toks st = some (false, replayS D op f st, toks) := by
  cases f with
  | kw s =>
    simp only [conflict, beq_eq_false_iff_ne, ne_eq] at hc
    cases toks with
    | nil => simp [parseOptS, parseS, replayS]
    | cons t r =>
      cases t <;> simp_all [parseOptS, parseS, replayS, clsOf]
  | punct s =>
    simp only [conflict, beq_eq_false_iff_ne, ne_eq] at hc
    cases toks with
    | nil => simp [parseOptS, parseS, replayS]
    | cons t r =>
      cases t <;> simp_all [parseOptS, parseS, replayS, clsOf]
  | operand i k =>
    have hp := passes_val (rest := toks) (by simpa [conflict] using hc)
    simp only [emptyS] at hempty
    cases k with
    | single => simp [okFirst, kindNullable] at hok
    | opt => simp [parseOptS, parseS, replayS, hempty, optOne_none badNone toks hp]
    | var => simp [parseOptS, parseS, replayS, hempty, optList_nil badNone toks hp]
  | operandTy i k =>
    have hp := passes_ty (rest := toks) (by simpa [conflict] using hc)
    simp only [emptyS] at hempty
    cases k with
    | single => simp [okFirst, kindNullable] at hok
    | opt => simp [parseOptS, parseS, replayS, hempty, optOne_none badTy toks hp]
    | var => simp [parseOptS, parseS, replayS, hempty, optList_nil badTy toks hp]
  | resultTy i k =>
    have hp := passes_ty (rest := toks) (by simpa [conflict] using hc)
    simp only [emptyS] at hempty
    cases k with
    | single => simp [okFirst, kindNullable] at hok
    | opt => simp [parseOptS, parseS, replayS, hempty, optOne_none badTy toks hp]
    | var => simp [parseOptS, parseS, replayS, hempty, optList_nil badTy toks hp]
  | region i k =>
    have hp := passes_brace (rest := toks) (by simpa [conflict] using hc)
    cases k with
    | single =>
      simp only [emptyS] at hempty
      simp [parseOptS, replayS, hempty, optOne_none badBrace toks hp]
    | opt =>
      simp only [emptyS] at hempty
      simp [parseOptS, parseS, replayS, hempty, optOne_none badBrace toks hp]
    | var =>
      simp only [emptyS] at hempty
      have := manyRegions_map [] toks hp
      simp only [List.map_nil, List.nil_append] at this
      simp [parseOptS, parseS, replayS, hempty, this]
  | succ i k =>
    have hp := passes_succ (rest := toks) (by simpa [conflict] using hc)
    simp only [emptyS] at hempty
    cases k with
    | single => simp [okFirst, kindNullable] at hok
    | opt => simp [parseOptS, parseS, replayS, hempty, optOne_none badNone toks hp]
    | var => simp [parseOptS, parseS, replayS, hempty, optList_nil badNone toks hp]
  | attr name isProp optional dflt =>
    have hp := passes_attr (rest := toks) (by simpa [conflict] using hc)
    simp only [okFirst] at hok
    subst hok
    simp only [emptyS] at hempty
    rcases hempty with hg | ⟨hd, hg⟩
    · simp [parseOptS, parseS, replayS, hg, optOne_none badAttr toks hp]
    · cases dflt with
      | none => simp at hd
      | some v => simp [parseOptS, parseS, replayS, hg, optOne_none badAttr toks hp]
  | unitAttr _ _ _ => simp [okFirst] at hok
  | attrDict _ _ _ => simp [okFirst] at hok
  | operandsAll => simp [okFirst] at hok
  | operandTysAll => simp [okFirst] at hok
  | resultTysAll => simp [okFirst] at hok
  | funcTy _ _ => simp [okFirst] at hok

/-- specification of the state change of one top-level directive -/
def replayDir (D : Defs) (op : OpInst) : Dir → PState → PState
  | .s d, st => replayS D op d st
  | .group a f r e, st =>
    if presentS op a = true then setEmptySeq (replaySeq D op (f :: r) st) e
    else replaySeq D op e (setEmptySeq (replayS D op f st) r)

def replayD (D : Defs) (op : OpInst) : List Dir → PState → PState
  | [], st => st
  | d :: ds, st => replayD D op ds (replayDir D op d st)

theorem mem_all {α : Type} {p : α → Bool} {l : List α} (h : l.all p = true) {x : α} (hx : x ∈ l) : p x = true :=
  List.all_eq_true.mp h x hx

/-- first token of a printed format -/
theorem clsHd_printD (D : Defs) (op : OpInst) (fmt : List Dir) (K : List Cls) (rest : List Tok)
    (hv : ValidD D op fmt) (hK : clsHd rest ∈ K) :
    clsHd (printD D fmt op ++ rest) ∈ firstD fmt K := by
  induction fmt with
  | nil => simpa [printD, firstD] using hK
  | cons d ds ih =>
    cases d with
    | s d =>
      obtain ⟨hv1, hv2⟩ := hv
      have ih' := ih hv2
      simp only [printD, printDir, firstD, List.append_assoc]
      by_cases hp : printS D op d = []
      · have hn := nullable_of_print_nil D op d hv1.1 hp
        simp only [hp, List.nil_append, hn, if_true]
        exact List.mem_append_right _ ih'
      · exact List.mem_append_left _ (first_of_print D op d _ hp)
    | group a f r e =>
      obtain ⟨hv1, hv2, _, hv4⟩ := hv
      have ih' := ih hv4
      simp only [printD, printDir, firstD]
      by_cases hp : presentS op a = true
      · simp only [hp, if_true]
        apply List.mem_append_left
        have := clsHd_printSeq D op (f :: r) (firstD ds K) (printD D ds op ++ rest)
          (fun x hx => (hv1 x hx).1) ih'
        simpa [printSeq, List.append_assoc] using this
      · simp only [hp, if_false, Bool.false_eq_true]
        apply List.mem_append_right
        have := clsHd_printSeq D op e (firstD ds K) (printD D ds op ++ rest)
          (fun x hx => (hv2 x hx).1) ih'
        simpa [List.append_assoc] using this

end Xdsl.DeclFormat
