import XdslProofs.Lemmas.DCEComplete
import XdslProofs.C24PostOrder
/-!
Evaluation semantics for straight-line operation lists of `XdslModel/DCE.lean` and the simulation
lemma used by `XdslProofs/C13Sem.lean` (see there for the meaning of `Interp`, `run`).
-/
namespace Xdsl.DCE
open Xdsl.Graph

abbrev Val := Nat
abbrev Env := Nat → Val
abbrev Log := List (Nat × List Val)
/-- what operation `i` computes from its operand values and the effects so far -/
abbrev Interp := Nat → List Val → Log → Val

def upd (ρ : Env) (i : Nat) (v : Val) : Env := fun j => if j = i then v else ρ j

/-- evaluate an operation list top to bottom -/
def run (I : Interp) : T → Env → Log → Env × Log
  | .op h rs next, ρ, log =>
    let args := h.operands.map ρ
    run I next (upd ρ h.id (I h.id args log)) (if wbd h rs then log else log ++ [(h.id, args)])
  | _, ρ, log => (ρ, log)

/-- region-free operations only -/
def flat : T → Bool
  | .nil => true
  | .op _ rs next => rs == .nil && flat next
  | _ => false

/-- the operation cells of an operation list -/
def ocells : T → List (Hdr × T)
  | .op h rs next => (h, rs) :: ocells next
  | _ => []

theorem wbd_succs (h : Hdr) (rs : T) (s : List Nat) : wbd { h with succs := s } rs = wbd h rs := by
  simp [wbd, resultOnlyEffects, opEff]

/-- The core simulation.  `Dead` marks the ids of the erased operations: every operation that is not
live is `Dead`; a live operation is not `Dead`, its operands are not `Dead`; an operation that is
not would-be-trivially-dead is live.  Then the run of the kept operations and the run of all
operations, started in environments that agree outside `Dead` and with the same log, end with the
same log in environments that agree outside `Dead`. -/
theorem run_del (I : Interp) (live : List Nat) (Dead : Nat → Prop) (mask : List Bool) (t : T) :
    flat t = true →
    (∀ c ∈ ocells t, c.1.id ∉ live → Dead c.1.id) →
    (∀ c ∈ ocells t, c.1.id ∈ live → ¬ Dead c.1.id ∧ ∀ o ∈ c.1.operands, ¬ Dead o) →
    (∀ c ∈ ocells t, wbd c.1 c.2 = false → c.1.id ∈ live) →
    ∀ (ρ1 ρ2 : Env) (log : Log), (∀ i, ¬ Dead i → ρ1 i = ρ2 i) →
      (run I (del live t false mask) ρ1 log).2 = (run I t ρ2 log).2
        ∧ ∀ i, ¬ Dead i → (run I (del live t false mask) ρ1 log).1 i = (run I t ρ2 log).1 i := by
  induction t with
  | nil => intro _ _ _ _ ρ1 ρ2 log hag; exact ⟨rfl, hag⟩
  | op h rs next _ ihn =>
    intro hf hdead hlive hw ρ1 ρ2 log hag
    simp only [flat, Bool.and_eq_true, beq_iff_eq] at hf
    obtain ⟨hrs, hfn⟩ := hf
    subst hrs
    have hd' : ∀ c ∈ ocells next, c.1.id ∉ live → Dead c.1.id :=
      fun c hc => hdead c (by simp [ocells, hc])
    have hl' : ∀ c ∈ ocells next, c.1.id ∈ live → ¬ Dead c.1.id ∧ ∀ o ∈ c.1.operands, ¬ Dead o :=
      fun c hc => hlive c (by simp [ocells, hc])
    have hw' : ∀ c ∈ ocells next, wbd c.1 c.2 = false → c.1.id ∈ live :=
      fun c hc => hw c (by simp [ocells, hc])
    by_cases hm : h.id ∈ live
    · have hc : live.contains h.id = true := by simpa using hm
      have hl := hlive (h, .nil) (by simp [ocells]) hm
      have hargs : h.operands.map ρ1 = h.operands.map ρ2 :=
        List.map_congr_left (fun o ho => hag o (hl.2 o ho))
      simp only [del, hc, if_true, run, wbd_succs, hargs]
      apply ihn hfn hd' hl' hw'
      intro i hi
      simp only [upd]
      split
      · rfl
      · exact hag i hi
    · have hc : live.contains h.id = false := by simpa using hm
      have hwb : wbd h .nil = true := by
        cases hwb : wbd h .nil
        · exact absurd (hw (h, .nil) (by simp [ocells]) hwb) hm
        · rfl
      simp only [del, hc, Bool.false_eq_true, if_false, run, hwb, if_true]
      apply ihn hfn hd' hl' hw'
      intro i hi
      simp only [upd]
      split
      · rename_i heq
        subst heq
        exact absurd (hdead (h, .nil) (by simp [ocells]) hm) hi
      · exact hag i hi
  | block ops next _ _ => intro hf; simp [flat] at hf
  | region bs next _ _ => intro hf; simp [flat] at hf

theorem vcells_flat (t : T) : flat t = true → vcells t none = ocells t := by
  induction t with
  | nil => intro _; rfl
  | op h rs next _ ihn =>
    intro hf
    simp only [flat, Bool.and_eq_true] at hf
    simp [vcells, ocells, ihn hf.2]
  | block ops next _ _ => intro hf; simp [flat] at hf
  | region bs next _ _ => intro hf; simp [flat] at hf

theorem ocells_ids (t : T) : flat t = true → ∀ i ∈ allIds t, ∃ c ∈ ocells t, c.1.id = i := by
  induction t with
  | nil => intro _ i hi; simp at hi
  | op h rs next _ ihn =>
    intro hf i hi
    simp only [flat, Bool.and_eq_true, beq_iff_eq] at hf
    obtain ⟨hrs, hfn⟩ := hf
    subst hrs
    simp only [allIds_op, allIds_nil, List.nil_append, List.mem_cons] at hi
    rcases hi with rfl | hi
    · exact ⟨(h, .nil), by simp [ocells], rfl⟩
    · obtain ⟨c, hc, hid⟩ := ihn hfn i hi
      exact ⟨c, by simp [ocells, hc], hid⟩
  | block ops next _ _ => intro hf; simp [flat] at hf
  | region bs next _ _ => intro hf; simp [flat] at hf

theorem zero_mem_reachSet (bs : T) (hwf : Graph.wf (graphOf bs) = true) (hpos : 0 < (graphOf bs).length) :
    0 ∈ reachSet bs :=
  ((PostOrder.postorder_spec (graphOf bs) ((wf_iff _).mp hwf) hpos).2.1 0).mpr (Reach.refl _ _)

end Xdsl.DCE
