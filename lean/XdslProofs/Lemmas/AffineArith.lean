import XdslModel.Affine
/-!
Integer facts behind C26: Python floor division / modulo / the `-(-a // b)` ceiling against their
mathematical characterisations (for a positive divisor), cancellation of a common factor, gcd of a
row, and the dot product used to give rows of the flattener a value.
-/
namespace Xdsl.Affine

/-! ### floor, ceiling, remainder -/

theorem pyFloorDiv_eq_ediv {a c : Int} (hc : 0 < c) : pyFloorDiv a c = a / c :=
  Int.fdiv_eq_ediv_of_nonneg a (Int.le_of_lt hc)

theorem pyMod_eq_emod {a c : Int} (hc : 0 < c) : pyMod a c = a % c :=
  Int.fmod_eq_emod_of_nonneg a (Int.le_of_lt hc)

/-- `a // c` is the unique `q` with `c*q ≤ a < c*q + c` (the floor of the rational `a/c`) -/
theorem pyFloorDiv_spec {a c : Int} (hc : 0 < c) (q : Int) :
    pyFloorDiv a c = q ↔ c * q ≤ a ∧ a < c * q + c := by
  rw [pyFloorDiv_eq_ediv hc]
  constructor
  · intro h
    have h1 := Int.mul_ediv_add_emod a c
    have h2 := Int.emod_nonneg a (Int.ne_of_gt hc)
    have h3 := Int.emod_lt_of_pos a hc
    subst h
    constructor <;> omega
  · intro ⟨h1, h2⟩
    have := (Int.ediv_emod_unique (a := a) (b := c) (r := a - c * q) (q := q) hc).2
      ⟨by omega, by omega, by omega⟩
    exact this.1

/-- `-(-a // c)` is the unique `q` with `c*(q-1) < a ≤ c*q` (the ceiling of `a/c`) -/
theorem pyCeilDiv_spec {a c : Int} (hc : 0 < c) (q : Int) :
    pyCeilDiv a c = q ↔ c * q - c < a ∧ a ≤ c * q := by
  unfold pyCeilDiv
  have := pyFloorDiv_spec (a := -a) hc (-q)
  unfold pyFloorDiv at this
  have e : c * -q = -(c * q) := Int.mul_neg c q
  constructor
  · intro h
    have h' : (-a).fdiv c = -q := by omega
    have := this.1 h'
    omega
  · intro h
    have := this.2 (by omega)
    omega

/-- `a % c` is the remainder of the floor division, in `[0, c)` -/
theorem pyMod_spec {a c : Int} (hc : 0 < c) :
    0 ≤ pyMod a c ∧ pyMod a c < c ∧ a = c * pyFloorDiv a c + pyMod a c := by
  rw [pyMod_eq_emod hc, pyFloorDiv_eq_ediv hc]
  exact ⟨Int.emod_nonneg a (Int.ne_of_gt hc), Int.emod_lt_of_pos a hc, (Int.mul_ediv_add_emod a c).symm⟩

theorem pyMod_def (a c : Int) : pyMod a c = a - c * pyFloorDiv a c := Int.fmod_def a c

/-- cancelling a common positive factor of dividend and divisor does not change the floor -/
theorem pyFloorDiv_cancel {g v c : Int} (hg : 0 < g) (hc : 0 < c) :
    pyFloorDiv (g * v) (g * c) = pyFloorDiv v c := by
  rw [pyFloorDiv_eq_ediv hc, pyFloorDiv_eq_ediv (Int.mul_pos hg hc), Int.mul_ediv_mul_of_pos _ _ hg]

theorem pyCeilDiv_cancel {g v c : Int} (hg : 0 < g) (hc : 0 < c) :
    pyCeilDiv (g * v) (g * c) = pyCeilDiv v c := by
  unfold pyCeilDiv
  have := pyFloorDiv_cancel (v := -v) hg hc
  unfold pyFloorDiv at this
  rw [← Int.mul_neg, this]

theorem pyMod_eq_zero_of_dvd {a c : Int} (hc : 0 < c) (h : c ∣ a) : pyMod a c = 0 := by
  rw [pyMod_eq_emod hc]; exact Int.emod_eq_zero_of_dvd h

theorem dvd_of_pyMod_eq_zero {a c : Int} (hc : 0 < c) (h : pyMod a c = 0) : c ∣ a := by
  rw [pyMod_eq_emod hc] at h; exact Int.dvd_of_emod_eq_zero h

/-- exact division: `g * (l // g) = l` when `g ∣ l` -/
theorem mul_pyFloorDiv_of_dvd {l g : Int} (hg : 0 < g) (h : g ∣ l) : g * pyFloorDiv l g = l := by
  rw [pyFloorDiv_eq_ediv hg]; exact Int.mul_ediv_cancel' h

/-! ### gcd of a row -/

theorem gcdList_dvd {xs : List Int} {x : Int} (h : x ∈ xs) : ((gcdList xs : Nat) : Int) ∣ x := by
  induction xs with
  | nil => cases h
  | cons y ys ih =>
    simp only [gcdList]
    cases h with
    | head => exact Int.ofNat_dvd_left.2 (Nat.gcd_dvd_left _ _)
    | tail _ h' =>
      exact Int.dvd_trans (Int.natCast_dvd_natCast.2 (Nat.gcd_dvd_right _ _)) (ih h')

theorem rowGcd_dvd_co {row : Row} {c x : Int} (h : x ∈ row.co) : ((rowGcd row c : Nat) : Int) ∣ x :=
  Int.dvd_trans (Int.natCast_dvd_natCast.2 (Nat.gcd_dvd_left _ _)) (gcdList_dvd h)

theorem rowGcd_dvd_k (row : Row) (c : Int) : ((rowGcd row c : Nat) : Int) ∣ row.k :=
  Int.ofNat_dvd_left.2 (Nat.dvd_trans (Nat.gcd_dvd_right _ _) (Nat.gcd_dvd_left _ _))

theorem rowGcd_dvd_c (row : Row) (c : Int) : ((rowGcd row c : Nat) : Int) ∣ c :=
  Int.ofNat_dvd_left.2 (Nat.dvd_trans (Nat.gcd_dvd_right _ _) (Nat.gcd_dvd_right _ _))

theorem rowGcd_pos (row : Row) {c : Int} (hc : 0 < c) : 0 < ((rowGcd row c : Nat) : Int) := by
  have : 0 < c.natAbs := by omega
  have := Nat.gcd_pos_of_pos_right row.k.natAbs this
  have := Nat.gcd_pos_of_pos_right (gcdList row.co) this
  unfold rowGcd; omega

/-! ### dot product -/

/-- `Σ aᵢ * bᵢ` over the common prefix -/
def dot : List Int → List Int → Int
  | a :: as, b :: bs => a * b + dot as bs
  | _, _ => 0

@[simp] theorem dot_nil_left (vs : List Int) : dot [] vs = 0 := by simp [dot]
@[simp] theorem dot_nil_right (as : List Int) : dot as [] = 0 := by cases as <;> simp [dot]
@[simp] theorem dot_cons (a b : Int) (as bs : List Int) : dot (a :: as) (b :: bs) = a * b + dot as bs := by
  simp [dot]

theorem dot_replicate_zero (n : Nat) (vs : List Int) : dot (List.replicate n 0) vs = 0 := by
  induction n generalizing vs with
  | zero => simp
  | succ n ih => cases vs <;> simp [List.replicate_succ, ih]

theorem dot_append {as us : List Int} (bs vs : List Int) (h : as.length = us.length) :
    dot (as ++ bs) (us ++ vs) = dot as us + dot bs vs := by
  induction as generalizing us with
  | nil => cases us <;> simp_all
  | cons a as ih =>
    cases us with
    | nil => simp at h
    | cons u us => simp at h; simp [ih h]; omega

theorem dot_zipWith_add {as bs : List Int} (vs : List Int) (h : as.length = bs.length) :
    dot (List.zipWith (· + ·) as bs) vs = dot as vs + dot bs vs := by
  induction as generalizing bs vs with
  | nil => cases bs <;> simp_all
  | cons a as ih =>
    cases bs with
    | nil => simp at h
    | cons b bs =>
      cases vs with
      | nil => simp
      | cons v vs => simp at h; simp [ih vs h]; grind

theorem dot_map_mul (as vs : List Int) (k : Int) :
    dot (as.map (fun l => l * k)) vs = dot as vs * k := by
  induction as generalizing vs with
  | nil => simp
  | cons a as ih => cases vs <;> simp [ih]; grind

theorem dot_map_zero (as vs : List Int) : dot (as.map (fun _ => (0 : Int))) vs = 0 := by
  induction as generalizing vs with
  | nil => simp
  | cons a as ih => cases vs <;> simp [ih]

theorem length_unitCo (n p : Nat) : (unitCo n p).length = n := by
  induction n generalizing p with
  | zero => simp [unitCo]
  | succ n ih => cases p <;> simp [unitCo, ih]

theorem dot_unitCo (n p : Nat) (vs : List Int) (h : vs.length = n) :
    dot (unitCo n p) vs = vs.getD p 0 := by
  induction n generalizing p vs with
  | zero => cases vs <;> simp_all [unitCo]
  | succ n ih =>
    cases vs with
    | nil => simp at h
    | cons v vs =>
      simp at h
      cases p with
      | zero => simp [unitCo, dot_replicate_zero]
      | succ p => simp [unitCo, ih p vs h]

theorem dot_dvd {as : List Int} (vs : List Int) {c : Int} (h : ∀ l ∈ as, c ∣ l) : c ∣ dot as vs := by
  induction as generalizing vs with
  | nil => simp
  | cons a as ih =>
    cases vs with
    | nil => simp
    | cons v vs =>
      simp only [dot_cons]
      exact Int.dvd_add (Int.dvd_trans (h a (by simp)) (Int.dvd_mul_right a v))
        (ih vs (fun l hl => h l (by simp [hl])))

theorem dot_map_div {as : List Int} (vs : List Int) {g : Int} (hg : 0 < g) (h : ∀ l ∈ as, g ∣ l) :
    g * dot (as.map (fun l => pyFloorDiv l g)) vs = dot as vs := by
  induction as generalizing vs with
  | nil => simp
  | cons a as ih =>
    cases vs with
    | nil => simp
    | cons v vs =>
      simp only [List.map_cons, dot_cons]
      have h1 := mul_pyFloorDiv_of_dvd hg (h a (by simp))
      have h2 := ih vs (fun l hl => h l (by simp [hl]))
      rw [Int.mul_add, h2, ← Int.mul_assoc, h1]

theorem dot_modify {as : List Int} (vs : List Int) (i : Nat) (c : Int) (h : as.length = vs.length)
    (hi : i < as.length) :
    dot (as.modify i (fun x => x - c)) vs = dot as vs - c * vs.getD i 0 := by
  induction as generalizing vs i with
  | nil => simp at hi
  | cons a as ih =>
    cases vs with
    | nil => simp at h
    | cons v vs =>
      simp at h
      cases i with
      | zero => simp [List.modify]; grind
      | succ i =>
        simp at hi
        have := ih vs i h hi
        simp [List.modify] at this ⊢
        omega

end Xdsl.Affine
