import XdslModel.Skeleton
import XdslProofs.Lemmas.AL
/-!
The symbol tables of the parser (`res`, keyed by names) simulate the scoping discipline on the IR
(`walk`, keyed by identities) when no two live identities share a name.
-/
namespace Xdsl.Skeleton
set_option linter.unusedSimpArgs false

/-- a table keyed by identities, re-keyed by the names -/
def pk {β : Type} (nv : Nat → Str) (l : AL Nat β) : AL Str β := l.map fun e => (nv e.1, e.2)

def projV (nv : Nat → Str) (t : VT Nat) : VT Str :=
  { scope := pk nv t.scope, pend := pk nv t.pend, next := t.next }

def projB (nb : Nat → Str) (t : BT Nat) : BT Str :=
  { bdef := pk nb t.bdef, bpend := pk nb t.bpend, next := t.next }

def proj (nv nb : Nat → Str) (gs : GS) : PS := { v := projV nv gs.v, b := projB nb gs.b }

theorem get_pk {β : Type} (nv : Nat → Str) (l : AL Nat β) (v : Nat)
    (h : ∀ e ∈ l, e.1 = v ∨ nv e.1 ≠ nv v) : AL.get (pk nv l) (nv v) = AL.get l v := by
  induction l with
  | nil => rfl
  | cons e l ih =>
    obtain ⟨a, b⟩ := e
    have ha := h (a, b) (by simp)
    have ih' := ih (fun e he => h e (by simp [he]))
    simp only [pk, List.map_cons, AL.get_cons] at ih' ⊢
    by_cases hav : a = v
    · simp [hav]
    · have : nv a ≠ nv v := by rcases ha with h1 | h1; exact absurd h1 hav; exact h1
      simp only [hav, this, if_false]
      exact ih'

theorem del_pk {β : Type} (nv : Nat → Str) (l : AL Nat β) (v : Nat)
    (h : ∀ e ∈ l, e.1 = v ∨ nv e.1 ≠ nv v) : AL.del (pk nv l) (nv v) = pk nv (AL.del l v) := by
  induction l with
  | nil => rfl
  | cons e l ih =>
    obtain ⟨a, b⟩ := e
    have ha := h (a, b) (by simp)
    have ih' := ih (fun e he => h e (by simp [he]))
    simp only [pk, List.map_cons, AL.del] at ih' ⊢
    by_cases hav : a = v
    · simp [hav, ih']
    · have : nv a ≠ nv v := by rcases ha with h1 | h1; exact absurd h1 hav; exact h1
      simp [hav, this, ih']

theorem pk_isEmpty {β : Type} (nv : Nat → Str) (l : AL Nat β) : (pk nv l).isEmpty = l.isEmpty := by
  cases l <;> rfl

theorem liveOK_scope (nv : Nat → Str) (t : VT Nat) (v : Nat) (h : liveOK nv t v = true) :
    (∀ e ∈ t.scope, e.1 = v ∨ nv e.1 ≠ nv v) ∧ (∀ e ∈ t.pend, e.1 = v ∨ nv e.1 ≠ nv v) := by
  simp only [liveOK, List.all_eq_true, List.mem_append, Bool.or_eq_true, decide_eq_true_eq] at h
  exact ⟨fun e he => h e (Or.inl he), fun e he => h e (Or.inr he)⟩

theorem bliveOK_scope (nb : Nat → Str) (t : BT Nat) (b : Nat) (h : bliveOK nb t b = true) :
    (∀ e ∈ t.bdef, e.1 = b ∨ nb e.1 ≠ nb b) ∧ (∀ e ∈ t.bpend, e.1 = b ∨ nb e.1 ≠ nb b) := by
  simp only [bliveOK, List.all_eq_true, List.mem_append, Bool.or_eq_true, decide_eq_true_eq] at h
  exact ⟨fun e he => h e (Or.inl he), fun e he => h e (Or.inr he)⟩

theorem use_proj (nv : Nat → Str) (t : VT Nat) (v : Nat) (ty : Opq) (h : liveOK nv t v = true) :
    (projV nv t).use (nv v) ty = (t.use v ty).map fun r => (projV nv r.1, r.2) := by
  obtain ⟨hs, hp⟩ := liveOK_scope nv t v h
  simp only [VT.use, projV, get_pk nv _ v hs, get_pk nv _ v hp]
  cases h1 : AL.get t.pend v with
  | some p => rfl
  | none =>
    cases h2 : AL.get t.scope v with
    | none => rfl
    | some p => simp only []; split <;> rfl

theorem define_proj (nv : Nat → Str) (t : VT Nat) (v : Nat) (ty : Opq)
    (h : liveOK nv t v = true) :
    (projV nv t).define (nv v) ty = (t.define v ty).map fun r => (projV nv r.1, r.2) := by
  obtain ⟨hs, hp⟩ := liveOK_scope nv t v h
  simp only [VT.define, projV, get_pk nv _ v hs, get_pk nv _ v hp, del_pk nv _ v hp]
  cases h2 : AL.get t.scope v with
  | some p => rfl
  | none =>
    cases h1 : AL.get t.pend v with
    | none => rfl
    | some p => simp only []; split <;> rfl

theorem ref_proj (nb : Nat → Str) (t : BT Nat) (b : Nat) (h : bliveOK nb t b = true) :
    (projB nb t).ref (nb b) = (projB nb (t.ref b).1, (t.ref b).2) := by
  obtain ⟨hs, hp⟩ := bliveOK_scope nb t b h
  simp only [BT.ref, projB, get_pk nb _ b hs, get_pk nb _ b hp]
  cases h1 : AL.get t.bdef b with
  | some p => rfl
  | none =>
    cases h2 : AL.get t.bpend b with
    | none => rfl
    | some p => rfl

theorem bdefine_proj (nb : Nat → Str) (t : BT Nat) (b : Nat) (h : bliveOK nb t b = true) :
    (projB nb t).define (nb b) = (t.define b).map fun r => (projB nb r.1, r.2) := by
  obtain ⟨hs, hp⟩ := bliveOK_scope nb t b h
  simp only [BT.define, projB, get_pk nb _ b hs, get_pk nb _ b hp, del_pk nb _ b hp]
  cases h1 : AL.get t.bdef b with
  | some p => rfl
  | none =>
    cases h2 : AL.get t.bpend b with
    | none => rfl
    | some p => rfl

/-! ### single steps of `walk` -/

theorem wUse_sim (nv : Nat → Str) (gs gs' : GS) (v p : Nat) (ty : Opq)
    (h : wUse nv gs v ty = some (gs', p)) :
    (projV nv gs.v).use (nv v) ty = some (projV nv gs'.v, p, ty) ∧ gs'.b = gs.b := by
  unfold wUse at h
  split at h
  · simp at h
  · rename_i hl
    split at h
    · simp at h
    · cases hu : gs.v.use v ty with
      | none => simp [hu] at h
      | some r =>
        obtain ⟨t1, p1, ty1⟩ := r
        simp only [hu] at h
        by_cases hty : ty1 = ty
        · simp only [hty, if_true, Option.some.injEq, Prod.mk.injEq] at h
          obtain ⟨rfl, rfl⟩ := h
          simp only [Bool.not_eq_true, Bool.not_eq_false'] at hl
          simp [use_proj nv gs.v v ty (by simpa using hl), hu, hty]
        · simp [hty] at h

theorem wDef_sim (nv : Nat → Str) (gs gs' : GS) (v p : Nat) (ty : Opq)
    (h : wDef nv gs v ty = some (gs', p)) :
    (projV nv gs.v).define (nv v) ty = some (projV nv gs'.v, p) ∧ gs'.b = gs.b := by
  unfold wDef at h
  split at h
  · simp at h
  · rename_i hl
    split at h
    · simp at h
    · cases hu : gs.v.define v ty with
      | none => simp [hu] at h
      | some r =>
        simp only [hu, Option.some.injEq, Prod.mk.injEq] at h
        obtain ⟨rfl, rfl⟩ := h
        simp [define_proj nv gs.v v ty (by simpa using hl), hu]

theorem wRef_sim (nb : Nat → Str) (gs gs' : GS) (b p : Nat)
    (h : wRef nb gs b = some (gs', p)) :
    (projB nb gs.b).ref (nb b) = (projB nb gs'.b, p) ∧ gs'.v = gs.v := by
  unfold wRef at h
  split at h
  · simp at h
  · rename_i hl
    split at h
    · simp at h
    · simp only [Option.some.injEq, Prod.mk.injEq] at h
      obtain ⟨rfl, rfl⟩ := h
      simp [ref_proj nb gs.b b (by simpa using hl)]

theorem wBDef_sim (nb : Nat → Str) (gs gs' : GS) (b p : Nat)
    (h : wBDef nb gs b = some (gs', p)) :
    (projB nb gs.b).define (nb b) = some (projB nb gs'.b, p) ∧ gs'.v = gs.v := by
  unfold wBDef at h
  split at h
  · simp at h
  · rename_i hl
    split at h
    · simp at h
    · cases hu : gs.b.define b with
      | none => simp [hu] at h
      | some r =>
        simp only [hu, Option.some.injEq, Prod.mk.injEq] at h
        obtain ⟨rfl, rfl⟩ := h
        simp [bdefine_proj nb gs.b b (by simpa using hl), hu]

/-! ### lists -/

theorem wUseAll_sim (nv : Nat → Str) (vs : List Nat) : ∀ (tys : List Opq) (gs gs' : GS)
    (ps : List Nat), wUseAll nv gs vs tys = some (gs', ps) →
    useAll (projV nv gs.v) (vs.map nv) tys = some (projV nv gs'.v, ps, tys) ∧ gs'.b = gs.b := by
  induction vs with
  | nil =>
    intro tys gs gs' ps h
    cases tys with
    | nil => simp only [wUseAll, Option.some.injEq, Prod.mk.injEq] at h
             obtain ⟨rfl, rfl⟩ := h; exact ⟨rfl, rfl⟩
    | cons => simp [wUseAll] at h
  | cons v vs ih =>
    intro tys gs gs' ps h
    cases tys with
    | nil => simp [wUseAll] at h
    | cons ty tys =>
      simp only [wUseAll] at h
      cases h1 : wUse nv gs v ty with
      | none => simp [h1] at h
      | some r =>
        obtain ⟨g1, p⟩ := r
        simp only [h1] at h
        cases h2 : wUseAll nv g1 vs tys with
        | none => simp [h2] at h
        | some r2 =>
          obtain ⟨g2, ps2⟩ := r2
          simp only [h2, Option.some.injEq, Prod.mk.injEq] at h
          obtain ⟨rfl, rfl⟩ := h
          obtain ⟨e1, b1⟩ := wUse_sim nv gs g1 v p ty h1
          obtain ⟨e2, b2⟩ := ih tys g1 g2 ps2 h2
          simp only [List.map_cons, useAll, e1, e2]
          exact ⟨trivial, b2.trans b1⟩

theorem wDefAll_sim (nv : Nat → Str) (vs : List Nat) : ∀ (tys : List Opq) (gs gs' : GS)
    (ps : List Nat), wDefAll nv gs vs tys = some (gs', ps) →
    defineAll (projV nv gs.v) (vs.map nv) tys = some (projV nv gs'.v, ps) ∧ gs'.b = gs.b := by
  induction vs with
  | nil =>
    intro tys gs gs' ps h
    cases tys with
    | nil => simp only [wDefAll, Option.some.injEq, Prod.mk.injEq] at h
             obtain ⟨rfl, rfl⟩ := h; exact ⟨rfl, rfl⟩
    | cons => simp [wDefAll] at h
  | cons v vs ih =>
    intro tys gs gs' ps h
    cases tys with
    | nil => simp [wDefAll] at h
    | cons ty tys =>
      simp only [wDefAll] at h
      cases h1 : wDef nv gs v ty with
      | none => simp [h1] at h
      | some r =>
        obtain ⟨g1, p⟩ := r
        simp only [h1] at h
        cases h2 : wDefAll nv g1 vs tys with
        | none => simp [h2] at h
        | some r2 =>
          obtain ⟨g2, ps2⟩ := r2
          simp only [h2, Option.some.injEq, Prod.mk.injEq] at h
          obtain ⟨rfl, rfl⟩ := h
          obtain ⟨e1, b1⟩ := wDef_sim nv gs g1 v p ty h1
          obtain ⟨e2, b2⟩ := ih tys g1 g2 ps2 h2
          simp only [List.map_cons, defineAll, e1, e2]
          exact ⟨trivial, b2.trans b1⟩

theorem wDefArgs_sim (nv : Nat → Str) (args : List (Nat × Opq)) : ∀ (gs gs' : GS)
    (ps : List (Nat × Opq)), wDefArgs nv gs args = some (gs', ps) →
    defineArgs (projV nv gs.v) (mapArgs nv args) = some (projV nv gs'.v, ps) ∧ gs'.b = gs.b := by
  induction args with
  | nil =>
    intro gs gs' ps h
    simp only [wDefArgs, Option.some.injEq, Prod.mk.injEq] at h
    obtain ⟨rfl, rfl⟩ := h; exact ⟨rfl, rfl⟩
  | cons a args ih =>
    intro gs gs' ps h
    obtain ⟨v, ty⟩ := a
    simp only [wDefArgs] at h
    cases h1 : wDef nv gs v ty with
    | none => simp [h1] at h
    | some r =>
      obtain ⟨g1, p⟩ := r
      simp only [h1] at h
      cases h2 : wDefArgs nv g1 args with
      | none => simp [h2] at h
      | some r2 =>
        obtain ⟨g2, ps2⟩ := r2
        simp only [h2, Option.some.injEq, Prod.mk.injEq] at h
        obtain ⟨rfl, rfl⟩ := h
        obtain ⟨e1, b1⟩ := wDef_sim nv gs g1 v p ty h1
        obtain ⟨e2, b2⟩ := ih g1 g2 ps2 h2
        simp only [mapArgs, List.map_cons, defineArgs, e1] at e2 ⊢
        simp only [e2]
        exact ⟨trivial, b2.trans b1⟩

theorem wRefAll_sim (nb : Nat → Str) (bs : List Nat) : ∀ (gs gs' : GS) (ps : List Nat),
    wRefAll nb gs bs = some (gs', ps) →
    refAll (projB nb gs.b) (bs.map nb) = (projB nb gs'.b, ps) ∧ gs'.v = gs.v := by
  induction bs with
  | nil =>
    intro gs gs' ps h
    simp only [wRefAll, Option.some.injEq, Prod.mk.injEq] at h
    obtain ⟨rfl, rfl⟩ := h; exact ⟨rfl, rfl⟩
  | cons b bs ih =>
    intro gs gs' ps h
    simp only [wRefAll] at h
    cases h1 : wRef nb gs b with
    | none => simp [h1] at h
    | some r =>
      obtain ⟨g1, p⟩ := r
      simp only [h1] at h
      cases h2 : wRefAll nb g1 bs with
      | none => simp [h2] at h
      | some r2 =>
        obtain ⟨g2, ps2⟩ := r2
        simp only [h2, Option.some.injEq, Prod.mk.injEq] at h
        obtain ⟨rfl, rfl⟩ := h
        obtain ⟨e1, b1⟩ := wRef_sim nb gs g1 b p h1
        obtain ⟨e2, b2⟩ := ih g1 g2 ps2 h2
        simp only [List.map_cons, refAll, e1, e2]
        exact ⟨trivial, b2.trans b1⟩

theorem bind_of_defineAll {K : Type} [DecidableEq K] (t : VT K) (names : List K) (tys : List Opq)
    (r : VT K × List Nat) (h : defineAll t names tys = some r) :
    bindResults t names tys = some r := by
  cases names with
  | nil =>
    cases tys with
    | nil => simpa [bindResults, defineAll, freshVals] using h
    | cons => simp [defineAll] at h
  | cons a l => simpa [bindResults] using h

/-! ### the walk -/

theorem proj_with_b (nv nb : Nat → Str) (gs g0 : GS) (hv : g0.v = gs.v) :
    ({ proj nv nb gs with b := projB nb g0.b } : PS) = proj nv nb g0 := by
  simp [proj, hv]

theorem proj_with_v (nv nb : Nat → Str) (gs g0 : GS) (hb : g0.b = gs.b) :
    ({ proj nv nb gs with v := projV nv g0.v } : PS) = proj nv nb g0 := by
  simp [proj, hb]

theorem walk_sim (nv nb : Nat → Str) (t : IR) : ∀ (e : Bool) (gs gs' : GS) (t' : IR),
    walk nv nb e gs t = some (gs', t') →
    res (proj nv nb gs) (nameT nv nb e t) = some (proj nv nb gs', t') := by
  induction t with
  | nil =>
    intro e gs gs' t' h
    simp only [walk, Option.some.injEq, Prod.mk.injEq] at h
    obtain ⟨rfl, rfl⟩ := h
    rfl
  | op h rs nx ihr ihn =>
    intro e gs gs' t' hw
    simp only [walk] at hw
    cases h0 : wRefAll nb gs h.succs with
    | none => simp [h0] at hw
    | some r0 =>
      obtain ⟨g0, succs⟩ := r0
      simp only [h0] at hw
      cases h1 : walk nv nb false g0 rs with
      | none => simp [h1] at hw
      | some r1 =>
        obtain ⟨g1, rs'⟩ := r1
        simp only [h1] at hw
        cases h2 : wUseAll nv g1 h.operands h.inTys with
        | none => simp [h2] at hw
        | some r2 =>
          obtain ⟨g2, opnds⟩ := r2
          simp only [h2] at hw
          cases h3 : wDefAll nv g2 h.results h.outTys with
          | none => simp [h3] at hw
          | some r3 =>
            obtain ⟨g3, results⟩ := r3
            simp only [h3] at hw
            cases h4 : walk nv nb false g3 nx with
            | none => simp [h4] at hw
            | some r4 =>
              obtain ⟨g4, nx'⟩ := r4
              simp only [h4, Option.some.injEq, Prod.mk.injEq] at hw
              obtain ⟨rfl, rfl⟩ := hw
              obtain ⟨e0, v0⟩ := wRefAll_sim nb h.succs gs g0 succs h0
              obtain ⟨e2, b2⟩ := wUseAll_sim nv h.operands h.inTys g1 g2 opnds h2
              obtain ⟨e3, b3⟩ := wDefAll_sim nv h.results h.outTys g2 g3 results h3
              have e3' := bind_of_defineAll _ _ _ _ e3
              have s1 := ihr false g0 g1 rs' h1
              have s4 := ihn false g3 g4 nx' h4
              have hb : (proj nv nb gs).b = projB nb gs.b := rfl
              have hv1 : (proj nv nb g1).v = projV nv g1.v := rfl
              simp only [nameT, res, Hdr.map, hb, e0, proj_with_b nv nb gs g0 v0, s1, hv1, e2, e3',
                proj_with_v nv nb g1 g3 (b3.trans b2), s4]
  | region bs nx ihb ihn =>
    intro e gs gs' t' hw
    simp only [walk] at hw
    cases h1 : walk nv nb true { gs with b := { bdef := [], bpend := [], next := gs.b.next } } bs with
    | none => simp [h1] at hw
    | some r1 =>
      obtain ⟨g1, bs'⟩ := r1
      simp only [h1] at hw
      cases he : g1.b.bpend.isEmpty with
      | false => simp [he] at hw
      | true =>
        simp only [he, if_true] at hw
        cases h2 : walk nv nb false
            { g1 with v := { g1.v with scope := gs.v.scope },
                      b := { bdef := gs.b.bdef, bpend := gs.b.bpend, next := g1.b.next } } nx with
        | none => simp [h2] at hw
        | some r2 =>
          obtain ⟨g2, nx'⟩ := r2
          simp only [h2, Option.some.injEq, Prod.mk.injEq] at hw
          obtain ⟨rfl, rfl⟩ := hw
          have s1 := ihb true _ g1 bs' h1
          have s2 := ihn false _ g2 nx' h2
          have he' : (proj nv nb g1).b.bpend.isEmpty = true := by
            simp only [proj, projB, pk_isEmpty, he]
          simp only [nameT, res]
          have s1' : res { v := (proj nv nb gs).v, b := { next := (proj nv nb gs).b.next } } (nameT nv nb true bs) = some (proj nv nb g1, bs') := s1
          have s2' : res { v := { scope := (proj nv nb gs).v.scope, pend := (proj nv nb g1).v.pend, next := (proj nv nb g1).v.next }, b := { bdef := (proj nv nb gs).b.bdef, bpend := (proj nv nb gs).b.bpend, next := (proj nv nb g1).b.next } } (nameT nv nb false nx) = some (proj nv nb g2, nx') := s2
          rw [s1']
          simp only [he', if_true]
          rw [s2']
  | block b args ops nx iho ihn =>
    intro e gs gs' t' hw
    simp only [walk] at hw
    cases hc : (e && !entryLabelled b args ops nx) with
    | true =>
      simp only [hc, if_true] at hw
      cases hbl : (AL.get gs.blog b).isSome with
      | true => simp [hbl] at hw
      | false =>
        simp only [hbl, Bool.false_eq_true, if_false] at hw
        cases h1 : wDefArgs nv { gs with b := { gs.b with next := gs.b.next + 1 },
                                          blog := (b, gs.b.next) :: gs.blog } args with
        | none => simp [h1] at hw
        | some r1 =>
          obtain ⟨g1, args'⟩ := r1
          simp only [h1] at hw
          cases h2 : walk nv nb false g1 ops with
          | none => simp [h2] at hw
          | some r2 =>
            obtain ⟨g2, ops'⟩ := r2
            simp only [h2] at hw
            cases h3 : walk nv nb false g2 nx with
            | none => simp [h3] at hw
            | some r3 =>
              obtain ⟨g3, nx'⟩ := r3
              simp only [h3, Option.some.injEq, Prod.mk.injEq] at hw
              obtain ⟨rfl, rfl⟩ := hw
              obtain ⟨e1, b1⟩ := wDefArgs_sim nv args _ g1 args' h1
              have s2 := iho false g1 g2 ops' h2
              have s3 := ihn false g2 g3 nx' h3
              have hv : (proj nv nb gs).v = projV nv gs.v := rfl
              simp only [nameT, hc, if_true, res, hv]
              simp only [] at e1 b1
              rw [e1]
              simp only []
              rw [show ({ v := projV nv g1.v,
                          b := { (proj nv nb gs).b with next := (proj nv nb gs).b.next + 1 } } : PS) =
                  proj nv nb g1 from by simp [proj, projB, b1]]
              rw [s2]; simp only []; rw [s3]; rfl
    | false =>
      simp only [hc, Bool.false_eq_true, if_false] at hw
      cases h0 : wBDef nb gs b with
      | none => simp [h0] at hw
      | some r0 =>
        obtain ⟨g0, id⟩ := r0
        simp only [h0] at hw
        cases h1 : wDefArgs nv g0 args with
        | none => simp [h1] at hw
        | some r1 =>
          obtain ⟨g1, args'⟩ := r1
          simp only [h1] at hw
          cases h2 : walk nv nb false g1 ops with
          | none => simp [h2] at hw
          | some r2 =>
            obtain ⟨g2, ops'⟩ := r2
            simp only [h2] at hw
            cases h3 : walk nv nb false g2 nx with
            | none => simp [h3] at hw
            | some r3 =>
              obtain ⟨g3, nx'⟩ := r3
              simp only [h3, Option.some.injEq, Prod.mk.injEq] at hw
              obtain ⟨rfl, rfl⟩ := hw
              obtain ⟨e0, v0⟩ := wBDef_sim nb gs g0 b id h0
              obtain ⟨e1, b1⟩ := wDefArgs_sim nv args g0 g1 args' h1
              have s2 := iho false g1 g2 ops' h2
              have s3 := ihn false g2 g3 nx' h3
              have hb : (proj nv nb gs).b = projB nb gs.b := rfl
              have hv : (proj nv nb gs).v = projV nv gs.v := rfl
              simp only [nameT, hc, Bool.false_eq_true, if_false, res, hb, hv, e0]
              rw [← v0, e1]
              simp only []
              rw [show ({ v := projV nv g1.v, b := projB nb g0.b } : PS) = proj nv nb g1 from by
                simp [proj, b1]]
              rw [s2]; simp only []; rw [s3]

end Xdsl.Skeleton
