import XdslModel.DisjointSet
import Mathlib.Data.Fintype.Card
import Mathlib.Logic.Relation
/-!
Helper lemmas for the union-find part of C12 (`xdsl/utils/disjoint_set.py`, `IntDisjointSet`).

* `Inv` — the forest invariant (lengths equal, parents in range, acyclic by a rank witness);
* `root s x := findRoot s s.size x` — the abstraction function (representative of `x`);
* pigeonhole: under `Inv` a root is reached within `s.size` steps, so the fuel of the model's two
  loops is never exhausted;
* `compress` (path compression) and `link` (the two assignments of `union`/`union_left`) preserve
  `Inv`, and their effect on `root` is computed;
* `Spec`/`Rel`/`Repr` — the abstract side: number of elements + list of pairs unioned so far, the
  equivalence closure of those pairs, and the representation relation.
-/
namespace Xdsl.DisjointSet

/-! ### parent function -/

theorem par_mk (p c : List Nat) (i : Nat) : UF.par { parent := p, count := c } i = p.getD i i := rfl

theorem par_of_size_le (s : UF) {i : Nat} (h : s.size ≤ i) : s.par i = i := by
  simp only [UF.par, UF.size] at *
  simp [List.getD_eq_getElem?_getD, List.getElem?_eq_none h]

theorem iter_succ' (f : Nat → Nat) (k x : Nat) : f^[k + 1] x = f (f^[k] x) :=
  Function.iterate_succ_apply' f k x

theorem iter_fixed (f : Nat → Nat) {r : Nat} (h : f r = r) : ∀ k, f^[k] r = r
  | 0 => rfl
  | k + 1 => by rw [Function.iterate_succ_apply, h]; exact iter_fixed f h k

/-! ### the first loop -/

/-- the result of the first loop is some iterate of the parent function -/
theorem findRoot_iter (s : UF) : ∀ fuel x, ∃ k, k ≤ fuel ∧ findRoot s fuel x = s.par^[k] x
  | 0, x => ⟨0, Nat.le_refl _, rfl⟩
  | fuel + 1, x => by
    simp only [findRoot]
    split
    · exact ⟨0, Nat.zero_le _, rfl⟩
    · obtain ⟨k, hk, e⟩ := findRoot_iter s fuel (s.par x)
      exact ⟨k + 1, Nat.succ_le_succ hk, by rw [e]; rfl⟩

/-- if a root is `k ≤ fuel` steps away, the first loop ends on a root -/
theorem findRoot_root_of_le (s : UF) : ∀ fuel k x, s.par (s.par^[k] x) = s.par^[k] x → k ≤ fuel →
    s.par (findRoot s fuel x) = findRoot s fuel x
  | 0, k, x, h, hk => by
    have : k = 0 := by omega
    subst this; simpa [findRoot] using h
  | fuel + 1, k, x, h, hk => by
    simp only [findRoot]
    split
    · assumption
    · rename_i hx
      cases k with
      | zero => exact absurd h hx
      | succ k => exact findRoot_root_of_le s fuel k (s.par x) h (by omega)

/-- more fuel does not change the answer once the loop has ended on a root -/
theorem findRoot_succ_of_root (s : UF) : ∀ fuel x, s.par (findRoot s fuel x) = findRoot s fuel x →
    findRoot s (fuel + 1) x = findRoot s fuel x
  | 0, x, h => by
    simp only [findRoot] at h ⊢; simp [h]
  | fuel + 1, x, h => by
    rw [findRoot]
    by_cases hx : s.par x = x
    · simp [findRoot, hx]
    · have h' : s.par (findRoot s fuel (s.par x)) = findRoot s fuel (s.par x) := by
        simpa [findRoot, hx] using h
      simp only [hx, if_false]
      rw [findRoot_succ_of_root s fuel (s.par x) h']
      simp [findRoot, hx]

theorem findRoot_add_of_root (s : UF) (fuel x : Nat)
    (h : s.par (findRoot s fuel x) = findRoot s fuel x) :
    ∀ d, findRoot s (fuel + d) x = findRoot s fuel x
  | 0 => rfl
  | d + 1 => by
    have ih := findRoot_add_of_root s fuel x h d
    rw [← Nat.add_assoc, findRoot_succ_of_root s (fuel + d) x (by rw [ih]; exact h), ih]

theorem findRoot_of_root (s : UF) {x : Nat} (h : s.par x = x) : ∀ fuel, findRoot s fuel x = x
  | 0 => rfl
  | fuel + 1 => by simp [findRoot, h]

/-! ### the forest invariant -/

/-- Forest invariant of `IntDisjointSet`: `_parent` and `_count` have the same length, every parent
index is in range, and the parent graph is acyclic apart from the self-loops at roots — witnessed by
a rank function that strictly increases along every non-root parent edge. -/
structure Inv (s : UF) : Prop where
  len : s.count.length = s.parent.length
  range : ∀ i, i < s.size → s.par i < s.size
  acyc : ∃ rk : Nat → Nat, ∀ i, s.par i ≠ i → rk i < rk (s.par i)

theorem iter_lt (s : UF) (h : Inv s) {x : Nat} (hx : x < s.size) : ∀ k, s.par^[k] x < s.size
  | 0 => hx
  | k + 1 => by rw [iter_succ']; exact h.range _ (iter_lt s h hx k)

/-- ranks never decrease along a parent path, and increase as soon as the path moves -/
theorem rk_iter (s : UF) (rk : Nat → Nat) (hrk : ∀ i, s.par i ≠ i → rk i < rk (s.par i)) :
    ∀ k x, s.par^[k] x = x ∨ rk x < rk (s.par^[k] x)
  | 0, x => Or.inl rfl
  | k + 1, x => by
    rw [Function.iterate_succ_apply]
    by_cases hx : s.par x = x
    · rw [hx]; exact rk_iter s rk hrk k x
    · have h1 := hrk x hx
      rcases rk_iter s rk hrk k (s.par x) with e | l
      · right; rw [e]; exact h1
      · right; exact Nat.lt_trans h1 l

/-- **Pigeonhole**: in a forest over `s.size` nodes a root is at most `s.size` parent steps away. -/
theorem root_within_size (s : UF) (h : Inv s) (x : Nat) :
    ∃ k, k ≤ s.size ∧ s.par (s.par^[k] x) = s.par^[k] x := by
  by_cases hx : s.size ≤ x
  · exact ⟨0, Nat.zero_le _, par_of_size_le s hx⟩
  · have hx : x < s.size := Nat.lt_of_not_le hx
    obtain ⟨rk, hrk⟩ := h.acyc
    by_contra hcon
    have hne : ∀ k, k ≤ s.size → s.par (s.par^[k] x) ≠ s.par^[k] x := fun k hk e => hcon ⟨k, hk, e⟩
    -- ranks strictly increase along the first `size + 1` iterates
    have hstep : ∀ k, k ≤ s.size → rk (s.par^[k] x) < rk (s.par^[k + 1] x) := by
      intro k hk; rw [iter_succ']; exact hrk _ (hne k hk)
    have hmono : ∀ d j, j + d + 1 ≤ s.size + 1 → rk (s.par^[j] x) < rk (s.par^[j + d + 1] x) := by
      intro d
      induction d with
      | zero => intro j hj; exact hstep j (by omega)
      | succ d ih =>
        intro j hj
        exact Nat.lt_trans (ih j (by omega)) (hstep (j + d + 1) (by omega))
    let f : Fin (s.size + 1) → Fin s.size := fun k => ⟨s.par^[k.val] x, iter_lt s h hx k.val⟩
    have hinj : Function.Injective f := by
      intro a b hab
      have hv : s.par^[a.val] x = s.par^[b.val] x := congrArg Fin.val hab
      apply Fin.ext
      by_contra hne'
      rcases Nat.lt_or_gt_of_ne hne' with l | l
      · have := hmono (b.val - a.val - 1) a.val (by have := b.isLt; omega)
        rw [show a.val + (b.val - a.val - 1) + 1 = b.val by omega, hv] at this
        exact Nat.lt_irrefl _ this
      · have := hmono (a.val - b.val - 1) b.val (by have := a.isLt; omega)
        rw [show b.val + (a.val - b.val - 1) + 1 = a.val by omega, hv] at this
        exact Nat.lt_irrefl _ this
    have := Fintype.card_le_of_injective f hinj
    simp only [Fintype.card_fin] at this
    omega

/-! ### the representative function -/

/-- representative of `x`: what the first loop of `__getitem__` computes -/
def root (s : UF) (x : Nat) : Nat := findRoot s s.size x

theorem root_is_root (s : UF) (h : Inv s) (x : Nat) : s.par (root s x) = root s x := by
  obtain ⟨k, hk, e⟩ := root_within_size s h x
  exact findRoot_root_of_le s s.size k x e hk

/-- **the fuel is never exhausted**: any larger fuel gives the same answer -/
theorem findRoot_fuel_irrelevant (s : UF) (h : Inv s) (x fuel : Nat) (hf : s.size ≤ fuel) :
    findRoot s fuel x = root s x := by
  obtain ⟨d, rfl⟩ := Nat.exists_eq_add_of_le hf
  exact findRoot_add_of_root s s.size x (root_is_root s h x) d

theorem root_reachable (s : UF) (x : Nat) : ∃ k, k ≤ s.size ∧ root s x = s.par^[k] x :=
  findRoot_iter s s.size x

theorem root_of_root (s : UF) {x : Nat} (h : s.par x = x) : root s x = x :=
  findRoot_of_root s h s.size

theorem root_idem (s : UF) (h : Inv s) (x : Nat) : root s (root s x) = root s x :=
  root_of_root s (root_is_root s h x)

theorem root_par (s : UF) (h : Inv s) (x : Nat) : root s (s.par x) = root s x := by
  by_cases hx : s.par x = x
  · rw [hx]
  · have h1 : findRoot s (s.size + 1) x = root s x :=
      findRoot_fuel_irrelevant s h x _ (Nat.le_succ _)
    rw [findRoot] at h1
    simpa [hx, root] using h1

theorem root_lt (s : UF) (h : Inv s) {x : Nat} (hx : x < s.size) : root s x < s.size := by
  obtain ⟨k, _, e⟩ := root_reachable s x
  rw [e]; exact iter_lt s h hx k

theorem root_of_size_le (s : UF) {x : Nat} (hx : s.size ≤ x) : root s x = x :=
  root_of_root s (par_of_size_le s hx)

theorem root_eq_self_iff (s : UF) (h : Inv s) (x : Nat) : root s x = x ↔ s.par x = x :=
  ⟨fun e => by have := root_is_root s h x; rwa [e] at this, root_of_root s⟩

/-- a function that is constant along parent edges and fixes roots is the representative function -/
theorem root_unique (s : UF) (h : Inv s) (f : Nat → Nat)
    (hfix : ∀ i, s.par i = i → f i = i) (hpar : ∀ i, f (s.par i) = f i) (x : Nat) :
    root s x = f x := by
  obtain ⟨k, _, e⟩ := root_reachable s x
  have hk : ∀ k y, f (s.par^[k] y) = f y := by
    intro k
    induction k with
    | zero => intro y; rfl
    | succ k ih => intro y; rw [Function.iterate_succ_apply, ih, hpar]
  have := hfix _ (root_is_root s h x)
  rw [← this, e, hk]

theorem rk_lt_root (s : UF) (rk : Nat → Nat) (hrk : ∀ i, s.par i ≠ i → rk i < rk (s.par i))
    {x : Nat} (hx : root s x ≠ x) : rk x < rk (root s x) := by
  obtain ⟨k, _, e⟩ := root_reachable s x
  rcases rk_iter s rk hrk k x with e' | l
  · exact absurd (e.trans e') hx
  · rw [e]; exact l

/-! ### the second loop (path compression) -/

theorem getD_set (p : List Nat) (c v i : Nat) :
    (p.set c v).getD i i = if i = c ∧ c < p.length then v else p.getD i i := by
  simp only [List.getD_eq_getElem?_getD, List.getElem?_set]
  by_cases hic : i = c
  · subst hic
    by_cases hl : i < p.length
    · simp [hl]
    · simp [hl]
  · have : ¬ c = i := fun e => hic e.symm
    simp [hic, this]

/-- What path compression does to the parent list, for any function `g` that is constant along
parent edges (think `g = root s`): every entry either keeps its value or is redirected to `root`,
and only entries `i ≠ root` with `g i = root` are redirected. -/
theorem compress_spec (g : Nat → Nat) (root : Nat) (hroot : g root = root) :
    ∀ fuel cur p, (∀ i, g (p.getD i i) = g i) → g cur = root →
      (compress p root fuel cur).length = p.length ∧
      ∀ i, (compress p root fuel cur).getD i i = p.getD i i ∨
        ((compress p root fuel cur).getD i i = root ∧ i ≠ root ∧ g i = root)
  | 0, cur, p, _, _ => ⟨rfl, fun _ => Or.inl rfl⟩
  | fuel + 1, cur, p, hp, hcur => by
    simp only [compress]
    split
    · exact ⟨rfl, fun _ => Or.inl rfl⟩
    · rename_i hne
      have hp2 : ∀ i, g ((p.set cur root).getD i i) = g i := by
        intro i; rw [getD_set]
        split
        · rename_i h; rw [h.1, hroot, hcur]
        · exact hp i
      have hnext : g (p.getD cur cur) = root := by rw [hp cur, hcur]
      obtain ⟨hl, hi⟩ := compress_spec g root hroot fuel (p.getD cur cur) (p.set cur root) hp2 hnext
      refine ⟨by rw [hl, List.length_set], fun i => ?_⟩
      rcases hi i with e | e
      · rw [e, getD_set]
        split
        · rename_i h; right
          exact ⟨rfl, by rw [h.1]; exact hne, by rw [h.1]; exact hcur⟩
        · left; rfl
      · right; exact e

theorem iter_set_root (p : List Nat) (cur root : Nat) (hr : p.getD root root = root)
    (hne : cur ≠ root) :
    ∀ k y, (fun i => p.getD i i)^[k] y = root →
      (fun i => (p.set cur root).getD i i)^[k] y = root
  | 0, y, h => h
  | k + 1, y, h => by
    rw [Function.iterate_succ_apply] at h ⊢
    have hroot' : (fun i => (p.set cur root).getD i i) root = root := by
      simp only [getD_set]
      rw [if_neg (fun h => hne h.1.symm)]; exact hr
    by_cases hy : y = cur ∧ cur < p.length
    · have : (p.set cur root).getD y y = root := by rw [getD_set, if_pos hy]
      simp only [this]
      exact iter_fixed (fun i => (p.set cur root).getD i i) hroot' k
    · have : (p.set cur root).getD y y = p.getD y y := by rw [getD_set, if_neg hy]
      simp only [this]
      exact iter_set_root p cur root hr hne k _ h

/-- once `root` is `k` parent steps from `cur`, any fuel `≥ k` gives the same compressed list -/
theorem compress_fuel (root : Nat) :
    ∀ k fuel cur p, p.getD root root = root → (fun i => p.getD i i)^[k] cur = root → k ≤ fuel →
      compress p root fuel cur = compress p root k cur
  | 0, fuel, cur, p, _, hk, _ => by
    have : cur = root := hk
    subst this
    cases fuel <;> simp [compress]
  | k + 1, 0, _, _, _, _, hf => by omega
  | k + 1, fuel + 1, cur, p, hr, hk, hf => by
    simp only [compress]
    split
    · rfl
    · rename_i hne
      rw [Function.iterate_succ_apply] at hk
      have hr2 : (p.set cur root).getD root root = root := by
        rw [getD_set, if_neg (fun h => hne h.1.symm)]; exact hr
      exact compress_fuel root k fuel (p.getD cur cur) (p.set cur root) hr2
        (iter_set_root p cur root hr hne k _ hk) (by omega)

theorem size_mk (p c : List Nat) : UF.size { parent := p, count := c } = p.length := rfl

/-- `__getitem__` on an index in range: returns the representative; afterwards the structure is
again a forest with the same representatives, the same roots and the same counts. -/
theorem find_spec (s : UF) (h : Inv s) {x : Nat} (hx : x < s.size) :
    ∃ s', find s x = some (s', root s x) ∧ Inv s' ∧ s'.size = s.size ∧ s'.count = s.count ∧
      (∀ i, root s' i = root s i) ∧ (∀ i, s'.par i = i ↔ s.par i = i) := by
  have hnot : ¬ s.size ≤ x := Nat.not_le_of_lt hx
  obtain ⟨hl, hi⟩ := compress_spec (root s) (root s x) (root_idem s h x) s.size x s.parent
    (fun i => root_par s h i) rfl
  have hsz : UF.size { s with parent := compress s.parent (root s x) s.size x } = s.size := by
    rw [size_mk, hl]; rfl
  have hinv' : Inv { s with parent := compress s.parent (root s x) s.size x } := by
    obtain ⟨rk, hrk⟩ := h.acyc
    refine ⟨by rw [h.len]; exact hl.symm, ?_, ⟨rk, ?_⟩⟩
    · intro i hi'
      rw [hsz] at *
      rcases hi i with e | e
      · rw [par_mk, e]; exact h.range i hi'
      · rw [par_mk, e.1]; exact root_lt s h hx
    · intro i hne
      rw [par_mk] at *
      rcases hi i with e | e
      · rw [e] at hne ⊢; exact hrk i hne
      · rw [e.1, ← e.2.2]
        exact rk_lt_root s rk hrk (by rw [e.2.2]; exact e.2.1.symm)
  refine ⟨{ s with parent := compress s.parent (root s x) s.size x }, ?_, hinv', hsz, rfl, ?_, ?_⟩
  · simp [find, hnot, root]
  · intro i
    refine root_unique _ hinv' (root s) ?_ ?_ i
    · intro j hj
      rw [par_mk] at hj
      rcases hi j with e | e
      · rw [e] at hj; exact root_of_root s hj
      · rw [e.1] at hj; exact absurd hj.symm e.2.1
    · intro j
      rw [par_mk]
      rcases hi j with e | e
      · rw [e]; exact root_par s h j
      · rw [e.1, root_idem s h x, e.2.2]
  · intro i
    rw [par_mk]
    rcases hi i with e | e
    · rw [e]; rfl
    · rw [e.1]
      constructor
      · intro hj; exact absurd hj.symm e.2.1
      · intro hj; exact absurd ((root_of_root s hj).symm.trans e.2.2) e.2.1

theorem find_none (s : UF) {x : Nat} (hx : s.size ≤ x) : find s x = none := by
  simp [find, hx]

/-- **the fuel of the second loop is never exhausted**: any larger fuel gives the same list -/
theorem compress_fuel_irrelevant (s : UF) (h : Inv s) (x fuel : Nat) (hf : s.size ≤ fuel) :
    compress s.parent (root s x) fuel x = compress s.parent (root s x) s.size x := by
  obtain ⟨k, hk, e⟩ := root_reachable s x
  have hr : s.parent.getD (root s x) (root s x) = root s x := root_is_root s h x
  have hk' : (fun i => s.parent.getD i i)^[k] x = root s x := e.symm
  rw [compress_fuel (root s x) k fuel x s.parent hr hk' (Nat.le_trans hk hf),
    compress_fuel (root s x) k s.size x s.parent hr hk' hk]

/-! ### linking two roots (the two assignments at the end of `union` / `union_left`) -/

/-- `_parent[c] = p; _count[p] = n` -/
def link (s : UF) (c p n : Nat) : UF :=
  { parent := s.parent.set c p, count := s.count.set p n }

theorem link_size (s : UF) (c p n : Nat) : (link s c p n).size = s.size := by
  simp [link, UF.size]

theorem link_par (s : UF) {c : Nat} (hc : c < s.size) (p n i : Nat) :
    (link s c p n).par i = if i = c then p else s.par i := by
  simp only [link, getD_set, UF.par]
  by_cases hi : i = c
  · simp [hi, show c < s.parent.length from hc]
  · simp [hi]

theorem link_inv (s : UF) (h : Inv s) {c p : Nat} (n : Nat) (hc : c < s.size) (hp : p < s.size)
    (hpr : s.par p = p) (hcp : c ≠ p) : Inv (link s c p n) := by
  obtain ⟨rk, hrk⟩ := h.acyc
  refine ⟨by simp [link, h.len], ?_, ⟨fun i => if i = p then rk p + rk c + 1 else rk i, ?_⟩⟩
  · intro i hi
    rw [link_size] at *
    rw [link_par s hc]
    split
    · exact hp
    · exact h.range i hi
  · intro i hne
    rw [link_par s hc] at hne ⊢
    by_cases hic : i = c
    · subst hic
      simp only [if_true]
      rw [if_neg hcp]; omega
    · simp only [hic, if_false] at hne ⊢
      have hip : i ≠ p := fun e => hne (e ▸ hpr)
      rw [if_neg hip]
      have := hrk i hne
      split
      · rename_i e; rw [e] at this; omega
      · exact this

/-- after linking root `c` below root `p`, exactly the members of `c`'s class change their
representative, to `p` -/
theorem link_root (s : UF) (h : Inv s) {c p : Nat} (n : Nat) (hc : c < s.size) (hp : p < s.size)
    (hcr : s.par c = c) (hpr : s.par p = p) (hcp : c ≠ p) (i : Nat) :
    root (link s c p n) i = if root s i = c then p else root s i := by
  refine root_unique _ (link_inv s h n hc hp hpr hcp)
    (fun i => if root s i = c then p else root s i) ?_ ?_ i
  · intro j hj
    rw [link_par s hc] at hj
    by_cases hjc : j = c
    · rw [if_pos hjc] at hj; exact absurd (hjc.symm.trans hj.symm) hcp
    · rw [if_neg hjc] at hj
      rw [root_of_root s hj, if_neg hjc]
  · intro j
    rw [link_par s hc]
    by_cases hjc : j = c
    · subst hjc
      simp only [if_true]
      rw [root_of_root s hpr, root_of_root s hcr, if_neg (Ne.symm hcp), if_pos rfl]
    · rw [if_neg hjc, root_par s h j]

/-! ### class sizes (`_count` of a root is the number of elements of its class) -/

/-- number of indices in range whose representative is `r` -/
def classSize (s : UF) (r : Nat) : Nat := (List.range s.size).countP (fun i => root s i == r)

/-- the `_count` entry of every root is the size of its class -/
def Counts (s : UF) : Prop := ∀ r, r < s.size → s.par r = r → s.count.getD r 0 = classSize s r

theorem classSize_congr (s s' : UF) (hs : s'.size = s.size) (hr : ∀ i, root s' i = root s i)
    (r : Nat) : classSize s' r = classSize s r := by
  simp only [classSize, hs, hr]

theorem countP_or (a b : Nat → Bool) (hab : ∀ i, ¬ (a i = true ∧ b i = true)) :
    ∀ l : List Nat, l.countP (fun i => a i || b i) = l.countP a + l.countP b
  | [] => rfl
  | x :: l => by
    simp only [List.countP_cons, countP_or a b hab l]
    have := hab x
    cases ha : a x <;> cases hb : b x <;> simp_all <;> omega

theorem classSize_pos (s : UF) {r : Nat} (hr : r < s.size) (hrr : s.par r = r) :
    0 < classSize s r := by
  simp only [classSize]
  rw [List.countP_pos_iff]
  exact ⟨r, List.mem_range.mpr hr, by simp [root_of_root s hrr]⟩

theorem find_counts (s s' : UF) (hc : Counts s) (hs : s'.size = s.size) (hcnt : s'.count = s.count)
    (hr : ∀ i, root s' i = root s i) (hp : ∀ i, s'.par i = i ↔ s.par i = i) : Counts s' := by
  intro r hr' hrr
  rw [classSize_congr s s' hs hr, hcnt]
  exact hc r (hs ▸ hr') ((hp r).mp hrr)

theorem getD_set0 (l : List Nat) (c v i : Nat) :
    (l.set c v).getD i 0 = if i = c ∧ c < l.length then v else l.getD i 0 := by
  simp only [List.getD_eq_getElem?_getD, List.getElem?_set]
  by_cases hic : i = c
  · subst hic
    by_cases hl : i < l.length
    · simp [hl]
    · simp [hl]
  · have : ¬ c = i := fun e => hic e.symm
    simp [hic, this]

theorem link_counts (s : UF) (h : Inv s) (hcs : Counts s) {c p : Nat} (hc : c < s.size)
    (hp : p < s.size) (hcr : s.par c = c) (hpr : s.par p = p) (hcp : c ≠ p) :
    Counts (link s c p (s.count.getD p 0 + s.count.getD c 0)) := by
  intro r hr hrr
  rw [link_size] at hr
  rw [link_par s hc] at hrr
  have hrc : r ≠ c := by
    intro e; rw [if_pos e] at hrr; exact hcp (e.symm.trans hrr.symm)
  rw [if_neg hrc] at hrr
  have hroot := link_root s h (s.count.getD p 0 + s.count.getD c 0) hc hp hcr hpr hcp
  simp only [classSize, link_size, hroot]
  simp only [link, getD_set0]
  have hpl : p < s.count.length := by rw [h.len]; exact hp
  by_cases hrp : r = p
  · subst hrp
    simp only [hpl, and_self, if_true]
    rw [hcs r hp hpr, hcs c hc hcr]
    simp only [classSize]
    rw [← countP_or]
    · apply List.countP_congr
      intro i _
      by_cases hi : root s i = c
      · simp [hi]
      · simp [hi]
    · intro i ⟨h1, h2⟩
      simp only [beq_iff_eq] at h1 h2
      exact hcp (h2.symm.trans h1)
  · rw [if_neg (fun e => hrp e.1), hcs r hr hrr]
    simp only [classSize]
    apply List.countP_congr
    intro i _
    by_cases hi : root s i = c
    · simp only [hi, if_true, beq_iff_eq]
      exact ⟨fun e => absurd e.symm hrc, fun e => absurd e.symm hrp⟩
    · simp [hi]

/-! ### the operations, in terms of `root` -/

/-- the two `self[...]` calls that open `union`, `union_left` and `connected` -/
theorem find2_spec (s : UF) (h : Inv s) {a b : Nat} (ha : a < s.size) (hb : b < s.size) :
    ∃ s1 s2, find s a = some (s1, root s a) ∧ find s1 b = some (s2, root s b) ∧ Inv s2 ∧
      s2.size = s.size ∧ s2.count = s.count ∧ (∀ i, root s2 i = root s i) ∧
      (∀ i, s2.par i = i ↔ s.par i = i) := by
  obtain ⟨s1, e1, h1, hs1, hc1, hr1, hp1⟩ := find_spec s h ha
  obtain ⟨s2, e2, h2, hs2, hc2, hr2, hp2⟩ := find_spec s1 h1 (hs1 ▸ hb)
  refine ⟨s1, s2, e1, by rw [e2, hr1], h2, hs2.trans hs1, hc2.trans hc1,
    fun i => (hr2 i).trans (hr1 i), fun i => (hp2 i).trans (hp1 i)⟩

/-- `union_left(a, b)` on indices in range -/
theorem unionLeft_spec (s : UF) (h : Inv s) {a b : Nat} (ha : a < s.size) (hb : b < s.size) :
    ∃ s', unionLeft s a b = some (s', !decide (root s a = root s b)) ∧ Inv s' ∧
      s'.size = s.size ∧
      (∀ i, root s' i = if root s i = root s b then root s a else root s i) ∧
      (Counts s → Counts s') := by
  obtain ⟨s1, s2, e1, e2, h2, hs2, hc2, hr2, hp2⟩ := find2_spec s h ha hb
  by_cases hlr : root s a = root s b
  · refine ⟨s2, by simp [unionLeft, e1, e2, hlr], h2, hs2, ?_, fun hc => find_counts s s2 hc hs2 hc2 hr2 hp2⟩
    intro i; rw [hr2]; split
    · rename_i e; rw [e, hlr]
    · rfl
  · have hl : root s a < s2.size := hs2 ▸ root_lt s h ha
    have hr : root s b < s2.size := hs2 ▸ root_lt s h hb
    have hlp : s2.par (root s a) = root s a := (hp2 _).mpr (root_is_root s h a)
    have hrp : s2.par (root s b) = root s b := (hp2 _).mpr (root_is_root s h b)
    refine ⟨link s2 (root s b) (root s a) (s2.count.getD (root s a) 0 + s2.count.getD (root s b) 0),
      by simp [unionLeft, e1, e2, hlr, link], link_inv s2 h2 _ hr hl hlp (Ne.symm hlr),
      by rw [link_size, hs2], ?_, ?_⟩
    · intro i
      rw [link_root s2 h2 _ hr hl hrp hlp (Ne.symm hlr), hr2]
    · intro hc
      exact link_counts s2 h2 (find_counts s s2 hc hs2 hc2 hr2 hp2) hr hl hrp hlp (Ne.symm hlr)

/-- `union(a, b)` on indices in range: as `union_left`, in one of the two orientations -/
theorem union_spec (s : UF) (h : Inv s) {a b : Nat} (ha : a < s.size) (hb : b < s.size) :
    ∃ s', union s a b = some (s', !decide (root s a = root s b)) ∧ Inv s' ∧
      s'.size = s.size ∧
      ((∀ i, root s' i = if root s i = root s b then root s a else root s i) ∨
       (∀ i, root s' i = if root s i = root s a then root s b else root s i)) ∧
      (Counts s → Counts s') := by
  obtain ⟨s1, s2, e1, e2, h2, hs2, hc2, hr2, hp2⟩ := find2_spec s h ha hb
  by_cases hlr : root s a = root s b
  · refine ⟨s2, by simp [union, e1, e2, hlr], h2, hs2, Or.inl ?_,
      fun hc => find_counts s s2 hc hs2 hc2 hr2 hp2⟩
    intro i; rw [hr2]; split
    · rename_i e; rw [e, hlr]
    · rfl
  · have hl : root s a < s2.size := hs2 ▸ root_lt s h ha
    have hr : root s b < s2.size := hs2 ▸ root_lt s h hb
    have hlp : s2.par (root s a) = root s a := (hp2 _).mpr (root_is_root s h a)
    have hrp : s2.par (root s b) = root s b := (hp2 _).mpr (root_is_root s h b)
    by_cases hge : s2.count.getD (root s a) 0 ≥ s2.count.getD (root s b) 0 <;>
      have hge' := hge <;> simp only [List.getD_eq_getElem?_getD, ge_iff_le] at hge'
    · refine ⟨link s2 (root s b) (root s a)
          (s2.count.getD (root s a) 0 + s2.count.getD (root s b) 0),
        by simp [union, e1, e2, hlr, link, hge'], link_inv s2 h2 _ hr hl hlp (Ne.symm hlr),
        by rw [link_size, hs2], Or.inl ?_, ?_⟩
      · intro i
        rw [link_root s2 h2 _ hr hl hrp hlp (Ne.symm hlr), hr2]
      · intro hc
        exact link_counts s2 h2 (find_counts s s2 hc hs2 hc2 hr2 hp2) hr hl hrp hlp (Ne.symm hlr)
    · refine ⟨link s2 (root s a) (root s b)
          (s2.count.getD (root s a) 0 + s2.count.getD (root s b) 0),
        by simp [union, e1, e2, hlr, link, hge'], link_inv s2 h2 _ hl hr hrp hlr,
        by rw [link_size, hs2], Or.inr ?_, ?_⟩
      · intro i
        rw [link_root s2 h2 _ hl hr hlp hrp hlr, hr2]
      · intro hc
        rw [Nat.add_comm]
        exact link_counts s2 h2 (find_counts s s2 hc hs2 hc2 hr2 hp2) hl hr hlp hrp hlr

/-- `connected(a, b)` on indices in range -/
theorem connected_spec (s : UF) (h : Inv s) {a b : Nat} (ha : a < s.size) (hb : b < s.size) :
    ∃ s', connected s a b = some (s', decide (root s a = root s b)) ∧ Inv s' ∧
      s'.size = s.size ∧ (∀ i, root s' i = root s i) ∧ (Counts s → Counts s') := by
  obtain ⟨s1, s2, e1, e2, h2, hs2, hc2, hr2, hp2⟩ := find2_spec s h ha hb
  refine ⟨s2, ?_, h2, hs2, hr2, fun hc => find_counts s s2 hc hs2 hc2 hr2 hp2⟩
  simp only [connected, e1, e2]
  by_cases e : root s a = root s b <;> simp [e]

/-- a binary operation whose second argument is out of range raises `KeyError` after the first
lookup has (harmlessly) compressed a path -/
theorem find_first_only (s : UF) (h : Inv s) {a : Nat} (ha : a < s.size) :
    ∃ s1, find s a = some (s1, root s a) ∧ Inv s1 ∧ s1.size = s.size ∧
      (∀ i, root s1 i = root s i) ∧ (Counts s → Counts s1) := by
  obtain ⟨s1, e1, h1, hs1, hc1, hr1, hp1⟩ := find_spec s h ha
  exact ⟨s1, e1, h1, hs1, hr1, fun hc => find_counts s s1 hc hs1 hc1 hr1 hp1⟩

/-! ### `add` and `init` -/

def addState (s : UF) : UF := { parent := s.parent ++ [s.size], count := s.count ++ [1] }

theorem add_size (s : UF) : (addState s).size = s.size + 1 := by
  simp [addState, UF.size]

theorem add_par (s : UF) (i : Nat) : (addState s).par i = s.par i := by
  simp only [addState, UF.par, UF.size, List.getD_eq_getElem?_getD, List.getElem?_append]
  by_cases hi : i < s.parent.length
  · simp [hi]
  · simp only [hi, if_false]
    have : s.parent[i]? = none := List.getElem?_eq_none (Nat.le_of_not_lt hi)
    rw [this]
    by_cases h0 : i - s.parent.length = 0
    · rw [h0]; simp; omega
    · have : [s.parent.length][i - s.parent.length]? = none :=
        List.getElem?_eq_none (by simp; omega)
      rw [this]

theorem add_inv (s : UF) (h : Inv s) : Inv (addState s) := by
  obtain ⟨rk, hrk⟩ := h.acyc
  refine ⟨by simp [addState, h.len], ?_, ⟨rk, ?_⟩⟩
  · intro i hi
    rw [add_size] at *
    rw [add_par]
    by_cases hi' : i < s.size
    · exact Nat.lt_succ_of_lt (h.range i hi')
    · rw [par_of_size_le s (Nat.le_of_not_lt hi')]; exact hi
  · intro i hne
    rw [add_par] at *
    exact hrk i hne

theorem add_root (s : UF) (h : Inv s) (i : Nat) : root (addState s) i = root s i :=
  root_unique _ (add_inv s h) (root s)
    (fun j hj => root_of_root s (by rwa [add_par] at hj))
    (fun j => by rw [add_par]; exact root_par s h j) i

theorem add_counts (s : UF) (h : Inv s) (hc : Counts s) : Counts (addState s) := by
  intro r hr hrr
  rw [add_size] at hr
  rw [add_par] at hrr
  simp only [classSize, add_size, add_root s h, List.range_succ, List.countP_append]
  by_cases hr' : r < s.size
  · have hne : ¬ (root s s.size = r) := by
      rw [root_of_size_le s (Nat.le_refl _)]; omega
    have : (addState s).count.getD r 0 = s.count.getD r 0 := by
      simp only [addState, List.getD_eq_getElem?_getD, List.getElem?_append]
      rw [if_pos (by rw [h.len]; exact hr')]
    rw [this, hc r hr' hrr]
    simp [classSize, hne]
  · have hrn : r = s.size := by omega
    subst hrn
    have h0 : (List.range s.size).countP (fun i => root s i == s.size) = 0 := by
      rw [List.countP_eq_zero]
      intro i hi
      have := root_lt s h (List.mem_range.mp hi)
      simp; omega
    have : (addState s).count.getD s.size 0 = 1 := by
      simp only [addState, List.getD_eq_getElem?_getD, List.getElem?_append]
      rw [if_neg (by rw [h.len]; exact Nat.lt_irrefl _), h.len]
      simp [UF.size]
    rw [this, h0]
    simp [root_of_size_le s (Nat.le_refl _)]

theorem init_size (n : Nat) : (init n).size = n := by simp [init, UF.size]

theorem init_par (n i : Nat) : (init n).par i = i := by
  simp only [init, UF.par, List.getD_eq_getElem?_getD]
  by_cases hi : i < n
  · simp [hi]
  · simp [hi]

theorem init_inv (n : Nat) : Inv (init n) :=
  ⟨by simp [init], fun i hi => by rw [init_par]; exact hi,
    ⟨fun _ => 0, fun i hne => absurd (init_par n i) hne⟩⟩

theorem init_root (n i : Nat) : root (init n) i = i := root_of_root _ (init_par n i)

theorem countP_eq_range (n r : Nat) (hr : r < n) :
    (List.range n).countP (fun i => i == r) = 1 := by
  induction n with
  | zero => omega
  | succ n ih =>
    rw [List.range_succ, List.countP_append]
    by_cases h : r < n
    · rw [ih h]
      have : ¬ n = r := by omega
      simp [this]
    · have hrn : r = n := by omega
      subst hrn
      have : (List.range r).countP (fun i => i == r) = 0 := by
        rw [List.countP_eq_zero]
        intro i hi
        have := List.mem_range.mp hi
        simp; omega
      rw [this]; simp

theorem init_counts (n : Nat) : Counts (init n) := by
  intro r hr _
  rw [init_size] at hr
  simp only [classSize, init_root, init_size]
  rw [countP_eq_range n r hr]
  simp [init, List.getD_eq_getElem?_getD, hr]

/-! ### the abstract side -/

/-- equivalence closure of the pairs unioned so far -/
def Rel (us : List (Nat × Nat)) : Nat → Nat → Prop :=
  Relation.EqvGen (fun a b => (a, b) ∈ us)

theorem Rel.mono {us us' : List (Nat × Nat)} (hsub : ∀ q ∈ us, q ∈ us') {a b : Nat}
    (h : Rel us a b) : Rel us' a b := by
  induction h with
  | rel x y hxy => exact Relation.EqvGen.rel x y (hsub _ hxy)
  | refl x => exact Relation.EqvGen.refl x
  | symm x y _ ih => exact Relation.EqvGen.symm x y ih
  | trans x y z _ _ ih1 ih2 => exact Relation.EqvGen.trans x y z ih1 ih2

/-- abstract state: number of elements and the successful unions performed so far -/
structure Spec where
  n : Nat
  us : List (Nat × Nat) := []

/-- effect of an operation on the abstract state; a union involving an index out of range raises
`KeyError` and unions nothing -/
def Spec.step (σ : Spec) : Op → Spec
  | .add => { σ with n := σ.n + 1 }
  | .find _ => σ
  | .union a b => if a < σ.n ∧ b < σ.n then { σ with us := (a, b) :: σ.us } else σ
  | .unionLeft a b => if a < σ.n ∧ b < σ.n then { σ with us := (a, b) :: σ.us } else σ
  | .connected _ _ => σ

def Spec.run (σ : Spec) : List Op → Spec
  | [] => σ
  | o :: os => Spec.run (σ.step o) os

/-- what the abstract state allows as the result of an operation -/
def OutOK (σ : Spec) : Op → Out → Prop
  | .add, o => o = .nat σ.n
  | .find x, o => if x < σ.n then ∃ r, o = .nat r ∧ r < σ.n ∧ Rel σ.us x r else o = .keyError
  | .union a b, o =>
    if a < σ.n ∧ b < σ.n then ∃ c, o = .bool c ∧ (c = true ↔ ¬ Rel σ.us a b) else o = .keyError
  | .unionLeft a b, o =>
    if a < σ.n ∧ b < σ.n then ∃ c, o = .bool c ∧ (c = true ↔ ¬ Rel σ.us a b) else o = .keyError
  | .connected a b, o =>
    if a < σ.n ∧ b < σ.n then ∃ c, o = .bool c ∧ (c = true ↔ Rel σ.us a b) else o = .keyError

def OutsOK (σ : Spec) : List Op → List Out → Prop
  | [], [] => True
  | o :: os, out :: outs => OutOK σ o out ∧ OutsOK (σ.step o) os outs
  | _, _ => False

/-- the concrete state represents the abstract one: it is a forest with correct counts over `σ.n`
elements, and its representative function induces exactly the partition generated by `σ.us` -/
structure Repr (s : UF) (σ : Spec) : Prop where
  inv : Inv s
  counts : Counts s
  size : s.size = σ.n
  sound : ∀ q ∈ σ.us, root s q.1 = root s q.2
  complete : ∀ x, Rel σ.us x (root s x)

theorem repr_iff {s : UF} {σ : Spec} (h : Repr s σ) (a b : Nat) :
    root s a = root s b ↔ Rel σ.us a b := by
  constructor
  · intro e
    refine Relation.EqvGen.trans _ _ _ (h.complete a) ?_
    rw [e]
    exact Relation.EqvGen.symm _ _ (h.complete b)
  · intro r
    induction r with
    | rel x y hxy => exact h.sound _ hxy
    | refl x => rfl
    | symm x y _ ih => exact ih.symm
    | trans x y z _ _ ih1 ih2 => exact ih1.trans ih2

theorem repr_of_root_eq {s s' : UF} {σ : Spec} (h : Repr s σ) (hi : Inv s') (hc : Counts s')
    (hs : s'.size = s.size) (hr : ∀ i, root s' i = root s i) : Repr s' σ :=
  ⟨hi, hc, hs.trans h.size, fun q hq => by rw [hr, hr]; exact h.sound q hq,
    fun x => by rw [hr]; exact h.complete x⟩

theorem repr_init (n : Nat) : Repr (init n) { n := n } :=
  ⟨init_inv n, init_counts n, init_size n, fun _ hq => (by cases hq),
    fun x => by rw [init_root]; exact Relation.EqvGen.refl x⟩

theorem repr_add {s : UF} {σ : Spec} (h : Repr s σ) :
    Repr (addState s) { σ with n := σ.n + 1 } :=
  ⟨add_inv s h.inv, add_counts s h.inv h.counts, by rw [add_size, h.size],
    fun q hq => by rw [add_root s h.inv, add_root s h.inv]; exact h.sound q hq,
    fun x => by rw [add_root s h.inv]; exact h.complete x⟩

/-- merging the class of `x` into the class of `y` represents the old unions plus the pair `x,y`
(in either order) -/
theorem repr_merge {s s' : UF} {σ : Spec} (h : Repr s σ) (x y : Nat) (hi : Inv s')
    (hc : Counts s') (hs : s'.size = s.size)
    (hr : ∀ i, root s' i = if root s i = root s x then root s y else root s i)
    (us' : List (Nat × Nat)) (hsub : ∀ q ∈ σ.us, q ∈ us')
    (hnew : ∀ q ∈ us', q ∈ σ.us ∨ q = (x, y) ∨ q = (y, x)) (hxy : Rel us' x y) :
    Repr s' { σ with us := us' } := by
  have hyy : root s' y = root s y := by
    rw [hr]; split
    · rename_i e; exact e ▸ rfl
    · rfl
  have hxx : root s' x = root s y := by rw [hr, if_pos rfl]
  refine ⟨hi, hc, hs.trans h.size, ?_, ?_⟩
  · intro q hq
    rcases hnew q hq with hq | hq | hq
    · have := h.sound q hq
      rw [hr, hr, this]
    · rw [hq]; exact hxx.trans hyy.symm
    · rw [hq]; exact hyy.trans hxx.symm
  · intro i
    have hm : ∀ {a b}, Rel σ.us a b → Rel us' a b := fun r => Rel.mono hsub r
    rw [hr]
    split
    · rename_i e
      -- i ~ root i = root x ~ x ~ y ~ root y
      have h1 : Rel us' i x := hm ((repr_iff h i x).mp e)
      exact Relation.EqvGen.trans _ _ _ h1 (Relation.EqvGen.trans _ _ _ hxy (hm (h.complete y)))
    · exact hm (h.complete i)

end Xdsl.DisjointSet
