import XdslProofs.Lemmas.CloneIso
/-!
C02 helper lemmas, part 3: the output of phase 1 is the source renamed by the *final* mappers.
-/
namespace Xdsl.Clone

theorem mapVal_c1_vm_frame {k : Kind} (t : T k) (nb : Nat) (st : St) (v : Nat) (hv : v ∉ defVals t) :
    mapVal (c1 nb st t).2.vm v = mapVal st.vm v := mapVal_congr (c1_vm_frame t nb st v hv)

theorem mapVal_c1_bm_frame {k : Kind} (t : T k) (nb : Nat) (st : St) (b : Nat) (hb : b ∉ regd t) :
    mapVal (c1 nb st t).2.bm b = mapVal st.bm b := mapVal_congr (c1_bm_frame t nb st b hb)

theorem blockIds_ops (t : T .ops) : blockIds t = regd t := by simp [blockIds, directIds_ops]
theorem blockIds_regions (t : T .regions) : blockIds t = regd t := by simp [blockIds, directIds_regions]

theorem c1_iso {k : Kind} (t : T k) (nb : Nat) (st : St)
    (ndv : (defVals t).Nodup) (ndb : (blockIds t).Nodup) (ok : SuccOK t) (reg : Reg st.bm nb t) :
    Iso false (mapVal (c1 nb st t).2.vm) (mapVal (c1 nb st t).2.bm) t (c1 nb st t).1 := by
  induction t generalizing nb st with
  | nil => simp [c1, Iso]
  | op h rs nx ih1 ih2 =>
    simp only [defVals, List.nodup_append] at ndv
    obtain ⟨ndr, ⟨ndrs, ndnx, dj1⟩, dj2⟩ := ndv
    simp only [blockIds, directIds, regd, List.nil_append, List.nodup_append] at ndb
    obtain ⟨nbrs, nbnx, djb⟩ := ndb
    simp only [SuccOK] at ok
    obtain ⟨ok1, ok2, ok3, ok4⟩ := ok
    have i1 := ih1 0 (cloneHdr st h false).2 ndrs (by rw [blockIds_regions]; exact nbrs) ok3 (Reg_regions _ _ _)
    have i2 := ih2 0 (c1 0 (cloneHdr st h false).2 rs).2 ndnx (by rw [blockIds_ops]; exact nbnx) ok4 (Reg_ops _ _ _)
    simp only [c1, Iso]
    refine ⟨rfl, rfl, rfl, ?_, ?_, ?_, ?_, i2⟩
    · -- results
      show (cloneVals st.vm (st.next + 3) h.results).1 = _
      rw [cloneVals_map _ _ _ ndr]
      apply List.map_congr_left
      intro p hp
      have hm : p.1 ∈ h.results.map Prod.fst := List.mem_map.2 ⟨p, hp, rfl⟩
      have n1 : p.1 ∉ defVals rs := fun hh => dj2 _ hm _ (List.mem_append.2 (Or.inl hh)) rfl
      have n2 : p.1 ∉ defVals nx := fun hh => dj2 _ hm _ (List.mem_append.2 (Or.inr hh)) rfl
      rw [mapVal_c1_vm_frame _ _ _ _ n2, mapVal_c1_vm_frame _ _ _ _ n1, cloneHdr_vm]
    · simp [cloneHdr]
    · show h.succs.map (mapVal st.bm) = _
      apply List.map_congr_left
      intro s hs
      rw [mapVal_c1_bm_frame _ _ _ _ (ok1 s hs).2, mapVal_c1_bm_frame _ _ _ _ (ok1 s hs).1, cloneHdr_bm]
    · apply Iso_congr rs _ _ _ i1
      · intro v hv
        rcases hv with hv | ⟨hv, _⟩
        · exact mapVal_c1_vm_frame _ _ _ _ (fun hh => dj1 _ hv _ hh rfl)
        · cases hv
      · intro b hb
        apply mapVal_c1_bm_frame
        rcases hb with hb | hb
        · rw [mem_defBlocks, blockIds_regions] at hb
          exact fun hh => djb _ hb _ hh rfl
        · exact ok2 b hb
  | region bs nx ih1 ih2 =>
    simp only [defVals, List.nodup_append] at ndv
    obtain ⟨ndbs, ndnx, dj1⟩ := ndv
    simp only [blockIds, directIds, regd, List.nil_append, List.nodup_append] at ndb
    obtain ⟨⟨ndd, ndrg, djd⟩, nbnx, djb⟩ := ndb
    simp only [SuccOK] at ok
    obtain ⟨ok1, ok2, ok3⟩ := ok
    have nbbs : (blockIds bs).Nodup := by
      simp only [blockIds, List.nodup_append]; exact ⟨ndd, ndrg, djd⟩
    have i1 := ih1 st.next { st with bm := (regBlocks st.bm st.next bs).1, next := (regBlocks st.bm st.next bs).2 }
      ndbs nbbs ok2 (regBlocks_reg _ _ _ ndd)
    have i2 := ih2 0 (c1 st.next { st with bm := (regBlocks st.bm st.next bs).1, next := (regBlocks st.bm st.next bs).2 } bs).2
      ndnx (by rw [blockIds_regions]; exact nbnx) ok3 (Reg_regions _ _ _)
    simp only [c1, Iso]
    refine ⟨?_, i2⟩
    apply Iso_congr bs _ _ _ i1
    · intro v hv
      rcases hv with hv | ⟨hv, _⟩
      · exact mapVal_c1_vm_frame _ _ _ _ (fun hh => dj1 _ hv _ hh rfl)
      · cases hv
    · intro b hb
      apply mapVal_c1_bm_frame
      rcases hb with hb | hb
      · rw [mem_defBlocks] at hb
        exact fun hh => djb _ (by simpa [blockIds] using hb) _ hh rfl
      · exact ok1 b hb
  | block h ops nx ih1 ih2 =>
    simp only [defVals, List.nodup_append] at ndv
    obtain ⟨nda, ⟨ndops, ndnx, dj1⟩, dj2⟩ := ndv
    simp only [blockIds, directIds, regd, List.nodup_append, List.nodup_cons, List.mem_cons,
      List.mem_append] at ndb
    obtain ⟨⟨hid, nddn⟩, ⟨nbops, nbnx, djb⟩, djc⟩ := ndb
    simp only [SuccOK] at ok
    obtain ⟨ok1, ok2, ok3⟩ := ok
    simp only [Reg] at reg
    obtain ⟨reg1, reg2⟩ := reg
    have hid1 : h.id ∉ regd ops := fun hh => djc _ (Or.inl rfl) _ (Or.inl hh) rfl
    have hid2 : h.id ∉ regd nx := fun hh => djc _ (Or.inl rfl) _ (Or.inr hh) rfl
    have nbn : (blockIds nx).Nodup := by
      simp only [blockIds, List.nodup_append]
      exact ⟨nddn, nbnx, fun a ha b hb => djc a (Or.inr ha) b (Or.inr hb)⟩
    have i1 := ih1 0 { st with vm := (cloneVals st.vm st.next h.args).2.1, next := (cloneVals st.vm st.next h.args).2.2 }
      ndops (by rw [blockIds_ops]; exact nbops) ok2 (Reg_ops _ _ _)
    have i2 := ih2 (nb + 1) (c1 0 { st with vm := (cloneVals st.vm st.next h.args).2.1, next := (cloneVals st.vm st.next h.args).2.2 } ops).2
      ndnx nbn ok3
      (Reg_congr nx (fun b hb => c1_bm_frame _ _ _ _ (fun hh => djc b (Or.inr hb) b (Or.inl hh) rfl)) reg2)
    simp only [c1, Iso]
    refine ⟨?_, ?_, ?_, i2⟩
    · rw [mapVal_c1_bm_frame _ _ _ _ hid2, mapVal_c1_bm_frame _ _ _ _ hid1]
      exact (mapVal_of_get reg1).symm
    · rw [cloneVals_map _ _ _ nda]
      apply List.map_congr_left
      intro p hp
      have hm : p.1 ∈ h.args.map Prod.fst := List.mem_map.2 ⟨p, hp, rfl⟩
      have n1 : p.1 ∉ defVals ops := fun hh => dj2 _ hm _ (List.mem_append.2 (Or.inl hh)) rfl
      have n2 : p.1 ∉ defVals nx := fun hh => dj2 _ hm _ (List.mem_append.2 (Or.inr hh)) rfl
      rw [mapVal_c1_vm_frame _ _ _ _ n2, mapVal_c1_vm_frame _ _ _ _ n1]
    · apply Iso_congr ops _ _ _ i1
      · intro v hv
        rcases hv with hv | ⟨hv, _⟩
        · exact mapVal_c1_vm_frame _ _ _ _ (fun hh => dj1 _ hv _ hh rfl)
        · cases hv
      · intro b hb
        apply mapVal_c1_bm_frame
        rcases hb with hb | hb
        · rw [mem_defBlocks, blockIds_ops] at hb
          exact fun hh => djb _ hb _ hh rfl
        · exact ok1 b hb

end Xdsl.Clone
