import XdslProofs.Lemmas.EGraphExtract
/-!
The re-ordering pass that ends `eqsat-extract` (`restore_dominance_order`, model `topoSort`): the
iterative depth-first search of `topoRun`, one `topoStep` at a time.  Invariant of the search, a
potential that every step decreases (so the fuel handed out by `topoSort` suffices), and — when the
dependencies are acyclic — the fact that every emitted node has all its dependencies emitted before it.
No Mathlib.
-/
namespace Xdsl.EGraph

/-- one iteration of the `while stack` loop of `topoRun` (`none`: the stack is empty) -/
def topoStep (body : List Node) (st : TopoSt) : Option TopoSt :=
  match st.stack with
  | [] => none
  | (cur, rem) :: rest =>
    match rem with
    | [] => some { order := cur :: st.order, emitted := cur :: st.emitted,
                   onStack := st.onStack.filter (· ≠ cur), stack := rest }
    | d :: rem' =>
      if st.emitted.contains d || st.onStack.contains d then
        some { st with stack := (cur, rem') :: rest }
      else
        some { st with onStack := d :: st.onStack,
                       stack := (d, deps body ((findDef body d).getD default)) :: (cur, rem') :: rest }

theorem topoRun_zero (body : List Node) (st : TopoSt) : topoRun body 0 st = st := rfl

theorem topoRun_succ (body : List Node) (fuel : Nat) (st : TopoSt) :
    topoRun body (fuel + 1) st =
      match topoStep body st with
      | none => st
      | some st' => topoRun body fuel st' := by
  rcases hs : st.stack with _ | ⟨⟨cur, rem⟩, rest⟩
  · simp [topoRun, topoStep, hs]
  · rcases rem with _ | ⟨d, rem'⟩
    · simp [topoRun, topoStep, hs]
    · simp only [topoRun, topoStep, hs]
      split <;> rfl

/-- dependencies of the node defining `v` -/
def depsOf (body : List Node) (v : Nat) : List Nat := deps body ((findDef body v).getD default)

theorem deps_defined {body : List Node} {n : Node} {d : Nat} (h : d ∈ deps body n) :
    (findDef body d).isSome = true := by
  simp only [deps, List.mem_filter, Bool.and_eq_true] at h
  exact h.2.2

theorem deps_sub_args {body : List Node} {n : Node} {d : Nat} (h : d ∈ deps body n) : d ∈ n.args := by
  simp only [deps, List.mem_filter] at h
  exact h.1

theorem deps_length_le (body : List Node) (n : Node) : (deps body n).length ≤ n.args.length := by
  unfold deps
  exact List.length_filter_le _ _

theorem findDef_of_mem_nodup {body : List Node} (hnd : (body.map (·.res)).Nodup) {n : Node} (hn : n ∈ body) :
    findDef body n.res = some n := by
  induction body with
  | nil => cases hn
  | cons m rest ih =>
    simp only [List.map_cons, List.nodup_cons] at hnd
    simp only [findDef, List.find?_cons]
    by_cases h : m.res = n.res
    · simp only [h, decide_true]
      rcases List.mem_cons.1 hn with e | hm
      · rw [e]
      · exact absurd (List.mem_map.2 ⟨n, hm, h.symm⟩) hnd.1
    · simp only [h, decide_false]
      rcases List.mem_cons.1 hn with e | hm
      · exact absurd (e ▸ rfl) h
      · exact ih hnd.2 hm

theorem findDef_isSome_of_mem {body : List Node} {n : Node} (hn : n ∈ body) : (findDef body n.res).isSome = true := by
  unfold findDef
  rw [List.find?_isSome]
  exact ⟨n, hn, by simp⟩

/-! ## invariant of the search -/

structure TInv (body : List Node) (st : TopoSt) : Prop where
  em : st.emitted = st.order
  os : st.onStack = st.stack.map (·.1)
  nd : (st.stack.map (·.1) ++ st.order).Nodup
  df : ∀ v, v ∈ st.stack.map (·.1) ++ st.order → (findDef body v).isSome = true
  fr : ∀ f ∈ st.stack, ∃ pre, depsOf body f.1 = pre ++ f.2 ∧ ∀ d ∈ pre, d ∈ st.order ∨ d ∈ st.stack.map (·.1)

/-! ## potential -/

def wsum (body : List Node) (l : List Node) : Nat := (l.map fun n => (deps body n).length + 1).sum

def fsum (stack : List (Nat × List Nat)) : Nat := (stack.map fun f => f.2.length + 1).sum

def unvisP (order onStack : List Nat) (n : Node) : Bool := !(order.contains n.res) && !(onStack.contains n.res)

def topoPhi (body : List Node) (st : TopoSt) : Nat :=
  fsum st.stack + wsum body (body.filter (unvisP st.order st.onStack))

theorem wsum_cons (body : List Node) (n : Node) (l : List Node) :
    wsum body (n :: l) = (deps body n).length + 1 + wsum body l := by
  simp [wsum]

theorem wsum_filter_mono (body : List Node) (p q : Node → Bool) (hq : ∀ y, q y = true → p y = true) :
    ∀ l : List Node, wsum body (l.filter q) ≤ wsum body (l.filter p)
  | [] => by simp [wsum]
  | y :: l => by
    have ih := wsum_filter_mono body p q hq l
    cases hqy : q y <;> cases hpy : p y
    · simpa [List.filter_cons, hqy, hpy] using ih
    · simp only [List.filter_cons, hqy, hpy, wsum_cons, if_true, Bool.false_eq_true, if_false]
      omega
    · have := hq y hqy
      rw [hpy] at this
      cases this
    · simp only [List.filter_cons, hqy, hpy, wsum_cons, if_true]
      omega

theorem wsum_filter_remove (body : List Node) (p q : Node → Bool) (x : Node)
    (hq : ∀ y, q y = true → p y = true) (hpx : p x = true) (hqx : q x = false) :
    ∀ l : List Node, x ∈ l → wsum body (l.filter q) + ((deps body x).length + 1) ≤ wsum body (l.filter p)
  | [], h => by cases h
  | y :: l, h => by
    by_cases hxy : x = y
    · subst hxy
      have := wsum_filter_mono body p q hq l
      simp only [List.filter_cons, hpx, hqx, wsum_cons, if_true, Bool.false_eq_true, if_false]
      omega
    · have hx : x ∈ l := by
        rcases List.mem_cons.1 h with e | e
        · exact absurd e hxy
        · exact e
      have ih := wsum_filter_remove body p q x hq hpx hqx l hx
      cases hqy : q y <;> cases hpy : p y
      · simpa [List.filter_cons, hqy, hpy] using ih
      · simp only [List.filter_cons, hqy, hpy, wsum_cons, if_true, Bool.false_eq_true, if_false]
        omega
      · have := hq y hqy
        rw [hpy] at this
        cases this
      · simp only [List.filter_cons, hqy, hpy, wsum_cons, if_true]
        omega

theorem wsum_le_fuel (body : List Node) : wsum body body + 1 ≤ topoFuel body := by
  have h : ∀ l : List Node, wsum body l ≤ l.length + (l.map (·.args.length)).sum := by
    intro l
    induction l with
    | nil => simp [wsum]
    | cons n l ih =>
      have := deps_length_le body n
      simp only [wsum_cons, List.length_cons, List.map_cons, List.sum_cons]
      omega
  have := h body
  unfold topoFuel
  omega

theorem fsum_cons (f : Nat × List Nat) (l : List (Nat × List Nat)) : fsum (f :: l) = f.2.length + 1 + fsum l := by
  simp [fsum]

/-! ## one step -/

theorem topoStep_spec {body : List Node} {st st' : TopoSt} (hi : TInv body st) (hs : topoStep body st = some st') :
    TInv body st' ∧ topoPhi body st' < topoPhi body st ∧
    (∀ v, v ∈ st.order → v ∈ st'.order) ∧
    (∀ v, v ∈ st.stack.map (·.1) → v ∈ st'.stack.map (·.1) ∨ v ∈ st'.order) := by
  obtain ⟨em, os, nd, df, fr⟩ := hi
  unfold topoStep at hs
  rcases hst : st.stack with _ | ⟨⟨cur, rem⟩, rest⟩
  · rw [hst] at hs; cases hs
  · rw [hst] at hs nd df fr os
    simp only [List.map_cons] at nd df os
    rcases rem with _ | ⟨d, rem'⟩
    · -- pop
      have hs := Option.some.inj hs
      subst hs
      have hcur : cur ∉ rest.map (·.1) := by
        have := (List.nodup_cons.1 (List.nodup_append.1 nd).1).1
        exact this
      have hfilter : st.onStack.filter (· ≠ cur) = rest.map (·.1) := by
        rw [os]
        simp only [List.filter_cons, ne_eq, not_true_eq_false, decide_false, Bool.false_eq_true, if_false]
        rw [List.filter_eq_self]
        intro a ha
        simp only [decide_not, Bool.not_eq_eq_eq_not, Bool.not_true, decide_eq_false_iff_not]
        intro e; subst e; exact hcur ha
      refine ⟨⟨?_, ?_, ?_, ?_, ?_⟩, ?_, ?_, ?_⟩
      · simp only [em]
      · simpa using hfilter
      · simp only
        have : (rest.map (·.1) ++ cur :: st.order).Perm (cur :: rest.map (·.1) ++ st.order) := by
          simp
        exact (this.nodup_iff).2 nd
      · intro v hv
        simp only [List.mem_append, List.mem_cons] at hv
        apply df
        simp only [List.cons_append, List.mem_cons, List.mem_append]
        rcases hv with h | h | h
        · exact Or.inr (Or.inl h)
        · exact Or.inl h
        · exact Or.inr (Or.inr h)
      · intro f hf
        obtain ⟨pre, hp, hd⟩ := fr f (List.mem_cons_of_mem _ hf)
        refine ⟨pre, hp, ?_⟩
        intro x hx
        simp only [List.mem_cons]
        rcases hd x hx with h | h
        · exact Or.inl (Or.inr h)
        · simp only [List.map_cons, List.mem_cons] at h
          rcases h with h | h
          · exact Or.inl (Or.inl h)
          · exact Or.inr h
      · -- potential
        have hcongr : body.filter (unvisP (cur :: st.order) (st.onStack.filter (· ≠ cur))) =
            body.filter (unvisP st.order st.onStack) := by
          apply List.filter_congr
          intro n _
          rw [hfilter, os]
          unfold unvisP
          by_cases e : n.res = cur
          · simp [e]
          · have e' : (n.res == cur) = false := by simpa using e
            simp [e, e']
        simp only [topoPhi, hst, fsum_cons, hcongr, List.length_nil]
        omega
      · intro v hv
        exact List.mem_cons_of_mem _ hv
      · intro v hv
        simp only [List.map_cons, List.mem_cons] at hv
        rcases hv with h | h
        · exact Or.inr (by simp [h])
        · exact Or.inl h
    · -- a dependency `d` of the frame on top
      obtain ⟨pre, hp, hd⟩ := fr (cur, d :: rem') (List.mem_cons_self ..)
      dsimp only at hs
      split at hs
      · -- already emitted or on the stack: skipped
        rename_i hc
        have hs := Option.some.inj hs
        subst hs
        refine ⟨⟨em, ?_, ?_, ?_, ?_⟩, ?_, ?_, ?_⟩
        · simpa using os
        · simpa using nd
        · simpa using df
        · intro f hf
          simp only [List.mem_cons] at hf
          rcases hf with rfl | hf
          · refine ⟨pre ++ [d], by simp [hp], ?_⟩
            intro x hx
            simp only [List.mem_append, List.mem_singleton] at hx
            rcases hx with hx | rfl
            · simpa using hd x hx
            · simp only [Bool.or_eq_true, List.contains_iff_mem] at hc
              rcases hc with hc | hc
              · exact Or.inl (em ▸ hc)
              · right; rw [os] at hc; simpa using hc
          · obtain ⟨pre', hp', hd'⟩ := fr f (List.mem_cons_of_mem _ hf)
            exact ⟨pre', hp', by simpa using hd'⟩
        · simp only [topoPhi, hst, fsum_cons, List.length_cons]
          omega
        · intro v hv; exact hv
        · intro v hv
          left
          simpa [hst] using hv
      · -- not seen yet: pushed
        rename_i hc
        have hs := Option.some.inj hs
        subst hs
        simp only [Bool.or_eq_true, List.contains_iff_mem, not_or] at hc
        obtain ⟨hne, hns⟩ := hc
        have hddeps : d ∈ depsOf body cur := by rw [hp]; simp
        have hddef : (findDef body d).isSome = true := deps_defined hddeps
        obtain ⟨dn, hdn⟩ := Option.isSome_iff_exists.1 hddef
        obtain ⟨hdnmem, hdnres⟩ := findDef_mem hdn
        refine ⟨⟨em, ?_, ?_, ?_, ?_⟩, ?_, ?_, ?_⟩
        · simp [os]
        · simp only [List.map_cons, List.cons_append, List.nodup_cons]
          refine ⟨?_, by simpa using nd⟩
          rw [os] at hns
          rw [em] at hne
          simp only [List.mem_cons, List.mem_append, not_or] at hns ⊢
          exact ⟨hns.1, hns.2, hne⟩
        · intro v hv
          simp only [List.map_cons, List.cons_append, List.mem_cons] at hv
          rcases hv with rfl | hv
          · exact hddef
          · exact df v (by simpa using hv)
        · intro f hf
          simp only [List.mem_cons] at hf
          rcases hf with rfl | rfl | hf
          · exact ⟨[], by simp [depsOf], by simp⟩
          · refine ⟨pre ++ [d], by simp [hp], ?_⟩
            intro x hx
            simp only [List.mem_append, List.mem_singleton] at hx
            rcases hx with hx | rfl
            · rcases hd x hx with h | h
              · exact Or.inl h
              · right; simp only [List.map_cons, List.mem_cons] at h ⊢; exact Or.inr h
            · right; simp
          · obtain ⟨pre', hp', hd'⟩ := fr f (List.mem_cons_of_mem _ hf)
            refine ⟨pre', hp', ?_⟩
            intro x hx
            rcases hd' x hx with h | h
            · exact Or.inl h
            · right; simp only [List.map_cons, List.mem_cons] at h ⊢; exact Or.inr h
        · have hW := wsum_filter_remove body (unvisP st.order st.onStack) (unvisP st.order (d :: st.onStack)) dn
            (by
              intro y hy
              simp only [unvisP, Bool.and_eq_true, Bool.not_eq_eq_eq_not, Bool.not_true, List.contains_cons] at hy ⊢
              refine ⟨hy.1, ?_⟩
              have := hy.2
              simp only [Bool.or_eq_false_iff] at this
              exact this.2)
            (by
              simp only [unvisP, hdnres, Bool.and_eq_true, Bool.not_eq_eq_eq_not, Bool.not_true]
              rw [em] at hne
              exact ⟨by simpa using hne, by simpa using hns⟩)
            (by simp [unvisP, hdnres])
            body hdnmem
          simp only [topoPhi, hst, fsum_cons, List.length_cons, hdn, Option.getD_some]
          omega
        · intro v hv; exact hv
        · intro v hv
          left
          simp only [List.map_cons, List.mem_cons] at hv ⊢
          exact Or.inr hv

/-! ## the whole `while stack` loop -/

theorem topoStep_none {body : List Node} {st : TopoSt} (h : topoStep body st = none) : st.stack = [] := by
  unfold topoStep at h
  rcases hst : st.stack with _ | ⟨⟨cur, rem⟩, rest⟩
  · rfl
  · rw [hst] at h
    rcases rem with _ | ⟨d, rem'⟩
    · cases h
    · dsimp only at h
      split at h <;> cases h

theorem fsum_eq_zero {s : List (Nat × List Nat)} (h : fsum s = 0) : s = [] := by
  cases s with
  | nil => rfl
  | cons f l => rw [fsum_cons] at h; omega

/-- With fuel at least the potential the loop runs until the stack is empty; the invariant (and any
further property `P` that single steps preserve) holds at the end, nothing emitted is lost and
everything that was on the stack has been emitted. -/
theorem topoRun_done (body : List Node) (P : TopoSt → Prop)
    (hP : ∀ st st', TInv body st → P st → topoStep body st = some st' → P st') :
    ∀ (fuel : Nat) (st : TopoSt), TInv body st → P st → topoPhi body st ≤ fuel →
      TInv body (topoRun body fuel st) ∧ P (topoRun body fuel st) ∧ (topoRun body fuel st).stack = [] ∧
      (∀ v, v ∈ st.order → v ∈ (topoRun body fuel st).order) ∧
      (∀ v, v ∈ st.stack.map (·.1) → v ∈ (topoRun body fuel st).order)
  | 0, st, hi, hp, hf => by
    have hs : st.stack = [] := fsum_eq_zero (by unfold topoPhi at hf; omega)
    rw [topoRun_zero]
    exact ⟨hi, hp, hs, fun _ h => h, by simp [hs]⟩
  | fuel + 1, st, hi, hp, hf => by
    rw [topoRun_succ]
    cases hs : topoStep body st with
    | none =>
      have hs' := topoStep_none hs
      exact ⟨hi, hp, hs', fun _ h => h, by simp [hs']⟩
    | some st' =>
      obtain ⟨hi', hlt, hmo, hms⟩ := topoStep_spec hi hs
      obtain ⟨a, b, c, d, e⟩ := topoRun_done body P hP fuel st' hi' (hP st st' hi hp hs) (by omega)
      exact ⟨a, b, c, fun v h => d v (hmo v h), fun v h => (hms v h).elim (e v) (d v)⟩

/-! ## the outer loop over the block -/

/-- body of `for op in ops` in `restore_dominance_order` -/
def rootStep (body : List Node) (st : TopoSt) (n : Node) : TopoSt :=
  if st.emitted.contains n.res then st
  else topoRun body (topoFuel body) { st with onStack := n.res :: st.onStack, stack := [(n.res, deps body n)] }

theorem topoSort_eq (body : List Node) :
    topoSort body = if isOrdered body then body
      else ((body.foldl (rootStep body) {}).order.reverse.filterMap (findDef body)) := rfl

theorem rootStep_spec {body : List Node} (hnd : (body.map (·.res)).Nodup) (P : TopoSt → Prop)
    (hP : ∀ st st', TInv body st → P st → topoStep body st = some st' → P st')
    (hP0 : ∀ st (n : Node), P st → st.stack = [] →
      P { st with onStack := n.res :: st.onStack, stack := [(n.res, deps body n)] })
    {st : TopoSt} {n : Node} (hn : n ∈ body) (hi : TInv body st) (hp : P st) (he : st.stack = []) :
    TInv body (rootStep body st n) ∧ P (rootStep body st n) ∧ (rootStep body st n).stack = [] ∧
    (∀ v, v ∈ st.order → v ∈ (rootStep body st n).order) ∧ n.res ∈ (rootStep body st n).order := by
  unfold rootStep
  split
  · rename_i hc
    refine ⟨hi, hp, he, fun _ h => h, ?_⟩
    rw [← hi.em]
    simpa using hc
  · rename_i hc
    have hnot : n.res ∉ st.order := by
      rw [← hi.em]
      simpa using hc
    have hos : st.onStack = [] := by rw [hi.os, he]; rfl
    have hi0 : TInv body { st with onStack := n.res :: st.onStack, stack := [(n.res, deps body n)] } := by
      refine ⟨hi.em, by simp [hos], ?_, ?_, ?_⟩
      · simp only [List.map_cons, List.map_nil, List.cons_append, List.nil_append, List.nodup_cons]
        refine ⟨hnot, ?_⟩
        have := hi.nd
        rw [he] at this
        simpa using this
      · intro v hv
        simp only [List.map_cons, List.map_nil, List.cons_append, List.nil_append, List.mem_cons] at hv
        rcases hv with rfl | hv
        · exact findDef_isSome_of_mem hn
        · exact hi.df v (by simp [hv])
      · intro f hf
        simp only [List.mem_singleton] at hf
        subst hf
        refine ⟨[], ?_, by simp⟩
        simp [depsOf, findDef_of_mem_nodup hnd hn]
    have hphi : topoPhi body { st with onStack := n.res :: st.onStack, stack := [(n.res, deps body n)] } ≤ topoFuel body := by
      have hW := wsum_filter_remove body (fun _ => true) (unvisP st.order (n.res :: st.onStack)) n
        (fun _ _ => rfl) rfl (by simp [unvisP]) body hn
      have hF := wsum_le_fuel body
      have hft : body.filter (fun _ => true) = body := by simp
      rw [hft] at hW
      have hfs : fsum [(n.res, deps body n)] = (deps body n).length + 1 := by simp [fsum]
      simp only [topoPhi, hfs]
      omega
    obtain ⟨a, b, c, d, e⟩ := topoRun_done body P hP (topoFuel body) _ hi0 (hP0 st n hp he) hphi
    exact ⟨a, b, c, d, e n.res (by simp)⟩

theorem fold_rootStep_spec {body : List Node} (hnd : (body.map (·.res)).Nodup) (P : TopoSt → Prop)
    (hP : ∀ st st', TInv body st → P st → topoStep body st = some st' → P st')
    (hP0 : ∀ st (n : Node), P st → st.stack = [] →
      P { st with onStack := n.res :: st.onStack, stack := [(n.res, deps body n)] }) :
    ∀ (l : List Node), (∀ n ∈ l, n ∈ body) → ∀ st : TopoSt, TInv body st → P st → st.stack = [] →
      TInv body (l.foldl (rootStep body) st) ∧ P (l.foldl (rootStep body) st) ∧
      (∀ v, v ∈ st.order → v ∈ (l.foldl (rootStep body) st).order) ∧
      (∀ n ∈ l, n.res ∈ (l.foldl (rootStep body) st).order)
  | [], _, st, hi, hp, _ => ⟨hi, hp, fun _ h => h, by simp⟩
  | n :: l, hl, st, hi, hp, he => by
    obtain ⟨a, b, c, d, e⟩ := rootStep_spec hnd P hP hP0 (hl n (by simp)) hi hp he
    obtain ⟨a', b', c', d'⟩ := fold_rootStep_spec hnd P hP hP0 l (fun m hm => hl m (by simp [hm])) _ a b c
    simp only [List.foldl_cons]
    refine ⟨a', b', fun v h => c' v (d v h), ?_⟩
    intro m hm
    rcases List.mem_cons.1 hm with rfl | hm
    · exact c' _ e
    · exact d' m hm

theorem TInv_init (body : List Node) : TInv body {} :=
  ⟨rfl, rfl, by simp, by simp, by simp⟩

/-! ## acyclic dependencies: every emitted node has its dependencies emitted before it -/

/-- `order` is the reversed emission order: the head was emitted last -/
def TopoClosed (body : List Node) : List Nat → Prop
  | [] => True
  | e :: l => (∀ d ∈ depsOf body e, d ∈ l) ∧ TopoClosed body l

structure AInv (body : List Node) (rank : Nat → Nat) (st : TopoSt) : Prop where
  ch : st.stack.Pairwise (fun a b => rank a.1 < rank b.1)
  cl : TopoClosed body st.order

theorem rank_depsOf {body : List Node} {rank : Nat → Nat}
    (hacy : ∀ n ∈ body, ∀ d ∈ deps body n, rank d < rank n.res) {v d : Nat}
    (hv : (findDef body v).isSome = true) (hd : d ∈ depsOf body v) : rank d < rank v := by
  obtain ⟨n, hn⟩ := Option.isSome_iff_exists.1 hv
  obtain ⟨hm, hr⟩ := findDef_mem hn
  simp only [depsOf, hn, Option.getD_some] at hd
  rw [← hr]
  exact hacy n hm d hd

theorem topoStep_acyclic {body : List Node} {rank : Nat → Nat}
    (hacy : ∀ n ∈ body, ∀ d ∈ deps body n, rank d < rank n.res) {st st' : TopoSt}
    (hi : TInv body st) (ha : AInv body rank st) (hs : topoStep body st = some st') : AInv body rank st' := by
  obtain ⟨em, os, nd, df, fr⟩ := hi
  obtain ⟨ch, cl⟩ := ha
  unfold topoStep at hs
  rcases hst : st.stack with _ | ⟨⟨cur, rem⟩, rest⟩
  · rw [hst] at hs; cases hs
  · rw [hst] at hs df fr ch
    have hcurdef : (findDef body cur).isSome = true := df cur (by simp)
    obtain ⟨hchead, chtail⟩ := List.pairwise_cons.1 ch
    rcases rem with _ | ⟨d, rem'⟩
    · have hs := Option.some.inj hs
      subst hs
      refine ⟨chtail, ?_, cl⟩
      obtain ⟨pre, hp, hd⟩ := fr (cur, []) (List.mem_cons_self ..)
      simp only [List.append_nil] at hp
      intro x hx
      have hr := rank_depsOf hacy hcurdef hx
      rcases hd x (hp ▸ hx) with h | h
      · exact h
      · exfalso
        simp only [List.map_cons, List.mem_cons, List.mem_map] at h
        rcases h with rfl | ⟨f, hf, rfl⟩
        · omega
        · have := hchead f hf
          simp only at this
          omega
    · obtain ⟨pre, hp, _⟩ := fr (cur, d :: rem') (List.mem_cons_self ..)
      have hdd : d ∈ depsOf body cur := by rw [hp]; simp
      have hr := rank_depsOf hacy hcurdef hdd
      dsimp only at hs
      split at hs
      · have hs := Option.some.inj hs
        subst hs
        exact ⟨List.pairwise_cons.2 ⟨fun b hb => hchead b hb, chtail⟩, cl⟩
      · have hs := Option.some.inj hs
        subst hs
        refine ⟨List.pairwise_cons.2 ⟨?_, List.pairwise_cons.2 ⟨fun b hb => hchead b hb, chtail⟩⟩, cl⟩
        intro b hb
        rcases List.mem_cons.1 hb with rfl | hb
        · exact hr
        · have := hchead b hb
          simp only at this ⊢
          omega

theorem AInv_start {body : List Node} {rank : Nat → Nat} (st : TopoSt) (n : Node) (ha : AInv body rank st) :
    AInv body rank { st with onStack := n.res :: st.onStack, stack := [(n.res, deps body n)] } :=
  ⟨List.pairwise_singleton _ _, ha.cl⟩

theorem TopoClosed_mem {body : List Node} : ∀ {l : List Nat}, TopoClosed body l → ∀ e, e ∈ l →
    ∃ l1 l2, l = l1 ++ e :: l2 ∧ ∀ d ∈ depsOf body e, d ∈ l2
  | [], _, _, h => by cases h
  | x :: l, ⟨hx, hl⟩, e, h => by
    by_cases hex : e = x
    · subst hex; exact ⟨[], l, rfl, hx⟩
    · have : e ∈ l := by
        rcases List.mem_cons.1 h with h | h
        · exact absurd h hex
        · exact h
      obtain ⟨l1, l2, e1, e2⟩ := TopoClosed_mem hl e this
      exact ⟨x :: l1, l2, by simp [e1], e2⟩

/-! ## def-before-use order of the emitted list -/

theorem OrdFrom_snoc : ∀ {D : Nat → Prop} (xs : List Node) (n : Node), OrdFrom D xs →
    (∀ a ∈ n.args, D a ∨ a ∈ xs.map (·.res)) → OrdFrom D (xs ++ [n])
  | _, [], _, _, h => ⟨fun a ha => (h a ha).elim id (by simp), trivial⟩
  | _, x :: xs, n, ⟨hx, hr⟩, h =>
    ⟨hx, OrdFrom_snoc xs n hr (fun a ha => by
      rcases h a ha with h1 | h1
      · exact Or.inl (Or.inl h1)
      · simp only [List.map_cons, List.mem_cons] at h1
        rcases h1 with h1 | h1
        · exact Or.inl (Or.inr h1)
        · exact Or.inr h1)⟩

theorem OrdFrom_of_splits : ∀ {D : Nat → Prop} (b : List Node),
    (∀ pre n suf, b = pre ++ n :: suf → ∀ a ∈ n.args, D a ∨ a ∈ pre.map (·.res)) → OrdFrom D b
  | _, [], _ => trivial
  | _, n :: rest, h =>
    ⟨fun a ha => (h [] n rest rfl a ha).elim id (by simp),
     OrdFrom_of_splits rest (fun pre m suf e a ha => by
      rcases h (n :: pre) m suf (by simp [e]) a ha with h1 | h1
      · exact Or.inl (Or.inl h1)
      · simp only [List.map_cons, List.mem_cons] at h1
        rcases h1 with h1 | h1
        · exact Or.inl (Or.inr h1)
        · exact Or.inr h1)⟩

theorem mem_of_posOf_lt : ∀ (pre rest : List Node) (a : Nat), posOf (pre ++ rest) a < pre.length →
    a ∈ pre.map (·.res)
  | [], _, _, h => by simp at h
  | m :: pre, rest, a, h => by
    simp only [List.cons_append, posOf, List.length_cons] at h
    simp only [List.map_cons, List.mem_cons]
    split at h
    · rename_i e; exact Or.inl e.symm
    · exact Or.inr (mem_of_posOf_lt pre rest a (by omega))

theorem filterMap_findDef_res (body : List Node) : ∀ (l : List Nat), (∀ v ∈ l, (findDef body v).isSome = true) →
    (l.filterMap (findDef body)).map (·.res) = l
  | [], _ => rfl
  | v :: l, h => by
    obtain ⟨n, hn⟩ := Option.isSome_iff_exists.1 (h v (by simp))
    have ih := filterMap_findDef_res body l (fun w hw => h w (by simp [hw]))
    simp only [List.filterMap_cons, hn, List.map_cons, ih, (findDef_mem hn).2]

theorem nodup_of_map {α β : Type} (f : α → β) {l : List α} (h : (l.map f).Nodup) : l.Nodup := by
  unfold List.Nodup at *
  rw [List.pairwise_map] at h
  exact h.imp (fun hne e => hne (congrArg f e))

/-- acyclicity stated on operands: `rank` decreases from a node to every operand the block defines -/
def Acyclic (body : List Node) (rank : Nat → Nat) : Prop :=
  ∀ n ∈ body, ∀ a ∈ n.args, (findDef body a).isSome = true → rank a < rank n.res

theorem Acyclic.on_deps {body : List Node} {rank : Nat → Nat} (h : Acyclic body rank) :
    ∀ n ∈ body, ∀ d ∈ Xdsl.EGraph.deps body n, rank d < rank n.res :=
  fun n hn d hd => h n hn d (deps_sub_args hd) (deps_defined hd)

theorem Acyclic.mem_deps {body : List Node} {rank : Nat → Nat} (h : Acyclic body rank) {n : Node} (hn : n ∈ body)
    {a : Nat} (ha : a ∈ n.args) (hd : (findDef body a).isSome = true) : a ∈ Xdsl.EGraph.deps body n := by
  have hr := h n hn a ha hd
  simp only [Xdsl.EGraph.deps, List.mem_filter, Bool.and_eq_true, ne_eq]
  refine ⟨ha, ?_, hd⟩
  have : ¬ a = n.res := by
    intro e
    rw [e] at hr
    omega
  simpa using this

/-- operands that the block does not define (block arguments, values of enclosing regions) -/
def External (body : List Node) (x : Nat) : Prop := findDef body x = none

/-- the state in which the outer loop of the slow path ends -/
theorem topoSort_final {body : List Node} (hnd : (body.map (·.res)).Nodup) (P : TopoSt → Prop)
    (hP : ∀ st st', TInv body st → P st → topoStep body st = some st' → P st')
    (hP0 : ∀ st (n : Node), P st → st.stack = [] →
      P { st with onStack := n.res :: st.onStack, stack := [(n.res, deps body n)] })
    (hinit : P {}) :
    TInv body (body.foldl (rootStep body) {}) ∧ P (body.foldl (rootStep body) {}) ∧
    ∀ n ∈ body, n.res ∈ (body.foldl (rootStep body) {}).order := by
  obtain ⟨a, b, _, d⟩ := fold_rootStep_spec hnd P hP hP0 body (fun _ h => h) {} (TInv_init body) hinit rfl
  exact ⟨a, b, d⟩

theorem ordFrom_of_isOrdered {body : List Node} {rank : Nat → Nat} (hacy : Acyclic body rank)
    (ho : isOrdered body = true) : OrdFrom (External body) body := by
  apply OrdFrom_of_splits
  intro pre n suf e a ha
  cases hfa : findDef body a with
  | none => exact Or.inl hfa
  | some na =>
    right
    have hn : n ∈ body := by rw [e]; simp
    have hd := hacy.mem_deps hn ha (by simp [hfa])
    simp only [isOrdered, List.all_eq_true, decide_eq_true_eq] at ho
    have hz : (n, pre.length) ∈ body.zipIdx := by
      rw [List.mem_zipIdx_iff_getElem?]
      simp [e]
    have := ho (n, pre.length) hz a hd
    simp only at this
    rw [e] at this
    exact mem_of_posOf_lt pre (n :: suf) a this

theorem closed_ordFrom {body : List Node} {rank : Nat → Nat} (hacy : Acyclic body rank) :
    ∀ l : List Nat, TopoClosed body l → (∀ v ∈ l, (findDef body v).isSome = true) →
      OrdFrom (External body) (l.reverse.filterMap (findDef body))
  | [], _, _ => trivial
  | e :: l, ⟨he, hl⟩, hdef => by
    have ih := closed_ordFrom hacy l hl (fun v hv => hdef v (by simp [hv]))
    obtain ⟨ne, hne⟩ := Option.isSome_iff_exists.1 (hdef e (by simp))
    obtain ⟨hmem, _⟩ := findDef_mem hne
    simp only [List.reverse_cons, List.filterMap_append, List.filterMap_cons, hne, List.filterMap_nil]
    apply OrdFrom_snoc _ _ ih
    intro a ha
    cases hfa : findDef body a with
    | none => exact Or.inl hfa
    | some na =>
      right
      have hd := hacy.mem_deps hmem ha (by simp [hfa])
      have hal : a ∈ l := he a (by simp only [depsOf, hne, Option.getD_some]; exact hd)
      rw [filterMap_findDef_res body l.reverse (fun v hv => hdef v (by simp [List.mem_reverse.1 hv]))]
      exact List.mem_reverse.2 hal

end Xdsl.EGraph
