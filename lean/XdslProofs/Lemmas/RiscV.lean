import XdslModel.RiscVRules
/-!
Helper lemmas for C22: register-file algebra, the value identities behind every canonicalization
rule, fact lookup.  Core Lean only (no Mathlib).
-/
namespace Xdsl.RiscV

/-! ### state -/

theorem St.ext' {a b : St} (hr : a.regs = b.regs) (hm : a.mem = b.mem) : a = b := by
  cases a; cases b; simp_all

@[simp] theorem get_zero (s : St) : s.get 0 = 0#32 := by simp [St.get]

@[simp] theorem set_zero (s : St) (v : W) : s.set 0 v = s := by simp [St.set]

theorem get_set (s : St) (r x : Reg) (v : W) :
    (s.set r v).get x = if x = 0 then 0#32 else if x = r then v else s.get x := by
  unfold St.get St.set
  by_cases hr : r = 0
  · subst hr; by_cases hx : x = 0 <;> simp [hx]
  · by_cases hx : x = 0
    · simp [hx]
    · by_cases hxr : x = r <;> simp [hr, hx, hxr]

theorem get_set_same (s : St) (r : Reg) (v : W) (h : r ≠ 0) : (s.set r v).get r = v := by
  simp [get_set, h]

theorem get_set_ne (s : St) (r x : Reg) (v : W) (h : x ≠ r) : (s.set r v).get x = s.get x := by
  rw [get_set]
  by_cases hx : x = 0
  · simp [hx]
  · simp [hx, h]

@[simp] theorem set_mem (s : St) (r : Reg) (v : W) : (s.set r v).mem = s.mem := by
  unfold St.set; split <;> rfl

/-- writing a register's own value back changes nothing -/
theorem set_get_self (s : St) (r : Reg) : s.set r (s.get r) = s := by
  unfold St.set St.get
  by_cases hr : r = 0
  · simp [hr]
  · simp only [hr, if_false]
    apply St.ext'
    · funext x
      by_cases hx : x = r <;> simp [hx]
    · rfl

theorem set_congr (s : St) (r : Reg) {v w : W} (h : v = w) : s.set r v = s.set r w := by rw [h]

/-! ### observational equality (all registers but one, and memory) -/

def St.EqExcept (t : Reg) (a b : St) : Prop := (∀ r, r ≠ t → a.get r = b.get r) ∧ a.mem = b.mem

def OEqExcept (t : Reg) : Option St → Option St → Prop
  | some a, some b => a.EqExcept t b
  | none, none => True
  | _, _ => False

theorem OEqExcept.of_eq (t : Reg) {a b : Option St} (h : a = b) : OEqExcept t a b := by
  subst h
  cases a with
  | none => trivial
  | some a => exact ⟨fun _ _ => rfl, rfl⟩

/-! ### immediates -/

@[simp] theorem imm32_zero : imm32 0 = 0#32 := by simp [imm32]

theorem imm32_wrap32 (v : Int) : imm32 (wrap32 v) = imm32 v := by
  unfold wrap32 imm32
  exact BitVec.ofInt_toInt

theorem imm32_toInt (x : W) : imm32 x.toInt = x := by simp [imm32, BitVec.ofInt_toInt]

theorem imm32_add (a b : Int) : imm32 (a + b) = imm32 a + imm32 b := by simp [imm32, BitVec.ofInt_add]

theorem imm32_mul (a b : Int) : imm32 (a * b) = imm32 a * imm32 b := by simp [imm32, BitVec.ofInt_mul]

theorem imm32_neg (a : Int) : imm32 (-a) = -imm32 a := by simp [imm32, BitVec.ofInt_neg]

theorem imm32_sub (a b : Int) : imm32 (a - b) = imm32 a - imm32 b := by
  rw [Int.sub_eq_add_neg, imm32_add, imm32_neg, BitVec.sub_eq_add_neg]

theorem imm32_one : imm32 1 = 1#32 := by decide

theorem imm32_two : imm32 2 = 2#32 := by decide

/-- signed range of an i32 `IntegerAttr` payload -/
def inS32 (c : Int) : Prop := -2147483648 ≤ c ∧ c < 2147483648

theorem toInt_imm32 (c : Int) (h : inS32 c) : (imm32 c).toInt = c := by
  unfold imm32
  rw [BitVec.toInt_ofInt]
  apply Int.bmod_eq_of_le <;> (unfold inS32 at h; omega)

theorem wrap32_range (v : Int) : -2147483648 ≤ wrap32 v ∧ wrap32 v < 2147483648 := by
  unfold wrap32
  have h1 := BitVec.le_toInt (imm32 v)
  have h2 := @BitVec.toInt_lt 32 (imm32 v)
  simp at h1 h2
  omega

theorem toInt_range (x : W) : -2147483648 ≤ x.toInt ∧ x.toInt < 2147483648 := by
  have h1 := BitVec.le_toInt x
  have h2 := @BitVec.toInt_lt 32 x
  simp at h1 h2
  omega


/-! ### the `py_operation` folds of the immediate shifts -/

theorem imm32_two_pow (n : Nat) : imm32 ((2:Int) ^ n) = BitVec.twoPow 32 n := by
  unfold imm32
  have : ((2:Int)^n) = ((2^n : Nat) : Int) := by simp
  rw [this, BitVec.ofInt_natCast]
  apply BitVec.eq_of_toNat_eq
  simp [BitVec.toNat_twoPow]

theorem pyShift_slli (c : Int) (n : Nat) : imm32 (pyShift .slli c n) = aluS .slli (imm32 c) n := by
  simp only [pyShift, aluS, imm32_wrap32, imm32_mul, imm32_two_pow, BitVec.shiftLeft_eq_mul_twoPow]

theorem pyShift_srai (c : Int) (n : Nat) (hc : inS32 c) :
    imm32 (pyShift .srai c n) = aluS .srai (imm32 c) n := by
  simp only [pyShift, aluS]
  rw [← imm32_toInt ((imm32 c).sshiftRight n), BitVec.toInt_sshiftRight, toInt_imm32 c hc,
    Int.shiftRight_eq_div_pow, Int.fdiv_eq_ediv_of_nonneg]
  · simp
  · exact Int.pow_nonneg (by omega)

theorem pyShift_srli (c : Int) (n : Nat) : imm32 (pyShift .srli c n) = aluS .srli (imm32 c) n := by
  simp only [pyShift, aluS, imm32_wrap32]
  apply BitVec.eq_of_toNat_eq
  unfold imm32
  rw [BitVec.toNat_ushiftRight, BitVec.toNat_ofInt, BitVec.toNat_ofInt, Nat.shiftRight_eq_div_pow]
  have hm0 : 0 ≤ c % 4294967296 := Int.emod_nonneg _ (by omega)
  have hm1 : c % 4294967296 < 4294967296 := Int.emod_lt_of_pos _ (by omega)
  have h32 : ((2 ^ 32 : Nat) : Int) = 4294967296 := by decide
  rw [h32]
  generalize (c % 4294967296) = m at *
  obtain ⟨k, rfl⟩ := Int.eq_ofNat_of_zero_le hm0
  have hkk : k < 4294967296 := by omega
  have hd : k / 2^n ≤ k := Nat.div_le_self _ _
  have hp : (2:Int)^n = ((2^n : Nat) : Int) := by simp
  rw [hp, ← Int.natCast_ediv, Int.toNat_natCast]
  generalize k / 2^n = q at *
  have h2 : (q : Int) % 4294967296 = (q : Int) := by
    apply Int.emod_eq_of_lt <;> omega
  rw [h2]
  simp

/-- the constant a shift fold materialises is the 32-bit result of the shift instruction -/
theorem pyShift_sound (op : SOp) (c : Int) (n : Nat) (hc : inS32 c) :
    imm32 (pyShift op c n) = aluS op (imm32 c) n := by
  cases op
  · exact pyShift_slli c n
  · exact pyShift_srli c n
  · exact pyShift_srai c n hc
  all_goals simp only [pyShift, imm32_toInt]

/-- every register an instruction names -/
def Instr.regs : Instr → List Reg
  | .r _ rd a b => [rd, a, b]
  | .i _ rd a _ => [rd, a]
  | .sh _ rd a _ => [rd, a]
  | .li rd _ => [rd]
  | .mv rd a => [rd, a]
  | .lw rd b _ => [rd, b]
  | .sw v b _ => [v, b]
  | .br _ a b _ => [a, b]
  | _ => []

/-! ### facts -/

/-- what a fact says about a machine state (this is what SSA form guarantees at the rewritten
operation: the operand registers still hold the values their definitions computed) -/
def Fact.Holds (s : St) : Fact → Prop
  | .const r c => inS32 c ∧ s.get r = imm32 c
  | .addi r s' i => fitsSI12 i = true ∧ s.get r = s.get s' + imm32 i
  | .xori r s' i => fitsSI12 i = true ∧ s.get r = s.get s' ^^^ imm32 i

theorem constOf_holds {fs : List Fact} {s : St} (hf : ∀ f ∈ fs, f.Holds s) {r : Reg} {c : Int}
    (h : constOf fs r = some c) : inS32 c ∧ s.get r = imm32 c := by
  induction fs with
  | nil => simp [constOf] at h
  | cons f fs ih =>
    have hf' : ∀ f ∈ fs, f.Holds s := fun g hg => hf g (List.mem_cons_of_mem _ hg)
    cases f with
    | const r' c' =>
      unfold constOf at h
      by_cases hr : r' = r
      · simp [hr] at h
        have := hf (.const r' c') (List.mem_cons_self)
        subst hr; subst h
        exact this
      · simp [hr] at h
        exact ih hf' h
    | addi _ _ _ => exact ih hf' (by simpa [constOf] using h)
    | xori _ _ _ => exact ih hf' (by simpa [constOf] using h)

theorem addiOf_holds {fs : List Fact} {s : St} (hf : ∀ f ∈ fs, f.Holds s) {r s' : Reg} {i : Int}
    (h : addiOf fs r = some (s', i)) : fitsSI12 i = true ∧ s.get r = s.get s' + imm32 i := by
  induction fs with
  | nil => simp [addiOf] at h
  | cons f fs ih =>
    have hf' : ∀ f ∈ fs, f.Holds s := fun g hg => hf g (List.mem_cons_of_mem _ hg)
    cases f with
    | addi r' s'' i' =>
      unfold addiOf at h
      by_cases hr : r' = r
      · simp [hr] at h
        have := hf (.addi r' s'' i') (List.mem_cons_self)
        obtain ⟨h1, h2⟩ := h
        subst hr; subst h1; subst h2
        exact this
      · simp [hr] at h
        exact ih hf' h
    | const _ _ => exact ih hf' (by simpa [addiOf] using h)
    | xori _ _ _ => exact ih hf' (by simpa [addiOf] using h)

theorem xoriOf_holds {fs : List Fact} {s : St} (hf : ∀ f ∈ fs, f.Holds s) {r s' : Reg} {i : Int}
    (h : xoriOf fs r = some (s', i)) : fitsSI12 i = true ∧ s.get r = s.get s' ^^^ imm32 i := by
  induction fs with
  | nil => simp [xoriOf] at h
  | cons f fs ih =>
    have hf' : ∀ f ∈ fs, f.Holds s := fun g hg => hf g (List.mem_cons_of_mem _ hg)
    cases f with
    | xori r' s'' i' =>
      unfold xoriOf at h
      by_cases hr : r' = r
      · simp [hr] at h
        have := hf (.xori r' s'' i') (List.mem_cons_self)
        obtain ⟨h1, h2⟩ := h
        subst hr; subst h1; subst h2
        exact this
      · simp [hr] at h
        exact ih hf' h
    | const _ _ => exact ih hf' (by simpa [xoriOf] using h)
    | addi _ _ _ => exact ih hf' (by simpa [xoriOf] using h)



/-! ### comparisons -/

theorem xor_toNat_ne (a b : W) (h : a ≠ b) : (a ^^^ b).toNat ≠ 0 := by
  intro h0
  apply h
  apply BitVec.xor_eq_zero_iff.mp
  apply BitVec.eq_of_toNat_eq
  simpa using h0

theorem cmp_eq (a b : W) : b2w ((a ^^^ b).ult (imm32 1)) = b2w (a == b) := by
  congr 1
  rw [imm32_one]
  by_cases h : a = b
  · subst h; simp [BitVec.ult]
  · have := xor_toNat_ne a b h
    have h1 : (a == b) = false := by simp [h]
    rw [h1]
    simp only [BitVec.ult, BitVec.toNat_ofNat]
    simp at this ⊢
    omega

theorem cmp_ne (a b : W) : b2w ((0#32).ult (a ^^^ b)) = b2w (a != b) := by
  congr 1
  by_cases h : a = b
  · subst h; simp [BitVec.ult]
  · have := xor_toNat_ne a b h
    have h1 : (a != b) = true := by simp [h]
    rw [h1]
    simp only [BitVec.ult, BitVec.toNat_ofNat]
    simp at this ⊢
    omega

theorem not_b2w (c : Bool) : b2w c ^^^ imm32 1 = b2w (!c) := by
  rw [imm32_one]; cases c <;> decide

/-! ### encodability -/

theorem fits_iff (i : Int) : fitsSI12 i = true ↔ (-2048 ≤ i ∧ i ≤ 2047) := by
  simp [fitsSI12]

theorem imm32_eq_signExtend (i : Int) (h : fitsSI12 i = true) :
    imm32 i = BitVec.signExtend 32 (BitVec.ofInt 12 i) := by
  rw [fits_iff] at h
  apply BitVec.eq_of_toInt_eq
  unfold imm32
  rw [BitVec.toInt_signExtend, BitVec.toInt_ofInt, BitVec.toInt_ofInt]
  have e1 : i.bmod (2^32) = i := by apply Int.bmod_eq_of_le <;> omega
  have e2 : i.bmod (2^12) = i := by apply Int.bmod_eq_of_le <;> omega
  simp only [e1, e2, Nat.min_def]
  simp [e2]

/-- the xor of two 12-bit signed immediates is a 12-bit signed immediate -/
theorem xor_fits (i j : Int) (hi : fitsSI12 i = true) (hj : fitsSI12 j = true) :
    fitsSI12 (imm32 i ^^^ imm32 j).toInt = true := by
  rw [imm32_eq_signExtend i hi, imm32_eq_signExtend j hj, ← BitVec.signExtend_xor, BitVec.toInt_signExtend]
  have h1 := BitVec.le_toInt (BitVec.ofInt 12 i ^^^ BitVec.ofInt 12 j)
  have h2 := @BitVec.toInt_lt 12 (BitVec.ofInt 12 i ^^^ BitVec.ofInt 12 j)
  generalize (BitVec.ofInt 12 i ^^^ BitVec.ofInt 12 j).toInt = v at *
  simp at h1 h2
  have e2 : v.bmod (2^12) = v := by apply Int.bmod_eq_of_le <;> omega
  simp [fits_iff, e2]
  omega

theorem fdiv_range (c : Int) (n : Nat) (hc : inS32 c) : inS32 (Int.fdiv c (2 ^ n)) := by
  have hp : (0:Int) < 2 ^ n := Int.pow_pos (by omega)
  rw [Int.fdiv_eq_ediv_of_nonneg _ (Int.le_of_lt hp)]
  unfold inS32 at *
  generalize (2:Int)^n = p at *
  constructor
  · rw [Int.le_ediv_iff_mul_le hp]
    have : -2147483648 * p ≤ -2147483648 := by omega
    omega
  · rw [Int.ediv_lt_iff_lt_mul hp]
    have : 2147483648 ≤ 2147483648 * p := by omega
    omega

def liOk (v : Int) : Prop := -2147483648 ≤ v ∧ v < 4294967296

theorem li_enc (rd : Reg) (v : Int) (h : liOk v) : (Instr.li rd v).encodable = true := by
  unfold liOk at h
  simp [Instr.encodable, h.1, h.2]

theorem pyShift_liOk (op : SOp) (c : Int) (n : Nat) (hc : inS32 c) : liOk (pyShift op c n) := by
  unfold liOk
  cases op
  · have := wrap32_range (c * 2 ^ n); simp only [pyShift]; omega
  · have := wrap32_range ((c % 4294967296) / 2 ^ n); simp only [pyShift]; omega
  · have := fdiv_range c n hc; unfold inS32 at this; simp only [pyShift]; omega
  all_goals (simp only [pyShift]; generalize (aluS _ (imm32 c) n) = x; have := toInt_range x; omega)

/-- static well-formedness of a fact (ranges of the attribute payloads) -/
def Fact.WF : Fact → Prop
  | .const _ c => inS32 c
  | .addi _ _ i => fitsSI12 i = true
  | .xori _ _ i => fitsSI12 i = true

theorem constOf_mem {fs : List Fact} {r : Reg} {c : Int} (h : constOf fs r = some c) : Fact.const r c ∈ fs := by
  induction fs with
  | nil => simp [constOf] at h
  | cons f fs ih =>
    cases f with
    | const r' c' =>
      unfold constOf at h
      by_cases hr : r' = r
      · simp [hr] at h; subst hr; subst h; exact List.mem_cons_self
      · simp [hr] at h; exact List.mem_cons_of_mem _ (ih h)
    | addi _ _ _ => exact List.mem_cons_of_mem _ (ih (by simpa [constOf] using h))
    | xori _ _ _ => exact List.mem_cons_of_mem _ (ih (by simpa [constOf] using h))

theorem addiOf_mem {fs : List Fact} {r s' : Reg} {i : Int} (h : addiOf fs r = some (s', i)) :
    Fact.addi r s' i ∈ fs := by
  induction fs with
  | nil => simp [addiOf] at h
  | cons f fs ih =>
    cases f with
    | addi r' s'' i' =>
      unfold addiOf at h
      by_cases hr : r' = r
      · simp [hr] at h; obtain ⟨h1, h2⟩ := h; subst hr; subst h1; subst h2; exact List.mem_cons_self
      · simp [hr] at h; exact List.mem_cons_of_mem _ (ih h)
    | const _ _ => exact List.mem_cons_of_mem _ (ih (by simpa [addiOf] using h))
    | xori _ _ _ => exact List.mem_cons_of_mem _ (ih (by simpa [addiOf] using h))

theorem xoriOf_mem {fs : List Fact} {r s' : Reg} {i : Int} (h : xoriOf fs r = some (s', i)) :
    Fact.xori r s' i ∈ fs := by
  induction fs with
  | nil => simp [xoriOf] at h
  | cons f fs ih =>
    cases f with
    | xori r' s'' i' =>
      unfold xoriOf at h
      by_cases hr : r' = r
      · simp [hr] at h; obtain ⟨h1, h2⟩ := h; subst hr; subst h1; subst h2; exact List.mem_cons_self
      · simp [hr] at h; exact List.mem_cons_of_mem _ (ih h)
    | const _ _ => exact List.mem_cons_of_mem _ (ih (by simpa [xoriOf] using h))
    | addi _ _ _ => exact List.mem_cons_of_mem _ (ih (by simpa [xoriOf] using h))

/-! ### execution of the shapes the rules emit -/

@[simp] theorem exec_nil (s : St) : exec [] s = some s := rfl

theorem exec_one (i : Instr) (s : St) : exec [i] s = exec1 i s := by
  simp [exec]

theorem exec_two (i j : Instr) (s : St) : exec [i, j] s = (exec1 i s).bind (exec1 j) := by
  simp [exec]

/-! ### constant evaluation of branches -/

theorem toSigned32_id (a : Int) (h : inS32 a) : toSigned32 a = a := by
  unfold toSigned32 inS32 at *; omega

theorem toUnsigned32_eq (a : Int) (h : inS32 a) : toUnsigned32 a = ((imm32 a).toNat : Int) := by
  unfold toUnsigned32 imm32 inS32 at *
  rw [BitVec.toNat_ofInt]
  have h32 : ((2 ^ 32 : Nat) : Int) = 4294967296 := by decide
  rw [h32]
  have : 0 ≤ a % 4294967296 := Int.emod_nonneg _ (by omega)
  rw [Int.toNat_of_nonneg this]
  omega

theorem slt_imm32 (a b : Int) (ha : inS32 a) (hb : inS32 b) : (imm32 a).slt (imm32 b) = decide (a < b) := by
  simp only [BitVec.slt, toInt_imm32 a ha, toInt_imm32 b hb]

theorem ult_imm32 (a b : Int) (ha : inS32 a) (hb : inS32 b) :
    (imm32 a).ult (imm32 b) = decide (toUnsigned32 a < toUnsigned32 b) := by
  simp only [BitVec.ult, toUnsigned32_eq a ha, toUnsigned32_eq b hb]
  congr 1
  simp

theorem eq_imm32 (a b : Int) (ha : inS32 a) (hb : inS32 b) :
    (imm32 a == imm32 b) = decide (toUnsigned32 a = toUnsigned32 b) := by
  rw [toUnsigned32_eq a ha, toUnsigned32_eq b hb]
  by_cases h : imm32 a = imm32 b
  · simp [h]
  · have : (imm32 a).toNat ≠ (imm32 b).toNat := fun e => h (BitVec.eq_of_toNat_eq e)
    have h1 : (imm32 a == imm32 b) = false := by simp [h]
    rw [h1]
    symm
    apply decide_eq_false
    omega


/-! ### `li` ranges, rule lookup -/

theorem wrap32_liOk (v : Int) : liOk (wrap32 v) := by
  have := wrap32_range v; unfold liOk; omega

theorem toInt_liOk (x : W) : liOk x.toInt := by
  have := toInt_range x; unfold liOk; omega

theorem fits_liOk (i : Int) (h : fitsSI12 i = true) : liOk i := by
  rw [fits_iff] at h; unfold liOk; omega


theorem lookupRule_mem {name : String} {tbl : List (String × (List Fact → Reg → Instr → Option (List Instr)))}
    {f : List Fact → Reg → Instr → Option (List Instr)} (h : lookupRule name tbl = some f) :
    (name, f) ∈ tbl := by
  induction tbl with
  | nil => simp [lookupRule] at h
  | cons e tbl ih =>
    obtain ⟨n, g⟩ := e
    unfold lookupRule at h
    by_cases hn : n = name
    · simp [hn] at h
      subst hn; subst h
      exact List.mem_cons_self
    · simp [hn] at h
      exact List.mem_cons_of_mem _ (ih h)


end Xdsl.RiscV
