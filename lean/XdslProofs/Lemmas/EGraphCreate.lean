import XdslProofs.Lemmas.EGraphExtract
/-!
`eqsat-create-eclasses` on a well-formed, ordered SSA function produces an e-graph satisfying the
extraction invariant `LInv` (every class is a singleton, the only user of its operand, placed after
it), and `eqsat-add-costs` keeps it (C28, totality part).  No Mathlib.
-/
namespace Xdsl.EGraph

/-- invariant of the two loops of `insert_eclass_ops`; `U` = values not wrapped yet -/
structure CInv (g : Prog) (U : Nat → Prop) : Prop where
  nodup : (g.body.map (·.res)).Nodup
  fresh : ∀ n ∈ g.body, g.nargs ≤ n.res
  ord : Ordered g
  cls : ∀ c a m, Node.cls c a m ∈ g.body → ∃ x, a = [x] ∧ m = none ∧ x ≠ c ∧ OnlyUser g x c ∧ ¬ IsClsRes g x ∧ ¬ U x
  udef : ∀ u, U u → u < g.nargs ∨ ∃ n ∈ g.body, n.res = u ∧ n.isCls = false

/-- the renaming applied by `replace_uses_with_if(…, not ClassOp)` -/
def phi (r c : Nat) (n : Node) : Node := if n.isCls then n else n.mapArgs (substId r c)

theorem phi_res (r c : Nat) (n : Node) : (phi r c n).res = n.res := by
  unfold phi; split
  · rfl
  · exact mapArgs_res _ _

theorem phi_isCls (r c : Nat) (n : Node) : (phi r c n).isCls = n.isCls := by
  unfold phi; split
  · rfl
  · cases n <;> rfl

theorem phi_cls (r c : Nat) (x : Nat) (a : List Nat) (m : Option Nat) : phi r c (.cls x a m) = .cls x a m := by
  simp [phi, Node.isCls]

theorem phi_eq_cls {r c : Nat} {n : Node} {x : Nat} {a : List Nat} {m : Option Nat}
    (h : phi r c n = .cls x a m) : n = .cls x a m := by
  cases n with
  | op _ _ _ _ _ => simp [phi, Node.isCls, Node.mapArgs] at h
  | cls _ _ _ => simpa [phi, Node.isCls] using h

theorem mem_phi_args {r c y : Nat} {n : Node} (h : y ∈ (phi r c n).args) :
    y ∈ n.args ∨ (y = c ∧ r ∈ n.args ∧ n.isCls = false) := by
  unfold phi at h
  split at h
  · exact Or.inl h
  · rename_i hc
    rw [mapArgs_args] at h
    rcases mem_map_substId h with h | ⟨e, hr⟩
    · exact Or.inl h
    · exact Or.inr ⟨e, hr, by simpa using hc⟩

theorem not_mem_phi_args {r c : Nat} {n : Node} (hrc : r ≠ c) (hn : n.isCls = false) : r ∉ (phi r c n).args := by
  unfold phi
  simp only [hn, Bool.false_eq_true, if_false, mapArgs_args, List.mem_map, not_exists, not_and]
  intro y _ e
  unfold substId at e
  split at e
  · exact hrc e.symm
  · rename_i hne; exact hne e

theorem replUsesNonCls_body (r c : Nat) (g : Prog) : (replUsesNonCls r c g).body = g.body.map (phi r c) := rfl

theorem OrdFrom.mapPhi {r c : Nat} :
    ∀ {E E' : Nat → Prop} {b : List Node}, OrdFrom E b → (∀ x, E x → E' x) → E' c → OrdFrom E' (b.map (phi r c))
  | _, _, [], _, _, _ => trivial
  | E, E', n :: rest, ⟨ha, hr⟩, hsub, hc => by
    simp only [List.map_cons, OrdFrom, phi_res]
    refine ⟨?_, OrdFrom.mapPhi hr (fun x hx => hx.elim (fun h => Or.inl (hsub x h)) Or.inr) (Or.inl hc)⟩
    intro a ha'
    rcases mem_phi_args ha' with h | ⟨e, _, _⟩
    · exact hsub a (ha a h)
    · rw [e]; exact hc

theorem phi_args_of_not_mem {r c : Nat} {n : Node} (h : r ∉ n.args) : (phi r c n).args = n.args := by
  unfold phi
  split
  · rfl
  · rw [mapArgs_args]
    conv => rhs; rw [← List.map_id n.args]
    apply List.map_congr_left
    intro y hy
    unfold substId
    split
    · rename_i e; subst e; exact absurd hy h
    · rfl

/-- order after inserting the class `c` of `r` right after `r`'s definition and renaming -/
theorem OrdFrom.wrap {r c : Nat} :
    ∀ {D : Nat → Prop} {b : List Node}, OrdFrom D b → ¬ D r →
      OrdFrom D ((insertAfter r (.cls c [r] none) b).map (phi r c))
  | _, [], _, _ => trivial
  | D, n :: rest, ⟨ha, hr⟩, hD => by
    have hnr : r ∉ n.args := fun h => hD (ha r h)
    simp only [insertAfter]
    split
    · rename_i e
      simp only [List.map_cons, phi_cls]
      refine ⟨by rw [phi_args_of_not_mem hnr]; exact ha, ?_, ?_⟩
      · intro a ha'
        simp only [Node.args, List.mem_cons, List.not_mem_nil, or_false] at ha'
        subst ha'
        right; rw [phi_res]; exact e.symm
      · rw [phi_res]
        exact OrdFrom.mapPhi hr (fun x hx => Or.inl hx) (Or.inr rfl)
    · rename_i e
      simp only [List.map_cons]
      refine ⟨by rw [phi_args_of_not_mem hnr]; exact ha, ?_⟩
      rw [phi_res]
      apply OrdFrom.wrap hr
      intro h
      rcases h with h | h
      · exact hD h
      · exact e h.symm

theorem mem_insertAfter_of_mem {r : Nat} {K m : Node} : ∀ {l : List Node}, m ∈ l → m ∈ insertAfter r K l
  | [], h => by simp at h
  | x :: l, h => by
    simp only [insertAfter]
    simp only [List.mem_cons] at h
    split
    · simp only [List.mem_cons]
      rcases h with h | h
      · exact Or.inl h
      · exact Or.inr (Or.inr h)
    · simp only [List.mem_cons]
      rcases h with h | h
      · exact Or.inl h
      · exact Or.inr (mem_insertAfter_of_mem h)

theorem new_mem_insertAfter {r : Nat} {K : Node} : ∀ {l : List Node}, (∃ n ∈ l, n.res = r) → K ∈ insertAfter r K l
  | [], h => by simp at h
  | x :: l, h => by
    simp only [insertAfter]
    split
    · simp
    · rename_i hne
      obtain ⟨n, hn, e⟩ := h
      simp only [List.mem_cons] at hn
      rcases hn with rfl | hn
      · exact absurd e hne
      · exact List.mem_cons_of_mem _ (new_mem_insertAfter ⟨n, hn, e⟩)

theorem insertAfter_nodup {r : Nat} {K : Node} : ∀ {l : List Node}, (l.map (·.res)).Nodup → K.res ∉ l.map (·.res) →
    ((insertAfter r K l).map (·.res)).Nodup
  | [], _, _ => by simp [insertAfter]
  | x :: l, h, hk => by
    simp only [List.map_cons, List.nodup_cons, List.mem_cons, not_or] at h hk
    simp only [insertAfter]
    split
    · simp only [List.map_cons, List.nodup_cons, List.mem_cons, not_or]
      exact ⟨⟨fun e => hk.1 e.symm, h.1⟩, hk.2, h.2⟩
    · simp only [List.map_cons, List.nodup_cons]
      refine ⟨?_, insertAfter_nodup h.2 hk.2⟩
      intro hx
      simp only [List.mem_map] at hx
      obtain ⟨m, hm, e⟩ := hx
      rcases mem_insertAfter hm with hm | rfl
      · exact h.1 (List.mem_map.mpr ⟨m, hm, e⟩)
      · exact hk.1 e

/-- the common part of `wrapOp` / `wrapArg` -/
theorem CInv.wrap {g : Prog} {U : Nat → Prop} {r c : Nat} (body1 : List Node) (h : CInv g U) (hU : U r)
    (hb : Below g c)
    (hmem : ∀ n, n ∈ body1 ↔ n ∈ g.body ∨ n = Node.cls c [r] none)
    (hnd : (body1.map (·.res)).Nodup)
    (hord : OrdFrom (· < g.nargs) (body1.map (phi r c))) :
    CInv (replUsesNonCls r c { g with body := body1 }) (fun x => U x ∧ x ≠ r) := by
  have hrc : r ≠ c := by
    rcases h.udef r hU with h' | ⟨n, hn, e, _⟩
    · have := hb.nargs; omega
    · have := hb.res n hn; omega
  have hbody : (replUsesNonCls r c { g with body := body1 }).body = body1.map (phi r c) := rfl
  have hresmap : (body1.map (phi r c)).map (·.res) = body1.map (·.res) := by
    rw [List.map_map]; apply List.map_congr_left; intro n _; exact phi_res r c n
  have hcnew : Node.cls c [r] none ∈ body1 := (hmem _).mpr (Or.inr rfl)
  have hnoclsr : ¬ IsClsRes g r := by
    intro ⟨a, m, hm⟩
    rcases h.udef r hU with h' | ⟨n, hn, e, hc⟩
    · have := h.fresh _ hm; simp only [Node.res] at this; omega
    · have e1 := findDef_of_mem h.nodup hn
      have e2 := findDef_of_mem h.nodup hm
      simp only [Node.res] at e2
      rw [e, e2] at e1
      cases e1
      simp [Node.isCls] at hc
  refine ⟨by rw [hbody, hresmap]; exact hnd, ?_, ⟨by rw [hbody]; exact hord, ?_, ?_⟩, ?_, ?_⟩
  · -- fresh
    intro n hn
    rw [hbody] at hn
    simp only [List.mem_map] at hn
    obtain ⟨n0, hn0, e⟩ := hn
    subst e
    rw [phi_res]
    rcases (hmem n0).mp hn0 with h0 | rfl
    · exact h.fresh n0 h0
    · exact hb.nargs
  · -- returned ids are defined
    intro y hy
    rw [hbody, hresmap]
    simp only [replUsesNonCls, List.mem_map] at hy
    obtain ⟨z, hz, e⟩ := hy
    subst e
    unfold substId
    split
    · right; exact List.mem_map.mpr ⟨_, hcnew, rfl⟩
    · rcases h.ord.ret z hz with h' | h'
      · exact Or.inl h'
      · right
        simp only [List.mem_map] at h' ⊢
        obtain ⟨n, hn, e⟩ := h'
        exact ⟨n, (hmem n).mpr (Or.inl hn), e⟩
  · -- class operands non-empty
    intro x a m hm
    rw [hbody] at hm
    simp only [List.mem_map] at hm
    obtain ⟨n0, hn0, e⟩ := hm
    have := phi_eq_cls e
    subst this
    rcases (hmem _).mp hn0 with h0 | h0
    · exact h.ord.clsArgs x a m h0
    · cases h0; simp
  · -- class discipline
    intro x a m hm
    rw [hbody] at hm
    simp only [List.mem_map] at hm
    obtain ⟨n0, hn0, e⟩ := hm
    have := phi_eq_cls e
    subst this
    have hclsres : ∀ y, IsClsRes (replUsesNonCls r c { g with body := body1 }) y → IsClsRes g y ∨ y = c := by
      intro y ⟨a', m', hm'⟩
      rw [hbody] at hm'
      simp only [List.mem_map] at hm'
      obtain ⟨n1, hn1, e1⟩ := hm'
      have := phi_eq_cls e1
      subst this
      rcases (hmem _).mp hn1 with h1 | h1
      · exact Or.inl ⟨a', m', h1⟩
      · cases h1; exact Or.inr rfl
    rcases (hmem _).mp hn0 with h0 | h0
    · -- an old class
      obtain ⟨x', rfl, rfl, hxc, hou, hnc, hnU⟩ := h.cls x a m h0
      have hx'r : x' ≠ r := fun e => hnU (e ▸ hU)
      have hx'c : x' ≠ c := by
        have := hb.args _ h0 x' (by simp [Node.args]); omega
      refine ⟨x', rfl, rfl, hxc, ⟨?_, ?_⟩, ?_, fun hh => hnU hh.1⟩
      · intro n hn hx
        rw [hbody] at hn
        simp only [List.mem_map] at hn
        obtain ⟨n1, hn1, e1⟩ := hn
        subst e1
        rw [phi_res]
        rcases mem_phi_args hx with hx | ⟨e, _, _⟩
        · rcases (hmem n1).mp hn1 with h1 | rfl
          · exact hou.1 n1 h1 hx
          · simp [Node.args] at hx; exact absurd hx hx'r
        · exact absurd e hx'c
      · intro hx
        simp only [replUsesNonCls, List.mem_map] at hx
        obtain ⟨z, hz, e⟩ := hx
        unfold substId at e
        split at e
        · exact hx'c e.symm
        · rw [e] at hz; exact hou.2 hz
      · intro hh
        rcases hclsres x' hh with hh | hh
        · exact hnc hh
        · exact hx'c hh
    · -- the new class
      cases h0
      refine ⟨r, rfl, rfl, hrc, ⟨?_, ?_⟩, ?_, fun hh => hh.2 rfl⟩
      · intro n hn hx
        rw [hbody] at hn
        simp only [List.mem_map] at hn
        obtain ⟨n1, hn1, e1⟩ := hn
        subst e1
        rw [phi_res]
        cases hc1 : n1.isCls with
        | false => exact absurd hx (not_mem_phi_args hrc hc1)
        | true =>
          rcases (hmem n1).mp hn1 with h1 | rfl
          · cases n1 with
            | op _ _ _ _ _ => simp [Node.isCls] at hc1
            | cls x1 a1 m1 =>
              obtain ⟨x', rfl, _, _, _, _, hnU⟩ := h.cls x1 a1 m1 h1
              rw [phi_cls] at hx
              simp [Node.args] at hx
              exact absurd (hx ▸ hU) hnU
          · rfl
      · intro hx
        simp only [replUsesNonCls, List.mem_map] at hx
        obtain ⟨z, _, e⟩ := hx
        unfold substId at e
        split at e
        · exact hrc e.symm
        · rename_i hne; exact hne e
      · intro hh
        rcases hclsres r hh with hh | hh
        · exact hnoclsr hh
        · exact hrc hh
  · -- the remaining unwrapped values are still defined by plain ops
    intro u hu
    rcases h.udef u hu.1 with h' | ⟨n, hn, e, hc⟩
    · exact Or.inl h'
    · right
      refine ⟨phi r c n, ?_, by rw [phi_res]; exact e, by rw [phi_isCls]; exact hc⟩
      rw [hbody]
      exact List.mem_map.mpr ⟨n, (hmem n).mpr (Or.inl hn), rfl⟩

theorem CInv.wrapOp {g : Prog} {U : Nat → Prop} {r c : Nat} (h : CInv g U) (hU : U r) (hb : Below g c)
    (hr : ∃ n ∈ g.body, n.res = r) : CInv (wrapOp g r c) (fun x => U x ∧ x ≠ r) := by
  have hcres : c ∉ g.body.map (·.res) := by
    intro hc
    simp only [List.mem_map] at hc
    obtain ⟨n, hn, e⟩ := hc
    have := hb.res n hn; omega
  apply h.wrap (insertAfter r (.cls c [r] none) g.body) hU hb
  · intro n
    constructor
    · exact mem_insertAfter
    · rintro (h' | rfl)
      · exact mem_insertAfter_of_mem h'
      · exact new_mem_insertAfter hr
  · exact insertAfter_nodup h.nodup (by simpa [Node.res] using hcres)
  · apply OrdFrom.wrap h.ord.body
    obtain ⟨n, hn, e⟩ := hr
    have := h.fresh n hn
    omega

theorem CInv.wrapArg {g : Prog} {U : Nat → Prop} {a c : Nat} (h : CInv g U) (hU : U a) (hb : Below g c)
    (ha : a < g.nargs) : CInv (wrapArg g a c) (fun x => U x ∧ x ≠ a) := by
  have hcres : c ∉ g.body.map (·.res) := by
    intro hc
    simp only [List.mem_map] at hc
    obtain ⟨n, hn, e⟩ := hc
    have := hb.res n hn; omega
  apply h.wrap (.cls c [a] none :: g.body) hU hb
  · intro n; simp only [List.mem_cons]; exact ⟨fun h' => h'.elim Or.inr Or.inl, fun h' => h'.elim Or.inr Or.inl⟩
  · simp only [List.map_cons, List.nodup_cons, Node.res]
    exact ⟨hcres, h.nodup⟩
  · simp only [List.map_cons, phi_cls, OrdFrom, Node.args, Node.res]
    refine ⟨by intro x hx; simp at hx; subst hx; exact ha, ?_⟩
    exact OrdFrom.mapPhi h.ord.body (fun x hx => Or.inl hx) (Or.inr rfl)

/-! ### freshness bookkeeping without a valuation -/

theorem Below.wrap {g : Prog} {r c : Nat} (body' : List Node)
    (hbody : ∀ m ∈ body', m ∈ g.body ∨ m = .cls c [r] none) (hb : Below g c) (hr : r < c) :
    Below (replUsesNonCls r c { g with body := body' }) (c + 1) := by
  apply Below_replUsesNonCls _ (Nat.lt_succ_self c)
  refine ⟨Nat.le_succ_of_le hb.nargs, ?_, ?_, fun x hx => Nat.lt_succ_of_lt (hb.ret x hx)⟩
  · intro m hm
    rcases hbody m hm with hm | rfl
    · exact Nat.lt_succ_of_lt (hb.res m hm)
    · exact Nat.lt_succ_self c
  · intro m hm a ha
    rcases hbody m hm with hm | rfl
    · exact Nat.lt_succ_of_lt (hb.args m hm a ha)
    · simp [Node.args] at ha; subst ha; exact Nat.lt_succ_of_lt hr

theorem Below.wrapOp {g : Prog} {r c : Nat} (hb : Below g c) (hr : r < c) : Below (wrapOp g r c) (c + 1) :=
  Below.wrap _ (fun _ hm => mem_insertAfter hm) hb hr

theorem Below.wrapArg {g : Prog} {a c : Nat} (hb : Below g c) (hr : a < c) : Below (wrapArg g a c) (c + 1) :=
  Below.wrap _ (fun m hm => by
    simp only [List.mem_cons] at hm; exact hm.elim Or.inr Or.inl) hb hr

theorem wrapOp_nargs (g : Prog) (r c : Nat) : (wrapOp g r c).nargs = g.nargs := rfl
theorem wrapArg_nargs (g : Prog) (r c : Nat) : (wrapArg g r c).nargs = g.nargs := rfl

/-- first loop: the op results `l` (pairwise distinct, still unwrapped, defined by nodes) -/
theorem fold_wrapOp_cinv (base : Nat) :
    ∀ (l : List Nat) (k : Nat) (g : Prog) (U : Nat → Prop), CInv g U → Below g (base + k) → l.Nodup →
      (∀ r ∈ l, U r ∧ r < base ∧ ∃ n ∈ g.body, n.res = r) →
      CInv ((l.zipIdx k).foldl (fun g (rc : Nat × Nat) => wrapOp g rc.1 (base + rc.2)) g) (fun x => U x ∧ x ∉ l)
      ∧ Below ((l.zipIdx k).foldl (fun g (rc : Nat × Nat) => wrapOp g rc.1 (base + rc.2)) g) (base + k + l.length)
      ∧ ((l.zipIdx k).foldl (fun g (rc : Nat × Nat) => wrapOp g rc.1 (base + rc.2)) g).nargs = g.nargs := by
  intro l
  induction l with
  | nil =>
    intro k g U h hb _ _
    refine ⟨?_, by simpa using hb, rfl⟩
    have : (fun x => U x ∧ x ∉ ([] : List Nat)) = U := by funext x; simp
    simp only [List.zipIdx_nil, List.foldl_nil]
    rw [this]; exact h
  | cons r l ih =>
    intro k g U h hb hnd hl
    simp only [List.zipIdx_cons, List.foldl_cons]
    obtain ⟨hU, hrb, hdef⟩ := hl r (by simp)
    have hnd' := List.nodup_cons.mp hnd
    have h1 := h.wrapOp hU hb hdef
    have b1 := hb.wrapOp (Nat.lt_of_lt_of_le hrb (Nat.le_add_right _ _))
    obtain ⟨h2, b2, n2⟩ := ih (k + 1) (wrapOp g r (base + k)) _ h1 (by rw [← Nat.add_assoc]; exact b1) hnd'.2
      (fun r' hr' => by
        obtain ⟨hU', hrb', n, hn, e⟩ := hl r' (by simp [hr'])
        refine ⟨⟨hU', fun e' => hnd'.1 (e' ▸ hr')⟩, hrb', phi r (base + k) n, ?_, by rw [phi_res]; exact e⟩
        show _ ∈ (replUsesNonCls r (base + k) _).body
        rw [replUsesNonCls_body]
        exact List.mem_map.mpr ⟨n, mem_insertAfter_of_mem hn, rfl⟩)
    refine ⟨?_, ?_, n2⟩
    · have : (fun x => (U x ∧ x ≠ r) ∧ x ∉ l) = (fun x => U x ∧ x ∉ r :: l) := by
        funext x; simp only [List.mem_cons, not_or, and_assoc]
      rw [← this]; exact h2
    · have : base + (k + 1) + l.length = base + k + (r :: l).length := by simp; omega
      rw [← this]; exact b2

/-- second loop: the block arguments -/
theorem fold_wrapArg_cinv (base : Nat) :
    ∀ (l : List Nat) (k : Nat) (g : Prog) (U : Nat → Prop), CInv g U → Below g (base + k) → l.Nodup →
      (∀ r ∈ l, U r ∧ r < g.nargs) →
      CInv ((l.zipIdx k).foldl (fun g (rc : Nat × Nat) => wrapArg g rc.1 (base + rc.2)) g) (fun x => U x ∧ x ∉ l)
      ∧ ((l.zipIdx k).foldl (fun g (rc : Nat × Nat) => wrapArg g rc.1 (base + rc.2)) g).nargs = g.nargs := by
  intro l
  induction l with
  | nil =>
    intro k g U h _ _ _
    refine ⟨?_, rfl⟩
    have : (fun x => U x ∧ x ∉ ([] : List Nat)) = U := by funext x; simp
    simp only [List.zipIdx_nil, List.foldl_nil]
    rw [this]; exact h
  | cons r l ih =>
    intro k g U h hb hnd hl
    simp only [List.zipIdx_cons, List.foldl_cons]
    obtain ⟨hU, hrn⟩ := hl r (by simp)
    have hnd' := List.nodup_cons.mp hnd
    have h1 := h.wrapArg hU hb hrn
    have b1 := hb.wrapArg (Nat.lt_of_lt_of_le hrn (Nat.le_trans hb.nargs (Nat.le_refl _)))
    obtain ⟨h2, n2⟩ := ih (k + 1) (wrapArg g r (base + k)) _ h1 (by rw [← Nat.add_assoc]; exact b1) hnd'.2
      (fun r' hr' => by
        obtain ⟨hU', hrn'⟩ := hl r' (by simp [hr'])
        exact ⟨⟨hU', fun e' => hnd'.1 (e' ▸ hr')⟩, hrn'⟩)
    refine ⟨?_, n2⟩
    have : (fun x => (U x ∧ x ≠ r) ∧ x ∉ l) = (fun x => U x ∧ x ∉ r :: l) := by
      funext x; simp only [List.mem_cons, not_or, and_assoc]
    rw [← this]; exact h2

end Xdsl.EGraph
