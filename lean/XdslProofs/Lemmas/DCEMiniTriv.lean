import XdslProofs.Lemmas.DCEMiniMain
import XdslProofs.C13
/-!
The trivially-dead erasure of the rewrite walkers (`DCE.trivDel`, `DCE.triv`) preserves `Sem` (C13).

One sweep erases the operations that are `would_be_trivially_dead` and have no use at all.  Its MiniIR part
is the MiniIR part of `delA` with the live set "ids of the cells the sweep keeps" (`proj_trivA`,
`funcsOf_trivA`; `allBlocksB`: with this live set `delA` erases no block), so the simulation of
`Lemmas/DCEMiniSim.lean` applies; here "no kept operation reads a result of an erased one" is immediate
(`trivDead_spec`: an erased operation has no use; `linkedB`).  No Mathlib.
-/
namespace Xdsl.DCEM
open Xdsl.DCE Xdsl.MiniIR Xdsl.Sem

variable {live : List Nat}

theorem toT_trivA (root : T) (a : AT) : toT (trivA root a) = trivDel root (toT a) := by
  induction a with
  | nil => rfl
  | op h m rs next ihr ihn =>
    simp only [trivA, toT_op, trivDel]
    split
    · exact ihn
    · simp [ihr, ihn]
  | block i args ops next iho ihn => simp [trivA, trivDel, iho, ihn]
  | region bs next ihb ihn => simp [trivA, trivDel, ihb, ihn]

theorem cellsA_ids (a : AT) : (cellsA a).map (·.1.id) = allIds (toT a) := by
  rw [allIds, allHdrs_toT]; simp

/-- with unique ids, the live set of a sweep contains exactly the ids of the cells it keeps -/
theorem liveTr_iff (a : AT) (hnd : (allIds (toT a)).Nodup) : ∀ c ∈ cellsA a,
    (liveTr a).contains c.1.id = !trivDead (toT a) c.1 (toT c.2.2) := by
  intro c hc
  cases ht : trivDead (toT a) c.1 (toT c.2.2) with
  | false =>
    simp only [Bool.not_false, List.contains_eq_mem, decide_eq_true_eq, liveTr, List.mem_map, List.mem_filter]
    exact ⟨c, ⟨hc, by simp [ht]⟩, rfl⟩
  | true =>
    simp only [Bool.not_true, List.contains_eq_mem, decide_eq_false_iff_not, liveTr, List.mem_map, List.mem_filter]
    rintro ⟨c', ⟨hc', hk⟩, hid⟩
    have : c' = c := inj_of_nodup_map (fun c : Hdr × MHdr × AT => c.1.id) (cellsA a)
      (by rw [cellsA_ids]; exact hnd) c' hc' c hc hid
    subst this
    simp [ht] at hk

/-- the MiniIR part of a sweep is the MiniIR part of `delA` with the sweep's live set -/
theorem proj_trivA (root : T) (a : AT) : ∀ (f : Bool) (mask : List Bool),
    (∀ c ∈ cellsA a, live.contains c.1.id = !trivDead root c.1 (toT c.2.2)) → allBlocksB live a f = true →
    proj (trivA root a) = proj (delA live a f mask) := by
  induction a with
  | nil => intro f mask _ _; rfl
  | op h m rs next ihr ihn =>
    intro f mask hl hb
    simp only [cellsA, List.mem_cons, List.mem_append] at hl
    simp only [allBlocksB, Bool.and_eq_true, Bool.or_eq_true, Bool.not_eq_true'] at hb
    have h0 := hl (h, m, rs) (Or.inl rfl)
    simp only at h0
    have en := ihn false mask (fun c hc => hl c (Or.inr (Or.inr hc))) hb.2
    cases ht : trivDead root h (toT rs) with
    | true =>
      rw [ht] at h0
      simp only [trivA, ht, if_true, delA, h0, Bool.not_true, Bool.false_eq_true, if_false]
      exact en
    | false =>
      rw [ht] at h0
      have hb1 : allBlocksB live rs true = true := by
        rcases hb.1 with h1 | h1
        · rw [h0] at h1; cases h1
        · exact h1
      have er := ihr true [] (fun c hc => hl c (Or.inr (Or.inl hc))) hb1
      simp only [trivA, ht, Bool.false_eq_true, if_false, delA, h0, Bool.not_false, if_true, proj, er, en]
  | block i args ops next iho ihn =>
    intro f mask hl hb
    simp only [cellsA, List.mem_append] at hl
    simp only [allBlocksB, Bool.and_eq_true, Bool.or_eq_true] at hb
    have hk : (!f && !anyLiveA live ops) = false := by
      rcases hb.1.1 with h | h <;> simp [h]
    simp only [trivA, delA, hk, Bool.false_eq_true, if_false, proj,
      iho false mask (fun c hc => hl c (Or.inl hc)) hb.1.2, ihn false mask (fun c hc => hl c (Or.inr hc)) hb.2]
  | region bs next ihb ihn =>
    intro f mask hl hb
    simp only [cellsA, List.mem_append] at hl
    simp only [allBlocksB, Bool.and_eq_true] at hb
    simp only [trivA, delA, proj, ihb true (keepMaskA live bs true) (fun c hc => hl c (Or.inl hc)) hb.1,
      ihn true [] (fun c hc => hl c (Or.inr hc)) hb.2]

theorem funcsOf_trivA (root : T) (a : AT) : ∀ (mask : List Bool),
    (∀ c ∈ cellsA a, live.contains c.1.id = !trivDead root c.1 (toT c.2.2)) → allBlocksB live a false = true →
    funcsOf (trivA root a) = funcsOf (delA live a false mask) := by
  induction a with
  | nil => intro _ _ _; rfl
  | block i args ops next _ _ =>
    intro mask hl hb
    simp only [allBlocksB, Bool.and_eq_true, Bool.or_eq_true] at hb
    have hk : (!false && !anyLiveA live ops) = false := by
      rcases hb.1.1 with h | h
      · cases h
      · simp [h]
    simp only [trivA, delA, hk, Bool.false_eq_true, if_false, funcsOf]
  | region _ _ _ _ => intro _ _ _; rfl
  | op h m rs next ihr ihn =>
    intro mask hl hb
    simp only [cellsA, List.mem_cons, List.mem_append] at hl
    simp only [allBlocksB, Bool.and_eq_true, Bool.or_eq_true, Bool.not_eq_true'] at hb
    have h0 := hl (h, m, rs) (Or.inl rfl)
    simp only at h0
    have en := ihn mask (fun c hc => hl c (Or.inr (Or.inr hc))) hb.2
    cases ht : trivDead root h (toT rs) with
    | true =>
      rw [ht] at h0
      simp only [trivA, ht, if_true, delA, h0, Bool.not_true, Bool.false_eq_true, if_false]
      exact en
    | false =>
      rw [ht] at h0
      have hb1 : allBlocksB live rs true = true := by
        rcases hb.1 with h1 | h1
        · rw [h0] at h1; cases h1
        · exact h1
      have er := proj_trivA root rs true [] (fun c hc => hl c (Or.inr (Or.inl hc))) hb1
      simp only [trivA, ht, Bool.false_eq_true, if_false, delA, h0, Bool.not_false, if_true, funcsOf, regionsOf, er, en]


/-- what `delA` erases one by one are cells of the tree that are not live -/
theorem dropCells_sub (a : AT) : ∀ f, ∀ c ∈ dropCells live a f, c ∈ cellsA a ∧ live.contains c.1.id = false := by
  induction a with
  | nil => intro f c hc; simp [dropCells] at hc
  | op h m rs next ihr ihn =>
    intro f c hc
    simp only [dropCells, List.mem_append] at hc
    simp only [cellsA, List.mem_cons, List.mem_append]
    rcases hc with hc | hc
    · cases hl : live.contains h.id with
      | true =>
        simp only [hl, if_true] at hc
        exact ⟨Or.inr (Or.inl (ihr true c hc).1), (ihr true c hc).2⟩
      | false =>
        simp only [hl, Bool.false_eq_true, if_false, List.mem_singleton] at hc
        subst hc
        exact ⟨Or.inl rfl, hl⟩
    · exact ⟨Or.inr (Or.inr (ihn false c hc).1), (ihn false c hc).2⟩
  | block i args ops next iho ihn =>
    intro f c hc
    simp only [dropCells, List.mem_append] at hc
    simp only [cellsA, List.mem_append]
    rcases hc with hc | hc
    · split at hc
      · cases hc
      · exact ⟨Or.inl (iho false c hc).1, (iho false c hc).2⟩
    · exact ⟨Or.inr (ihn false c hc).1, (ihn false c hc).2⟩
  | region bs next ihb ihn =>
    intro f c hc
    simp only [dropCells, List.mem_append] at hc
    simp only [cellsA, List.mem_append]
    rcases hc with hc | hc
    · exact ⟨Or.inl (ihb true c hc).1, (ihb true c hc).2⟩
    · exact ⟨Or.inr (ihn true c hc).1, (ihn true c hc).2⟩

theorem dropRes_dropCells (a : AT) : ∀ f, ∀ v ∈ dropRes live a f,
    ∃ c ∈ dropCells live a f, v ∈ c.2.1.results.map (·.1) := by
  induction a with
  | nil => intro f v hv; simp [dropRes] at hv
  | op h m rs next ihr ihn =>
    intro f v hv
    simp only [dropRes, List.mem_append] at hv
    simp only [dropCells, List.mem_append]
    rcases hv with hv | hv
    · cases hl : live.contains h.id with
      | true =>
        simp only [hl, if_true] at hv ⊢
        obtain ⟨c, hc, r⟩ := ihr true v hv
        exact ⟨c, Or.inl hc, r⟩
      | false =>
        simp only [hl, Bool.false_eq_true, if_false] at hv ⊢
        exact ⟨(h, m, rs), Or.inl (by simp), hv⟩
    · obtain ⟨c, hc, r⟩ := ihn false v hv
      exact ⟨c, Or.inr hc, r⟩
  | block i args ops next iho ihn =>
    intro f v hv
    simp only [dropRes, List.mem_append] at hv
    simp only [dropCells, List.mem_append]
    rcases hv with hv | hv
    · split at hv
      · cases hv
      · rename_i hk
        obtain ⟨c, hc, r⟩ := iho false v hv
        exact ⟨c, Or.inl (by simp only [hk]; exact hc), r⟩
    · obtain ⟨c, hc, r⟩ := ihn false v hv
      exact ⟨c, Or.inr hc, r⟩
  | region bs next ihb ihn =>
    intro f v hv
    simp only [dropRes, List.mem_append] at hv
    simp only [dropCells, List.mem_append]
    rcases hv with hv | hv
    · obtain ⟨c, hc, r⟩ := ihb true v hv
      exact ⟨c, Or.inl hc, r⟩
    · obtain ⟨c, hc, r⟩ := ihn true v hv
      exact ⟨c, Or.inr hc, r⟩

/-- **one sweep of the trivially-dead erasure preserves `Sem`** -/
theorem trivA_preserves (a : AT) (hc : certTriv a = true) {f : String} {args : List Val} {n M : Nat} (hM : n ≤ M)
    {r : List Val × List Effect} (h : Sem.run (toProg a) f args n = .ok r) :
    Sem.run (toProg (trivA (toT a) a)) f args M = .ok r := by
  simp only [certTriv, Bool.and_eq_true] at hc
  obtain ⟨⟨⟨⟨⟨hmod, hnd⟩, hlink⟩, hblk⟩, hsucc⟩, htop⟩ := hc
  obtain ⟨i, bargs, fops, ha⟩ := isModule_eq hmod
  have hlive := liveTr_iff a ((nodupB_iff _).mp hnd)
  have hdead : ∀ c ∈ dropCells (liveTr a) a true, trivDead (toT a) c.1 (toT c.2.2) = true := by
    intro c hc
    obtain ⟨h1, h2⟩ := dropCells_sub a true c hc
    have := hlive c h1
    rw [h2] at this
    simpa using this.symm
  have hW : ∀ c ∈ dropCells (liveTr a) a true, wbd c.1 (toT c.2.2) = true :=
    fun c hc => (trivDead_spec (hdead c hc)).1
  have hG : ∀ u ∈ cellsA a, (liveTr a).contains u.1.id = true → ∀ v ∈ uses u.2.1, v ∉ dropRes (liveTr a) a true := by
    intro u hu _ v hv hvr
    obtain ⟨c, hc, hres⟩ := dropRes_dropCells a true v hvr
    obtain ⟨r0, hr0, rfl⟩ := List.mem_map.mp hres
    have hcin := (dropCells_sub a true c hc).1
    simp only [linkedB, List.all_eq_true, Bool.or_eq_true, Bool.not_eq_true', List.contains_eq_mem,
      decide_eq_false_iff_not, decide_eq_true_eq] at hlink
    have hop : c.1.id ∈ u.1.operands := by
      rcases hlink u hu c hcin r0 hr0 with h0 | h0
      · exact absurd hv h0
      · exact h0
    exact (trivDead_spec (hdead c hc)).2 u.1 (by rw [allHdrs_toT]; exact List.mem_map.mpr ⟨u, hu, rfl⟩) hop
  generalize hlv : liveTr a = live at *
  have htopops : topOps a = fops := by rw [ha]; rfl
  rw [htopops] at htop
  have ed : dropRes live a true = dropRes live fops false := by rw [ha]; simp [dropRes]
  have eh : hiddenDefs live a true = hiddenDefs live fops false := by rw [ha]; simp [hiddenDefs]
  have ec : ∀ c ∈ cellsA fops, c ∈ cellsA a := by intro c hc; rw [ha]; simp [cellsA, hc]
  have ew : dropCells live a true = dropCells live fops false := by rw [ha]; simp [dropCells]
  have hsf : succB live fops .ops (fun b => firstKeptB live b (.block i bargs fops .nil) true) false = true := by
    rw [ha] at hsucc
    simpa [succB] using hsucc
  have hbf : allBlocksB live fops false = true := by
    rw [ha] at hblk
    simp only [allBlocksB, Bool.and_eq_true] at hblk
    exact hblk.1.1.2
  have hst : SimTop (toProg a) (fun v => v ∈ hiddenDefs live a true ∨ v ∈ dropRes live a true) live fops := by
    refine simTop_of_cert (rl := dropRes live a true) fops _ htop hsf ?_ ?_ (fun v hv => hv) ?_ ?_
    · intro v hv; right; rw [ed]; exact hv
    · intro v hv; left; rw [eh]; exact hv
    · intro c hc; exact hG c (ec c hc)
    · intro c hc; exact hW c (by rw [ew]; exact hc)
  have e1 : toProg a = ⟨funcsOf fops⟩ := by rw [ha]; rfl
  have e2 : toProg (trivA (toT a) a)
      = ⟨funcsOf (delA live fops false (keepMaskA live (.block i bargs fops .nil) true))⟩ := by
    have : topOps (trivA (toT a) a) = trivA (toT a) fops := by rw [ha]; rfl
    simp only [toProg, this]
    congr 1
    exact funcsOf_trivA (toT a) fops _ (fun c hc => hlive c (ec c hc)) hbf
  have hcall : CallOK (fun v => v ∈ hiddenDefs live a true ∨ v ∈ dropRes live a true) live (toProg a)
      (toProg (trivA (toT a) a)) := by
    rw [e2]
    rw [e1] at hst ⊢
    exact callOK_of_simTop _ fops hst
  exact run_sim hcall hM h

theorem trivLoopA_preserves : ∀ (fuel : Nat) (a : AT), certTrivLoop fuel a = true →
    ∀ {f : String} {args : List Val} {n M : Nat}, n ≤ M → ∀ {r : List Val × List Effect},
      Sem.run (toProg a) f args n = .ok r → Sem.run (toProg (trivLoopA fuel a).1) f args M = .ok r := by
  intro fuel
  induction fuel with
  | zero => intro a _ f args n M hM r h; exact SemMeta.run_fuel_mono_ok _ f args hM h
  | succ fuel ih =>
    intro a hc f args n M hM r h
    simp only [certTrivLoop] at hc
    simp only [trivLoopA]
    split
    · exact SemMeta.run_fuel_mono_ok _ f args hM h
    · rename_i hsz
      simp only [hsz, Bool.false_eq_true, if_false, Bool.and_eq_true] at hc
      exact ih _ hc.2 (Nat.le_refl M) (trivA_preserves a hc.1 hM h)

theorem toT_trivLoopA : ∀ (fuel : Nat) (a : AT),
    toT (trivLoopA fuel a).1 = (trivLoop fuel (toT a)).1 ∧ (trivLoopA fuel a).2 = (trivLoop fuel (toT a)).2 := by
  intro fuel
  induction fuel with
  | zero => intro a; exact ⟨rfl, rfl⟩
  | succ fuel ih =>
    intro a
    simp only [trivLoopA, trivLoop, toT_trivA]
    split
    · exact ⟨rfl, rfl⟩
    · rw [← toT_trivA]; exact ih _

end Xdsl.DCEM
