import XdslProofs.Lemmas.DCEMiniRel
/-!
The simulation between a MiniIR program and what `delA` leaves of it, on the reference semantics
`Sem` (C13).  `SimOK` collects, cell by cell, what the simulation needs:

* a kept operation reads no dead value (`D`), its successors are blocks that stay (`K`);
* an erased operation is `Quiet`: whenever it runs to completion it is no terminator and leaves a
  related state (same effect log, memory, symref variables; environment changed only inside `D`);
* in every region, the first block carrying a given id that a kept operation branches to is kept.

`sim_all`: for every fuel `n` and every `M ≥ n`, every function of the mutual block of `Sem`, run with
fuel `M` on the pruned program from a related state, reproduces an `ok` outcome of the run with fuel
`n` on the original program (same terminator / values, related final state).  One `*_step` lemma per
function, as in `Lemmas/SemMono.lean`.  No Mathlib.
-/
namespace Xdsl.DCEM
open Xdsl.DCE Xdsl.MiniIR Xdsl.Sem

@[simp] theorem mkOp_name (m : MHdr) (rs : List Region) : (mkOp m rs).name = m.name := rfl
@[simp] theorem mkOp_results (m : MHdr) (rs : List Region) : (mkOp m rs).results = m.results := rfl
@[simp] theorem mkOp_operands (m : MHdr) (rs : List Region) : (mkOp m rs).operands = m.operands := rfl
@[simp] theorem mkOp_succs (m : MHdr) (rs : List Region) : (mkOp m rs).succs = m.succs := rfl
@[simp] theorem mkOp_regions (m : MHdr) (rs : List Region) : (mkOp m rs).regions = rs := rfl
/-- the parts of `runOp` that look at the operation but not at its regions, as functions of `MHdr` -/
def attrM (m : MHdr) (k : String) : Option Attr := (mkOp m []).attr? k
def stateM (st : St) (m : MHdr) (args : List Val) := stateOp st (mkOp m []) args
def pureM (m : MHdr) (args : List Val) := pureOp (mkOp m []) args
def affBoundsM (m : MHdr) (args : List Val) := affineForBounds (mkOp m []) args
@[simp] theorem mkOp_attr (m : MHdr) (rs : List Region) (k : String) : (mkOp m rs).attr? k = attrM m k := rfl
@[simp] theorem mkOp_stateOp (st : St) (m : MHdr) (rs : List Region) (args : List Val) :
    stateOp st (mkOp m rs) args = stateM st m args := rfl
@[simp] theorem mkOp_pureOp (m : MHdr) (rs : List Region) (args : List Val) :
    pureOp (mkOp m rs) args = pureM m args := rfl
@[simp] theorem mkOp_affineForBounds (m : MHdr) (rs : List Region) (args : List Val) :
    affineForBounds (mkOp m rs) args = affBoundsM m args := rfl

@[simp] theorem opsOf_nil : opsOf .nil = [] := rfl
@[simp] theorem opsOf_op (h : Hdr) (m : MHdr) (rs next : AT) :
    opsOf (.op h m rs next) = mkOp m (regionsOf rs) :: opsOf next := rfl
@[simp] theorem opsOf_block (i : Nat) (args : List (Nat × Ty)) (ops next : AT) :
    opsOf (.block i args ops next) = [] := rfl
@[simp] theorem opsOf_region (bs next : AT) : opsOf (.region bs next) = [] := rfl
@[simp] theorem blocksOf_nil : blocksOf .nil = [] := rfl
@[simp] theorem blocksOf_op (h : Hdr) (m : MHdr) (rs next : AT) : blocksOf (.op h m rs next) = [] := rfl
@[simp] theorem blocksOf_block (i : Nat) (args : List (Nat × Ty)) (ops next : AT) :
    blocksOf (.block i args ops next) = .mk i args (opsOf ops) :: blocksOf next := rfl
@[simp] theorem blocksOf_region (bs next : AT) : blocksOf (.region bs next) = [] := rfl
@[simp] theorem regionsOf_nil : regionsOf .nil = [] := rfl
@[simp] theorem regionsOf_op (h : Hdr) (m : MHdr) (rs next : AT) : regionsOf (.op h m rs next) = [] := rfl
@[simp] theorem regionsOf_block (i : Nat) (args : List (Nat × Ty)) (ops next : AT) :
    regionsOf (.block i args ops next) = [] := rfl
@[simp] theorem regionsOf_region (bs next : AT) :
    regionsOf (.region bs next) = .mk (blocksOf bs) :: regionsOf next := rfl

/-! ## what the simulation needs -/

/-- an operation that, whenever it runs to completion, is no terminator and leaves a related state -/
def Quiet (P : Prog) (D : Nat → Prop) (o : Op) : Prop :=
  ∀ n st st1 t, runOp n P st o = .ok (st1, t) → t = none ∧ Rel D st st1

/-- the first block of the list that carries id `b` is kept by `delA` -/
def FirstKept (live : List Nat) (b : Nat) : AT → Bool → Prop
  | .block i _ ops next, first =>
    if i = b then (first = true ∨ anyLiveA live ops = true) else FirstKept live b next false
  | _, _ => True

/-- `s` is the sort of the list of cells (`Srt.ops` / `.blocks` / `.regions`): the tree is well-sorted
along what `delA` keeps -/
def SimOK (P : Prog) (D : Nat → Prop) (live : List Nat) : AT → Srt → (Nat → Prop) → Bool → Prop
  | .nil, _, _, _ => True
  | .op h m rs next, .ops, K, _ =>
    (if live.contains h.id then
        (∀ v ∈ uses m, ¬ D v) ∧ (∀ s ∈ m.succs, K s.1) ∧ SimOK P D live rs .regions (fun _ => True) true
      else Quiet P D (mkOp m (regionsOf rs)))
      ∧ SimOK P D live next .ops K false
  | .block _ _ ops next, .blocks, K, first =>
    ((first = true ∨ anyLiveA live ops = true) → SimOK P D live ops .ops K false)
      ∧ SimOK P D live next .blocks K false
  | .region bs next, .regions, _, _ =>
    SimOK P D live bs .blocks (fun b => FirstKept live b bs true) true
      ∧ SimOK P D live next .regions (fun _ => True) true
  | _, _, _, _ => False

/-- the module body: every `func.func` is kept, its body satisfies `SimOK`, and a body with a
non-empty entry block keeps a non-empty entry block (and only such a body) -/
def SimTop (P : Prog) (D : Nat → Prop) (live : List Nat) : AT → Prop
  | .op h m rs next =>
    (m.name = "func.func" → live.contains h.id = true ∧ SimOK P D live rs .regions (fun _ => True) true
        ∧ (bodyOf (regionsOf rs)).isSome = (bodyOf (regionsOf (delA live rs true []))).isSome)
      ∧ SimTop P D live next
  | _ => True

/-! ## operations without regions and calls -/

variable {D : Nat → Prop} {live : List Nat}

/-- payload relation of `runRegion` / `runBlock` / `runFor` / `runWhile` / `callFunc` -/
def QSt (D : Nat → Prop) {β : Type} (a b : St × β) : Prop := b.2 = a.2 ∧ Rel D a.1 b.1

/-- payload relation of `runOps` -/
def QOps (D : Nat → Prop) (K : Nat → Prop) (a b : St × Term) : Prop :=
  b.2 = a.2 ∧ Rel D a.1 b.1 ∧ ∀ bb vs, a.2 = .br bb vs → K bb

/-- payload relation of `runOp` / `runOps` -/
def QOp (D : Nat → Prop) (K : Nat → Prop) (a b : St × Option Term) : Prop :=
  b.2 = a.2 ∧ Rel D a.1 b.1 ∧ ∀ bb vs, a.2 = some (.br bb vs) → K bb

theorem leaf_sim {P P' : Prog} {n M : Nat} {m : MHdr} {rs rs' : List Region} {K : Nat → Prop} {st st' : St}
    (hr : Rel D st st') (hu : ∀ v ∈ uses m, ¬ D v) (hk : ∀ s ∈ m.succs, K s.1)
    (h1 : m.name ≠ "func.call") (h2 : m.name ≠ "scf.if") (h3 : m.name ≠ "scf.for")
    (h4 : m.name ≠ "scf.while") (h5 : m.name ≠ "affine.for") :
    RelRes (QOp D K) (runOp (n + 1) P st (mkOp m rs)) (runOp (M + 1) P' st' (mkOp m rs')) := by
  have hg : st'.gets m.operands = st.gets m.operands :=
    gets_rel hr (fun v hv => hu v (by simp [uses, hv]))
  have hgs : ∀ s ∈ m.succs, st'.gets s.2 = st.gets s.2 := fun s hs =>
    gets_rel hr (fun v hv => hu v (by simp only [uses, List.mem_append, List.mem_flatMap]; exact Or.inr ⟨s, hs, hv⟩))
  have ok0 : ∀ t : Term, (∀ bb vs, t = .br bb vs → K bb) →
      RelRes (QOp D K) (.ok (st, some t)) (.ok (st', some t)) :=
    fun t ht => .of_ok ⟨rfl, hr, fun bb vs h => ht bb vs (by cases h; rfl)⟩
  rw [runOp, runOp]
  simp only [mkOp_name, mkOp_operands, mkOp_succs, mkOp_regions, mkOp_results, hg]
  split
  · trivial
  · trivial
  · trivial
  rename_i args _
  split
  · exact ok0 _ (fun _ _ h => by cases h)
  · exact ok0 _ (fun _ _ h => by cases h)
  · exact ok0 _ (fun _ _ h => by cases h)
  · -- scf.condition
    split
    · split
      · exact ok0 _ (fun _ _ h => by cases h)
      · trivial
    · trivial
  · -- cf.br
    split
    · rename_i b as hs
      have e := hgs (b, as) (by rw [hs]; simp)
      simp only at e
      rw [e]
      split
      · refine ok0 _ ?_
        intro bb vs h; cases h; exact hk (b, as) (by rw [hs]; simp)
      · trivial
    · trivial
  · -- cf.cond_br
    split
    · rename_i c b1 a1 b2 a2 hs _
      have e1 := hgs (b1, a1) (by rw [hs]; simp)
      have e2 := hgs (b2, a2) (by rw [hs]; simp)
      simp only at e1 e2
      split
      · rename_i cb _
        cases cb
        · simp only [Bool.false_eq_true, if_false, e2]
          split
          · refine ok0 _ ?_
            intro bb vs h; cases h; exact hk (b2, a2) (by rw [hs]; simp)
          · trivial
        · simp only [if_true, e1]
          split
          · refine ok0 _ ?_
            intro bb vs h; cases h; exact hk (b1, a1) (by rw [hs]; simp)
          · trivial
      · trivial
    · trivial
  · exact absurd (by assumption) h1
  · exact absurd (by assumption) h2
  · exact absurd (by assumption) h3
  · exact absurd (by assumption) h4
  · exact absurd (by assumption) h5
  · -- stateOp / pureOp
    have hso : stateM st' m args = (stateM st m args).map (envMap st'.env) := by
      conv => lhs; rw [hr.eq_with]
      exact stateOp_env st st'.env (mkOp m []) args
    simp only [mkOp_stateOp, mkOp_pureOp, hso]
    cases hs : stateM st m args with
    | none =>
      simp only [Option.map]
      split
      · rename_i rs0 _
        split
        · rename_i s1 hb
          obtain ⟨s1', hb', hr'⟩ := bind_rel hr hb
          rw [hb']
          exact .of_ok ⟨rfl, hr', fun _ _ h => by cases h⟩
        · trivial
      all_goals trivial
    | some r =>
      cases r with
      | ok p =>
        obtain ⟨s1, rs0⟩ := p
        simp only [Option.map, envMap]
        split
        · rename_i s2 hb
          have he := stateOp_env_eq hs
          have hr1 : Rel D s1 { s1 with env := st'.env } :=
            ⟨rfl, rfl, rfl, fun v hv => by rw [he]; exact hr.env v hv⟩
          obtain ⟨s2', hb', hr'⟩ := bind_rel hr1 hb
          rw [hb']
          exact .of_ok ⟨rfl, hr', fun _ _ h => by cases h⟩
        · trivial
      | ub w => trivial
      | fuel => trivial
      | err x => trivial

/-! ## the simulation, fuel by fuel -/

/-- what the simulation of a call needs of the two programs -/
def CallOK (D : Nat → Prop) (live : List Nat) (P P' : Prog) : Prop :=
  ∀ name fn, findFunc P name = some fn → ∃ fn', findFunc P' name = some fn' ∧
    ((fn.body = none ∧ fn'.body = none) ∨
     ∃ bs mask, fn.body = some (.mk (blocksOf bs)) ∧ fn'.body = some (.mk (blocksOf (delA live bs true mask)))
        ∧ SimOK P D live bs .blocks (fun b => FirstKept live b bs true) true)

structure SimAt (D : Nat → Prop) (live : List Nat) (P P' : Prog) (n : Nat) : Prop where
  ops : ∀ M, n ≤ M → ∀ a K f mask st st', SimOK P D live a .ops K f → Rel D st st' →
    RelRes (QOps D K) (runOps n P st (opsOf a)) (runOps M P' st' (opsOf (delA live a false mask)))
  op : ∀ M, n ≤ M → ∀ m rs K st st', (∀ v ∈ uses m, ¬ D v) → (∀ s ∈ m.succs, K s.1) →
    SimOK P D live rs .regions (fun _ => True) true → Rel D st st' →
    RelRes (QOp D K) (runOp n P st (mkOp m (regionsOf rs)))
      (runOp M P' st' (mkOp m (regionsOf (delA live rs true []))))
  region : ∀ M, n ≤ M → ∀ bs mask st st' args, SimOK P D live bs .blocks (fun b => FirstKept live b bs true) true →
    Rel D st st' →
    RelRes (QSt D) (runRegion n P st (.mk (blocksOf bs)) args)
      (runRegion M P' st' (.mk (blocksOf (delA live bs true mask))) args)
  block : ∀ M, n ≤ M → ∀ bs mask st st' bid args, SimOK P D live bs .blocks (fun b => FirstKept live b bs true) true →
    FirstKept live bid bs true → Rel D st st' →
    RelRes (QSt D) (runBlock n P st (.mk (blocksOf bs)) bid args)
      (runBlock M P' st' (.mk (blocksOf (delA live bs true mask))) bid args)
  for_ : ∀ M, n ≤ M → ∀ bs mask st st' w i ub step iters,
    SimOK P D live bs .blocks (fun b => FirstKept live b bs true) true → Rel D st st' →
    RelRes (QSt D) (runFor n P st (.mk (blocksOf bs)) w i ub step iters)
      (runFor M P' st' (.mk (blocksOf (delA live bs true mask))) w i ub step iters)
  while_ : ∀ M, n ≤ M → ∀ bb ba maskb maska st st' args,
    SimOK P D live bb .blocks (fun b => FirstKept live b bb true) true →
    SimOK P D live ba .blocks (fun b => FirstKept live b ba true) true → Rel D st st' →
    RelRes (QSt D) (runWhile n P st (.mk (blocksOf bb)) (.mk (blocksOf ba)) args)
      (runWhile M P' st' (.mk (blocksOf (delA live bb true maskb))) (.mk (blocksOf (delA live ba true maska))) args)
  call : ∀ M, n ≤ M → ∀ st st' name args, Rel D st st' →
    RelRes (QSt D) (callFunc n P st name args) (callFunc M P' st' name args)

variable {P P' : Prog}

theorem simAt_zero : SimAt D live P P' 0 where
  ops := fun _ _ _ _ _ _ _ _ _ _ => by rw [runOps]; trivial
  op := fun _ _ _ _ _ _ _ _ _ _ _ => by rw [runOp]; trivial
  region := fun _ _ _ _ _ _ _ _ _ => by rw [runRegion]; trivial
  block := fun _ _ _ _ _ _ _ _ _ _ _ => by rw [runBlock]; trivial
  for_ := fun _ _ _ _ _ _ _ _ _ _ _ _ _ => by rw [runFor]; trivial
  while_ := fun _ _ _ _ _ _ _ _ _ _ _ _ => by rw [runWhile]; trivial
  call := fun _ _ _ _ _ _ _ => by rw [callFunc]; trivial

theorem ops_step {n : Nat} (ih : SimAt D live P P' n) (M : Nat) (hM : n + 1 ≤ M) (a : AT) (K : Nat → Prop)
    (f : Bool) (mask : List Bool) (st st' : St) (hok : SimOK P D live a .ops K f) (hr : Rel D st st') :
    RelRes (QOps D K) (runOps (n + 1) P st (opsOf a)) (runOps M P' st' (opsOf (delA live a false mask))) := by
  obtain ⟨M, rfl⟩ : ∃ M', M = M' + 1 := ⟨M - 1, by omega⟩
  have hM' : n ≤ M := by omega
  cases a with
  | nil => rw [opsOf_nil, runOps.eq_2 _ _ _ (by omega)]; trivial
  | block _ _ _ _ => exact hok.elim
  | region _ _ => exact hok.elim
  | op h m rs next =>
    obtain ⟨hhead, hnext⟩ := hok
    rw [opsOf_op, runOps]
    cases hc : live.contains h.id with
    | true =>
      simp only [hc, if_true] at hhead
      obtain ⟨hu, hk, hrs⟩ := hhead
      simp only [delA, hc, if_true, opsOf_op]
      rw [runOps]
      have hop := ih.op M hM' m rs K st st' hu hk hrs hr
      cases hL : runOp n P st (mkOp m (regionsOf rs)) with
      | ok p =>
        obtain ⟨s1, t⟩ := p
        rw [hL] at hop
        obtain ⟨⟨s1', t'⟩, hR, ht, hr1, hkk⟩ := hop
        simp only at ht hr1 hkk
        subst ht
        rw [hR]
        cases t' with
        | none => exact ih.ops M hM' next K false mask s1 s1' hnext hr1
        | some t => exact .of_ok ⟨rfl, hr1, fun bb vs h => hkk bb vs (by simp only at h; rw [h])⟩
      | ub w => trivial
      | fuel => trivial
      | err x => trivial
    | false =>
      simp only [hc, Bool.false_eq_true, if_false] at hhead
      simp only [delA, hc, Bool.false_eq_true, if_false]
      cases hL : runOp n P st (mkOp m (regionsOf rs)) with
      | ok p =>
        obtain ⟨s1, t⟩ := p
        obtain ⟨ht, hq⟩ := hhead n st s1 t hL
        subst ht
        exact ih.ops (M + 1) (by omega) next K false mask s1 st' hnext (hq.symm.trans hr)
      | ub w => trivial
      | fuel => trivial
      | err x => trivial


/-- the regions of a kept operation, before and after -/
theorem regions_sim {rs : AT} {K : Nat → Prop} {f : Bool} (h : SimOK P D live rs .regions K f) (f' : Bool) (mk : List Bool) :
    ∃ l : List (AT × List Bool),
      regionsOf rs = l.map (fun p => Region.mk (blocksOf p.1))
      ∧ regionsOf (delA live rs f' mk) = l.map (fun p => Region.mk (blocksOf (delA live p.1 true p.2)))
      ∧ ∀ p ∈ l, SimOK P D live p.1 .blocks (fun b => FirstKept live b p.1 true) true := by
  induction rs generalizing K f f' mk with
  | nil => exact ⟨[], rfl, rfl, fun _ hp => by cases hp⟩
  | op _ _ _ _ _ _ => exact h.elim
  | block _ _ _ _ _ _ => exact h.elim
  | region bs next _ ihn =>
    obtain ⟨h1, h2⟩ := h
    obtain ⟨l, e1, e2, e3⟩ := ihn h2 true []
    refine ⟨(bs, keepMaskA live bs true) :: l, by simp [e1], by simp [delA, e2], ?_⟩
    intro p hp
    rcases List.mem_cons.mp hp with rfl | hp
    · exact h1
    · exact e3 p hp

theorem bind_tail {K : Nat → Prop} {s1 s1' : St} (hr : Rel D s1 s1') (res : List (Nat × Ty)) (vs : List Val) (e : String) :
    RelRes (QOp D K) (match s1.bind res vs with | .ok s2 => .ok (s2, none) | _ => .err e)
      (match s1'.bind res vs with | .ok s2 => .ok (s2, none) | _ => .err e) := by
  cases hb : s1.bind res vs with
  | ok s2 =>
    obtain ⟨s2', hb', hr'⟩ := bind_rel hr hb
    rw [hb']
    exact .of_ok ⟨rfl, hr', fun _ _ h => by cases h⟩
  | ub w => trivial
  | fuel => trivial
  | err x => trivial

/-- case analysis on a sub-run `X` of the original program whose simulation `hq` is known: closes the
goals where `X` is not `ok`, and in the `ok` case rewrites both runs -/
local macro "subrun " X:term " using " hq:ident : tactic =>
  `(tactic| (
    cases hL : $X
    case ub => trivial
    case fuel => trivial
    case err => trivial
    rename_i x
    rw [hL] at $hq:ident
    obtain ⟨a, b⟩ := x
    obtain ⟨⟨a', b'⟩, hR, ht, hr⟩ := $hq
    simp only at ht hr
    subst ht
    rw [hR]
    ))

theorem op_step {n : Nat} (ih : SimAt D live P P' n) (M : Nat) (hM : n + 1 ≤ M) (m : MHdr) (rs : AT) (K : Nat → Prop)
    (st st' : St) (hu : ∀ v ∈ uses m, ¬ D v) (hk : ∀ s ∈ m.succs, K s.1)
    (hrs : SimOK P D live rs .regions (fun _ => True) true) (hr : Rel D st st') :
    RelRes (QOp D K) (runOp (n + 1) P st (mkOp m (regionsOf rs)))
      (runOp M P' st' (mkOp m (regionsOf (delA live rs true [])))) := by
  obtain ⟨M, rfl⟩ : ∃ M', M = M' + 1 := ⟨M - 1, by omega⟩
  have hM' : n ≤ M := by omega
  have hg : st'.gets m.operands = st.gets m.operands :=
    gets_rel hr (fun v hv => hu v (by simp [uses, hv]))
  obtain ⟨l, e1, e2, e3⟩ := regions_sim hrs true []
  by_cases h1 : m.name = "func.call"
  · rw [runOp, runOp]
    simp only [mkOp_name, mkOp_operands, mkOp_results, mkOp_attr, hg, h1]
    split
    · trivial
    · trivial
    · trivial
    rename_i args _
    split
    · rename_i callee _
      have hq := ih.call M hM' st st' callee args hr
      subrun (callFunc n P st callee args) using hq
      rename_i s1 s1' vs _ hr1 _
      exact bind_tail hr1 _ _ _
    · trivial
  by_cases h2 : m.name = "scf.if"
  · rw [runOp, runOp]
    simp only [mkOp_name, mkOp_operands, mkOp_regions, mkOp_results, hg, h2, e1, e2]
    split
    · trivial
    · trivial
    · trivial
    rename_i args _
    rcases args with _ | ⟨c, _ | ⟨c2, args⟩⟩ <;> rcases l with _ | ⟨p, _ | ⟨q, _ | ⟨r, l⟩⟩⟩ <;>
      simp only [List.map] <;> try trivial
    split
    · rename_i cb _
      have hp := ih.region M hM' p.1 p.2 st st' [] (e3 p (by simp)) hr
      have hq := ih.region M hM' q.1 q.2 st st' [] (e3 q (by simp)) hr
      cases cb
      · simp only [Bool.false_eq_true, if_false]
        subrun (runRegion n P st (.mk (blocksOf q.1)) []) using hq
        rename_i s1 s1' t _ hr1 _
        cases t <;> first | exact bind_tail hr1 _ _ _ | trivial
      · simp only [if_true]
        subrun (runRegion n P st (.mk (blocksOf p.1)) []) using hp
        rename_i s1 s1' t _ hr1 _
        cases t <;> first | exact bind_tail hr1 _ _ _ | trivial
    · trivial
  by_cases h3 : m.name = "scf.for"
  · rw [runOp, runOp]
    simp only [mkOp_name, mkOp_operands, mkOp_regions, mkOp_results, hg, h3, e1, e2]
    split
    · trivial
    · trivial
    · trivial
    rename_i args _
    rcases args with _ | ⟨a1, _ | ⟨a2, _ | ⟨a3, iters⟩⟩⟩ <;> rcases l with _ | ⟨p, _ | ⟨q, l⟩⟩ <;>
      simp only [List.map] <;> try trivial
    split
    · split
      · trivial
      · rename_i w lo _ u _ sp _ _ _ _
        have hq := ih.for_ M hM' p.1 p.2 st st' w lo u sp iters (e3 p (by simp)) hr
        subrun (runFor n P st (.mk (blocksOf p.1)) w lo u sp iters) using hq
        rename_i s1 s1' vs _ hr1 _
        exact bind_tail hr1 _ _ _
    · trivial
  by_cases h4 : m.name = "scf.while"
  · rw [runOp, runOp]
    simp only [mkOp_name, mkOp_operands, mkOp_regions, mkOp_results, hg, h4, e1, e2]
    split
    · trivial
    · trivial
    · trivial
    rename_i args _
    rcases l with _ | ⟨p, _ | ⟨q, _ | ⟨r, l⟩⟩⟩ <;> simp only [List.map] <;> try trivial
    have hq := ih.while_ M hM' p.1 q.1 p.2 q.2 st st' args (e3 p (by simp)) (e3 q (by simp)) hr
    subrun (runWhile n P st (.mk (blocksOf p.1)) (.mk (blocksOf q.1)) args) using hq
    rename_i s1 s1' vs _ hr1 _
    exact bind_tail hr1 _ _ _
  by_cases h5 : m.name = "affine.for"
  · rw [runOp, runOp]
    simp only [mkOp_affineForBounds, mkOp_name, mkOp_operands, mkOp_regions, mkOp_results, hg, h5, e1, e2]
    split
    · trivial
    · trivial
    · trivial
    rename_i args _
    rcases l with _ | ⟨p, _ | ⟨q, l⟩⟩ <;> simp only [List.map] <;> try trivial
    split
    · split
      · trivial
      · rename_i lo u sp inits _ _
        have hq := ih.for_ M hM' p.1 p.2 st st' 64 lo u sp inits (e3 p (by simp)) hr
        subrun (runFor n P st (.mk (blocksOf p.1)) 64 lo u sp inits) using hq
        rename_i s1 s1' vs _ hr1 _
        exact bind_tail hr1 _ _ _
    all_goals trivial
  exact leaf_sim hr hu hk h1 h2 h3 h4 h5


@[simp] theorem block_id_mk (i : Nat) (a : List (Nat × Ty)) (o : List Op) : (Block.mk i a o).id = i := rfl
@[simp] theorem region_blocks_mk (b : List Block) : (Region.mk b).blocks = b := rfl

theorem region_step {n : Nat} (ih : SimAt D live P P' n) (M : Nat) (hM : n + 1 ≤ M) (bs : AT) (mask : List Bool)
    (st st' : St) (args : List Val) (hok : SimOK P D live bs .blocks (fun b => FirstKept live b bs true) true)
    (hr : Rel D st st') :
    RelRes (QSt D) (runRegion (n + 1) P st (.mk (blocksOf bs)) args)
      (runRegion M P' st' (.mk (blocksOf (delA live bs true mask))) args) := by
  obtain ⟨M, rfl⟩ : ∃ M', M = M' + 1 := ⟨M - 1, by omega⟩
  have hM' : n ≤ M := by omega
  cases bs with
  | nil => rw [runRegion]; trivial
  | op _ _ _ _ => exact hok.elim
  | region _ _ => exact hok.elim
  | block i a ops next =>
    rw [runRegion, runRegion]
    simp only [delA, Bool.not_true, Bool.false_and, Bool.false_eq_true, if_false, blocksOf_block, region_blocks_mk,
      block_id_mk]
    refine ih.block M hM' _ mask st st' i args hok ?_ hr
    simp [FirstKept]

theorem find_block {K : Nat → Prop} (b : Nat) (mask : List Bool) (bs : AT) : ∀ (first : Bool),
    SimOK P D live bs .blocks K first → FirstKept live b bs first →
    ∀ B, findBlock (.mk (blocksOf bs)) b = some B →
      ∃ i args ops, B = .mk i args (opsOf ops) ∧ SimOK P D live ops .ops K false
        ∧ findBlock (.mk (blocksOf (delA live bs first mask))) b = some (.mk i args (opsOf (delA live ops false mask))) := by
  induction bs with
  | nil => intro _ _ _ B h; simp [findBlock, Region.blocks] at h
  | op _ _ _ _ _ _ => intro _ h; exact h.elim
  | region _ _ _ _ => intro _ h; exact h.elim
  | block i a ops next _ ihn =>
    intro first hs hk B hB
    obtain ⟨hs1, hs2⟩ := hs
    simp only [FirstKept] at hk
    simp only [findBlock, region_blocks_mk, blocksOf_block, List.find?_cons, block_id_mk] at hB
    by_cases hib : i = b
    · subst hib
      simp only [decide_true] at hB
      simp only [if_true] at hk
      cases hB
      have hkeep : (!first && !anyLiveA live ops) = false := by
        rcases hk with h | h <;> simp [h]
      refine ⟨i, a, ops, rfl, hs1 hk, ?_⟩
      simp [delA, hkeep, findBlock]
    · simp only [hib, decide_false] at hB
      simp only [hib, if_false] at hk
      obtain ⟨i', a', ops', e1, e2, e3⟩ := ihn false hs2 hk B (by simpa [findBlock] using hB)
      refine ⟨i', a', ops', e1, e2, ?_⟩
      simp only [delA]
      split
      · exact e3
      · simp only [findBlock, region_blocks_mk, blocksOf_block, List.find?_cons, block_id_mk, hib, decide_false]
        simpa [findBlock] using e3


theorem block_step {n : Nat} (ih : SimAt D live P P' n) (M : Nat) (hM : n + 1 ≤ M) (bs : AT) (mask : List Bool)
    (st st' : St) (bid : Nat) (args : List Val)
    (hok : SimOK P D live bs .blocks (fun b => FirstKept live b bs true) true)
    (hk : FirstKept live bid bs true) (hr : Rel D st st') :
    RelRes (QSt D) (runBlock (n + 1) P st (.mk (blocksOf bs)) bid args)
      (runBlock M P' st' (.mk (blocksOf (delA live bs true mask))) bid args) := by
  obtain ⟨M, rfl⟩ : ∃ M', M = M' + 1 := ⟨M - 1, by omega⟩
  have hM' : n ≤ M := by omega
  rw [runBlock, runBlock]
  cases hf : findBlock (.mk (blocksOf bs)) bid with
  | none => trivial
  | some B =>
    obtain ⟨i, a, ops, rfl, hops, hf'⟩ := find_block bid mask bs true hok hk B hf
    rw [hf']
    simp only [Block.args, Block.ops]
    cases hb : st.bind a args with
    | ok s0 =>
      obtain ⟨s0', hb', hr0⟩ := bind_rel hr hb
      rw [hb']
      simp only
      have hq := ih.ops M hM' ops _ false mask s0 s0' hops hr0
      cases hL : runOps n P s0 (opsOf ops)
      case ub => trivial
      case fuel => trivial
      case err => trivial
      rename_i x
      rw [hL] at hq
      obtain ⟨s1, t⟩ := x
      obtain ⟨⟨s1', t'⟩, hR, ht, hr1, hkk⟩ := hq
      simp only at ht hr1 hkk
      subst ht
      rw [hR]
      cases t' with
      | br b' as => exact ih.block M hM' bs mask s1 s1' b' as hok (hkk b' as rfl) hr1
      | ret vs => exact .of_ok ⟨rfl, hr1⟩
      | yield vs => exact .of_ok ⟨rfl, hr1⟩
      | cond c vs => exact .of_ok ⟨rfl, hr1⟩
    | ub w => trivial
    | fuel => trivial
    | err x => trivial


theorem for_step {n : Nat} (ih : SimAt D live P P' n) (M : Nat) (hM : n + 1 ≤ M) (bs : AT) (mask : List Bool)
    (st st' : St) (w : Nat) (i ub step : Int) (iters : List Val)
    (hok : SimOK P D live bs .blocks (fun b => FirstKept live b bs true) true) (hr : Rel D st st') :
    RelRes (QSt D) (runFor (n + 1) P st (.mk (blocksOf bs)) w i ub step iters)
      (runFor M P' st' (.mk (blocksOf (delA live bs true mask))) w i ub step iters) := by
  obtain ⟨M, rfl⟩ : ∃ M', M = M' + 1 := ⟨M - 1, by omega⟩
  have hM' : n ≤ M := by omega
  rw [runFor, runFor]
  split
  · have hq := ih.region M hM' bs mask st st' (.int w (BitVec.ofInt w i) :: iters) hok hr
    subrun (runRegion n P st (.mk (blocksOf bs)) (.int w (BitVec.ofInt w i) :: iters)) using hq
    rename_i s1 s1' t _ hr1 _
    cases t with
    | yield vs => exact ih.for_ M hM' bs mask s1 s1' w (i + step) ub step vs hok hr1
    | ret vs => trivial
    | br b as => trivial
    | cond c vs => trivial
  · exact .of_ok ⟨rfl, hr⟩

theorem while_step {n : Nat} (ih : SimAt D live P P' n) (M : Nat) (hM : n + 1 ≤ M) (bb ba : AT)
    (maskb maska : List Bool) (st st' : St) (args : List Val)
    (hb : SimOK P D live bb .blocks (fun b => FirstKept live b bb true) true)
    (ha : SimOK P D live ba .blocks (fun b => FirstKept live b ba true) true) (hr : Rel D st st') :
    RelRes (QSt D) (runWhile (n + 1) P st (.mk (blocksOf bb)) (.mk (blocksOf ba)) args)
      (runWhile M P' st' (.mk (blocksOf (delA live bb true maskb))) (.mk (blocksOf (delA live ba true maska))) args) := by
  obtain ⟨M, rfl⟩ : ∃ M', M = M' + 1 := ⟨M - 1, by omega⟩
  have hM' : n ≤ M := by omega
  rw [runWhile, runWhile]
  have hq := ih.region M hM' bb maskb st st' args hb hr
  subrun (runRegion n P st (.mk (blocksOf bb)) args) using hq
  rename_i s1 s1' t _ hr1 _
  cases t with
  | cond c vs =>
    cases c with
    | false => exact .of_ok ⟨rfl, hr1⟩
    | true =>
      simp only [if_true]
      have hq2 := ih.region M hM' ba maska s1 s1' vs ha hr1
      subrun (runRegion n P s1 (.mk (blocksOf ba)) vs) using hq2
      rename_i s2 s2' t2 _ hr2 _
      cases t2 with
      | yield ws => exact ih.while_ M hM' bb ba maskb maska s2 s2' ws hb ha hr2
      | ret vs => trivial
      | br b as => trivial
      | cond c vs => trivial
  | ret vs => trivial
  | br b as => trivial
  | yield vs => trivial

theorem call_step {n : Nat} (hc : CallOK D live P P') (ih : SimAt D live P P' n) (M : Nat) (hM : n + 1 ≤ M)
    (st st' : St) (name : String) (args : List Val) (hr : Rel D st st') :
    RelRes (QSt D) (callFunc (n + 1) P st name args) (callFunc M P' st' name args) := by
  obtain ⟨M, rfl⟩ : ∃ M', M = M' + 1 := ⟨M - 1, by omega⟩
  have hM' : n ≤ M := by omega
  rw [callFunc, callFunc]
  cases hf : findFunc P name with
  | none => trivial
  | some fn =>
    obtain ⟨fn', hf', hbody⟩ := hc name fn hf
    rw [hf']
    simp only
    rcases hbody with ⟨h1, h2⟩ | ⟨bs, mask, h1, h2, hok⟩
    · rw [h1, h2]
      refine .of_ok ⟨rfl, ⟨?_, hr.sym, hr.mem, hr.env⟩⟩
      simp only [hr.eff]
    · rw [h1, h2]
      simp only
      have hr0 : Rel D { env := [], eff := st.eff, sym := [], mem := st.mem }
          { env := [], eff := st'.eff, sym := [], mem := st'.mem } :=
        ⟨hr.eff, rfl, hr.mem, fun _ _ => rfl⟩
      have hq := ih.region M hM' bs mask _ _ args hok hr0
      subrun (runRegion n P { env := [], eff := st.eff, sym := [], mem := st.mem } (.mk (blocksOf bs)) args) using hq
      rename_i s1 s1' t _ hr1 _
      cases t with
      | ret vs => exact .of_ok ⟨rfl, ⟨hr1.eff, hr.sym, hr1.mem, hr.env⟩⟩
      | yield vs => trivial
      | br b as => trivial
      | cond c vs => trivial

theorem simAt_succ (hc : CallOK D live P P') {n : Nat} (ih : SimAt D live P P' n) : SimAt D live P P' (n + 1) where
  ops := fun M hM a K f mask st st' h1 h2 => ops_step ih M hM a K f mask st st' h1 h2
  op := fun M hM m rs K st st' h1 h2 h3 h4 => op_step ih M hM m rs K st st' h1 h2 h3 h4
  region := fun M hM bs mask st st' args h1 h2 => region_step ih M hM bs mask st st' args h1 h2
  block := fun M hM bs mask st st' bid args h1 h2 h3 => block_step ih M hM bs mask st st' bid args h1 h2 h3
  for_ := fun M hM bs mask st st' w i ub step iters h1 h2 => for_step ih M hM bs mask st st' w i ub step iters h1 h2
  while_ := fun M hM bb ba mb ma st st' args h1 h2 h3 => while_step ih M hM bb ba mb ma st st' args h1 h2 h3
  call := fun M hM st st' name args h => call_step hc ih M hM st st' name args h

/-- **the simulation**, for every fuel -/
theorem sim_all (hc : CallOK D live P P') : ∀ n, SimAt D live P P' n := by
  intro n
  induction n with
  | zero => exact simAt_zero
  | succ n ih => exact simAt_succ hc ih


/-- whole runs: an `ok` outcome of the original program with fuel `n` is the outcome of the pruned
program with every fuel `M ≥ n` -/
theorem run_sim (hc : CallOK D live P P') {f : String} {args : List Val} {n M : Nat} (hM : n ≤ M)
    {r : List Val × List Effect} (h : run P f args n = .ok r) : run P' f args M = .ok r := by
  unfold run at h ⊢
  have hq := (sim_all hc n).call M hM {} {} f args (Rel.refl _)
  cases hL : callFunc n P {} f args with
  | ok x =>
    rw [hL] at hq h
    obtain ⟨s1, vs⟩ := x
    obtain ⟨⟨s1', vs'⟩, hR, hv, hr1⟩ := hq
    simp only at hv hr1 h
    subst hv
    rw [hR]
    simp only [hr1.eff]
    exact h
  | ub w => rw [hL] at h; cases h
  | fuel => rw [hL] at h; cases h
  | err x => rw [hL] at h; cases h

end Xdsl.DCEM
