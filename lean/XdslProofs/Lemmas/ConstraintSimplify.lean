import XdslProofs.Lemmas.ConstraintSound
/-! `relax_constraint`, `|`, `AnyOf.get`, `ParamAttrConstraint.get` preserve the meaning (C09). -/
namespace Xdsl.Constraint

theorem subsetA_iff (a b : List Attr) : subsetA a b = true ↔ ∀ x ∈ a, x ∈ b := by
  simp [subsetA, List.all_eq_true, memA_iff]

section
variable (U : Univ) (σ : Asg)

theorem satAny_append (a : Attr) : ∀ cs ds, satAny U σ (cs ++ ds) a ↔ satAny U σ cs a ∨ satAny U σ ds a
  | [], ds => by simp [satAny]
  | c :: cs, ds => by simp [satAny, satAny_append a cs ds, or_assoc]

theorem satAny_congr (a : Attr) : ∀ cs ds, ceqL cs ds = true →
    (∀ c ∈ cs, ∀ y, ceq c y = true → ∀ a, sat U σ c a ↔ sat U σ y a) → (satAny U σ cs a ↔ satAny U σ ds a)
  | [], [], _, _ => Iff.rfl
  | [], _ :: _, h, _ => by simp [ceqL] at h
  | _ :: _, [], h, _ => by simp [ceqL] at h
  | c :: cs, d :: ds, h, ih => by
    simp only [ceqL, Bool.and_eq_true] at h
    simp only [satAny]
    rw [ih c (List.mem_cons_self ..) d h.1 a,
      satAny_congr a cs ds h.2 (fun c' hc' => ih c' (List.mem_cons_of_mem _ hc'))]

theorem satAll_congr (a : Attr) : ∀ cs ds, ceqL cs ds = true →
    (∀ c ∈ cs, ∀ y, ceq c y = true → ∀ a, sat U σ c a ↔ sat U σ y a) → (satAll U σ cs a ↔ satAll U σ ds a)
  | [], [], _, _ => Iff.rfl
  | [], _ :: _, h, _ => by simp [ceqL] at h
  | _ :: _, [], h, _ => by simp [ceqL] at h
  | c :: cs, d :: ds, h, ih => by
    simp only [ceqL, Bool.and_eq_true] at h
    simp only [satAll]
    rw [ih c (List.mem_cons_self ..) d h.1 a,
      satAll_congr a cs ds h.2 (fun c' hc' => ih c' (List.mem_cons_of_mem _ hc'))]

theorem satZip_congr : ∀ cs ds as, ceqL cs ds = true →
    (∀ c ∈ cs, ∀ y, ceq c y = true → ∀ a, sat U σ c a ↔ sat U σ y a) → (satZip U σ cs as ↔ satZip U σ ds as)
  | [], [], _, _, _ => Iff.rfl
  | [], _ :: _, _, h, _ => by simp [ceqL] at h
  | _ :: _, [], _, h, _ => by simp [ceqL] at h
  | c :: cs, d :: ds, [], _, _ => by simp [satZip]
  | c :: cs, d :: ds, a :: as, h, ih => by
    simp only [ceqL, Bool.and_eq_true] at h
    simp only [satZip]
    rw [ih c (List.mem_cons_self ..) d h.1 a,
      satZip_congr cs ds as h.2 (fun c' hc' => ih c' (List.mem_cons_of_mem _ hc'))]

/-- constraints that are `==` in Python describe the same set -/
theorem ceq_sat : ∀ x y, ceq x y = true → ∀ a, sat U σ x a ↔ sat U σ y a := by
  intro x
  induction x using C.ind with
  | any => intro y h a; cases y <;> simp [ceq] at h; rfl
  | eq b =>
    intro y h a; cases y <;> simp [ceq] at h
    rw [Attr.beq_iff] at h; subst h; rfl
  | set vs =>
    intro y h a; cases y <;> simp [ceq] at h
    rename_i ws
    simp only [sat]
    exact ⟨fun hx => (subsetA_iff vs ws).1 h.1 a hx, fun hx => (subsetA_iff ws vs).1 h.2 a hx⟩
  | base d => intro y h a; cases y <;> simp [ceq] at h; subst h; rfl
  | anyOf cs ih =>
    intro y h a; cases y <;> simp [ceq] at h
    simp only [sat]; exact satAny_congr U σ a cs _ h ih
  | allOf cs ih =>
    intro y h a; cases y <;> simp [ceq] at h
    simp only [sat]; exact satAll_congr U σ a cs _ h ih
  | param d ps ih =>
    intro y h a; cases y <;> simp [ceq] at h
    obtain ⟨h1, h2⟩ := h; subst h1
    simp only [sat]
    cases a with
    | param ca as => simp only; rw [satZip_congr U σ ps _ as h2 ih]
    | data _ _ => rfl
    | arr _ _ => rfl
  | var n c ih =>
    intro y h a; cases y <;> simp [ceq] at h
    obtain ⟨h1, h2⟩ := h; subst h1
    simp only [sat]; rw [ih _ h2 a]
  | msg n c ih =>
    intro y h a; cases y <;> simp [ceq] at h
    simp only [sat]; exact ih _ h.2 a
  | tvar n c ih =>
    intro y h a; cases y <;> simp [ceq] at h
    simp only [sat]; exact ih _ h.2 a
  | arrayOf k c ih =>
    intro y h a; cases y <;> simp [ceq] at h
    obtain ⟨h1, h2⟩ := h; subst h1
    simp only [sat]
    cases a with
    | arr ca es =>
      simp only
      constructor
      · rintro ⟨h3, h4⟩; exact ⟨h3, fun e he => (ih _ h2 e).1 (h4 e he)⟩
      · rintro ⟨h3, h4⟩; exact ⟨h3, fun e he => (ih _ h2 e).2 (h4 e he)⟩
    | data _ _ => rfl
    | param _ _ => rfl

/-- `AttrSetConstraint.get(*values)` describes exactly the given values -/
theorem setGet_sat (vs : List Attr) (a : Attr) : sat U σ (setGet vs) a ↔ a ∈ vs := by
  unfold setGet
  split
  · rename_i v hv
    simp only [sat]
    rw [← mem_dedupA a vs, hv]; simp
  · simp only [sat]; exact mem_dedupA a vs

theorem isAny_iff (c : C) : isAny c = true ↔ c = .any := by cases c <;> simp [isAny]

theorem finishGet_sat (done : List C) (r : C) (h : finishGet U done = .ok r) (a : Attr) :
    sat U σ r a ↔ satAny U σ done a := by
  unfold finishGet at h
  split at h
  · cases h; simp [satAny]
  · split at h
    · cases h; simp [sat]
    · cases h

theorem satAny_setNth (a : Attr) (v c : C) : ∀ (done : List C) (k : Nat) (x : C), done[k]? = some x →
    (sat U σ v a ↔ sat U σ x a ∨ sat U σ c a) →
    (satAny U σ (setNth done k v) a ↔ satAny U σ done a ∨ sat U σ c a)
  | [], k, x, h, _ => by simp at h
  | d :: done, 0, x, h, hv => by
    simp at h; subst h
    simp only [setNth, satAny, hv]; grind
  | d :: done, k + 1, x, h, hv => by
    simp at h
    simp only [setNth, satAny, satAny_setNth a v c done k x h hv]; grind

def RelaxOK (f : Nat) : Prop := ∀ x y r, relax U f x y = .ok (some r) →
  ∀ σ a, sat U σ r a ↔ (sat U σ x a ∨ sat U σ y a)
def RelaxParamsOK (f : Nat) : Prop := ∀ xs ys seen rs, relaxParams U f xs ys seen = .ok (some rs) →
  ∀ σ as, (seen = true → (satZip U σ rs as ↔ satZip U σ xs as) ∧ (satZip U σ xs as ↔ satZip U σ ys as))
    ∧ (seen = false → (satZip U σ rs as ↔ (satZip U σ xs as ∨ satZip U σ ys as)))
def OrOK (f : Nat) : Prop := ∀ x y r, orC U f x y = .ok r →
  ∀ σ a, sat U σ r a ↔ (sat U σ x a ∨ sat U σ y a)
def TryOK (f : Nat) : Prop := ∀ done c k v, tryMerge U f done c = .ok (some (k, v)) →
  ∃ x, done[k]? = some x ∧ ∀ σ a, sat U σ v a ↔ (sat U σ x a ∨ sat U σ c a)
def LoopOK (f : Nat) : Prop := ∀ done todo r, getLoop U f done todo = .ok r →
  ∀ σ a, sat U σ r a ↔ (satAny U σ done a ∨ satAny U σ todo a)

end

section
variable (U : Univ)

theorem relax_step (f : Nat) (ihR : RelaxOK U f) (ihP : RelaxParamsOK U f) : RelaxOK U (f + 1) := by
  intro x y r h σ a
  cases x with
  | eq b =>
    cases y <;> simp only [relax] at h <;> try (cases h)
    · rename_i c; simp only [setGet_sat, sat]; simp
    · rename_i ws; simp only [setGet_sat, sat]; simp
  | set vs =>
    cases y <;> simp only [relax] at h <;> try (cases h)
    · rename_i c; simp only [setGet_sat, sat]; simp
    · rename_i ws; simp only [setGet_sat, sat]; simp
  | base d =>
    cases y with
    | base e =>
      simp only [relax] at h
      by_cases hde : d = e
      · subst hde; simp at h; cases h; simp
      · simp [hde] at h
    | any => simp only [relax] at h; rw [ihR _ _ _ h σ a]; exact or_comm
    | eq _ => simp only [relax] at h; rw [ihR _ _ _ h σ a]; exact or_comm
    | set _ => simp only [relax] at h; rw [ihR _ _ _ h σ a]; exact or_comm
    | anyOf _ => simp only [relax] at h; rw [ihR _ _ _ h σ a]; exact or_comm
    | allOf _ => simp only [relax] at h; rw [ihR _ _ _ h σ a]; exact or_comm
    | param _ _ => simp only [relax] at h; rw [ihR _ _ _ h σ a]; exact or_comm
    | var _ _ => simp only [relax] at h; rw [ihR _ _ _ h σ a]; exact or_comm
    | msg _ _ => simp only [relax] at h; rw [ihR _ _ _ h σ a]; exact or_comm
    | tvar _ _ => simp only [relax] at h; rw [ihR _ _ _ h σ a]; exact or_comm
    | arrayOf _ _ => simp only [relax] at h; rw [ihR _ _ _ h σ a]; exact or_comm
  | param d ps =>
    cases y <;> simp only [relax] at h <;> try (cases h)
    · rename_i e
      by_cases hde : d = e
      · subst hde; simp at h; cases h; simp only [sat]; grind
      · simp [hde] at h
    · rename_i e qs
      by_cases hde : d = e
      · subst hde
        simp only [beq_self_eq_true, if_true] at h
        cases hp : relaxParams U f ps qs false with
        | error e => simp [hp] at h
        | ok o =>
          cases o with
          | none => simp [hp] at h
          | some ps' =>
            simp only [hp] at h; cases h
            have := (ihP ps qs false ps' hp σ)
            simp only [sat]
            cases a with
            | param ca as => simp only; rw [(this as).2 rfl]; grind
            | data _ _ => simp
            | arr _ _ => simp
      · simp [hde] at h
  | any =>
    simp only [relax] at h
    split at h
    · rename_i hc; cases h; rw [← ceq_sat U σ _ _ hc a]; simp
    · cases h
  | anyOf _ =>
    simp only [relax] at h
    split at h
    · rename_i hc; cases h; rw [← ceq_sat U σ _ _ hc a]; simp
    · cases h
  | allOf _ =>
    simp only [relax] at h
    split at h
    · rename_i hc; cases h; rw [← ceq_sat U σ _ _ hc a]; simp
    · cases h
  | var _ _ =>
    simp only [relax] at h
    split at h
    · rename_i hc; cases h; rw [← ceq_sat U σ _ _ hc a]; simp
    · cases h
  | msg _ _ =>
    simp only [relax] at h
    split at h
    · rename_i hc; cases h; rw [← ceq_sat U σ _ _ hc a]; simp
    · cases h
  | tvar _ _ =>
    simp only [relax] at h
    split at h
    · rename_i hc; cases h; rw [← ceq_sat U σ _ _ hc a]; simp
    · cases h
  | arrayOf _ _ =>
    simp only [relax] at h
    split at h
    · rename_i hc; cases h; rw [← ceq_sat U σ _ _ hc a]; simp
    · cases h


theorem relaxParams_step (f : Nat) (ihP : RelaxParamsOK U f) (ihO : OrOK U f) : RelaxParamsOK U (f + 1) := by
  intro xs ys seen rs h σ as
  cases xs with
  | nil =>
    cases ys with
    | nil => simp only [relaxParams] at h; cases h; simp
    | cons y ys => simp [relaxParams] at h
  | cons x xs =>
    cases ys with
    | nil => simp [relaxParams] at h
    | cons y ys =>
      simp only [relaxParams] at h
      split at h
      · rename_i hc
        cases hp : relaxParams U f xs ys seen with
        | error e => simp [hp] at h
        | ok o =>
          cases o with
          | none => simp [hp] at h
          | some r =>
            simp only [hp] at h; cases h
            cases as with
            | nil => simp [satZip]
            | cons a as =>
              have hxy := ceq_sat U σ x y hc a
              have := ihP xs ys seen r hp σ as
              simp only [satZip]
              constructor
              · intro hs; have := this.1 hs; grind
              · intro hs; have := this.2 hs; grind
      · split at h
        · cases h
        · rename_i hnc hseen
          have hseen' : seen = false := by cases seen <;> simp_all
          subst hseen'
          cases ho : orC U f x y with
          | error e => simp [ho] at h
          | ok xy =>
            simp only [ho] at h
            cases hp : relaxParams U f xs ys true with
            | error e => simp [hp] at h
            | ok o =>
              cases o with
              | none => simp [hp] at h
              | some r =>
                simp only [hp] at h; cases h
                refine ⟨by simp, fun _ => ?_⟩
                cases as with
                | nil => simp [satZip]
                | cons a as =>
                  have h1 := ihO x y xy ho σ a
                  have h2 := (ihP xs ys true r hp σ as).1 rfl
                  simp only [satZip]
                  grind

theorem orC_step (f : Nat) (ihL : LoopOK U f) : OrOK U (f + 1) := by
  intro x y r h σ a
  simp only [orC] at h
  split at h
  · rename_i hc
    cases h
    simp only [Bool.or_eq_true] at hc
    rcases hc with hc | hc
    · rw [isAny_iff] at hc; subst hc; simp [sat]
    · rw [ceq_sat U σ x _ hc a]; simp
  · have := ihL [] [x, y] r h σ a
    simpa [satAny] using this

theorem tryMerge_step (f : Nat) (ihR : RelaxOK U f) (ihT : TryOK U f) : TryOK U (f + 1) := by
  intro done c k v h
  cases done with
  | nil => simp [tryMerge] at h
  | cons c2 rest =>
    simp only [tryMerge] at h
    cases hr : relax U f c2 c with
    | error e => simp [hr] at h
    | ok o =>
      cases o with
      | some v' =>
        simp only [hr] at h; cases h
        exact ⟨c2, by simp, fun σ a => ihR c2 c v hr σ a⟩
      | none =>
        simp only [hr] at h
        cases ht : tryMerge U f rest c with
        | error e => simp [ht] at h
        | ok o2 =>
          cases o2 with
          | none => simp [ht] at h
          | some kv =>
            obtain ⟨k', v'⟩ := kv
            simp only [ht] at h; cases h
            obtain ⟨x, hx1, hx2⟩ := ihT rest c k' v ht
            exact ⟨x, by simpa using hx1, hx2⟩

theorem getLoop_other (f : Nat) (done rest : List C) (c : C) (h1 : c ≠ .any) (h2 : ∀ cs, c ≠ .anyOf cs) :
    getLoop U (f + 1) done (c :: rest) =
      (match tryMerge U f done c with
       | .ok (some (k, v)) => getLoop U f (setNth done k v) rest
       | .ok none => getLoop U f (done ++ [c]) rest
       | .error e => .error e) := by
  cases c <;> first | exact absurd rfl h1 | exact absurd rfl (h2 _) | (simp only [getLoop]; rfl)

theorem getLoop_step (f : Nat) (ihT : TryOK U f) (ihL : LoopOK U f) : LoopOK U (f + 1) := by
  intro done todo r h σ a
  cases todo with
  | nil =>
    simp only [getLoop] at h
    rw [finishGet_sat U σ done r h a]; simp [satAny]
  | cons c rest =>
    by_cases h1 : c = .any
    · subst h1; simp only [getLoop] at h; cases h; simp [sat, satAny]
    · by_cases h2 : ∃ cs, c = .anyOf cs
      · obtain ⟨cs, hcs⟩ := h2; subst hcs
        simp only [getLoop] at h
        rw [ihL done (cs ++ rest) r h σ a, satAny_append]
        simp only [satAny, sat]
      · have h2' : ∀ cs, c ≠ .anyOf cs := fun cs e => h2 ⟨cs, e⟩
        rw [getLoop_other U f done rest c h1 h2'] at h
        cases ht : tryMerge U f done c with
        | error e => simp [ht] at h
        | ok o =>
          cases o with
          | none =>
            simp only [ht] at h
            rw [ihL _ _ r h σ a, satAny_append]
            simp only [satAny]; grind
          | some kv =>
            obtain ⟨k, v⟩ := kv
            simp only [ht] at h
            obtain ⟨x, hx1, hx2⟩ := ihT done c k v ht
            rw [ihL _ _ r h σ a, satAny_setNth U σ a v c done k x hx1 (hx2 σ a)]
            simp only [satAny]; grind

theorem simplify_ok : ∀ f, RelaxOK U f ∧ RelaxParamsOK U f ∧ OrOK U f ∧ TryOK U f ∧ LoopOK U f
  | 0 => by
    refine ⟨?_, ?_, ?_, ?_, ?_⟩
    · intro x y r h; simp [relax] at h
    · intro xs ys seen rs h; simp [relaxParams] at h
    · intro x y r h; simp [orC] at h
    · intro done c k v h; simp [tryMerge] at h
    · intro done todo r h; simp [getLoop] at h
  | f + 1 => by
    obtain ⟨r, p, o, t, l⟩ := simplify_ok f
    exact ⟨relax_step U f r p, relaxParams_step U f p o, orC_step U f l, tryMerge_step U f r t,
      getLoop_step U f t l⟩

/-- `AnyOf.get(*cs)` describes the union of its arguments, for every assignment -/
theorem anyOfGet_sat (cs : List C) (r : C) (h : anyOfGet U cs = .ok r) (σ : Asg) (a : Attr) :
    sat U σ r a ↔ ∃ c ∈ cs, sat U σ c a := by
  have := (simplify_ok U defaultFuel).2.2.2.2 [] cs r h σ a
  rw [this, ← satAny_iff]; simp [satAny]

theorem relax_sat (f : Nat) (x y r : C) (h : relax U f x y = .ok (some r)) (σ : Asg) (a : Attr) :
    sat U σ r a ↔ (sat U σ x a ∨ sat U σ y a) := (simplify_ok U f).1 x y r h σ a

theorem orC_sat (f : Nat) (x y r : C) (h : orC U f x y = .ok r) (σ : Asg) (a : Attr) :
    sat U σ r a ↔ (sat U σ x a ∨ sat U σ y a) := (simplify_ok U f).2.2.1 x y r h σ a

end

theorem satZip_allEq (U : Univ) (σ : Asg) : ∀ (cs : List C) (as : List Attr),
    cs.all (fun c => (isEq c).isSome) = true → (satZip U σ cs as ↔ as = cs.filterMap isEq)
  | [], [], _ => by simp [satZip]
  | [], _ :: _, _ => by simp [satZip]
  | c :: cs, [], h => by
    simp only [List.all_cons, Bool.and_eq_true] at h
    obtain ⟨h1, _⟩ := h
    cases c <;> simp [isEq] at h1
    simp [satZip, isEq]
  | c :: cs, a :: as, h => by
    simp only [List.all_cons, Bool.and_eq_true] at h
    obtain ⟨h1, h2⟩ := h
    cases c <;> simp [isEq] at h1
    rename_i b
    simp only [satZip, sat, List.filterMap_cons, isEq, List.cons.injEq, satZip_allEq U σ cs as h2]

theorem satZip_allAny (U : Univ) (σ : Asg) : ∀ (cs : List C) (as : List Attr),
    cs.all isAny = true → (satZip U σ cs as ↔ as.length = cs.length)
  | [], [], _ => by simp [satZip]
  | [], _ :: _, _ => by simp [satZip]
  | c :: cs, [], _ => by simp [satZip]
  | c :: cs, a :: as, h => by
    simp only [List.all_cons, Bool.and_eq_true] at h
    rw [isAny_iff] at h
    obtain ⟨h1, h2⟩ := h; subst h1
    simp [satZip, sat, satZip_allAny U σ cs as h2]

end Xdsl.Constraint
