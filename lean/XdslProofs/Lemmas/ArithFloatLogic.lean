import XdslModel.ArithFloatLogic
/-!
Laws assumed of the IEEE primitives (`FloatLaws`) and the IEEE-754-2019 §9.6 specification of
`minimum` / `maximum` as predicates on (operands, result).  Core Lean only.
-/
namespace Xdsl.ArithFloatLogic
variable {F : Type}

/-- What is assumed about the float primitives: facts of IEEE-754 comparison (§5.11: four mutually
exclusive relations, NaN unordered, `-0 = +0`) and of the data (one datum per signed zero). -/
structure FloatLaws (O : FloatOps F) : Prop where
  nan_isNaN : O.isNaN O.nan = true
  pzero_spec : O.isNaN O.pzero = false ∧ O.isZero O.pzero = true ∧ O.signBit O.pzero = false
  nzero_spec : O.isNaN O.nzero = false ∧ O.isZero O.nzero = true ∧ O.signBit O.nzero = true
  /-- there are exactly two zeros, told apart by the sign bit -/
  zero_unique : ∀ x, O.isZero x = true → x = if O.signBit x then O.nzero else O.pzero
  /-- zeros compare equal regardless of sign -/
  zero_eq : ∀ x y, O.isZero x = true → O.isZero y = true → O.eq x y = true
  /-- every comparison with a NaN operand is false (unordered) -/
  nan_lt : ∀ x y, (O.isNaN x || O.isNaN y) = true → O.lt x y = false
  nan_eq : ∀ x y, (O.isNaN x || O.isNaN y) = true → O.eq x y = false
  /-- non-NaN values are totally ordered: one of `<`, `=`, `>` holds … -/
  tri : ∀ x y, (O.isNaN x || O.isNaN y) = false → (O.lt x y || O.eq x y || O.lt y x) = true
  /-- … and only one -/
  lt_asymm : ∀ x y, O.lt x y = true → O.lt y x = false
  eq_not_lt : ∀ x y, O.eq x y = true → O.lt x y = false ∧ O.lt y x = false
  le_def : ∀ x y, O.le x y = (O.lt x y || O.eq x y)

/-- the order minimum/maximum use: `<`, refined by `-0` below `+0` -/
def below (O : FloatOps F) (x y : F) : Bool :=
  O.lt x y || (O.isZero x && O.isZero y && O.signBit x && !O.signBit y)

/-- IEEE-754-2019 §9.6 `minimum(a, b) = r`: "x if x < y, y if y < x, and a quiet NaN if either
operand is a NaN; −0 compares less than +0; otherwise it is either x or y". -/
structure IsMinimum (O : FloatOps F) (a b r : F) : Prop where
  nan : (O.isNaN a || O.isNaN b) = true → O.isNaN r = true
  left : (O.isNaN a || O.isNaN b) = false → below O a b = true → r = a
  right : (O.isNaN a || O.isNaN b) = false → below O b a = true → r = b
  tie : (O.isNaN a || O.isNaN b) = false → below O a b = false → below O b a = false → r = a ∨ r = b

/-- IEEE-754-2019 §9.6 `maximum(a, b) = r`. -/
structure IsMaximum (O : FloatOps F) (a b r : F) : Prop where
  nan : (O.isNaN a || O.isNaN b) = true → O.isNaN r = true
  left : (O.isNaN a || O.isNaN b) = false → below O b a = true → r = a
  right : (O.isNaN a || O.isNaN b) = false → below O a b = true → r = b
  tie : (O.isNaN a || O.isNaN b) = false → below O a b = false → below O b a = false → r = a ∨ r = b

/-! ### a small concrete float type satisfying the laws (non-vacuity) -/

/-- NaN, −1, −0, +0, +1 -/
inductive Toy | nan | m1 | nz | pz | p1
deriving DecidableEq, Repr

def Toy.rank : Toy → Int
  | .nan => 0 | .m1 => -1 | .nz => 0 | .pz => 0 | .p1 => 1

def toyOps : FloatOps Toy where
  isNaN := fun x => x == .nan
  eq := fun x y => x != .nan && y != .nan && x.rank == y.rank
  lt := fun x y => x != .nan && y != .nan && decide (x.rank < y.rank)
  le := fun x y => x != .nan && y != .nan && decide (x.rank ≤ y.rank)
  isZero := fun x => x == .nz || x == .pz
  signBit := fun x => x == .nz || x == .m1
  nan := .nan
  pzero := .pz
  nzero := .nz

theorem toyLaws : FloatLaws toyOps where
  nan_isNaN := by decide
  pzero_spec := by decide
  nzero_spec := by decide
  zero_unique := by intro x; cases x <;> decide
  zero_eq := by intro x y; cases x <;> cases y <;> decide
  nan_lt := by intro x y; cases x <;> cases y <;> decide
  nan_eq := by intro x y; cases x <;> cases y <;> decide
  tri := by intro x y; cases x <;> cases y <;> decide
  lt_asymm := by intro x y; cases x <;> cases y <;> decide
  eq_not_lt := by intro x y; cases x <;> cases y <;> decide
  le_def := by intro x y; cases x <;> cases y <;> decide

/-! ### rounding to the result type (`run_addf`, `run_subf`, `run_mulf`) -/

variable {Ty : Type}

/-- What is assumed of the primitives of `_round_to_float_type`, relative to a rounding function
`rne ty x` = "the binary64 value `x` rounded to the nearest value of `ty`, ties to even, beyond the
largest finite value to the infinity of the same sign" (IEEE-754 roundTiesToEven, §4.3.1):
re-packing computes it unless it raises, it raises only where the rounded value is that infinity, and
a type that is not narrower than binary64 holds every Python float. -/
structure RoundLaws (R : RoundOps F Ty) (rne : Ty → F → F) : Prop where
  repack_some : ∀ ty x r, R.narrow ty = true → R.repack ty x = some r → r = rne ty x
  repack_none : ∀ ty x, R.narrow ty = true → R.repack ty x = none → rne ty x = R.copysignInf x
  wide : ∀ ty x, R.narrow ty = false → rne ty x = x

/-- a toy instance (non-vacuity): integers as "floats", the narrow type holds −2..2, larger
magnitudes overflow to ±100 ("infinity") -/
def toyRound : RoundOps Int Bool where
  add := fun a b => a + b
  sub := fun a b => a - b
  mul := fun a b => a * b
  narrow := fun t => t
  repack := fun t x => if t && (x < -2 || 2 < x) then none else some x
  copysignInf := fun x => if x < 0 then -100 else 100

def toyRne (t : Bool) (x : Int) : Int := if t && (x < -2 || 2 < x) then (if x < 0 then -100 else 100) else x

theorem toyRoundLaws : RoundLaws toyRound toyRne where
  repack_some := by
    intro ty x r h1 h2
    cases ty <;> simp [toyRound, toyRne] at * <;> grind
  repack_none := by
    intro ty x h1 h2
    cases ty <;> simp [toyRound, toyRne] at * <;> grind
  wide := by
    intro ty x h
    cases ty <;> simp [toyRound, toyRne] at *

end Xdsl.ArithFloatLogic
