import XdslProofs.Lemmas.RegAllocInv
/-!
C19 helper lemmas, part 4: one operation of the backward walk
(`HasRegisterConstraints.allocate_registers` for operations without in/out pairs).
-/
namespace Xdsl.RegAlloc
open Xdsl.RegMachine

/-- registers are only ever added -/
def Extends (s s' : St) : Prop := ∀ w r, AL.get s.asg w = some r → AL.get s'.asg w = some r

theorem Extends.refl (s : St) : Extends s s := fun _ _ h => h

theorem Extends.trans {s1 s2 s3 : St} (h12 : Extends s1 s2) (h23 : Extends s2 s3) : Extends s1 s3 :=
  fun w r h => h23 w r (h12 w r h)

theorem Extends.allocOf {s s' : St} (h : Extends s s') {w : ValId}
    (hw : (AL.get s.asg w).isSome = true) : allocOf s'.asg w = allocOf s.asg w := by
  have hg := get_of_isSome hw
  exact allocOf_of_get (h w _ hg)

theorem Extends.isSome {s s' : St} (h : Extends s s') {w : ValId}
    (hw : (AL.get s.asg w).isSome = true) : (AL.get s'.asg w).isSome = true := by
  have hg := get_of_isSome hw
  rw [h w _ hg]; rfl

theorem allocValue_extends {c : Cfg} {Zc : List ValId} {s s' : St} {v : ValId}
    (h : allocValue c Zc s v = .ok s') : Extends s s' := by
  rcases allocValue_cases h with ⟨_, hss⟩ | ⟨hnone, r, hasg, _, _⟩
  · rw [hss]; exact Extends.refl s
  · intro w rw hw
    have hwv : w ≠ v := fun e => by rw [e, hnone] at hw; simp at hw
    rw [hasg, AL.get_set, if_neg hwv]; exact hw

theorem foldE_cons {α β : Type} (f : β → α → Except Err β) (s : β) (a : α) (as : List α) :
    foldE f s (a :: as) = match f s a with | .error e => .error e | .ok s' => foldE f s' as := rfl

theorem foldE_append {α β : Type} (f : β → α → Except Err β) (xs ys : List α) :
    ∀ (s s' : β), foldE f s (xs ++ ys) = .ok s' → ∃ s1, foldE f s xs = .ok s1 ∧ foldE f s1 ys = .ok s' := by
  induction xs with
  | nil => intro s s' h; exact ⟨s, rfl, h⟩
  | cons x xs ih =>
    intro s s' h
    simp only [List.cons_append, foldE_cons] at h ⊢
    split at h
    · exact absurd h (by simp)
    · rename_i s2 hs2
      exact ih s2 s' h

/-! ### operands (and returned values): `allocate_value` of values that become live -/

theorem fold_live {c : Cfg} {pre : AL ValId Reg} {A0 : List Reg} {Zc U T : List ValId}
    {Tie : (ValId → Reg) → Prop}
    {a0 : ValId → Reg} (hst : Static c pre A0 U)
    (hext0 : ∀ v r, AL.get pre v = some r → a0 v = r) (hTie0 : Tie a0) (ha0 : PW c.z a0 T) :
    ∀ (vs : List ValId) (s s' : St) (V M : List ValId),
      foldE (allocValue c Zc) s vs = .ok s' → Inv c pre A0 Zc Tie s V M →
      (∀ v ∈ vs, v ∈ U) → (∀ v ∈ vs, v ∈ T) → (∀ w ∈ M, w ∈ T) → (∀ v ∈ vs, v ∈ V → v ∈ M) →
      Inv c pre A0 Zc Tie s' (vs.reverse ++ V) (vs.reverse ++ M) ∧ Extends s s' := by
  intro vs
  induction vs with
  | nil =>
    intro s s' V M h hinv _ _ _ _
    simp only [foldE, Except.ok.injEq] at h
    subst h
    exact ⟨by simpa using hinv, Extends.refl _⟩
  | cons v vs ih =>
    intro s s' V M h hinv hU hT hMT hVM
    rw [foldE_cons] at h
    split at h
    · exact absurd h (by simp)
    · rename_i s1 hs1
      have hinv1 := inv_allocValue_live hst hinv (hU v (List.mem_cons_self ..)) hs1
        (hVM v (List.mem_cons_self ..)) hext0 hTie0 ha0 hMT (hT v (List.mem_cons_self ..))
      have := ih s1 s' (v :: V) (v :: M) h hinv1
        (fun x hx => hU x (List.mem_cons_of_mem _ hx))
        (fun x hx => hT x (List.mem_cons_of_mem _ hx))
        (fun w hw => by
          rcases List.mem_cons.1 hw with rfl | hw
          · exact hT w (List.mem_cons_self ..)
          · exact hMT w hw)
        (fun x hx hxV => by
          rcases List.mem_cons.1 hxV with hxv | hxV
          · exact hxv ▸ List.mem_cons_self ..
          · exact List.mem_cons_of_mem _ (hVM x (List.mem_cons_of_mem _ hx) hxV))
      refine ⟨?_, (allocValue_extends hs1).trans this.2⟩
      have h1 := this.1
      simp only [List.reverse_cons, List.append_assoc, List.singleton_append]
      exact h1

/-! ### `free_value` / `RegisterStack.push` -/

theorem inv_free {c : Cfg} {pre : AL ValId Reg} {A0 : List Reg} {Zc U V L : List ValId}
    {Tie : (ValId → Reg) → Prop} {s : St}
    {d : ValId} (hst : Static c pre A0 U) (hinv : Inv c pre A0 Zc Tie s V L)
    (hd : (AL.get s.asg d).isSome = true)
    (hclash : ∀ w ∈ L, allocOf s.asg w = allocOf s.asg d → (c.z = true ∧ allocOf s.asg d = 0)) :
    Inv c pre A0 Zc Tie (freeValue c s d) V L ∧ (freeValue c s d).asg = s.asg := by
  have hg := get_of_isSome hd
  unfold freeValue
  rw [hg]
  simp only
  unfold push
  split
  · exact ⟨hinv, rfl⟩
  · rename_i hcond
    have hpushed : c.infBase ≤ allocOf s.asg d ∨ allocOf s.asg d ∈ A0 := by
      rw [← hinv.tbl]
      simp only [isInf, Bool.and_eq_true, Bool.not_eq_true', decide_eq_false_iff_not, not_and,
        List.contains_eq_mem] at hcond
      by_cases h1 : c.infBase ≤ allocOf s.asg d
      · exact Or.inl h1
      · right
        have := hcond (by simpa using h1)
        simpa using this
    refine ⟨?_, rfl⟩
    exact { hinv with
      notAvail := fun w hw => by
        simp only [List.mem_cons, List.mem_filter, bne_iff_ne, ne_eq, not_or, not_and, Decidable.not_not]
        refine ⟨?_, fun hm => absurd hm (hinv.notAvail w hw)⟩
        intro heq
        obtain ⟨hz, h0⟩ := hclash w hw heq
        rcases hpushed with h1 | h1
        · have := hst.basePos hz; rw [h0] at h1; omega
        · rw [h0] at h1; exact hst.zeroNotAlloc hz h1
      nodup := by
        refine List.nodup_cons.2 ⟨?_, hinv.nodup.filter _⟩
        simp [List.mem_filter]
      availOk := fun r hr => by
        simp only [List.mem_cons, List.mem_filter] at hr
        rcases hr with rfl | ⟨hr, _⟩
        · rcases hpushed with h1 | h1
          · exact Or.inr ⟨h1, hinv.infFresh d _ hg h1⟩
          · exact Or.inl h1
        · exact hinv.availOk r hr }

theorem fold_free {c : Cfg} {pre : AL ValId Reg} {A0 : List Reg} {Zc U V L : List ValId}
    {Tie : (ValId → Reg) → Prop} (hst : Static c pre A0 U) :
    ∀ (ds : List ValId) (s : St), Inv c pre A0 Zc Tie s V L →
      (∀ d ∈ ds, (AL.get s.asg d).isSome = true) →
      (∀ d ∈ ds, ∀ w ∈ L, allocOf s.asg w = allocOf s.asg d → (c.z = true ∧ allocOf s.asg d = 0)) →
      Inv c pre A0 Zc Tie (ds.foldl (freeValue c) s) V L ∧ (ds.foldl (freeValue c) s).asg = s.asg := by
  intro ds
  induction ds with
  | nil => intro s hinv _ _; exact ⟨hinv, rfl⟩
  | cons d ds ih =>
    intro s hinv hsome hclash
    have hd := List.mem_cons_self (a := d) (l := ds)
    obtain ⟨hinv1, hasg1⟩ := inv_free hst hinv (hsome d hd) (hclash d hd)
    have := ih (freeValue c s d) hinv1
      (fun x hx => by rw [hasg1]; exact hsome x (List.mem_cons_of_mem _ hx))
      (fun x hx w hw => by rw [hasg1]; exact hclash x (List.mem_cons_of_mem _ hx) w hw)
    simp only [List.foldl_cons]
    exact ⟨this.1, this.2.trans hasg1⟩

end Xdsl.RegAlloc

namespace Xdsl.RegAlloc
open Xdsl.RegMachine

/-! ### `allocate_values_same_reg` on one in/out pair -/

theorem allocValue_of_isSome {c : Cfg} {Zc : List ValId} {s : St} {v : ValId}
    (h : (AL.get s.asg v).isSome = true) : allocValue c Zc s v = .ok s := by
  unfold allocValue; simp [h]

theorem sameReg_step {c : Cfg} {pre : AL ValId Reg} {A0 : List Reg} {Zc U : List ValId}
    {Tie : (ValId → Reg) → Prop} {s s1 : St} {V' L' T : List ValId} {i d : ValId}
    {a0 : ValId → Reg}
    (hst : Static c pre A0 U) (hz : c.z = false) (hinv : Inv c pre A0 Zc Tie s V' L')
    (h : sameReg c s i d = .ok s1) (hiU : i ∈ U) (hdU : d ∈ U) (hid : i ≠ d)
    (hforce : ∀ a, Tie a → a i = a d)
    (hext0 : ∀ v r, AL.get pre v = some r → a0 v = r) (hTie0 : Tie a0)
    (ha0 : PW c.z a0 T) (hLT : ∀ w ∈ L', w ∈ T) (hdT : d ∈ T)
    (hVLd : d ∈ V' → d ∈ L') (hVLi : i ∈ V' → i ∈ L') :
    Inv c pre A0 Zc Tie s1 (i :: d :: V') (d :: L') ∧ Extends s s1
    ∧ allocOf s1.asg i = allocOf s1.asg d
    ∧ (AL.get s1.asg i).isSome = true ∧ (AL.get s1.asg d).isSome = true := by
  unfold sameReg at h
  cases hgi : AL.get s.asg i with
  | none =>
    cases hgd : AL.get s.asg d with
    | none =>
      -- both new: pop a register
      rw [hgi, hgd] at h
      simp only at h
      split at h
      · exact absurd h (by simp)
      · rename_i r s' hp
        simp only [Except.ok.injEq] at h
        subst h
        obtain ⟨hasg', htbl', _⟩ := pop_cases hp
        -- the same as `allocate_value d`, then handing the register to `i`
        have hav : allocValue c Zc s d = .ok { s' with asg := AL.set s'.asg d r } := by
          unfold allocValue
          simp [hgd, hz, hp]
        have hinvA := inv_allocValue_live hst hinv hdU hav hVLd hext0 hTie0 ha0 hLT hdT
        have hgiA : AL.get (AL.set s'.asg d r) i = none := by
          rw [AL.get_set, if_neg hid, hasg', hgi]
        have hgdA : AL.get (AL.set s'.asg d r) d = some r := by
          rw [AL.get_set, if_pos rfl]
        have hinvB := inv_set_dead (s := { s' with asg := AL.set s'.asg d r }) hinvA hz hgiA hgdA hforce
        refine ⟨?_, ?_, ?_, ?_, ?_⟩
        · refine hinvB.congr ?_ rfl rfl rfl
          intro v
          simp only [AL.get_set]
          by_cases hvd : v = d
          · subst hvd; simp [Ne.symm hid]
          · simp [hvd]
        · intro w x hw
          have hwi : w ≠ i := fun e => by rw [e, hgi] at hw; simp at hw
          have hwd : w ≠ d := fun e => by rw [e, hgd] at hw; simp at hw
          simp only [AL.get_set, if_neg hwi, if_neg hwd, hasg']
          exact hw
        · simp [allocOf, AL.get_set, hid]
        · simp [AL.get_set, hid]
        · simp [AL.get_set]
    | some r =>
      -- the result already has a register
      rw [hgi, hgd] at h
      simp only [Except.ok.injEq] at h
      subst h
      have hdS : (AL.get s.asg d).isSome = true := by rw [hgd]; rfl
      have hinvA := inv_allocValue_live hst hinv hdU (allocValue_of_isSome hdS) hVLd hext0 hTie0 ha0 hLT hdT
      have hinvB := inv_set_dead hinvA hz hgi hgd hforce
      refine ⟨hinvB, ?_, ?_, ?_, ?_⟩
      · intro w x hw
        have hwi : w ≠ i := fun e => by rw [e, hgi] at hw; simp at hw
        simp only [AL.get_set, if_neg hwi]
        exact hw
      · simp [allocOf, AL.get_set, hgd]
      · simp [AL.get_set]
      · simp [AL.get_set, hgd]
  | some r =>
    cases hgd : AL.get s.asg d with
    | none =>
      rw [hgi, hgd] at h
      simp only [Except.ok.injEq] at h
      subst h
      have hinvA := inv_set_live_from hst hinv hz hgd hgi hiU hVLi hforce hext0 hTie0 ha0 hLT hdT
      have hiS : (AL.get (AL.set s.asg d r) i).isSome = true := by
        rw [AL.get_set, if_neg hid, hgi]; rfl
      refine ⟨hinvA.addV hiS, ?_, ?_, hiS, ?_⟩
      · intro w x hw
        have hwd : w ≠ d := fun e => by rw [e, hgd] at hw; simp at hw
        simp only [AL.get_set, if_neg hwd]
        exact hw
      · simp [allocOf, AL.get_set, hid, hgi]
      · simp [AL.get_set]
    | some r2 =>
      rw [hgi, hgd] at h
      simp only at h
      split at h
      · rename_i heq
        simp only [Except.ok.injEq] at h
        subst h
        subst heq
        have hdS : (AL.get s.asg d).isSome = true := by rw [hgd]; rfl
        have hiS : (AL.get s.asg i).isSome = true := by rw [hgi]; rfl
        have hinvA := inv_allocValue_live hst hinv hdU (allocValue_of_isSome hdS) hVLd hext0 hTie0 ha0 hLT hdT
        exact ⟨hinvA.addV hiS, Extends.refl _, by simp [allocOf, hgi, hgd], hiS, hdS⟩
      · exact absurd h (by simp)

end Xdsl.RegAlloc
