import XdslModel.Skeleton
import XdslProofs.Lemmas.AL
/-!
`walk` returns its input renamed by the (injective) record it keeps.
-/
namespace Xdsl.Skeleton
set_option linter.unusedSimpArgs false

variable {N : Type} [DecidableEq N]

/-- the records only grow -/
structure Frame (gs gs' : GS) : Prop where
  log : ∀ x p, AL.get gs.log x = some p → AL.get gs'.log x = some p
  blog : ∀ x p, AL.get gs.blog x = some p → AL.get gs'.blog x = some p

theorem Frame.refl (gs : GS) : Frame gs gs := ⟨fun _ _ h => h, fun _ _ h => h⟩

theorem Frame.trans {a b c : GS} (h1 : Frame a b) (h2 : Frame b c) : Frame a c :=
  ⟨fun x p h => h2.log x p (h1.log x p h), fun x p h => h2.blog x p (h1.blog x p h)⟩

/-- every table entry is recorded; recorded targets are below the counters and distinct -/
structure Inv (gs : GS) : Prop where
  scope : ∀ v e, AL.get gs.v.scope v = some e → AL.get gs.log v = some e.1
  pend : ∀ v e, AL.get gs.v.pend v = some e → AL.get gs.log v = some e.1
  bdef : ∀ b p, AL.get gs.b.bdef b = some p → AL.get gs.blog b = some p
  bpend : ∀ b p, AL.get gs.b.bpend b = some p → AL.get gs.blog b = some p
  lt : ∀ x p, AL.get gs.log x = some p → p < gs.v.next
  inj : ∀ x y p, AL.get gs.log x = some p → AL.get gs.log y = some p → x = y
  blt : ∀ x p, AL.get gs.blog x = some p → p < gs.b.next
  binj : ∀ x y p, AL.get gs.blog x = some p → AL.get gs.blog y = some p → x = y

theorem inv_init : Inv {} := by
  constructor <;> intros <;> simp_all

theorem tot_of_get (m : AL Nat Nat) (n x p : Nat) (h : AL.get m x = some p) : tot m n x = p := by
  simp [tot, h]

theorem tot_injective (m : AL Nat Nat) (n : Nat) (hlt : ∀ x p, AL.get m x = some p → p < n)
    (hinj : ∀ x y p, AL.get m x = some p → AL.get m y = some p → x = y) :
    Function.Injective (tot m n) := by
  intro x y h
  unfold tot at h
  cases hx : AL.get m x with
  | some p =>
    cases hy : AL.get m y with
    | some q =>
      simp only [hx, hy] at h
      subst h
      exact hinj x y p hx hy
    | none =>
      simp only [hx, hy] at h
      have := hlt x p hx
      omega
  | none =>
    cases hy : AL.get m y with
    | some q =>
      simp only [hx, hy] at h
      have := hlt y q hy
      omega
    | none =>
      simp only [hx, hy] at h
      omega

theorem Inv.vmap_injective {gs : GS} (h : Inv gs) : Function.Injective gs.vmap :=
  tot_injective _ _ h.lt h.inj

theorem Inv.bmap_injective {gs : GS} (h : Inv gs) : Function.Injective gs.bmap :=
  tot_injective _ _ h.blt h.binj

theorem Frame.vmap {gs g : GS} (h : Frame gs g) (x p : Nat) (hx : AL.get gs.log x = some p) :
    g.vmap x = p := tot_of_get _ _ _ _ (h.log x p hx)

theorem Frame.bmap {gs g : GS} (h : Frame gs g) (x p : Nat) (hx : AL.get gs.blog x = some p) :
    g.bmap x = p := tot_of_get _ _ _ _ (h.blog x p hx)

/-! ### single steps -/

theorem isSome_false {α : Type} {o : Option α} (h : o.isSome = false) : o = none := by
  cases o <;> simp_all

/-- a new record entry `(v, n)` with `n` the counter -/
theorem fresh_log (log : AL Nat Nat) (n v : Nat) (hlog : AL.get log v = none)
    (hlt : ∀ x p, AL.get log x = some p → p < n)
    (hinj : ∀ x y p, AL.get log x = some p → AL.get log y = some p → x = y) :
    (∀ x q, AL.get ((v, n) :: log) x = some q → q < n + 1) ∧
    (∀ x y q, AL.get ((v, n) :: log) x = some q → AL.get ((v, n) :: log) y = some q → x = y) ∧
    (∀ x q, AL.get log x = some q → AL.get ((v, n) :: log) x = some q) ∧
    AL.get ((v, n) :: log) v = some n := by
  refine ⟨?_, ?_, ?_, by simp⟩
  · intro x q hx
    simp only [AL.get_cons] at hx
    split at hx
    · cases hx; omega
    · have := hlt x q hx; omega
  · intro x y q hx hy
    simp only [AL.get_cons] at hx hy
    split at hx <;> split at hy
    · rename_i a b; exact a.symm.trans b
    · cases hx; have := hlt y _ hy; omega
    · cases hy; have := hlt x _ hx; omega
    · exact hinj x y q hx hy
  · intro x q hx
    have : ¬ v = x := by intro e; subst e; rw [hlog] at hx; cases hx
    simp only [AL.get_cons, this, if_false]; exact hx

/-- what one value step (`wUse` / `wDef`) guarantees -/
structure VStep (gs gs' : GS) (v p : Nat) : Prop where
  inv : Inv gs'
  frame : Frame gs gs'
  got : AL.get gs'.log v = some p

theorem wUse_step (nv : Nat → N) (gs gs' : GS) (v p : Nat) (ty : Opq) (hi : Inv gs)
    (h : wUse nv gs v ty = some (gs', p)) : VStep gs gs' v p := by
  unfold wUse at h
  split at h
  · simp at h
  · split at h
    · simp at h
    · rename_i _ hk
      unfold VT.use at h
      cases hp : AL.get gs.v.pend v with
      | some e =>
        obtain ⟨q, ty'⟩ := e
        by_cases hty : ty' = ty
        · simp only [hp, hty, VT.known, Option.isSome_some, Bool.true_or, if_true,
            Option.some.injEq, Prod.mk.injEq] at h
          obtain ⟨rfl, rfl⟩ := h
          exact ⟨hi, Frame.refl _, hi.pend v _ hp⟩
        · simp [hp, hty] at h
      | none =>
        cases hs : AL.get gs.v.scope v with
        | some e =>
          obtain ⟨q, ty'⟩ := e
          by_cases hty : ty' = ty
          · simp only [hp, hs, hty, VT.known, Option.isSome_some, Bool.or_true, if_true,
              Option.some.injEq, Prod.mk.injEq] at h
            obtain ⟨rfl, rfl⟩ := h
            exact ⟨hi, Frame.refl _, hi.scope v _ hs⟩
          · simp [hp, hs, hty] at h
        | none =>
          simp only [hp, hs, VT.known, Option.isSome_none, Bool.or_false, Bool.false_eq_true,
            if_false, if_true, Option.some.injEq, Prod.mk.injEq] at h
          obtain ⟨rfl, rfl⟩ := h
          have hlog : AL.get gs.log v = none := by
            simp only [VT.known, hp, hs, Option.isSome_none, Bool.or_false, Bool.not_false,
              Bool.true_and, Bool.not_eq_true] at hk
            exact isSome_false hk
          obtain ⟨f1, f2, f3, f4⟩ := fresh_log gs.log gs.v.next v hlog hi.lt hi.inj
          refine ⟨⟨?_, ?_, hi.bdef, hi.bpend, f1, f2, hi.blt, hi.binj⟩, ⟨f3, fun _ _ h => h⟩, f4⟩
          · intro w e hw
            exact f3 w _ (hi.scope w e hw)
          · intro w e hw
            simp only [AL.get_cons] at hw
            split at hw
            · rename_i hvw; subst hvw; cases hw; exact f4
            · exact f3 w _ (hi.pend w e hw)

theorem wDef_step (nv : Nat → N) (gs gs' : GS) (v p : Nat) (ty : Opq) (hi : Inv gs)
    (h : wDef nv gs v ty = some (gs', p)) : VStep gs gs' v p := by
  unfold wDef at h
  split at h
  · simp at h
  · split at h
    · simp at h
    · rename_i _ hk
      unfold VT.define at h
      cases hs : AL.get gs.v.scope v with
      | some e => simp [hs] at h
      | none =>
        cases hp : AL.get gs.v.pend v with
        | some e =>
          obtain ⟨q, ty'⟩ := e
          by_cases hty : ty' = ty
          · simp only [hp, hs, hty, VT.known, Option.isSome_some, Bool.true_or, if_true,
              Option.some.injEq, Prod.mk.injEq] at h
            obtain ⟨rfl, rfl⟩ := h
            refine ⟨⟨?_, ?_, hi.bdef, hi.bpend, hi.lt, hi.inj, hi.blt, hi.binj⟩,
              ⟨fun _ _ h => h, fun _ _ h => h⟩, hi.pend v _ hp⟩
            · intro w e hw
              simp only [AL.get_cons] at hw
              split at hw
              · rename_i hvw; subst hvw; cases hw; exact hi.pend v (q, ty') hp
              · exact hi.scope w e hw
            · intro w e hw
              simp only [AL.get_del] at hw
              split at hw
              · cases hw
              · exact hi.pend w e hw
          · simp [hp, hs, hty] at h
        | none =>
          simp only [hp, hs, VT.known, Option.isSome_none, Bool.or_false, Bool.false_eq_true,
            if_false, Option.some.injEq, Prod.mk.injEq] at h
          obtain ⟨rfl, rfl⟩ := h
          have hlog : AL.get gs.log v = none := by
            simp only [VT.known, hp, hs, Option.isSome_none, Bool.or_false, Bool.not_false,
              Bool.true_and, Bool.not_eq_true] at hk
            exact isSome_false hk
          obtain ⟨f1, f2, f3, f4⟩ := fresh_log gs.log gs.v.next v hlog hi.lt hi.inj
          refine ⟨⟨?_, ?_, hi.bdef, hi.bpend, f1, f2, hi.blt, hi.binj⟩, ⟨f3, fun _ _ h => h⟩, f4⟩
          · intro w e hw
            simp only [AL.get_cons] at hw
            split at hw
            · rename_i hvw; subst hvw; cases hw; exact f4
            · exact f3 w _ (hi.scope w e hw)
          · intro w e hw
            exact f3 w _ (hi.pend w e hw)

/-- what one block step guarantees -/
structure BStep (gs gs' : GS) (b p : Nat) : Prop where
  inv : Inv gs'
  frame : Frame gs gs'
  got : AL.get gs'.blog b = some p

theorem wRef_step (nb : Nat → N) (gs gs' : GS) (b p : Nat) (hi : Inv gs)
    (h : wRef nb gs b = some (gs', p)) : BStep gs gs' b p := by
  unfold wRef at h
  split at h
  · simp at h
  · split at h
    · simp at h
    · rename_i _ hk
      unfold BT.ref at h
      cases hd : AL.get gs.b.bdef b with
      | some q =>
        simp only [hd, BT.known, Option.isSome_some, Bool.true_or, if_true, Option.some.injEq,
          Prod.mk.injEq] at h
        obtain ⟨rfl, rfl⟩ := h
        exact ⟨hi, Frame.refl _, hi.bdef b _ hd⟩
      | none =>
        cases hp : AL.get gs.b.bpend b with
        | some q =>
          simp only [hd, hp, BT.known, Option.isSome_some, Bool.or_true, if_true,
            Option.some.injEq, Prod.mk.injEq] at h
          obtain ⟨rfl, rfl⟩ := h
          exact ⟨hi, Frame.refl _, hi.bpend b _ hp⟩
        | none =>
          simp only [hd, hp, BT.known, Option.isSome_none, Bool.or_false, Bool.false_eq_true,
            if_false, Option.some.injEq, Prod.mk.injEq] at h
          obtain ⟨rfl, rfl⟩ := h
          have hlog : AL.get gs.blog b = none := by
            simp only [BT.known, hp, hd, Option.isSome_none, Bool.or_false, Bool.not_false,
              Bool.true_and, Bool.not_eq_true] at hk
            exact isSome_false hk
          obtain ⟨f1, f2, f3, f4⟩ := fresh_log gs.blog gs.b.next b hlog hi.blt hi.binj
          refine ⟨⟨hi.scope, hi.pend, ?_, ?_, hi.lt, hi.inj, f1, f2⟩, ⟨fun _ _ h => h, f3⟩, f4⟩
          · intro w e hw
            exact f3 w _ (hi.bdef w e hw)
          · intro w e hw
            simp only [AL.get_cons] at hw
            split at hw
            · rename_i hvw; subst hvw; cases hw; exact f4
            · exact f3 w _ (hi.bpend w e hw)

theorem wBDef_step (nb : Nat → N) (gs gs' : GS) (b p : Nat) (hi : Inv gs)
    (h : wBDef nb gs b = some (gs', p)) : BStep gs gs' b p := by
  unfold wBDef at h
  split at h
  · simp at h
  · split at h
    · simp at h
    · rename_i _ hk
      unfold BT.define at h
      cases hd : AL.get gs.b.bdef b with
      | some q => simp [hd] at h
      | none =>
        cases hp : AL.get gs.b.bpend b with
        | some q =>
          simp only [hd, hp, BT.known, Option.isSome_some, Bool.or_true, if_true,
            Option.some.injEq, Prod.mk.injEq] at h
          obtain ⟨rfl, rfl⟩ := h
          refine ⟨⟨hi.scope, hi.pend, ?_, ?_, hi.lt, hi.inj, hi.blt, hi.binj⟩,
            ⟨fun _ _ h => h, fun _ _ h => h⟩, hi.bpend b _ hp⟩
          · intro w e hw
            simp only [AL.get_cons] at hw
            split at hw
            · rename_i hvw; subst hvw; cases hw; exact hi.bpend b _ hp
            · exact hi.bdef w e hw
          · intro w e hw
            simp only [AL.get_del] at hw
            split at hw
            · cases hw
            · exact hi.bpend w e hw
        | none =>
          simp only [hd, hp, BT.known, Option.isSome_none, Bool.or_false, Bool.false_eq_true,
            if_false, Option.some.injEq, Prod.mk.injEq] at h
          obtain ⟨rfl, rfl⟩ := h
          have hlog : AL.get gs.blog b = none := by
            simp only [BT.known, hp, hd, Option.isSome_none, Bool.or_false, Bool.not_false,
              Bool.true_and, Bool.not_eq_true] at hk
            exact isSome_false hk
          obtain ⟨f1, f2, f3, f4⟩ := fresh_log gs.blog gs.b.next b hlog hi.blt hi.binj
          refine ⟨⟨hi.scope, hi.pend, ?_, ?_, hi.lt, hi.inj, f1, f2⟩, ⟨fun _ _ h => h, f3⟩, f4⟩
          · intro w e hw
            simp only [AL.get_cons] at hw
            split at hw
            · rename_i hvw; subst hvw; cases hw; exact f4
            · exact f3 w _ (hi.bdef w e hw)
          · intro w e hw
            exact f3 w _ (hi.bpend w e hw)

/-! ### lists -/

theorem wUseAll_step (nv : Nat → N) (vs : List Nat) : ∀ (tys : List Opq) (gs gs' : GS)
    (ps : List Nat), Inv gs → wUseAll nv gs vs tys = some (gs', ps) →
    Inv gs' ∧ Frame gs gs' ∧ ∀ g, Frame gs' g → ps = vs.map g.vmap := by
  induction vs with
  | nil =>
    intro tys gs gs' ps hi h
    cases tys with
    | nil => simp only [wUseAll, Option.some.injEq, Prod.mk.injEq] at h
             obtain ⟨rfl, rfl⟩ := h; exact ⟨hi, Frame.refl _, fun _ _ => rfl⟩
    | cons => simp [wUseAll] at h
  | cons v vs ih =>
    intro tys gs gs' ps hi h
    cases tys with
    | nil => simp [wUseAll] at h
    | cons ty tys =>
      simp only [wUseAll] at h
      cases h1 : wUse nv gs v ty with
      | none => simp [h1] at h
      | some r =>
        obtain ⟨g1, p⟩ := r
        simp only [h1] at h
        cases h2 : wUseAll nv g1 vs tys with
        | none => simp [h2] at h
        | some r2 =>
          obtain ⟨g2, ps2⟩ := r2
          simp only [h2, Option.some.injEq, Prod.mk.injEq] at h
          obtain ⟨rfl, rfl⟩ := h
          have s1 := wUse_step nv gs g1 v p ty hi h1
          obtain ⟨i2, f2, e2⟩ := ih tys g1 g2 ps2 s1.inv h2
          refine ⟨i2, s1.frame.trans f2, fun g hg => ?_⟩
          simp only [List.map_cons, (f2.trans hg).vmap v p s1.got, e2 g hg]

theorem wDefAll_step (nv : Nat → N) (vs : List Nat) : ∀ (tys : List Opq) (gs gs' : GS)
    (ps : List Nat), Inv gs → wDefAll nv gs vs tys = some (gs', ps) →
    Inv gs' ∧ Frame gs gs' ∧ ∀ g, Frame gs' g → ps = vs.map g.vmap := by
  induction vs with
  | nil =>
    intro tys gs gs' ps hi h
    cases tys with
    | nil => simp only [wDefAll, Option.some.injEq, Prod.mk.injEq] at h
             obtain ⟨rfl, rfl⟩ := h; exact ⟨hi, Frame.refl _, fun _ _ => rfl⟩
    | cons => simp [wDefAll] at h
  | cons v vs ih =>
    intro tys gs gs' ps hi h
    cases tys with
    | nil => simp [wDefAll] at h
    | cons ty tys =>
      simp only [wDefAll] at h
      cases h1 : wDef nv gs v ty with
      | none => simp [h1] at h
      | some r =>
        obtain ⟨g1, p⟩ := r
        simp only [h1] at h
        cases h2 : wDefAll nv g1 vs tys with
        | none => simp [h2] at h
        | some r2 =>
          obtain ⟨g2, ps2⟩ := r2
          simp only [h2, Option.some.injEq, Prod.mk.injEq] at h
          obtain ⟨rfl, rfl⟩ := h
          have s1 := wDef_step nv gs g1 v p ty hi h1
          obtain ⟨i2, f2, e2⟩ := ih tys g1 g2 ps2 s1.inv h2
          refine ⟨i2, s1.frame.trans f2, fun g hg => ?_⟩
          simp only [List.map_cons, (f2.trans hg).vmap v p s1.got, e2 g hg]

theorem wDefArgs_step (nv : Nat → N) (args : List (Nat × Opq)) : ∀ (gs gs' : GS)
    (ps : List (Nat × Opq)), Inv gs → wDefArgs nv gs args = some (gs', ps) →
    Inv gs' ∧ Frame gs gs' ∧ ∀ g, Frame gs' g → ps = mapArgs g.vmap args := by
  induction args with
  | nil =>
    intro gs gs' ps hi h
    simp only [wDefArgs, Option.some.injEq, Prod.mk.injEq] at h
    obtain ⟨rfl, rfl⟩ := h; exact ⟨hi, Frame.refl _, fun _ _ => rfl⟩
  | cons a args ih =>
    intro gs gs' ps hi h
    obtain ⟨v, ty⟩ := a
    simp only [wDefArgs] at h
    cases h1 : wDef nv gs v ty with
    | none => simp [h1] at h
    | some r =>
      obtain ⟨g1, p⟩ := r
      simp only [h1] at h
      cases h2 : wDefArgs nv g1 args with
      | none => simp [h2] at h
      | some r2 =>
        obtain ⟨g2, ps2⟩ := r2
        simp only [h2, Option.some.injEq, Prod.mk.injEq] at h
        obtain ⟨rfl, rfl⟩ := h
        have s1 := wDef_step nv gs g1 v p ty hi h1
        obtain ⟨i2, f2, e2⟩ := ih g1 g2 ps2 s1.inv h2
        refine ⟨i2, s1.frame.trans f2, fun g hg => ?_⟩
        simp only [mapArgs, List.map_cons, (f2.trans hg).vmap v p s1.got] at e2 ⊢
        rw [e2 g hg]

theorem wRefAll_step (nb : Nat → N) (bs : List Nat) : ∀ (gs gs' : GS) (ps : List Nat),
    Inv gs → wRefAll nb gs bs = some (gs', ps) →
    Inv gs' ∧ Frame gs gs' ∧ ∀ g, Frame gs' g → ps = bs.map g.bmap := by
  induction bs with
  | nil =>
    intro gs gs' ps hi h
    simp only [wRefAll, Option.some.injEq, Prod.mk.injEq] at h
    obtain ⟨rfl, rfl⟩ := h; exact ⟨hi, Frame.refl _, fun _ _ => rfl⟩
  | cons b bs ih =>
    intro gs gs' ps hi h
    simp only [wRefAll] at h
    cases h1 : wRef nb gs b with
    | none => simp [h1] at h
    | some r =>
      obtain ⟨g1, p⟩ := r
      simp only [h1] at h
      cases h2 : wRefAll nb g1 bs with
      | none => simp [h2] at h
      | some r2 =>
        obtain ⟨g2, ps2⟩ := r2
        simp only [h2, Option.some.injEq, Prod.mk.injEq] at h
        obtain ⟨rfl, rfl⟩ := h
        have s1 := wRef_step nb gs g1 b p hi h1
        obtain ⟨i2, f2, e2⟩ := ih g1 g2 ps2 s1.inv h2
        refine ⟨i2, s1.frame.trans f2, fun g hg => ?_⟩
        simp only [List.map_cons, (f2.trans hg).bmap b p s1.got, e2 g hg]

/-! ### the walk -/

theorem walk_iso (nv nb : Nat → N) (t : IR) : ∀ (e : Bool) (gs gs' : GS) (t' : IR), Inv gs →
    walk nv nb e gs t = some (gs', t') →
    Inv gs' ∧ Frame gs gs' ∧ ∀ g, Frame gs' g → t' = mapT g.vmap g.bmap t := by
  induction t with
  | nil =>
    intro e gs gs' t' hi h
    simp only [walk, Option.some.injEq, Prod.mk.injEq] at h
    obtain ⟨rfl, rfl⟩ := h
    exact ⟨hi, Frame.refl _, fun _ _ => rfl⟩
  | op h rs nx ihr ihn =>
    intro e gs gs' t' hi hw
    simp only [walk] at hw
    cases h0 : wRefAll nb gs h.succs with
    | none => simp [h0] at hw
    | some r0 =>
      obtain ⟨g0, succs⟩ := r0
      simp only [h0] at hw
      cases h1 : walk nv nb false g0 rs with
      | none => simp [h1] at hw
      | some r1 =>
        obtain ⟨g1, rs'⟩ := r1
        simp only [h1] at hw
        cases h2 : wUseAll nv g1 h.operands h.inTys with
        | none => simp [h2] at hw
        | some r2 =>
          obtain ⟨g2, opnds⟩ := r2
          simp only [h2] at hw
          cases h3 : wDefAll nv g2 h.results h.outTys with
          | none => simp [h3] at hw
          | some r3 =>
            obtain ⟨g3, results⟩ := r3
            simp only [h3] at hw
            cases h4 : walk nv nb false g3 nx with
            | none => simp [h4] at hw
            | some r4 =>
              obtain ⟨g4, nx'⟩ := r4
              simp only [h4, Option.some.injEq, Prod.mk.injEq] at hw
              obtain ⟨rfl, rfl⟩ := hw
              obtain ⟨i0, f0, e0⟩ := wRefAll_step nb h.succs gs g0 succs hi h0
              obtain ⟨i1, f1, e1⟩ := ihr false g0 g1 rs' i0 h1
              obtain ⟨i2, f2, e2⟩ := wUseAll_step nv h.operands h.inTys g1 g2 opnds i1 h2
              obtain ⟨i3, f3, e3⟩ := wDefAll_step nv h.results h.outTys g2 g3 results i2 h3
              obtain ⟨i4, f4, e4⟩ := ihn false g3 g4 nx' i3 h4
              refine ⟨i4, f0.trans (f1.trans (f2.trans (f3.trans f4))), fun g hg => ?_⟩
              have g3g := f4.trans hg
              have g2g := f3.trans g3g
              have g1g := f2.trans g2g
              have g0g := f1.trans g1g
              simp only [mapT, Hdr.map, ← e0 g g0g, ← e1 g g1g, ← e2 g g2g, ← e3 g g3g, ← e4 g hg]
  | region bs nx ihb ihn =>
    intro e gs gs' t' hi hw
    simp only [walk] at hw
    cases h1 : walk nv nb true { gs with b := { bdef := [], bpend := [], next := gs.b.next } } bs with
    | none => simp [h1] at hw
    | some r1 =>
      obtain ⟨g1, bs'⟩ := r1
      simp only [h1] at hw
      cases he : g1.b.bpend.isEmpty with
      | false => simp [he] at hw
      | true =>
        simp only [he, if_true] at hw
        cases h2 : walk nv nb false
            { g1 with v := { g1.v with scope := gs.v.scope },
                      b := { bdef := gs.b.bdef, bpend := gs.b.bpend, next := g1.b.next } } nx with
        | none => simp [h2] at hw
        | some r2 =>
          obtain ⟨g2, nx'⟩ := r2
          simp only [h2, Option.some.injEq, Prod.mk.injEq] at hw
          obtain ⟨rfl, rfl⟩ := hw
          have ia : Inv { gs with b := { bdef := [], bpend := [], next := gs.b.next } } :=
            ⟨hi.scope, hi.pend, by intro b p h; simp at h, by intro b p h; simp at h,
              hi.lt, hi.inj, hi.blt, hi.binj⟩
          obtain ⟨i1, f1, e1⟩ := ihb true _ g1 bs' ia h1
          have ib := Inv.mk (gs := ⟨⟨gs.v.scope, g1.v.pend, g1.v.next⟩, ⟨gs.b.bdef, gs.b.bpend, g1.b.next⟩, g1.log, g1.blog⟩)
            (fun v e hv => f1.log v _ (hi.scope v e hv)) i1.pend
            (fun b p hb => f1.blog b p (hi.bdef b p hb)) (fun b p hb => f1.blog b p (hi.bpend b p hb))
            i1.lt i1.inj i1.blt i1.binj
          obtain ⟨i2, f2, e2⟩ := ihn false _ g2 nx' ib h2
          have fa : Frame gs g1 := ⟨f1.log, f1.blog⟩
          have fb : Frame g1 g2 := ⟨f2.log, f2.blog⟩
          refine ⟨i2, fa.trans fb, fun g hg => ?_⟩
          simp only [mapT, ← e1 g (fb.trans hg), ← e2 g hg]
  | block b args ops nx iho ihn =>
    intro e gs gs' t' hi hw
    simp only [walk] at hw
    cases hc : (e && !entryLabelled b args ops nx) with
    | true =>
      simp only [hc, if_true] at hw
      cases hbl : (AL.get gs.blog b).isSome with
      | true => simp [hbl] at hw
      | false =>
        simp only [hbl, Bool.false_eq_true, if_false] at hw
        cases h1 : wDefArgs nv { gs with b := { gs.b with next := gs.b.next + 1 },
                                          blog := (b, gs.b.next) :: gs.blog } args with
        | none => simp [h1] at hw
        | some r1 =>
          obtain ⟨g1, args'⟩ := r1
          simp only [h1] at hw
          cases h2 : walk nv nb false g1 ops with
          | none => simp [h2] at hw
          | some r2 =>
            obtain ⟨g2, ops'⟩ := r2
            simp only [h2] at hw
            cases h3 : walk nv nb false g2 nx with
            | none => simp [h3] at hw
            | some r3 =>
              obtain ⟨g3, nx'⟩ := r3
              simp only [h3, Option.some.injEq, Prod.mk.injEq] at hw
              obtain ⟨rfl, rfl⟩ := hw
              obtain ⟨q1, q2, q3, q4⟩ :=
                fresh_log gs.blog gs.b.next b (isSome_false hbl) hi.blt hi.binj
              have ia := Inv.mk (gs := ⟨gs.v, ⟨gs.b.bdef, gs.b.bpend, gs.b.next + 1⟩, gs.log, (b, gs.b.next) :: gs.blog⟩)
                hi.scope hi.pend (fun w p hw => q3 w p (hi.bdef w p hw))
                  (fun w p hw => q3 w p (hi.bpend w p hw)) hi.lt hi.inj q1 q2
              have fa : Frame gs ⟨gs.v, ⟨gs.b.bdef, gs.b.bpend, gs.b.next + 1⟩, gs.log, (b, gs.b.next) :: gs.blog⟩ :=
                ⟨fun _ _ h => h, q3⟩
              obtain ⟨i1, f1, e1⟩ := wDefArgs_step nv args _ g1 args' ia h1
              obtain ⟨i2, f2, e2⟩ := iho false g1 g2 ops' i1 h2
              obtain ⟨i3, f3, e3⟩ := ihn false g2 g3 nx' i2 h3
              refine ⟨i3, fa.trans (f1.trans (f2.trans f3)), fun g hg => ?_⟩
              have g2g := f3.trans hg
              have g1g := f2.trans g2g
              have g0g := f1.trans g1g
              simp only [mapT, ← e1 g g1g, ← e2 g g2g, ← e3 g hg, g0g.bmap b gs.b.next q4]
    | false =>
      simp only [hc, Bool.false_eq_true, if_false] at hw
      cases h0 : wBDef nb gs b with
      | none => simp [h0] at hw
      | some r0 =>
        obtain ⟨g0, id⟩ := r0
        simp only [h0] at hw
        cases h1 : wDefArgs nv g0 args with
        | none => simp [h1] at hw
        | some r1 =>
          obtain ⟨g1, args'⟩ := r1
          simp only [h1] at hw
          cases h2 : walk nv nb false g1 ops with
          | none => simp [h2] at hw
          | some r2 =>
            obtain ⟨g2, ops'⟩ := r2
            simp only [h2] at hw
            cases h3 : walk nv nb false g2 nx with
            | none => simp [h3] at hw
            | some r3 =>
              obtain ⟨g3, nx'⟩ := r3
              simp only [h3, Option.some.injEq, Prod.mk.injEq] at hw
              obtain ⟨rfl, rfl⟩ := hw
              have s0 := wBDef_step nb gs g0 b id hi h0
              obtain ⟨i1, f1, e1⟩ := wDefArgs_step nv args g0 g1 args' s0.inv h1
              obtain ⟨i2, f2, e2⟩ := iho false g1 g2 ops' i1 h2
              obtain ⟨i3, f3, e3⟩ := ihn false g2 g3 nx' i2 h3
              refine ⟨i3, s0.frame.trans (f1.trans (f2.trans f3)), fun g hg => ?_⟩
              have g2g := f3.trans hg
              have g1g := f2.trans g2g
              have g0g := f1.trans g1g
              simp only [mapT, ← e1 g g1g, ← e2 g g2g, ← e3 g hg, g0g.bmap b id s0.got]

end Xdsl.Skeleton
