import XdslProofs.Lemmas.ParallelMovStage2
/-!
Lemmas for C20: the lowering does not get stuck.  On a well-formed parallel move with supported
widths the loops of the model never run out of fuel and never hit a Python `assert`/`KeyError`;
the only possible failure is `Float cyclic move without free register`.
-/
namespace Xdsl.ParallelMov

open Env

variable {n : Nat}

/-! ### small facts -/

theorem emitMv_isOk (st : St) (src : Val) (dst : Reg) {w : Nat} (hw : w = 32 ∨ w = 64) :
    ∃ r, emitMv st src dst w = .ok r := by
  unfold emitMv
  have : ¬ (w ≠ 32 ∧ w ≠ 64) := by omega
  rw [if_neg this]
  exact ⟨_, rfl⟩

/-- supported widths on every operand -/
def WidthsOK (e : Env) : Prop := ∀ m ∈ e.moves, m.w = 32 ∨ m.w = 64

theorem widthOf_ok {e : Env} (hw : WidthsOK e) {s d : Reg} (h : Edge e s d) :
    e.widthOf s = 32 ∨ e.widthOf s = 64 := by
  obtain ⟨m, hm, hs, _⟩ := h
  unfold Env.widthOf
  cases hf : e.moves.reverse.find? (fun m => m.src = s) with
  | none =>
    rw [List.find?_eq_none] at hf
    exact absurd (by simp [hs]) (hf m (List.mem_reverse.mpr hm))
  | some m' =>
    simp only [Option.map_some, Option.getD_some]
    exact hw m' (List.mem_reverse.mp (List.mem_of_find?_eq_some hf))

theorem nodup_subset_length {Q L : List Reg} (hQ : Q.Nodup) (hsub : ∀ q ∈ Q, q ∈ L) :
    Q.length ≤ L.length := by
  induction Q generalizing L with
  | nil => exact Nat.zero_le _
  | cons a t ih =>
    rw [List.nodup_cons] at hQ
    have ha : a ∈ L := hsub a List.mem_cons_self
    have := ih (L := L.erase a) hQ.2 (by
      intro q hq
      have hqa : q ≠ a := fun e => hQ.1 (e ▸ hq)
      exact (List.mem_erase_of_ne hqa).mpr (hsub q (List.mem_cons_of_mem _ hq)))
    rw [List.length_erase_of_mem ha] at this
    have hpos : 0 < L.length := List.length_pos_of_mem ha
    simp only [List.length_cons]
    omega

/-- the measure: number of unprocessed edges -/
theorem unprocessed_length_le (e : Env) (P : List Reg) : (unprocessed e P).length ≤ e.moves.length := by
  unfold unprocessed
  rw [List.length_map]
  exact List.length_filter_le _ _

theorem unprocessed_cons_lt {e : Env} (w : WF e) {P : List Reg} {d : Reg}
    (hd : d ∈ unprocessed e P) : (unprocessed e (d :: P)).length < (unprocessed e P).length := by
  have hnd := unprocessed_nodup w P
  have hsub : ∀ q ∈ d :: unprocessed e (d :: P), q ∈ unprocessed e P := by
    intro q hq
    rcases List.mem_cons.mp hq with rfl | hq
    · exact hd
    · rw [mem_unprocessed] at hq ⊢
      exact ⟨hq.1, fun h => hq.2 (List.mem_cons_of_mem _ h)⟩
  have hnd' : (d :: unprocessed e (d :: P)).Nodup := by
    rw [List.nodup_cons]
    refine ⟨?_, unprocessed_nodup w _⟩
    intro h
    exact (mem_unprocessed.mp h).2 List.mem_cons_self
  have := nodup_subset_length hnd' hsub
  simp only [List.length_cons] at this
  omega

/-! ### tree stage -/

theorem Inv1.advance {e : Env} (w : WF e) {P : List Reg} {c : Cnt} {todo : List Reg} {s d : Reg}
    (inv1 : Inv1 e P c todo (some d)) (hE : Edge e s d) (hd : d ∉ P) (hs : s ∉ P) :
    (∀ s', Cnt.val (AL.set c s (c.val s - 1)) s' = (cnt e (d :: P) s' : Int))
    ∧ (c.val s - 1 ≠ 0 → Inv1 e (d :: P) (AL.set c s (c.val s - 1)) todo none)
    ∧ (c.val s - 1 = 0 → Inv1 e (d :: P) (AL.set c s (c.val s - 1)) todo (some s)
        ∧ s ∉ d :: P ∧ cnt e (d :: P) s = 0) := by
  have hsd : s ≠ d := hE.ne
  have hcount : ∀ s', Cnt.val (AL.set c s (c.val s - 1)) s' = (cnt e (d :: P) s' : Int) := by
    intro s'
    rw [Cnt.val_set]
    have h1 := cnt_add w hE hd s'
    have h2 := inv1.count s'
    split
    · rename_i e1; subst e1
      simp only [if_true] at h1
      omega
    · rename_i e1
      simp only [e1, if_false] at h1
      omega
  have hpend : ∀ x, (∃ s, Edge e s x) → x ∉ d :: P → cnt e (d :: P) x = 0 → x ≠ s →
      (x ∈ todo ∧ e.isLeaf x = true) := by
    intro x hx hxP hx0 hxs
    have hxd : x ≠ d := fun e => hxP (e ▸ List.mem_cons_self)
    have hxP' : x ∉ P := fun h => hxP (List.mem_cons_of_mem _ h)
    have h1 := cnt_add w hE hd x
    simp only [hxs, if_false, Nat.add_zero] at h1
    rcases inv1.pend x hx hxP' (by rw [h1]; exact hx0) with h | h
    · cases h; exact absurd rfl hxd
    · exact h
  refine ⟨hcount, ?_, ?_⟩
  · intro hn
    refine ⟨hcount, ?_⟩
    intro x hx hxP hx0
    by_cases hxs : x = s
    · subst hxs
      have := hcount x
      rw [Cnt.val_set, if_pos rfl, hx0] at this
      exact absurd this hn
    · exact Or.inr (hpend x hx hxP hx0 hxs)
  · intro hn0
    refine ⟨⟨hcount, ?_⟩, ?_, ?_⟩
    · intro x hx hxP hx0
      by_cases hxs : x = s
      · exact Or.inl (by rw [hxs])
      · exact Or.inr (hpend x hx hxP hx0 hxs)
    · intro h
      rcases List.mem_cons.mp h with h | h
      · exact hsd h
      · exact hs h
    · have := hcount s
      rw [Cnt.val_set, if_pos rfl, hn0] at this
      omega

theorem walkUp_isOk {e : Env} (w : WF e) (hw : WidthsOK e) {ρ₀ : RegFile n} {todo : List Reg} :
    ∀ (fuel : Nat) (d : Reg) (st : St) (c : Cnt) (P : List Reg),
      Inv e ρ₀ P st → Inv1 e P c todo (some d) → d ∉ P → cnt e P d = 0 →
      (unprocessed e P).length < fuel →
      ∃ r, walkUp e fuel d st c = .ok r := by
  intro fuel
  induction fuel with
  | zero => intro d st c P _ _ _ _ h; omega
  | succ fuel ih =>
    intro d st c P inv inv1 hd hc hfuel
    unfold walkUp
    cases hp : e.pred d with
    | none => exact ⟨_, rfl⟩
    | some s =>
      have hE : Edge e s d := pred_some_edge hp
      obtain ⟨⟨st1, v⟩, hem⟩ := emitMv_isOk st ⟨.src, s⟩ d (widthOf_ok hw hE)
      simp only [hem]
      obtain ⟨m, hm, hms, hmd, hne, hz⟩ := hE
      obtain ⟨i, ho⟩ := outIdx_isSome hm hmd
      simp only [ho]
      obtain ⟨hres, _⟩ := emitMv_ok hem
      obtain ⟨m0, hm0, hm0d⟩ := outIdx_some ho
      have hm0eq : m0 = m := w.dst_unique (List.mem_of_getElem? hm0) hm (by rw [hm0d, hmd])
        (by rw [hm0d]; exact hz)
      have hnone : ¬ (st1.results.getD i none).isSome = true := by
        rw [hres, inv.res i m0 hm0, hm0eq]
        rintro (h | h | h)
        · exact hne (by rw [← hms, ← hmd, h])
        · exact hz (by rw [← hmd, h])
        · exact hd (by rw [← hmd]; exact h)
      rw [if_neg hnone]
      have hE : Edge e s d := ⟨m, hm, hms, hmd, hne, hz⟩
      have hs : s ∉ P := inv.parent_unprocessed hE hd
      obtain ⟨_, _, hcont⟩ := inv1.advance w hE hd hs
      by_cases hn : c.val s - 1 ≠ 0
      · rw [if_pos hn]; exact ⟨_, rfl⟩
      · rw [if_neg hn]
        have hn0 : c.val s - 1 = 0 := by omega
        obtain ⟨inv1', hs', hc'⟩ := hcont hn0
        have inv' := inv.process w hE hd (cnt_eq_zero_iff.mp hc) hem ho
        have hlt := unprocessed_cons_lt w (mem_unprocessed.mpr ⟨⟨s, hE⟩, hd⟩)
        exact ih s _ _ (d :: P) inv' inv1' hs' hc' (by omega)

theorem stage1_isOk {e : Env} (w : WF e) (hw : WidthsOK e) {ρ₀ : RegFile n} :
    ∀ (todo : List Reg) (st : St) (c : Cnt) (P : List Reg),
      todo.Pairwise (fun a b => a = b → a = Reg.zero) →
      Inv e ρ₀ P st → Inv1 e P c todo none → (∀ x ∈ todo, e.isLeaf x = true → x ∉ P) →
      ∃ r, stage1 e todo st c = .ok r := by
  intro todo
  induction todo with
  | nil => intro st c P _ _ _ _; exact ⟨_, rfl⟩
  | cons d rest ih =>
    intro st c P hpw inv inv1 hfresh
    rw [List.pairwise_cons] at hpw
    unfold stage1
    by_cases hl : e.isLeaf d = true
    · rw [if_pos hl]
      have hd : d ∉ P := hfresh d List.mem_cons_self hl
      have hc : cnt e P d = 0 := cnt_eq_zero_iff.mpr fun x hx => absurd hx (leaf_no_edge hl x)
      have inv1' : Inv1 e P c rest (some d) := by
        refine ⟨inv1.count, ?_⟩
        intro x hx hxP hx0
        rcases inv1.pend x hx hxP hx0 with h | ⟨h, h'⟩
        · cases h
        · rcases List.mem_cons.mp h with h | h
          · exact Or.inl (by rw [h])
          · exact Or.inr ⟨h, h'⟩
      have hfuel : (unprocessed e P).length < e.moves.length + 1 := by
        have := unprocessed_length_le e P; omega
      obtain ⟨⟨st1, c1⟩, hwk⟩ := walkUp_isOk w hw _ d st c P inv inv1' hd hc hfuel
      simp only [hwk]
      obtain ⟨P', i1, i2, i3, i4⟩ := walkUp_inv w _ d st c P st1 c1 inv inv1' hd hc hwk
      refine ih st1 c1 P' hpw.2 i1 i2 ?_
      intro x hx hxl hxP'
      rcases i4 x hxP' with h | h | h
      · exact hfresh x (List.mem_cons_of_mem _ hx) hxl h
      · subst h
        obtain ⟨s, hs⟩ := i1.sub x hxP'
        exact hs.dst_ne_zero (hpw.1 x hx rfl)
      · rw [hxl] at h; cases h
    · rw [if_neg hl]
      refine ih st c P hpw.2 inv ⟨inv1.count, ?_⟩ (fun x hx => hfresh x (List.mem_cons_of_mem _ hx))
      intro x hx hxP hx0
      rcases inv1.pend x hx hxP hx0 with h | ⟨h, h'⟩
      · cases h
      · rcases List.mem_cons.mp h with h | h
        · rw [h] at h'; exact absurd h' hl
        · exact Or.inr ⟨h, h'⟩

theorem stage0_isOk {e : Env} (hw : WidthsOK e) :
    ∀ (l : List (Nat × Move)) (st : St) (c : Cnt), (∀ p ∈ l, p.2 ∈ e.moves) →
      ∃ r, stage0 e l st c = .ok r := by
  intro l
  induction l with
  | nil => intro st c _; exact ⟨_, rfl⟩
  | cons p rest ih =>
    obtain ⟨i, m⟩ := p
    intro st c hl
    have hl' : ∀ p ∈ rest, p.2 ∈ e.moves := fun p hp => hl p (List.mem_cons_of_mem _ hp)
    unfold stage0
    by_cases hself : m.src = m.dst
    · rw [if_pos hself]; exact ih _ _ hl'
    · rw [if_neg hself]
      by_cases hz : m.dst = Reg.zero
      · rw [if_pos hz]
        obtain ⟨⟨st1, v⟩, hem⟩ := emitMv_isOk st ⟨.src, m.src⟩ m.dst (hw m (hl (i, m) List.mem_cons_self))
        simp only [hem]
        exact ih _ _ hl'
      · rw [if_neg hz]; exact ih _ _ hl'

/-! ### cycle stage -/

theorem tempWalk_isOk {e : Env} (w : WF e) (hw : WidthsOK e) {ρ₀ : RegFile n} {P : List Reg}
    (i2 : Inv2 e P) (hclosed : ∀ d ∈ P, ∀ x, Edge e d x → x ∈ P) {s d temp : Reg}
    (htf : temp ∈ e.free) :
    ∀ (fuel : Nat) (x : Reg) (Q : List Reg) (st : St),
      TW e ρ₀ P s d temp Q x st → Q.Nodup → e.moves.length < fuel + Q.length →
      ∃ st', tempWalk e d fuel x st = .ok st' := by
  intro fuel
  induction fuel with
  | zero =>
    intro x Q st tw hQ hfuel
    -- `x :: Q` is a duplicate-free list of unprocessed registers: it cannot be that long
    exfalso
    have hnd : (x :: Q).Nodup := List.nodup_cons.mpr ⟨tw.hx.2.1, hQ⟩
    have hsub : ∀ q ∈ x :: Q, q ∈ unprocessed e P := by
      intro q hq
      rcases List.mem_cons.mp hq with rfl | hq
      · exact mem_unprocessed.mpr ⟨tw.hx.2.2, tw.hx.1⟩
      · exact mem_unprocessed.mpr ⟨(tw.hQ q hq).2.2, (tw.hQ q hq).1⟩
    have h1 := nodup_subset_length hnd hsub
    have h2 := unprocessed_length_le e P
    simp only [List.length_cons] at h1
    omega
  | succ fuel ih =>
    intro x Q st tw hQ hfuel
    unfold tempWalk
    by_cases hxd : x = d
    · rw [if_pos hxd]; exact ⟨_, rfl⟩
    · rw [if_neg hxd]
      obtain ⟨hxP, hxQ, p, hE⟩ := tw.hx
      have hp := edge_pred w hE
      simp only [hp]
      obtain ⟨⟨st1, v⟩, hem⟩ := emitMv_isOk st ⟨.src, p⟩ x (widthOf_ok hw hE)
      simp only [hem]
      obtain ⟨m, hm, _, hmd, _, _⟩ := hE
      obtain ⟨i, ho⟩ := outIdx_isSome hm hmd
      simp only [ho]
      refine ih p (x :: Q) _ (tw.step w i2 hclosed htf hxd hp hem ho)
        (List.nodup_cons.mpr ⟨hxQ, hQ⟩) ?_
      simp only [List.length_cons]
      omega

theorem xorChain_isOk {e : Env} (w : WF e) {ρ₀ : RegFile n} {P : List Reg} (i2 : Inv2 e P)
    (hclosed : ∀ d ∈ P, ∀ x, Edge e d x → x ∈ P) {s : Reg} :
    ∀ (fuel : Nat) (out inp : Val) (Q : List Reg) (st : St),
      XW e ρ₀ P s Q out.reg inp.reg st → Q.Nodup → e.moves.length < fuel + Q.length →
      ∃ st', xorChain e s fuel out inp st = .ok st' := by
  intro fuel
  induction fuel with
  | zero =>
    intro out inp Q st xw hQ hfuel
    exfalso
    have hnd : (out.reg :: Q).Nodup := List.nodup_cons.mpr ⟨xw.hout.2.1, hQ⟩
    have hsub : ∀ q ∈ out.reg :: Q, q ∈ unprocessed e P := by
      intro q hq
      rcases List.mem_cons.mp hq with rfl | hq
      · exact mem_unprocessed.mpr ⟨⟨_, xw.hout.2.2⟩, xw.hout.1⟩
      · exact mem_unprocessed.mpr ⟨(xw.hQ q hq).2, (xw.hQ q hq).1⟩
    have h1 := nodup_subset_length hnd hsub
    have h2 := unprocessed_length_le e P
    simp only [List.length_cons] at h1
    omega
  | succ fuel ih =>
    intro out inp Q st xw hQ hfuel
    unfold xorChain
    obtain ⟨hoP, hoQ, hE⟩ := xw.hout
    obtain ⟨m, hm, _, hmd, _, _⟩ := id hE
    obtain ⟨i, ho⟩ := outIdx_isSome hm hmd
    by_cases hstart : inp.reg = s
    · rw [if_pos hstart]
      simp only [ho]
      exact ⟨_, rfl⟩
    · rw [if_neg hstart]
      simp only [emitSwap, ho]
      obtain ⟨p, hEp⟩ := i2.par _ _ hoP hE
      have hp := edge_pred w hEp
      simp only [hp]
      refine ih ⟨.op (st.ops.length + 2), inp.reg⟩ ⟨.src, p⟩ (out.reg :: Q) _
        (xw.step w i2 hclosed hstart ho hp) (List.nodup_cons.mpr ⟨hoQ, hQ⟩) ?_
      simp only [List.length_cons]
      omega

theorem XW.init {e : Env} (w : WF e) {ρ₀ : RegFile n} {P : List Reg} {st : St}
    (inv : Inv e ρ₀ P st) {s d p : Reg} (hE : Edge e s d) (hdP : d ∉ P) (hp : e.pred s = some p) :
    XW e ρ₀ P s [] s p st := by
  have hsP : s ∉ P := inv.parent_unprocessed hE hdP
  refine ⟨⟨hsP, by simp, pred_some_edge hp⟩, inv.keep _ hsP (hE.src_not_free w), ?_, ?_, inv.done,
    ?_, ?_, inv.len, ?_⟩
  · intro q hq; simp at hq
  · intro q hq; simp at hq
  · intro r hrP _ _ hrf; exact inv.keep r hrP hrf
  · intro q hq hqs
    rcases hq with hq | hq
    · simp at hq
    · exact absurd hq hqs
  · intro j m' hm'
    rw [inv.res j m' hm']
    simp

theorem TW.init {e : Env} (w : WF e) {ρ₀ : RegFile n} {P : List Reg} {st st1 : St}
    (inv : Inv e ρ₀ P st) (i2 : Inv2 e P) {s d temp : Reg} (hE : Edge e s d) (hdP : d ∉ P)
    (htf : temp ∈ e.free) {tv : Val} {wd : Nat}
    (hem : emitMv st ⟨.src, s⟩ temp wd = .ok (st1, tv)) :
    TW e ρ₀ P s d temp [] s st1 ∧ tv.reg = temp := by
  have hsP : s ∉ P := inv.parent_unprocessed hE hdP
  have htz : temp ≠ Reg.zero := (w.freeOk temp htf).1
  obtain ⟨hres, ins, hops, hmv⟩ := emitMv_ok hem
  have htv : tv.reg = temp := by
    unfold emitMv at hem
    split at hem
    · cases hem
    · simp only [Except.ok.injEq, Prod.mk.injEq] at hem
      rw [← hem.2]
  have hex : exec st1.ops ρ₀ = wr (exec st.ops ρ₀) temp (rd ρ₀ s) := by
    rw [hops, exec_emit hmv, inv.keep _ hsP (hE.src_not_free w)]
  refine ⟨⟨⟨hsP, by simp, i2.par _ _ hdP hE⟩, ?_, ?_, ?_, ?_, ?_, ?_, ?_, ?_⟩, htv⟩
  · intro q hq; simp at hq
  · intro q hq; simp at hq
  · rw [hex, rd_wr_same _ htz]
  · intro r hr p hp
    rw [hex]
    have : r ≠ temp := fun e => hp.dst_not_free w (e ▸ htf)
    rw [rd_wr_ne _ this]
    exact inv.done r hr p hp
  · intro r hrP _ hrf
    rw [hex]
    have : r ≠ temp := fun e => hrf (e ▸ htf)
    rw [rd_wr_ne _ this]
    exact inv.keep r hrP hrf
  · intro y hy p hp hor
    rcases hor with hq | rfl
    · simp at hq
    · exact Or.inr (i2.inj y d _ hy hdP hp hE)
  · rw [hres]; exact inv.len
  · intro j m' hm'
    rw [hres, inv.res j m' hm']
    simp

/-- The cycle stage either succeeds or stops at a float register that is still unprocessed while
no float register is designated free. -/
theorem stage2_total {e : Env} (w : WF e) (hw : WidthsOK e) {ρ₀ : RegFile n} :
    ∀ (l : List (Nat × Move)) (st : St) (P : List Reg),
      (∀ p ∈ l, e.moves[p.1]? = some p.2) → Inv e ρ₀ P st → Inv2 e P →
      (∃ st', stage2 e l st = .ok st') ∨
      (stage2 e l st = .error .floatCycle ∧ e.freeOf .flt = [] ∧
        ∃ P', Inv2 e P' ∧ (∀ d ∈ P', ∀ x, Edge e d x → x ∈ P') ∧
          ∃ d, d.kind = .flt ∧ d ∈ unprocessed e P') := by
  intro l
  induction l with
  | nil => intro st P _ _ _; exact Or.inl ⟨_, rfl⟩
  | cons hd rest ih =>
    obtain ⟨i, m⟩ := hd
    intro st P hl inv i2
    have hm : e.moves[i]? = some m := hl (i, m) List.mem_cons_self
    have hl' : ∀ p ∈ rest, e.moves[p.1]? = some p.2 := fun p hp => hl p (List.mem_cons_of_mem _ hp)
    unfold stage2
    by_cases hsome : (st.results.getD i none).isSome = true
    · rw [if_pos hsome]; exact ih st P hl' inv i2
    · rw [if_neg hsome]
      have hnot : ¬ (m.src = m.dst ∨ m.dst = Reg.zero ∨ m.dst ∈ P) :=
        fun hc => hsome ((inv.res i m hm).mpr hc)
      have hself : m.src ≠ m.dst := fun e => hnot (Or.inl e)
      have hz : m.dst ≠ Reg.zero := fun e => hnot (Or.inr (Or.inl e))
      have hdP : m.dst ∉ P := fun e => hnot (Or.inr (Or.inr e))
      have hmem : m ∈ e.moves := List.mem_of_getElem? hm
      have hE : Edge e m.src m.dst := ⟨m, hmem, rfl, rfl, hself, hz⟩
      cases hfree : e.freeOf m.dst.kind with
      | nil =>
        simp only
        by_cases hk : m.dst.kind ≠ Kind.int
        · rw [if_pos hk]
          have hflt : m.dst.kind = .flt := by
            cases hkk : m.dst.kind with
            | int => exact absurd hkk hk
            | flt => rfl
          refine Or.inr ⟨rfl, by rw [← hflt]; exact hfree, P, i2, inv.closed, m.dst, hflt, ?_⟩
          exact mem_unprocessed.mpr ⟨⟨_, hE⟩, hdP⟩
        · rw [if_neg hk]
          obtain ⟨p, hEp⟩ := i2.par _ _ hdP hE
          have hp := edge_pred w hEp
          simp only [hp]
          have xw := XW.init w inv hE hdP hp
          obtain ⟨st1, hx⟩ := xorChain_isOk w i2 inv.closed (e.moves.length + 1)
            ⟨.src, m.src⟩ ⟨.src, p⟩ [] st xw List.nodup_nil (by simp)
          simp only [hx]
          obtain ⟨P1, inv1, hsub1, _, _⟩ := xorChain_inv w i2 inv.sub inv.closed _ _ _ [] st st1 xw hx
          exact ih st1 P1 hl' inv1 (i2.mono hsub1)
      | cons temp tl =>
        simp only
        have htf : temp ∈ e.free := by
          have : temp ∈ e.freeOf m.dst.kind := by rw [hfree]; exact List.mem_cons_self
          exact (List.mem_filter.mp this).1
        obtain ⟨⟨st1, tv⟩, hem⟩ := emitMv_isOk st ⟨.src, m.src⟩ temp (hw m hmem)
        simp only [hem]
        obtain ⟨tw, htv⟩ := TW.init w inv i2 hE hdP htf hem
        obtain ⟨st2, htw⟩ := tempWalk_isOk w hw i2 inv.closed htf (e.moves.length + 1) m.src [] st1 tw
          List.nodup_nil (by simp)
        simp only [htw]
        obtain ⟨Q', tw'⟩ := tempWalk_inv w i2 inv.closed htf _ _ _ st1 st2 tw htw
        obtain ⟨⟨st3, v⟩, hem2⟩ := emitMv_isOk st2 tv m.dst (hw m hmem)
        simp only [hem2]
        have inv3 := tw'.finish w inv.sub inv.closed htf hE htv hem2 hm rfl
        refine ih _ _ hl' inv3 (i2.mono ?_)
        intro x hx
        exact List.mem_cons_of_mem _ (List.mem_append_right _ hx)

end Xdsl.ParallelMov
