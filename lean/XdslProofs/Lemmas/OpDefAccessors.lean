import XdslProofs.Lemmas.OpDef
/-!
Each accessor family returns the declared segment (`segAt`) on lists that have a valid segmentation.
-/
namespace Xdsl.OpDef

/-- same-size accessors (`SameVariadic…Size`, at least one variadic definition) -/
theorem accSame_spec {α : Type} (defs : List Seg) (xs : List α) (k : Nat)
    (hk : KindsOk defs (mkSizes k defs)) (hv : 0 < numVariadic defs)
    (hs : numSingle defs + numVariadic defs * k = xs.length) (i : Nat) (hi : i < defs.length) :
    accSame defs xs i = .ok (segAt (mkSizes k defs) xs i) := by
  have hlen := single_add_variadic defs
  have hct := count_take defs i (by omega)
  have hpre := prefixSum_mkSizes k defs i
  have hle := prefix_add_le (mkSizes k defs) i (by simpa using hi)
  rw [sum_mkSizes, hs, getD_mkSizes k defs i hi] at hle
  -- the quotient computed by the accessors
  have hdiff : ((xs.length : Int) - (defs.length : Int)) / (numVariadic defs : Int) = (k : Int) - 1 := by
    have : (xs.length : Int) - (defs.length : Int) = (numVariadic defs : Int) * ((k : Int) - 1) := by
      rw [← hs, ← hlen]; push_cast; ring
    rw [this, Int.mul_ediv_cancel_left _ (by omega)]
  have hstart : (i : Int) + (numVariadic (List.take i defs) : Int) * ((k : Int) - 1)
      = ((prefixSum (mkSizes k defs) i : Nat) : Int) := by
    rw [hpre]
    have : (numVariadic (List.take i defs) : Int) * ((k : Int) - 1)
        = (numVariadic (List.take i defs) : Int) * k - numVariadic (List.take i defs) := by ring
    rw [this]; push_cast; omega
  unfold accSame
  simp only [hdiff, hstart]
  rw [List.getElem?_eq_getElem hi]
  unfold segAt
  rw [getD_mkSizes k defs i hi]
  cases hd : defs[i] with
  | single =>
    simp only [hd, Seg.isVariadic, Bool.false_eq_true, if_false] at hle ⊢
    exact pyIndex_nat xs _ _ rfl (by omega)
  | variadic =>
    simp only [hd, Seg.isVariadic, if_true] at hle ⊢
    congr 1
    exact pySlice_nat xs _ _ _ k rfl (by omega) hle
  | optional =>
    simp only [hd, Seg.isVariadic, if_true] at hle ⊢
    have hk1 := optional_le_one k defs hk (getElem_optional_any defs i hi hd)
    have : k = 0 ∨ k = 1 := by omega
    rcases this with rfl | rfl
    · have : ¬ xs.length = defs.length := by omega
      simp [this]
    · have hn : xs.length = defs.length := by omega
      simp only [hn, if_true]
      have hp : prefixSum (mkSizes 1 defs) i = i := by rw [hpre]; omega
      rw [hp]
      exact pyIndex_nat xs _ _ rfl (by omega)

/-- default accessors (at most one variable segment) -/
theorem accDefault_spec {α : Type} (defs : List Seg) (xs : List α) (k : Nat)
    (hk : KindsOk defs (mkSizes k defs)) (hv : numVariadic defs ≤ 1)
    (hs : numSingle defs + numVariadic defs * k = xs.length) (i : Nat) (hi : i < defs.length) :
    accDefault defs xs i = .ok (segAt (mkSizes k defs) xs i) := by
  have hlen := single_add_variadic defs
  have hct := count_take defs i (by omega)
  have hpre := prefixSum_mkSizes k defs i
  have hle := prefix_add_le (mkSizes k defs) i (by simpa using hi)
  have henc := numVariadic_take_le defs i
  rw [sum_mkSizes, hs, getD_mkSizes k defs i hi] at hle
  -- splitting defs at i: the i-th definition is counted in defs but not in the prefix
  have hsplit : numVariadic defs = numVariadic (defs.take i) + numVariadic (defs.drop i) := by
    have := List.countP_append (p := Seg.isVariadic) (l₁ := defs.take i) (l₂ := defs.drop i)
    rw [List.take_append_drop] at this
    exact this
  have hdrop : numVariadic (defs.drop i) = numVariadic (defs.drop (i + 1)) + (if defs[i].isVariadic then 1 else 0) := by
    rw [List.drop_eq_getElem_cons hi, numVariadic_cons]
  unfold accDefault
  rw [List.getElem?_eq_getElem hi]
  unfold segAt
  rw [getD_mkSizes k defs i hi]
  cases hd : defs[i] with
  | single =>
    simp only [hd, Seg.isVariadic, Bool.false_eq_true, if_false] at hle hdrop ⊢
    by_cases h0 : numVariadic (List.take i defs) = 0
    · simp only [h0, if_true]
      have hp : prefixSum (mkSizes k defs) i = i := by rw [hpre, h0]; omega
      rw [hp]
      exact pyIndex_nat xs _ _ rfl (by omega)
    · simp only [h0, if_false]
      have h1 : numVariadic (List.take i defs) = 1 := by omega
      have hnv : numVariadic defs = 1 := by omega
      rw [hnv] at hs
      have hp : prefixSum (mkSizes k defs) i = i - 1 + k := by rw [hpre, h1]; omega
      rw [hp] at hle ⊢
      exact pyIndex_neg xs _ _ (by omega) (by omega) (by omega)
  | variadic =>
    simp only [hd, Seg.isVariadic, if_true] at hle hdrop ⊢
    have h0 : numVariadic (List.take i defs) = 0 := by omega
    have hnv : numVariadic defs = 1 := by omega
    rw [hnv] at hs
    have hp : prefixSum (mkSizes k defs) i = i := by rw [hpre, h0]; omega
    rw [hp] at hle ⊢
    congr 1
    exact pySlice_nat xs _ _ _ k rfl (by omega) hle
  | optional =>
    simp only [hd, Seg.isVariadic, if_true] at hle hdrop ⊢
    have h0 : numVariadic (List.take i defs) = 0 := by omega
    have hnv : numVariadic defs = 1 := by omega
    rw [hnv] at hs
    have hp : prefixSum (mkSizes k defs) i = i := by rw [hpre, h0]; omega
    rw [hp] at hle ⊢
    have hk1 := optional_le_one k defs hk (getElem_optional_any defs i hi hd)
    have : k = 0 ∨ k = 1 := by omega
    rcases this with rfl | rfl
    · have : ¬ xs.length = defs.length := by omega
      simp [this]
    · have hn : xs.length = defs.length := by omega
      simp only [hn, if_true]
      exact pyIndex_nat xs _ _ rfl (by omega)

/-- attribute-sized accessors -/
theorem accAttr_spec {α : Type} (defs : List Seg) (xs : List α) (sizes : List Nat)
    (hk : KindsOk defs sizes) (hs : sizes.sum = xs.length) (i : Nat) (hi : i < defs.length) :
    accAttr defs (sizes.map Int.ofNat) xs i = .ok (segAt sizes xs i) := by
  have hl := hk.length_eq
  have hle := prefix_add_le sizes i (by omega)
  rw [hs] at hle
  have hstart : ((sizes.map Int.ofNat).take i).sum = ((prefixSum sizes i : Nat) : Int) := by
    rw [← List.map_take, sum_map_ofNat]; rfl
  have hget : (sizes.map Int.ofNat)[i]? = some ((sizes.getD i 0 : Nat) : Int) := by
    simp [List.getD, List.getElem?_eq_getElem (show i < sizes.length by omega)]
  -- the i-th size matches the i-th kind
  have hkind : kindOk defs[i] (sizes.getD i 0) := by
    clear hle hstart hget hs
    induction defs generalizing sizes i with
    | nil => simp at hi
    | cons d ds ih =>
      cases sizes with
      | nil => exact hk.elim
      | cons s ss =>
        cases i with
        | zero => simpa using hk.1
        | succ j =>
          simpa using ih ss hk.2 j (by simpa using hi) (by simpa using hl)
  unfold accAttr
  simp only [hstart, hget]
  rw [List.getElem?_eq_getElem hi]
  unfold segAt
  generalize sizes.getD i 0 = sz at hle hkind ⊢
  cases hd : defs[i] with
  | single =>
    rw [hd] at hkind
    simp only [kindOk] at hkind
    simp only [hkind] at hle ⊢
    exact pyIndex_nat xs _ _ rfl (by omega)
  | variadic =>
    simp only
    congr 1
    exact pySlice_nat xs _ _ _ _ rfl rfl hle
  | optional =>
    rw [hd] at hkind
    simp only [kindOk] at hkind
    simp only
    have : sz = 0 ∨ sz = 1 := by omega
    rcases this with rfl | rfl
    · simp
    · simp only [Nat.cast_one, ne_eq, one_ne_zero, not_false_eq_true, if_true]
      exact pyIndex_nat xs _ _ rfl (by omega)

end Xdsl.OpDef
