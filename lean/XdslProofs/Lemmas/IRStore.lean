import XdslProofs.Lemmas.DLL
import XdslModel.IRApi
/-!
# Lemmas for the IR store model (`XdslModel/IRStore.lean`, `XdslModel/IRApi.lean`) — C01

* `InvA s a`: the consistency invariant of the store `s` relative to the abstract state `a`
  (the four families of lists the intrusive pointers represent);
* frame lemmas and, per API method, an inversion lemma (what a successful call did) and the
  preservation of the invariant.
-/
namespace Xdsl.IR
open Xdsl Xdsl.DLL

/-! ### `Except` -/
section ExceptLemmas
variable {ε α β : Type}

@[simp] theorem bind_eq_ok_iff {x : Except ε α} {f : α → Except ε β} {b : β} :
    (x >>= f) = .ok b ↔ ∃ a, x = .ok a ∧ f a = .ok b := by
  cases x <;> simp [bind, Except.bind]

@[simp] theorem pure_eq_ok_iff {a b : α} : (pure a : Except ε α) = .ok b ↔ a = b := by
  simp [pure, Except.pure]

@[simp] theorem throw_ne_ok {e : ε} {b : α} : (throw e : Except ε α) = .ok b ↔ False := by
  simp [throw, throwThe, MonadExceptOf.throw]

@[simp] theorem error_ne_ok {e : ε} {b : α} : (Except.error e : Except ε α) = .ok b ↔ False := by simp

/-- a fold of a fallible step that succeeds: an invariant of the step carries over -/
theorem foldlM_ok_inv {σ : Type} (P : σ → Prop) (f : σ → α → Except ε σ) (l : List α)
    (step : ∀ s x s', x ∈ l → P s → f s x = .ok s' → P s') :
    ∀ s s', P s → l.foldlM f s = .ok s' → P s' := by
  induction l with
  | nil => intro s s' hp h; simp [List.foldlM] at h; exact h ▸ hp
  | cons x r ih =>
    intro s s' hp h
    simp only [List.foldlM, bind_eq_ok_iff] at h
    obtain ⟨s1, h1, h2⟩ := h
    exact ih (fun s x s' hx => step s x s' (List.mem_cons_of_mem _ hx)) s1 s'
      (step s x s1 List.mem_cons_self hp h1) h2

end ExceptLemmas

/-! ### the invariant -/

/-- the lists represented by the four families of intrusive pointers -/
structure Abs where
  ops : Nat → List Nat
  blocks : Nat → List Nat
  vuses : Nat → List Nat
  buses : Nat → List Nat

/-- use lists `f` (of values or of blocks) hold exactly the positions `pos` of all operations;
`uid` are the `Use` objects of those positions -/
structure UseInv (s : IRStore) (pos uid : OpData → List Nat) (f : Nat → List Nat) : Prop where
  len : ∀ o d, AL.get s.ops o = some d → (uid d).length = (pos d).length
  fwd : ∀ o d i u v, AL.get s.ops o = some d → (uid d)[i]? = some u → (pos d)[i]? = some v →
    s.use! u = (o, i) ∧ u ∈ f v
  bwd : ∀ v u, u ∈ f v → ∃ d, AL.get s.ops (s.use! u).1 = some d ∧
    (uid d)[(s.use! u).2]? = some u ∧ (pos d)[(s.use! u).2]? = some v
  lt : ∀ v u, u ∈ f v → u < s.nextUse

def regO (s : IRStore) (o : Nat) : Prop := (AL.get s.ops o).isSome
def regB (s : IRStore) (b : Nat) : Prop := (AL.get s.blocks b).isSome
def regR (s : IRStore) (r : Nat) : Prop := (AL.get s.regions r).isSome

structure InvA (s : IRStore) (a : Abs) : Prop where
  opL : WF s.opL a.ops
  blockL : WF s.blockL a.blocks
  vuseL : WF s.vuseL a.vuses
  buseL : WF s.buseL a.buses
  operandUses : UseInv s (·.operands) (·.operandUses) a.vuses
  successorUses : UseInv s (·.successors) (·.successorUses) a.buses
  results : ∀ o d i v, AL.get s.ops o = some d → d.results[i]? = some v →
    AL.get s.vals v = some { kind := .result, owner := o, index := i }
  args : ∀ b d i v, AL.get s.blocks b = some d → d.args[i]? = some v →
    AL.get s.vals v = some { kind := .arg, owner := b, index := i }
  regions : ∀ o d, AL.get s.ops o = some d → d.regions.Nodup ∧ ∀ r ∈ d.regions, s.regionParent r = some o
  regionParent : ∀ r o, s.regionParent r = some o → ∃ d, AL.get s.ops o = some d ∧ r ∈ d.regions
  regOps : ∀ b o, o ∈ a.ops b → regO s o ∧ regB s b
  regBlocks : ∀ r b, b ∈ a.blocks r → regB s b ∧ regR s r

/-- the consistency invariant of C01 -/
def Inv (s : IRStore) : Prop := ∃ a, InvA s a

theorem invA_empty : InvA {} ⟨fun _ => [], fun _ => [], fun _ => [], fun _ => []⟩ where
  opL := wf_empty
  blockL := wf_empty
  vuseL := wf_empty
  buseL := wf_empty
  operandUses := ⟨by simp [AL.get], by simp [AL.get], by simp, by simp⟩
  successorUses := ⟨by simp [AL.get], by simp [AL.get], by simp, by simp⟩
  results := by simp [AL.get]
  args := by simp [AL.get]
  regions := by simp [AL.get]
  regionParent := by simp [IRStore.regionParent, IRStore.region!, AL.get]
  regOps := by simp
  regBlocks := by simp

/-! ### frame lemmas: calls that only touch one pointer family -/

theorem InvA.of_opL {s : IRStore} {a : Abs} (h : InvA s a) {l : L} {f : Nat → List Nat}
    (hwf : WF l f) (hreg : ∀ b o, o ∈ f b → regO s o ∧ regB s b) :
    InvA { s with opL := l } { a with ops := f } where
  opL := hwf
  blockL := h.blockL
  vuseL := h.vuseL
  buseL := h.buseL
  operandUses := ⟨h.operandUses.len, h.operandUses.fwd, h.operandUses.bwd, h.operandUses.lt⟩
  successorUses := ⟨h.successorUses.len, h.successorUses.fwd, h.successorUses.bwd, h.successorUses.lt⟩
  results := h.results
  args := h.args
  regions := h.regions
  regionParent := h.regionParent
  regOps := hreg
  regBlocks := h.regBlocks

theorem InvA.of_blockL {s : IRStore} {a : Abs} (h : InvA s a) {l : L} {f : Nat → List Nat}
    (hwf : WF l f) (hreg : ∀ r b, b ∈ f r → regB s b ∧ regR s r) :
    InvA { s with blockL := l } { a with blocks := f } where
  opL := h.opL
  blockL := hwf
  vuseL := h.vuseL
  buseL := h.buseL
  operandUses := ⟨h.operandUses.len, h.operandUses.fwd, h.operandUses.bwd, h.operandUses.lt⟩
  successorUses := ⟨h.successorUses.len, h.successorUses.fwd, h.successorUses.bwd, h.successorUses.lt⟩
  results := h.results
  args := h.args
  regions := h.regions
  regionParent := h.regionParent
  regOps := h.regOps
  regBlocks := hreg

open IRStore

theorem _root_.Xdsl.DLL.WF.not_mem_of_parent_none {s : L} {f : Nat → List Nat} (h : WF s f) {n : Nat}
    (hp : (s.nd n).parent = none) (d : Nat) : n ∉ f d := by
  intro hm
  rw [h.parent_of_mem hm] at hp
  cases hp

/-! ### operations in blocks -/

theorem checkAttachOp_ok {s : IRStore} {b o : Nat} {u : Unit} (h : s.checkAttachOp b o = .ok u) :
    s.opParent o = none := by
  unfold IRStore.checkAttachOp at h
  by_cases g1 : (s.opParent o).isSome
  · simp [g1] at h
  · simpa using g1

theorem insertOpAfter_ok {s s' : IRStore} {b new ex : Nat} (h : s.insertOpAfter b new ex = .ok s') :
    s.opParent ex = some b ∧ s.opParent new = none ∧ s' = { s with opL := s.opL.insertAfter b ex new } := by
  unfold IRStore.insertOpAfter at h
  by_cases g1 : s.opParent ex = some b
  · simp only [g1, ne_eq, not_true_eq_false, if_false, bind_eq_ok_iff, pure_eq_ok_iff] at h
    obtain ⟨_, h2, h3⟩ := h
    exact ⟨g1, checkAttachOp_ok h2, h3.symm⟩
  · simp [g1] at h

theorem insertOpBefore_ok {s s' : IRStore} {b new ex : Nat} (h : s.insertOpBefore b new ex = .ok s') :
    s.opParent ex = some b ∧ s.opParent new = none ∧ s' = { s with opL := s.opL.insertBefore b ex new } := by
  unfold IRStore.insertOpBefore at h
  by_cases g1 : s.opParent ex = some b
  · simp only [g1, ne_eq, not_true_eq_false, if_false, bind_eq_ok_iff, pure_eq_ok_iff] at h
    obtain ⟨_, h2, h3⟩ := h
    exact ⟨g1, checkAttachOp_ok h2, h3.symm⟩
  · simp [g1] at h

theorem InvA.insertOpAfter {s s' : IRStore} {a : Abs} (h : InvA s a) {b new ex : Nat} (hr : regO s new)
    (hok : s.insertOpAfter b new ex = .ok s') :
    InvA s' { a with ops := Function.update a.ops b (insAfter (a.ops b) ex new) } := by
  obtain ⟨h1, h2, rfl⟩ := insertOpAfter_ok hok
  have hex : ex ∈ a.ops b := (h.opL.mem_iff_parent b ex).mpr h1
  have hnew := h.opL.not_mem_of_parent_none h2
  refine h.of_opL (h.opL.insertAfter hex hnew) (fun c o ho => ?_)
  by_cases hc : c = b
  · subst hc
    rw [Function.update_self, mem_insAfter hex] at ho
    rcases ho with e | e
    · exact ⟨e ▸ hr, (h.regOps c ex hex).2⟩
    · exact h.regOps c o e
  · rw [Function.update_of_ne hc] at ho; exact h.regOps c o ho

theorem InvA.insertOpBefore {s s' : IRStore} {a : Abs} (h : InvA s a) {b new ex : Nat} (hr : regO s new)
    (hok : s.insertOpBefore b new ex = .ok s') :
    InvA s' { a with ops := Function.update a.ops b (insBefore (a.ops b) ex new) } := by
  obtain ⟨h1, h2, rfl⟩ := insertOpBefore_ok hok
  have hex : ex ∈ a.ops b := (h.opL.mem_iff_parent b ex).mpr h1
  have hnew := h.opL.not_mem_of_parent_none h2
  refine h.of_opL (h.opL.insertBefore hex hnew) (fun c o ho => ?_)
  by_cases hc : c = b
  · subst hc
    rw [Function.update_self, mem_insBefore hex] at ho
    rcases ho with e | e
    · exact ⟨e ▸ hr, (h.regOps c ex hex).2⟩
    · exact h.regOps c o e
  · rw [Function.update_of_ne hc] at ho; exact h.regOps c o ho

theorem InvA.addOp {s s' : IRStore} {a : Abs} (h : InvA s a) {b o : Nat} (hr : regO s o) (hb : regB s b)
    (hok : s.addOp b o = .ok s') :
    InvA s' { a with ops := Function.update a.ops b (a.ops b ++ [o]) } := by
  unfold IRStore.addOp at hok
  have r := h.opL.rep b
  cases hl : (s.opL.en b).last with
  | none =>
    simp only [hl, bind_eq_ok_iff, pure_eq_ok_iff] at hok
    obtain ⟨_, h2, rfl⟩ := hok
    have hnew := h.opL.not_mem_of_parent_none (checkAttachOp_ok h2)
    refine h.of_opL (h.opL.pushBack hnew) (fun c x hx => ?_)
    by_cases hc : c = b
    · subst hc
      rw [Function.update_self, List.mem_append] at hx
      rcases hx with e | e
      · exact h.regOps c x e
      · have : x = o := by simpa using e
        exact ⟨this ▸ hr, hb⟩
    · rw [Function.update_of_ne hc] at hx; exact h.regOps c x hx
  | some l =>
    simp only [hl] at hok
    have hlast : (a.ops b).getLast? = some l := by rw [← r.last, hl]
    have := h.insertOpAfter hr hok
    rwa [insAfter_getLast r.nodup hlast] at this

theorem detachOp_ok {s s' : IRStore} {b o : Nat} (h : s.detachOp b o = .ok s') :
    s.opParent o = some b ∧ s' = { s with opL := s.opL.remove b o } := by
  unfold IRStore.detachOp at h
  by_cases g1 : s.opParent o = some b
  · simp [g1] at h; exact ⟨g1, h.symm⟩
  · simp [g1] at h

theorem InvA.detachOp {s s' : IRStore} {a : Abs} (h : InvA s a) {b o : Nat}
    (hok : s.detachOp b o = .ok s') :
    InvA s' { a with ops := Function.update a.ops b ((a.ops b).erase o) } := by
  obtain ⟨h1, rfl⟩ := detachOp_ok hok
  have hm : o ∈ a.ops b := (h.opL.mem_iff_parent b o).mpr h1
  refine h.of_opL (h.opL.remove hm) (fun c x hx => ?_)
  by_cases hc : c = b
  · subst hc
    rw [Function.update_self] at hx
    exact h.regOps c x (List.mem_of_mem_erase hx)
  · rw [Function.update_of_ne hc] at hx; exact h.regOps c x hx

/-- registration facts survive every call (ids are never removed from the tables) -/
structure Mono (s s' : IRStore) : Prop where
  o : ∀ k, regO s k → regO s' k
  b : ∀ k, regB s k → regB s' k
  r : ∀ k, regR s k → regR s' k

theorem Mono.refl (s : IRStore) : Mono s s := ⟨fun _ h => h, fun _ h => h, fun _ h => h⟩
theorem Mono.trans {s1 s2 s3 : IRStore} (h1 : Mono s1 s2) (h2 : Mono s2 s3) : Mono s1 s3 :=
  ⟨fun k h => h2.o k (h1.o k h), fun k h => h2.b k (h1.b k h), fun k h => h2.r k (h1.r k h)⟩


/-- the id tables are unchanged -/
structure Same (s s' : IRStore) : Prop where
  ops : s'.ops = s.ops
  blocks : s'.blocks = s.blocks
  regions : s'.regions = s.regions

theorem Same.refl (s : IRStore) : Same s s := ⟨rfl, rfl, rfl⟩
theorem Same.trans {s1 s2 s3 : IRStore} (h1 : Same s1 s2) (h2 : Same s2 s3) : Same s1 s3 :=
  ⟨h2.ops.trans h1.ops, h2.blocks.trans h1.blocks, h2.regions.trans h1.regions⟩
theorem Same.regO {s s' : IRStore} (h : Same s s') {k : Nat} (hk : regO s k) : regO s' k := by
  unfold IR.regO at *; rwa [h.ops]
theorem Same.regB {s s' : IRStore} (h : Same s s') {k : Nat} (hk : regB s k) : regB s' k := by
  unfold IR.regB at *; rwa [h.blocks]
theorem Same.regR {s s' : IRStore} (h : Same s s') {k : Nat} (hk : regR s k) : regR s' k := by
  unfold IR.regR at *; rwa [h.regions]

theorem Inv.insertOpAfter {s s' : IRStore} (h : Inv s) {b new ex : Nat} (hr : regO s new)
    (hok : s.insertOpAfter b new ex = .ok s') : Inv s' ∧ Same s s' := by
  obtain ⟨a, ha⟩ := h
  refine ⟨⟨_, ha.insertOpAfter hr hok⟩, ?_⟩
  obtain ⟨_, _, rfl⟩ := insertOpAfter_ok hok
  exact ⟨rfl, rfl, rfl⟩

theorem Inv.insertOpBefore {s s' : IRStore} (h : Inv s) {b new ex : Nat} (hr : regO s new)
    (hok : s.insertOpBefore b new ex = .ok s') : Inv s' ∧ Same s s' := by
  obtain ⟨a, ha⟩ := h
  refine ⟨⟨_, ha.insertOpBefore hr hok⟩, ?_⟩
  obtain ⟨_, _, rfl⟩ := insertOpBefore_ok hok
  exact ⟨rfl, rfl, rfl⟩

theorem addOp_same {s s' : IRStore} {b o : Nat} (hok : s.addOp b o = .ok s') : Same s s' := by
  unfold IRStore.addOp at hok
  cases hl : (s.opL.en b).last with
  | none =>
    simp only [hl, bind_eq_ok_iff, pure_eq_ok_iff] at hok
    obtain ⟨_, _, rfl⟩ := hok
    exact ⟨rfl, rfl, rfl⟩
  | some l =>
    simp only [hl] at hok
    obtain ⟨_, _, rfl⟩ := insertOpAfter_ok hok
    exact ⟨rfl, rfl, rfl⟩

theorem Inv.addOp {s s' : IRStore} (h : Inv s) {b o : Nat} (hr : regO s o) (hb : regB s b)
    (hok : s.addOp b o = .ok s') : Inv s' ∧ Same s s' := by
  obtain ⟨a, ha⟩ := h
  exact ⟨⟨_, ha.addOp hr hb hok⟩, addOp_same hok⟩

theorem Inv.detachOp {s s' : IRStore} (h : Inv s) {b o : Nat}
    (hok : s.detachOp b o = .ok s') : Inv s' ∧ Same s s' := by
  obtain ⟨a, ha⟩ := h
  refine ⟨⟨_, ha.detachOp hok⟩, ?_⟩
  obtain ⟨_, rfl⟩ := detachOp_ok hok
  exact ⟨rfl, rfl, rfl⟩

theorem Inv.opDetach {s s' : IRStore} (h : Inv s) {o : Nat}
    (hok : s.opDetach o = .ok s') : Inv s' ∧ Same s s' := by
  unfold IRStore.opDetach at hok
  cases hp : s.opParent o with
  | none => simp [hp] at hok
  | some b => simp only [hp] at hok; exact h.detachOp hok

/-- folding a step that preserves `Inv` and the tables -/
theorem fold_inv_same {α : Type} (f : IRStore → α → R) (l : List α)
    (step : ∀ s x s', x ∈ l → Inv s → f s x = .ok s' → Inv s' ∧ Same s s') :
    ∀ s s', Inv s → l.foldlM f s = .ok s' → Inv s' ∧ Same s s' := by
  intro s s' hi hok
  have := foldlM_ok_inv (fun t => Inv t ∧ Same s t) f l
    (fun t x t' hx hp ht => by
      obtain ⟨h1, h2⟩ := step t x t' hx hp.1 ht
      exact ⟨h1, hp.2.trans h2⟩) s s' ⟨hi, Same.refl s⟩ hok
  exact this

theorem Inv.addOps {s s' : IRStore} (h : Inv s) {b : Nat} {ops : List Nat} (hr : ∀ o ∈ ops, regO s o)
    (hb : regB s b) (hok : s.addOps b ops = .ok s') : Inv s' ∧ Same s s' := by
  unfold IRStore.addOps at hok
  have := foldlM_ok_inv (fun t => Inv t ∧ Same s t) (fun s o => s.addOp b o) ops
    (fun t x t' hx hp ht => by
      obtain ⟨h1, h2⟩ := hp.1.addOp (hp.2.regO (hr x hx)) (hp.2.regB hb) ht
      exact ⟨h1, hp.2.trans h2⟩) s s' ⟨h, Same.refl s⟩ hok
  exact this

theorem Inv.insertOpsBefore {s s' : IRStore} (h : Inv s) {b ex : Nat} {ops : List Nat}
    (hr : ∀ o ∈ ops, regO s o) (hok : s.insertOpsBefore b ops ex = .ok s') : Inv s' ∧ Same s s' := by
  unfold IRStore.insertOpsBefore at hok
  have := foldlM_ok_inv (fun t => Inv t ∧ Same s t) (fun s o => s.insertOpBefore b o ex) ops
    (fun t x t' hx hp ht => by
      obtain ⟨h1, h2⟩ := hp.1.insertOpBefore (hp.2.regO (hr x hx)) ht
      exact ⟨h1, hp.2.trans h2⟩) s s' ⟨h, Same.refl s⟩ hok
  exact this

theorem Inv.insertOpsAfter {s s' : IRStore} (h : Inv s) {b ex : Nat} {ops : List Nat}
    (hr : ∀ o ∈ ops, regO s o) (hok : s.insertOpsAfter b ops ex = .ok s') : Inv s' ∧ Same s s' := by
  unfold IRStore.insertOpsAfter at hok
  simp only [bind_eq_ok_iff, pure_eq_ok_iff] at hok
  obtain ⟨⟨s1, e⟩, hfold, rfl⟩ := hok
  have := foldlM_ok_inv (fun (p : IRStore × Nat) => Inv p.1 ∧ Same s p.1)
    (fun (p : IRStore × Nat) o => do
      let s ← p.1.insertOpAfter b o p.2
      pure (s, o)) ops
    (fun t x t' hx hp ht => by
      simp only [bind_eq_ok_iff, pure_eq_ok_iff] at ht
      obtain ⟨t1, ht1, rfl⟩ := ht
      obtain ⟨h1, h2⟩ := hp.1.insertOpAfter (hp.2.regO (hr x hx)) ht1
      exact ⟨h1, hp.2.trans h2⟩) (s, ex) (s1, e) ⟨h, Same.refl s⟩ hfold
  exact this


/-! ### blocks in regions -/

theorem checkAttachBlock_ok {s : IRStore} {r b : Nat} {u : Unit} (h : s.checkAttachBlock r b = .ok u) :
    s.blockParent b = none := by
  unfold IRStore.checkAttachBlock at h
  by_cases g1 : (s.blockParent b).isSome
  · simp [g1] at h
  · simpa using g1

theorem reg_update_blocks {s : IRStore} {a : Abs} (h : InvA s a) {r : Nat} {l : List Nat}
    (hl : ∀ x ∈ l, regB s x) (hr : regR s r) :
    ∀ c x, x ∈ Function.update a.blocks r l c → regB s x ∧ regR s c := by
  intro c x hx
  by_cases hc : c = r
  · subst hc; rw [Function.update_self] at hx; exact ⟨hl x hx, hr⟩
  · rw [Function.update_of_ne hc] at hx; exact h.regBlocks c x hx

theorem Inv.pushBackBlock {s : IRStore} (h : Inv s) {r b : Nat} (hb : regB s b) (hr : regR s r)
    (hp : s.blockParent b = none) :
    Inv { s with blockL := s.blockL.pushBack r b } := by
  obtain ⟨a, ha⟩ := h
  have hnew := ha.blockL.not_mem_of_parent_none hp
  refine ⟨_, ha.of_blockL (ha.blockL.pushBack hnew) (reg_update_blocks ha (l := a.blocks r ++ [b]) ?_ hr)⟩
  intro x hx
  rcases List.mem_append.mp hx with e | e
  · exact (ha.regBlocks r x e).1
  · have : x = b := by simpa using e
    exact this ▸ hb

theorem Inv.insertBlockBeforeOne {s : IRStore} (h : Inv s) {r t b : Nat} (hb : regB s b)
    (ht : s.blockParent t = some r) (hp : s.blockParent b = none) :
    Inv { s with blockL := s.blockL.insertBefore r t b } := by
  obtain ⟨a, ha⟩ := h
  have hnew := ha.blockL.not_mem_of_parent_none hp
  have hex : t ∈ a.blocks r := (ha.blockL.mem_iff_parent r t).mpr ht
  refine ⟨_, ha.of_blockL (ha.blockL.insertBefore hex hnew)
    (reg_update_blocks ha (l := insBefore (a.blocks r) t b) ?_ (ha.regBlocks r t hex).2)⟩
  intro x hx
  rcases (mem_insBefore hex b x).mp hx with e | e
  · exact e ▸ hb
  · exact (ha.regBlocks r x e).1

theorem Inv.addBlock {s s' : IRStore} (h : Inv s) {r : Nat} {bs : List Nat} (hbs : ∀ b ∈ bs, regB s b)
    (hr : regR s r) (hok : s.addBlock r bs = .ok s') : Inv s' ∧ Same s s' := by
  unfold IRStore.addBlock at hok
  exact foldlM_ok_inv (fun t => Inv t ∧ Same s t) _ bs
    (fun t x t' hx hp ht => by
      simp only [bind_eq_ok_iff, pure_eq_ok_iff] at ht
      obtain ⟨_, h1, rfl⟩ := ht
      exact ⟨hp.1.pushBackBlock (hp.2.regB (hbs x hx)) (hp.2.regR hr) (checkAttachBlock_ok h1),
        hp.2.trans ⟨rfl, rfl, rfl⟩⟩) s s' ⟨h, Same.refl s⟩ hok

theorem blockParent_insertBefore_ne {s : IRStore} {r t b x : Nat} (hx : x ≠ b) (hp : s.blockParent x = some r) :
    IRStore.blockParent { s with blockL := s.blockL.insertBefore r t b } x = some r := by
  unfold IRStore.blockParent at *
  simp only [L.insertBefore]
  cases hpv : (s.blockL.nd t).prev with
  | none =>
    by_cases h1 : x = t
    · subst h1; simp [hx, hp]
    · simp [hx, h1, hp]
  | some p =>
    by_cases h1 : x = t
    · subst h1
      by_cases h2 : x = p
      · subst h2; simp [hx, hp]
      · simp [hx, h2, hp]
    · by_cases h2 : x = p
      · subst h2; simp [hx, h1, hp]
      · simp [hx, h1, h2, hp]

theorem Inv.insertBlockBefore {s s' : IRStore} (h : Inv s) {r t : Nat} {bs : List Nat}
    (hbs : ∀ b ∈ bs, regB s b) (hok : s.insertBlockBefore r bs t = .ok s') : Inv s' ∧ Same s s' := by
  unfold IRStore.insertBlockBefore at hok
  by_cases g1 : s.blockParent t = some r
  · simp only [g1, ne_eq, not_true_eq_false, if_false] at hok
    have := foldlM_ok_inv (fun u => (Inv u ∧ Same s u) ∧ u.blockParent t = some r) _ bs
      (fun u x u' hx hp hu => by
        simp only [bind_eq_ok_iff, pure_eq_ok_iff] at hu
        obtain ⟨_, h1, rfl⟩ := hu
        have hpn := checkAttachBlock_ok h1
        refine ⟨⟨hp.1.1.insertBlockBeforeOne (hp.1.2.regB (hbs x hx)) hp.2 hpn,
          hp.1.2.trans ⟨rfl, rfl, rfl⟩⟩, ?_⟩
        have : t ≠ x := fun e => by rw [e, hpn] at hp; cases hp.2
        exact blockParent_insertBefore_ne this hp.2) s s' ⟨⟨h, Same.refl s⟩, g1⟩ hok
    exact this.1
  · simp [g1] at hok

theorem Inv.insertBlockAfter {s s' : IRStore} (h : Inv s) {r t : Nat} {bs : List Nat}
    (hbs : ∀ b ∈ bs, regB s b) (hr : regR s r) (hok : s.insertBlockAfter r bs t = .ok s') :
    Inv s' ∧ Same s s' := by
  unfold IRStore.insertBlockAfter at hok
  cases hn : (s.blockL.nd t).next with
  | none => simp only [hn] at hok; exact h.addBlock hbs hr hok
  | some nx => simp only [hn] at hok; exact h.insertBlockBefore hbs hok

theorem Inv.insertBlock {s s' : IRStore} (h : Inv s) {r : Nat} {bs : List Nat} {idx : Int}
    (hbs : ∀ b ∈ bs, regB s b) (hr : regR s r) (hok : s.insertBlock r bs idx = .ok s') :
    Inv s' ∧ Same s s' := by
  unfold IRStore.insertBlock at hok
  by_cases g1 : idx < 0
  · simp [g1] at hok; subst hok; exact ⟨h, Same.refl s⟩
  · by_cases g2 : idx.toNat < (s.blocksOf r).length
    · simp only [g1, g2, if_true, if_false] at hok; exact h.insertBlockBefore hbs hok
    · by_cases g3 : idx.toNat = (s.blocksOf r).length
      · simp only [g1, g2, g3, if_true, if_false] at hok; simp at hok; exact h.addBlock hbs hr hok
      · simp [g1, g2, g3] at hok; subst hok; exact ⟨h, Same.refl s⟩

theorem Inv.removeBlock {s : IRStore} (h : Inv s) {r b : Nat} (hp : s.blockParent b = some r) :
    Inv { s with blockL := s.blockL.remove r b } := by
  obtain ⟨a, ha⟩ := h
  have hm : b ∈ a.blocks r := (ha.blockL.mem_iff_parent r b).mpr hp
  refine ⟨_, ha.of_blockL (ha.blockL.remove hm)
    (reg_update_blocks ha (l := (a.blocks r).erase b) ?_ (ha.regBlocks r b hm).2)⟩
  intro x hx
  exact (ha.regBlocks r x (List.mem_of_mem_erase hx)).1

theorem Inv.detachBlock {s s' : IRStore} (h : Inv s) {r b : Nat}
    (hok : s.detachBlock r b = .ok s') : Inv s' ∧ Same s s' := by
  unfold IRStore.detachBlock at hok
  by_cases g1 : s.blockParent b = some r
  · simp [g1] at hok; subst hok; exact ⟨h.removeBlock g1, ⟨rfl, rfl, rfl⟩⟩
  · simp [g1] at hok

theorem normIdx_lt {n : Nat} {i : Int} {k : Nat} (h : IRStore.normIdx n i = some k) : k < n := by
  unfold IRStore.normIdx at h
  split at h
  · split at h
    · cases h; assumption
    · cases h
  · split at h
    · cases h
      rename_i h1 h2
      have : 0 < (-i).toNat := by omega
      omega
    · cases h

theorem blockAt_ok {s : IRStore} {a : Abs} (ha : InvA s a) {r b : Nat} {idx : Int}
    (h : s.blockAt r idx = .ok b) : s.blockParent b = some r := by
  unfold IRStore.blockAt at h
  cases hk : IRStore.normIdx (s.blocksOf r).length idx with
  | none => simp [hk] at h
  | some k =>
    simp only [hk] at h
    have hlt := normIdx_lt hk
    have : b = (s.blocksOf r)[k] := by
      simp [List.getD_eq_getElem?_getD, List.getElem?_eq_getElem hlt] at h; exact h.symm
    have hm : b ∈ s.blocksOf r := this ▸ List.getElem_mem hlt
    unfold IRStore.blocksOf at hm
    rw [ha.blockL.toList_eq] at hm
    exact (ha.blockL.mem_iff_parent r b).mp hm

theorem Inv.detachBlockIdx {s s' : IRStore} (h : Inv s) {r : Nat} {idx : Int}
    (hok : s.detachBlockIdx r idx = .ok s') : Inv s' ∧ Same s s' := by
  unfold IRStore.detachBlockIdx at hok
  simp only [bind_eq_ok_iff, pure_eq_ok_iff] at hok
  obtain ⟨b, hb, rfl⟩ := hok
  obtain ⟨a, ha⟩ := h
  exact ⟨Inv.removeBlock ⟨a, ha⟩ (blockAt_ok ha hb), ⟨rfl, rfl, rfl⟩⟩

theorem Inv.moveBlocks {s s' : IRStore} (h : Inv s) {r dst : Nat} (hd : regR s dst)
    (hok : s.moveBlocks r dst = .ok s') : Inv s' ∧ Same s s' := by
  unfold IRStore.moveBlocks at hok
  by_cases g1 : r = dst
  · simp [g1] at hok
  · simp [g1] at hok
    subst hok
    obtain ⟨a, ha⟩ := h
    refine ⟨⟨_, ha.of_blockL (ha.blockL.spliceAllBack g1) ?_⟩, ⟨rfl, rfl, rfl⟩⟩
    intro c x hx
    by_cases hc : c = dst
    · subst hc
      rw [Function.update_self] at hx
      rcases List.mem_append.mp hx with e | e
      · exact ha.regBlocks c x e
      · exact ⟨(ha.regBlocks r x e).1, hd⟩
    · rw [Function.update_of_ne hc] at hx
      by_cases hc' : c = r
      · subst hc'; rw [Function.update_self] at hx; cases hx
      · rw [Function.update_of_ne hc'] at hx; exact ha.regBlocks c x hx

theorem Inv.moveBlocksBefore {s s' : IRStore} (h : Inv s) {r t : Nat}
    (hok : s.moveBlocksBefore r t = .ok s') : Inv s' ∧ Same s s' := by
  unfold IRStore.moveBlocksBefore at hok
  cases hp : s.blockParent t with
  | none => simp [hp] at hok
  | some dst =>
    simp only [hp] at hok
    by_cases g1 : dst = r
    · simp [g1] at hok
    · simp [g1] at hok
      subst hok
      obtain ⟨a, ha⟩ := h
      have hm : t ∈ a.blocks dst := (ha.blockL.mem_iff_parent dst t).mpr hp
      obtain ⟨pre, post, hab⟩ := List.append_of_mem hm
      have hne : r ≠ dst := fun e => g1 e.symm
      refine ⟨⟨_, ha.of_blockL (ha.blockL.spliceAllBefore hne hab) ?_⟩, ⟨rfl, rfl, rfl⟩⟩
      have hd := (ha.regBlocks dst t hm).2
      intro c x hx
      by_cases hc : c = dst
      · subst hc
        rw [Function.update_self] at hx
        have : x ∈ a.blocks c ∨ x ∈ a.blocks r := by
          rw [hab]
          simp only [List.mem_append, List.mem_cons] at hx ⊢
          tauto
        rcases this with e | e
        · exact ha.regBlocks c x e
        · exact ⟨(ha.regBlocks r x e).1, hd⟩
      · rw [Function.update_of_ne hc] at hx
        by_cases hc' : c = r
        · subst hc'; rw [Function.update_self] at hx; cases hx
        · rw [Function.update_of_ne hc'] at hx; exact ha.regBlocks c x hx


/-! ### composites of the list operations -/

theorem Inv.insertOpsAt {s s' : IRStore} (h : Inv s) {ops : List Nat} {p : Nat × Option Nat}
    (hr : ∀ o ∈ ops, regO s o) (hb : regB s p.1) (hok : s.insertOpsAt ops p = .ok s') :
    Inv s' ∧ Same s s' := by
  unfold IRStore.insertOpsAt at hok
  cases hp : p.2 with
  | none => simp only [hp] at hok; exact h.addOps hr hb hok
  | some ib => simp only [hp] at hok; exact h.insertOpsBefore hr hok

theorem Inv.insertBlocksAt {s s' : IRStore} (h : Inv s) {bs : List Nat} {p : Nat × Option Nat}
    (hbs : ∀ b ∈ bs, regB s b) (hr : regR s p.1) (hok : s.insertBlocksAt bs p = .ok s') :
    Inv s' ∧ Same s s' := by
  unfold IRStore.insertBlocksAt at hok
  cases hp : p.2 with
  | none => simp only [hp] at hok; exact h.addBlock hbs hr hok
  | some ib => simp only [hp] at hok; exact h.insertBlockBefore hbs hok

/-- the block of a resolved insertion point is registered -/
theorem resolveIP_reg {s : IRStore} {a : Abs} (ha : InvA s a) {ip : IP} {p : Nat × Option Nat}
    (hip : s.okIP ip = true) (h : s.resolveIP ip = .ok p) : regB s p.1 := by
  cases ip with
  | before o =>
    simp only [IRStore.resolveIP] at h
    cases hp : s.opParent o with
    | none => simp [hp] at h
    | some b =>
      simp [hp] at h; subst h
      exact (ha.regOps b o ((ha.opL.mem_iff_parent b o).mpr hp)).2
  | after o =>
    simp only [IRStore.resolveIP] at h
    cases hp : s.opParent o with
    | none => simp [hp] at h
    | some b =>
      simp [hp] at h; subst h
      exact (ha.regOps b o ((ha.opL.mem_iff_parent b o).mpr hp)).2
  | start b =>
    simp [IRStore.resolveIP] at h; subst h
    simp [IRStore.okIP, IRStore.liveB] at hip; exact hip.1
  | end_ b =>
    simp [IRStore.resolveIP] at h; subst h
    simp [IRStore.okIP, IRStore.liveB] at hip; exact hip.1

theorem resolveBIP_reg {s : IRStore} {a : Abs} (ha : InvA s a) {bip : BIP} {p : Nat × Option Nat}
    (hip : s.okBIP bip = true) (h : s.resolveBIP bip = .ok p) : regR s p.1 := by
  cases bip with
  | before b =>
    simp only [IRStore.resolveBIP] at h
    cases hp : s.blockParent b with
    | none => simp [hp] at h
    | some r =>
      simp [hp] at h; subst h
      exact (ha.regBlocks r b ((ha.blockL.mem_iff_parent r b).mpr hp)).2
  | after b =>
    simp only [IRStore.resolveBIP] at h
    cases hp : s.blockParent b with
    | none => simp [hp] at h
    | some r =>
      simp [hp] at h; subst h
      exact (ha.regBlocks r b ((ha.blockL.mem_iff_parent r b).mpr hp)).2
  | start r =>
    simp [IRStore.resolveBIP] at h; subst h
    simp [IRStore.okBIP, IRStore.liveR] at hip; exact hip.1
  | end_ r =>
    simp [IRStore.resolveBIP] at h; subst h
    simp [IRStore.okBIP, IRStore.liveR] at hip; exact hip.1

theorem Inv.rwInsertOp {s s' : IRStore} (h : Inv s) {ops : List Nat} {ip : IP}
    (hr : ∀ o ∈ ops, regO s o) (hip : s.okIP ip = true) (hok : s.rwInsertOp ops ip = .ok s') :
    Inv s' ∧ Same s s' := by
  unfold IRStore.rwInsertOp at hok
  simp only [bind_eq_ok_iff] at hok
  obtain ⟨p, hp, hok⟩ := hok
  obtain ⟨a, ha⟩ := h
  exact Inv.insertOpsAt ⟨a, ha⟩ hr (resolveIP_reg ha hip hp) hok

theorem Inv.rwInsertBlock {s s' : IRStore} (h : Inv s) {bs : List Nat} {bip : BIP}
    (hbs : ∀ b ∈ bs, regB s b) (hip : s.okBIP bip = true) (hok : s.rwInsertBlock bs bip = .ok s') :
    Inv s' ∧ Same s s' := by
  unfold IRStore.rwInsertBlock at hok
  simp only [bind_eq_ok_iff] at hok
  obtain ⟨p, hp, hok⟩ := hok
  obtain ⟨a, ha⟩ := h
  exact Inv.insertBlocksAt ⟨a, ha⟩ hbs (resolveBIP_reg ha hip hp) hok

theorem Inv.rwInlineRegion {s s' : IRStore} (h : Inv s) {r : Nat} {bip : BIP}
    (hip : s.okBIP bip = true) (hok : s.rwInlineRegion r bip = .ok s') : Inv s' ∧ Same s s' := by
  unfold IRStore.rwInlineRegion at hok
  simp only [bind_eq_ok_iff] at hok
  obtain ⟨p, hp, hok⟩ := hok
  obtain ⟨a, ha⟩ := h
  have hreg := resolveBIP_reg ha hip hp
  cases h2 : p.2 with
  | none => simp only [h2] at hok; exact Inv.moveBlocks ⟨a, ha⟩ hreg hok
  | some ib => simp only [h2] at hok; exact Inv.moveBlocksBefore ⟨a, ha⟩ hok

theorem Inv.prInsert {s s' : IRStore} (h : Inv s) {cur : Nat} {ops : List Nat} {ip : Option IP}
    (hr : ∀ o ∈ ops, regO s o) (hcur : s.liveO cur = true)
    (hip : ∀ x, ip = some x → s.okIP x = true) (hok : s.prInsert cur ops ip = .ok s') :
    Inv s' ∧ Same s s' := by
  unfold IRStore.prInsert at hok
  obtain ⟨a, ha⟩ := h
  have key : ∀ p, regB s p.1 → (if ops.isEmpty = true then pure s else s.insertOpsAt ops p) = .ok s' →
      Inv s' ∧ Same s s' := by
    intro p hb hok
    by_cases he : ops.isEmpty
    · simp [he] at hok; subst hok; exact ⟨⟨a, ha⟩, Same.refl s⟩
    · simp only [he] at hok
      exact Inv.insertOpsAt ⟨a, ha⟩ hr hb (by simpa using hok)
  cases ip with
  | none =>
    simp only [bind_eq_ok_iff] at hok
    obtain ⟨_, _, p, hp, hok⟩ := hok
    exact key p (resolveIP_reg ha (ip := .before cur) (by simpa [IRStore.okIP] using hcur) hp) hok
  | some x =>
    simp only [bind_eq_ok_iff] at hok
    obtain ⟨_, _, p, hp, hok⟩ := hok
    exact key p (resolveIP_reg ha (hip x rfl) hp) hok



/-! ### creating blocks and regions -/

/-- writing the entries of a list of (key, payload) pairs -/
def setAll {β : Type} (g : Nat → β) (l : List (Nat × Nat)) (m : AL Nat β) : AL Nat β :=
  l.foldl (fun m p => AL.set m p.1 (g p.2)) m

theorem get_setAll_of_not_mem {β : Type} (g : Nat → β) (l : List (Nat × Nat)) (m : AL Nat β) (k : Nat)
    (h : k ∉ l.map Prod.fst) : AL.get (setAll g l m) k = AL.get m k := by
  unfold setAll
  induction l generalizing m with
  | nil => rfl
  | cons p r ih =>
    simp only [List.map_cons, List.mem_cons, not_or] at h
    simp only [List.foldl_cons]
    rw [ih _ h.2, AL.get_set]; simp [h.1]

theorem get_setAll_of_mem {β : Type} (g : Nat → β) (l : List (Nat × Nat)) (m : AL Nat β) (k i : Nat)
    (hn : (l.map Prod.fst).Nodup) (h : (k, i) ∈ l) : AL.get (setAll g l m) k = some (g i) := by
  induction l generalizing m with
  | nil => cases h
  | cons p r ih =>
    simp only [List.map_cons, List.nodup_cons] at hn
    rcases List.mem_cons.mp h with e | e
    · subst e
      have := get_setAll_of_not_mem g r (AL.set m k (g i)) k hn.1
      unfold setAll at this ⊢
      simp only [List.foldl_cons]
      rw [this, AL.get_set]; simp
    · unfold setAll at ih ⊢
      simp only [List.foldl_cons]
      exact ih _ hn.2 e

theorem fold_setVal (s : IRStore) (g : Nat → ValData) (l : List (Nat × Nat)) :
    l.foldl (fun s p => s.setVal p.1 (g p.2)) s = { s with vals := setAll g l s.vals } := by
  unfold setAll
  induction l generalizing s with
  | nil => rfl
  | cons p r ih => simp only [List.foldl_cons, ih]; rfl

theorem mkBlock_eq (s : IRStore) (b : Nat) (args : List Nat) :
    s.mkBlock b args =
      { s with blocks := (AL.set s.blocks b ({ args := args } : BlockData)),
               vals := (setAll (fun i => ({ kind := .arg, owner := b, index := i } : ValData)) args.zipIdx s.vals) } := by
  unfold IRStore.mkBlock
  rw [fold_setVal]; rfl

theorem zipIdx_fst (l : List Nat) : l.zipIdx.map Prod.fst = l := by
  simp [List.zipIdx_map_fst]

theorem mem_zipIdx_of_getElem? {l : List Nat} {i v : Nat} (h : l[i]? = some v) : (v, i) ∈ l.zipIdx := by
  rw [List.mem_zipIdx_iff_getElem?]; simpa using h

theorem freshV_not_reg {s : IRStore} {k : Nat} (h : s.freshV k = true) : AL.get s.vals k = none := by
  simp [IRStore.freshV] at h; exact h.2

theorem freshVs_spec {s : IRStore} {ks : List Nat} (h : s.freshVs ks = true) :
    (∀ k ∈ ks, AL.get s.vals k = none) ∧ ks.Nodup := by
  simp only [IRStore.freshVs, Bool.and_eq_true, List.all_eq_true, decide_eq_true_eq] at h
  exact ⟨fun k hk => freshV_not_reg (h.1 k hk), h.2⟩

/-- `Block(arg_types=…)`: a fresh, empty, detached block with fresh arguments -/
theorem InvA.mkBlock {s : IRStore} {a : Abs} (h : InvA s a) {b : Nat} {args : List Nat}
    (hb : AL.get s.blocks b = none) (hargs : s.freshVs args = true) :
    InvA (s.mkBlock b args) a := by
  obtain ⟨hfresh, hnd⟩ := freshVs_spec hargs
  rw [mkBlock_eq]
  have keep : ∀ v d, AL.get s.vals v = some d →
      AL.get (setAll (fun i => ({ kind := .arg, owner := b, index := i } : ValData)) args.zipIdx s.vals) v = some d := by
    intro v d hv
    rw [get_setAll_of_not_mem _ _ _ _ (by
      rw [zipIdx_fst]; intro hm; rw [hfresh v hm] at hv; cases hv)]
    exact hv
  exact {
    opL := h.opL, blockL := h.blockL, vuseL := h.vuseL, buseL := h.buseL
    operandUses := ⟨h.operandUses.len, h.operandUses.fwd, h.operandUses.bwd, h.operandUses.lt⟩
    successorUses := ⟨h.successorUses.len, h.successorUses.fwd, h.successorUses.bwd, h.successorUses.lt⟩
    results := fun o d i v hd hv => keep v _ (h.results o d i v hd hv)
    args := by
      intro b' d i v hd hv
      simp only [AL.get_set] at hd
      split at hd
      · cases hd
        subst_vars
        exact get_setAll_of_mem _ _ _ _ _ (by rw [zipIdx_fst]; exact hnd) (mem_zipIdx_of_getElem? hv)
      · exact keep v _ (h.args b' d i v hd hv)
    regions := h.regions
    regionParent := h.regionParent
    regOps := fun c o ho => by
      have := h.regOps c o ho
      refine ⟨this.1, ?_⟩
      unfold IR.regB at *
      simp only [AL.get_set]; split <;> simp [this.2]
    regBlocks := fun r x hx => by
      have := h.regBlocks r x hx
      refine ⟨?_, this.2⟩
      unfold IR.regB at *
      simp only [AL.get_set]; split <;> simp [this.1] }

theorem regB_mkBlock (s : IRStore) (b : Nat) (args : List Nat) : regB (s.mkBlock b args) b := by
  rw [mkBlock_eq]; unfold IR.regB; simp [AL.get_set]

theorem regO_mkBlock {s : IRStore} {b : Nat} {args : List Nat} {o : Nat} (h : regO s o) :
    regO (s.mkBlock b args) o := by
  rw [mkBlock_eq]; exact h

theorem regR_mkBlock {s : IRStore} {b : Nat} {args : List Nat} {r : Nat} (h : regR s r) :
    regR (s.mkBlock b args) r := by
  rw [mkBlock_eq]; exact h

theorem regB_mkBlock_of {s : IRStore} {b : Nat} {args : List Nat} {x : Nat} (h : regB s x) :
    regB (s.mkBlock b args) x := by
  rw [mkBlock_eq]; unfold IR.regB at *; simp only [AL.get_set]; split <;> simp [h]

theorem freshB_not_reg {s : IRStore} {k : Nat} (h : s.freshB k = true) : AL.get s.blocks k = none := by
  simp [IRStore.freshB] at h; exact h.2
theorem freshR_not_reg {s : IRStore} {k : Nat} (h : s.freshR k = true) : AL.get s.regions k = none := by
  simp [IRStore.freshR] at h; exact h.2

/-- an unregistered block is in no list and holds no operations -/
theorem InvA.fresh_block {s : IRStore} {a : Abs} (h : InvA s a) {b : Nat} (hb : AL.get s.blocks b = none) :
    a.ops b = [] ∧ (∀ r, b ∉ a.blocks r) ∧ s.blockL.nd b = {} := by
  have nb : ¬ regB s b := by unfold IR.regB; simp [hb]
  have h2 : ∀ r, b ∉ a.blocks r := fun r hm => nb (h.regBlocks r b hm).1
  refine ⟨?_, h2, h.blockL.free b h2⟩
  cases e : a.ops b with
  | nil => rfl
  | cons o l => exact absurd (h.regOps b o (by rw [e]; simp)).2 nb

theorem Inv.newBlock {s s' : IRStore} (h : Inv s) {b : Nat} {args ops : List Nat}
    (hb : s.freshB b = true) (hargs : s.freshVs args = true) (hops : ∀ o ∈ ops, regO s o)
    (hok : s.newBlock b args ops = .ok s') : Inv s' := by
  obtain ⟨a, ha⟩ := h
  unfold IRStore.newBlock at hok
  have h1 : Inv (s.mkBlock b args) := ⟨a, ha.mkBlock (freshB_not_reg hb) hargs⟩
  exact (h1.addOps (fun o ho => regO_mkBlock (hops o ho)) (regB_mkBlock s b args) hok).1

/-- `Region()`: a fresh, empty, detached region -/
theorem InvA.mkRegion {s : IRStore} {a : Abs} (h : InvA s a) {r : Nat} (hr : AL.get s.regions r = none) :
    InvA (s.setRegion r {}) a := by
  have par : ∀ x, IRStore.regionParent (s.setRegion r {}) x = s.regionParent x := by
    intro x
    unfold IRStore.regionParent IRStore.region! IRStore.setRegion
    simp only [AL.get_set]
    split
    · subst_vars; simp [hr]
    · rfl
  exact {
    opL := h.opL, blockL := h.blockL, vuseL := h.vuseL, buseL := h.buseL
    operandUses := ⟨h.operandUses.len, h.operandUses.fwd, h.operandUses.bwd, h.operandUses.lt⟩
    successorUses := ⟨h.successorUses.len, h.successorUses.fwd, h.successorUses.bwd, h.successorUses.lt⟩
    results := h.results
    args := h.args
    regions := fun o d hd => ⟨(h.regions o d hd).1, fun x hx => by rw [par]; exact (h.regions o d hd).2 x hx⟩
    regionParent := fun x o hx => by rw [par] at hx; exact h.regionParent x o hx
    regOps := h.regOps
    regBlocks := fun c x hx => by
      have := h.regBlocks c x hx
      refine ⟨this.1, ?_⟩
      unfold IR.regR IRStore.setRegion at *
      simp only [AL.get_set]; split <;> simp [this.2] }

theorem regR_setRegion (s : IRStore) (r : Nat) (d : RegionData) : regR (s.setRegion r d) r := by
  unfold IR.regR IRStore.setRegion; simp [AL.get_set]

theorem Inv.newRegion {s s' : IRStore} (h : Inv s) {r : Nat} {bs : List Nat}
    (hr : s.freshR r = true) (hbs : ∀ b ∈ bs, regB s b)
    (hok : s.newRegion r bs = .ok s') : Inv s' := by
  obtain ⟨a, ha⟩ := h
  unfold IRStore.newRegion at hok
  have h1 : Inv (s.setRegion r {}) := ⟨a, ha.mkRegion (freshR_not_reg hr)⟩
  exact (h1.addBlock (fun b hb => hbs b hb) (regR_setRegion s r {}) hok).1

theorem Inv.rwMoveRegionContents {s s' : IRStore} (h : Inv s) {r nr : Nat}
    (hr : s.freshR nr = true) (hok : s.rwMoveRegionContents r nr = .ok s') : Inv s' := by
  obtain ⟨a, ha⟩ := h
  unfold IRStore.rwMoveRegionContents at hok
  have h1 : Inv (s.setRegion nr {}) := ⟨a, ha.mkRegion (freshR_not_reg hr)⟩
  exact (h1.moveBlocks (regR_setRegion s nr {}) hok).1

theorem Inv.prCreateBlock {s s' : IRStore} (h : Inv s) {bip : BIP} {nb : Nat} {args : List Nat}
    (hb : s.freshB nb = true) (hargs : s.freshVs args = true) (hip : s.okBIP bip = true)
    (hok : s.prCreateBlock bip nb args = .ok s') : Inv s' := by
  obtain ⟨a, ha⟩ := h
  unfold IRStore.prCreateBlock at hok
  simp only [bind_eq_ok_iff] at hok
  obtain ⟨p, hp, hok⟩ := hok
  have h1 : Inv (s.mkBlock nb args) := ⟨a, ha.mkBlock (freshB_not_reg hb) hargs⟩
  refine (h1.insertBlocksAt (bs := [nb]) (fun b hb' => ?_) (regR_mkBlock (resolveBIP_reg ha hip hp)) hok).1
  have : b = nb := by simpa using hb'
  exact this ▸ regB_mkBlock s nb args

/-- `Block.split_before` -/
theorem Inv.splitBefore {s s' : IRStore} (h : Inv s) {b o nb : Nat} {args : List Nat}
    (hnb : s.freshB nb = true) (hargs : s.freshVs args = true) (hb : regB s b)
    (hok : s.splitBefore b o nb args = .ok s') : Inv s' := by
  obtain ⟨a, ha⟩ := h
  unfold IRStore.splitBefore at hok
  by_cases g1 : s.opParent o = some b
  · simp only [g1, ne_eq, not_true_eq_false, if_false] at hok
    cases hp : s.blockParent b with
    | none => simp [hp] at hok
    | some r =>
      simp only [hp, pure_eq_ok_iff] at hok
      subst hok
      have hfb := freshB_not_reg hnb
      obtain ⟨hempty, hnomem, hnd⟩ := ha.fresh_block hfb
      have hne : b ≠ nb := fun e => by
        unfold IR.regB at hb; rw [e, hfb] at hb; cases hb
      -- 1. the new block exists
      have h1 := ha.mkBlock hfb hargs
      rw [mkBlock_eq] at h1 ⊢
      -- 2. it is linked into the region right after `b`
      have hbr : b ∈ a.blocks r := (ha.blockL.mem_iff_parent r b).mpr hp
      have w2 := ha.blockL.insertAfter hbr hnomem
      have h2 := h1.of_blockL (l := s.blockL.insertAfter r b nb) w2 (fun c x hx => by
        have rr : regR s r := (ha.regBlocks r b hbr).2
        by_cases hc : c = r
        · subst hc
          rw [Function.update_self, mem_insAfter hbr] at hx
          rcases hx with e | e
          · subst e
            exact ⟨by unfold IR.regB; simp [AL.get_set], rr⟩
          · have := ha.regBlocks c x e
            exact ⟨by
              have h3 := this.1
              unfold IR.regB at *; simp only [AL.get_set]; split <;> simp [h3], this.2⟩
        · rw [Function.update_of_ne hc] at hx
          have := ha.regBlocks c x hx
          exact ⟨by
            have h3 := this.1
            unfold IR.regB at *; simp only [AL.get_set]; split <;> simp [h3], this.2⟩)
      -- 3. the operations from `o` on move into it
      have hom : o ∈ a.ops b := (ha.opL.mem_iff_parent b o).mpr g1
      obtain ⟨pre, post, hab⟩ := List.append_of_mem hom
      have w3 := ha.opL.splitBefore hab hempty hne
      have h3 := h2.of_opL (l := s.opL.splitBefore b o nb) w3 (fun c x hx => by
        have old : ∀ c x, x ∈ a.ops c → regO s x ∧ regB s c := ha.regOps
        have up : ∀ x, regB s x → (AL.get (AL.set s.blocks nb ({ args := args } : BlockData)) x).isSome := by
          intro x hx
          unfold IR.regB at hx; simp only [AL.get_set]; split <;> simp [hx]
        by_cases hc : c = nb
        · subst hc
          rw [Function.update_self] at hx
          have : x ∈ a.ops b := by rw [hab]; exact List.mem_append_right _ hx
          exact ⟨(old b x this).1, by unfold IR.regB; simp [AL.get_set]⟩
        · rw [Function.update_of_ne hc] at hx
          by_cases hc' : c = b
          · subst hc'
            rw [Function.update_self] at hx
            have : x ∈ a.ops c := by rw [hab]; exact List.mem_append_left _ hx
            exact ⟨(old c x this).1, up c (old c x this).2⟩
          · rw [Function.update_of_ne hc'] at hx
            exact ⟨(old c x hx).1, up c (old c x hx).2⟩)
      exact ⟨_, h3⟩
  · simp [g1] at hok

end Xdsl.IR
