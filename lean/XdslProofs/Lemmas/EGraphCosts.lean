import XdslProofs.Lemmas.EGraphCreate
import XdslProofs.Lemmas.AL
/-!
`createEclasses` establishes the creation invariant, `addCosts` only writes valid `min_cost_index`
values, and together they give the extraction invariant (C28, totality part).  No Mathlib.
-/
namespace Xdsl.EGraph

variable {V : Type}

/-! ## `eqsat-create-eclasses` establishes `CInv` -/

theorem createEclasses_cinv {p : Prog} (hw : WF p) (ho : Ordered p) :
    ∃ U, CInv (createEclasses p) U ∧ (createEclasses p).nargs = p.nargs := by
  have hb := below_maxId p
  let base := maxId p + 1
  let U0 : Nat → Prop := fun x => x < p.nargs ∨ x ∈ p.body.map (·.res)
  have h0 : CInv p U0 := by
    refine ⟨hw.nodup, hw.fresh, ho, ?_, ?_⟩
    · intro c a m hm
      have := hw.noCls _ hm
      simp [Node.isCls] at this
    · intro u hu
      rcases hu with h | h
      · exact Or.inl h
      · right
        simp only [List.mem_map] at h
        obtain ⟨n, hn, e⟩ := h
        exact ⟨n, hn, e, hw.noCls n hn⟩
  obtain ⟨h1, b1, n1⟩ := fold_wrapOp_cinv base (p.body.map (·.res)) 0 p U0 h0 (by simpa using hb) hw.nodup
    (fun r hr => by
      refine ⟨Or.inr hr, ?_, ?_⟩
      · simp only [List.mem_map] at hr
        obtain ⟨n, hn, e⟩ := hr
        rw [← e]; exact hb.res n hn
      · simpa [List.mem_map] using hr)
  obtain ⟨h2, n2⟩ := fold_wrapArg_cinv (base + (p.body.map (·.res)).length) (List.range p.nargs) 0 _ _ h1
    (by simpa using b1) List.nodup_range
    (fun r hr => by
      have hr' := List.mem_range.mp hr
      refine ⟨⟨Or.inl hr', ?_⟩, by rw [n1]; exact hr'⟩
      intro hmem
      simp only [List.mem_map] at hmem
      obtain ⟨n, hn, e⟩ := hmem
      have := hw.fresh n hn
      omega)
  refine ⟨fun x => (U0 x ∧ x ∉ p.body.map (·.res)) ∧ x ∉ List.range p.nargs, ?_, ?_⟩
  · unfold createEclasses createEclassesFrom
    simp only [List.length_map] at h2 ⊢
    exact h2
  · unfold createEclasses createEclassesFrom
    simp only [List.length_map] at n2 ⊢
    rw [n2, n1]

/-! ## from the creation invariant to the extraction invariant -/

theorem classIds_nodup {body : List Node} (h : (body.map (·.res)).Nodup) : (classIds body).reverse.Nodup := by
  have h1 : (classIds body).Nodup := List.Nodup.sublist (List.Sublist.map _ List.filter_sublist) h
  unfold List.Nodup at h1 ⊢
  rw [List.pairwise_reverse]
  exact h1.imp (fun hab e => hab e.symm)

theorem mem_classIds {body : List Node} {c : Nat} (h : c ∈ classIds body) : ∃ a m, Node.cls c a m ∈ body := by
  simp only [classIds, List.mem_map, List.mem_filter] at h
  obtain ⟨n, ⟨hn, hc⟩, e⟩ := h
  cases n with
  | op _ _ _ _ _ => simp [Node.isCls] at hc
  | cls r a m => simp only [Node.res] at e; subst e; exact ⟨a, m, hn⟩

theorem LInv_of_CInv {g : Prog} {U : Nat → Prop} (h : CInv g U) : LInv g (classIds g.body).reverse := by
  refine ⟨h.nodup, h.fresh, h.ord, classIds_nodup h.nodup, ?_⟩
  intro c hc
  obtain ⟨a, m, hm⟩ := mem_classIds (List.mem_reverse.mp hc)
  obtain ⟨x, rfl, rfl, hxc, hou, hnc, _⟩ := h.cls c a m hm
  exact ⟨x, none, hm, Or.inl rfl, hxc, hou, hnc⟩

/-! ## `eqsat-add-costs` writes valid indices only -/

/-- every recorded `min_cost_index` of class `r` is a position of `r`'s operand list -/
def MOK (body : List Node) (mci : AL Nat Nat) : Prop :=
  ∀ r i, AL.get mci r = some i → ∀ a m, Node.cls r a m ∈ body → i < a.length

theorem costClass_mok {g : Prog} {d : Option Nat} {r : Nat} {args : List Nat} {m0 : Option Nat}
    (hnd : (g.body.map (·.res)).Nodup) (hmem : Node.cls r args m0 ∈ g.body) :
    ∀ (st : CostSt), MOK g.body st.mci → MOK g.body (costClass g d r args st).mci := by
  unfold costClass
  have key : ∀ (l : List (Nat × Nat)), (∀ ai ∈ l, ai.2 < args.length) → ∀ (st : CostSt), MOK g.body st.mci →
      MOK g.body (l.foldl (fun st (ai : Nat × Nat) =>
        match nodeTotalCost g st.costs d ai.1 with
        | none => st
        | some t =>
          match AL.get st.costs r with
          | some best => if t < best then { costs := AL.set st.costs r t, mci := AL.set st.mci r ai.2, changed := true } else st
          | none => { costs := AL.set st.costs r t, mci := AL.set st.mci r ai.2, changed := true }) st).mci := by
    intro l
    induction l with
    | nil => intro _ st h; exact h
    | cons ai l ih =>
      intro hl st h
      simp only [List.foldl_cons]
      apply ih (fun x hx => hl x (by simp [hx]))
      have hset : MOK g.body (AL.set st.mci r ai.2) := by
        intro r' i hget a m hm
        rw [AL.get_set] at hget
        split at hget
        · rename_i e
          subst e
          cases hget
          have e1 := findDef_of_mem hnd hm
          have e2 := findDef_of_mem hnd hmem
          simp only [Node.res] at e1 e2
          rw [e1] at e2
          cases e2
          exact hl ai (by simp)
        · exact h r' i hget a m hm
      split
      · exact h
      · split
        · split
          · exact hset
          · exact h
        · exact hset
  intro st h
  apply key _ _ st h
  intro ai hai
  have := List.mem_zipIdx hai
  omega

theorem costPass_mok {g : Prog} {d : Option Nat} (hnd : (g.body.map (·.res)).Nodup) (st : CostSt)
    (h : MOK g.body st.mci) : MOK g.body (costPass g d st).mci := by
  unfold costPass
  have key : ∀ (l : List Node), (∀ n ∈ l, n ∈ g.body) → ∀ (st : CostSt), MOK g.body st.mci →
      MOK g.body (l.foldl (fun st n => match n with
        | .cls r args _ => costClass g d r args st
        | _ => st) st).mci := by
    intro l
    induction l with
    | nil => intro _ st h; exact h
    | cons n l ih =>
      intro hl st h
      simp only [List.foldl_cons]
      apply ih (fun x hx => hl x (by simp [hx]))
      cases n with
      | op _ _ _ _ _ => exact h
      | cls r args m => exact costClass_mok hnd (hl (.cls r args m) (by simp)) st h
  exact key g.body (fun _ h => h) _ h

theorem costFix_mok {g : Prog} {d : Option Nat} (hnd : (g.body.map (·.res)).Nodup) :
    ∀ (fuel : Nat) (st : CostSt), MOK g.body st.mci → MOK g.body (costFix g d fuel st).1.mci := by
  intro fuel
  induction fuel with
  | zero => intro st h; exact h
  | succ fuel ih =>
    intro st h
    simp only [costFix]
    split
    · exact ih _ (costPass_mok hnd st h)
    · exact costPass_mok hnd st h

theorem classIds_map (f : Node → Node) (hf : ∀ n, (f n).res = n.res ∧ (f n).isCls = n.isCls) (body : List Node) :
    classIds (body.map f) = classIds body := by
  induction body with
  | nil => rfl
  | cons n rest ih =>
    simp only [classIds, List.map_cons, List.filter_cons, (hf n).2] at ih ⊢
    split
    · simp only [List.map_cons, (hf n).1, ih]
    · exact ih

theorem assignBaseCosts_shape (d : Option Nat) (dict : AL String Nat) (n : Node) :
    let f : Node → Node := fun n => match n with
      | .op r nm k a none => .op r nm k a (match AL.get dict nm with | some c => some c | none => d)
      | n => n
    (f n).res = n.res ∧ (f n).args = n.args ∧ (f n).isCls = n.isCls := by
  cases n with
  | op r nm k a c => cases c <;> simp [Node.res, Node.args, Node.isCls]
  | cls r a m => simp

theorem writeMci_shape (mci : AL Nat Nat) (n : Node) :
    let f : Node → Node := fun n => match n with
      | .cls r a m => .cls r a (match AL.get mci r with | some i => some i | none => m)
      | n => n
    (f n).res = n.res ∧ (f n).args = n.args ∧ (f n).isCls = n.isCls := by
  cases n with
  | op r nm k a c => simp
  | cls r a m => simp [Node.res, Node.args, Node.isCls]

/-- `eqsat-add-costs` keeps the extraction invariant -/
theorem LInv.addCosts {g : Prog} (d : Option Nat) (dict : AL String Nat) (h : LInv g (classIds g.body).reverse) :
    LInv (addCosts d dict g) (classIds (addCosts d dict g).body).reverse ∧ (addCosts d dict g).nargs = g.nargs := by
  unfold Xdsl.EGraph.addCosts addCostsFuel
  simp only
  -- first loop
  have h1 : LInv { g with body := assignBaseCosts d dict g.body } (classIds g.body).reverse := by
    apply h.map _ (assignBaseCosts_shape d dict)
    intro c hc x m hm
    simp only [List.mem_map] at hm
    obtain ⟨n0, hn0, e⟩ := hm
    cases n0 with
    | op r nm k a c' => cases c' <;> simp at e
    | cls r a m' =>
      simp only at e
      cases e
      obtain ⟨x', m3, hm3, hmv3, _⟩ := h.cls c hc
      have e1 := findDef_of_mem h.nodup hn0
      have e2 := findDef_of_mem h.nodup hm3
      simp only [Node.res] at e1 e2
      rw [e1] at e2
      cases e2
      exact hmv3
  have hc1 : classIds (assignBaseCosts d dict g.body) = classIds g.body :=
    classIds_map _ (fun n => ⟨(assignBaseCosts_shape d dict n).1, (assignBaseCosts_shape d dict n).2.2⟩) _
  -- fixed point
  have hmok := costFix_mok (g := { g with body := assignBaseCosts d dict g.body }) (d := d) h1.nodup
    ((assignBaseCosts d dict g.body).length + 2) {} (by intro r i hget; simp at hget)
  generalize (costFix { g with body := assignBaseCosts d dict g.body } d ((assignBaseCosts d dict g.body).length + 2) {}).1 = st at hmok
  -- write-back
  have h2 : LInv { g with body := writeMci st.mci (assignBaseCosts d dict g.body) } (classIds g.body).reverse := by
    apply h1.map _ (writeMci_shape st.mci)
    intro c hc x m hm
    simp only [List.mem_map] at hm
    obtain ⟨n0, hn0, e⟩ := hm
    cases n0 with
    | op r nm k a c' => simp at e
    | cls r a m' =>
      simp only [Node.cls.injEq] at e
      obtain ⟨rfl, rfl, e3⟩ := e
      obtain ⟨x', m3, hm3, hmv3, _⟩ := h1.cls r hc
      have e1 := findDef_of_mem h1.nodup hn0
      have e2 := findDef_of_mem h1.nodup hm3
      simp only [Node.res] at e1 e2
      rw [e1] at e2
      cases e2
      cases hg : AL.get st.mci r with
      | none => rw [hg] at e3; rw [← e3]; exact hmv3
      | some i =>
        rw [hg] at e3
        have := hmok r i hg [x] m' hn0
        simp at this
        subst this
        exact Or.inr e3.symm
  have hc2 : classIds (writeMci st.mci (assignBaseCosts d dict g.body)) = classIds g.body := by
    rw [← hc1]
    exact classIds_map _ (fun n => ⟨(writeMci_shape st.mci n).1, (writeMci_shape st.mci n).2.2⟩) _
  refine ⟨?_, trivial⟩
  rw [hc2]
  exact h2

end Xdsl.EGraph
