import XdslModel.DLLStream
import XdslProofs.Lemmas.DLL
/-!
# The single-pass loops of `Region.add_block` / `Region.insert_block_before` (`XdslModel/DLLStream.lean`)

* `Ext a b`: two pointer structures agree on every node and every container — everything a traversal
  can read.  `Ext` is a congruence for the primitives.
* `insertStreamBefore_ext` / `appendStream_ext`: the hand-written loop that consumes the argument
  once, element by element, and repairs the outer link at the end, agrees (`Ext`) with the fold of the
  one-element primitive (`insertBefore` / `pushBack`) over the yielded elements.
* `WF.congr`: `WF` transports along `Ext`.
-/
namespace Xdsl.DLL
open Xdsl

namespace L

/-- `a` and `b` agree on every node and every container -/
def Ext (a b : L) : Prop := (∀ n, a.nd n = b.nd n) ∧ (∀ c, a.en c = b.en c)

theorem Ext.refl (a : L) : Ext a a := ⟨fun _ => rfl, fun _ => rfl⟩
theorem Ext.symm {a b : L} (h : Ext a b) : Ext b a := ⟨fun n => (h.1 n).symm, fun c => (h.2 c).symm⟩
theorem Ext.trans {a b c : L} (h : Ext a b) (h' : Ext b c) : Ext a c :=
  ⟨fun n => (h.1 n).trans (h'.1 n), fun d => (h.2 d).trans (h'.2 d)⟩

theorem Ext.setNd {a b : L} (h : Ext a b) (n : Nat) (x : Node) : Ext (a.setNd n x) (b.setNd n x) :=
  ⟨fun m => by simp [h.1 m], fun c => by simp [h.2 c]⟩
theorem Ext.setEn {a b : L} (h : Ext a b) (c : Nat) (e : Ends) : Ext (a.setEn c e) (b.setEn c e) :=
  ⟨fun m => by simp [h.1 m], fun d => by simp [h.2 d]⟩
theorem Ext.setNext {a b : L} (h : Ext a b) (n : Nat) (v : Option Nat) : Ext (a.setNext n v) (b.setNext n v) := by
  unfold L.setNext; rw [h.1 n]; exact h.setNd _ _
theorem Ext.setPrev {a b : L} (h : Ext a b) (n : Nat) (v : Option Nat) : Ext (a.setPrev n v) (b.setPrev n v) := by
  unfold L.setPrev; rw [h.1 n]; exact h.setNd _ _
theorem Ext.setParent {a b : L} (h : Ext a b) (n : Nat) (v : Option Nat) :
    Ext (a.setParent n v) (b.setParent n v) := by
  unfold L.setParent; rw [h.1 n]; exact h.setNd _ _
theorem Ext.setFirst {a b : L} (h : Ext a b) (c : Nat) (v : Option Nat) : Ext (a.setFirst c v) (b.setFirst c v) := by
  unfold L.setFirst; rw [h.2 c]; exact h.setEn _ _
theorem Ext.setLast {a b : L} (h : Ext a b) (c : Nat) (v : Option Nat) : Ext (a.setLast c v) (b.setLast c v) := by
  unfold L.setLast; rw [h.2 c]; exact h.setEn _ _

theorem Ext.insertBefore {a b : L} (h : Ext a b) (c ex new : Nat) :
    Ext (a.insertBefore c ex new) (b.insertBefore c ex new) := by
  unfold L.insertBefore
  simp only [h.1 ex]
  cases (b.nd ex).prev with
  | none => exact ((h.setNd _ _).setPrev _ _).setFirst _ _
  | some x => exact ((h.setNext _ _).setNd _ _).setPrev _ _

theorem Ext.insertAfter {a b : L} (h : Ext a b) (c ex new : Nat) :
    Ext (a.insertAfter c ex new) (b.insertAfter c ex new) := by
  unfold L.insertAfter
  simp only [h.1 ex]
  cases (b.nd ex).next with
  | none => exact ((h.setNd _ _).setNext _ _).setLast _ _
  | some x => exact ((h.setPrev _ _).setNd _ _).setNext _ _

theorem Ext.pushBack {a b : L} (h : Ext a b) (c new : Nat) : Ext (a.pushBack c new) (b.pushBack c new) := by
  unfold L.pushBack
  simp only [h.2 c]
  cases (b.en c).last with
  | none => exact (h.setNd _ _).setEn _ _
  | some l => exact h.insertAfter _ _ _

theorem Ext.foldl {α : Type} (step : L → α → L) (hstep : ∀ a b x, Ext a b → Ext (step a x) (step b x))
    (xs : List α) : ∀ {a b : L}, Ext a b → Ext (xs.foldl step a) (xs.foldl step b) := by
  induction xs with
  | nil => intro a b h; exact h
  | cons x r ih => intro a b h; exact ih (hstep a b x h)

theorem Ext.closeBefore {a b : L} (h : Ext a b) (p t : Nat) : Ext (a.closeBefore p t) (b.closeBefore p t) :=
  (h.setNext _ _).setPrev _ _

/-! ### `insert_block_before` -/

/-- one round of the loop followed by the repair = the repair followed by the one-element primitive -/
theorem closeBefore_linkAfter (s : L) (c t prev nb : Nat) (h1 : nb ≠ prev) (h2 : nb ≠ t) (h3 : prev ≠ t) :
    Ext ((s.linkAfter c prev nb).closeBefore nb t) ((s.closeBefore prev t).insertBefore c t nb) := by
  have hpv : ((s.closeBefore prev t).nd t).prev = some prev := by simp [L.closeBefore]
  unfold L.insertBefore
  simp only [hpv]
  refine ⟨fun n => ?_, fun d => ?_⟩
  · simp only [L.closeBefore, L.linkAfter, nd_setNext, nd_setPrev, nd_setParent, nd_setNd, Option.isNone_some,
      Bool.false_eq_true, if_false]
    by_cases e1 : n = t
    · subst e1
      simp [Ne.symm h2, Ne.symm h3]
    · by_cases e2 : n = nb
      · subst e2
        simp [h1, h2]
      · by_cases e3 : n = prev
        · subst e3
          simp [e1, e2]
        · simp [e1, e2, e3]
  · simp [L.closeBefore, L.linkAfter]

/-- the loop from `prev` over `bs`, then the repair = the fold of `insertBefore … t` over `bs` started
from the repaired state -/
theorem linkChain_closeBefore (c t : Nat) (bs : List Nat) : ∀ (s : L) (prev : Nat), prev ∉ bs → t ∉ bs → prev ≠ t →
    bs.Nodup →
    Ext ((s.linkChain c prev bs).1.closeBefore (s.linkChain c prev bs).2 t)
      (bs.foldl (fun s b => s.insertBefore c t b) (s.closeBefore prev t)) := by
  induction bs with
  | nil => intro s prev _ _ _ _; exact Ext.refl _
  | cons nb rest ih =>
    intro s prev hp ht hpt hn
    simp only [List.mem_cons, not_or] at hp ht
    have hn' := List.nodup_cons.mp hn
    simp only [L.linkChain, List.foldl_cons]
    refine (ih (s.linkAfter c prev nb) nb hn'.1 ht.2 (Ne.symm ht.1) hn'.2).trans ?_
    exact Ext.foldl _ (fun a b x h => h.insertBefore c t x) rest
      (closeBefore_linkAfter s c t prev nb (Ne.symm hp.1) (Ne.symm ht.1) hpt)

/-- **`Region.insert_block_before` traverses its argument once.**  The hand-written loop
(`insertStreamBefore`: first block special-cased when the target is the first block, every further
block linked behind the previous one, the link to the target repaired at `StopIteration`) agrees on
every node and container with inserting the yielded blocks before `t` one at a time.  Hypotheses = what
`_attach_block` guarantees on consistent IR: the blocks are distinct and detached (null links), the
target and its predecessor are not among them. -/
theorem insertStreamBefore_ext (s : L) (c t : Nat) (bs : List Nat) (hn : bs.Nodup) (ht : t ∉ bs)
    (hfree : ∀ b ∈ bs, (s.nd b).prev = none)
    (hp : ∀ p, (s.nd t).prev = some p → p ∉ bs ∧ p ≠ t ∧ (s.nd p).next = some t) :
    Ext (s.insertStreamBefore c t bs) (bs.foldl (fun s b => s.insertBefore c t b) s) := by
  unfold L.insertStreamBefore
  cases hpv : (s.nd t).prev with
  | none =>
    cases bs with
    | nil => exact Ext.refl _
    | cons b rest =>
      simp only [List.mem_cons, not_or] at ht
      have hn' := List.nodup_cons.mp hn
      have hbt : b ≠ t := Ne.symm ht.1
      simp only [List.foldl_cons]
      refine (linkChain_closeBefore c t rest _ b hn'.1 ht.2 hbt hn'.2).trans ?_
      refine Ext.foldl _ (fun a b x h => h.insertBefore c t x) rest ?_
      have hb := hfree b (List.mem_cons_self ..)
      unfold L.insertBefore
      simp only [hpv]
      refine ⟨fun n => ?_, fun d => ?_⟩
      · simp only [L.closeBefore, nd_setNext, nd_setPrev, nd_setParent, nd_setNd, nd_setFirst, Option.isNone_none,
          if_true]
        by_cases e1 : n = t
        · subst e1; simp [Ne.symm hbt]
        · by_cases e2 : n = b
          · subst e2; simp [hbt, hb]
          · simp [e1, e2]
      · simp [L.closeBefore]
  | some p =>
    obtain ⟨hpb, hpt, hpn⟩ := hp p hpv
    simp only
    refine (linkChain_closeBefore c t bs s p hpb ht hpt hn).trans ?_
    refine Ext.foldl _ (fun a b x h => h.insertBefore c t x) bs ?_
    refine ⟨fun n => ?_, fun d => by simp [L.closeBefore]⟩
    simp only [L.closeBefore, nd_setNext, nd_setPrev]
    by_cases e1 : n = t
    · subst e1; simp [Ne.symm hpt, ← hpv]
    · by_cases e2 : n = p
      · subst e2; simp [e1, ← hpn]
      · simp [e1, e2]

/-! ### `add_block` -/

/-- one round of the loop followed by `_last_block = prev_block` = `pushBack` -/
theorem setLast_linkAfter (s : L) (c prev nb : Nat) (h1 : nb ≠ prev) (hnx : (s.nd prev).next = none)
    (hnb : (s.nd nb).next = none) :
    Ext ((s.linkAfter c prev nb).setLast c (some nb)) ((s.setLast c (some prev)).pushBack c nb) := by
  have hl : ((s.setLast c (some prev)).en c).last = some prev := by simp
  unfold L.pushBack
  simp only [hl]
  unfold L.insertAfter
  simp only [nd_setLast, hnx]
  refine ⟨fun n => ?_, fun d => ?_⟩
  · simp only [L.linkAfter, nd_setNext, nd_setPrev, nd_setParent, nd_setNd, nd_setLast, Option.isNone_none, if_true]
    by_cases e2 : n = nb
    · subst e2; simp [h1, hnb]
    · by_cases e3 : n = prev
      · subst e3; simp [e2]
      · simp [e2, e3]
  · simp only [L.linkAfter, Option.isNone_none, if_true, en_setLast, en_setNext, en_setNd, en_setPrev, en_setParent]
    by_cases e : d = c
    · subst e; simp
    · simp [e]

theorem linkChain_setLast (c : Nat) (bs : List Nat) : ∀ (s : L) (prev : Nat), prev ∉ bs → bs.Nodup →
    (s.nd prev).next = none → (∀ b ∈ bs, (s.nd b).next = none) →
    Ext ((s.linkChain c prev bs).1.setLast c (some (s.linkChain c prev bs).2))
      (bs.foldl (fun s b => s.pushBack c b) (s.setLast c (some prev))) := by
  induction bs with
  | nil => intro s prev _ _ _ _; exact Ext.refl _
  | cons nb rest ih =>
    intro s prev hp hn hnx hfree
    simp only [List.mem_cons, not_or] at hp
    have hn' := List.nodup_cons.mp hn
    have hnb := hfree nb (List.mem_cons_self ..)
    simp only [L.linkChain, List.foldl_cons]
    have hne : nb ≠ prev := Ne.symm hp.1
    refine (ih (s.linkAfter c prev nb) nb hn'.1 hn'.2 ?_ ?_).trans ?_
    · simp [L.linkAfter, hne, hnb]
    · intro b hb
      have h1 : b ≠ nb := fun e => hn'.1 (e ▸ hb)
      have h2 : b ≠ prev := fun e => hp.2 (e ▸ hb)
      simp [L.linkAfter, h1, h2, hfree b (List.mem_cons_of_mem _ hb)]
    · exact Ext.foldl _ (fun a b x h => h.pushBack c x) rest (setLast_linkAfter s c prev nb hne hnx hnb)

/-- **`Region.add_block` traverses its argument once**: the hand-written loop agrees on every node and
container with appending the yielded blocks one at a time.  Hypotheses = what `_attach_block`
guarantees on consistent IR (blocks distinct and detached; the last block of the region is not among
them and has no successor). -/
theorem appendStream_ext (s : L) (c : Nat) (bs : List Nat) (hn : bs.Nodup)
    (hfree : ∀ b ∈ bs, (s.nd b).next = none ∧ (s.nd b).prev = none)
    (hl : ∀ l, (s.en c).last = some l → l ∉ bs ∧ (s.nd l).next = none) :
    Ext (s.appendStream c bs) (bs.foldl (fun s b => s.pushBack c b) s) := by
  unfold L.appendStream
  cases hlast : (s.en c).last with
  | none =>
    cases bs with
    | nil => exact Ext.refl _
    | cons b rest =>
      have hn' := List.nodup_cons.mp hn
      have hb := hfree b (List.mem_cons_self ..)
      simp only [List.foldl_cons]
      refine (linkChain_setLast c rest _ b hn'.1 hn'.2 ?_ ?_).trans ?_
      · simp [hb.1]
      · intro x hx
        have : x ≠ b := fun e => hn'.1 (e ▸ hx)
        simp [this, (hfree x (List.mem_cons_of_mem _ hx)).1]
      · refine Ext.foldl _ (fun a b x h => h.pushBack c x) rest ?_
        unfold L.pushBack
        simp only [hlast]
        refine ⟨fun n => ?_, fun d => ?_⟩
        · simp only [nd_setLast, nd_setFirst, nd_setParent, nd_setEn, nd_setNd]
          by_cases e : n = b
          · subst e
            have : s.nd n = { next := none, prev := none, parent := (s.nd n).parent } := by
              rcases hx : s.nd n with ⟨nx, pv, pa⟩
              rw [hx] at hb
              obtain ⟨h1, h2⟩ := hb
              simp only at h1 h2
              subst h1 h2
              rfl
            rw [if_pos rfl, if_pos rfl, this]
          · simp [e]
        · simp only [en_setLast, en_setFirst, en_setParent, en_setEn, en_setNd]
          by_cases e : d = c
          · subst e; simp [hlast]
          · simp [e]
  | some l =>
    obtain ⟨hlb, hlnx⟩ := hl l hlast
    simp only
    refine (linkChain_setLast c bs s l hlb hn hlnx (fun b hb => (hfree b hb).1)).trans ?_
    refine Ext.foldl _ (fun a b x h => h.pushBack c x) bs ?_
    refine ⟨fun n => by simp, fun d => ?_⟩
    by_cases e : d = c
    · subst e; simp [← hlast]
    · simp [e]

/-! ### `has` (which nodes have an entry) and transport of `WF` -/

theorem has_linkAfter (s : L) (c prev nb m : Nat) : s.has m ∨ m = nb → (s.linkAfter c prev nb).has m := by
  intro h
  simp only [L.linkAfter, has_setNext, has_setPrev, has_setParent]
  rcases h with h | h
  · exact Or.inr (Or.inr (Or.inr h))
  · exact Or.inr (Or.inl h)

theorem has_linkChain (c : Nat) (bs : List Nat) : ∀ (s : L) (prev m : Nat), s.has m ∨ m ∈ bs →
    (s.linkChain c prev bs).1.has m := by
  induction bs with
  | nil => intro s prev m h; simpa [L.linkChain] using h
  | cons nb rest ih =>
    intro s prev m h
    simp only [L.linkChain]
    apply ih
    rcases h with h | h
    · exact Or.inl (has_linkAfter s c prev nb m (Or.inl h))
    · rcases List.mem_cons.mp h with h | h
      · exact Or.inl (has_linkAfter s c prev nb m (Or.inr h))
      · exact Or.inr h

theorem has_insertStreamBefore (s : L) (c t : Nat) (bs : List Nat) (m : Nat) (h : s.has m ∨ m ∈ bs) :
    (s.insertStreamBefore c t bs).has m := by
  unfold L.insertStreamBefore
  cases (s.nd t).prev with
  | none =>
    cases bs with
    | nil => simpa using h
    | cons b rest =>
      simp only [L.closeBefore, has_setNext, has_setPrev]
      refine Or.inr (Or.inr (has_linkChain c rest _ b m ?_))
      rcases h with h | h
      · exact Or.inl (by simp [has_setNext, has_setParent, h])
      · rcases List.mem_cons.mp h with h | h
        · exact Or.inl (by simp [has_setNext, has_setParent, h])
        · exact Or.inr h
  | some p =>
    simp only [L.closeBefore, has_setNext, has_setPrev]
    exact Or.inr (Or.inr (has_linkChain c bs s p m h))

theorem has_appendStream (s : L) (c : Nat) (bs : List Nat) (m : Nat) (h : s.has m ∨ m ∈ bs) :
    (s.appendStream c bs).has m := by
  unfold L.appendStream
  cases (s.en c).last with
  | none =>
    cases bs with
    | nil => simpa using h
    | cons b rest =>
      simp only [has_setLast]
      refine has_linkChain c rest _ b m ?_
      rcases h with h | h
      · exact Or.inl (by simp [has_setParent, h])
      · rcases List.mem_cons.mp h with h | h
        · exact Or.inl (by simp [has_setParent, h])
        · exact Or.inr h
  | some l =>
    simp only [has_setLast]
    exact has_linkChain c bs s l m h

end L

/-- `WF` only reads nodes and containers: it transports along `Ext` (entries for the members given) -/
theorem WF.congr {a b : L} {f : Nat → List Nat} (h : WF a f) (e : L.Ext b a) (hh : ∀ c n, n ∈ f c → b.has n) :
    WF b f where
  rep c := by
    have r := h.rep c
    exact ⟨by rw [e.2 c]; exact r.first, by rw [e.2 c]; exact r.last, fun n hn => by rw [e.1 n]; exact r.link n hn,
      r.nodup⟩
  disj := h.disj
  free n hn := by rw [e.1 n]; exact h.free n hn
  has := hh

/-! ### the loops on the level of the abstract lists -/

theorem mem_foldl_insBefore (t : Nat) (bs : List Nat) : ∀ {l : List Nat}, t ∈ l → ∀ m,
    m ∈ bs.foldl (fun l b => insBefore l t b) l ↔ m ∈ bs ∨ m ∈ l := by
  induction bs with
  | nil => intro l _ m; simp
  | cons b rest ih =>
    intro l ht m
    have ht' : t ∈ insBefore l t b := (mem_insBefore ht b t).mpr (Or.inr ht)
    simp only [List.foldl_cons, ih ht', mem_insBefore ht, List.mem_cons]
    tauto

theorem WF.foldInsertBefore (c t : Nat) (bs : List Nat) : ∀ {s : L} {f : Nat → List Nat}, WF s f → t ∈ f c →
    bs.Nodup → (∀ b ∈ bs, ∀ d, b ∉ f d) →
    WF (bs.foldl (fun s b => s.insertBefore c t b) s)
      (Function.update f c (bs.foldl (fun l b => insBefore l t b) (f c))) := by
  induction bs with
  | nil => intro s f h _ _ _; simpa using h
  | cons b rest ih =>
    intro s f h ht hn hfree
    have hn' := List.nodup_cons.mp hn
    have h1 := h.insertBefore ht (hfree b (List.mem_cons_self ..))
    have ht1 : t ∈ Function.update f c (insBefore (f c) t b) c := by
      rw [Function.update_self]; exact (mem_insBefore ht b t).mpr (Or.inr ht)
    have := ih h1 ht1 hn'.2 (fun x hx d => by
      by_cases hd : d = c
      · subst hd
        rw [Function.update_self, mem_insBefore ht]
        rintro (e | e)
        · exact hn'.1 (e ▸ hx)
        · exact hfree x (List.mem_cons_of_mem _ hx) d e
      · rw [Function.update_of_ne hd]; exact hfree x (List.mem_cons_of_mem _ hx) d)
    simpa [Function.update_self, Function.update_idem] using this

theorem WF.foldPushBack (c : Nat) (bs : List Nat) : ∀ {s : L} {f : Nat → List Nat}, WF s f →
    bs.Nodup → (∀ b ∈ bs, ∀ d, b ∉ f d) →
    WF (bs.foldl (fun s b => s.pushBack c b) s) (Function.update f c (f c ++ bs)) := by
  induction bs with
  | nil => intro s f h _ _; simpa using h
  | cons b rest ih =>
    intro s f h hn hfree
    have hn' := List.nodup_cons.mp hn
    have h1 := h.pushBack (c := c) (hfree b (List.mem_cons_self ..))
    have := ih h1 hn'.2 (fun x hx d => by
      by_cases hd : d = c
      · subst hd
        rw [Function.update_self, List.mem_append, List.mem_singleton]
        rintro (e | e)
        · exact hfree x (List.mem_cons_of_mem _ hx) d e
        · exact hn'.1 (e ▸ hx)
      · rw [Function.update_of_ne hd]; exact hfree x (List.mem_cons_of_mem _ hx) d)
    simpa [Function.update_self, Function.update_idem, List.append_assoc] using this

/-- `Region.insert_block_before` on consistent IR, blocks distinct and detached: the single-pass loop
agrees with the one-at-a-time insertion and represents the list with the blocks inserted before `t` -/
theorem WF.insertStreamBefore {s : L} {f : Nat → List Nat} (h : WF s f) {c t : Nat} (ht : t ∈ f c)
    {bs : List Nat} (hn : bs.Nodup) (hfree : ∀ b ∈ bs, ∀ d, b ∉ f d) :
    L.Ext (s.insertStreamBefore c t bs) (bs.foldl (fun s b => s.insertBefore c t b) s) ∧
    WF (s.insertStreamBefore c t bs) (Function.update f c (bs.foldl (fun l b => insBefore l t b) (f c))) := by
  have r := h.rep c
  have hext : L.Ext (s.insertStreamBefore c t bs) (bs.foldl (fun s b => s.insertBefore c t b) s) := by
    refine L.insertStreamBefore_ext s c t bs hn (fun e => hfree t e c ht)
      (fun b hb => by rw [h.free b (hfree b hb)]) (fun p hp => ?_)
    rw [r.link t ht] at hp
    have hnx : nextOf (f c) p = some t := (prevOf_eq_some_iff r.nodup p t).mp hp
    have hm := mem_of_nextOf hnx
    refine ⟨fun e => hfree p e c hm.1, fun e => nextOf_self_ne r.nodup p (e ▸ hnx), ?_⟩
    rw [r.link p hm.1]; exact hnx
  refine ⟨hext, (h.foldInsertBefore c t bs ht hn hfree).congr hext (fun d n hm => ?_)⟩
  apply L.has_insertStreamBefore
  by_cases hd : d = c
  · subst hd
    rw [Function.update_self, mem_foldl_insBefore t bs ht] at hm
    rcases hm with hm | hm
    · exact Or.inr hm
    · exact Or.inl (h.has d n hm)
  · rw [Function.update_of_ne hd] at hm
    exact Or.inl (h.has d n hm)

/-- `Region.add_block` on consistent IR, blocks distinct and detached -/
theorem WF.appendStream {s : L} {f : Nat → List Nat} (h : WF s f) {c : Nat}
    {bs : List Nat} (hn : bs.Nodup) (hfree : ∀ b ∈ bs, ∀ d, b ∉ f d) :
    L.Ext (s.appendStream c bs) (bs.foldl (fun s b => s.pushBack c b) s) ∧
    WF (s.appendStream c bs) (Function.update f c (f c ++ bs)) := by
  have r := h.rep c
  have hext : L.Ext (s.appendStream c bs) (bs.foldl (fun s b => s.pushBack c b) s) := by
    refine L.appendStream_ext s c bs hn (fun b hb => by rw [h.free b (hfree b hb)]; exact ⟨rfl, rfl⟩)
      (fun l hl => ?_)
    rw [r.last] at hl
    have hm : l ∈ f c := List.mem_of_getLast? hl
    refine ⟨fun e => hfree l e c hm, ?_⟩
    rw [r.link l hm]; exact (nextOf_eq_none_iff r.nodup hm).mpr hl
  refine ⟨hext, (h.foldPushBack c bs hn hfree).congr hext (fun d n hm => ?_)⟩
  apply L.has_appendStream
  by_cases hd : d = c
  · subst hd
    rw [Function.update_self, List.mem_append] at hm
    rcases hm with hm | hm
    · exact Or.inl (h.has d n hm)
    · exact Or.inr hm
  · rw [Function.update_of_ne hd] at hm
    exact Or.inl (h.has d n hm)

end Xdsl.DLL
